(* The tries built by trie_of from uniform clusters without widening satisfy trie_like, hence
   all results of HopcroftInv.v apply to them. *)
From Grex Require Import Base.Str Model.Config Model.Cluster Model.Dfa Model.Expr.
From Grex Require Import Proofs.Lang Proofs.TrieLang Proofs.HopSets Proofs.HopcroftInv.

(* ---------- comparisons that decide equality ---------- *)
Lemma strs_eqb_false : forall a b, strs_eqb a b = false -> a <> b.
Proof. intros a b H K. subst. rewrite strs_eqb_refl in H. discriminate. Qed.

Lemma str_cmp_eq : forall a b, str_cmp a b = Eq -> a = b.
Proof.
  induction a as [|x a IH]; destruct b as [|y b]; simpl; intros H; try discriminate; auto.
  destruct (N.compare x y) eqn:E; try discriminate. apply N.compare_eq in E. f_equal; auto.
Qed.

Lemma strs_cmp_eq : forall a b, list_cmp str_cmp a b = Eq -> a = b.
Proof.
  induction a as [|x a IH]; destruct b as [|y b]; simpl; intros H; try discriminate; auto.
  destruct (str_cmp x y) eqn:E; try discriminate. apply str_cmp_eq in E. f_equal; auto.
Qed.

Definition geq3 (g h : grapheme) : Prop :=
  g_chars g = g_chars h /\ g_min g = g_min h /\ g_max g = g_max h.

Lemma geq3_refl : forall g, geq3 g g.
Proof. intros g. unfold geq3. auto. Qed.

Lemma g_cmp_eq : forall a b, g_cmp a b = Eq -> geq3 a b.
Proof.
  intros [c1 r1 m1 x1] [c2 r2 m2 x2]. simpl. unfold geq3; simpl.
  destruct (list_cmp str_cmp c1 c2) eqn:E1; try discriminate.
  match goal with
  | |- context [match ?t with Eq => _ | Lt => _ | Gt => _ end] => destruct t
  end; try discriminate.
  destruct (N.compare m1 m2) eqn:E2; try discriminate. intros E3.
  apply strs_cmp_eq in E1. apply N.compare_eq in E2. apply N.compare_eq in E3. auto.
Qed.

(* ---------- the alphabet ---------- *)
Lemma alpha_add_in : forall g al c, In c (alpha_add g al) -> c = g \/ In c al.
Proof.
  intros g. induction al as [|h al IH]; intros c H; simpl in H.
  - destruct H as [H|[]]; auto.
  - destruct (g_cmp g h).
    + auto.
    + destruct H as [H|H]; auto.
    + destruct H as [H|H]; [right; left; exact H|].
      apply IH in H. destruct H; [auto|right; right; auto].
Qed.

Lemma alpha_add_keep : forall g al c, In c al -> In c (alpha_add g al).
Proof.
  intros g. induction al as [|h al IH]; intros c H; [destruct H|].
  simpl. destruct (g_cmp g h).
  - exact H.
  - right. exact H.
  - destruct H as [H|H]; [left; exact H|right; apply IH; exact H].
Qed.

Lemma alpha_add_has : forall g al, exists c, In c (alpha_add g al) /\ geq3 g c.
Proof.
  intros g. induction al as [|h al IH]; simpl.
  - exists g. split; [left; reflexivity|apply geq3_refl].
  - destruct (g_cmp g h) eqn:E.
    + exists h. split; [left; reflexivity|apply g_cmp_eq; exact E].
    + exists g. split; [left; reflexivity|apply geq3_refl].
    + destruct IH as (c & H1 & H2). exists c. split; [right; exact H1|exact H2].
Qed.

Definition alpha_fold (cl : cluster) (al : list grapheme) : list grapheme :=
  fold_left (fun al g => alpha_add g al) cl al.

Lemma alpha_fold_in : forall cl al c, In c (alpha_fold cl al) -> In c cl \/ In c al.
Proof.
  unfold alpha_fold. induction cl as [|g cl IH]; intros al c H; simpl in H; [auto|].
  apply IH in H. destruct H as [H|H]; [left; right; exact H|].
  apply alpha_add_in in H. destruct H as [H|H]; [left; left; auto|right; exact H].
Qed.

Lemma alpha_fold_keep : forall cl al c, In c al -> In c (alpha_fold cl al).
Proof.
  unfold alpha_fold. induction cl as [|g cl IH]; intros al c H; simpl; [exact H|].
  apply IH. apply alpha_add_keep. exact H.
Qed.

Lemma alpha_fold_has : forall cl al g, In g cl -> exists c, In c (alpha_fold cl al) /\ geq3 g c.
Proof.
  unfold alpha_fold. induction cl as [|g0 cl IH]; intros al g H; [destruct H|].
  simpl. destruct H as [H|H].
  - subst g0. destruct (alpha_add_has g al) as (c & H1 & H2). exists c. split; [|exact H2].
    apply (alpha_fold_keep cl). exact H1.
  - apply IH. exact H.
Qed.

(* ---------- the scan found nothing ---------- *)
Lemma scan_none : forall es cur g ns,
  find_next_scan es cur g ns = Some NNone ->
  forall nx e, In nx ns -> find_edge es cur nx = Some e ->
    ~ (g_chars (e_lbl e) = g_chars g /\ g_max (e_lbl e) = g_max g).
Proof.
  intros es cur g. induction ns as [|a ns IH]; intros H nx e Hnx F; [destruct Hnx|].
  simpl in H. destruct (find_edge es cur a) as [e0|] eqn:F0; [|discriminate].
  destruct (strs_eqb (g_chars (e_lbl e0)) (g_chars g)) eqn:Ec; simpl in H.
  - destruct (N.eqb (g_max (e_lbl e0)) (g_max g - 1)) eqn:E1; [discriminate|].
    destruct (N.eqb (g_max (e_lbl e0)) (g_max g)) eqn:E2; [discriminate|].
    destruct Hnx as [Hnx|Hnx].
    + subst a. rewrite F0 in F. inversion F; subst e0. apply N.eqb_neq in E2. tauto.
    + eapply IH; eauto.
  - destruct Hnx as [Hnx|Hnx].
    + subst a. rewrite F0 in F. inversion F; subst e0. apply strs_eqb_false in Ec. tauto.
    + eapply IH; eauto.
Qed.

(* ---------- the invariant of the edge set ---------- *)
Record J (st : tstate) : Prop := {
  j_ok : st_ok st;
  j_in : forall e1 e2, In e1 (t_edges st) -> In e2 (t_edges st) -> e_dst e1 = e_dst e2 -> e1 = e2;
  j_det : forall e1 e2, In e1 (t_edges st) -> In e2 (t_edges st) -> e_src e1 = e_src e2 ->
            g_chars (e_lbl e1) = g_chars (e_lbl e2) -> g_max (e_lbl e1) = g_max (e_lbl e2) ->
            e1 = e2;
  j_uni : forall e, In e (t_edges st) -> uniform_g (e_lbl e)
}.

Lemma edge_eta : forall e : edge, e = (e_src e, e_dst e, e_lbl e).
Proof. intros [[s m] g]. reflexivity. Qed.

Lemma step_J : forall st cur g st' nx,
  J st -> cur < t_n st -> uniform_g g ->
  step_insert st cur g = Some (st', nx) -> t_merged st' = false ->
  J st' /\ nx < t_n st'
  /\ (forall e, In e (t_edges st') -> In e (t_edges st) \/ e_lbl e = g).
Proof.
  intros st cur g st' nx [Hok Hin Hdet Huni] Hc Hu H Hm.
  destruct (step_ok _ _ _ _ _ Hok Hc H) as (Hok' & Hnx & _).
  unfold step_insert in H.
  destruct (find_next_scan (t_edges st) cur g (neighbors (t_edges st) cur)) as [r|] eqn:S;
    [|discriminate].
  destruct r as [s|s w|].
  - inversion H; subst. split; [constructor; auto|]. split; [exact Hnx|]. auto.
  - inversion H; subst. simpl in Hm. discriminate.
  - inversion H; subst. clear H. simpl in *. destruct Hok as [Hn He].
    assert (Hold : forall e, In e (t_edges st) -> e_src e < e_dst e /\ e_dst e < t_n st).
    { intros e Hin0. rewrite (edge_eta e) in Hin0. apply He in Hin0. exact Hin0. }
    split; [constructor; simpl|split; [exact Hnx|]].
    + exact Hok'.
    + intros e1 e2 H1 H2 Hd. apply in_app_or in H1. apply in_app_or in H2.
      destruct H1 as [H1|[H1|[]]]; destruct H2 as [H2|[H2|[]]].
      * apply Hin; auto.
      * subst e2. apply Hold in H1. unfold e_dst in *; simpl in *. lia.
      * subst e1. apply Hold in H2. unfold e_dst in *; simpl in *. lia.
      * congruence.
    + intros e1 e2 H1 H2 Hs Hch Hmx. apply in_app_or in H1. apply in_app_or in H2.
      assert (K : forall e, In e (t_edges st) -> e_src e = cur ->
                    g_chars (e_lbl e) = g_chars g -> g_max (e_lbl e) = g_max g -> False).
      { intros e Hin0 Hsrc Hch0 Hmx0.
        assert (Hnb : In (e_dst e) (neighbors (t_edges st) cur)).
        { unfold neighbors. apply in_map. unfold out_edges. apply filter_In.
          split; [rewrite <- in_rev; exact Hin0|apply Nat.eqb_eq; exact Hsrc]. }
        destruct (find_edge_neighbor _ _ _ Hnb) as [e' F].
        destruct (find_edge_some _ _ _ _ F) as (F1 & F2 & F3).
        assert (e' = e) by (apply Hin; auto). subst e'.
        apply (scan_none _ _ _ _ S _ _ Hnb F). auto. }
      destruct H1 as [H1|[H1|[]]]; destruct H2 as [H2|[H2|[]]].
      * apply Hdet; auto.
      * subst e2. exfalso. apply (K e1 H1); auto.
      * subst e1. exfalso. apply (K e2 H2); auto.
      * congruence.
    + intros e H1. apply in_app_or in H1. destruct H1 as [H1|[H1|[]]]; [auto|].
      subst e. exact Hu.
    + intros e H1. apply in_app_or in H1. destruct H1 as [H1|[H1|[]]]; [auto|].
      subst e. right. reflexivity.
Qed.

Lemma path_J : forall gs st cur st' last,
  J st -> cur < t_n st -> Forall uniform_g gs ->
  insert_path st cur gs = Some (st', last) -> t_merged st' = false ->
  J st' /\ (forall e, In e (t_edges st') -> In e (t_edges st) \/ In (e_lbl e) gs).
Proof.
  induction gs as [|g gs IH]; intros st cur st' last HJ Hc Hu H Hm; simpl in H.
  - inversion H; subst. auto.
  - destruct (step_insert st cur g) as [[st1 nx]|] eqn:S; [|discriminate].
    inversion Hu as [|? ? Hu1 Hu2]; subst.
    pose proof (path_merged_mono _ _ _ _ _ H Hm) as Hm1.
    destruct (step_J _ _ _ _ _ HJ Hc Hu1 S Hm1) as (HJ1 & Hnx & Hl1).
    destruct (IH _ _ _ _ HJ1 Hnx Hu2 H Hm) as (HJ' & Hl').
    split; [exact HJ'|]. intros e He. apply Hl' in He. destruct He as [He|He].
    + apply Hl1 in He. destruct He as [He|He]; [left; exact He|right; left; auto].
    + right. right. exact He.
Qed.

Record K (a : trie_acc) : Prop := {
  k_j : J (ta_st a);
  k_cover : forall e, In e (t_edges (ta_st a)) -> exists c, In c (ta_alpha a) /\ geq3 (e_lbl e) c;
  k_auni : forall c, In c (ta_alpha a) -> uniform_g c
}.

Lemma acc_K : forall cls a,
  Forall (Forall uniform_g) cls -> trie_acc_of cls = Some a -> t_merged (ta_st a) = false -> K a.
Proof.
  induction cls as [|cl0 cls IH] using rev_ind; intros a Hu H Hm.
  - unfold trie_acc_of in H; simpl in H. inversion H; subst. constructor; simpl.
    + constructor; simpl.
      * split; simpl; [lia|]. intros s m g [].
      * intros e1 e2 [].
      * intros e1 e2 [].
      * intros e [].
    + intros e [].
    + intros c [].
  - apply trie_acc_snoc_inv in H. destruct H as (a0 & st' & last & H0 & P & ->).
    apply Forall_app in Hu. destruct Hu as [Hu1 Hu2]. inversion Hu2 as [|? ? Hu3 _]; subst.
    simpl in Hm. pose proof (path_merged_mono _ _ _ _ _ P Hm) as Hm0.
    destruct (IH _ Hu1 H0 Hm0) as [HJ Hcov Hau].
    assert (H0n : 0 < t_n (ta_st a0)) by (destruct HJ as [[Hn _] _ _ _]; lia).
    destruct (path_J _ _ _ _ _ HJ H0n Hu3 P Hm) as (HJ' & Hl).
    constructor; simpl.
    + exact HJ'.
    + intros e He. apply Hl in He. destruct He as [He|He].
      * destruct (Hcov e He) as (c & C1 & C2). exists c. split; [|exact C2].
        apply (alpha_fold_keep cl0). exact C1.
      * apply (alpha_fold_has cl0 (ta_alpha a0)). exact He.
    + intros c Hc. apply (alpha_fold_in cl0) in Hc. destruct Hc as [Hc|Hc]; [|auto].
      rewrite Forall_forall in Hu3. auto.
Qed.

Theorem trie_like_of_trie : forall cls d,
  trie_of cls = Some d -> no_merge cls = true -> Forall (Forall uniform_g) cls -> trie_like d.
Proof.
  intros cls d H Hnm Hu. apply trie_of_inv in H. destruct H as (a & Ha & ->).
  unfold no_merge in Hnm. rewrite Ha in Hnm. apply negb_true_iff in Hnm.
  destruct (acc_K _ _ Hu Ha Hnm) as [[[Hn He] Hin Hdet Huni] Hcov Hau].
  constructor; simpl.
  - intros e Hin0. rewrite (edge_eta e) in Hin0. apply He in Hin0. exact Hin0.
  - reflexivity.
  - exact Hn.
  - exact Hin.
  - intros e1 e2 H1 H2 Hs Hm.
    destruct (label_match_uniform _ _ (Huni _ H1) (Huni _ H2) Hm) as (C1 & C2 & C3).
    apply Hdet; auto.
  - exact Huni.
  - exact Hau.
  - intros e He0. destruct (Hcov e He0) as (c & C1 & (C2 & C3 & C4)). exists c.
    split; [exact C1|]. apply label_match_of_eq; auto.
Qed.

(* ---------- the results for tries ---------- *)
Corollary trie_partition_total : forall cls d,
  trie_of cls = Some d -> exists p, partition_of d = Some p.
Proof. intros cls d _. apply partition_total_any. Qed.

Corollary trie_partition_stable : forall cls d p,
  trie_of cls = Some d -> no_merge cls = true -> Forall (Forall uniform_g) cls ->
  partition_of d = Some p -> stable_partition d p.
Proof.
  intros cls d p H Hnm Hu Hp. apply partition_stable; [|exact Hp].
  eapply trie_like_of_trie; eauto.
Qed.

Check trie_like_of_trie.
Check trie_partition_total.
Check trie_partition_stable.
Print Assumptions trie_like_of_trie.
Print Assumptions trie_partition_stable.
