(* C13, last clause: "raising either threshold can only turn quantified parts back into literal
   text".  Two facts: (i) whatever the thresholds, conversion of repetitions is a re-bracketing of
   the same clusters (RepInv.expand_convert), so two builds with different thresholds are built
   from the same text; (ii) a quantified part that is admissible for higher thresholds is
   admissible for lower ones — so every quantifier that survives raising a threshold would also
   have been allowed before, and nothing that was literal text can become quantified merely
   because a threshold went up beyond what it satisfies. *)
From Coq Require Import List NArith Lia.
From Grex Require Import Base.Str Model.Config Model.Cluster Model.Dfa Model.Expr Model.Pipeline.
From Grex Require Import Proofs.RepInv Proofs.ProvenanceInst.
Import ListNotations.

Definition thr_le (c c' : cfg) : Prop :=
  (min_rep c <= min_rep c')%N /\ (min_len c <= min_len c')%N.

Lemma thr_lbl_mono : forall c c' g, thr_le c c' -> thr_lbl c' g -> thr_lbl c g.
Proof.
  intros c c' g [H1 H2] [H|[Ha Hb]]; [left; exact H|right]. split; lia.
Qed.

Lemma thr_ok_mono : forall c c' g, thr_le c c' -> thr_ok c' g -> thr_ok c g.
Proof.
  intros c c' g Hle. revert g.
  apply (thr_ok_nested_ind c' (fun g => thr_ok c g)).
  intros cs rs a b Hab Hthr _ IH. constructor; [exact Hab| |exact IH].
  destruct Hle as [H1 H2]. destruct Hthr as [H|[Ha Hb]]; [left; exact H|right; split; lia].
Qed.

(* both builds re-bracket the same clusters *)
Lemma same_text : forall c c' cl,
  Forall plain cl -> expand (convert_repetitions c cl) = expand (convert_repetitions c' cl).
Proof. intros c c' cl H. rewrite !expand_convert by exact H. reflexivity. Qed.

(* raising the thresholds: every quantified part of the build with the higher thresholds is
   admissible for the lower ones, and both are re-bracketings of the same text *)
Theorem raise_thresholds : forall c c' cl,
  thr_le c c' -> Forall plain cl ->
  Forall (thr_ok c) (convert_repetitions c' cl)
  /\ expand (convert_repetitions c' cl) = expand (convert_repetitions c cl).
Proof.
  intros c c' cl Hle Hpl. split; [|apply same_text; exact Hpl].
  pose proof (convert_thresholds_strong c' cl Hpl) as H.
  eapply Forall_impl; [|exact H]. intros g. apply thr_ok_mono. exact Hle.
Qed.
