(* Re-pairing of UTF-16 surrogate escapes, part 2: literals.

   Two configurations are compared: c1 (the printing configuration, possibly with f_sur) and c0 (the
   same without f_sur, meant for the regex crate).  Code point by code point, string by string and
   grapheme by grapheme, `repair` maps the text printed under c1 to the text [gpR] : the c0
   rendering of the characters, with the grouping decisions of c1 (which are taken on the escaped
   text: a quantified astral code point is one escape sequence under c0 but two under c1). *)
From Grex Require Import Base.Str Model.Config Model.Cluster Model.Dfa Model.Expr Model.Print.
From Grex Require Import Engine.Syntax Engine.Parse.
From Grex Require Import Proofs.Lang Proofs.ExprLang Proofs.EscapeProps Proofs.PrintShape.
From Grex Require Import Proofs.PrintParseNum Proofs.PrintParseStep Proofs.PrintParseDefs
  Proofs.PrintParseEsc Proofs.PrintParseLit Proofs.SurrogateRepair.
From GrexGen Require Import SrcConsts.

(* ------------------------------------------------------------------ *)
(** * what follows an escaped backslash *)

(* s does not start with an opening brace *)
Definition n123 (s : str) : Prop := forall r, s <> 123%N :: r.
(* ... or the brace opens a counted repetition *)
Definition Rr (s : str) : Prop := n123 s \/ exists a b r, s = rep_str a b ++ r.
(* what may follow a string of a grapheme / a grapheme *)
Definition Qw (s : str) : Prop := Rr s /\ nb s.
Definition Qs (s : str) : Prop := n123 s /\ nb s.

Lemma n123_nil : n123 [].
Proof. intros r. discriminate. Qed.
Lemma n123_cons : forall x s, x <> 123%N -> n123 (x :: s).
Proof. intros x s H r E. inversion E. contradiction. Qed.
Lemma n123_Rr : forall s, n123 s -> Rr s.
Proof. intros s H. left. exact H. Qed.
Lemma Rr_rep : forall a b r, Rr (rep_str a b ++ r).
Proof. intros a b r. right. eauto. Qed.

Lemma Qs_Qw : forall s, Qs s -> Qw s.
Proof. intros s [H1 H2]. split; [left; exact H1|exact H2]. Qed.
Lemma Qs_Rr : forall s, Qs s -> Rr s.
Proof. intros s [H1 _]. left. exact H1. Qed.
Lemma Qs_nil : Qs [].
Proof. split; [apply n123_nil|apply nb_nil]. Qed.
Lemma Qs_cons : forall x s, x <> 123%N -> x <> 117%N -> Qs (x :: s).
Proof. intros x s H1 H2. split; [apply n123_cons; exact H1|apply nb_cons; exact H2]. Qed.

Lemma rep_str_cons : forall a b r, exists x t,
  rep_str a b ++ r = 123%N :: dec_of_N a ++ x :: t /\ (x = 125%N \/ x = 44%N).
Proof.
  intros a b r. unfold rep_str. destruct (N.ltb a b).
  - exists 44%N, (dec_of_N b ++ 125%N :: r). split; [|right; reflexivity].
    cbn [app]. rewrite <- !app_assoc. cbn [app]. rewrite <- !app_assoc. reflexivity.
  - exists 125%N, r. split; [|left; reflexivity].
    cbn [app]. rewrite <- !app_assoc. reflexivity.
Qed.

Lemma Qs_u : forall s, Rr s -> Qs (117%N :: s).
Proof.
  intros s H. split; [apply n123_cons; discriminate|].
  destruct H as [H|(a & b & r & ->)].
  - destruct s as [|x s]; [apply nb_u_nil|]. apply nb_u_cons. intros ->. eapply H. reflexivity.
  - destruct (rep_str_cons a b r) as (x & t & -> & Hx). apply nb_u_dec. exact Hx.
Qed.

Lemma Qw_rep : forall a b r, Qw (rep_str a b ++ r).
Proof.
  intros a b r. split; [apply Rr_rep|].
  destruct (rep_str_cons a b r) as (x & t & -> & _). apply nb_cons. discriminate.
Qed.

Lemma no_bs_rep_str : forall a b, no_bs (rep_str a b).
Proof.
  intros a b. unfold rep_str. destruct (N.ltb a b).
  - repeat (apply no_bs_app); try apply dec_no_bs; (constructor; [discriminate|constructor]).
  - repeat (apply no_bs_app); try apply dec_no_bs; (constructor; [discriminate|constructor]).
Qed.

Lemma no_bs_grp_open : forall c, no_bs (grp_open c).
Proof.
  intros c. unfold grp_open. destruct (f_cap c); repeat (constructor; [discriminate|]); constructor.
Qed.

(* ------------------------------------------------------------------ *)
(** * g_str only reads three flags *)
Section GStrFlags.
  Variables c c' : cfg.
  Hypothesis Hcol : f_colour c = f_colour c'.
  Hypothesis Hverb : f_verbose c = f_verbose c'.
  Hypothesis Hcap : f_cap c = f_cap c'.

  Lemma col_fl : forall code v, col c code v = col c' code v.
  Proof. intros code v. unfold col. rewrite Hcol. reflexivity. Qed.

  Lemma c_group_fl : forall e b, c_group c e b = c_group c' e b.
  Proof. intros e b. unfold c_group. rewrite !col_fl, Hcap, Hverb. reflexivity. Qed.

  Lemma c_quant_fl : forall q, c_quant c q = c_quant c' q.
  Proof. intros q. unfold c_quant. rewrite !col_fl, Hverb. reflexivity. Qed.

  Lemma c_rep_fl : forall n v, c_rep c n v = c_rep c' n v.
  Proof. intros n v. unfold c_rep. rewrite !col_fl. reflexivity. Qed.

  Lemma c_range_fl : forall a b v, c_range c a b v = c_range c' a b v.
  Proof. intros a b v. unfold c_range. rewrite !col_fl. reflexivity. Qed.

  Lemma g_str_fl : forall g, g_str c g = g_str c' g.
  Proof.
    induction g as [cs rs a b IH] using grapheme_ind'.
    rewrite !g_str_eq. cbv zeta.
    assert (E : flat_map (g_str c) rs = flat_map (g_str c') rs).
    { clear -IH. induction IH as [|r rs Hr _ IHrs]; [reflexivity|].
      cbn [flat_map]. rewrite Hr, IHrs. reflexivity. }
    rewrite E.
    rewrite !c_group_fl, !c_rep_fl, !c_range_fl, !col_fl, Hcol, Hverb. reflexivity.
  Qed.

  Lemma cc_str_fl : forall cs, cc_str c cs = cc_str c' cs.
  Proof. intros cs. unfold cc_str. rewrite !col_fl. reflexivity. Qed.
End GStrFlags.

(* ------------------------------------------------------------------ *)
(** * the two configurations *)
Section SurLit.
  Variables c1 c0 : cfg.
  Hypothesis Hcol1 : f_colour c1 = false.
  Hypothesis Hv1 : f_verbose c1 = false.
  Hypothesis Hp0 : printable c0.
  Hypothesis Hv0 : f_verbose c0 = false.
  Hypothesis Hcap : f_cap c1 = f_cap c0.
  Hypothesis Hesc : f_esc c1 = f_esc c0.

  (* ---------- one code point ---------- *)
  (* the renderings (before the \v \f replacement) under c1 and c0 *)
  Inductive rshape1 (y : cp) : str -> str -> Prop :=
  | r1_raw : mem_cp y chars_to_escape = false -> is_ctl y = false -> rshape1 y [y] [y]
  | r1_esc : forall z, z <> 117%N -> z <> 11%N -> z <> 12%N -> z <> 92%N ->
      rshape1 y [92%N; z] [92%N; z]
  | r1_u : (128 <= y)%N -> is_hi y = false -> rshape1 y (esc_unicode y) (esc_unicode y)
  | r1_pair : (65536 <= y <= 1114111)%N ->
      rshape1 y (esc_unicode (hi_surrogate y) ++ esc_unicode (lo_surrogate y)) (esc_unicode y).

  Lemma scalar_not_hi : forall y, scalar y -> is_hi y = false.
  Proof.
    intros y H. unfold scalar, is_scalar_value in H. unfold is_hi.
    apply orb_true_iff in H. destruct H as [H|H].
    - apply N.ltb_lt in H. apply andb_false_iff. left. apply N.leb_gt. exact H.
    - apply andb_true_iff in H. destruct H as [H _]. apply N.leb_le in H.
      apply andb_false_iff. right. apply N.leb_gt. unfold cp in *. lia.
  Qed.

  Lemma rend0_shape1 : forall y, scalar y -> rshape1 y (rend0 c1 y) (rend0 c0 y).
  Proof.
    intros y Hs. destruct (mem_cp y chars_to_escape) eqn:Hm.
    - rewrite !rend0_special by exact Hm.
      destruct (special_facts y Hm) as (_ & H11 & H12 & _ & H92 & _ & _ & _ & H117).
      apply r1_esc; assumption.
    - destruct (is_ctl y) eqn:Hc.
      + unfold is_ctl in Hc. apply orb_true_iff in Hc. destruct Hc as [Hc|Hc];
          [apply orb_true_iff in Hc; destruct Hc as [Hc|Hc]|]; apply N.eqb_eq in Hc.
        * rewrite !(rend0_ctl _ y 110%N) by tauto. apply r1_esc; discriminate.
        * rewrite !(rend0_ctl _ y 114%N) by tauto. apply r1_esc; discriminate.
        * rewrite !(rend0_ctl _ y 116%N) by tauto. apply r1_esc; discriminate.
      + destruct (N.ltb_spec y 128) as [Hlt|Hge].
        * rewrite !rend0_plain_ascii by assumption. apply r1_raw; assumption.
        * destruct (f_esc c0) eqn:He.
          -- rewrite (rend0_plain_u c0 Hp0) by assumption.
             change ([92; 117; 123]%N ++ hex_of_N y ++ [125%N]) with (esc_unicode y).
             unfold rend0 at 1. rewrite esc1_plain by assumption.
             unfold nonascii_esc. rewrite Hesc. cbn [flat_map]. rewrite app_nil_r.
             destruct (f_sur c1 && is_astral y) eqn:Ea.
             ++ apply andb_true_iff in Ea. destruct Ea as [Es Ea]. rewrite Es.
                apply is_astral_spec in Ea.
                destruct (escape_cp_surrogate_full y Ea) as (E & _). rewrite E.
                apply r1_pair. exact Ea.
             ++ rewrite escape_cp_unicode; [|exact Hge|apply andb_false_iff in Ea; exact Ea].
                change ([92; 117; 123]%N ++ hex_of_N y ++ [125%N]) with (esc_unicode y).
                apply r1_u; [exact Hge|apply scalar_not_hi; exact Hs].
          -- rewrite !rend0_plain_raw by assumption.
             apply r1_raw; assumption.
  Qed.

  Lemma vf_esc_unicode : forall y, vf (esc_unicode y) = esc_unicode y.
  Proof. intros y. apply vf_u. Qed.

  Lemma hi_lo_flags : forall y, (65536 <= y <= 1114111)%N ->
    is_hi (hi_surrogate y) = true /\ is_lo (lo_surrogate y) = true
    /\ combine_sur (hi_surrogate y) (lo_surrogate y) = y.
  Proof.
    intros y Hy. destruct (surrogate_bounds y Hy) as (Hh & Hl & Hrt).
    unfold is_hi, is_lo, combine_sur. repeat split.
    - apply andb_true_intro. split; apply N.leb_le; apply Hh.
    - apply andb_true_intro. split; apply N.leb_le; apply Hl.
    - exact Hrt.
  Qed.

  (* repair maps the c1 rendering of a code point to its c0 rendering, whatever follows *)
  Lemma rend_repair : forall y s, scalar y -> y <> 92%N ->
    repair (rend c1 y ++ s) = rend c0 y ++ repair s.
  Proof.
    intros y s Hs H92. unfold rend.
    destruct (rend0_shape1 y Hs) as [Hm Hc|z H117 H11 H12 Hz|Hge Hh|Ha].
    - rewrite vf_single. unfold vf1.
      destruct (N.eqb_spec y 11); [cbn [app]; apply repair_esc2; discriminate|].
      destruct (N.eqb_spec y 12); [cbn [app]; apply repair_esc2; discriminate|].
      cbn [app]. apply repair_raw1. exact H92.
    - rewrite vf_esc2 by assumption. cbn [app]. apply repair_esc2; assumption.
    - rewrite vf_esc_unicode. apply repair_esc_unicode. exact Hh.
    - rewrite vf_app, !vf_esc_unicode, <- app_assoc.
      destruct (hi_lo_flags y Ha) as (Hh & Hl & Ec).
      rewrite repair_pair by assumption. rewrite Ec. reflexivity.
  Qed.

  Lemma esc_unicode_hd : forall y, exists t, esc_unicode y = 92%N :: t.
  Proof. intros y. eexists. reflexivity. Qed.

  (* the first character of a rendering *)
  Lemma rend1_hd : forall y s, scalar y ->
    (exists t, rend c1 y ++ s = 92%N :: t) \/
    (rend c1 y = [y] /\ y <> 92%N /\ y <> 123%N) \/ y = 92%N.
  Proof.
    intros y s Hs. unfold rend.
    destruct (rend0_shape1 y Hs) as [Hm Hc|z H117 H11 H12 Hz|Hge Hh|Ha].
    - rewrite vf_single. unfold vf1.
      destruct (N.eqb_spec y 11); [left; eexists; reflexivity|].
      destruct (N.eqb_spec y 12); [left; eexists; reflexivity|].
      destruct (N.eq_dec y 92) as [->|H92]; [right; right; reflexivity|].
      right. left. split; [reflexivity|]. split; [exact H92|].
      intros ->. vm_compute in Hm. discriminate.
    - rewrite vf_esc2 by assumption. left. eexists. reflexivity.
    - rewrite vf_esc_unicode. left. eexists. reflexivity.
    - rewrite vf_app, !vf_esc_unicode. left. eexists. reflexivity.
  Qed.

  Lemma rend1_n123 : forall y s, scalar y -> n123 (rend c1 y ++ s).
  Proof.
    intros y s Hs. destruct (rend1_hd y s Hs) as [[t ->]|[(E & _ & H)| ->]].
    - apply n123_cons. discriminate.
    - rewrite E. apply n123_cons. exact H.
    - rewrite rend_bs. apply n123_cons. discriminate.
  Qed.

  Lemma rend1_Q : forall y s, scalar y -> y <> 92%N -> Rr s -> Qs (rend c1 y ++ s).
  Proof.
    intros y s Hs H92 Hr. destruct (rend1_hd y s Hs) as [[t ->]|[(E & _ & H)| ->]].
    - apply Qs_cons; discriminate.
    - rewrite E. cbn [app]. destruct (N.eq_dec y 117) as [->|H117].
      + apply Qs_u. exact Hr.
      + apply Qs_cons; assumption.
    - congruence.
  Qed.

  Lemma rend0_1_nonempty : forall y, scalar y -> rend0 c1 y <> [].
  Proof. intros y Hs. destruct (rend0_shape1 y Hs); discriminate. Qed.

  (* ---------- tokenised strings ---------- *)
  Lemma letter_facts : forall l, is_class_letter l = true -> l <> 117%N /\ l <> 92%N /\ scalar l.
  Proof.
    intros l H. apply class_letter_cases in H.
    destruct H as [->|[->|[->|[->|[->| ->]]]]]; repeat split; discriminate.
  Qed.

  Lemma toks_repair : forall t, toks t -> forall s,
    repair (flat_map (rend c1) t ++ s) = flat_map (rend c0) t ++ repair s.
  Proof.
    intros t Ht. induction Ht as [|y t H92 Hs Ht IH|l t Hl Ht IH]; intros s.
    - reflexivity.
    - cbn [flat_map]. rewrite <- !app_assoc. rewrite rend_repair by assumption. rewrite IH. reflexivity.
    - cbn [flat_map]. rewrite !rend_bs, !(rend_letter _ l Hl). cbn [app].
      destruct (letter_facts l Hl) as (H1 & H2 & _).
      rewrite repair_esc2 by assumption. rewrite IH. reflexivity.
  Qed.

  Lemma toks_n123 : forall t, toks t -> t <> [] -> forall s, n123 (flat_map (rend c1) t ++ s).
  Proof.
    intros t Ht Hne s. destruct Ht as [|y t H92 Hs Ht|l t Hl Ht]; [congruence| |].
    - cbn [flat_map]. rewrite <- app_assoc. apply rend1_n123. exact Hs.
    - cbn [flat_map]. rewrite rend_bs. apply n123_cons. discriminate.
  Qed.

  Lemma toks_Q : forall t, toks t -> t <> [] -> forall s, Rr s -> Qs (flat_map (rend c1) t ++ s).
  Proof.
    intros t Ht Hne s Hr. destruct Ht as [|y t H92 Hs Ht|l t Hl Ht]; [congruence| |].
    - cbn [flat_map]. rewrite <- app_assoc. apply rend1_Q; [exact Hs|exact H92|].
      destruct t as [|y2 t2]; [exact Hr|].
      apply n123_Rr. apply toks_n123; [exact Ht|discriminate].
    - cbn [flat_map]. rewrite rend_bs. apply Qs_cons; discriminate.
  Qed.

  Lemma tstr_repair : forall t, tokenised t -> forall s, nb s ->
    repair (vf (esc_str c1 t) ++ s) = vf (esc_str c0 t) ++ repair s.
  Proof.
    intros t [->|Ht] s Hn.
    - rewrite !esc_str_bs. change (vf [92; 92]%N) with [92; 92]%N. cbn [app].
      apply repair_bsbs. exact Hn.
    - rewrite !vf_esc_str_toks by exact Ht. apply toks_repair. exact Ht.
  Qed.

  Lemma tstr_Q : forall t, tok_ok t -> forall s, Rr s -> Qs (vf (esc_str c1 t) ++ s).
  Proof.
    intros t [Hne [->|Ht]] s Hr.
    - rewrite esc_str_bs. apply Qs_cons; discriminate.
    - rewrite vf_esc_str_toks by exact Ht. apply toks_Q; assumption.
  Qed.

  Definition chars1 (cs : list str) : str := concat (map (esc_str c1) cs).
  Definition chars0 (cs : list str) : str := concat (map (esc_str c0) cs).

  Lemma chars_Q : forall cs, Forall tok_ok cs -> cs <> [] ->
    forall s, Rr s -> Qs (vf (chars1 cs) ++ s).
  Proof.
    intros cs HF. induction HF as [|t cs Ht HF IH]; intros Hne s Hr; [congruence|].
    unfold chars1. cbn [map concat]. rewrite vf_app, <- app_assoc. apply tstr_Q; [exact Ht|].
    destruct cs as [|t2 cs]; [exact Hr|].
    apply Qs_Rr. apply IH; [discriminate|exact Hr].
  Qed.

  Lemma chars_repair : forall cs, Forall tok_ok cs -> forall s, Qw s ->
    repair (vf (chars1 cs) ++ s) = vf (chars0 cs) ++ repair s.
  Proof.
    intros cs HF. induction HF as [|t cs [Hne Ht] HF IH]; intros s Hq; [reflexivity|].
    unfold chars1, chars0. cbn [map concat]. rewrite !vf_app, <- !app_assoc.
    rewrite tstr_repair; [|exact Ht|].
    - fold (chars1 cs). fold (chars0 cs). rewrite IH by exact Hq. reflexivity.
    - fold (chars1 cs). destruct cs as [|t2 cs]; [apply Hq|].
      apply (chars_Q (t2 :: cs) HF); [discriminate|apply Hq].
  Qed.

  (* ---------- the escaped strings of c1 are not empty ---------- *)
  Lemma toks_rend0_nil1 : forall t, toks t -> flat_map (rend0 c1) t = [] -> t = [].
  Proof.
    intros t Ht H. destruct Ht as [|y t _ Hs _|l t _ _]; [reflexivity| |].
    - cbn [flat_map] in H. apply app_eq_nil in H. destruct H as [H _].
      exfalso. eapply rend0_1_nonempty; eauto.
    - cbn [flat_map] in H. rewrite rend0_bs in H. discriminate.
  Qed.

  Lemma esc_str_nonempty1 : forall t, tok_ok t -> esc_str c1 t <> [].
  Proof.
    intros t [Hne [->|Ht]].
    - rewrite esc_str_bs. discriminate.
    - rewrite esc_str_toks by exact Ht. intros X. apply Hne. apply toks_rend0_nil1; assumption.
  Qed.

  Lemma tok_ok_esc_nonempty1 : forall cs, Forall tok_ok cs ->
    Forall (fun s : str => s <> []) (map (esc_str c1) cs).
  Proof.
    intros cs HF. apply Forall_map. eapply Forall_impl; [|exact HF].
    intros t Ht. apply esc_str_nonempty1. exact Ht.
  Qed.

  Lemma g_single_eq1 : forall cs rs,
    Forall tok_ok cs -> (rs = [] \/ 2 <= length cs) ->
    chars_single (map (esc_str c1) cs) = g_single c1 cs rs.
  Proof.
    intros cs rs HF [->|Hlen]; [reflexivity|].
    destruct rs as [|r rs]; [reflexivity|]. cbn [g_single].
    apply chars_single_false; [rewrite map_length; exact Hlen|].
    apply tok_ok_esc_nonempty1. exact HF.
  Qed.

  (* ---------- the printer's "single" test under c1 is sound ---------- *)
  Lemma not_single_u' : forall y S', S' <> [] -> is_single_escape_sequence (esc_unicode y ++ S') = false.
  Proof. intros y S' H. apply not_single_u. exact H. Qed.

  Lemma single_toks1 : forall t, toks t -> t <> [] ->
    is_single_escape_sequence (flat_map (rend0 c1) t) = true ->
    (exists y, t = [y]) \/ (exists l, t = [92%N; l] /\ is_class_letter l = true).
  Proof.
    intros t Ht Hne H. destruct Ht as [|y t H92 Hs Ht|l t Hl Ht]; [congruence| |].
    - assert (Hcase : t = [] \/ flat_map (rend0 c1) t <> []).
      { destruct t; [left; reflexivity|right; intros X; apply toks_rend0_nil1 in X; [discriminate|exact Ht]]. }
      destruct Hcase as [->|HS]; [left; eauto|]. exfalso.
      cbn [flat_map] in H. set (S' := flat_map (rend0 c1) t) in *.
      destruct (rend0_shape1 y Hs) as [Hm Hc|z H117 _ _ _|Hge _|Ha].
      + cbn [app is_single_escape_sequence] in H. unfold c_backslash in H.
        apply N.eqb_neq in H92. rewrite H92 in H. discriminate.
      + cbn [app is_single_escape_sequence] in H.
        apply N.eqb_neq in H117. rewrite H117 in H.
        destruct S' as [|x S']; [congruence|]. rewrite andb_false_r in H. discriminate.
      + rewrite not_single_u' in H by exact HS. discriminate.
      + rewrite <- app_assoc in H. rewrite not_single_u' in H; [discriminate|].
        intros X. apply app_eq_nil in X. destruct X as [X _]. discriminate X.
    - right. exists l. split; [|exact Hl].
      assert (Hcase : t = [] \/ flat_map (rend0 c1) t <> []).
      { destruct t; [left; reflexivity|right; intros X; apply toks_rend0_nil1 in X; [discriminate|exact Ht]]. }
      destruct Hcase as [->|HS]; [reflexivity|]. exfalso.
      cbn [flat_map] in H. set (S' := flat_map (rend0 c1) t) in *.
      rewrite rend0_bs, (rend0_letter c1 l Hl) in H.
      cbn [app is_single_escape_sequence] in H.
      assert (H117 : N.eqb l 117 = false).
      { apply N.eqb_neq. apply letter_facts. exact Hl. }
      rewrite H117 in H. destruct S' as [|x S']; [congruence|].
      rewrite andb_false_r in H. discriminate.
  Qed.

  Lemma single_atoms1 : forall cs, cs <> [] -> Forall tok_ok cs ->
    chars_single (map (esc_str c1) cs) = true -> exists x, flat_map str_atoms cs = [x].
  Proof.
    intros cs Hne HF H. unfold chars_single in H. apply orb_true_iff in H.
    pose proof (tok_ok_esc_nonempty1 cs HF) as HF'.
    destruct H as [H|H].
    - apply Nat.eqb_eq in H. apply chars_single_plain in H; [|destruct cs; [congruence|discriminate]|exact HF'].
      destruct H as [z Hz]. destruct cs as [|t [|t2 cs]]; try discriminate.
      cbn [map] in Hz. inversion Hz as [Ez]. inversion HF as [|? ? [Htne Ht] _]; subst.
      destruct Ht as [->|Ht]; [rewrite esc_str_bs in Ez; discriminate|].
      rewrite esc_str_toks in Ez by exact Ht.
      destruct Ht as [|y t H92 Hs Ht|l t Hl Ht]; [congruence| |].
      + cbn [flat_map] in Ez.
        pose proof (rend0_1_nonempty y Hs) as Hy.
        destruct (rend0 c1 y) as [|a [|b r]] eqn:Er; [congruence| |discriminate].
        cbn [app] in Ez. inversion Ez as [[Ea Enil]].
        apply toks_rend0_nil1 in Enil; [|exact Ht]. subst t.
        cbn [flat_map]. rewrite app_nil_r. eexists. reflexivity.
      + cbn [flat_map] in Ez. rewrite rend0_bs in Ez.
        rewrite (rend0_letter c1 l Hl) in Ez. discriminate.
    - destruct cs as [|t [|t2 cs]]; [congruence| |discriminate H].
      cbn [map] in H. inversion HF as [|? ? [Htne Ht] _]; subst.
      cbn [flat_map]. rewrite app_nil_r.
      destruct Ht as [->|Ht]; [eexists; reflexivity|].
      rewrite esc_str_toks in H by exact Ht.
      destruct (single_toks1 t Ht Htne H) as [[y ->]|[l [-> Hl]]].
      + eexists; reflexivity.
      + rewrite str_atoms_cls by exact Hl. eauto.
  Qed.

  (* ---------- graphemes ---------- *)
  (* the printed grapheme under c1 (g_str does not read f_esc / f_sur) *)
  Definition gp1 (g : grapheme) : str := g_str c0 (escape_g c1 g).

  Lemma gp_gp1 : forall g, gp c1 g = gp1 g.
  Proof.
    intros g. unfold gp, gp1. apply g_str_fl.
    - destruct Hp0 as [H _]. rewrite Hcol1, H. reflexivity.
    - rewrite Hv1, Hv0. reflexivity.
    - exact Hcap.
  Qed.

  Lemma gp1_unfold : forall cs rs a b, (1 <= a)%N -> (a <= b)%N ->
    gp1 (G cs rs a b)
    = let v := match rs with [] => chars1 cs | _ => flat_map gp1 rs end in
      if N.eqb a 1 && N.eqb b 1 then v
      else (if chars_single (map (esc_str c1) cs) then v else grp c0 v) ++ rep_str a b.
  Proof.
    intros cs rs a b Ha Hab. unfold gp1 at 1.
    rewrite escape_g_unfold, (g_str_unfold c0 Hp0 Hv0) by assumption.
    destruct rs as [|r rs]; [reflexivity|].
    cbv zeta. rewrite (flat_map_map' (escape_g c1) (g_str c0) (r :: rs)).
    reflexivity.
  Qed.

  (* the repaired grapheme: characters as under c0, grouping as under c1 *)
  Fixpoint gpR (g : grapheme) {struct g} : str :=
    match g with
    | G cs rs a b =>
        let v := match rs with
                 | [] => chars0 cs
                 | _ => (fix go (l : list grapheme) : str :=
                           match l with [] => [] | r :: l' => gpR r ++ go l' end) rs
                 end in
        if N.eqb a 1 && N.eqb b 1 then v
        else (if g_single c1 cs rs then v else grp c0 v) ++ rep_str a b
    end.

  Lemma gpR_unfold : forall cs rs a b,
    gpR (G cs rs a b)
    = let v := match rs with [] => chars0 cs | _ => flat_map gpR rs end in
      if N.eqb a 1 && N.eqb b 1 then v
      else (if g_single c1 cs rs then v else grp c0 v) ++ rep_str a b.
  Proof.
    intros cs rs a b. cbn [gpR].
    assert (E : forall l, (fix go (l : list grapheme) : str :=
                 match l with [] => [] | r :: l' => gpR r ++ go l' end) l
              = flat_map gpR l).
    { induction l as [|r l IH]; [reflexivity|]. cbn [flat_map]. rewrite IH. reflexivity. }
    destruct rs as [|r rs]; [reflexivity|]. rewrite E. reflexivity.
  Qed.

  Definition g_rep (g : grapheme) : Prop :=
    (forall s, Qs s -> repair (vf (gp1 g) ++ s) = vf (gpR g) ++ repair s) /\
    (forall s, Rr s -> Qs (vf (gp1 g) ++ s)).

  Lemma glist_rep : forall gs, Forall g_rep gs ->
    (forall s, Qs s -> repair (vf (flat_map gp1 gs) ++ s) = vf (flat_map gpR gs) ++ repair s) /\
    (gs <> [] -> forall s, Rr s -> Qs (vf (flat_map gp1 gs) ++ s)).
  Proof.
    intros gs HF. induction HF as [|g gs [He Hq] _ [IHe IHq]].
    - split; [intros s _; reflexivity|congruence].
    - assert (Hq' : forall s, Rr s -> Qs (vf (flat_map gp1 (g :: gs)) ++ s)).
      { intros s Hr. cbn [flat_map]. rewrite vf_app, <- app_assoc. apply Hq.
        destruct gs as [|g2 gs]; [exact Hr|].
        apply Qs_Rr. apply IHq; [discriminate|exact Hr]. }
      split; [|intros _; exact Hq'].
      intros s Hs. cbn [flat_map]. rewrite !vf_app, <- !app_assoc.
      rewrite He.
      + rewrite IHe by exact Hs. reflexivity.
      + destruct gs as [|g2 gs]; [exact Hs|].
        apply IHq; [discriminate|apply Qs_Rr; exact Hs].
  Qed.

  Lemma grp_app : forall c v s, grp c v ++ s = grp_open c ++ v ++ 41%N :: s.
  Proof. intros c v s. unfold grp. rewrite <- !app_assoc. reflexivity. Qed.

  Lemma g_rep_all : forall g nested, wf_pg nested g -> g_rep g.
  Proof.
    induction g as [cs rs a b IH] using grapheme_ind'. intros nested Hwf.
    apply wf_pg_unfold in Hwf.
    destruct Hwf as (Hne & Htok & Ha & Hab & Hnest & Hrs & Hwfrs).
    assert (Htok' : Forall tok_ok cs) by exact Htok.
    assert (Hgood : Forall g_rep rs).
    { clear Hrs. induction IH as [|r rs Hr _ IHrs]; [constructor|].
      inversion Hwfrs; subst. constructor; [eapply Hr; eassumption|apply IHrs; assumption]. }
    destruct (glist_rep rs Hgood) as [Le Lq].
    unfold g_rep. rewrite gp1_unfold by assumption. rewrite gpR_unfold. cbv zeta.
    rewrite (g_single_eq1 cs rs Htok') by (destruct Hrs as [?|[_ ?]]; auto).
    set (v1 := match rs with [] => chars1 cs | _ => flat_map gp1 rs end).
    set (vR := match rs with [] => chars0 cs | _ => flat_map gpR rs end).
    assert (Ve : forall s, (rs = [] -> Qw s) -> (rs <> [] -> Qs s) ->
               repair (vf v1 ++ s) = vf vR ++ repair s).
    { intros s H1 H2. unfold v1, vR. destruct rs as [|r rs].
      - apply chars_repair; [exact Htok'|apply H1; reflexivity].
      - apply Le. apply H2. discriminate. }
    assert (Vq : forall s, Rr s -> Qs (vf v1 ++ s)).
    { intros s Hr. unfold v1. destruct rs as [|r rs].
      - apply chars_Q; assumption.
      - apply Lq; [discriminate|exact Hr]. }
    clearbody v1 vR.
    destruct (N.eqb a 1 && N.eqb b 1) eqn:E11.
    - split; [|exact Vq].
      intros s Hs. apply Ve; intros _; [apply Qs_Qw|]; exact Hs.
    - destruct (g_single c1 cs rs) eqn:Es.
      + assert (Ers : rs = []).
        { destruct rs as [|r rs]; [reflexivity|discriminate Es]. }
        split.
        * intros s Hs. rewrite !vf_app, vf_rep_str, <- !app_assoc.
          rewrite Ve; [|intros _; apply Qw_rep|congruence].
          rewrite (repair_raw (rep_str a b)) by apply no_bs_rep_str. reflexivity.
        * intros s Hr. rewrite vf_app, vf_rep_str, <- app_assoc. apply Vq. apply Rr_rep.
      + split.
        * intros s Hs. rewrite !vf_app, !vf_grp, vf_rep_str, <- !app_assoc.
          rewrite !grp_app. rewrite (repair_raw (grp_open c0)) by apply no_bs_grp_open.
          assert (Hc : Qs (41%N :: rep_str a b ++ s)) by (apply Qs_cons; discriminate).
          rewrite Ve; [|intros _; apply Qs_Qw; exact Hc|intros _; exact Hc].
          rewrite repair_raw1 by discriminate.
          rewrite (repair_raw (rep_str a b)) by apply no_bs_rep_str. reflexivity.
        * intros s Hr. rewrite vf_app, vf_grp, <- app_assoc, grp_app.
          unfold grp_open. destruct (f_cap c0); apply Qs_cons; discriminate.
  Qed.

  (* ---------- clusters ---------- *)
  Lemma lit_str_gp1 : forall cl, Forall (wf_pg false) cl -> lit_str c1 cl = flat_map gp1 cl.
  Proof.
    intros cl HF. unfold lit_str. induction HF as [|g cl Hg _ IH]; [reflexivity|].
    cbn [flat_map]. rewrite IH. f_equal.
    assert (Efl : forall g', g_str c1 g' = g_str c0 g').
    { intros g'. apply g_str_fl.
      - destruct Hp0 as [H _]. rewrite Hcol1, H. reflexivity.
      - rewrite Hv1, Hv0. reflexivity.
      - exact Hcap. }
    destruct g as [cs rs a b]. destruct rs as [|r rs]; [apply Efl|].
    apply wf_pg_unfold in Hg.
    destruct Hg as (Hne & Htok & Ha & Hab & _ & Hrs & _).
    destruct Hrs as [Hrs|[_ Hlen]]; [discriminate|].
    rewrite Efl, gp1_unfold, (g_str_unfold c0 Hp0 Hv0) by assumption. cbv zeta.
    assert (E1 : chars_single cs = false).
    { apply chars_single_false; [exact Hlen|].
      eapply Forall_impl; [|exact Htok]. intros t [Ht _]. exact Ht. }
    assert (E2 : chars_single (map (esc_str c1) cs) = false).
    { apply chars_single_false; [rewrite map_length; exact Hlen|].
      apply tok_ok_esc_nonempty1. exact Htok. }
    rewrite E1, E2.
    change (map (escape_g c1) (r :: rs)) with (escape_g c1 r :: map (escape_g c1) rs).
    cbv iota.
    change (escape_g c1 r :: map (escape_g c1) rs) with (map (escape_g c1) (r :: rs)).
    rewrite (flat_map_map' (escape_g c1) (g_str c0) (r :: rs)). reflexivity.
  Qed.

  Definition litR (cl : cluster) : str := flat_map gpR cl.

  Lemma cluster_rep : forall cl, Forall (wf_pg false) cl ->
    (forall s, Qs s -> repair (vf (lit_str c1 cl) ++ s) = vf (litR cl) ++ repair s) /\
    (forall s, Qs s -> Qs (vf (lit_str c1 cl) ++ s)).
  Proof.
    intros cl HF. rewrite lit_str_gp1 by exact HF.
    assert (Hgood : Forall g_rep cl).
    { eapply Forall_impl; [|exact HF]. intros g Hg. eapply g_rep_all. exact Hg. }
    destruct (glist_rep cl Hgood) as [He Hq]. split; [exact He|].
    intros s Hs. destruct cl as [|g cl]; [exact Hs|].
    apply Hq; [discriminate|apply Qs_Rr; exact Hs].
  Qed.
  (* ------------------------------------------------------------------ *)
  (* ---------- the parser on the repaired graphemes ---------- *)
  Variable is_ws : cp -> bool.
  Hypothesis Hws : ws_ok is_ws.
  Notation pseq := (pseq is_ws).

  Definition g_goodR (g : grapheme) : Prop :=
    (forall rest, hd_ok (vf (gpR g) ++ rest)) /\
    (forall top rest racc ralts res, nq rest ->
       pseq top rest (rev (g_atoms c1 g) ++ racc) ralts res ->
       pseq top (vf (gpR g) ++ rest) racc ralts res).

  Lemma glist_goodR : forall gs, Forall g_goodR gs ->
    (forall rest, (gs = [] -> hd_ok rest) -> hd_ok (vf (flat_map gpR gs) ++ rest)) /\
    (forall top rest racc ralts res, nq rest ->
       pseq top rest (rev (flat_map (g_atoms c1) gs) ++ racc) ralts res ->
       pseq top (vf (flat_map gpR gs) ++ rest) racc ralts res).
  Proof.
    intros gs HF. induction HF as [|g gs [Hh Hpq] _ [IHh IHp]].
    - split; [intros rest H; apply H; reflexivity|intros top rest racc ralts res _ H; exact H].
    - split.
      + intros rest _. cbn [flat_map]. rewrite vf_app, <- app_assoc. apply Hh.
      + intros top rest racc ralts res Hq H.
        cbn [flat_map]. rewrite vf_app, <- app_assoc. apply Hpq.
        * destruct gs as [|g2 gs]; [exact Hq|].
          apply hd_ok_nq. apply IHh. intros X. discriminate X.
        * apply IHp; [exact Hq|].
          cbn [flat_map] in H. rewrite rev_app_distr, <- app_assoc in H. exact H.
  Qed.

  Lemma pseq_gR : forall g nested, wf_pg nested g -> g_goodR g.
  Proof.
    induction g as [cs rs a b IH] using grapheme_ind'. intros nested Hwf.
    apply wf_pg_unfold in Hwf.
    destruct Hwf as (Hne & Htok & Ha & Hab & Hnest & Hrs & Hwfrs).
    assert (Htok' : Forall tok_ok cs) by exact Htok.
    assert (Hgood : Forall g_goodR rs).
    { clear Hrs. induction IH as [|r rs Hr _ IHrs]; [constructor|].
      inversion Hwfrs; subst. constructor; [eapply Hr; eassumption|apply IHrs; assumption]. }
    destruct (glist_goodR rs Hgood) as [Lh Lp].
    unfold g_goodR. rewrite gpR_unfold. rewrite g_atoms_unfold. cbv zeta.
    set (v := match rs with [] => chars0 cs | _ => flat_map gpR rs end).
    (* the body *)
    assert (Vh : forall rest, hd_ok (vf v ++ rest)).
    { intros rest. unfold v. destruct rs as [|r rs].
      - apply safe_hd_ok. apply safe_hd_app. apply (chars_safe_hd c0 Hp0); assumption.
      - apply Lh. intros X. discriminate X. }
    assert (Vp : forall top rest racc ralts res, (rs <> [] -> nq rest) ->
               pseq top rest (rev (g_inner c1 cs rs) ++ racc) ralts res ->
               pseq top (vf v ++ rest) racc ralts res).
    { intros top rest racc ralts res Hq H. unfold v. destruct rs as [|r rs].
      - apply (pseq_chars is_ws c0 Hp0); assumption.
      - apply Lp; [apply Hq; discriminate|exact H]. }
    clearbody v.
    destruct (N.eqb a 1 && N.eqb b 1) eqn:E11.
    - split; [exact Vh|].
      intros top rest racc ralts res Hq H. apply Vp; [intros _; exact Hq|exact H].
    - destruct (g_single c1 cs rs) eqn:Es.
      + (* single: the quantifier applies to the one atom *)
        assert (Ers : rs = []).
        { destruct rs as [|r rs]; [reflexivity|discriminate Es]. }
        subst rs. cbn [g_single] in Es. cbn [g_inner].
        destruct (single_atoms1 cs Hne Htok' Es) as [x Hx].
        split.
        * intros rest. rewrite vf_app, <- app_assoc. apply Vh.
        * intros top rest racc ralts res Hq H.
          rewrite vf_app, vf_rep_str, <- app_assoc.
          apply Vp; [congruence|]. cbn [g_inner]. rewrite Hx. cbn [rev app].
          apply (pseq_rep_str is_ws Hws); try assumption.
          rewrite Hx in H. exact H.
      + (* grouped *)
        assert (Hqb : forall r, nq (vf v ++ 41%N :: r)).
        { intros r. apply hd_ok_nq. apply Vh. }
        split.
        * intros rest. rewrite vf_app, vf_grp, <- app_assoc. apply hd_ok_grp. apply Hqb.
        * intros top rest racc ralts res Hq H.
          rewrite vf_app, vf_grp, vf_rep_str, <- app_assoc.
          eapply (pseq_grp is_ws c0) with (inner := g_inner c1 cs rs); [apply Hqb| |].
          -- intros r Hc. apply Vp; [intros _; apply nq_cons; discriminate|].
             rewrite app_nil_r. exact Hc.
          -- rewrite <- Hcap. apply (pseq_rep_str is_ws Hws); try assumption.
  Qed.

  Lemma cluster_goodR : forall cl, Forall (wf_pg false) cl ->
    (forall rest, (cl = [] -> hd_ok rest) -> hd_ok (vf (litR cl) ++ rest)) /\
    (forall top rest racc ralts res, nq rest ->
       pseq top rest (rev (flat_map (g_atoms c1) cl) ++ racc) ralts res ->
       pseq top (vf (litR cl) ++ rest) racc ralts res).
  Proof.
    intros cl HF.
    assert (Hgood : Forall g_goodR cl).
    { eapply Forall_impl; [|exact HF]. intros g Hg. eapply pseq_gR. exact Hg. }
    exact (glist_goodR cl Hgood).
  Qed.
End SurLit.
