(* Correctness of Expression::from (Brzozowski's algebraic method, expr_from) on acyclic automata,
   relative to the specifications of union2 and concatenate. *)
From Grex Require Import Base.Str Model.Config Model.Cluster Model.Dfa Model.Expr.
From Grex Require Import Proofs.Lang Proofs.MatLemmas Proofs.DfsOk.

Definition acyclic (d : dfa) : Prop :=
  exists rank : nat -> nat, forall e, In e (d_edges d) -> rank (e_dst e) < rank (e_src e).

(* ---------- pure language facts ---------- *)
Lemma subst_lang : forall (Ri Bi Bm Bi' : lang) (A A' Am Rj : nat -> lang) m,
  (forall u, Ri u <-> Bi u \/ exists j, j < S m /\ lcat (A j) (Rj j) u) ->
  (forall u, Rj m u <-> Bm u \/ exists j, j < m /\ lcat (Am j) (Rj j) u) ->
  leq Bi' (lunion Bi (lcat (A m) Bm)) ->
  (forall j, j < m -> leq (A' j) (lunion (A j) (lcat (A m) (Am j)))) ->
  forall u, Ri u <-> Bi' u \/ exists j, j < m /\ lcat (A' j) (Rj j) u.
Proof.
  unfold leq. intros Ri Bi Bm Bi' A A' Am Rj m Hi Hm HB HA u. split.
  - intros H. apply Hi in H. destruct H as [H|[j [Hj [v [w [-> [Hv Hw]]]]]]].
    + left. apply HB. now left.
    + destruct (Nat.eq_dec j m) as [->|Hne].
      * apply Hm in Hw. destruct Hw as [Hw|[j' [Hj' [w1 [w2 [-> [Hw1 Hw2]]]]]]].
        -- left. apply HB. right. exists v, w. auto.
        -- right. exists j'. split; [exact Hj'|]. exists (v ++ w1), w2.
           split; [now rewrite app_assoc|]. split; [|exact Hw2].
           apply HA; [exact Hj'|]. right. exists v, w1. auto.
      * right. exists j. split; [lia|]. exists v, w. split; [reflexivity|]. split; [|exact Hw].
        apply HA; [lia|]. now left.
  - intros [H|[j [Hj [v [w [-> [Hv Hw]]]]]]].
    + apply HB in H. destruct H as [H|[v [w [-> [Hv Hw]]]]].
      * apply Hi. now left.
      * apply Hi. right. exists m. split; [lia|]. exists v, w. split; [reflexivity|].
        split; [exact Hv|]. apply Hm. now left.
    + apply HA in Hv; [|exact Hj]. destruct Hv as [Hv|[v1 [v2 [-> [Hv1 Hv2]]]]].
      * apply Hi. right. exists j. split; [lia|]. exists v, w. auto.
      * apply Hi. right. exists m. split; [lia|]. exists v1, (v2 ++ w).
        split; [now rewrite app_assoc|]. split; [exact Hv1|].
        apply Hm. right. exists j. split; [exact Hj|]. exists v2, w. auto.
Qed.

(* ---------- list facts ---------- *)
Lemma in_combine_seq : forall {A} (l : list A) (d0 : A) k i s,
  In (i, s) (combine (seq k (length l)) l) -> k <= i /\ i - k < length l /\ nth (i - k) l d0 = s.
Proof.
  intros A l d0. induction l as [|x l IH]; intros k i s H; simpl in H.
  - contradiction.
  - destruct H as [H|H].
    + injection H as <- <-. replace (k - k) with 0 by lia. simpl. repeat split; lia.
    + apply IH in H. destruct H as [H1 [H2 H3]].
      replace (i - k) with (S (i - S k)) by lia. simpl. repeat split; try lia. exact H3.
Qed.

Lemma map_fst_combine : forall {A B} (l1 : list A) (l2 : list B),
  length l1 = length l2 -> map fst (combine l1 l2) = l1.
Proof.
  intros A B l1. induction l1 as [|x l1 IH]; intros l2 H; destruct l2 as [|y l2]; simpl in *;
    try discriminate; try reflexivity.
  f_equal. apply IH. lia.
Qed.

Section Elim.
  Variable lit_den cls_den : cp -> cp -> Prop.
  Local Notation Le := (L_expr lit_den cls_den).
  Local Notation Lo := (L_oexpr lit_den cls_den).

  Hypothesis union2_lang : forall c a b r, wf_expr a -> wf_expr b -> union2 c a b = Some r ->
    leq (Le r) (lunion (Le a) (Le b)).
  Hypothesis union2_total : forall c a b, wf_expr a -> wf_expr b -> exists r, union2 c a b = Some r.
  Hypothesis union2_wf : forall c a b r, wf_expr a -> wf_expr b -> union2 c a b = Some r -> wf_expr r.
  Hypothesis concatenate_lang : forall a b, leq (Lo (concatenate a b)) (lcat (Lo a) (Lo b)).
  Hypothesis concatenate_wf : forall a b, wf_oexpr a -> wf_oexpr b -> wf_oexpr (concatenate a b).

  (* ---------- union on options ---------- *)
  Lemma union_total : forall c a b, wf_oexpr a -> wf_oexpr b -> exists r, union c a b = Some r.
  Proof.
    intros c [x|] [y|] Ha Hb; simpl in *; eauto.
    destruct (union2_total c x y Ha Hb) as [r ->]. eauto.
  Qed.

  Lemma union_spec : forall c a b r, wf_oexpr a -> wf_oexpr b -> union c a b = Some r ->
    wf_oexpr r /\ leq (Lo r) (lunion (Lo a) (Lo b)) /\ (r <> None -> a <> None \/ b <> None).
  Proof.
    intros c [x|] [y|] r Ha Hb H; simpl in *.
    - destruct (union2 c x y) as [z|] eqn:E; [|discriminate]. injection H as <-. simpl.
      split; [exact (union2_wf c x y z Ha Hb E)|]. split; [exact (union2_lang c x y z Ha Hb E)|].
      intros _. left. discriminate.
    - injection H as <-. simpl. split; [exact Ha|]. split.
      + intros u. unfold lunion, lempty. tauto.
      + intros _. left. discriminate.
    - injection H as <-. simpl. split; [exact Hb|]. split.
      + intros u. unfold lunion, lempty. tauto.
      + intros _. right. discriminate.
    - injection H as <-. simpl. split; [exact I|]. split.
      + intros u. unfold lunion, lempty. tauto.
      + intros H. now contradiction H.
  Qed.

  Lemma concatenate_some : forall a b, concatenate a b <> None -> a <> None /\ b <> None.
  Proof.
    intros [x|] [y|] H; simpl in H; try (now contradiction H).
    split; discriminate.
  Qed.

  Lemma Le_lit1 : forall g, leq (Le (ELit [g])) (den_g lit_den cls_den g).
  Proof.
    intros g u. simpl. split.
    - intros [v [w [-> [Hv Hw]]]]. unfold leps in Hw. subst w. now rewrite app_nil_r.
    - intros H. exists u, []. split; [now rewrite app_nil_r|]. split; [exact H | reflexivity].
  Qed.

  (* path decomposition *)
  Lemma L_from_unfold : forall d s u,
    L_from lit_den cls_den d s u <->
    (In s (d_finals d) /\ u = []) \/
    exists e, In e (d_edges d) /\ e_src e = s /\
              lcat (den_g lit_den cls_den (e_lbl e)) (L_from lit_den cls_den d (e_dst e)) u.
  Proof.
    intros d s u. split.
    - intros [t [Ht Hp]]. inversion Hp as [s0|s0 m t0 g v w Hin Hg Hp']; subst.
      + left. auto.
      + right. exists (s, m, g). split; [exact Hin|]. split; [reflexivity|].
        exists v, w. split; [reflexivity|]. split; [exact Hg|]. exists t. auto.
    - intros [[Hs ->]|[e [Hin [Hsrc [v [w [-> [Hg [t [Ht Hp]]]]]]]]]].
      + exists s. split; [exact Hs | constructor].
      + exists t. split; [exact Ht|]. destruct e as [[s' m] g]. unfold e_src, e_dst, e_lbl in *. simpl in *.
        subst s'. eapply path_step; eauto.
  Qed.

  (* ================= the equation system ================= *)
  Section Sys.
    Variable c : cfg.
    Variable d : dfa.
    Variable states : list nat.
    Variable rank : nat -> nat.
    Hypothesis Hwf : wf_dfa d.
    Hypothesis Hrank : forall e, In e (d_edges d) -> rank (e_dst e) < rank (e_src e).
    Hypothesis Hdfs : dfs_ok d states.

    Local Notation n := (d_n d).
    Local Notation len := (length states).
    Definition st (i : nat) : nat := nth i states 0.
    Definition R (i : nat) : lang := L_from lit_den cls_den d (st i).

    Lemma len_le_n : len <= n.
    Proof.
      destruct Hdfs as [Hnd [_ [Hb _]]].
      rewrite <- (seq_length n 0). apply NoDup_incl_length; [exact Hnd|].
      intros x Hx. rewrite Forall_forall in Hb. apply in_seq. specialize (Hb x Hx). lia.
    Qed.

    Lemma st_in : forall i, i < len -> In (st i) states.
    Proof. intros i Hi. unfold st. now apply nth_In. Qed.

    Definition entry_ok (i j : nat) (x : option expr) : Prop :=
      wf_oexpr x /\ (x <> None -> i < len /\ j < len /\ rank (st j) < rank (st i)).

    Definition sys_ok (a : list (list (option expr))) (b : list (option expr)) : Prop :=
      shape n a /\ length b = n /\ (forall i j, entry_ok i j (mget a i j)) /\ (forall i, wf_oexpr (vget b i)).

    Definition row_eq (k : nat) (a : list (list (option expr))) (b : list (option expr)) (i : nat) : Prop :=
      forall u, R i u <-> (Lo (vget b i) u \/ exists j, j < k /\ lcat (Lo (mget a i j)) (R j) u).

    Definition Inv (k : nat) (a : list (list (option expr))) (b : list (option expr)) : Prop :=
      sys_ok a b /\ forall i, i < k -> i < len -> row_eq k a b i.

    Lemma row_eq_ext : forall k a b a' b' i,
      vget b' i = vget b i -> (forall j, mget a' i j = mget a i j) -> row_eq k a b i -> row_eq k a' b' i.
    Proof.
      intros k a b a' b' i Hb Ha H u. rewrite Hb. rewrite (H u).
      split; (intros [H1|[j [Hj H1]]]; [now left | right; exists j; split; [exact Hj|]]).
      - now rewrite Ha.
      - now rewrite <- Ha.
    Qed.

    Lemma row_eq_drop : forall m a b i, mget a i m = None -> row_eq (S m) a b i -> row_eq m a b i.
    Proof.
      intros m a b i Hn H u. rewrite (H u). split; (intros [H1|[j [Hj H1]]]; [now left|]).
      - destruct (Nat.eq_dec j m) as [->|Hne].
        + rewrite Hn in H1. destruct H1 as [v [w [_ [[] _]]]].
        + right. exists j. split; [lia | exact H1].
      - right. exists j. split; [lia | exact H1].
    Qed.

    Lemma diag_none : forall a b m, sys_ok a b -> mget a m m = None.
    Proof.
      intros a b m [_ [_ [He _]]]. destruct (mget a m m) as [x|] eqn:E; [|reflexivity].
      specialize (He m m). rewrite E in He. destruct He as [_ He].
      assert (Hx : Some x <> None) by discriminate. specialize (He Hx). lia.
    Qed.

    (* ---------- elimination: the innermost loop ---------- *)
    Definition inner_step (ain : expr) (m i : nat) (acc : option sys) (j : nat) : option sys :=
      match acc with
      | None => None
      | Some (a, b) =>
          match union c (mget a i j) (concatenate (Some ain) (mget a m j)) with
          | None => None
          | Some aij => Some (mset a i j aij, b)
          end
      end.

    Lemma inner_fold : forall ain m i, i <> m -> i < n -> wf_expr ain ->
      forall js, NoDup js -> (forall j, In j js -> j < n) ->
      forall a b, shape n a -> (forall i' j, wf_oexpr (mget a i' j)) ->
      exists a', fold_left (inner_step ain m i) js (Some (a, b)) = Some (a', b) /\ shape n a' /\
        (forall i' j, i' <> i \/ ~ In j js -> mget a' i' j = mget a i' j) /\
        (forall j, In j js ->
           wf_oexpr (mget a' i j) /\
           leq (Lo (mget a' i j)) (lunion (Lo (mget a i j)) (lcat (Le ain) (Lo (mget a m j)))) /\
           (mget a' i j <> None -> mget a i j <> None \/ mget a m j <> None)).
    Proof.
      intros ain m i Him Hi Hain js. induction js as [|j js IH]; intros Hnd Hjs a b Hsh Hwfa.
      - exists a. simpl. split; [reflexivity|]. split; [exact Hsh|]. split; [reflexivity|]. intros j [].
      - inversion Hnd as [|j0 js0 Hnotin Hnd']; subst.
        assert (Hj : j < n) by (apply Hjs; now left).
        assert (Hw1 : wf_oexpr (mget a i j)) by apply Hwfa.
        assert (Hw2 : wf_oexpr (concatenate (Some ain) (mget a m j))).
        { apply concatenate_wf; [exact Hain | apply Hwfa]. }
        destruct (union_total c _ _ Hw1 Hw2) as [x Hx].
        destruct (union_spec c _ _ _ Hw1 Hw2 Hx) as [Hxwf [Hxl Hxn]].
        cbn [fold_left]. unfold inner_step at 2. rewrite Hx.
        assert (Hsh1 : shape n (mset a i j x)) by now apply shape_mset.
        assert (Hwf1 : forall i' j', wf_oexpr (mget (mset a i j x) i' j')).
        { intros i' j'. destruct (Nat.eq_dec i' i) as [->|Hi'].
          - destruct (Nat.eq_dec j' j) as [->|Hj'].
            + now rewrite (mget_mset_eq n) by assumption.
            + rewrite mget_mset_other by (now right). apply Hwfa.
          - rewrite mget_mset_other by (now left). apply Hwfa. }
        destruct (IH Hnd' (fun j' H => Hjs j' (or_intror H)) (mset a i j x) b Hsh1 Hwf1)
          as [a' [Hf [Hsh' [Hun Hsp]]]].
        exists a'. split; [exact Hf|]. split; [exact Hsh'|]. split.
        + intros i' j' Hc. rewrite Hun.
          * apply mget_mset_other. destruct Hc as [Hc|Hc]; [now left|]. right. intros ->. apply Hc. now left.
          * destruct Hc as [Hc|Hc]; [now left|]. right. intros H. apply Hc. now right.
        + intros j' [<-|Hin].
          * rewrite Hun by (now right). rewrite (mget_mset_eq n) by assumption.
            split; [exact Hxwf|]. split.
            -- intros u. rewrite (Hxl u). unfold lunion. rewrite (concatenate_lang (Some ain) (mget a m j) u).
               reflexivity.
            -- intros Hne. destruct (Hxn Hne) as [H|H]; [now left|]. right.
               now apply concatenate_some in H.
          * assert (Hjj : j' <> j) by (intros ->; contradiction).
            destruct (Hsp j' Hin) as [S1 [S2 S3]].
            rewrite (mget_mset_other a i j x i j') in S2, S3 by (now right).
            rewrite (mget_mset_other a i j x m j') in S2, S3 by (now right).
            auto.
    Qed.

    (* ---------- elimination: one row ---------- *)
    Definition row_step (m : nat) (acc : option sys) (i : nat) : option sys :=
      match acc with
      | None => None
      | Some (a, b) =>
          match mget a i m with
          | None => Some (a, b)
          | Some ain =>
              match union c (vget b i) (concatenate (Some ain) (vget b m)) with
              | None => None
              | Some bi => fold_left (inner_step ain m i) (seq 0 m) (Some (a, set_nth b i bi))
              end
          end
      end.

    Lemma elim_step_unfold : forall a b m, mget a m m = None ->
      elim_step c (Some (a, b)) m = fold_left (row_step m) (seq 0 m) (Some (a, b)).
    Proof. intros a b m H. unfold elim_step. rewrite H. reflexivity. Qed.

    Lemma row_step_ok : forall m i a b, m < n -> i < m -> sys_ok a b -> (m < len -> row_eq m a b m) ->
      exists a' b', row_step m (Some (a, b)) i = Some (a', b') /\ sys_ok a' b' /\
        (forall i', i' <> i -> vget b' i' = vget b i' /\ forall j, mget a' i' j = mget a i' j) /\
        (i < len -> row_eq (S m) a b i -> row_eq m a' b' i).
    Proof.
      intros m i a b Hm Hi Hok Hrm. unfold row_step. destruct (mget a i m) as [ain|] eqn:E.
      - destruct Hok as [Hsh [Hlb [Hent Hwb]]].
        pose proof (Hent i m) as Heim. rewrite E in Heim. destruct Heim as [Hain Hr].
        assert (Hx : Some ain <> None) by discriminate.
        destruct (Hr Hx) as [Hil [Hml Hrk]]. clear Hr Hx. simpl in Hain.
        specialize (Hrm Hml).
        assert (Hw1 : wf_oexpr (vget b i)) by apply Hwb.
        assert (Hw2 : wf_oexpr (concatenate (Some ain) (vget b m))).
        { apply concatenate_wf; [exact Hain | apply Hwb]. }
        destruct (union_total c _ _ Hw1 Hw2) as [bi Hbi].
        destruct (union_spec c _ _ _ Hw1 Hw2 Hbi) as [Hbiwf [Hbil _]].
        rewrite Hbi.
        assert (Him : i <> m) by lia.
        assert (Hin : i < n) by lia.
        destruct (inner_fold ain m i Him Hin Hain (seq 0 m) (seq_NoDup m 0)
                    (fun j H => Nat.lt_trans _ _ _ (proj2 (proj1 (in_seq m 0 j) H)) Hm)
                    a (set_nth b i bi) Hsh (fun i' j => proj1 (Hent i' j)))
          as [a' [Hf [Hsh' [Hun Hsp]]]].
        exists a', (set_nth b i bi). split; [exact Hf|]. split; [|split].
        + split; [exact Hsh'|]. split; [now rewrite set_nth_length|]. split.
          * intros i' j.
            destruct (Nat.eq_dec i' i) as [->|Hi'].
            -- destruct (lt_dec j m) as [Hjm|Hjm].
               ++ assert (Hjin : In j (seq 0 m)) by (apply in_seq; lia).
                  destruct (Hsp j Hjin) as [S1 [_ S3]]. split; [exact S1|].
                  intros Hne. destruct (S3 Hne) as [H|H].
                  ** exact (proj2 (Hent i j) H).
                  ** destruct (proj2 (Hent m j) H) as [_ [Hjl Hrk2]]. split; [exact Hil|]. split; [exact Hjl|]. lia.
               ++ rewrite Hun; [apply Hent|]. right. rewrite in_seq. lia.
            -- rewrite Hun by (now left). apply Hent.
          * intros i'. destruct (Nat.eq_dec i' i) as [->|Hi'].
            -- rewrite vget_set_nth_eq by lia. exact Hbiwf.
            -- rewrite vget_set_nth_neq by exact Hi'. apply Hwb.
        + intros i' Hi'. split; [now apply vget_set_nth_neq|]. intros j. apply Hun. now left.
        + intros _ Hri.
          unfold row_eq. rewrite vget_set_nth_eq by lia.
          apply (subst_lang (R i) (Lo (vget b i)) (Lo (vget b m)) (Lo bi)
                   (fun j => Lo (mget a i j)) (fun j => Lo (mget a' i j)) (fun j => Lo (mget a m j)) R m).
          * exact Hri.
          * exact Hrm.
          * intros u. rewrite (Hbil u). unfold lunion.
            rewrite (concatenate_lang (Some ain) (vget b m) u). rewrite E. reflexivity.
          * intros j Hj. assert (Hjin : In j (seq 0 m)) by (apply in_seq; lia).
            destruct (Hsp j Hjin) as [_ [S2 _]]. rewrite E. exact S2.
      - exists a, b. split; [reflexivity|]. split; [exact Hok|]. split.
        + intros i' _. auto.
        + intros _. now apply row_eq_drop.
    Qed.

    (* ---------- elimination: all rows ---------- *)
    Lemma outer_fold : forall m, m < n -> forall is, NoDup is -> (forall i, In i is -> i < m) ->
      forall a b, sys_ok a b -> (m < len -> row_eq m a b m) ->
      exists a' b', fold_left (row_step m) is (Some (a, b)) = Some (a', b') /\ sys_ok a' b' /\
        (forall i', ~ In i' is -> vget b' i' = vget b i' /\ forall j, mget a' i' j = mget a i' j) /\
        (forall i, In i is -> i < len -> row_eq (S m) a b i -> row_eq m a' b' i).
    Proof.
      intros m Hm is. induction is as [|i is IH]; intros Hnd His a b Hok Hrm.
      - exists a, b. simpl. split; [reflexivity|]. split; [exact Hok|]. split; [auto|]. intros i [].
      - inversion Hnd as [|i0 is0 Hnotin Hnd']; subst.
        assert (Hi : i < m) by (apply His; now left).
        destruct (row_step_ok m i a b Hm Hi Hok Hrm) as [a1 [b1 [Hs1 [Hok1 [Hun1 Hrow1]]]]].
        assert (Hrm1 : m < len -> row_eq m a1 b1 m).
        { intros Hml. assert (Hmi : m <> i) by lia. destruct (Hun1 m Hmi) as [U1 U2].
          apply (row_eq_ext m a b); auto. }
        destruct (IH Hnd' (fun i' H => His i' (or_intror H)) a1 b1 Hok1 Hrm1)
          as [a' [b' [Hf [Hok' [Hun' Hrow']]]]].
        exists a', b'. split.
        { cbn [fold_left]. rewrite Hs1. exact Hf. }
        split; [exact Hok'|]. split.
        + intros i' Hni. assert (Hne : i' <> i) by (intros ->; apply Hni; now left).
          assert (Hni' : ~ In i' is) by (intros H; apply Hni; now right).
          destruct (Hun' i' Hni') as [U1 U2]. destruct (Hun1 i' Hne) as [V1 V2].
          split; [congruence|]. intros j. rewrite U2. apply V2.
        + intros i' [<-|Hin] Hil Hr.
          * destruct (Hun' i Hnotin) as [U1 U2].
            apply (row_eq_ext m a1 b1); auto.
          * assert (Hne : i' <> i) by (intros ->; contradiction).
            destruct (Hun1 i' Hne) as [V1 V2].
            apply Hrow'; auto. apply (row_eq_ext (S m) a b); auto.
    Qed.

    Lemma elim_step_ok : forall m a b, m < n -> Inv (S m) a b ->
      exists a' b', elim_step c (Some (a, b)) m = Some (a', b') /\ Inv m a' b'.
    Proof.
      intros m a b Hm [Hok Hrows].
      pose proof (diag_none a b m Hok) as Hd.
      rewrite (elim_step_unfold a b m Hd).
      assert (Hrm : m < len -> row_eq m a b m).
      { intros Hml. apply row_eq_drop; [exact Hd|]. apply Hrows; [lia | exact Hml]. }
      destruct (outer_fold m Hm (seq 0 m) (seq_NoDup m 0)
                  (fun i H => proj2 (proj1 (in_seq m 0 i) H)) a b Hok Hrm)
        as [a' [b' [Hf [Hok' [_ Hrow']]]]].
      exists a', b'. split; [exact Hf|]. split; [exact Hok'|].
      intros i Hi Hil. apply Hrow'; [apply in_seq; lia | exact Hil|]. apply Hrows; [lia | exact Hil].
    Qed.

    Lemma elim_all_ok : forall k a b, k <= n -> Inv k a b ->
      exists a' b', fold_left (elim_step c) (rev (seq 0 k)) (Some (a, b)) = Some (a', b') /\
        sys_ok a' b' /\ (0 < k -> 0 < len -> row_eq 1 a' b' 0).
    Proof.
      intros k. induction k as [|k IH]; intros a b Hk HI.
      - exists a, b. simpl. split; [reflexivity|]. split; [apply HI|]. lia.
      - rewrite seq_S, rev_app_distr. simpl rev. simpl app. cbn [fold_left].
        destruct k as [|k].
        + (* eliminating state 0 changes nothing *)
          destruct HI as [Hok Hrows].
          rewrite (elim_step_unfold a b 0 (diag_none a b 0 Hok)). simpl.
          exists a, b. split; [reflexivity|]. split; [exact Hok|]. intros _ Hl. apply Hrows; lia.
        + destruct (elim_step_ok (S k) a b) as [a1 [b1 [Hs1 HI1]]]; [lia | exact HI|].
          rewrite Hs1. destruct (IH a1 b1) as [a' [b' [Hf [Hok' Hr']]]]; [lia | exact HI1|].
          exists a', b'. split; [exact Hf|]. split; [exact Hok'|]. intros _ Hl. apply Hr'; [lia | exact Hl].
    Qed.

    (* ---------- init_system ---------- *)
    Definition init_edge (i : nat) (acc : option sys) (e : edge) : option sys :=
      match acc with
      | None => None
      | Some (a, b) =>
          match position (e_dst e) states 0 with
          | None => None
          | Some j =>
              let l := ELit [e_lbl e] in
              match mget a i j with
              | Some old =>
                  match union2 c old l with
                  | Some u => Some (mset a i j (Some u), b)
                  | None => None
                  end
              | None => Some (mset a i j (Some l), b)
              end
          end
      end.

    Definition init_row (acc : option sys) (ist : nat * nat) : option sys :=
      let '(i, s) := ist in
      match acc with
      | None => None
      | Some (a, b) =>
          let b := if set_mem s (d_finals d) then set_nth b i (Some (ELit [])) else b in
          fold_left (init_edge i) (out_edges (d_edges d) s) (Some (a, b))
      end.

    Lemma init_system_unfold :
      init_system c d states =
      fold_left init_row (combine (seq 0 len) states)
        (Some (repeat (repeat (@None expr) n) n, repeat (@None expr) n)).
    Proof. reflexivity. Qed.

    Definition edge_lang (es : list edge) (j : nat) : lang :=
      fun u => exists e, In e es /\ position (e_dst e) states 0 = Some j /\ den_g lit_den cls_den (e_lbl e) u.

    Lemma init_edges_fold : forall i, i < len ->
      forall es, (forall e, In e es -> In e (d_edges d) /\ e_src e = st i) ->
      forall a b, sys_ok a b ->
      exists a', fold_left (init_edge i) es (Some (a, b)) = Some (a', b) /\ sys_ok a' b /\
        (forall i' j, i' <> i -> mget a' i' j = mget a i' j) /\
        (forall j, leq (Lo (mget a' i j)) (lunion (Lo (mget a i j)) (edge_lang es j))).
    Proof.
      intros i Hi es. induction es as [|e es IH]; intros Hes a b Hok.
      - exists a. simpl. split; [reflexivity|]. split; [exact Hok|]. split; [reflexivity|].
        intros j u. unfold lunion, edge_lang. split; [now left|]. intros [H|[e [[] _]]]. exact H.
      - destruct (Hes e (or_introl eq_refl)) as [Hein Hesrc].
        destruct Hdfs as [_ [_ [_ Hclosed]]].
        assert (Hdst : In (e_dst e) states).
        { apply Hclosed; [exact Hein|]. rewrite Hesrc. now apply st_in. }
        destruct (position_some _ _ 0 Hdst) as [j Hpos].
        destruct (position0_spec _ _ _ Hpos) as [Hjl Hjst]. fold (st j) in Hjst.
        pose proof len_le_n as Hln.
        assert (Hrk : rank (st j) < rank (st i)).
        { rewrite Hjst, <- Hesrc. now apply Hrank. }
        assert (Hwl : wf_expr (ELit [e_lbl e])).
        { simpl. constructor; [|constructor]. destruct Hwf as [Hwe _]. rewrite Forall_forall in Hwe.
          apply (Hwe e Hein). }
        destruct Hok as [Hsh [Hlb [Hent Hwb]]].
        assert (Hstep : exists x, init_edge i (Some (a, b)) e = Some (mset a i j (Some x), b) /\ wf_expr x /\
                          leq (Le x) (lunion (Lo (mget a i j)) (den_g lit_den cls_den (e_lbl e)))).
        { simpl. rewrite Hpos. destruct (mget a i j) as [old|] eqn:E.
          - pose proof (Hent i j) as Ho. rewrite E in Ho. destruct Ho as [Ho _]. simpl in Ho.
            destruct (union2_total c old _ Ho Hwl) as [x Hx]. rewrite Hx. exists x.
            split; [reflexivity|]. split; [exact (union2_wf c _ _ _ Ho Hwl Hx)|].
            intros u. rewrite (union2_lang c _ _ _ Ho Hwl Hx u). unfold lunion.
            rewrite (Le_lit1 (e_lbl e) u). reflexivity.
          - exists (ELit [e_lbl e]). split; [reflexivity|]. split; [exact Hwl|].
            intros u. rewrite (Le_lit1 (e_lbl e) u). unfold lunion, L_oexpr, lempty. tauto. }
        destruct Hstep as [x [Hs1 [Hxwf Hxl]]].
        assert (Hok1 : sys_ok (mset a i j (Some x)) b).
        { split; [now apply shape_mset|]. split; [exact Hlb|]. split; [|exact Hwb].
          intros i' j'. destruct (Nat.eq_dec i' i) as [->|Hi'].
          - destruct (Nat.eq_dec j' j) as [->|Hj'].
            + rewrite (mget_mset_eq n) by (try assumption; lia). split; [exact Hxwf|]. intros _. auto.
            + rewrite mget_mset_other by (now right). apply Hent.
          - rewrite mget_mset_other by (now left). apply Hent. }
        destruct (IH (fun e' H => Hes e' (or_intror H)) (mset a i j (Some x)) b Hok1)
          as [a' [Hf [Hok' [Hun Hsp]]]].
        exists a'. split.
        { cbn [fold_left]. rewrite Hs1. exact Hf. }
        split; [exact Hok'|]. split.
        + intros i' j' Hi'. rewrite Hun by exact Hi'. apply mget_mset_other. now left.
        + intros j' u. rewrite (Hsp j' u). unfold lunion, edge_lang.
          destruct (Nat.eq_dec j' j) as [->|Hj'].
          * rewrite (mget_mset_eq n) by (try assumption; lia). simpl L_oexpr. rewrite (Hxl u). unfold lunion.
            split.
            -- intros [[H|H]|[e' [H1 [H2 H3]]]]; [now left | |].
               ++ right. exists e. split; [now left|]. auto.
               ++ right. exists e'. split; [now right|]. auto.
            -- intros [H|[e' [[<-|H1] [H2 H3]]]]; [left; now left | left; now right |].
               right. exists e'. auto.
          * rewrite mget_mset_other by (now right). split.
            -- intros [H|[e' [H1 [H2 H3]]]]; [now left|]. right. exists e'. split; [now right|]. auto.
            -- intros [H|[e' [[<-|H1] [H2 H3]]]]; [now left | |].
               ++ rewrite Hpos in H2. injection H2 as H2. contradiction Hj'. now symmetry.
               ++ right. exists e'. auto.
    Qed.

    Definition init_row_spec (a : list (list (option expr))) (b : list (option expr)) (i : nat) : Prop :=
      (forall u, Lo (vget b i) u <-> In (st i) (d_finals d) /\ u = []) /\
      (forall j, leq (Lo (mget a i j)) (edge_lang (out_edges (d_edges d) (st i)) j)).

    Lemma init_row_ok : forall i a b, i < len -> sys_ok a b ->
      vget b i = None -> (forall j, mget a i j = None) ->
      exists a' b', init_row (Some (a, b)) (i, st i) = Some (a', b') /\ sys_ok a' b' /\
        (forall i', i' <> i -> vget b' i' = vget b i' /\ forall j, mget a' i' j = mget a i' j) /\
        init_row_spec a' b' i.
    Proof.
      intros i a b Hi Hok Hbn Han. simpl.
      pose proof len_le_n as Hln.
      set (b1 := if set_mem (st i) (d_finals d) then set_nth b i (Some (ELit [])) else b).
      assert (Hb1 : length b1 = n /\ (forall i', wf_oexpr (vget b1 i')) /\
                    (forall i', i' <> i -> vget b1 i' = vget b i') /\
                    (forall u, Lo (vget b1 i) u <-> In (st i) (d_finals d) /\ u = [])).
      { destruct Hok as [Hsh [Hlb [Hent Hwb]]]. unfold b1.
        destruct (set_mem (st i) (d_finals d)) eqn:E.
        - apply set_mem_In in E. split; [now rewrite set_nth_length|]. split; [|split].
          + intros i'. destruct (Nat.eq_dec i' i) as [->|Hi'].
            * rewrite vget_set_nth_eq by lia. simpl. constructor.
            * rewrite vget_set_nth_neq by exact Hi'. apply Hwb.
          + intros i' Hi'. now apply vget_set_nth_neq.
          + intros u. rewrite vget_set_nth_eq by lia. simpl. unfold leps. tauto.
        - split; [exact Hlb|]. split; [exact Hwb|]. split; [reflexivity|].
          intros u. rewrite Hbn. simpl. unfold lempty. split; [contradiction|].
          intros [H _]. apply set_mem_In in H. congruence. }
      destruct Hb1 as [B1 [B2 [B3 B4]]].
      assert (Hok1 : sys_ok a b1).
      { destruct Hok as [Hsh [Hlb [Hent Hwb]]]. split; [exact Hsh|]. split; [exact B1|]. split; [exact Hent | exact B2]. }
      destruct (init_edges_fold i Hi (out_edges (d_edges d) (st i))
                  (fun e H => proj1 (in_out_edges _ _ _) H) a b1 Hok1) as [a' [Hf [Hok' [Hun Hsp]]]].
      exists a', b1. split; [exact Hf|]. split; [exact Hok'|]. split.
      - intros i' Hi'. split; [now apply B3|]. intros j. now apply Hun.
      - split; [exact B4|]. intros j u. rewrite (Hsp j u). rewrite Han. unfold lunion. simpl. unfold lempty. tauto.
    Qed.

    Lemma init_rows_fold : forall l, NoDup (map fst l) -> (forall i s, In (i, s) l -> i < len /\ st i = s) ->
      forall a b, sys_ok a b ->
      (forall i, In i (map fst l) -> vget b i = None /\ forall j, mget a i j = None) ->
      exists a' b', fold_left init_row l (Some (a, b)) = Some (a', b') /\ sys_ok a' b' /\
        (forall i', ~ In i' (map fst l) -> vget b' i' = vget b i' /\ forall j, mget a' i' j = mget a i' j) /\
        (forall i, In i (map fst l) -> init_row_spec a' b' i).
    Proof.
      intros l. induction l as [|[i s] l IH]; intros Hnd Hl a b Hok Hnone.
      - exists a, b. simpl. split; [reflexivity|]. split; [exact Hok|]. split; [auto|]. intros i [].
      - simpl map in *. inversion Hnd as [|i0 l0 Hnotin Hnd']; subst.
        destruct (Hl i s (or_introl eq_refl)) as [Hi Hs]. subst s.
        destruct (Hnone i (or_introl eq_refl)) as [N1 N2].
        destruct (init_row_ok i a b Hi Hok N1 N2) as [a1 [b1 [Hs1 [Hok1 [Hun1 Hsp1]]]]].
        assert (Hnone1 : forall i', In i' (map fst l) -> vget b1 i' = None /\ forall j, mget a1 i' j = None).
        { intros i' Hin. assert (Hne : i' <> i) by (intros ->; contradiction).
          destruct (Hun1 i' Hne) as [U1 U2]. destruct (Hnone i' (or_intror Hin)) as [M1 M2].
          split; [congruence|]. intros j. rewrite U2. apply M2. }
        destruct (IH Hnd' (fun i' s' H => Hl i' s' (or_intror H)) a1 b1 Hok1 Hnone1)
          as [a' [b' [Hf [Hok' [Hun' Hsp']]]]].
        exists a', b'. split.
        { cbn [fold_left]. rewrite Hs1. exact Hf. }
        split; [exact Hok'|]. split.
        + intros i' Hni. assert (Hne : i' <> i) by (intros ->; apply Hni; now left).
          assert (Hni' : ~ In i' (map fst l)) by (intros H; apply Hni; now right).
          destruct (Hun' i' Hni') as [U1 U2]. destruct (Hun1 i' Hne) as [V1 V2].
          split; [congruence|]. intros j. rewrite U2. apply V2.
        + intros i' [<-|Hin]; [|now apply Hsp'].
          destruct (Hun' i Hnotin) as [U1 U2]. destruct Hsp1 as [P1 P2]. split.
          * intros u. rewrite U1. apply P1.
          * intros j u. rewrite U2. apply P2.
    Qed.

    Lemma init_system_ok : exists a b, init_system c d states = Some (a, b) /\ Inv n a b.
    Proof.
      rewrite init_system_unfold.
      pose proof len_le_n as Hln.
      assert (Hok0 : sys_ok (repeat (repeat (@None expr) n) n) (repeat (@None expr) n)).
      { split; [apply shape_repeat|]. split; [apply repeat_length|]. split.
        - intros i j. rewrite mget_repeat_none. split; [exact I|]. intros H. now contradiction H.
        - intros i. rewrite vget_repeat_none. exact I. }
      assert (Hfst : map fst (combine (seq 0 len) states) = seq 0 len).
      { apply map_fst_combine. apply seq_length. }
      destruct (init_rows_fold (combine (seq 0 len) states)) with (3 := Hok0)
        as [a [b [Hf [Hok [_ Hsp]]]]].
      - rewrite Hfst. apply seq_NoDup.
      - intros i s H. apply (in_combine_seq states 0) in H. rewrite Nat.sub_0_r in H. unfold st. tauto.
      - intros i _. split; [apply vget_repeat_none|]. intros j. apply mget_repeat_none.
      - exists a, b. split; [exact Hf|]. split; [exact Hok|].
        intros i _ Hil. assert (Hin : In i (map fst (combine (seq 0 len) states))).
        { rewrite Hfst. apply in_seq. lia. }
        destruct (Hsp i Hin) as [P1 P2]. clear Hsp.
        destruct Hdfs as [_ [_ [_ Hclosed]]].
        intros u. unfold R at 1. rewrite L_from_unfold. rewrite (P1 u). split.
        + intros [H|[e [Hein [Hesrc [v [w [-> [Hv Hw]]]]]]]]; [now left|]. right.
          assert (Hdst : In (e_dst e) states).
          { apply Hclosed; [exact Hein|]. rewrite Hesrc. now apply st_in. }
          destruct (position_some _ _ 0 Hdst) as [j Hpos].
          destruct (position0_spec _ _ _ Hpos) as [Hjl Hjst].
          exists j. split; [lia|]. exists v, w. split; [reflexivity|]. split.
          * apply P2. exists e. split; [|auto]. apply in_out_edges. auto.
          * unfold R, st. now rewrite Hjst.
        + intros [H|[j [Hj [v [w [-> [Hv Hw]]]]]]]; [now left|]. right.
          apply P2 in Hv. destruct Hv as [e [Hein [Hpos Hg]]].
          apply in_out_edges in Hein. destruct Hein as [Hein Hesrc].
          destruct (position0_spec _ _ _ Hpos) as [Hjl Hjst].
          exists e. split; [exact Hein|]. split; [exact Hesrc|]. exists v, w.
          split; [reflexivity|]. split; [exact Hg|]. unfold R, st in Hw. now rewrite Hjst in Hw.
    Qed.

    (* ---------- the whole computation, for a given state order ---------- *)
    Lemma st0 : 0 < len /\ st 0 = d_init d.
    Proof.
      destruct Hdfs as [_ [Hhd _]]. unfold st. destruct states as [|s ss]; simpl in *; [discriminate|].
      injection Hhd as ->. split; [lia | reflexivity].
    Qed.

    Lemma solve_ok :
      exists a b, fold_left (elim_step c) (rev (seq 0 n)) (init_system c d states) = Some (a, b) /\
        wf_oexpr (vget b 0) /\ leq (Lo (vget b 0)) (L_dfa lit_den cls_den d).
    Proof.
      destruct init_system_ok as [a0 [b0 [Hi HI]]]. rewrite Hi.
      destruct (elim_all_ok n a0 b0 (le_n _) HI) as [a [b [Hf [Hok Hr]]]].
      exists a, b. split; [exact Hf|]. split; [apply Hok|].
      destruct st0 as [Hl0 Hs0].
      assert (Hn : 0 < n) by (pose proof len_le_n; lia).
      specialize (Hr Hn Hl0).
      apply row_eq_drop in Hr; [|exact (diag_none a b 0 Hok)].
      intros u. unfold L_dfa. rewrite <- Hs0. fold (R 0). rewrite (Hr u).
      split; [now left|]. intros [H|[j [Hj _]]]; [exact H | lia].
    Qed.
  End Sys.

  (* ================= main theorems ================= *)
  Definition final_expr (b : list (option expr)) : expr :=
    match b with Some e :: _ => e | _ => ELit [] end.

  Lemma expr_from_spec_given_dfs : forall c d states, wf_dfa d -> acyclic d -> dfs_ok d states ->
    dfs_order d = Some states ->
    exists e, expr_from c d = Some e /\ wf_expr e /\
      (leq (Le e) (L_dfa lit_den cls_den d) \/ (e = ELit [] /\ forall u, ~ L_dfa lit_den cls_den d u)).
  Proof.
    intros c d states Hwf [rank Hrank] Hdfs Hord.
    destruct (solve_ok c d states rank Hwf Hrank Hdfs) as [a [b [Hf [Hwb Hl]]]].
    unfold expr_from. rewrite Hord, Hf.
    destruct b as [|[e|] b']; unfold vget in *; simpl in *.
    - exists (ELit []). split; [reflexivity|]. split; [constructor|]. right. split; [reflexivity|].
      intros u Hu. now apply Hl in Hu.
    - exists e. split; [reflexivity|]. split; [exact Hwb|]. now left.
    - exists (ELit []). split; [reflexivity|]. split; [constructor|]. right. split; [reflexivity|].
      intros u Hu. now apply Hl in Hu.
  Qed.

  (* general form: the result denotes the automaton's language, except that an automaton with
     the EMPTY language is mapped to the empty literal (language {eps}) *)
  Theorem expr_from_spec : forall c d, wf_dfa d -> acyclic d ->
    exists e, expr_from c d = Some e /\ wf_expr e /\
      (leq (Le e) (L_dfa lit_den cls_den d) \/ (e = ELit [] /\ forall u, ~ L_dfa lit_den cls_den d u)).
  Proof.
    intros c d Hwf Hac. destruct (dfs_order_total d) as [states Hord].
    exact (expr_from_spec_given_dfs c d states Hwf Hac (dfs_order_ok d states Hwf Hord) Hord).
  Qed.

  Theorem expr_from_lang_gen : forall c d e, wf_dfa d -> acyclic d -> expr_from c d = Some e ->
    leq (Le e) (L_dfa lit_den cls_den d) \/ (e = ELit [] /\ forall u, ~ L_dfa lit_den cls_den d u).
  Proof.
    intros c d e Hwf Hac H. destruct (expr_from_spec c d Hwf Hac) as [e' [H' [_ Hl]]].
    rewrite H in H'. injection H' as <-. exact Hl.
  Qed.

  (* NOTE: the premise (exists u, L_dfa d u) is necessary: for d = mkDfa 1 [] 0 [] [] (well formed, acyclic,
     empty language) expr_from returns Some (ELit []), whose language is {eps}; see expr_from_lang_cex. *)
  Theorem expr_from_lang : forall c d e, wf_dfa d -> acyclic d -> (exists u, L_dfa lit_den cls_den d u) ->
    expr_from c d = Some e -> leq (Le e) (L_dfa lit_den cls_den d).
  Proof.
    intros c d e Hwf Hac [u Hu] H.
    destruct (expr_from_lang_gen c d e Hwf Hac H) as [Hl|[_ Hn]]; [exact Hl|]. now apply Hn in Hu.
  Qed.

  Theorem expr_from_lang_given_dfs : forall c d states e, wf_dfa d -> acyclic d -> dfs_ok d states ->
    dfs_order d = Some states -> (exists u, L_dfa lit_den cls_den d u) ->
    expr_from c d = Some e -> leq (Le e) (L_dfa lit_den cls_den d).
  Proof.
    intros c d states e Hwf Hac _ _. now apply expr_from_lang.
  Qed.

  Theorem expr_from_total : forall c d, wf_dfa d -> acyclic d -> exists e, expr_from c d = Some e.
  Proof.
    intros c d Hwf Hac. destruct (expr_from_spec c d Hwf Hac) as [e [H _]]. now exists e.
  Qed.

  Theorem expr_from_wf : forall c d e, wf_dfa d -> acyclic d -> expr_from c d = Some e -> wf_expr e.
  Proof.
    intros c d e Hwf Hac H. destruct (expr_from_spec c d Hwf Hac) as [e' [H' [Hw _]]].
    rewrite H in H'. injection H' as <-. exact Hw.
  Qed.

  (* the unrestricted statement fails on the empty language *)
  Lemma expr_from_lang_cex : forall c,
    let d := mkDfa 1 [] 0 [] [] in
    wf_dfa d /\ acyclic d /\ expr_from c d = Some (ELit []) /\
    ~ leq (Le (ELit [])) (L_dfa lit_den cls_den d).
  Proof.
    intros c d. split; [|split; [|split]].
    - repeat split; simpl; auto.
    - exists (fun _ => 0). intros e [].
    - reflexivity.
    - intros H. destruct (proj1 (H []) eq_refl) as [t [[] _]].
  Qed.
End Elim.

Print Assumptions expr_from_lang.
Print Assumptions expr_from_spec.
Print Assumptions expr_from_total.
Print Assumptions expr_from_wf.
Print Assumptions dfs_order_ok.
Print Assumptions dfs_order_total.
