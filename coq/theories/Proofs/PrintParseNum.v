(* Printing theorem, part 0: the parser model reads back the numbers the printer writes
   (decimal repetition counts, \u{hex} escapes). *)
From Grex Require Import Base.Str Model.Config Model.Cluster Model.Expr Engine.Syntax Engine.Parse.
From Grex Require Import Proofs.EscapeProps.

Local Open Scope N_scope.

(* ---------- generic take_while ---------- *)
Lemma take_while_app_stop : forall (p : cp -> bool) (l : str) (c : cp) (r : str),
  Forall (fun d => p d = true) l -> p c = false ->
  take_while p (l ++ c :: r) = (l, c :: r).
Proof.
  intros p l c r HF Hc. induction HF as [|d l Hd HF IH]; cbn [app take_while].
  - rewrite Hc. reflexivity.
  - rewrite Hd, IH. reflexivity.
Qed.

Lemma take_while_stop : forall (p : cp -> bool) (c : cp) (r : str),
  p c = false -> take_while p (c :: r) = ([], c :: r).
Proof. intros p c r Hc. cbn [take_while]. rewrite Hc. reflexivity. Qed.

(* ---------- decimal ---------- *)
Lemma is_dec_is_digit : forall d, is_dec d -> Parse.is_digit d = true.
Proof.
  intros d [H1 H2]. unfold Parse.is_digit. apply andb_true_intro.
  split; apply N.leb_le; assumption.
Qed.

Lemma scan_dec_fold : forall ds rest a, Forall is_dec ds ->
  scan_dec (ds ++ rest) a
  = scan_dec rest (fold_left (fun acc d => (acc * 10 + (d - 48))%N) ds a).
Proof.
  induction ds as [|d ds IH]; intros rest a HF; [reflexivity|].
  inversion HF as [|? ? Hd HF']; subst.
  cbn [app scan_dec fold_left]. unfold decval.
  destruct Hd as [H1 H2].
  replace ((48 <=? d) && (d <=? 57)) with true
    by (symmetry; apply andb_true_intro; split; apply N.leb_le; assumption).
  rewrite IH by exact HF'. f_equal. f_equal. lia.
Qed.

Lemma num_of_dec : forall n, num_of 10 (fun d => (d - 48)%N) (dec_of_N n) = n.
Proof.
  intros n. unfold num_of.
  destruct (dec_of_N_spec n) as (_ & HF & Hscan & _).
  pose proof (scan_dec_fold (dec_of_N n) [] 0 HF) as H1.
  rewrite Hscan in H1. cbn [scan_dec] in H1.
  rewrite N.mul_0_l, N.add_0_l in H1. symmetry. exact (f_equal fst H1).
Qed.

Lemma dec_of_N_all_digit : forall n, Forall (fun d => Parse.is_digit d = true) (dec_of_N n).
Proof.
  intros n. eapply Forall_impl; [|apply dec_of_N_digits]. intros d Hd. apply is_dec_is_digit. exact Hd.
Qed.

Lemma dec_of_N_cons : forall n, exists d l, dec_of_N n = d :: l /\ is_dec d.
Proof.
  intros n. pose proof (dec_of_N_nonempty n) as Hne. pose proof (dec_of_N_digits n) as HF.
  destruct (dec_of_N n) as [|d l]; [congruence|]. inversion HF; subst. eauto.
Qed.

Section Counted.
  Variable is_ws : cp -> bool.

  (* what the printing theorem needs about pattern whitespace: the characters of a counted
     repetition are not whitespace (used by the whitespace trimming inside {..}) *)
  Definition ws_ok : Prop :=
    forall c, (48 <= c /\ c <= 57) \/ c = 44 \/ c = 125 -> is_ws c = false.

  Hypothesis Hws : ws_ok.

  Lemma trim_ws_id : forall c r, (48 <= c /\ c <= 57) \/ c = 44 \/ c = 125 ->
    trim_ws is_ws (c :: r) = c :: r.
  Proof.
    intros c r Hc. unfold trim_ws. rewrite take_while_stop by (apply Hws; exact Hc). reflexivity.
  Qed.

  Lemma trim_ws_dec : forall n r, trim_ws is_ws (dec_of_N n ++ r) = dec_of_N n ++ r.
  Proof.
    intros n r. destruct (dec_of_N_cons n) as (d & l & E & Hd). rewrite E. cbn [app].
    apply trim_ws_id. left. exact Hd.
  Qed.

  Lemma parse_counted_n : forall n r,
    parse_counted is_ws false (dec_of_N n ++ 125 :: r) = Some (n, Some n, r).
  Proof.
    intros n r. unfold parse_counted. cbn [bump].
    rewrite trim_ws_dec.
    rewrite take_while_app_stop by (apply dec_of_N_all_digit || reflexivity).
    destruct (dec_of_N_cons n) as (d & l & E & Hd).
    rewrite trim_ws_id by (right; right; reflexivity).
    rewrite E at 1. rewrite num_of_dec.
    change (N.eqb 125 125) with true. cbn iota. reflexivity.
  Qed.

  Lemma parse_counted_mn : forall a b r, a <= b ->
    parse_counted is_ws false (dec_of_N a ++ 44 :: dec_of_N b ++ 125 :: r) = Some (a, Some b, r).
  Proof.
    intros a b r Hab. unfold parse_counted. cbn [bump].
    rewrite trim_ws_dec.
    rewrite take_while_app_stop by (apply dec_of_N_all_digit || reflexivity).
    destruct (dec_of_N_cons a) as (d & l & E & Hd).
    rewrite trim_ws_id by (right; left; reflexivity).
    rewrite E at 1. rewrite num_of_dec.
    change (N.eqb 44 125) with false. change (N.eqb 44 44) with true. cbn iota.
    rewrite trim_ws_dec.
    rewrite take_while_app_stop by (apply dec_of_N_all_digit || reflexivity).
    rewrite trim_ws_id by (right; right; reflexivity).
    change (N.eqb 125 125) with true. cbn iota.
    destruct (dec_of_N_cons b) as (d2 & l2 & E2 & Hd2).
    rewrite E2 at 1. rewrite num_of_dec.
    replace (a <=? b) with true by (symmetry; apply N.leb_le; exact Hab).
    reflexivity.
  Qed.
End Counted.

(* ---------- hexadecimal ---------- *)
Lemma is_hex_bool : forall d, EscapeProps.is_hex d -> Parse.is_hex d = true.
Proof.
  intros d [[H1 H2]|[H1 H2]]; unfold Parse.is_hex, Parse.is_digit.
  - replace (48 <=? d) with true by (symmetry; apply N.leb_le; exact H1).
    replace (d <=? 57) with true by (symmetry; apply N.leb_le; exact H2). reflexivity.
  - replace (97 <=? d) with true by (symmetry; apply N.leb_le; exact H1).
    replace (d <=? 102) with true by (symmetry; apply N.leb_le; exact H2).
    cbn [andb]. rewrite orb_true_r. reflexivity.
Qed.

Lemma hexval_agree : forall d, EscapeProps.is_hex d ->
  EscapeProps.hexval d = Some (Parse.hexval d).
Proof.
  intros d Hd. unfold EscapeProps.hexval, Parse.hexval, Parse.is_digit.
  destruct Hd as [[H1 H2]|[H1 H2]].
  - replace (48 <=? d) with true by (symmetry; apply N.leb_le; exact H1).
    replace (d <=? 57) with true by (symmetry; apply N.leb_le; exact H2). reflexivity.
  - replace (d <=? 57) with false by (symmetry; apply N.leb_gt; lia).
    rewrite andb_false_r.
    replace (97 <=? d) with true by (symmetry; apply N.leb_le; exact H1).
    replace (d <=? 102) with true by (symmetry; apply N.leb_le; exact H2). reflexivity.
Qed.

Lemma scan_hex_fold : forall ds rest a, Forall EscapeProps.is_hex ds ->
  scan_hex (ds ++ rest) a
  = scan_hex rest (fold_left (fun acc d => (acc * 16 + Parse.hexval d)%N) ds a).
Proof.
  induction ds as [|d ds IH]; intros rest a HF; [reflexivity|].
  inversion HF as [|? ? Hd HF']; subst.
  cbn [app scan_hex fold_left]. rewrite (hexval_agree d Hd).
  rewrite IH by exact HF'. f_equal. f_equal. lia.
Qed.

Lemma num_of_hex : forall n, num_of 16 Parse.hexval (hex_of_N n) = n.
Proof.
  intros n. unfold num_of.
  pose proof (scan_hex_fold (hex_of_N n) [] 0 (hex_of_N_digits n)) as H1.
  rewrite scan_hex_hex_of_N in H1. cbn [scan_hex] in H1.
  rewrite N.mul_0_l, N.add_0_l in H1. symmetry. exact (f_equal fst H1).
Qed.

Lemma hex_digits_len_le : forall fuel n acc k,
  n < 16 ^ N.of_nat k -> (0 < k)%nat ->
  (length (hex_digits fuel n acc) <= k + length acc)%nat.
Proof.
  induction fuel as [|f IH]; intros n acc k Hn Hk; cbn [hex_digits]; [lia|].
  destruct (N.eqb_spec (n / 16) 0) as [Hq|Hq]; [cbn [length]; lia|].
  destruct k as [|k]; [lia|].
  destruct k as [|k].
  - exfalso. apply Hq. apply N.div_small. change (16 ^ N.of_nat 1) with 16 in Hn. exact Hn.
  - assert (Hq' : n / 16 < 16 ^ N.of_nat (S k)).
    { apply N.div_lt_upper_bound; [lia|].
      rewrite (Nat2N.inj_succ (S k)), N.pow_succ_r' in Hn. exact Hn. }
    pose proof (IH (n / 16) (hex_digit (n mod 16) :: acc) (S k) Hq' ltac:(lia)) as H.
    cbn [length] in H. lia.
Qed.

Lemma hex_of_N_len_le : forall n, n <= 1114111 -> (length (hex_of_N n) <= 6)%nat.
Proof.
  intros n Hn. unfold hex_of_N.
  pose proof (hex_digits_len_le (S (N.to_nat (N.log2 n))) n [] 6) as H.
  cbn [length] in H. rewrite Nat.add_0_r in H. apply H; [|lia].
  change (16 ^ N.of_nat 6) with 16777216. lia.
Qed.

Lemma hex_of_N_all_hex : forall n, Forall (fun d => Parse.is_hex d = true) (hex_of_N n).
Proof.
  intros n. eapply Forall_impl; [|apply hex_of_N_digits]. intros d Hd. apply is_hex_bool. exact Hd.
Qed.

Lemma parse_escape_u : forall y r, is_scalar_value y = true ->
  Parse.parse_escape false (117 :: 123 :: hex_of_N y ++ 125 :: r) = Some (EscLit y, r).
Proof.
  intros y r Hy. unfold Parse.parse_escape.
  change (is_meta 117) with false. change (N.eqb 117 110) with false.
  change (N.eqb 117 114) with false. change (N.eqb 117 116) with false.
  change (N.eqb 117 118) with false. change (N.eqb 117 102) with false.
  change (N.eqb 117 32) with false.
  change (mem_cp 117 [100; 68; 115; 83; 119; 87]) with false.
  change (N.eqb 117 117) with true. change (N.eqb 123 123) with true. cbn iota.
  rewrite take_while_app_stop by (apply hex_of_N_all_hex || reflexivity).
  pose proof (hex_of_N_nonempty y) as Hne.
  destruct (hex_of_N y) as [|d l] eqn:E; [congruence|]. rewrite <- E.
  change (N.eqb 125 125) with true. cbn [andb].
  assert (Hlen : (length (hex_of_N y) <= 6)%nat).
  { apply hex_of_N_len_le. unfold is_scalar_value in Hy.
    apply orb_true_iff in Hy. destruct Hy as [Hy|Hy].
    - apply N.ltb_lt in Hy. lia.
    - apply andb_true_iff in Hy. destruct Hy as [_ Hy]. apply N.leb_le in Hy. exact Hy. }
  replace (Nat.leb (length (hex_of_N y)) 8) with true by (symmetry; apply Nat.leb_le; lia).
  rewrite num_of_hex, Hy. reflexivity.
Qed.
