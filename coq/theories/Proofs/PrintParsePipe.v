(* Printing theorem: the grapheme part of wf_print is satisfiable by the pipeline — stage R
   (convert_repetitions) turns plain graphemes with tokenised characters into graphemes that
   satisfy wf_pg (nested `reps` are re-bracketings with uniform counts, and a non-empty `reps`
   vector comes with at least two characters). *)
From Grex Require Import Base.Str Model.Config Model.Cluster.
From Grex Require Import Proofs.Lang Proofs.RepInv.
From Grex Require Import Proofs.PrintParseDefs Proofs.PrintParseLit.

Definition tok_plain (g : grapheme) : Prop := exists s, g = G [s] [] 1%N 1%N /\ tok_ok s.

Lemma tok_plain_plain : forall gs, Forall tok_plain gs -> Forall plain gs.
Proof.
  intros gs H. eapply Forall_impl; [|exact H]. intros g (s & -> & _). exists s. reflexivity.
Qed.

Lemma wf_pg_weaken : forall g, wf_pg true g -> wf_pg false g.
Proof.
  intros [cs rs a b] H. apply wf_pg_unfold in H. apply wf_pg_unfold.
  destruct H as (H1 & H2 & H3 & H4 & _ & H6 & H7). repeat split; auto. discriminate.
Qed.

Lemma wf_pg_tok_plain : forall n g, tok_plain g -> wf_pg n g.
Proof.
  intros n g (s & -> & Hs). apply wf_pg_unfold.
  repeat split; auto; try discriminate; try lia.
Qed.

Lemma tok_plain_map_g_from : forall cs, Forall tok_ok cs -> Forall tok_plain (map g_from cs).
Proof.
  intros cs H. apply Forall_map. eapply Forall_impl; [|exact H].
  intros s Hs. exists s. split; [reflexivity|exact Hs].
Qed.

Lemma conv_reps_wf_pg : forall c fuel gs,
  Forall tok_plain gs -> Forall (wf_pg true) (conv_reps fuel c gs).
Proof.
  intros c. induction fuel as [|fuel IH]; intros gs Htp; [constructor|].
  destruct (conv_reps_S fuel c gs) as [E|E]; rewrite E; [constructor|].
  apply Forall_map. apply splice_all_Forall.
  - eapply Forall_impl; [|exact Htp]. intros g (s & -> & Hs). cbn [relabel].
    rewrite conv_reps_short by (cbn [map length]; lia).
    apply wf_pg_tok_plain. exists s. auto.
  - intros s e sub Hin Hlen.
    apply in_co_of in Hin. destruct Hin as (idx & Hidx & Hp & _ & Hcnt).
    destruct (collect_ok gs sub idx Hidx) as [Hne Hocc].
    destruct idx as [|i idx]; [congruence|].
    destruct (Hocc i (or_introl eq_refl)) as [_ Hval].
    assert (Htok : Forall tok_ok sub).
    { rewrite <- Hval. apply Forall_map.
      assert (HF : Forall tok_plain (firstn (length sub) (skipn i gs))).
      { apply RepInv.Forall_firstn'. apply RepInv.Forall_skipn'. exact Htp. }
      eapply Forall_impl; [|exact HF]. intros g (t & -> & Ht).
      unfold g_value. cbn [g_chars concat]. rewrite app_nil_r. exact Ht. }
    unfold g_new. cbn [relabel]. apply wf_pg_unfold.
    split; [destruct sub; [cbn [length] in Hp; lia|discriminate]|].
    split; [exact Htok|]. split; [lia|]. split; [lia|]. split; [reflexivity|].
    split.
    + destruct (le_lt_dec 2 (length sub)) as [H2|H2].
      * destruct (conv_reps_expand c fuel (map g_from sub) (plain_map_g_from sub)) as [E'|E'];
          [left; exact E'|right; split; assumption].
      * left. apply conv_reps_short. rewrite map_length. exact H2.
    + apply IH. apply tok_plain_map_g_from. exact Htok.
Qed.

Theorem convert_wf_pg : forall c cl,
  Forall tok_plain cl -> Forall (wf_pg false) (convert_repetitions c cl).
Proof.
  intros c cl Htp. unfold convert_repetitions.
  destruct (conv_reps (S (length cl)) c cl) as [|g r] eqn:E.
  - eapply Forall_impl; [|exact Htp]. intros g Hg. apply wf_pg_tok_plain. exact Hg.
  - rewrite <- E. eapply Forall_impl; [|apply conv_reps_wf_pg; exact Htp].
    intros g' Hg'. apply wf_pg_weaken. exact Hg'.
Qed.

Print Assumptions convert_wf_pg.
