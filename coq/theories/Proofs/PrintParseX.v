(* Printing theorem, verbose mode: for configurations meant for the regex crate, the verbose output
   "(?x)..." / "(?ix)..." is accepted by the parser model under the x flag, the parsed AST is the
   SAME expected AST as in non-verbose mode (verbose mode is presentation only), and it denotes the
   language of the expression.

   Proof architecture
     PrintParseXTok   : XS, the relation "s' is a verbose rendering of s" (layout between tokens,
                        content whitespace / '#' replaced by their escapes)
     PrintParseXSim   : the parser model under (?x) on s' simulates the parser without x on s
     PrintParseXLay   : indent_regexp (lines, blank-line removal, indentation, join) preserves XS
     PrintParseXPrint : the verbose printer output is an XS-rendering of the non-verbose output
     this file        : assembly with the non-verbose theorem (PrintParse.pseq_top). *)
From Grex Require Import Base.Str Base.Ranges Model.Config Model.Cluster Model.Dfa Model.Expr Model.Print.
From Grex Require Import Engine.Syntax Engine.Parse Engine.Sem.
From Grex Require Import Proofs.Lang Proofs.ExprLang.
From Grex Require Import Proofs.PrintParseNum Proofs.PrintParseStep Proofs.PrintParseDefs
  Proofs.PrintParseEsc Proofs.PrintParseLit Proofs.PrintParseCC Proofs.PrintParseExpr Proofs.PrintParse.
From Grex Require Import Proofs.VerboseWs Proofs.PrintShape.
From Grex Require Import Proofs.PrintParseXTok Proofs.PrintParseXSim Proofs.PrintParseXLay Proofs.PrintParseXPrint.
From GrexGen Require Import OracleTables SrcConsts.
Local Open Scope N_scope.

(* ---------- the expected AST does not depend on the verbose flag ---------- *)
Section AstUnv.
  Variable c : cfg.
  Let c0 := unv c.

  Lemma flat_map_ext_F : forall {A B} (f g : A -> list B) (l : list A),
    Forall (fun x => f x = g x) l -> flat_map f l = flat_map g l.
  Proof.
    intros A B f g l H. induction H as [|x l Hx _ IH]; [reflexivity|].
    cbn [flat_map]. rewrite Hx, IH. reflexivity.
  Qed.

  Lemma g_atoms_unv : forall g, g_atoms c0 g = g_atoms c g.
  Proof.
    induction g as [cs rs a b IH] using ExprLang.grapheme_ind'.
    rewrite !g_atoms_unfold.
    assert (Ei : g_inner c0 cs rs = g_inner c cs rs).
    { unfold g_inner. destruct rs as [|r rs]; [reflexivity|]. apply flat_map_ext_F. exact IH. }
    rewrite Ei. reflexivity.
  Qed.

  Lemma e_both_unv : forall e, e_atoms c0 e = e_atoms c e /\ e_alts c0 e = e_alts c e.
  Proof.
    induction e as [os IH|cs|a b IHa IHb|cl|x q IHx] using ExprLang.expr_ind'.
    - assert (E : flat_map (e_alts c0) os = flat_map (e_alts c) os).
      { apply flat_map_ext_F. eapply Forall_impl; [|exact IH]. intros o [_ Ho]. exact Ho. }
      rewrite !e_atoms_alt, !e_alts_alt, E. split; reflexivity.
    - split; reflexivity.
    - destruct IHa as [Aa Al]. destruct IHb as [Ba Bl].
      assert (E : e_atoms c0 (ECat a b) = e_atoms c (ECat a b)).
      { rewrite !e_atoms_cat. unfold e_part.
        change (needs_group c0 2 a) with (needs_group c 2 a).
        change (needs_group c0 2 b) with (needs_group c 2 b).
        rewrite Aa, Al, Ba, Bl. reflexivity. }
      split; [exact E|].
      rewrite !e_alts_nonalt by (intros os; discriminate). rewrite E. reflexivity.
    - assert (E : e_atoms c0 (ELit cl) = e_atoms c (ELit cl)).
      { rewrite !e_atoms_lit. apply flat_map_ext_F. apply Forall_forall. intros g _. apply g_atoms_unv. }
      split; [exact E|].
      rewrite !e_alts_nonalt by (intros os; discriminate). rewrite E. reflexivity.
    - destruct IHx as [Xa Xl].
      assert (E : e_atoms c0 (ERep x q) = e_atoms c (ERep x q)).
      { rewrite !e_atoms_rep. change (needs_group c0 3 x) with (needs_group c 3 x).
        rewrite Xa, Xl. reflexivity. }
      split; [exact E|].
      rewrite !e_alts_nonalt by (intros os; discriminate). rewrite E. reflexivity.
  Qed.

  Lemma top_rast_unv : forall e, top_rast c0 e = top_rast c e.
  Proof.
    intros e. unfold top_rast, top_atoms. rewrite (proj1 (e_both_unv e)). reflexivity.
  Qed.
End AstUnv.

(* ---------- the theorem ---------- *)
Lemma parse_flags_x : forall r, parse_flags (40 :: 63 :: 120 :: 41 :: r) = (mkF false true, r).
Proof. reflexivity. Qed.
Lemma parse_flags_ix : forall r, parse_flags (40 :: 63 :: 105 :: 120 :: 41 :: r) = (mkF true true, r).
Proof. reflexivity. Qed.

Lemma vrest_V : forall c e, vrest c e = V (vbody c e).
Proof. reflexivity. Qed.

Theorem print_parse_verbose : forall isd is_ws c gap e,
  printable c -> f_verbose c = true -> wf_print_gen gap e -> ws_x is_ws ->
  parse is_ws (regexp_str isd c e) = Some ({| fl_i := f_ci c; fl_x := true |}, top_rast c e).
Proof.
  intros isd is_ws c gap e Hp Hv Hwf Hws.
  pose proof (ws_ok_of_x is_ws Hws) as Hok.
  assert (Hp0 : printable (unv c)) by exact Hp.
  assert (Hv0 : f_verbose (unv c) = false) by reflexivity.
  rewrite (PrintShape.regexp_str_verbose isd c e Hv (proj1 Hp)). rewrite vrest_V.
  pose proof (top_rel is_ws c gap Hp Hv Hok e Hwf) as Hrel.
  pose proof (XS_relayout isd c _ _ _ _ 1%nat 0%nat Hrel) as Hlay.
  pose proof (pseq_top is_ws (unv c) Hp0 Hv0 Hok gap e Hwf) as Hpq.
  rewrite top_rast_unv in Hpq.
  set (r0 := PrintParse.caret_str (unv c) ++ vf (PrintParse.body_str (unv c) e)
             ++ PrintParse.dollar_str (unv c)) in *.
  set (rest := match indent_lines isd c (lines (V (vbody c e))) 1 0 with
               | [] => []
               | l => nl ++ join nl l
               end) in *.
  assert (Hrun : exists r', p_seq is_ws (S (S (length rest))) true true rest [] []
                            = Some (top_rast c e, r')).
  { destruct (seq_sim is_ws Hws (S (S (length rest))) true Top r0 rest [] [] (top_rast c e) [])
      as (r' & Hr' & _); [reflexivity|exact Hlay| |exists r'; exact Hr'].
    apply Hpq.
    assert (Hlen : (length r0 <= length rest)%nat) by (apply (XS_len Top Top); exact Hlay).
    unfold cp, str in *. lia. }
  destruct Hrun as (r' & Hrun).
  unfold parse, vflag_str. destruct (f_ci c); cbn [app].
  - rewrite parse_flags_ix. cbn [fl_x]. rewrite Hrun. reflexivity.
  - rewrite parse_flags_x. cbn [fl_x]. rewrite Hrun. reflexivity.
Qed.

(* the parsed pattern denotes the language of the expression *)
Theorem print_parse_lang_verbose : forall lit_den cls_den isd is_ws c gap e,
  printable c -> f_verbose c = true -> wf_print_gen gap e -> ws_x is_ws ->
  (gap -> forall c0 x, surrogate c0 -> ~ lit_den c0 x) ->
  exists fl r, parse is_ws (regexp_str isd c e) = Some (fl, r)
    /\ fl_i fl = f_ci c /\ fl_x fl = true
    /\ (forall s, L_rast lit_den cls_den r s <-> L_expr lit_den cls_den e s).
Proof.
  intros lit_den cls_den isd is_ws c gap e Hp Hv Hwf Hws Hgap.
  exists (mkF (f_ci c) true), (top_rast c e). split; [|split; [reflexivity|split; [reflexivity|]]].
  - apply (print_parse_verbose isd is_ws c gap e Hp Hv Hwf Hws).
  - apply (top_rast_lang c Hp gap lit_den cls_den Hgap e Hwf).
Qed.

(* the two standard instances: no class straddles the surrogate gap / haystacks are scalar *)
Corollary print_parse_lang_verbose_strict : forall lit_den cls_den isd is_ws c e,
  printable c -> f_verbose c = true -> wf_print e -> ws_x is_ws ->
  exists fl r, parse is_ws (regexp_str isd c e) = Some (fl, r)
    /\ fl_i fl = f_ci c /\ fl_x fl = true
    /\ (forall s, L_rast lit_den cls_den r s <-> L_expr lit_den cls_den e s).
Proof.
  intros lit_den cls_den isd is_ws c e Hp Hv Hwf Hws.
  apply (print_parse_lang_verbose lit_den cls_den isd is_ws c False e Hp Hv Hwf Hws). intros [].
Qed.

Corollary print_parse_lang_verbose_scalar : forall lit_den cls_den isd is_ws c e,
  printable c -> f_verbose c = true -> wf_print_gen True e -> ws_x is_ws ->
  (forall c0 x, surrogate c0 -> ~ lit_den c0 x) ->
  exists fl r, parse is_ws (regexp_str isd c e) = Some (fl, r)
    /\ fl_i fl = f_ci c /\ fl_x fl = true
    /\ (forall s, L_rast lit_den cls_den r s <-> L_expr lit_den cls_den e s).
Proof.
  intros lit_den cls_den isd is_ws c e Hp Hv Hwf Hws Hsur.
  apply (print_parse_lang_verbose lit_den cls_den isd is_ws c True e Hp Hv Hwf Hws). intros _. exact Hsur.
Qed.

(* verbose mode is presentation only: with and without the flag the parser builds the same AST *)
Theorem verbose_same_ast : forall isd is_ws c gap e,
  printable c -> f_verbose c = true -> wf_print_gen gap e -> ws_x is_ws ->
  exists a,
    parse is_ws (regexp_str isd c e) = Some ({| fl_i := f_ci c; fl_x := true |}, a) /\
    parse is_ws (regexp_str isd (unv c) e) = Some ({| fl_i := f_ci c; fl_x := false |}, a).
Proof.
  intros isd is_ws c gap e Hp Hv Hwf Hws. exists (top_rast c e). split.
  - apply (print_parse_verbose isd is_ws c gap e Hp Hv Hwf Hws).
  - rewrite <- (top_rast_unv c e).
    apply (print_parse isd is_ws (unv c) Hp eq_refl (ws_ok_of_x is_ws Hws) gap e Hwf).
Qed.

(* the engine's own whitespace table satisfies the hypothesis *)
Lemma ws_x_std : ws_x VerboseWs.is_ws.
Proof. intros x. reflexivity. Qed.

Check print_parse_verbose.
Check print_parse_lang_verbose.
Check print_parse_lang_verbose_strict.
Check print_parse_lang_verbose_scalar.
Check verbose_same_ast.
Check top_rast_unv.
Check seq_sim.
Check cls_sim.
Check XS_relayout.
Check top_rel.
Print Assumptions print_parse_verbose.
Print Assumptions print_parse_lang_verbose.
Print Assumptions verbose_same_ast.
