(* Printing theorem, verbose mode, part 3: indent_regexp only changes layout.  Splitting a verbose
   rendering into lines (str::lines), dropping blank lines, indenting and re-joining gives a
   verbose rendering of the same source. *)
From Grex Require Import Base.Str Base.Ranges Model.Config Model.Cluster Model.Dfa Model.Expr Model.Print.
From Grex Require Import Engine.Syntax Engine.Parse.
From Grex Require Import Proofs.VerboseWs Proofs.PrintShape Proofs.ColourStripLines Proofs.PrintParseXTok.
From GrexGen Require Import OracleTables SrcConsts.
Local Open Scope N_scope.

(* a source string against a list of rendered lines *)
Inductive XSL : mode -> mode -> str -> list str -> Prop :=
| XSL_nil : forall m, XSL m m [] []
| XSL_cons : forall m1 m2 m3 s1 s2 l ls,
    XS m1 m2 s1 l -> XSL m2 m3 s2 ls -> XSL m1 m3 (s1 ++ s2) (l :: ls).

Lemma XSL_one : forall m1 m2 s l, XS m1 m2 s l -> XSL m1 m2 s [l].
Proof.
  intros m1 m2 s l H. rewrite <- (app_nil_r s). eapply XSL_cons; [exact H|apply XSL_nil].
Qed.

Lemma XSL_app : forall m1 m2 m3 a la b lb,
  XSL m1 m2 a la -> XSL m2 m3 b lb -> XSL m1 m3 (a ++ b) (la ++ lb).
Proof.
  intros m1 m2 m3 a la b lb H Hb. induction H as [m|m1 m2 m4 s1 s2 l ls Hl _ IH]; [exact Hb|].
  rewrite <- app_assoc. cbn [app]. eapply XSL_cons; [exact Hl|apply IH; exact Hb].
Qed.

Lemma XSL_split : forall la lb m1 m3 s, XSL m1 m3 s (la ++ lb) ->
  exists m2 a b, s = a ++ b /\ XSL m1 m2 a la /\ XSL m2 m3 b lb.
Proof.
  induction la as [|l la IH]; intros lb m1 m3 s H.
  - exists m1, [], s. repeat split; [apply XSL_nil|exact H].
  - cbn [app] in H. inversion H as [|? m2 ? s1 s2 ? ? Hl Hr]; subst.
    destruct (IH lb m2 m3 s2 Hr) as (m & a & b & -> & Ha & Hb).
    exists m, (s1 ++ a), b. rewrite app_assoc. repeat split; [|exact Hb].
    eapply XSL_cons; eassumption.
Qed.

Lemma XSL_map : forall (g : str -> str),
  (forall m1 m2 s l, XS m1 m2 s l -> XS m1 m2 s (g l)) ->
  forall m1 m2 s ls, XSL m1 m2 s ls -> XSL m1 m2 s (map g ls).
Proof.
  intros g Hg m1 m2 s ls H. induction H as [m|m1 m2 m3 s1 s2 l ls Hl _ IH]; [apply XSL_nil|].
  cbn [map]. eapply XSL_cons; [apply Hg; exact Hl|exact IH].
Qed.

(* ---------- splitting at line feeds ---------- *)
Lemma ws10 : mem std_whitespace 10 = true. Proof. reflexivity. Qed.
Lemma ws32 : mem std_whitespace 32 = true. Proof. reflexivity. Qed.

Lemma XS_splitnl : forall m1 m2 s u, XS m1 m2 s u -> XSL m1 m2 s (splitnl u).
Proof.
  intros m1 m2 s u H. induction H as [m|m1 m2 x s u Hx _ IH|m1 m m2 t t' s u Ht _ IH].
  - apply XSL_one. apply XS_nil.
  - cbn [splitnl]. destruct (N.eqb x 10).
    + change s with ([] ++ s). eapply XSL_cons; [apply XS_nil|exact IH].
    + pose proof (splitnl_nonnil u) as Hne. destruct (splitnl u) as [|l ls]; [congruence|].
      inversion IH as [|? m ? s1 s2 ? ? Hl Hr]; subst.
      eapply XSL_cons; [|exact Hr]. apply XS_lay; assumption.
  - rewrite splitnl_app_nonl.
    2:{ eapply Forall_impl; [|apply (tok_clean _ _ _ _ Ht)]. intros y [Hy _]. exact Hy. }
    pose proof (splitnl_nonnil u) as Hne. destruct (splitnl u) as [|l ls]; [congruence|].
    cbn [hd tl]. inversion IH as [|? m' ? s1 s2 ? ? Hl Hr]; subst.
    rewrite app_assoc. eapply XSL_cons; [|exact Hr]. eapply XS_tok; eassumption.
Qed.

(* ---------- dropping a trailing carriage return ---------- *)
Lemma XS_scr : forall m1 m2 s l, XS m1 m2 s l -> XS m1 m2 s (scr l).
Proof.
  intros m1 m2 s l H. induction H as [m|m1 m2 x s u Hx Hu IH|m1 m m2 t t' s u Ht Hu IH].
  - apply XS_nil.
  - destruct u as [|y u].
    + cbn [scr]. destruct (N.eqb x 13); [exact Hu|apply XS_lay; assumption].
    + rewrite scr_cons2. apply XS_lay; assumption.
  - destruct u as [|y u].
    + rewrite app_nil_r. rewrite scr_no_cr.
      * rewrite <- (app_nil_r t') at 1. eapply XS_tok; eassumption.
      * eapply Forall_impl; [|apply (tok_clean _ _ _ _ Ht)]. intros z [_ Hz]. exact Hz.
    + rewrite scr_app_nonnil by discriminate. eapply XS_tok; eassumption.
Qed.

Lemma XS_strip_cr : forall m1 m2 s l, XS m1 m2 s l -> XS m1 m2 s (strip_cr l).
Proof. intros m1 m2 s l H. rewrite strip_cr_scr. apply XS_scr. exact H. Qed.

(* ---------- str::lines ---------- *)
Lemma XSL_lines_of : forall m1 m2 s ls, XSL m1 m2 s ls -> XSL m1 m2 s (lines_of ls).
Proof.
  intros m1 m2 s ls H. unfold lines_of.
  rewrite <- (rev_involutive ls) in H. destruct (rev ls) as [|last r].
  - cbn [rev] in H. exact H.
  - cbn [rev] in H. apply XSL_split in H. destruct H as (m & a & b & -> & Ha & Hb).
    apply XSL_app with (m2 := m).
    + apply XSL_map; [intros; apply XS_strip_cr; assumption|exact Ha].
    + destruct last as [|y last]; [|exact Hb].
      inversion Hb as [|? m' ? s1 s2 ? ? Hl Hr]; subst.
      inversion Hr; subst. apply XS_nil_r in Hl. destruct Hl as [-> ->]. apply XSL_nil.
Qed.

Lemma XS_lines : forall m1 m2 s u, XS m1 m2 s u -> XSL m1 m2 s (lines u).
Proof. intros m1 m2 s u H. rewrite lines_eq. apply XSL_lines_of, XS_splitnl, H. Qed.

(* ---------- indentation ---------- *)
Lemma repeat_str_spaces : forall n,
  Forall (fun x => mem std_whitespace x = true) (repeat_str n [c_space; c_space]).
Proof.
  induction n as [|n IH]; [constructor|]. cbn [repeat_str app].
  constructor; [exact ws32|]. constructor; [exact ws32|exact IH].
Qed.

Lemma XSL_indent : forall isd c ls m1 m2 s i level,
  XSL m1 m2 s ls -> XSL m1 m2 s (indent_lines isd c ls i level).
Proof.
  intros isd c ls. induction ls as [|line ls IH]; intros m1 m2 s i level H.
  - exact H.
  - inversion H as [|? m ? s1 s2 ? ? Hl Hr]; subst. cbn [indent_lines].
    destruct line as [|y line].
    + apply XS_nil_r in Hl. destruct Hl as [-> ->]. cbn [app]. apply IH. exact Hr.
    + cbv zeta. eapply XSL_cons; [|apply IH; exact Hr].
      apply XS_lays; [apply repeat_str_spaces|exact Hl].
Qed.

(* ---------- joining ---------- *)
Lemma XSL_join : forall m1 m2 s ls, XSL m1 m2 s ls -> XS m1 m2 s (join nl ls).
Proof.
  intros m1 m2 s ls H. induction H as [m|m1 m2 m3 s1 s2 l ls Hl Hr IH]; [apply XS_nil|].
  rewrite join_cons. destruct ls as [|l2 ls].
  - inversion Hr; subst. rewrite !app_nil_r. exact Hl.
  - eapply XS_app; [exact Hl|]. unfold nl. cbn [app]. apply XS_lay; [exact ws10|exact IH].
Qed.

(* ---------- the whole of indent_regexp after the flag line ---------- *)
Theorem XS_relayout : forall isd c m1 m2 s u i level,
  XS m1 m2 s u ->
  XS m1 m2 s (match indent_lines isd c (lines u) i level with
              | [] => []
              | l => nl ++ join nl l
              end).
Proof.
  intros isd c m1 m2 s u i level H.
  pose proof (XSL_indent isd c _ _ _ _ i level (XS_lines _ _ _ _ H)) as HL.
  destruct (indent_lines isd c (lines u) i level) as [|l ls].
  - inversion HL; subst. apply XS_nil.
  - unfold nl at 1. cbn [app]. apply XS_lay; [exact ws10|]. apply XSL_join. exact HL.
Qed.
