(* Verbose mode: the printed expression stays valid under (?x).
   Under (?x) the regex crate ignores pattern whitespace (char::is_whitespace, dumped as
   std_whitespace) and #-comments.  regexp_str therefore rewrites, in this order,
     '#' -> "\#",   every member of verbose_ws -> \uHHHH,   ' ' -> "\ "
   (\t \n \r were already turned into two-character escapes by escape_symbols_str and \v \f by
   the two replace_cp just before; the remaining newlines are layout).
   This file proves
     a. every code point the engine would skip is covered by one of these rewrites,
     b. the \uHHHH escape is read back by the engine's escape parser as exactly the original code
        point, whatever follows,
     c. the escape itself contains nothing that (?x) would skip,
     d. after the three rewrites no raw whitespace other than newline and no raw '#' remains.
   All table obligations are closed boolean computations, so the file survives regeneration of the
   tables and fails to compile if a property stops holding.  Independent of FoldTables.v. *)
From Grex Require Import Base.Str Base.Ranges Engine.Syntax Proofs.EscapeProps Engine.Parse
  Model.Config Model.Expr Model.Print.
From GrexGen Require Import OracleTables SrcConsts.
Local Open Scope N_scope.

(* char::is_whitespace, the predicate the engine model's skip_space is instantiated with *)
Definition is_ws (x : cp) : bool := mem std_whitespace x.

(* the whitespace handled elsewhere in the printer: space (third rewrite), \t \n \r
   (escape_symbols_str; raw \n is layout), \v \f (replace_cp before the verbose rewrites) *)
Definition handled_ws : list cp := [32; 9; 10; 13; 11; 12].

(* the three verbose rewrites of regexp_str *)
Definition verbose_rewrite (r : str) : str :=
  replace_cp 32 [92; 32]
    (flat_map (fun x => if mem_cp x verbose_ws then esc_u4 x else [x])
       (replace_cp 35 [92; 35] r)).

(* ------------------------------------------------------------------ *)
(** * Generic helpers *)

Lemma mem_cp_In c l : mem_cp c l = true <-> In c l.
Proof.
  induction l as [|x l IH]; cbn [mem_cp In].
  - split; [discriminate|intros []].
  - rewrite orb_true_iff, IH. split; intros [H|H]; auto.
    + left. apply N.eqb_eq in H. symmetry; exact H.
    + left. apply N.eqb_eq. symmetry; exact H.
Qed.

Lemma forallb_In {A} (f : A -> bool) l x : forallb f l = true -> In x l -> f x = true.
Proof. intros H. rewrite forallb_forall in H. apply H. Qed.

(* a list of code points as a range table *)
Definition singletons (l : list N) : ranges := map (fun c => (c, c)) l.

Lemma mem_singletons l c : mem (singletons l) c = mem_cp c l.
Proof.
  unfold mem, singletons. induction l as [|x l IH]; [reflexivity|].
  cbn [map existsb mem_cp]. rewrite IH. f_equal.
  unfold in_range; cbn [fst snd].
  destruct (N.leb_spec x c), (N.leb_spec c x), (N.eqb_spec c x); cbn [andb]; try reflexivity; lia.
Qed.

Lemma flat_map_flat_map {A B C} (f : A -> list B) (g : B -> list C) l :
  flat_map g (flat_map f l) = flat_map (fun x => flat_map g (f x)) l.
Proof.
  induction l as [|x l IH]; [reflexivity|]. cbn [flat_map]. rewrite flat_map_app, IH. reflexivity.
Qed.

Lemma replace_cp_id c r s : Forall (fun y => y <> c) s -> replace_cp c r s = s.
Proof.
  unfold replace_cp. induction 1 as [|y s Hy _ IH]; [reflexivity|].
  cbn [flat_map]. apply N.eqb_neq in Hy. rewrite Hy, IH. reflexivity.
Qed.

(* ------------------------------------------------------------------ *)
(** * a. every code point skipped under (?x) is rewritten by the printer *)

Lemma ws_covered_b :
  sweep (BOr (BNot (BMem std_whitespace)) (BMem (singletons (verbose_ws ++ handled_ws))))
        (BConst true) = true.
Proof. vm_compute. reflexivity. Qed.

Theorem ws_covered :
  forall c, mem std_whitespace c = true -> In c verbose_ws \/ In c [32; 9; 10; 13; 11; 12].
Proof.
  intros c Hc. pose proof (sweep_sound _ _ ws_covered_b c) as H. cbn [beval] in H.
  rewrite Hc, mem_singletons in H. cbn [negb orb] in H.
  apply mem_cp_In in H. apply in_app_or in H. exact H.
Qed.

(* conversely the printer's list contains only pattern whitespace (so that an escaped
   code point, which is not whitespace, is never rewritten a second time) *)
Lemma verbose_ws_are_ws_b : forallb is_ws verbose_ws = true.
Proof. vm_compute. reflexivity. Qed.

Theorem verbose_ws_are_ws : forall c, In c verbose_ws -> mem std_whitespace c = true.
Proof. intros c Hc. exact (forallb_In _ _ _ verbose_ws_are_ws_b Hc). Qed.

(* ------------------------------------------------------------------ *)
(** * b. \uHHHH is read back as the original code point, whatever follows *)

(* the four-digit form of the engine's escape parser *)
Lemma parse_escape_u4 x a1 a2 a3 a4 rest :
  N.eqb a1 123 = false ->
  parse_escape x (117 :: a1 :: a2 :: a3 :: a4 :: rest) =
  if Parse.is_hex a1 && Parse.is_hex a2 && Parse.is_hex a3 && Parse.is_hex a4 then
    if is_scalar_value (num_of 16 Parse.hexval [a1; a2; a3; a4])
    then Some (EscLit (num_of 16 Parse.hexval [a1; a2; a3; a4]), rest) else None
  else None.
Proof.
  intros H. unfold parse_escape.
  change (is_meta 117) with false. change (N.eqb 117 110) with false.
  change (N.eqb 117 114) with false. change (N.eqb 117 116) with false.
  change (N.eqb 117 118) with false. change (N.eqb 117 102) with false.
  change (N.eqb 117 32) with false. change (mem_cp 117 [100; 68; 115; 83; 119; 87]) with false.
  change (N.eqb 117 117) with true. cbv iota. rewrite H. reflexivity.
Qed.

(* computable certificate for one code point: esc_u4 c is exactly \u + four hex digits whose
   value is c, and c is a scalar value *)
Definition u4_roundtrip (c : cp) : bool :=
  match esc_u4 c with
  | b :: u :: a1 :: a2 :: a3 :: a4 :: [] =>
      N.eqb b 92 && N.eqb u 117 && negb (N.eqb a1 123) &&
      (Parse.is_hex a1 && Parse.is_hex a2 && Parse.is_hex a3 && Parse.is_hex a4) &&
      N.eqb (num_of 16 Parse.hexval [a1; a2; a3; a4]) c && is_scalar_value c
  | _ => false
  end.

Lemma u4_roundtrip_sound c :
  u4_roundtrip c = true ->
  forall x rest, parse_escape x (tl (esc_u4 c) ++ rest) = Some (EscLit c, rest).
Proof.
  unfold u4_roundtrip. intros H x rest.
  destruct (esc_u4 c) as [|b [|u [|a1 [|a2 [|a3 [|a4 [|a5 l]]]]]]]; try discriminate H.
  repeat match goal with
         | X : andb _ _ = true |- _ =>
             let X1 := fresh "Ha" in let X2 := fresh "Hb" in
             apply andb_true_iff in X; destruct X as [X1 X2]
         end.
  repeat match goal with
         | X : N.eqb _ _ = true |- _ => apply N.eqb_eq in X
         | X : negb _ = true |- _ => apply negb_true_iff in X
         end.
  subst b u. cbn [tl app].
  rewrite parse_escape_u4 by assumption.
  repeat match goal with X : Parse.is_hex _ = true |- _ => rewrite X; clear X end.
  cbn [andb]. unfold cp in *.
  match goal with X : num_of _ _ _ = c |- _ => rewrite X end.
  match goal with X : is_scalar_value c = true |- _ => rewrite X end.
  reflexivity.
Qed.

Lemma verbose_ws_roundtrip_b : forallb u4_roundtrip verbose_ws = true.
Proof. vm_compute. reflexivity. Qed.

(* all members are below 0x10000, so esc_u4 is the four-digit form *)
Lemma verbose_ws_bmp_b : forallb (fun c => N.ltb c 65536) verbose_ws = true.
Proof. vm_compute. reflexivity. Qed.

Theorem verbose_ws_bmp : forall c, In c verbose_ws -> c < 65536.
Proof.
  intros c Hc. pose proof (forallb_In _ _ _ verbose_ws_bmp_b Hc) as H. cbv beta in H.
  apply N.ltb_lt. exact H.
Qed.

Theorem esc_u4_exact_rest :
  forall c, In c verbose_ws ->
  forall rest, parse_escape true (tl (esc_u4 c) ++ rest) = Some (EscLit c, rest).
Proof.
  intros c Hc rest. apply u4_roundtrip_sound. exact (forallb_In _ _ _ verbose_ws_roundtrip_b Hc).
Qed.

Theorem esc_u4_exact :
  forall c, In c verbose_ws -> parse_escape true (tl (esc_u4 c)) = Some (EscLit c, []).
Proof.
  intros c Hc. pose proof (esc_u4_exact_rest c Hc []) as H. rewrite app_nil_r in H. exact H.
Qed.

(* the escape begins with the backslash that tl removes, and has six code points *)
Theorem esc_u4_shape :
  forall c, In c verbose_ws -> exists a1 a2 a3 a4, esc_u4 c = [92; 117; a1; a2; a3; a4].
Proof.
  intros c Hc. pose proof (forallb_In _ _ _ verbose_ws_roundtrip_b Hc) as H.
  unfold u4_roundtrip in H.
  destruct (esc_u4 c) as [|b [|u [|a1 [|a2 [|a3 [|a4 [|a5 l]]]]]]]; try discriminate H.
  repeat match goal with
         | X : andb _ _ = true |- _ =>
             let X1 := fresh "Ha" in let X2 := fresh "Hb" in
             apply andb_true_iff in X; destruct X as [X1 X2]
         end.
  repeat match goal with
         | X : N.eqb b 92 = true |- _ => apply N.eqb_eq in X; subst b
         | X : N.eqb u 117 = true |- _ => apply N.eqb_eq in X; subst u
         end.
  exists a1, a2, a3, a4. reflexivity.
Qed.

(* ------------------------------------------------------------------ *)
(** * c. the escape itself contains nothing that (?x) would skip — for EVERY c *)

(* backslash, u, and the lower-case hex digits *)
Definition hexish : ranges := [(48, 57); (97, 102); (92, 92); (117, 117)].

Lemma hexish_not_ws_b :
  sweep (BAnd (BMem hexish) (BOr (BMem std_whitespace) (BMem [(35, 35)]))) (BConst false) = true.
Proof. vm_compute. reflexivity. Qed.

Lemma hexish_not_ws x : mem hexish x = true -> mem std_whitespace x = false /\ x <> 35.
Proof.
  intros Hx. pose proof (sweep_sound _ _ hexish_not_ws_b x) as H. cbn [beval] in H.
  rewrite Hx in H. cbn [andb] in H. apply orb_false_iff in H. destruct H as [H1 H2].
  split; [exact H1|]. intros ->. discriminate H2.
Qed.

Lemma is_hex_hexish x : EscapeProps.is_hex x -> mem hexish x = true.
Proof.
  unfold EscapeProps.is_hex, mem, hexish, in_range. cbn [existsb fst snd]. intros H.
  destruct (N.leb_spec 48 x), (N.leb_spec x 57), (N.leb_spec 97 x), (N.leb_spec x 102);
    cbn [andb orb]; try reflexivity; lia.
Qed.

Lemma esc_u4_hexish c : Forall (fun x => mem hexish x = true) (esc_u4 c).
Proof.
  unfold esc_u4. cbv zeta. apply Forall_app. split.
  - constructor; [reflexivity|]. constructor; [reflexivity|]. constructor.
  - apply Forall_app. split.
    + apply Forall_forall. intros y Hy. apply repeat_spec in Hy. subst y. reflexivity.
    + eapply Forall_impl; [|apply hex_of_N_digits]. intros y Hy. apply is_hex_hexish. exact Hy.
Qed.

Theorem esc_u4_no_ws_gen :
  forall c, Forall (fun x => mem std_whitespace x = false /\ x <> 35) (esc_u4 c).
Proof.
  intros c. eapply Forall_impl; [|apply esc_u4_hexish]. intros y Hy. apply hexish_not_ws. exact Hy.
Qed.

Theorem esc_u4_no_ws :
  forall c, In c verbose_ws ->
  Forall (fun x => mem std_whitespace x = false /\ x <> 35) (esc_u4 c).
Proof. intros c _. apply esc_u4_no_ws_gen. Qed.

(* ------------------------------------------------------------------ *)
(** * d. after the three rewrites no raw whitespace (except newline) and no raw '#' remain *)

(* the rewrites are one flat_map: the image of a single code point *)
Definition vimg (x : cp) : str :=
  replace_cp 32 [92; 32]
    (flat_map (fun y => if mem_cp y verbose_ws then esc_u4 y else [y])
       (if N.eqb x 35 then [92; 35] else [x])).

Lemma verbose_rewrite_flat r : verbose_rewrite r = flat_map vimg r.
Proof.
  unfold verbose_rewrite, replace_cp.
  rewrite (flat_map_flat_map (fun x => if N.eqb x 35 then [92; 35] else [x])).
  rewrite flat_map_flat_map. reflexivity.
Qed.

Lemma verbose_rewrite_cons x r : verbose_rewrite (x :: r) = vimg x ++ verbose_rewrite r.
Proof. rewrite !verbose_rewrite_flat. reflexivity. Qed.

Lemma verbose_rewrite_app a b : verbose_rewrite (a ++ b) = verbose_rewrite a ++ verbose_rewrite b.
Proof. rewrite !verbose_rewrite_flat. apply flat_map_app. Qed.

(* backslash, '#' and space are not in the printer's list (they are whitespace-free resp.
   handled by their own rewrite) *)
Lemma verbose_ws_sane :
  mem_cp 92 verbose_ws = false /\ mem_cp 35 verbose_ws = false /\ mem_cp 32 verbose_ws = false.
Proof. vm_compute. repeat split. Qed.

Lemma vimg_spec x :
  vimg x = if N.eqb x 35 then [92; 35]
           else if mem_cp x verbose_ws then esc_u4 x
           else if N.eqb x 32 then [92; 32]
           else [x].
Proof.
  destruct verbose_ws_sane as (S92 & S35 & S32).
  unfold vimg. destruct (N.eqb_spec x 35) as [->|N35].
  - cbn [flat_map]. rewrite S92, S35. reflexivity.
  - cbn [flat_map]. rewrite app_nil_r. destruct (mem_cp x verbose_ws) eqn:E.
    + apply replace_cp_id. eapply Forall_impl; [|apply (esc_u4_no_ws_gen x)].
      cbv beta. intros y [Hy _] ->. discriminate Hy.
    + unfold replace_cp. cbn [flat_map]. rewrite app_nil_r. reflexivity.
Qed.

(* -- adjacency formulation -- *)

(* x may follow prev: a whitespace x is a newline, or a space right after a backslash;
   a '#' comes right after a backslash *)
Definition ok1 (prev x : cp) : bool :=
  (negb (is_ws x) || N.eqb x 10 || (N.eqb x 32 && N.eqb prev 92)) &&
  (negb (N.eqb x 35) || N.eqb prev 92).

Fixpoint adj_ok (prev : cp) (s : str) : bool :=
  match s with
  | [] => true
  | x :: s' => ok1 prev x && adj_ok x s'
  end.

(* 0 stands for "no predecessor" (anything but a backslash) *)
Definition escaped_ok (s : str) : Prop := adj_ok 0 s = true.

Lemma last_cons (x : cp) a p : last (x :: a) p = last a x.
Proof.
  revert x p. induction a as [|y a IH]; intros x p; [reflexivity|].
  change (last (x :: y :: a) p) with (last (y :: a) p). rewrite !IH. reflexivity.
Qed.

Lemma adj_ok_app p a b : adj_ok p (a ++ b) = adj_ok p a && adj_ok (last a p) b.
Proof.
  revert p. induction a as [|x a IH]; intros p; [reflexivity|].
  cbn [app adj_ok]. rewrite IH, andb_assoc, last_cons. reflexivity.
Qed.

(* the readable meaning of escaped_ok *)
Lemma last_is_backslash (a : str) : last a 0 = 92 -> exists a', a = a' ++ [92].
Proof.
  intros H. destruct a as [|y a].
  - discriminate H.
  - exists (removelast (y :: a)). rewrite <- H. apply app_removelast_last. discriminate.
Qed.

Theorem escaped_ok_spec s :
  escaped_ok s ->
  forall a x b, s = a ++ x :: b ->
    (mem std_whitespace x = true -> x = 10 \/ (x = 32 /\ exists a', a = a' ++ [92])) /\
    (x = 35 -> exists a', a = a' ++ [92]).
Proof.
  unfold escaped_ok. intros H a x b ->. rewrite adj_ok_app in H.
  apply andb_true_iff in H. destruct H as [_ H]. cbn [adj_ok] in H.
  apply andb_true_iff in H. destruct H as [H _]. unfold ok1 in H.
  apply andb_true_iff in H. destruct H as [Hw Hh]. split.
  - intros Hx. unfold is_ws in Hw. rewrite Hx in Hw. cbn [negb orb] in Hw.
    apply orb_true_iff in Hw. destruct Hw as [Hw|Hw].
    + left. apply N.eqb_eq. exact Hw.
    + right. apply andb_true_iff in Hw. destruct Hw as [H1 H2].
      apply N.eqb_eq in H1. apply N.eqb_eq in H2. split; [exact H1|].
      apply last_is_backslash. exact H2.
  - intros ->. cbn [N.eqb Pos.eqb negb orb] in Hh. apply N.eqb_eq in Hh.
    apply last_is_backslash. exact Hh.
Qed.

Lemma adj_ok_clean p s :
  Forall (fun x => mem std_whitespace x = false /\ x <> 35) s -> adj_ok p s = true.
Proof.
  intros H. revert p. induction H as [|x s [Hw Hh] _ IH]; intros p; [reflexivity|].
  cbn [adj_ok]. rewrite IH, andb_true_r. unfold ok1, is_ws. rewrite Hw.
  apply N.eqb_neq in Hh. rewrite Hh. reflexivity.
Qed.

(* the image of one code point is fine after any predecessor *)
Lemma adj_ok_vimg p x : ~ In x [9; 13; 11; 12] -> adj_ok p (vimg x) = true.
Proof.
  intros Hx. rewrite vimg_spec.
  destruct (N.eqb_spec x 35) as [->|N35]; [reflexivity|].
  destruct (mem_cp x verbose_ws) eqn:E; [apply adj_ok_clean, esc_u4_no_ws_gen|].
  destruct (N.eqb_spec x 32) as [->|N32]; [reflexivity|].
  cbn [adj_ok]. rewrite andb_true_r. unfold ok1.
  apply N.eqb_neq in N35. rewrite N35. cbn [negb orb]. rewrite andb_true_r.
  destruct (is_ws x) eqn:W; [|reflexivity]. cbn [negb orb].
  destruct (ws_covered x W) as [H|H].
  - apply mem_cp_In in H. rewrite H in E. discriminate E.
  - cbn [In] in H, Hx.
    destruct H as [H|[H|[H|[H|[H|[H|[]]]]]]]; subst x;
      try reflexivity; try (exfalso; apply N32; reflexivity); exfalso; apply Hx; auto.
Qed.

Lemma adj_ok_rewrite r :
  (forall x, In x r -> ~ In x [9; 13; 11; 12]) -> forall p, adj_ok p (verbose_rewrite r) = true.
Proof.
  induction r as [|x r IH]; intros Hr p; [reflexivity|].
  rewrite verbose_rewrite_cons, adj_ok_app.
  rewrite adj_ok_vimg by (apply Hr; left; reflexivity).
  apply IH. intros y Hy. apply Hr. right; exact Hy.
Qed.

(* For ANY r free of raw \t \r \v \f: in the result every whitespace code point is a newline or a
   space immediately preceded by a backslash, and every '#' is immediately preceded by a
   backslash (see escaped_ok_spec). *)
Theorem verbose_rewrite_no_raw_ws :
  forall r, (forall x, In x r -> ~ In x [9; 13; 11; 12]) -> escaped_ok (verbose_rewrite r).
Proof. intros r Hr. apply adj_ok_rewrite. exact Hr. Qed.

(* the hypothesis is necessary: the four code points are pattern whitespace and are not touched *)
Lemma verbose_rewrite_raw_controls :
  verbose_rewrite [9] = [9] /\ verbose_rewrite [13] = [13] /\
  verbose_rewrite [11] = [11] /\ verbose_rewrite [12] = [12] /\
  forallb is_ws [9; 13; 11; 12] = true.
Proof. vm_compute. repeat split. Qed.

(* -- token formulation (stronger: "preceded by a backslash" could be fooled by an escaped
      backslash followed by a raw space; on token level this cannot happen) -- *)

(* the input: plain code points and two-code-point escapes \y where y is neither pattern
   whitespace nor '#' (the printer emits no "\ " and no "\#" before the verbose rewrites) *)
Inductive src_tokens : str -> Prop :=
| st_nil : src_tokens []
| st_plain x s : x <> 92 -> ~ In x [9; 13; 11; 12] -> src_tokens s -> src_tokens (x :: s)
| st_esc y s : mem std_whitespace y = false -> y <> 35 -> src_tokens s -> src_tokens (92 :: y :: s).

(* what the (?x) lexer sees: newlines (layout), plain code points that are neither whitespace
   nor '#', and escapes \y where y is not whitespace, or is the space *)
Inductive x_tokens : str -> Prop :=
| xt_nil : x_tokens []
| xt_nl s : x_tokens s -> x_tokens (10 :: s)
| xt_plain x s : x <> 92 -> mem std_whitespace x = false -> x <> 35 -> x_tokens s -> x_tokens (x :: s)
| xt_esc y s : mem std_whitespace y = false \/ y = 32 -> x_tokens s -> x_tokens (92 :: y :: s).

Lemma x_tokens_digits l s :
  Forall EscapeProps.is_hex l -> x_tokens s -> x_tokens (l ++ s).
Proof.
  intros H Hs. induction H as [|y l Hy _ IH]; [exact Hs|]. cbn [app].
  destruct (hexish_not_ws y (is_hex_hexish y Hy)) as [Hw Hh].
  apply xt_plain; try assumption. unfold EscapeProps.is_hex in Hy. lia.
Qed.

Lemma x_tokens_esc_u4 c s : x_tokens s -> x_tokens (esc_u4 c ++ s).
Proof.
  intros Hs. unfold esc_u4. cbv zeta. cbn [app].
  apply xt_esc; [left; vm_compute; reflexivity|].
  rewrite <- app_assoc. apply x_tokens_digits.
  - apply Forall_forall. intros y Hy. apply repeat_spec in Hy. subst y.
    unfold EscapeProps.is_hex. lia.
  - apply x_tokens_digits; [apply hex_of_N_digits|exact Hs].
Qed.

Lemma ws_facts : is_ws 32 = true /\ is_ws 35 = false /\ is_ws 92 = false /\ is_ws 10 = true.
Proof. vm_compute. repeat split. Qed.

Theorem verbose_rewrite_tokens : forall r, src_tokens r -> x_tokens (verbose_rewrite r).
Proof.
  destruct ws_facts as (W32 & W35 & W92 & W10). unfold is_ws in *.
  destruct verbose_ws_sane as (S92 & S35 & S32).
  intros r H. induction H as [|x s N92 Hx _ IH|y s Hw Hh _ IH].
  - exact xt_nil.
  - rewrite verbose_rewrite_cons, vimg_spec.
    destruct (N.eqb_spec x 35) as [->|N35].
    { cbn [app]. apply xt_esc; [left; exact W35|exact IH]. }
    destruct (mem_cp x verbose_ws) eqn:E; [apply x_tokens_esc_u4; exact IH|].
    destruct (N.eqb_spec x 32) as [->|N32].
    { cbn [app]. apply xt_esc; [right; reflexivity|exact IH]. }
    cbn [app]. destruct (mem std_whitespace x) eqn:W.
    + destruct (ws_covered x W) as [H|H].
      * apply mem_cp_In in H. rewrite H in E. discriminate E.
      * cbn [In] in H, Hx.
        destruct H as [H|[H|[H|[H|[H|[H|[]]]]]]]; subst x;
          try (apply xt_nl; exact IH); try (exfalso; apply N32; reflexivity);
          exfalso; apply Hx; auto.
    + apply xt_plain; assumption.
  - rewrite !verbose_rewrite_cons, !vimg_spec.
    change (N.eqb 92 35) with false. rewrite S92. change (N.eqb 92 32) with false.
    apply N.eqb_neq in Hh. rewrite Hh.
    assert (E : mem_cp y verbose_ws = false).
    { destruct (mem_cp y verbose_ws) eqn:E; [|reflexivity].
      apply mem_cp_In, verbose_ws_are_ws in E. rewrite E in Hw. discriminate Hw. }
    rewrite E.
    assert (E32 : N.eqb y 32 = false).
    { apply N.eqb_neq. intros ->. rewrite W32 in Hw. discriminate Hw. }
    rewrite E32. cbn [app]. apply xt_esc; [left; exact Hw|exact IH].
Qed.

(* the token formulation implies the adjacency formulation *)
Lemma x_tokens_adj_ok s : x_tokens s -> forall p, adj_ok p s = true.
Proof.
  destruct ws_facts as (W32 & W35 & W92 & W10).
  induction 1 as [|s _ IH|x s N92 Hw Hh _ IH|y s Hy _ IH]; intros p.
  - reflexivity.
  - cbn [adj_ok]. rewrite IH. reflexivity.
  - cbn [adj_ok]. rewrite IH, andb_true_r. unfold ok1, is_ws. rewrite Hw.
    apply N.eqb_neq in Hh. rewrite Hh. reflexivity.
  - cbn [adj_ok]. rewrite IH, andb_true_r.
    assert (E1 : ok1 p 92 = true) by reflexivity. rewrite E1. cbn [andb].
    unfold ok1, is_ws. rewrite N.eqb_refl, !andb_true_r, orb_true_r.
    destruct Hy as [Hy| ->]; [rewrite Hy|]; reflexivity.
Qed.

Theorem x_tokens_escaped_ok s : x_tokens s -> escaped_ok s.
Proof. intros H. apply x_tokens_adj_ok. exact H. Qed.

(* the adjacency formulation alone is strictly weaker: for an input that is not tokenised (a
   lone backslash followed by a space) the result passes escaped_ok although its space is raw for
   the engine ("\\" is an escaped backslash).  Hence the src_tokens hypothesis above. *)
Lemma adjacency_is_weaker :
  verbose_rewrite [92; 32] = [92; 92; 32] /\ escaped_ok [92; 92; 32] /\ ~ x_tokens [92; 92; 32].
Proof.
  destruct ws_facts as (W32 & _). unfold is_ws in W32.
  split; [vm_compute; reflexivity|]. split; [vm_compute; reflexivity|].
  intros H. inversion H; subst;
    try match goal with X : 92 <> 92 |- _ => exfalso; apply X; reflexivity end.
  match goal with X : x_tokens [32] |- _ => inversion X; subst end.
  match goal with X : mem std_whitespace 32 = false |- _ => rewrite W32 in X; discriminate X end.
Qed.

(* -- what the engine's (?x) lexer does on such a string: it skips newlines only -- *)

Fixpoint drop_nl (s : str) : str :=
  match s with
  | x :: s' => if N.eqb x 10 then drop_nl s' else s
  | [] => []
  end.

Lemma drop_nl_tokens s : x_tokens s -> x_tokens (drop_nl s).
Proof.
  induction 1 as [|s _ IH|x s N92 Hw Hh Hs _|y s Hy Hs _].
  - exact xt_nil.
  - exact IH.
  - cbn [drop_nl]. destruct (N.eqb_spec x 10) as [->|_]; [discriminate Hw|].
    apply xt_plain; assumption.
  - cbn [drop_nl]. apply xt_esc; assumption.
Qed.

(* under (?x), before a token, the engine skips exactly the leading newlines; what remains
   starts with a code point that is neither whitespace nor '#' *)
Theorem bump_x_tokens s :
  x_tokens s ->
  bump is_ws true s = drop_nl s /\
  match drop_nl s with
  | [] => True
  | y :: _ => mem std_whitespace y = false /\ y <> 35
  end.
Proof.
  destruct ws_facts as (W32 & W35 & W92 & W10).
  intros H. split.
  - unfold bump.
    assert (G : forall f, (length s <= f)%nat -> skip_space is_ws f s = drop_nl s).
    { induction H as [|s _ IH|x s N92 Hw Hh Hs _|y s Hy Hs _]; intros f Hf.
      - destruct f; reflexivity.
      - destruct f as [|f]; [cbn [length] in Hf; lia|].
        cbn [skip_space drop_nl]. rewrite W10. apply IH. cbn [length] in Hf. lia.
      - destruct f as [|f]; [cbn [length] in Hf; lia|].
        cbn [skip_space drop_nl]. unfold is_ws at 1. rewrite Hw.
        apply N.eqb_neq in Hh. rewrite Hh.
        destruct (N.eqb_spec x 10) as [->|_]; [discriminate Hw|reflexivity].
      - destruct f as [|f]; [cbn [length] in Hf; lia|].
        cbn [skip_space drop_nl]. rewrite W92. reflexivity. }
    apply G. lia.
  - induction H as [|s _ IH|x s N92 Hw Hh Hs _|y s Hy Hs _].
    + exact I.
    + exact IH.
    + cbn [drop_nl]. destruct (N.eqb_spec x 10) as [->|_]; [discriminate Hw|]. split; assumption.
    + cbn [drop_nl]. split; [exact W92|discriminate].
Qed.

(* ------------------------------------------------------------------ *)
(** * regexp_str in verbose mode is indent_regexp of a verbose_rewrite *)

Theorem regexp_str_verbose isd c ast :
  f_verbose c = true ->
  exists r, regexp_str isd c ast = indent_regexp isd c (verbose_rewrite r).
Proof.
  intros H. unfold regexp_str. cbv zeta. rewrite H. eexists. reflexivity.
Qed.

Print Assumptions ws_covered.
Print Assumptions verbose_ws_are_ws.
Print Assumptions esc_u4_exact_rest.
Print Assumptions esc_u4_exact.
Print Assumptions esc_u4_no_ws_gen.
Print Assumptions esc_u4_no_ws.
Print Assumptions verbose_rewrite_no_raw_ws.
Print Assumptions escaped_ok_spec.
Print Assumptions verbose_rewrite_tokens.
Print Assumptions x_tokens_escaped_ok.
Print Assumptions adjacency_is_weaker.
Print Assumptions bump_x_tokens.
Print Assumptions regexp_str_verbose.
