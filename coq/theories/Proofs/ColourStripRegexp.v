(* "Syntax highlighting only adds colour codes" — part 3: regexp_str (global replaces, lines,
   indentation). *)
From Grex Require Import Base.Str Model.Config Model.Cluster Model.Dfa Model.Expr Model.Print.
From Grex Require Import Proofs.ColourStripBase Proofs.ColourStripExpr.
From GrexGen Require Import SrcConsts.
Local Open Scope N_scope.

(* ---------- regexp_str in pieces ---------- *)
Definition re_flag (c : cfg) : str :=
  if f_ci c && f_verbose c then col c sgr_IgnoreCaseAndVerboseModeFlag [40; 63; 105; 120; 41] ++ nl
  else if f_ci c then col c sgr_IgnoreCaseFlag txt_IgnoreCaseFlag
  else if f_verbose c then col c sgr_VerboseModeFlag [40; 63; 120; 41] ++ nl
  else [].
Definition re_caret (c : cfg) : str :=
  if f_no_start c then [] else col c sgr_Caret [94] ++ (if f_verbose c then nl else []).
Definition re_dollar (c : cfg) : str :=
  if f_no_end c then [] else (if f_verbose c then nl else []) ++ col c sgr_DollarSign [36].
Definition re_body (c : cfg) (ast : expr) : str :=
  match ast with
  | EAlt _ => c_group c (e_str c ast) false
  | _ => e_str c ast
  end.
Definition re_raw (c : cfg) (ast : expr) : str :=
  re_flag c ++ re_caret c ++ re_body c ast ++ re_dollar c.
Definition hv (x : cp) : str := if mem_cp x verbose_ws then esc_u4 x else [x].

(* a property of characters that holds of \ u and of hex digits holds of \uXXXX *)
Lemma esc_u4_forall : forall (P : cp -> Prop) x,
    P 92 -> P 117 -> (forall y, hex_range y -> P y) -> Forall P (esc_u4 x).
Proof.
  intros P x H1 H2 H3. unfold esc_u4. cbv zeta.
  apply Forall_app. split; [repeat constructor; assumption|].
  apply Forall_app. split.
  - apply Forall_forall. intros y Hy. apply repeat_spec in Hy. subst y.
    apply H3. unfold hex_range. lia.
  - eapply Forall_impl; [|apply hex_of_N_range]. exact H3.
Qed.

Lemma esc_u4_nonnil : forall x, esc_u4 x <> [].
Proof. intros x. unfold esc_u4. discriminate. Qed.
Definition re_nv (c : cfg) (ast : expr) : str :=
  replace_cp 12 [92; 102] (replace_cp 11 [92; 118] (re_raw c ast)).
Definition re_v (c : cfg) (ast : expr) : str :=
  replace_cp 32 [92; 32] (flat_map hv (replace_cp 35 [92; 35] (re_nv c ast))).

Lemma regexp_str_eq : forall isd c ast,
    regexp_str isd c ast =
    if f_verbose c then indent_regexp isd c (re_v c ast) else re_nv c ast.
Proof. reflexivity. Qed.

Section Raw.
  Variable c : cfg.
  Let ct := with_colour c true.
  Let cf := with_colour c false.

  Lemma re_flag_CP : CP (re_flag ct) (re_flag cf).
  Proof.
    unfold re_flag.
    change (f_verbose ct) with (f_verbose c). change (f_verbose cf) with (f_verbose c).
    change (f_ci ct) with (f_ci c). change (f_ci cf) with (f_ci c).
    destruct (f_ci c && f_verbose c).
    { apply CP_app; [|apply CP_nl]. apply CP_col; [code_tac|tok_tac]. }
    destruct (f_ci c).
    { apply CP_col; [code_tac|tok_tac]. }
    destruct (f_verbose c).
    { apply CP_app; [|apply CP_nl]. apply CP_col; [code_tac|tok_tac]. }
    constructor.
  Qed.

  Lemma re_caret_CP : CP (re_caret ct) (re_caret cf).
  Proof.
    unfold re_caret.
    change (f_verbose ct) with (f_verbose c). change (f_verbose cf) with (f_verbose c).
    change (f_no_start ct) with (f_no_start c). change (f_no_start cf) with (f_no_start c).
    destruct (f_no_start c); [constructor|].
    apply CP_app; [|apply CP_if_nl]. apply CP_col; [code_tac|tok_tac].
  Qed.

  Lemma re_dollar_CP : CP (re_dollar ct) (re_dollar cf).
  Proof.
    unfold re_dollar.
    change (f_verbose ct) with (f_verbose c). change (f_verbose cf) with (f_verbose c).
    change (f_no_end ct) with (f_no_end c). change (f_no_end cf) with (f_no_end c).
    destruct (f_no_end c); [constructor|].
    apply CP_app; [apply CP_if_nl|]. apply CP_col; [code_tac|tok_tac].
  Qed.

  Lemma re_body_CP : forall e, CP (re_body ct e) (re_body cf e).
  Proof.
    intros e. pose proof (e_str_CP c e) as H. unfold re_body.
    destruct e; try exact H. apply c_group_CP. exact H.
  Qed.

  Lemma re_raw_CP : forall e, CP (re_raw ct e) (re_raw cf e).
  Proof.
    intros e. unfold re_raw.
    apply CP_app; [apply re_flag_CP|]. apply CP_app; [apply re_caret_CP|].
    apply CP_app; [apply re_body_CP|apply re_dollar_CP].
  Qed.
End Raw.

(* ---------- character-wise maps that leave the wrapper characters alone ---------- *)
Definition specials : list cp := [27; 91; 92; 109; 59; 48; 49; 50; 51; 52; 53; 54; 55; 56; 57].
Definition img_char_ok (y : cp) : Prop := y <> 91 /\ y <> 27 /\ y <> 10 /\ y <> 13.
Definition h_ok (h : cp -> str) : Prop :=
  (forall x, In x specials -> h x = [x]) /\
  (forall x, h x = [x] \/ (h x <> [] /\ Forall img_char_ok (h x))).

Lemma flat_map_id : forall (h : cp -> str) (s : str),
    Forall (fun x => h x = [x]) s -> flat_map h s = s.
Proof.
  intros h s H. induction H as [|x s Hx Hs IH]; simpl.
  - reflexivity.
  - rewrite Hx, IH. reflexivity.
Qed.

Lemma is_dig_special : forall x, is_dig x = true -> In x specials.
Proof.
  intros x H. unfold is_dig in H. apply andb_true_iff in H. destruct H as [H1 H2].
  apply N.leb_le in H1. apply N.leb_le in H2.
  assert (E : x = 48 \/ x = 49 \/ x = 50 \/ x = 51 \/ x = 52 \/ x = 53 \/ x = 54 \/ x = 55
              \/ x = 56 \/ x = 57) by lia.
  unfold specials. simpl. intuition.
Qed.

Lemma code_id : forall h code, h_ok h -> code_ok code -> flat_map h code = code.
Proof.
  intros h code [H _] [d1 d2 E N1 N2 D1 D2]. subst code. apply flat_map_id.
  rewrite forallb_forall in D1, D2.
  apply Forall_app. split; [|constructor].
  - apply Forall_forall. intros x Hx. apply H. apply is_dig_special. apply D1. exact Hx.
  - apply H. unfold specials. simpl. tauto.
  - apply Forall_forall. intros x Hx. apply H. apply is_dig_special. apply D2. exact Hx.
Qed.

Lemma flat_map_wrap : forall h code tok, h_ok h -> code_ok code ->
    flat_map h (wrap code tok) = wrap code (flat_map h tok).
Proof.
  intros h code tok Hh Hc. unfold wrap. rewrite !flat_map_app.
  rewrite (code_id h code Hh Hc).
  destruct Hh as [H _].
  assert (E1 : flat_map h [ESC; 91] = [ESC; 91]).
  { apply flat_map_id. repeat constructor; apply H; unfold specials; simpl; tauto. }
  assert (E2 : flat_map h [109] = [109]).
  { apply flat_map_id. repeat constructor; apply H; unfold specials; simpl; tauto. }
  assert (E3 : flat_map h [ESC; 91; 48; 109] = [ESC; 91; 48; 109]).
  { apply flat_map_id. repeat constructor; apply H; unfold specials; simpl; tauto. }
  unfold str, cp in *. rewrite E1, E2, E3. reflexivity.
Qed.

Lemma h_ok_tok : forall h tok, h_ok h -> tok_ok tok -> tok_ok (flat_map h tok).
Proof.
  intros h tok [_ H] [N F]. split.
  - destruct tok as [|x tok]; [contradiction|]. simpl.
    destruct (H x) as [E|[E _]].
    + rewrite E. discriminate.
    + intros Z. apply app_eq_nil in Z. destruct Z as [Z _]. contradiction.
  - apply Forall_flat_map. intros x Hx. rewrite Forall_forall in F. specialize (F x Hx).
    destruct (H x) as [E|[_ E]].
    + rewrite E. constructor; [exact F|constructor].
    + eapply Forall_impl; [|exact E]. intros y [_ [Y1 [Y2 Y3]]]. repeat split; assumption.
Qed.

Lemma h_ok_no91 : forall h x, h_ok h -> x <> 91 -> Forall (fun y => y <> 91) (h x).
Proof.
  intros h x [_ H] Hx. destruct (H x) as [E|[_ E]].
  - rewrite E. constructor; [exact Hx|constructor].
  - eapply Forall_impl; [|exact E]. intros y [Y _]. exact Y.
Qed.

Lemma CP_flat_map_h : forall h cs ps, h_ok h -> CP cs ps -> CP (flat_map h cs) (flat_map h ps).
Proof.
  intros h cs ps Hh H. induction H as [|x cs ps Hx H IH|cs ps H IH|code tok cs ps Hc Ht H IH].
  - constructor.
  - simpl. apply CP_app; [|exact IH]. apply CP_refl_no91. apply h_ok_no91; assumption.
  - simpl. destruct Hh as [Hs _].
    rewrite (Hs 92) by (unfold specials; simpl; tauto).
    rewrite (Hs 91) by (unfold specials; simpl; tauto).
    simpl. apply CP_bs. exact IH.
  - rewrite !flat_map_app. rewrite flat_map_wrap by assumption.
    apply CP_tok; [exact Hc|apply h_ok_tok; assumption|exact IH].
Qed.

Lemma h_ok_replace : forall y z, ~ In y specials -> img_char_ok z ->
    h_ok (fun x => if N.eqb x y then [92; z] else [x]).
Proof.
  intros y z Hy Hz. split.
  - intros x Hx. destruct (N.eqb_spec x y) as [E|E]; [subst; contradiction|reflexivity].
  - intros x. destruct (N.eqb x y); [right|left; reflexivity].
    split; [discriminate|]. constructor; [|constructor; [exact Hz|constructor]].
    unfold img_char_ok. repeat split; discriminate.
Qed.

Definition ws_ok : bool := forallb (fun x => negb (mem_cp x verbose_ws)) specials.
Lemma ws_ok_true : ws_ok = true.
Proof. vm_compute. reflexivity. Qed.

Lemma h_ok_hv : h_ok hv.
Proof.
  split.
  - intros x Hx. unfold hv. pose proof ws_ok_true as A. unfold ws_ok in A.
    rewrite forallb_forall in A. specialize (A x Hx). apply negb_true_iff in A.
    rewrite A. reflexivity.
  - intros x. unfold hv. destruct (mem_cp x verbose_ws); [right|left; reflexivity].
    split; [apply esc_u4_nonnil|].
    apply esc_u4_forall; try (unfold img_char_ok; repeat split; discriminate).
    intros y Hy. unfold hex_range in Hy. unfold img_char_ok. lia.
Qed.

Lemma not_special : forall y, y <> 27 -> y <> 91 -> y <> 92 -> y <> 109 -> y <> 59 ->
    (y < 48 \/ 57 < y) -> ~ In y specials.
Proof.
  intros y H1 H2 H3 H4 H5 H6 H. unfold specials in H. simpl in H.
  repeat (destruct H as [H|H]; [subst; try congruence; lia|]). exact H.
Qed.

Lemma CP_replace : forall y z cs ps, ~ In y specials -> img_char_ok z ->
    CP cs ps -> CP (replace_cp y [92; z] cs) (replace_cp y [92; z] ps).
Proof.
  intros y z cs ps Hy Hz H. unfold replace_cp. apply CP_flat_map_h; [|exact H].
  apply h_ok_replace; assumption.
Qed.

Section NV.
  Variable c : cfg.

  Lemma re_nv_CP : forall e, CP (re_nv (with_colour c true) e) (re_nv (with_colour c false) e).
  Proof.
    intros e. unfold re_nv.
    apply CP_replace; [apply not_special; try discriminate; lia
                      |unfold img_char_ok; repeat split; discriminate|].
    apply CP_replace; [apply not_special; try discriminate; lia
                      |unfold img_char_ok; repeat split; discriminate|].
    apply re_raw_CP.
  Qed.

  Lemma re_v_CP : forall e, CP (re_v (with_colour c true) e) (re_v (with_colour c false) e).
  Proof.
    intros e. unfold re_v.
    apply CP_replace; [apply not_special; try discriminate; lia
                      |unfold img_char_ok; repeat split; discriminate|].
    apply CP_flat_map_h; [apply h_ok_hv|].
    apply CP_replace; [apply not_special; try discriminate; lia
                      |unfold img_char_ok; repeat split; discriminate|].
    apply re_nv_CP.
  Qed.
End NV.

(* ---------- non-verbose mode: unconditional ---------- *)
Theorem regexp_str_CP_nonverbose : forall isd c e, f_verbose c = false ->
    CP (regexp_str isd (with_colour c true) e) (regexp_str isd (with_colour c false) e).
Proof.
  intros isd c e Hv. rewrite !regexp_str_eq.
  change (f_verbose (with_colour c true)) with (f_verbose c).
  change (f_verbose (with_colour c false)) with (f_verbose c).
  rewrite Hv. apply re_nv_CP.
Qed.

Theorem strip_regexp_str_nonverbose : forall isd c e, digit_ok isd -> f_verbose c = false ->
    strip_sgr isd (regexp_str isd (with_colour c true) e) = regexp_str isd (with_colour c false) e.
Proof.
  intros isd c e Hd Hv. apply strip_CP; [exact Hd|]. apply regexp_str_CP_nonverbose. exact Hv.
Qed.
