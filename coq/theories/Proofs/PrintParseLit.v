(* Printing theorem, part 3: literals.  The parser reads the printed form of a tokenised string,
   of a (possibly quantified, possibly nested) grapheme and of a cluster back as the expected
   atoms. *)
From Grex Require Import Base.Str Model.Config Model.Cluster Model.Dfa Model.Expr Model.Print.
From Grex Require Import Engine.Syntax Engine.Parse.
From Grex Require Import Proofs.Lang Proofs.ExprLang Proofs.EscapeProps.
From Grex Require Import Proofs.PrintParseNum Proofs.PrintParseStep Proofs.PrintParseDefs
  Proofs.PrintParseEsc.
From GrexGen Require Import SrcConsts.

(* ---------- what may follow a quantifier / an opening parenthesis ---------- *)
Definition nq (s : str) : Prop := lazy_follows s = false.
Definition safe_hd (s : str) : Prop := exists x s', s = x :: s' /\ x <> 63%N /\ x <> 40%N.
Definition hd_ok (s : str) : Prop :=
  match s with
  | [] => True
  | x :: s' =>
      x <> 63%N /\
      (x = 40%N -> match s' with
                   | [] => True
                   | y :: s'' => y = 63%N -> exists s3, s'' = 58%N :: s3
                   end)
  end.

Lemma nq_nil : nq [].
Proof. reflexivity. Qed.
Lemma nq_cons : forall x s, x <> 63%N -> nq (x :: s).
Proof. intros x s H. unfold nq, lazy_follows. apply N.eqb_neq. exact H. Qed.
Lemma hd_ok_nq : forall s, hd_ok s -> nq s.
Proof. intros [|x s] H; [reflexivity|]. apply nq_cons. apply H. Qed.
Lemma safe_hd_app : forall s r, safe_hd s -> safe_hd (s ++ r).
Proof. intros s r (x & s' & -> & H1 & H2). exists x, (s' ++ r). auto. Qed.
Lemma safe_hd_ok : forall s, safe_hd s -> hd_ok s.
Proof. intros s (x & s' & -> & H1 & H2). split; [exact H1|]. intros X. contradiction. Qed.
Lemma hd_ok_nc : forall s, hd_ok (40 :: 63 :: 58 :: s)%N.
Proof. intros s. split; [discriminate|]. intros _ _. eauto. Qed.
Lemma hd_ok_c : forall s, nq s -> hd_ok (40%N :: s).
Proof.
  intros s H. split; [discriminate|]. intros _. destruct s as [|y s]; [exact I|].
  intros ->. discriminate H.
Qed.
Lemma hd_ok_cons : forall x s, x <> 63%N -> x <> 40%N -> hd_ok (x :: s).
Proof. intros x s H1 H2. split; [exact H1|]. intros X. contradiction. Qed.

Lemma str_atoms_lit : forall y t, y <> 92%N -> str_atoms (y :: t) = RLit y :: str_atoms t.
Proof.
  intros y t H. cbn [str_atoms]. destruct t as [|l t]; [reflexivity|].
  unfold c_backslash. apply N.eqb_neq in H. rewrite H. reflexivity.
Qed.

Lemma str_atoms_cls : forall l t, is_class_letter l = true ->
  str_atoms (92%N :: l :: t) = RPerl l :: str_atoms t.
Proof.
  intros l t H. cbn [str_atoms]. unfold c_backslash. change (N.eqb 92 92) with true.
  rewrite H. reflexivity.
Qed.

Section Lit.
  Variable is_ws : cp -> bool.
  Variable c : cfg.
  Hypothesis Hp : printable c.
  Hypothesis Hv : f_verbose c = false.
  Hypothesis Hws : ws_ok is_ws.

  Notation pseq := (pseq is_ws).
  Notation rend := (rend c).
  Notation rend0 := (rend0 c).

  (* ---------- one code point ---------- *)
  Lemma vf_single : forall y, vf [y] = vf1 y.
  Proof. intros y. rewrite vf_flat. cbn [flat_map]. apply app_nil_r. Qed.

  Lemma vf_esc2 : forall z, z <> 11%N -> z <> 12%N -> vf [92%N; z] = [92%N; z].
  Proof.
    intros z H1 H2. apply vf_id. constructor; [split; discriminate|].
    constructor; [split; assumption|constructor].
  Qed.

  Lemma vf_u : forall y,
    vf ([92; 117; 123]%N ++ hex_of_N y ++ [125%N]) = [92; 117; 123]%N ++ hex_of_N y ++ [125%N].
  Proof. intros y. rewrite !vf_app, vf_hex. reflexivity. Qed.

  Lemma specials_63_40 : mem_cp 63%N chars_to_escape = true /\ mem_cp 40%N chars_to_escape = true.
  Proof. split; vm_compute; reflexivity. Qed.

  Lemma rend_safe_hd : forall y, safe_hd (rend y).
  Proof.
    intros y. unfold PrintParseEsc.rend.
    destruct (rend0_shape c Hp y) as [Hm Hc|z _ H11 H12 _|Hge].
    - rewrite vf_single. unfold vf1.
      destruct (N.eqb_spec y 11); [eexists _, _; split; [reflexivity|split; discriminate]|].
      destruct (N.eqb_spec y 12); [eexists _, _; split; [reflexivity|split; discriminate]|].
      exists y, []. split; [reflexivity|].
      destruct specials_63_40 as [H63 H40].
      split; intros ->; congruence.
    - rewrite vf_esc2 by assumption. eexists _, _; split; [reflexivity|split; discriminate].
    - rewrite vf_u. eexists _, _; split; [reflexivity|split; discriminate].
  Qed.

  Lemma pseq_char : forall top y rest racc ralts res,
    y <> 92%N -> scalar y ->
    pseq top rest (RLit y :: racc) ralts res ->
    pseq top (rend y ++ rest) racc ralts res.
  Proof.
    intros top y rest racc ralts res H92 Hs H. unfold PrintParseEsc.rend.
    destruct (rend0_shape c Hp y) as [Hm Hc|z _ H11 H12 Hpe|Hge].
    - rewrite vf_single. unfold vf1.
      destruct (N.eqb_spec y 11) as [->|Hn11].
      { cbn [app]. eapply pseq_esc_lit; [reflexivity|cbn [length]; lia|exact H]. }
      destruct (N.eqb_spec y 12) as [->|Hn12].
      { cbn [app]. eapply pseq_esc_lit; [reflexivity|cbn [length]; lia|exact H]. }
      cbn [app]. apply pseq_raw; [|exact H]. apply plain_not_special; assumption.
    - rewrite vf_esc2 by assumption. cbn [app].
      eapply pseq_esc_lit; [apply Hpe|cbn [length]; lia|exact H].
    - rewrite vf_u. cbn [app]. rewrite <- app_assoc. cbn [app].
      eapply pseq_esc_lit; [apply parse_escape_u; exact Hs| |exact H].
      cbn [length]. rewrite app_length. cbn [length]. lia.
  Qed.

  (* ---------- tokenised strings ---------- *)
  Lemma toks_esc1_ne : forall t, toks t -> str_eqb (flat_map esc1 t) [c_backslash] = false.
  Proof.
    intros t Ht. destruct Ht as [|y t H92 _ _|l t Hl _]; [reflexivity| |].
    - cbn [flat_map]. unfold esc1.
      destruct (mem_cp y chars_to_escape); [reflexivity|].
      destruct (N.eqb y 10); [reflexivity|]. destruct (N.eqb y 13); [reflexivity|].
      destruct (N.eqb y 9); [reflexivity|].
      cbn [app str_eqb]. unfold c_backslash. apply N.eqb_neq in H92. rewrite H92. reflexivity.
    - cbn [flat_map]. change (esc1 92%N) with [92%N]. cbn [app].
      pose proof (esc1_nonempty l) as Hne. destruct (esc1 l) as [|x s]; [congruence|].
      cbn [app str_eqb]. apply andb_false_r.
  Qed.

  Lemma esc_str_toks : forall t, toks t -> esc_str c t = flat_map rend0 t.
  Proof.
    intros t Ht. unfold esc_str. rewrite escape_symbols_flat. cbv zeta.
    rewrite toks_esc1_ne by exact Ht.
    change (if f_esc c then flat_map (escape_cp (f_sur c)) (flat_map esc1 t) else flat_map esc1 t)
      with (nonascii_esc c (flat_map esc1 t)).
    apply nonascii_esc_flat_map.
  Qed.

  Lemma esc_str_bs : esc_str c [92%N] = [92; 92]%N.
  Proof. unfold esc_str. destruct (f_esc c); vm_compute; reflexivity. Qed.

  Lemma vf_esc_str_toks : forall t, toks t -> vf (esc_str c t) = flat_map rend t.
  Proof. intros t Ht. rewrite esc_str_toks by exact Ht. apply vf_flat_map. Qed.

  Lemma rend_bs : rend 92%N = [92%N].
  Proof. unfold PrintParseEsc.rend. rewrite rend0_bs by exact Hp. reflexivity. Qed.

  Lemma rend_letter : forall l, is_class_letter l = true -> rend l = [l].
  Proof.
    intros l H. unfold PrintParseEsc.rend. rewrite rend0_letter by assumption.
    apply class_letter_cases in H.
    destruct H as [->|[->|[->|[->|[->| ->]]]]]; reflexivity.
  Qed.

  Lemma parse_escape_letter : forall l r, is_class_letter l = true ->
    Parse.parse_escape false (l :: r) = Some (EscPerl l, r).
  Proof.
    intros l r H. apply class_letter_cases in H.
    destruct H as [->|[->|[->|[->|[->| ->]]]]]; reflexivity.
  Qed.

  Lemma pseq_toks : forall t, toks t -> forall top rest racc ralts res,
    pseq top rest (rev (str_atoms t) ++ racc) ralts res ->
    pseq top (flat_map rend t ++ rest) racc ralts res.
  Proof.
    intros t Ht. induction Ht as [|y t H92 Hs Ht IH|l t Hl Ht IH];
      intros top rest racc ralts res H.
    - exact H.
    - cbn [flat_map]. rewrite <- app_assoc. apply pseq_char; [assumption..|].
      apply IH. rewrite str_atoms_lit in H by exact H92.
      cbn [rev] in H. rewrite <- app_assoc in H. exact H.
    - cbn [flat_map]. rewrite rend_bs, (rend_letter l Hl). cbn [app].
      eapply pseq_esc_perl; [apply parse_escape_letter; exact Hl|slia|].
      apply IH. rewrite str_atoms_cls in H by exact Hl.
      cbn [rev] in H. rewrite <- app_assoc in H. exact H.
  Qed.

  Lemma pseq_tstr : forall t, tokenised t -> forall top rest racc ralts res,
    pseq top rest (rev (str_atoms t) ++ racc) ralts res ->
    pseq top (vf (esc_str c t) ++ rest) racc ralts res.
  Proof.
    intros t [->|Ht] top rest racc ralts res H.
    - rewrite esc_str_bs. change (vf [92; 92]%N) with [92; 92]%N. cbn [app].
      eapply pseq_esc_lit; [reflexivity|cbn [length]; lia|exact H].
    - rewrite vf_esc_str_toks by exact Ht. apply pseq_toks; assumption.
  Qed.

  Definition tok_ok (t : str) : Prop := t <> [] /\ tokenised t.

  Lemma pseq_chars : forall cs, Forall tok_ok cs -> forall top rest racc ralts res,
    pseq top rest (rev (flat_map str_atoms cs) ++ racc) ralts res ->
    pseq top (vf (concat (map (esc_str c) cs)) ++ rest) racc ralts res.
  Proof.
    intros cs HF. induction HF as [|t cs [_ Ht] _ IH]; intros top rest racc ralts res H.
    - exact H.
    - cbn [map concat]. rewrite vf_app, <- app_assoc.
      apply pseq_tstr; [exact Ht|]. apply IH.
      cbn [flat_map] in H. rewrite rev_app_distr, <- app_assoc in H. exact H.
  Qed.

  (* first character of an escaped string *)
  Lemma tstr_safe_hd : forall t, tok_ok t -> safe_hd (vf (esc_str c t)).
  Proof.
    intros t [Hne [->|Ht]].
    - rewrite esc_str_bs. eexists _, _. split; [reflexivity|split; discriminate].
    - rewrite vf_esc_str_toks by exact Ht.
      destruct Ht as [|y t _ _ _|l t _ _]; [congruence| |].
      + cbn [flat_map]. apply safe_hd_app. apply rend_safe_hd.
      + cbn [flat_map]. apply safe_hd_app. apply rend_safe_hd.
  Qed.

  Lemma chars_safe_hd : forall cs, cs <> [] -> Forall tok_ok cs ->
    safe_hd (vf (concat (map (esc_str c) cs))).
  Proof.
    intros cs Hne HF. destruct HF as [|t cs Ht _]; [congruence|].
    cbn [map concat]. rewrite vf_app. apply safe_hd_app. apply tstr_safe_hd. exact Ht.
  Qed.

  (* ---------- the printer's "single" test is sound ---------- *)
  Lemma rend0_nonempty : forall y, rend0 y <> [].
  Proof.
    intros y. destruct (rend0_shape c Hp y); discriminate.
  Qed.

  Lemma toks_rend0_nil : forall t, toks t -> flat_map rend0 t = [] -> t = [].
  Proof.
    intros t Ht H. destruct Ht as [|y t _ _ _|l t _ _]; [reflexivity| |].
    - cbn [flat_map] in H. apply app_eq_nil in H. destruct H as [H _].
      exfalso. eapply rend0_nonempty; eauto.
    - cbn [flat_map] in H. rewrite rend0_bs in H by exact Hp. discriminate.
  Qed.

  Lemma esc_str_nonempty : forall t, tok_ok t -> esc_str c t <> [].
  Proof.
    intros t [Hne [->|Ht]].
    - rewrite esc_str_bs. discriminate.
    - rewrite esc_str_toks by exact Ht. intros X. apply Hne. apply toks_rend0_nil; assumption.
  Qed.

  Lemma count_cp_app : forall z a b, count_cp z (a ++ b) = count_cp z a + count_cp z b.
  Proof.
    intros z a b. induction a as [|x a IH]; [reflexivity|].
    cbn [app count_cp]. rewrite IH. lia.
  Qed.

  Lemma last_cp_app_ne : forall a b, b <> [] -> last_cp (a ++ b) = last_cp b.
  Proof.
    intros a b Hb. induction a as [|x a IH]; [reflexivity|].
    cbn [app]. destruct (a ++ b) as [|y s] eqn:E.
    - apply app_eq_nil in E. destruct E. contradiction.
    - cbn [last_cp]. exact IH.
  Qed.

  Lemma last_cp_count : forall s z, last_cp s = Some z -> 1 <= count_cp z s.
  Proof.
    induction s as [|x s IH]; intros z H; [discriminate|].
    destruct s as [|y s].
    - cbn [last_cp] in H. inversion H; subst. cbn [count_cp]. rewrite N.eqb_refl. lia.
    - cbn [count_cp]. assert (H' : last_cp (y :: s) = Some z) by exact H.
      apply IH in H'. cbn [count_cp] in H'. lia.
  Qed.

  Lemma not_single_u : forall y S', S' <> [] ->
    is_single_escape_sequence (([92; 117; 123]%N ++ hex_of_N y ++ [125%N]) ++ S') = false.
  Proof.
    intros y S' HS. cbn [app is_single_escape_sequence].
    unfold c_backslash. change (N.eqb 92 92) with true. change (N.eqb 117 117) with true.
    cbn [andb].
    match goal with |- context [last_cp ?X] => set (s := X) end.
    destruct (last_cp s) as [l|] eqn:El; [|reflexivity].
    destruct (N.eqb_spec l 125) as [->|]; [|reflexivity].
    cbn [andb].
    assert (Hc : 2 <= count_cp 125%N s).
    { assert (Es : s = ([92; 117; 123]%N ++ hex_of_N y ++ [125%N]) ++ S') by reflexivity.
      rewrite Es in El |- *. rewrite last_cp_app_ne in El by exact HS.
      apply last_cp_count in El.
      rewrite count_cp_app. rewrite (count_cp_app _ [92; 117; 123]%N).
      rewrite (count_cp_app _ (hex_of_N y)). cbn [count_cp]. change (N.eqb 125 125) with true. cbn iota.
      lia. }
    destruct (Nat.eqb_spec (count_cp 125%N s) 1) as [E|E]; [lia|].
    apply andb_false_r.
  Qed.

  Lemma single_toks : forall t, toks t -> t <> [] ->
    is_single_escape_sequence (flat_map rend0 t) = true ->
    (exists y, t = [y]) \/ (exists l, t = [92%N; l] /\ is_class_letter l = true).
  Proof.
    intros t Ht Hne H. destruct Ht as [|y t H92 _ Ht|l t Hl Ht]; [congruence| |].
    - assert (Hcase : t = [] \/ flat_map rend0 t <> []).
      { destruct t; [left; reflexivity|right; intros X; apply toks_rend0_nil in X; [discriminate|exact Ht]]. }
      destruct Hcase as [->|HS]; [left; eauto|]. exfalso.
      cbn [flat_map] in H. set (S' := flat_map rend0 t) in *.
      destruct (rend0_shape c Hp y) as [Hm Hc|z H117 _ _ _|Hge].
      + cbn [app is_single_escape_sequence] in H. unfold c_backslash in H.
        apply N.eqb_neq in H92. rewrite H92 in H. discriminate.
      + cbn [app is_single_escape_sequence] in H.
        apply N.eqb_neq in H117. rewrite H117 in H.
        destruct S' as [|x S']; [congruence|]. rewrite andb_false_r in H. discriminate.
      + rewrite not_single_u in H by exact HS. discriminate.
    - right. exists l. split; [|exact Hl].
      assert (Hcase : t = [] \/ flat_map rend0 t <> []).
      { destruct t; [left; reflexivity|right; intros X; apply toks_rend0_nil in X; [discriminate|exact Ht]]. }
      destruct Hcase as [->|HS]; [reflexivity|]. exfalso.
      cbn [flat_map] in H. set (S' := flat_map rend0 t) in *.
      rewrite rend0_bs, (rend0_letter c l Hl) in H by exact Hp.
      cbn [app is_single_escape_sequence] in H.
      assert (H117 : N.eqb l 117 = false).
      { apply class_letter_cases in Hl.
        destruct Hl as [->|[->|[->|[->|[->| ->]]]]]; reflexivity. }
      rewrite H117 in H. destruct S' as [|x S']; [congruence|].
      rewrite andb_false_r in H. discriminate.
  Qed.

  Lemma str_atoms_one : forall y, str_atoms [y] = [RLit y].
  Proof. reflexivity. Qed.

  Lemma single_atoms : forall cs, cs <> [] -> Forall tok_ok cs ->
    chars_single (map (esc_str c) cs) = true -> exists x, flat_map str_atoms cs = [x].
  Proof.
    intros cs Hne HF H. unfold chars_single in H. apply orb_true_iff in H.
    assert (HF' : Forall (fun s : str => s <> []) (map (esc_str c) cs)).
    { apply Forall_map. eapply Forall_impl; [|exact HF]. intros t Ht. apply esc_str_nonempty. exact Ht. }
    destruct H as [H|H].
    - apply Nat.eqb_eq in H. apply chars_single_plain in H; [|destruct cs; [congruence|discriminate]|exact HF'].
      destruct H as [z Hz]. destruct cs as [|t [|t2 cs]]; try discriminate.
      cbn [map] in Hz. inversion Hz as [Ez]. inversion HF as [|? ? [Htne Ht] _]; subst.
      destruct Ht as [->|Ht]; [rewrite esc_str_bs in Ez; discriminate|].
      rewrite esc_str_toks in Ez by exact Ht.
      destruct Ht as [|y t H92 _ Ht|l t Hl Ht]; [congruence| |].
      + cbn [flat_map] in Ez.
        pose proof (rend0_nonempty y) as Hy.
        destruct (rend0 y) as [|a [|b r]] eqn:Er; [congruence| |discriminate].
        cbn [app] in Ez. inversion Ez as [[Ea Enil]].
        apply toks_rend0_nil in Enil; [|exact Ht]. subst t.
        cbn [flat_map]. rewrite app_nil_r. eexists. reflexivity.
      + cbn [flat_map] in Ez. rewrite rend0_bs in Ez by exact Hp.
        pose proof (rend0_nonempty l) as Hl'.
        destruct (rend0 l); [congruence|discriminate].
    - destruct cs as [|t [|t2 cs]]; [congruence| |discriminate H].
      cbn [map] in H. inversion HF as [|? ? [Htne Ht] _]; subst.
      cbn [flat_map]. rewrite app_nil_r.
      destruct Ht as [->|Ht]; [eexists; reflexivity|].
      rewrite esc_str_toks in H by exact Ht.
      destruct (single_toks t Ht Htne H) as [[y ->]|[l [-> Hl]]].
      + eexists; reflexivity.
      + rewrite str_atoms_cls by exact Hl. eauto.
  Qed.

  Lemma chars_single_false : forall cs : list str,
    2 <= length cs -> Forall (fun s : str => s <> []) cs -> chars_single cs = false.
  Proof.
    intros cs Hlen HF. destruct cs as [|s1 [|s2 cs]]; cbn [length] in Hlen; try lia.
    inversion HF as [|? ? H1 HF']; subst. inversion HF' as [|? ? H2 _]; subst.
    unfold chars_single. cbn [fold_right].
    destruct s1 as [|x1 s1]; [congruence|]. destruct s2 as [|x2 s2]; [congruence|].
    cbn [length]. rewrite orb_false_r. apply Nat.eqb_neq. lia.
  Qed.

  (* ---------- g_str without colour and verbosity ---------- *)
  Definition grp_open : str :=
    if f_cap c then txt_CapturedLeftParenthesis else txt_UncapturedLeftParenthesis.
  Definition rep_str (a b : N) : str :=
    if N.ltb a b then [123%N] ++ dec_of_N a ++ [44%N] ++ dec_of_N b ++ [125%N]
    else [123%N] ++ dec_of_N a ++ [125%N].
  Definition grp (v : str) : str := grp_open ++ v ++ [41%N].

  Lemma col_off : forall code v, col c code v = v.
  Proof. intros code v. unfold col. destruct Hp as [Hc _]. rewrite Hc. reflexivity. Qed.

  Lemma c_group_eq : forall v fb, c_group c v fb = grp v.
  Proof.
    intros v fb. unfold c_group, grp, grp_open. rewrite !col_off, Hv.
    destruct (f_cap c); reflexivity.
  Qed.

  Lemma c_rep_eq : forall a vb, (1 <= a)%N -> vb = false ->
    c_rep c a vb = [123%N] ++ dec_of_N a ++ [125%N].
  Proof.
    intros a vb Ha ->. unfold c_rep. rewrite col_off.
    destruct (N.eqb_spec a 0) as [E|_]; [lia|]. apply app_nil_r.
  Qed.

  Lemma c_range_eq : forall a b vb, (1 <= a)%N -> vb = false ->
    c_range c a b vb = [123%N] ++ dec_of_N a ++ [44%N] ++ dec_of_N b ++ [125%N].
  Proof.
    intros a b vb Ha ->. unfold c_range. rewrite col_off.
    destruct (N.eqb_spec a 0) as [E|_]; [lia|]. cbn [andb]. apply app_nil_r.
  Qed.

  Lemma g_str_unfold : forall cs rs a b, (1 <= a)%N -> (a <= b)%N ->
    g_str c (G cs rs a b)
    = let v := match rs with [] => concat cs | _ => flat_map (g_str c) rs end in
      if N.eqb a 1 && N.eqb b 1 then v
      else (if chars_single cs then v else grp v) ++ rep_str a b.
  Proof.
    intros cs rs a b Ha Hab. cbn [g_str].
    assert (E : forall l, (fix go (l : list grapheme) : str :=
                 match l with [] => [] | r :: l' => g_str c r ++ go l' end) l
              = flat_map (g_str c) l).
    { induction l as [|r l IH]; [reflexivity|]. cbn [flat_map]. rewrite IH. reflexivity. }
    change (Nat.eqb (g_char_count false (G cs rs a b)) 1
            || match cs with [s] => is_single_escape_sequence s | _ => false end)
      with (chars_single cs).
    set (v := match rs with [] => concat cs | _ :: _ => _ end).
    assert (Ev : v = match rs with [] => concat cs | _ => flat_map (g_str c) rs end).
    { unfold v. destruct rs as [|r rs]; [reflexivity|]. reflexivity. }
    clearbody v. subst v. cbv zeta.
    set (v := match rs with [] => concat cs | _ => flat_map (g_str c) rs end).
    destruct Hp as [Hcol _]. rewrite Hcol. cbn [andb].
    rewrite !c_group_eq.
    rewrite !c_rep_eq by (assumption || reflexivity).
    rewrite !c_range_eq by (assumption || reflexivity).
    unfold rep_str.
    destruct (N.ltb_spec a b) as [Hlt|Hge]; cbn [negb andb].
    - replace (N.eqb b 1) with false by (symmetry; apply N.eqb_neq; lia).
      rewrite andb_false_r. destruct (chars_single cs); reflexivity.
    - assert (a = b) by lia. subst b.
      destruct (N.ltb_spec 1 a) as [H1|H1]; cbn [andb].
      + replace (N.eqb a 1) with false by (symmetry; apply N.eqb_neq; lia).
        cbn [andb]. destruct (chars_single cs); reflexivity.
      + assert (a = 1%N) by lia. subst a. reflexivity.
  Qed.

  Definition gp (g : grapheme) : str := g_str c (escape_g c g).

  Lemma escape_g_unfold : forall cs rs a b,
    escape_g c (G cs rs a b) = G (map (esc_str c) cs) (map (escape_g c) rs) a b.
  Proof.
    intros cs rs a b. cbn [escape_g]. f_equal.
    unfold esc_str. destruct (f_esc c); [rewrite map_map|]; reflexivity.
  Qed.

  Lemma gp_unfold : forall cs rs a b, (1 <= a)%N -> (a <= b)%N ->
    gp (G cs rs a b)
    = let v := match rs with [] => concat (map (esc_str c) cs) | _ => flat_map gp rs end in
      if N.eqb a 1 && N.eqb b 1 then v
      else (if chars_single (map (esc_str c) cs) then v else grp v) ++ rep_str a b.
  Proof.
    intros cs rs a b Ha Hab. unfold gp at 1. rewrite escape_g_unfold, g_str_unfold by assumption.
    destruct rs as [|r rs]; [reflexivity|].
    cbv zeta. rewrite (flat_map_map' (escape_g c) (g_str c) (r :: rs)).
    reflexivity.
  Qed.

  Lemma vf_rep_str : forall a b, vf (rep_str a b) = rep_str a b.
  Proof.
    intros a b. unfold rep_str. destruct (N.ltb a b); rewrite !vf_app, !vf_dec; reflexivity.
  Qed.

  Lemma vf_grp : forall v, vf (grp v) = grp (vf v).
  Proof.
    intros v. unfold grp, grp_open. rewrite !vf_app. destruct (f_cap c); reflexivity.
  Qed.

  Lemma pseq_rep_str : forall top a b rest x racc ralts res,
    (1 <= a)%N -> (a <= b)%N -> nq rest ->
    pseq top rest (RRep x a (Some b) :: racc) ralts res ->
    pseq top (rep_str a b ++ rest) (x :: racc) ralts res.
  Proof.
    intros top a b rest x racc ralts res Ha Hab Hq H. unfold rep_str.
    destruct (N.ltb_spec a b) as [Hlt|Hge].
    - cbn [app]. rewrite <- !app_assoc. cbn [app]. rewrite <- !app_assoc. cbn [app].
      apply pseq_count_mn; assumption.
    - assert (a = b) by lia. subst b.
      cbn [app]. rewrite <- !app_assoc. cbn [app].
      apply pseq_count_n; assumption.
  Qed.

  Lemma pseq_group_c' : forall top (s : str) inner r racc ralts res,
    s <> [] -> nq s ->
    pseq false s [] [] (inner, r) -> length r <= length s ->
    pseq top r (RGroup true inner :: racc) ralts res ->
    pseq top (40%N :: s) racc ralts res.
  Proof.
    intros top s inner r racc ralts res Hne Hq Hb Hl H.
    destruct s as [|q t]; [congruence|].
    eapply pseq_group_c; [|exact Hb|exact Hl|exact H].
    intros ->. discriminate Hq.
  Qed.

  (* a group around anything *)
  Lemma pseq_grp_gen : forall top body inner rest racc ralts res,
    nq (body ++ 41%N :: rest) ->
    pseq false (body ++ 41%N :: rest) [] [] (inner, rest) ->
    pseq top rest (RGroup (f_cap c) inner :: racc) ralts res ->
    pseq top (grp body ++ rest) racc ralts res.
  Proof.
    intros top body inner rest racc ralts res Hq Hin H.
    unfold grp, grp_open. destruct (f_cap c) eqn:Ecap.
    - unfold txt_CapturedLeftParenthesis. cbn [app]. rewrite <- app_assoc. cbn [app].
      eapply pseq_group_c'; [|exact Hq|exact Hin| |exact H].
      + destruct body; discriminate.
      + rewrite app_length. slia.
    - unfold txt_UncapturedLeftParenthesis. cbn [app]. rewrite <- app_assoc. cbn [app].
      eapply pseq_group_nc; [exact Hin| |exact H].
      rewrite app_length. slia.
  Qed.

  (* a group around a sequence of atoms *)
  Lemma pseq_grp : forall top body inner rest racc ralts res,
    nq (body ++ 41%N :: rest) ->
    (forall r, pseq false (41%N :: r) (rev inner) [] (rcat inner, r) ->
               pseq false (body ++ 41%N :: r) [] [] (rcat inner, r)) ->
    pseq top rest (RGroup (f_cap c) (rcat inner) :: racc) ralts res ->
    pseq top (grp body ++ rest) racc ralts res.
  Proof.
    intros top body inner rest racc ralts res Hq Hb H.
    eapply pseq_grp_gen; [exact Hq| |exact H].
    apply Hb. pose proof (pseq_close is_ws rest (rev inner) []) as Hc.
    replace (alt_of (cat_of (rev inner) :: [])) with (rcat inner) in Hc by reflexivity.
    exact Hc.
  Qed.

  Lemma hd_ok_grp : forall body rest, nq (body ++ 41%N :: rest) -> hd_ok (grp body ++ rest).
  Proof.
    intros body rest Hq. unfold grp, grp_open. destruct (f_cap c).
    - unfold txt_CapturedLeftParenthesis. cbn [app]. rewrite <- app_assoc. cbn [app].
      apply hd_ok_c. exact Hq.
    - apply hd_ok_nc.
  Qed.

  (* ---------- graphemes ---------- *)
  Definition g_good (g : grapheme) : Prop :=
    (forall rest, hd_ok (vf (gp g) ++ rest)) /\
    (forall top rest racc ralts res, nq rest ->
       pseq top rest (rev (g_atoms c g) ++ racc) ralts res ->
       pseq top (vf (gp g) ++ rest) racc ralts res).

  Lemma glist_good : forall gs, Forall g_good gs ->
    (forall rest, (gs = [] -> hd_ok rest) -> hd_ok (vf (flat_map gp gs) ++ rest)) /\
    (forall top rest racc ralts res, nq rest ->
       pseq top rest (rev (flat_map (g_atoms c) gs) ++ racc) ralts res ->
       pseq top (vf (flat_map gp gs) ++ rest) racc ralts res).
  Proof.
    intros gs HF. induction HF as [|g gs [Hh Hpq] _ [IHh IHp]].
    - split; [intros rest H; apply H; reflexivity|intros top rest racc ralts res _ H; exact H].
    - split.
      + intros rest _. cbn [flat_map]. rewrite vf_app, <- app_assoc. apply Hh.
      + intros top rest racc ralts res Hq H.
        cbn [flat_map]. rewrite vf_app, <- app_assoc. apply Hpq.
        * destruct gs as [|g2 gs]; [exact Hq|].
          apply hd_ok_nq. apply IHh. intros X. discriminate X.
        * apply IHp; [exact Hq|].
          cbn [flat_map] in H. rewrite rev_app_distr, <- app_assoc in H. exact H.
  Qed.

  Lemma tok_ok_esc_nonempty : forall cs, Forall tok_ok cs ->
    Forall (fun s : str => s <> []) (map (esc_str c) cs).
  Proof.
    intros cs HF. apply Forall_map. eapply Forall_impl; [|exact HF].
    intros t Ht. apply esc_str_nonempty. exact Ht.
  Qed.

  Lemma g_single_eq : forall cs rs,
    Forall tok_ok cs -> (rs = [] \/ 2 <= length cs) ->
    chars_single (map (esc_str c) cs) = g_single c cs rs.
  Proof.
    intros cs rs HF [->|Hlen]; [reflexivity|].
    destruct rs as [|r rs]; [reflexivity|]. cbn [g_single].
    apply chars_single_false; [rewrite map_length; exact Hlen|].
    apply tok_ok_esc_nonempty. exact HF.
  Qed.

  Lemma pseq_g : forall g nested, wf_pg nested g -> g_good g.
  Proof.
    induction g as [cs rs a b IH] using grapheme_ind'. intros nested Hwf.
    apply wf_pg_unfold in Hwf.
    destruct Hwf as (Hne & Htok & Ha & Hab & Hnest & Hrs & Hwfrs).
    assert (Htok' : Forall tok_ok cs) by exact Htok.
    assert (Hgood : Forall g_good rs).
    { clear Hrs. induction IH as [|r rs Hr _ IHrs]; [constructor|].
      inversion Hwfrs; subst. constructor; [eapply Hr; eassumption|apply IHrs; assumption]. }
    destruct (glist_good rs Hgood) as [Lh Lp].
    unfold g_good. rewrite gp_unfold by assumption. rewrite g_atoms_unfold. cbv zeta.
    rewrite (g_single_eq cs rs Htok') by (destruct Hrs as [?|[_ ?]]; auto).
    set (v := match rs with [] => concat (map (esc_str c) cs) | _ => flat_map gp rs end).
    (* the body *)
    assert (Vh : forall rest, hd_ok (vf v ++ rest)).
    { intros rest. unfold v. destruct rs as [|r rs].
      - apply safe_hd_ok. apply safe_hd_app. apply chars_safe_hd; assumption.
      - apply Lh. intros X. discriminate X. }
    assert (Vp : forall top rest racc ralts res, (rs <> [] -> nq rest) ->
               pseq top rest (rev (g_inner c cs rs) ++ racc) ralts res ->
               pseq top (vf v ++ rest) racc ralts res).
    { intros top rest racc ralts res Hq H. unfold v. destruct rs as [|r rs].
      - apply pseq_chars; assumption.
      - apply Lp; [apply Hq; discriminate|exact H]. }
    clearbody v.
    destruct (N.eqb a 1 && N.eqb b 1) eqn:E11.
    - split; [exact Vh|].
      intros top rest racc ralts res Hq H. apply Vp; [intros _; exact Hq|exact H].
    - destruct (g_single c cs rs) eqn:Es.
      + (* single: the quantifier applies to the one atom *)
        assert (Ers : rs = []).
        { destruct rs as [|r rs]; [reflexivity|discriminate Es]. }
        subst rs. cbn [g_single] in Es. cbn [g_inner].
        destruct (single_atoms cs Hne Htok' Es) as [x Hx].
        split.
        * intros rest. rewrite vf_app, <- app_assoc. apply Vh.
        * intros top rest racc ralts res Hq H.
          rewrite vf_app, vf_rep_str, <- app_assoc.
          apply Vp; [congruence|]. cbn [g_inner]. rewrite Hx. cbn [rev app].
          apply pseq_rep_str; try assumption.
          rewrite Hx in H. exact H.
      + (* grouped *)
        assert (Hqb : forall r, nq (vf v ++ 41%N :: r)).
        { intros r. apply hd_ok_nq. apply Vh. }
        split.
        * intros rest. rewrite vf_app, vf_grp, <- app_assoc. apply hd_ok_grp. apply Hqb.
        * intros top rest racc ralts res Hq H.
          rewrite vf_app, vf_grp, vf_rep_str, <- app_assoc.
          eapply pseq_grp with (inner := g_inner c cs rs); [apply Hqb| |].
          -- intros r Hc. apply Vp; [intros _; apply nq_cons; discriminate|].
             rewrite app_nil_r. exact Hc.
          -- apply pseq_rep_str; try assumption.
  Qed.

  (* ---------- clusters ---------- *)
  Lemma lit_str_gp : forall cl, Forall (wf_pg false) cl -> lit_str c cl = flat_map gp cl.
  Proof.
    intros cl HF. unfold lit_str. induction HF as [|g cl Hg _ IH]; [reflexivity|].
    cbn [flat_map]. rewrite IH. f_equal.
    destruct g as [cs rs a b]. destruct rs as [|r rs]; [reflexivity|].
    apply wf_pg_unfold in Hg.
    destruct Hg as (Hne & Htok & Ha & Hab & _ & Hrs & _).
    destruct Hrs as [Hrs|[_ Hlen]]; [discriminate|].
    rewrite gp_unfold, g_str_unfold by assumption. cbv zeta.
    assert (E1 : chars_single cs = false).
    { apply chars_single_false; [exact Hlen|].
      eapply Forall_impl; [|exact Htok]. intros t [Ht _]. exact Ht. }
    assert (E2 : chars_single (map (esc_str c) cs) = false).
    { apply chars_single_false; [rewrite map_length; exact Hlen|].
      apply tok_ok_esc_nonempty. exact Htok. }
    rewrite E1, E2.
    change (map (escape_g c) (r :: rs)) with (escape_g c r :: map (escape_g c) rs).
    cbv iota.
    change (escape_g c r :: map (escape_g c) rs) with (map (escape_g c) (r :: rs)).
    rewrite (flat_map_map' (escape_g c) (g_str c) (r :: rs)). reflexivity.
  Qed.

  Lemma cluster_good : forall cl, Forall (wf_pg false) cl ->
    (forall rest, (cl = [] -> hd_ok rest) -> hd_ok (vf (lit_str c cl) ++ rest)) /\
    (forall top rest racc ralts res, nq rest ->
       pseq top rest (rev (flat_map (g_atoms c) cl) ++ racc) ralts res ->
       pseq top (vf (lit_str c cl) ++ rest) racc ralts res).
  Proof.
    intros cl HF. rewrite lit_str_gp by exact HF.
    assert (Hgood : Forall g_good cl).
    { eapply Forall_impl; [|exact HF]. intros g Hg. eapply pseq_g. exact Hg. }
    exact (glist_good cl Hgood).
  Qed.
End Lit.
