(* "Syntax highlighting only adds colour codes" — part 2: the expression printer e_str. *)
From Grex Require Import Base.Str Model.Config Model.Cluster Model.Dfa Model.Expr Model.Print.
From Grex Require Import Proofs.ColourStripBase.
From GrexGen Require Import SrcConsts.
Local Open Scope N_scope.

(* ---------- induction principles for the nested types ---------- *)
Section GInd.
  Variable P : grapheme -> Prop.
  Hypothesis H : forall cs rs a b, Forall P rs -> P (G cs rs a b).
  Fixpoint grapheme_ind' (g : grapheme) : P g :=
    match g with
    | G cs rs a b =>
        H cs rs a b
          ((fix go (l : list grapheme) : Forall P l :=
              match l with
              | [] => Forall_nil P
              | r :: l' => Forall_cons r (grapheme_ind' r) (go l')
              end) rs)
    end.
End GInd.

Section EInd.
  Variable P : expr -> Prop.
  Hypothesis HAlt : forall os, Forall P os -> P (EAlt os).
  Hypothesis HCC : forall cs, P (ECC cs).
  Hypothesis HCat : forall a b, P a -> P b -> P (ECat a b).
  Hypothesis HLit : forall cl, P (ELit cl).
  Hypothesis HRep : forall x q, P x -> P (ERep x q).
  Fixpoint expr_ind' (e : expr) : P e :=
    match e with
    | EAlt os =>
        HAlt os ((fix go (l : list expr) : Forall P l :=
                    match l with
                    | [] => Forall_nil P
                    | o :: l' => Forall_cons o (expr_ind' o) (go l')
                    end) os)
    | ECC cs => HCC cs
    | ECat a b => HCat a b (expr_ind' a) (expr_ind' b)
    | ELit cl => HLit cl
    | ERep x q => HRep x q (expr_ind' x)
    end.
End EInd.

(* ---------- token texts and codes ---------- *)
Definition tok_char_okb (x : cp) : bool := negb (N.eqb x 27) && negb (N.eqb x 10) && negb (N.eqb x 13).
Definition tok_okb (tok : str) : bool :=
  match tok with [] => false | _ => forallb tok_char_okb tok end.

Lemma tok_char_okb_ok : forall x, tok_char_okb x = true -> tok_char_ok x.
Proof.
  intros x H. unfold tok_char_okb in H.
  apply andb_true_iff in H. destruct H as [H H3]. apply andb_true_iff in H. destruct H as [H1 H2].
  apply negb_true_iff in H1, H2, H3. apply N.eqb_neq in H1, H2, H3.
  repeat split; assumption.
Qed.

Lemma tok_okb_ok : forall tok, tok_okb tok = true -> tok_ok tok.
Proof.
  intros tok H. split.
  - destruct tok; [discriminate|discriminate].
  - assert (F : forallb tok_char_okb tok = true) by (destruct tok; [reflexivity|exact H]).
    rewrite forallb_forall in F. apply Forall_forall. intros x Hx.
    apply tok_char_okb_ok. apply F. exact Hx.
Qed.

Definition dig_range (x : cp) : Prop := 48 <= x /\ x <= 57.
Definition hex_range (x : cp) : Prop := (48 <= x /\ x <= 57) \/ (97 <= x /\ x <= 102).

Lemma dec_digits_range : forall f n acc,
    Forall dig_range acc -> Forall dig_range (dec_digits f n acc).
Proof.
  induction f as [|f IH]; intros n acc H; cbn [dec_digits].
  - exact H.
  - assert (L : n mod 10 < 10) by (apply N.mod_lt; discriminate).
    assert (D : dig_range (48 + n mod 10)).
    { revert L. generalize (n mod 10). intros m L. unfold dig_range. lia. }
    destruct (N.eqb (n / 10) 0).
    + constructor; assumption.
    + apply IH. constructor; assumption.
Qed.

Lemma dec_of_N_range : forall n, Forall dig_range (dec_of_N n).
Proof. intros n. unfold dec_of_N. apply dec_digits_range. constructor. Qed.

Lemma dec_digits_nonnil : forall f n acc, acc <> [] -> dec_digits f n acc <> [].
Proof.
  induction f as [|f IH]; intros n acc H; cbn [dec_digits].
  - exact H.
  - destruct (N.eqb (n / 10) 0); [discriminate|]. apply IH. discriminate.
Qed.

Lemma hex_digits_range : forall f n acc,
    Forall hex_range acc -> Forall hex_range (hex_digits f n acc).
Proof.
  induction f as [|f IH]; intros n acc H; cbn [hex_digits].
  - exact H.
  - assert (L : n mod 16 < 16) by (apply N.mod_lt; discriminate).
    assert (D : hex_range (hex_digit (n mod 16))).
    { revert L. generalize (n mod 16). intros m L.
      unfold hex_digit, hex_range. destruct (N.ltb_spec m 10); lia. }
    destruct (N.eqb (n / 16) 0).
    + constructor; assumption.
    + apply IH. constructor; assumption.
Qed.

Lemma hex_of_N_range : forall n, Forall hex_range (hex_of_N n).
Proof. intros n. unfold hex_of_N. apply hex_digits_range. constructor. Qed.

(* a property of characters that holds of \ u { } and of hex digits holds of \u{hex} *)
Lemma esc_unicode_forall : forall (P : cp -> Prop) x,
    P 92 -> P 117 -> P 123 -> P 125 -> (forall y, hex_range y -> P y) ->
    Forall P (esc_unicode x).
Proof.
  intros P x H1 H2 H3 H4 H5. unfold esc_unicode.
  repeat (apply Forall_cons; [assumption|]). apply Forall_app. split.
  - eapply Forall_impl; [|apply hex_of_N_range]. exact H5.
  - constructor; [assumption|constructor].
Qed.

Lemma escape_cp_forall : forall (P : cp -> Prop) sur x,
    P x -> P 92 -> P 117 -> P 123 -> P 125 -> (forall y, hex_range y -> P y) ->
    Forall P (escape_cp sur x).
Proof.
  intros P sur x H0 H1 H2 H3 H4 H5. unfold escape_cp.
  destruct (N.ltb x 128).
  - constructor; [assumption|constructor].
  - destruct (sur && is_astral x).
    + apply Forall_app. split; apply esc_unicode_forall; assumption.
    + apply esc_unicode_forall; assumption.
Qed.

Lemma escape_cp_nonnil : forall sur x, escape_cp sur x <> [].
Proof.
  intros sur x. unfold escape_cp, esc_unicode.
  destruct (N.ltb x 128); [discriminate|]. destruct (sur && is_astral x); discriminate.
Qed.

Lemma tok_ok_range : forall (tok : str), tok <> [] -> Forall (fun x => 32 <= x) tok -> tok_ok tok.
Proof.
  intros tok N F. split; [exact N|]. eapply Forall_impl; [|exact F].
  intros x Hx. cbv beta in Hx. unfold tok_char_ok. lia.
Qed.

(* the generated codes have the shape digits ; digits *)
Definition all_codes : list str :=
  [sgr_CapturedLeftParenthesis; sgr_Caret; sgr_CharClass; sgr_DollarSign; sgr_Hyphen;
   sgr_IgnoreCaseFlag; sgr_IgnoreCaseAndVerboseModeFlag; sgr_LeftBracket; sgr_Pipe;
   sgr_Quantifier; sgr_Repetition; sgr_RepetitionRange; sgr_RightBracket;
   sgr_RightParenthesis; sgr_UncapturedLeftParenthesis; sgr_VerboseModeFlag].
Definition sgr_codes_ok : bool := forallb code_okb all_codes.
Lemma sgr_codes_ok_true : sgr_codes_ok = true.
Proof. vm_compute. reflexivity. Qed.

Lemma code_in : forall code, In code all_codes -> code_ok code.
Proof.
  intros code H. apply code_okb_ok.
  pose proof sgr_codes_ok_true as A. unfold sgr_codes_ok in A.
  rewrite forallb_forall in A. apply A. exact H.
Qed.
Ltac code_tac := apply code_in; unfold all_codes; simpl; tauto.

(* the fixed token texts *)
Definition all_toks : list str :=
  [txt_CapturedLeftParenthesis; txt_UncapturedLeftParenthesis; txt_RightParenthesis;
   [42]; [63]; [123; 92; 100; 43; 92; 125]; [123; 92; 100; 43; 44; 92; 100; 43; 92; 125];
   txt_Hyphen; txt_LeftBracket; txt_RightBracket; txt_Pipe;
   [40; 63; 105; 120; 41]; txt_IgnoreCaseFlag; [40; 63; 120; 41]; [94]; [36]] ++ char_classes.
Definition toks_ok : bool := forallb tok_okb all_toks.
Lemma toks_ok_true : toks_ok = true.
Proof. vm_compute. reflexivity. Qed.
Lemma tok_in : forall tok, In tok all_toks -> tok_ok tok.
Proof.
  intros tok H. apply tok_okb_ok.
  pose proof toks_ok_true as A. unfold toks_ok in A.
  rewrite forallb_forall in A. apply A. exact H.
Qed.
Ltac tok_tac := apply tok_in; unfold all_toks; simpl; tauto.

Lemma str_eqb_eq : forall a b, str_eqb a b = true -> a = b.
Proof.
  induction a as [|x a IH]; intros b H; destruct b as [|y b]; simpl in H; try discriminate.
  - reflexivity.
  - apply andb_true_iff in H. destruct H as [H1 H2]. apply N.eqb_eq in H1. subst.
    f_equal. apply IH. exact H2.
Qed.

Lemma char_class_tok : forall v, is_char_class v = true -> tok_ok v.
Proof.
  intros v H. unfold is_char_class in H. apply existsb_exists in H.
  destruct H as [w [Hw E]]. apply str_eqb_eq in E. subst w.
  apply tok_in. unfold all_toks. apply in_or_app. right. exact Hw.
Qed.

(* ---------- CP closure lemmas ---------- *)
Lemma CP_refl_no91 : forall s : str, Forall (fun x => x <> 91) s -> CP s s.
Proof. induction 1; constructor; assumption. Qed.

Lemma CP_nl : CP nl nl.
Proof. apply CP_char; [discriminate|constructor]. Qed.

Lemma CP_flat_map2 {A} (f g : A -> str) (l : list A) :
  Forall (fun r => CP (f r) (g r)) l -> CP (flat_map f l) (flat_map g l).
Proof.
  induction 1; simpl.
  - constructor.
  - apply CP_app; assumption.
Qed.

Lemma CP_concat2 : forall l1 l2, Forall2 CP l1 l2 -> CP (concat l1) (concat l2).
Proof.
  induction 1; simpl.
  - constructor.
  - apply CP_app; assumption.
Qed.

Lemma join_cons2 : forall sep (x y : str) l, join sep (x :: y :: l) = x ++ sep ++ join sep (y :: l).
Proof. reflexivity. Qed.

Lemma CP_join : forall sc sp lc lp, CP sc sp -> Forall2 CP lc lp -> CP (join sc lc) (join sp lp).
Proof.
  intros sc sp lc lp Hs H. induction H as [|xc xp lc lp Hx Hl IH].
  - constructor.
  - inversion Hl; subst.
    + simpl. exact Hx.
    + rewrite !join_cons2. apply CP_app; [exact Hx|]. apply CP_app; [exact Hs|]. exact IH.
Qed.

(* ---------- components ---------- *)
Section Components.
  Variable c : cfg.
  Let ct := with_colour c true.
  Let cf := with_colour c false.

  Lemma CP_if_nl : forall b : bool, CP (if b then nl else []) (if b then nl else []).
  Proof. intros [|]; [apply CP_nl|constructor]. Qed.

  Lemma c_group_CP : forall ec ep fb, CP ec ep -> CP (c_group ct ec fb) (c_group cf ep fb).
  Proof.
    intros ec ep fb H. unfold c_group.
    change (f_cap ct) with (f_cap c). change (f_cap cf) with (f_cap c).
    change (f_verbose ct) with (f_verbose c). change (f_verbose cf) with (f_verbose c).
    assert (L : CP (if f_cap c then col ct sgr_CapturedLeftParenthesis txt_CapturedLeftParenthesis
                    else col ct sgr_UncapturedLeftParenthesis txt_UncapturedLeftParenthesis)
                   (if f_cap c then col cf sgr_CapturedLeftParenthesis txt_CapturedLeftParenthesis
                    else col cf sgr_UncapturedLeftParenthesis txt_UncapturedLeftParenthesis)).
    { destruct (f_cap c); apply CP_col; try code_tac; tok_tac. }
    assert (R : CP (col ct sgr_RightParenthesis txt_RightParenthesis)
                   (col cf sgr_RightParenthesis txt_RightParenthesis)).
    { apply CP_col; [code_tac|tok_tac]. }
    cbv zeta.
    destruct (f_verbose c).
    - repeat (apply CP_app; try apply CP_nl; try assumption). apply CP_if_nl.
    - repeat (apply CP_app; try assumption).
  Qed.

  Lemma c_quant_CP : forall q, CP (c_quant ct q) (c_quant cf q).
  Proof.
    intros q. unfold c_quant.
    change (f_verbose ct) with (f_verbose c). change (f_verbose cf) with (f_verbose c).
    apply CP_app; [|apply CP_if_nl].
    apply CP_col; [code_tac|]. destruct q; tok_tac.
  Qed.

  Lemma dec_tok_range : forall n, Forall (fun x => 32 <= x) (dec_of_N n).
  Proof.
    intros n. eapply Forall_impl; [|apply dec_of_N_range]. intros x [H1 H2]. lia.
  Qed.

  Lemma rep_body_tok : forall n,
      tok_ok (if N.eqb n 0 then [123; 92; 100; 43; 92; 125] else [123] ++ dec_of_N n ++ [125]).
  Proof.
    intros n. destruct (N.eqb n 0); [tok_tac|].
    apply tok_ok_range; [discriminate|].
    apply Forall_cons; [lia|]. apply Forall_app. split; [apply dec_tok_range|].
    constructor; [lia|constructor].
  Qed.

  Lemma range_body_tok : forall a b,
      tok_ok (if N.eqb a 0 && N.eqb b 0 then [123; 92; 100; 43; 44; 92; 100; 43; 92; 125]
              else [123] ++ dec_of_N a ++ [44] ++ dec_of_N b ++ [125]).
  Proof.
    intros a b. destruct (N.eqb a 0 && N.eqb b 0); [tok_tac|].
    apply tok_ok_range; [discriminate|].
    apply Forall_cons; [lia|]. apply Forall_app. split; [apply dec_tok_range|].
    apply Forall_cons; [lia|]. apply Forall_app. split; [apply dec_tok_range|].
    constructor; [lia|constructor].
  Qed.

  Lemma c_rep_CP : forall n v, CP (c_rep ct n v) (c_rep cf n v).
  Proof.
    intros n v. unfold c_rep. cbv zeta. apply CP_app; [|apply CP_if_nl].
    apply CP_col; [code_tac|apply rep_body_tok].
  Qed.

  Lemma c_range_CP : forall a b v, CP (c_range ct a b v) (c_range cf a b v).
  Proof.
    intros a b v. unfold c_range. cbv zeta. apply CP_app; [|apply CP_if_nl].
    apply CP_col; [code_tac|apply range_body_tok].
  Qed.
End Components.

(* ---------- escaping ---------- *)
(* the characters whose raw occurrence matters: [ for the stripper, ( ) $ ^ for indentation *)
Definition Slit (x : cp) : bool := mem_cp x [91; 40; 41; 36; 94].
Definition Scc (x : cp) : bool := mem_cp x [91; 36; 94].

Definition goodS (S : cp -> bool) : Prop :=
  forall x, S x = true -> x = 91 \/ x = 40 \/ x = 41 \/ x = 36 \/ x = 94.

Lemma mem_cp_In : forall x l, mem_cp x l = true -> In x l.
Proof.
  induction l as [|y l IH]; cbn [mem_cp]; intros H.
  - discriminate.
  - apply orb_true_iff in H. destruct H as [H|H].
    + apply N.eqb_eq in H. left. symmetry. exact H.
    + right. apply IH. exact H.
Qed.

Lemma goodS_Slit : goodS Slit.
Proof.
  intros x H. apply mem_cp_In in H. simpl in H.
  destruct H as [H|[H|[H|[H|[H|[]]]]]]; subst; tauto.
Qed.
Lemma goodS_Scc : goodS Scc.
Proof.
  intros x H. apply mem_cp_In in H. simpl in H.
  destruct H as [H|[H|[H|[]]]]; subst; tauto.
Qed.

Lemma goodS_false : forall S x, goodS S ->
    x <> 91 -> x <> 40 -> x <> 41 -> x <> 36 -> x <> 94 -> S x = false.
Proof.
  intros S x G H1 H2 H3 H4 H5. destruct (S x) eqn:E; [|reflexivity].
  apply G in E. destruct E as [E|[E|[E|[E|E]]]]; contradiction.
Qed.

Lemma goodS_92 : forall S, goodS S -> S 92 = false.
Proof. intros S G. apply goodS_false; [exact G|discriminate..]. Qed.

(* checked on the generated lists *)
Definition escape_lists_ok : bool :=
  forallb (fun x => mem_cp x chars_to_escape) [91; 40; 41; 36; 94]
  && forallb (fun x => mem_cp x cc_chars_to_escape) [91; 36; 94]
  && negb (mem_cp 92 chars_to_escape).
Lemma escape_lists_ok_true : escape_lists_ok = true.
Proof. vm_compute. reflexivity. Qed.

Lemma Slit_escaped : forall x, Slit x = true -> mem_cp x chars_to_escape = true.
Proof.
  intros x H. pose proof escape_lists_ok_true as A. unfold escape_lists_ok in A.
  apply andb_true_iff in A. destruct A as [A _]. apply andb_true_iff in A. destruct A as [A _].
  rewrite forallb_forall in A. apply A. apply mem_cp_In. exact H.
Qed.
Lemma Scc_escaped : forall x, Scc x = true -> mem_cp x cc_chars_to_escape = true.
Proof.
  intros x H. pose proof escape_lists_ok_true as A. unfold escape_lists_ok in A.
  apply andb_true_iff in A. destruct A as [A _]. apply andb_true_iff in A. destruct A as [_ A].
  rewrite forallb_forall in A. apply A. apply mem_cp_In. exact H.
Qed.
Lemma bs_not_escaped : mem_cp 92 chars_to_escape = false.
Proof.
  pose proof escape_lists_ok_true as A. unfold escape_lists_ok in A.
  apply andb_true_iff in A. destruct A as [_ A]. apply negb_true_iff in A. exact A.
Qed.

Lemma escape_symbols_safe : forall s, safeS Slit (escape_symbols_str s).
Proof.
  intros s. unfold escape_symbols_str. cbv zeta.
  pose proof (goodS_92 _ goodS_Slit) as H92.
  match goal with |- safeS _ (if str_eqb ?t _ then _ else _) => assert (H : safeS Slit t) end.
  { apply safe_replace_cp; [exact H92|discriminate|].
    apply safe_replace_cp; [exact H92|discriminate|].
    apply safe_replace_cp; [exact H92|discriminate|].
    eapply safe_mono; [|apply (fold_escape_safe chars_to_escape (fun _ => false) s)].
    - intros x Hx. cbv beta. rewrite orb_false_l. apply Slit_escaped. exact Hx.
    - reflexivity.
    - exact bs_not_escaped.
    - apply safe_free. apply Forall_forall. intros; reflexivity. }
  match goal with |- safeS _ (if ?b then _ else _) => destruct b end.
  - apply safe_bs. constructor.
  - exact H.
Qed.

Lemma escape_cp_safe : forall S sur s, goodS S ->
    safeS S s -> safeS S (flat_map (escape_cp sur) s).
Proof.
  intros S sur s G H.
  assert (F : forall y, S y = false -> Forall (fun z => S z = false) (escape_cp sur y)).
  { intros y Hy. apply escape_cp_forall; try exact Hy;
      try (apply goodS_false; [exact G|discriminate..]).
    intros z [Hz|Hz]; apply goodS_false; try exact G; lia. }
  apply safe_flat_map; [| |exact H].
  - intros y Hy. apply safe_free. apply F. exact Hy.
  - intros x. change (escape_cp sur 92) with [92]. simpl app.
    unfold escape_cp. destruct (N.ltb x 128).
    + apply safe_bs. constructor.
    + apply safe_char; [apply goodS_92; exact G|]. apply safe_free.
      assert (U : forall u, Forall (fun z => S z = false) (esc_unicode u)).
      { intros u. apply esc_unicode_forall;
          try (apply goodS_false; [exact G|discriminate..]).
        intros z [Hz|Hz]; apply goodS_false; try exact G; lia. }
      destruct (sur && is_astral x); [apply Forall_app; split|]; apply U.
Qed.

(* ---------- graphemes ---------- *)
Definition esc_strs (c : cfg) (cs : list str) : list str :=
  let cs := map escape_symbols_str cs in
  if f_esc c then map (fun s => flat_map (escape_cp (f_sur c)) s) cs else cs.

Lemma escape_g_eq : forall c cs rs a b,
    escape_g c (G cs rs a b) = G (esc_strs c cs) (map (escape_g c) rs) a b.
Proof.
  intros c cs rs a b.
  assert (E : map (escape_g c) rs =
              (fix go (l : list grapheme) : list grapheme :=
                 match l with [] => [] | r :: l' => escape_g c r :: go l' end) rs).
  { induction rs as [|r rs IH]; [reflexivity|]. simpl map. rewrite IH. reflexivity. }
  rewrite E. reflexivity.
Qed.

Lemma escape_g_colour : forall c b g, escape_g (with_colour c b) g = escape_g c g.
Proof.
  intros c b g. induction g as [cs rs a0 b0 IH] using grapheme_ind'.
  rewrite !escape_g_eq. f_equal.
  induction IH as [|r rs Hr Hrs IH2]; [reflexivity|]. simpl. rewrite Hr, IH2. reflexivity.
Qed.

(* every string at the leaves of a grapheme (the strings that are printed) satisfies P *)
Inductive gok (P : str -> Prop) : grapheme -> Prop :=
| gok_leaf cs a b : Forall P cs -> gok P (G cs [] a b)
| gok_node cs r rs a b : Forall (gok P) (r :: rs) -> gok P (G cs (r :: rs) a b).

Lemma esc_strs_safe : forall c cs, Forall (safeS Slit) (esc_strs c cs).
Proof.
  intros c cs. unfold esc_strs. cbv zeta.
  assert (H : Forall (safeS Slit) (map escape_symbols_str cs)).
  { apply Forall_forall. intros s Hs. apply in_map_iff in Hs. destruct Hs as [s0 [E _]].
    subst. apply escape_symbols_safe. }
  destruct (f_esc c); [|exact H].
  apply Forall_forall. intros s Hs. apply in_map_iff in Hs. destruct Hs as [s0 [E Hs0]].
  subst. apply escape_cp_safe; [exact goodS_Slit|].
  rewrite Forall_forall in H. apply H. exact Hs0.
Qed.

Lemma gok_escape : forall c g, gok (safeS Slit) (escape_g c g).
Proof.
  intros c g. induction g as [cs rs a b IH] using grapheme_ind'.
  rewrite escape_g_eq. destruct rs as [|r rs].
  - apply gok_leaf. apply esc_strs_safe.
  - simpl map. apply gok_node.
    change (escape_g c r :: map (escape_g c) rs) with (map (escape_g c) (r :: rs)).
    apply Forall_forall. intros x Hx. apply in_map_iff in Hx. destruct Hx as [x0 [E Hx0]].
    subst. rewrite Forall_forall in IH. apply IH. exact Hx0.
Qed.

Definition g_single (g : grapheme) : bool :=
  match g with
  | G cs rs a b =>
      Nat.eqb (g_char_count false g) 1
      || match cs with [s] => is_single_escape_sequence s | _ => false end
  end.

Definition gv (c : cfg) (cs : list str) (rs : list grapheme) : str :=
  match rs with [] => concat cs | _ => flat_map (g_str c) rs end.

Lemma g_str_eq : forall c cs rs a b,
    g_str c (G cs rs a b) =
    let single := g_single (G cs rs a b) in
    let is_range := N.ltb a b in
    let is_rep := N.ltb 1 a in
    let v := gv c cs rs in
    let v := if f_colour c && is_char_class v then col c sgr_CharClass v else v in
    if negb is_range && is_rep && single then v ++ c_rep c a false
    else if negb is_range && is_rep then c_group c v false ++ c_rep c a (f_verbose c)
    else if is_range && single then v ++ c_range c a b false
    else if is_range then c_group c v false ++ c_range c a b (f_verbose c)
    else v.
Proof.
  intros c cs rs a b.
  assert (E : flat_map (g_str c) rs =
              (fix go (l : list grapheme) : str :=
                 match l with [] => [] | r :: l' => g_str c r ++ go l' end) rs).
  { induction rs as [|r rs IH]; [reflexivity|]. simpl flat_map. rewrite IH. reflexivity. }
  unfold gv. rewrite E. destruct rs; reflexivity.
Qed.

Section Graphemes.
  Variable c : cfg.
  Let ct := with_colour c true.
  Let cf := with_colour c false.

  Lemma g_str_CP : forall S, S 91 = true -> forall g, gok (safeS S) g -> CP (g_str ct g) (g_str cf g).
  Proof.
    intros S HS g. induction g as [cs rs a b IH] using grapheme_ind'. intros Hok.
    rewrite !g_str_eq. cbv zeta.
    assert (Hv : CP (gv ct cs rs) (gv cf cs rs)).
    { inversion Hok; subst.
      - simpl gv. apply (safe_CP S); [exact HS|]. apply safe_concat. assumption.
      - unfold gv. apply CP_flat_map2.
        rewrite Forall_forall in IH. apply Forall_forall. intros x Hx.
        apply IH; [exact Hx|].
        match goal with H : Forall (gok _) _ |- _ => rewrite Forall_forall in H; apply H end.
        exact Hx. }
    change (f_colour ct) with true. change (f_colour cf) with false.
    change (f_verbose ct) with (f_verbose c). change (f_verbose cf) with (f_verbose c).
    cbn [andb].
    assert (Hcv : CP (if is_char_class (gv ct cs rs) then col ct sgr_CharClass (gv ct cs rs)
                      else gv ct cs rs) (gv cf cs rs)).
    { destruct (is_char_class (gv ct cs rs)) eqn:Ecc; [|exact Hv].
      pose proof (char_class_tok _ Ecc) as Ht.
      pose proof (CP_noesc_eq _ _ Hv (tok_ok_noesc _ Ht)) as Eq. rewrite <- Eq.
      rewrite <- (app_nil_r (gv ct cs rs)) at 2.
      unfold ct at 1. rewrite col_true. rewrite <- (app_nil_r (wrap _ _)).
      apply CP_tok; [code_tac|exact Ht|constructor]. }
    set (vc := if is_char_class (gv ct cs rs) then col ct sgr_CharClass (gv ct cs rs)
               else gv ct cs rs) in *.
    set (vp := gv cf cs rs) in *. clearbody vc vp.
    destruct (negb (a <? b) && (1 <? a) && g_single (G cs rs a b)).
    { apply CP_app; [exact Hcv|apply c_rep_CP]. }
    destruct (negb (a <? b) && (1 <? a)).
    { apply CP_app; [apply c_group_CP; exact Hcv|apply c_rep_CP]. }
    destruct ((a <? b) && g_single (G cs rs a b)).
    { apply CP_app; [exact Hcv|apply c_range_CP]. }
    destruct (a <? b).
    { apply CP_app; [apply c_group_CP; exact Hcv|apply c_range_CP]. }
    exact Hcv.
  Qed.

  Lemma lit_str_CP : forall cl, CP (lit_str ct cl) (lit_str cf cl).
  Proof.
    intros cl. unfold lit_str. apply CP_flat_map2. apply Forall_forall. intros g _.
    destruct g as [cs rs a b]. destruct rs as [|r rs].
    - unfold ct, cf. rewrite !escape_g_colour.
      apply (g_str_CP Slit); [reflexivity|]. apply gok_escape.
    - assert (E : forall b0, map (escape_g (with_colour c b0)) (r :: rs) = map (escape_g c) (r :: rs)).
      { intros b0. apply map_ext. intros g. apply escape_g_colour. }
      unfold ct, cf. rewrite !E.
      apply (g_str_CP Slit); [reflexivity|]. simpl map. apply gok_node.
      change (escape_g c r :: map (escape_g c) rs) with (map (escape_g c) (r :: rs)).
      apply Forall_forall. intros x Hx. apply in_map_iff in Hx. destruct Hx as [x0 [Ex _]].
      subst. apply gok_escape.
  Qed.
End Graphemes.

(* ---------- character classes ---------- *)
Lemma cc_escape_safe : forall x, safeS Scc (cc_escape x).
Proof.
  intros x. unfold cc_escape.
  destruct (mem_cp x cc_chars_to_escape) eqn:E; [apply safe_bs; constructor|].
  destruct (N.eqb x c_nl); [apply safe_bs; constructor|].
  destruct (N.eqb x c_cr); [apply safe_bs; constructor|].
  destruct (N.eqb x c_tab); [apply safe_bs; constructor|].
  apply safe_char; [|constructor].
  destruct (Scc x) eqn:F; [|reflexivity]. apply Scc_escaped in F. congruence.
Qed.

Lemma cc_subsets_cons2 : forall c1 p1 c2 p2 r subset first,
    cc_subsets ((c1, p1) :: (c2, p2) :: r) subset first =
    let subset := if first then [c1] else subset in
    if N.eqb p2 (p1 + 1) then cc_subsets ((c2, p2) :: r) (subset ++ [c2]) false
    else subset :: cc_subsets ((c2, p2) :: r) [c2] false.
Proof. reflexivity. Qed.

Lemma cc_subsets_single : forall it subset first, cc_subsets [it] subset first = [subset].
Proof. intros [c1 p1] subset first. reflexivity. Qed.

Lemma cc_subsets_forall : forall (P : str -> Prop) items subset first,
    Forall (fun it => P (fst it)) items -> Forall P subset ->
    Forall (Forall P) (cc_subsets items subset first).
Proof.
  intros P items. induction items as [|[c1 p1] items IH]; intros subset first Hi Hs.
  - simpl. constructor; [exact Hs|constructor].
  - destruct items as [|[c2 p2] r].
    + rewrite cc_subsets_single. constructor; [exact Hs|constructor].
    + rewrite cc_subsets_cons2. cbv zeta.
      inversion Hi as [|x1 l1 H1 Hi']; subst. inversion Hi' as [|x2 l2 H2 Hi'']; subst.
      simpl in H1, H2.
      assert (Hs' : Forall P (if first then [c1] else subset)).
      { destruct first; [constructor; [exact H1|constructor]|exact Hs]. }
      destruct (N.eqb p2 (p1 + 1)).
      * apply IH; [exact Hi'|]. apply Forall_app. split; [exact Hs'|].
        constructor; [exact H2|constructor].
      * constructor; [exact Hs'|]. apply IH; [exact Hi'|].
        constructor; [exact H2|constructor].
Qed.

Lemma Forall_hd : forall (P : str -> Prop) (l : list str), P [] -> Forall P l -> P (hd [] l).
Proof. intros P l H0 H. destruct H; [exact H0|assumption]. Qed.

Lemma Forall_last : forall (P : str -> Prop) (l : list str), P [] -> Forall P l -> P (last l []).
Proof.
  intros P l H0 H. induction H as [|x l Hx Hl IH]; [exact H0|].
  destruct l; [exact Hx|exact IH].
Qed.

Section Classes.
  Variable c : cfg.
  Let ct := with_colour c true.
  Let cf := with_colour c false.

  Definition cc_part (c0 : cfg) (sub : list str) : list str :=
    if Nat.leb (length sub) 2 then sub
    else [hd [] sub ++ col c0 sgr_Hyphen txt_Hyphen ++ last sub []].

  Lemma cc_part_CP : forall sub, Forall (safeS Scc) sub ->
      CP (concat (cc_part ct sub)) (concat (cc_part cf sub)).
  Proof.
    intros sub H. unfold cc_part. destruct (Nat.leb (length sub) 2).
    - apply (safe_CP Scc); [reflexivity|]. apply safe_concat. exact H.
    - cbn [concat]. rewrite !app_nil_r.
      apply CP_app; [|apply CP_app].
      + apply (safe_CP Scc); [reflexivity|]. apply Forall_hd; [constructor|exact H].
      + apply CP_col; [code_tac|tok_tac].
      + apply (safe_CP Scc); [reflexivity|]. apply Forall_last; [constructor|exact H].
  Qed.

  Lemma cc_str_CP : forall cs, CP (cc_str ct cs) (cc_str cf cs).
  Proof.
    intros cs. unfold cc_str. cbv zeta.
    apply CP_app; [apply CP_col; [code_tac|tok_tac]|].
    apply CP_app; [|apply CP_col; [code_tac|tok_tac]].
    fold (cc_part ct). fold (cc_part cf).
    set (subsets := cc_subsets (map (fun x => (cc_escape x, codepoint_position x)) cs) [] true).
    assert (H : Forall (Forall (safeS Scc)) subsets).
    { apply cc_subsets_forall; [|constructor].
      apply Forall_forall. intros it Hit. apply in_map_iff in Hit. destruct Hit as [x [E _]].
      subst. simpl. apply cc_escape_safe. }
    clearbody subsets. induction H as [|sub subsets Hs Hss IH].
    - constructor.
    - simpl flat_map. rewrite !concat_app. apply CP_app; [|exact IH].
      apply cc_part_CP. exact Hs.
  Qed.
End Classes.

(* ---------- expressions ---------- *)
Lemma isc_colour : forall c b e, is_single_codepoint (with_colour c b) e = is_single_codepoint c e.
Proof. reflexivity. Qed.

Definition alt_item (c : cfg) (o : expr) : str :=
  if Nat.ltb (precedence o) 1 && negb (is_single_codepoint c o)
  then c_group c (e_str c o) true else e_str c o.

Definition alt_sep (c : cfg) : str :=
  if f_verbose c then nl ++ col c sgr_Pipe txt_Pipe ++ nl else col c sgr_Pipe txt_Pipe.

Lemma e_str_alt_eq : forall c os,
    e_str c (EAlt os) = join (alt_sep c) (map (alt_item c) os).
Proof.
  intros c os.
  assert (E : map (alt_item c) os =
              (fix go (l : list expr) : list str :=
                 match l with
                 | [] => []
                 | o :: l' =>
                     (if Nat.ltb (precedence o) 1 && negb (is_single_codepoint c o)
                      then c_group c (e_str c o) true else e_str c o) :: go l'
                 end) os).
  { induction os as [|o os IH]; [reflexivity|]. simpl map. rewrite IH. reflexivity. }
  rewrite E. reflexivity.
Qed.

Definition cat_part (c : cfg) (x : expr) : str :=
  if Nat.ltb (precedence x) 2 && negb (is_single_codepoint c x)
  then c_group c (e_str c x) true else e_str c x.

Lemma e_str_cat_eq : forall c a b, e_str c (ECat a b) = cat_part c a ++ cat_part c b.
Proof. reflexivity. Qed.

Lemma e_str_rep_eq : forall c x q,
    e_str c (ERep x q) =
    if Nat.ltb (precedence x) 3 && negb (is_single_codepoint c x)
    then c_group c (e_str c x) false ++ c_quant c q
    else e_str c x ++ c_quant c q.
Proof. reflexivity. Qed.

Lemma Forall2_map2 {A B} (R : B -> B -> Prop) (f g : A -> B) (l : list A) :
  Forall (fun x => R (f x) (g x)) l -> Forall2 R (map f l) (map g l).
Proof. induction 1; simpl; constructor; assumption. Qed.

Theorem e_str_CP : forall c e,
    CP (e_str (with_colour c true) e) (e_str (with_colour c false) e).
Proof.
  intros c e. induction e as [os IH|cs|a b IHa IHb|cl|x q IH] using expr_ind'.
  - rewrite !e_str_alt_eq. apply CP_join.
    + unfold alt_sep.
      change (f_verbose (with_colour c true)) with (f_verbose c).
      change (f_verbose (with_colour c false)) with (f_verbose c).
      assert (P : CP (col (with_colour c true) sgr_Pipe txt_Pipe)
                     (col (with_colour c false) sgr_Pipe txt_Pipe)).
      { apply CP_col; [code_tac|tok_tac]. }
      destruct (f_verbose c); [|exact P].
      apply CP_app; [apply CP_nl|]. apply CP_app; [exact P|apply CP_nl].
    + apply Forall2_map2. eapply Forall_impl; [|exact IH].
      intros o Ho. unfold alt_item. rewrite !isc_colour.
      destruct (Nat.ltb (precedence o) 1 && negb (is_single_codepoint c o)).
      * apply c_group_CP. exact Ho.
      * exact Ho.
  - apply cc_str_CP.
  - rewrite !e_str_cat_eq. unfold cat_part. rewrite !isc_colour.
    apply CP_app.
    + destruct (Nat.ltb (precedence a) 2 && negb (is_single_codepoint c a));
        [apply c_group_CP|]; exact IHa.
    + destruct (Nat.ltb (precedence b) 2 && negb (is_single_codepoint c b));
        [apply c_group_CP|]; exact IHb.
  - apply lit_str_CP.
  - rewrite !e_str_rep_eq. rewrite !isc_colour.
    destruct (Nat.ltb (precedence x) 3 && negb (is_single_codepoint c x)).
    + apply CP_app; [apply c_group_CP; exact IH|apply c_quant_CP].
    + apply CP_app; [exact IH|apply c_quant_CP].
Qed.

Theorem strip_e_str : forall isd c e, digit_ok isd ->
    strip_sgr isd (e_str (with_colour c true) e) = e_str (with_colour c false) e.
Proof. intros isd c e Hd. apply strip_CP; [exact Hd|apply e_str_CP]. Qed.
