(* Re-pairing of UTF-16 surrogate escapes, part 4: expressions and the whole pattern.

   [e_strR] is the text of an expression with the characters rendered as under c0 (no surrogates)
   and all grouping decisions taken as under c1.  (A) `repair` maps the pattern printed under c1 to
   it; (B) the parser model reads it back as the AST top_rast c1 e. *)
From Grex Require Import Base.Str Model.Config Model.Cluster Model.Dfa Model.Expr Model.Print.
From Grex Require Import Engine.Syntax Engine.Parse.
From Grex Require Import Proofs.Lang Proofs.ExprLang Proofs.EscapeProps Proofs.PrintShape.
From Grex Require Import Proofs.PrintParseNum Proofs.PrintParseStep Proofs.PrintParseDefs
  Proofs.PrintParseEsc Proofs.PrintParseLit Proofs.PrintParseCC Proofs.PrintParseExpr
  Proofs.PrintParse
  Proofs.SurrogateRepair Proofs.SurrogateLit Proofs.SurrogateCC.
From GrexGen Require Import SrcConsts.

Section SurExpr.
  Variables c1 c0 : cfg.
  Hypothesis Hcol1 : f_colour c1 = false.
  Hypothesis Hv1 : f_verbose c1 = false.
  Hypothesis Hp0 : printable c0.
  Hypothesis Hv0 : f_verbose c0 = false.
  Hypothesis Hcap : f_cap c1 = f_cap c0.
  Hypothesis Hesc : f_esc c1 = f_esc c0.
  Variable gap : Prop.

  Notation grp := (PrintParseLit.grp c0).

  (* ---------- e_str under c1, without colour and verbosity ---------- *)
  Lemma col_off1 : forall code v, col c1 code v = v.
  Proof. intros code v. unfold col. rewrite Hcol1. reflexivity. Qed.

  Lemma c_group_eq1 : forall v fb, c_group c1 v fb = grp v.
  Proof.
    intros v fb. unfold c_group, PrintParseLit.grp, grp_open. rewrite !col_off1, Hv1, Hcap.
    destruct (f_cap c0); reflexivity.
  Qed.

  Definition part1 (lvl : nat) (x : expr) : str :=
    if needs_group c1 lvl x then grp (e_str c1 x) else e_str c1 x.

  Lemma e_str_alt1 : forall os, e_str c1 (EAlt os) = join [124%N] (map (e_str c1) os).
  Proof.
    intros os. cbn [e_str]. rewrite col_off1. rewrite Hv1.
    unfold txt_Pipe. f_equal.
    induction os as [|o os IH]; [reflexivity|].
    cbn [map]. rewrite prec_ge_1. cbn [andb]. rewrite IH. reflexivity.
  Qed.

  Lemma e_str_cat1 : forall a b, e_str c1 (ECat a b) = part1 2 a ++ part1 2 b.
  Proof.
    intros a b. cbn [e_str]. unfold part1, needs_group.
    rewrite !c_group_eq1. reflexivity.
  Qed.

  Lemma e_str_rep1 : forall x q, e_str c1 (ERep x q) = part1 3 x ++ quant_str q.
  Proof.
    intros x q. cbn [e_str]. unfold part1, needs_group, c_quant.
    rewrite !c_group_eq1, col_off1. rewrite Hv1, app_nil_r.
    destruct (Nat.ltb (precedence x) 3 && negb (is_single_codepoint c1 x)); reflexivity.
  Qed.

  (* ---------- the repaired text ---------- *)
  Fixpoint e_strR (e : expr) {struct e} : str :=
    match e with
    | EAlt os =>
        join [124%N]
          ((fix go (l : list expr) : list str :=
              match l with [] => [] | o :: l' => e_strR o :: go l' end) os)
    | ECC cs => cc_str c0 cs
    | ECat a b =>
        (if needs_group c1 2 a then grp (e_strR a) else e_strR a)
        ++ (if needs_group c1 2 b then grp (e_strR b) else e_strR b)
    | ELit cl => litR c1 c0 cl
    | ERep x q => (if needs_group c1 3 x then grp (e_strR x) else e_strR x) ++ quant_str q
    end.

  Definition partR (lvl : nat) (x : expr) : str :=
    if needs_group c1 lvl x then grp (e_strR x) else e_strR x.

  Lemma e_strR_alt : forall os, e_strR (EAlt os) = join [124%N] (map e_strR os).
  Proof.
    intros os. reflexivity.
  Qed.
  Lemma e_strR_cat : forall a b, e_strR (ECat a b) = partR 2 a ++ partR 2 b.
  Proof. reflexivity. Qed.
  Lemma e_strR_rep : forall x q, e_strR (ERep x q) = partR 3 x ++ quant_str q.
  Proof. reflexivity. Qed.

  (* ================================================================== *)
  (** (A) repair maps the c1 text to the repaired text *)
  Definition e_rep (e : expr) : Prop :=
    (forall s, Qs s -> repair (vf (e_str c1 e) ++ s) = vf (e_strR e) ++ repair s) /\
    (forall s, Qs s -> Qs (vf (e_str c1 e) ++ s)).

  Lemma Qs_grp : forall v s, Qs (grp v ++ s).
  Proof.
    intros v s. rewrite grp_app. unfold grp_open. destruct (f_cap c0); apply Qs_cons; discriminate.
  Qed.

  Lemma grp_rep : forall x, e_rep x ->
    (forall s, Qs s -> repair (vf (grp (e_str c1 x)) ++ s) = vf (grp (e_strR x)) ++ repair s) /\
    (forall s, Qs (vf (grp (e_str c1 x)) ++ s)).
  Proof.
    intros x [He Hq]. split.
    - intros s Hs. rewrite !vf_grp, !grp_app.
      rewrite (repair_raw (grp_open c0)) by apply no_bs_grp_open.
      rewrite He by (apply Qs_cons; discriminate).
      rewrite repair_raw1 by discriminate. reflexivity.
    - intros s. rewrite vf_grp. apply Qs_grp.
  Qed.

  Lemma part_rep : forall lvl x, e_rep x ->
    (forall s, Qs s -> repair (vf (part1 lvl x) ++ s) = vf (partR lvl x) ++ repair s) /\
    (forall s, Qs s -> Qs (vf (part1 lvl x) ++ s)).
  Proof.
    intros lvl x Hx. unfold part1, partR. destruct (needs_group c1 lvl x).
    - destruct (grp_rep x Hx) as [H1 H2]. split; [exact H1|intros s _; apply H2].
    - exact Hx.
  Qed.

  Lemma alt_list_rep : forall os, Forall e_rep os ->
    (forall s, Qs s -> repair (vf (join [124%N] (map (e_str c1) os)) ++ s)
                       = vf (join [124%N] (map e_strR os)) ++ repair s) /\
    (forall s, Qs s -> Qs (vf (join [124%N] (map (e_str c1) os)) ++ s)).
  Proof.
    induction os as [|o os IH]; intros HF.
    - split; intros s Hs; [reflexivity|exact Hs].
    - inversion HF as [|? ? [He Hq] HF']; subst. destruct os as [|o2 os].
      + cbn [map join]. split; assumption.
      + destruct (IH HF') as [IHe IHq].
        change (join [124%N] (map (e_str c1) (o :: o2 :: os)))
          with (e_str c1 o ++ [124%N] ++ join [124%N] (map (e_str c1) (o2 :: os))).
        change (join [124%N] (map e_strR (o :: o2 :: os)))
          with (e_strR o ++ [124%N] ++ join [124%N] (map e_strR (o2 :: os))).
        rewrite !vf_app. change (vf [124%N]) with [124%N]. split.
        * intros s Hs. rewrite <- !app_assoc.
          rewrite He by (cbn [app]; apply Qs_cons; discriminate).
          cbn [app]. rewrite repair_raw1 by discriminate. rewrite IHe by exact Hs. reflexivity.
        * intros s Hs. rewrite <- !app_assoc. apply Hq. cbn [app]. apply Qs_cons; discriminate.
  Qed.

  Lemma colour_eq : f_colour c1 = f_colour c0.
  Proof. destruct Hp0 as [H _]. rewrite Hcol1, H. reflexivity. Qed.

  Lemma e_rep_all : forall e, wf_print_gen gap e -> e_rep e.
  Proof.
    induction e as [os IH|cs|a b IHa IHb|cl|x q IHx] using expr_ind'; intros Hwf.
    - (* EAlt *)
      apply wf_print_alt in Hwf. destruct Hwf as [Hne Hwf].
      assert (HF : Forall e_rep os).
      { clear Hne. induction IH as [|o os Ho _ IHos]; [constructor|].
        inversion Hwf; subst. constructor; [apply Ho; assumption|apply IHos; assumption]. }
      unfold e_rep. rewrite e_str_alt1, e_strR_alt. apply alt_list_rep. exact HF.
    - (* ECC *)
      cbn [wf_print_gen] in Hwf. unfold e_rep. cbn [e_str e_strR].
      rewrite (cc_str_fl c1 c0 colour_eq). split.
      + intros s _. apply (cc_repair c0 gap cs s Hp0 Hwf).
      + intros s _. destruct (cc_hd c0 gap cs s Hp0 Hwf) as [t ->]. apply Qs_cons; discriminate.
    - (* ECat *)
      cbn [wf_print_gen] in Hwf. destruct Hwf as [Hwa Hwb].
      destruct (part_rep 2 a (IHa Hwa)) as [Ae Aq]. destruct (part_rep 2 b (IHb Hwb)) as [Be Bq].
      unfold e_rep. rewrite e_str_cat1, e_strR_cat. split.
      + intros s Hs. rewrite !vf_app, <- !app_assoc.
        rewrite Ae by (apply Bq; exact Hs). rewrite Be by exact Hs. reflexivity.
      + intros s Hs. rewrite vf_app, <- app_assoc. apply Aq. apply Bq. exact Hs.
    - (* ELit *)
      cbn [wf_print_gen] in Hwf. unfold e_rep. cbn [e_str e_strR].
      exact (cluster_rep c1 c0 Hcol1 Hv1 Hp0 Hv0 Hcap Hesc cl Hwf).
    - (* ERep *)
      cbn [wf_print_gen] in Hwf. destruct Hwf as [Hwx _].
      destruct (part_rep 3 x (IHx Hwx)) as [Xe Xq].
      assert (Hqq : forall s, Qs (vf (quant_str q) ++ s)).
      { intros s. destruct q; apply Qs_cons; discriminate. }
      unfold e_rep. rewrite e_str_rep1, e_strR_rep. split.
      + intros s Hs. rewrite !vf_app, <- !app_assoc. rewrite Xe by apply Hqq.
        destruct q; cbn [quant_str].
        * change (vf [42%N]) with [42%N]. cbn [app]. rewrite repair_raw1 by discriminate. reflexivity.
        * change (vf [63%N]) with [63%N]. cbn [app]. rewrite repair_raw1 by discriminate. reflexivity.
      + intros s Hs. rewrite vf_app, <- app_assoc. apply Xq. apply Hqq.
  Qed.

  (* ================================================================== *)
  (** (B) the parser reads the repaired text back as the atoms of c1 *)
  Variable is_ws : cp -> bool.
  Hypothesis Hws : ws_ok is_ws.
  Notation pseq := (pseq is_ws).
  Notation term := (term is_ws).

  Definition eR_hd (e : expr) : Prop :=
    forall rest, (may_empty e = true -> hd_ok rest) -> hd_ok (vf (e_strR e) ++ rest).
  Definition eR_altp (e : expr) : Prop :=
    forall ralts rest res, term (rev (e_alts c1 e) ++ ralts) rest res ->
      pseq false (vf (e_strR e) ++ rest) [] ralts res.
  Definition eR_catp (e : expr) : Prop :=
    not_alt e -> forall top rest racc ralts res, hd_ok rest ->
      pseq top rest (rev (e_atoms c1 e) ++ racc) ralts res ->
      pseq top (vf (e_strR e) ++ rest) racc ralts res.
  Definition eR_good (e : expr) : Prop := eR_hd e /\ eR_altp e /\ eR_catp e.

  Lemma altpR_of_catp : forall e, not_alt e -> eR_catp e -> eR_altp e.
  Proof.
    intros e Hna Hc ralts rest res Ht.
    apply Hc; [exact Hna|eapply term_hd_ok; exact Ht|].
    rewrite app_nil_r. apply term_step.
    rewrite (e_alts_nonalt c1 e Hna) in Ht. exact Ht.
  Qed.

  Lemma grpR_hd : forall x rest, eR_hd x -> hd_ok (vf (grp (e_strR x)) ++ rest).
  Proof.
    intros x rest Hh. rewrite (vf_grp c0). apply hd_ok_grp. apply hd_ok_nq. apply Hh.
    intros _. apply hd_ok_cons; discriminate.
  Qed.

  Lemma grpR_catp : forall x top rest racc ralts res, eR_hd x -> eR_altp x ->
    pseq top rest (RGroup (f_cap c1) (ralt (e_alts c1 x)) :: racc) ralts res ->
    pseq top (vf (grp (e_strR x)) ++ rest) racc ralts res.
  Proof.
    intros x top rest racc ralts res Hh Ha H. rewrite (vf_grp c0). rewrite Hcap in H.
    eapply (pseq_grp_gen is_ws c0); [| |exact H].
    - apply hd_ok_nq. apply Hh. intros _. apply hd_ok_cons; discriminate.
    - apply Ha. right. exists rest. rewrite app_nil_r. split; reflexivity.
  Qed.

  Lemma partR_hd : forall lvl x rest, eR_hd x ->
    (needs_group c1 lvl x = false -> may_empty x = true -> hd_ok rest) ->
    hd_ok (vf (partR lvl x) ++ rest).
  Proof.
    intros lvl x rest Hh Hr. unfold partR. destruct (needs_group c1 lvl x) eqn:E.
    - apply grpR_hd. exact Hh.
    - apply Hh. apply Hr. reflexivity.
  Qed.

  Lemma partR_catp : forall lvl x top rest racc ralts res, 2 <= lvl -> eR_good x ->
    hd_ok rest ->
    pseq top rest (rev (e_part c1 lvl x) ++ racc) ralts res ->
    pseq top (vf (partR lvl x) ++ rest) racc ralts res.
  Proof.
    intros lvl x top rest racc ralts res Hlvl (Hh & Ha & Hc) Hr H.
    unfold partR, e_part in *. destruct (needs_group c1 lvl x) eqn:E.
    - apply grpR_catp; assumption.
    - apply Hc; [|exact Hr|exact H].
      intros os ->. rewrite needs_group_alt in E by exact Hlvl. discriminate.
  Qed.

  Lemma litR_single : forall y, litR c1 c0 [G [[y]] [] 1%N 1%N] = esc_str c0 [y].
  Proof.
    intros y. unfold litR. cbn [flat_map]. rewrite app_nil_r, gpR_unfold.
    cbn [N.eqb Pos.eqb andb]. unfold chars0. cbn [map concat]. apply app_nil_r.
  Qed.

  Lemma alt_list_goodR : forall os, os <> [] -> Forall eR_good os ->
    (forall rest, hd_ok rest -> hd_ok (vf (join [124%N] (map e_strR os)) ++ rest)) /\
    (forall ralts rest res, term (rev (flat_map (e_alts c1) os) ++ ralts) rest res ->
       pseq false (vf (join [124%N] (map e_strR os)) ++ rest) [] ralts res).
  Proof.
    induction os as [|o os IH]; intros Hne HF; [congruence|].
    inversion HF as [|? ? (Hh & Ha & _) HF']; subst.
    destruct os as [|o2 os].
    - cbn [map join flat_map]. split.
      + intros rest Hr. apply Hh. intros _. exact Hr.
      + intros ralts rest res Ht. rewrite app_nil_r in Ht. apply Ha. exact Ht.
    - destruct (IH ltac:(discriminate) HF') as [IHh IHp].
      change (join [124%N] (map e_strR (o :: o2 :: os)))
        with (e_strR o ++ [124%N] ++ join [124%N] (map e_strR (o2 :: os))).
      rewrite !vf_app. change (vf [124%N]) with [124%N]. split.
      + intros rest _. rewrite <- !app_assoc. apply Hh. intros _. apply hd_ok_cons; discriminate.
      + intros ralts rest res Ht. rewrite <- !app_assoc. apply Ha. left.
        eexists. split; [reflexivity|]. apply IHp.
        cbn [flat_map] in Ht. rewrite rev_app_distr, <- app_assoc in Ht. exact Ht.
  Qed.

  Lemma eR_good_all : forall e, wf_print_gen gap e -> eR_good e.
  Proof.
    induction e as [os IH|cs|a b IHa IHb|cl|x q IHx] using expr_ind'; intros Hwf.
    - (* EAlt *)
      apply wf_print_alt in Hwf. destruct Hwf as [Hne Hwf].
      assert (HF : Forall eR_good os).
      { clear Hne. induction IH as [|o os Ho _ IHos]; [constructor|].
        inversion Hwf; subst. constructor; [apply Ho; assumption|apply IHos; assumption]. }
      destruct (alt_list_goodR os Hne HF) as [Lh Lp].
      repeat split.
      + intros rest Hr. rewrite e_strR_alt. apply Lh. apply Hr. reflexivity.
      + intros ralts rest res Ht. rewrite e_strR_alt. apply Lp. rewrite <- e_alts_alt. exact Ht.
      + intros Hna. exfalso. eapply Hna. reflexivity.
    - (* ECC *)
      cbn [wf_print_gen] in Hwf. destruct (cc_good is_ws c0 Hp0 gap cs Hwf) as [Ch Cp].
      assert (Hc : eR_catp (ECC cs)).
      { intros _ top rest racc ralts res _ H. apply Cp. exact H. }
      repeat split; [|apply altpR_of_catp; [intros os; discriminate|exact Hc]|exact Hc].
      intros rest _. apply Ch.
    - (* ECat *)
      cbn [wf_print_gen] in Hwf. destruct Hwf as [Hwa Hwb].
      specialize (IHa Hwa). specialize (IHb Hwb).
      pose proof IHa as (Hha & _ & _). pose proof IHb as (Hhb & _ & _).
      assert (Hh : eR_hd (ECat a b)).
      { intros rest Hr. rewrite e_strR_cat, vf_app, <- app_assoc.
        apply partR_hd; [exact Hha|]. intros _ Ea.
        apply partR_hd; [exact Hhb|]. intros _ Eb.
        apply Hr. cbn [may_empty]. rewrite Ea, Eb. reflexivity. }
      assert (Hc : eR_catp (ECat a b)).
      { intros _ top rest racc ralts res Hr H.
        rewrite e_strR_cat, vf_app, <- app_assoc.
        rewrite e_atoms_cat, rev_app_distr, <- app_assoc in H.
        apply partR_catp; [lia|exact IHa| |].
        - apply partR_hd; [exact Hhb|]. intros _ _. exact Hr.
        - apply partR_catp; [lia|exact IHb|exact Hr|exact H]. }
      repeat split; [exact Hh|apply altpR_of_catp; [intros os; discriminate|exact Hc]|exact Hc].
    - (* ELit *)
      cbn [wf_print_gen] in Hwf.
      destruct (cluster_goodR c1 c0 Hp0 Hcap Hesc is_ws Hws cl Hwf) as [Lh Lp].
      assert (Hc : eR_catp (ELit cl)).
      { intros _ top rest racc ralts res Hr H. apply Lp; [apply hd_ok_nq; exact Hr|exact H]. }
      repeat split; [|apply altpR_of_catp; [intros os; discriminate|exact Hc]|exact Hc].
      intros rest Hr. apply Lh. intros ->. apply Hr. reflexivity.
    - (* ERep *)
      cbn [wf_print_gen] in Hwf. destruct Hwf as [Hwx Hq].
      specialize (IHx Hwx). pose proof IHx as (Hhx & Hax & Hcx).
      assert (Hun : needs_group c1 3 x = false ->
                (forall rest, hd_ok (vf (e_strR x) ++ rest)) /\
                exists y, e_atoms c1 x = [y] /\
                  forall top rest racc ralts res,
                    (q = QStar \/ match x with ERep _ _ => False | _ => True end) ->
                    pseq top (vf (quant_str q) ++ rest) (y :: racc) ralts res ->
                    pseq top (vf (e_strR x) ++ vf (quant_str q) ++ rest) racc ralts res).
      { intros Eg. destruct x as [os|cs|a b|cl|x' q'].
        - rewrite needs_group_alt in Eg by lia. discriminate.
        - split; [intros rest; apply Hhx; discriminate|].
          eexists. split; [reflexivity|]. intros top rest racc ralts res _ H.
          cbn [wf_print_gen] in Hwx.
          apply (cc_good is_ws c0 Hp0 gap cs Hwx). exact H.
        - discriminate Eg.
        - unfold needs_group in Eg. cbn [precedence] in Eg.
          change (Nat.ltb 2 3) with true in Eg. cbn [andb] in Eg. apply negb_false_iff in Eg.
          cbn [wf_print_gen] in Hwx.
          destruct (single_lit_shape c1 cl Hwx Eg) as (y & -> & Hy).
          split.
          + intros rest. apply Hhx. discriminate.
          + exists (RLit y). split; [reflexivity|].
            intros top rest racc ralts res _ H.
            change (e_strR (ELit [G [[y]] [] 1%N 1%N])) with (litR c1 c0 [G [[y]] [] 1%N 1%N]).
            rewrite litR_single. apply (pseq_tstr is_ws c0 Hp0); [exact Hy|exact H].
        - split; [intros rest; apply Hhx; discriminate|].
          eexists. split; [reflexivity|]. intros top rest racc ralts res Hcase H.
          assert (Eq : q = QStar) by (destruct Hcase as [?|[]]; assumption). subst q.
          apply Hcx; [intros os; discriminate|apply hd_ok_cons; discriminate|exact H]. }
      assert (Hcase : q = QStar \/ match x with ERep _ _ => False | _ => True end).
      { destruct q; [left; reflexivity|right; apply Hq; reflexivity]. }
      assert (Hh : eR_hd (ERep x q)).
      { intros rest _. rewrite e_strR_rep, vf_app, <- app_assoc. unfold partR.
        destruct (needs_group c1 3 x) eqn:Eg; [apply grpR_hd; exact Hhx|].
        apply (proj1 (Hun eq_refl)). }
      assert (Hc : eR_catp (ERep x q)).
      { intros _ top rest racc ralts res Hr H.
        rewrite e_strR_rep, vf_app, <- app_assoc. rewrite e_atoms_rep in H. cbn [rev app] in H.
        unfold partR. destruct (needs_group c1 3 x) eqn:Eg.
        - apply grpR_catp; [exact Hhx|exact Hax|].
          apply pseq_quant; [apply hd_ok_nq; exact Hr|exact H].
        - destruct (Hun eq_refl) as (_ & y & Ey & Hpy). rewrite Ey in H. cbn [hd] in H.
          apply Hpy; [exact Hcase|].
          apply pseq_quant; [apply hd_ok_nq; exact Hr|exact H]. }
      repeat split; [exact Hh|apply altpR_of_catp; [intros os; discriminate|exact Hc]|exact Hc].
  Qed.

  (* ================================================================== *)
  (** the whole pattern *)
  Variable isd : cp -> bool.

  Definition flag1 : str := if f_ci c1 then txt_IgnoreCaseFlag else [].
  Definition caret1 : str := if f_no_start c1 then [] else [94%N].
  Definition dollar1 : str := if f_no_end c1 then [] else [36%N].
  Definition body1 (e : expr) : str :=
    match e with EAlt _ => grp (e_str c1 e) | _ => e_str c1 e end.
  Definition bodyR (e : expr) : str :=
    match e with EAlt _ => grp (e_strR e) | _ => e_strR e end.

  (* the repaired pattern *)
  Definition regexpR (e : expr) : str := flag1 ++ caret1 ++ vf (bodyR e) ++ dollar1.

  Lemma regexp_str1 : forall e,
    regexp_str isd c1 e = flag1 ++ caret1 ++ vf (body1 e) ++ dollar1.
  Proof.
    intros e. rewrite (regexp_str_plain isd c1 e Hv1 Hcol1).
    unfold PrintShape.flag_str, PrintShape.caret_str, PrintShape.dollar_str, PrintShape.body_str.
    unfold flag1, caret1, dollar1, txt_IgnoreCaseFlag.
    assert (Eb : match e with EAlt _ => c_group c1 (e_str c1 e) false | _ => e_str c1 e end = body1 e).
    { unfold body1. destruct e; try reflexivity. apply c_group_eq1. }
    rewrite Eb. reflexivity.
  Qed.

  Lemma Qs_dollar : Qs dollar1.
  Proof. unfold dollar1. destruct (f_no_end c1); [apply Qs_nil|apply Qs_cons; discriminate]. Qed.

  Lemma no_bs_flag : no_bs flag1.
  Proof.
    unfold flag1, txt_IgnoreCaseFlag. destruct (f_ci c1); repeat (constructor; [discriminate|]); constructor.
  Qed.
  Lemma no_bs_caret : no_bs caret1.
  Proof. unfold caret1. destruct (f_no_start c1); repeat (constructor; [discriminate|]); constructor. Qed.
  Lemma no_bs_dollar : no_bs dollar1.
  Proof. unfold dollar1. destruct (f_no_end c1); repeat (constructor; [discriminate|]); constructor. Qed.

  Lemma repair_dollar : repair dollar1 = dollar1.
  Proof.
    pose proof (repair_raw dollar1 [] no_bs_dollar) as H. rewrite repair_nil, !app_nil_r in H. exact H.
  Qed.

  (* (A) *)
  Theorem repair_print : forall e, wf_print_gen gap e ->
    repair (regexp_str isd c1 e) = regexpR e.
  Proof.
    intros e Hwf. rewrite regexp_str1. unfold regexpR.
    rewrite (repair_raw flag1) by apply no_bs_flag.
    rewrite (repair_raw caret1) by apply no_bs_caret.
    f_equal. f_equal.
    destruct (e_rep_all e Hwf) as [He Hq].
    assert (Hb : repair (vf (body1 e) ++ dollar1) = vf (bodyR e) ++ repair dollar1).
    { unfold body1, bodyR. destruct e; try (apply He; apply Qs_dollar).
      apply (grp_rep _ (conj He Hq)). apply Qs_dollar. }
    rewrite Hb, repair_dollar. reflexivity.
  Qed.

  (* (B) *)
  Lemma hd_ok_dollar1 : hd_ok dollar1.
  Proof. unfold dollar1. destruct (f_no_end c1); [exact I|apply hd_ok_cons; discriminate]. Qed.

  Lemma hd_ok_bodyR : forall e, wf_print_gen gap e -> hd_ok (vf (bodyR e) ++ dollar1).
  Proof.
    intros e Hwf. destruct (eR_good_all e Hwf) as (Hh & _ & _).
    unfold bodyR. destruct e; try (apply Hh; intros _; apply hd_ok_dollar1).
    apply grpR_hd. exact Hh.
  Qed.

  Lemma pseq_topR : forall e, wf_print_gen gap e ->
    pseq true (caret1 ++ vf (bodyR e) ++ dollar1) [] [] (top_rast c1 e, []).
  Proof.
    intros e Hwf. destruct (eR_good_all e Hwf) as (Hh & Ha & Hc).
    set (S0 := if f_no_start c1 then [] else [RStart]).
    assert (Hend : pseq true dollar1 (rev (e_atoms c1 e) ++ rev S0) [] (top_rast c1 e, [])).
    { assert (Eres : top_rast c1 e
                     = alt_of [cat_of (rev (if f_no_end c1 then [] else [REnd])
                                       ++ rev (e_atoms c1 e) ++ rev S0)]).
      { unfold top_rast, rcat, top_atoms. fold S0. rewrite !rev_app_distr, <- app_assoc. reflexivity. }
      rewrite Eres. unfold dollar1. destruct (f_no_end c1).
      - cbn [rev app]. apply pseq_end.
      - cbn [rev app]. apply pseq_dollar. apply pseq_end. }
    assert (Hbody : pseq true (vf (bodyR e) ++ dollar1) (rev S0) [] (top_rast c1 e, [])).
    { unfold bodyR. destruct e as [os|cs|a b|cl|x q].
      - apply grpR_catp; [exact Hh|exact Ha|].
        rewrite e_atoms_alt, <- e_alts_alt in Hend. cbn [rev app] in Hend. exact Hend.
      - apply Hc; [intros os; discriminate|apply hd_ok_dollar1|exact Hend].
      - apply Hc; [intros os; discriminate|apply hd_ok_dollar1|exact Hend].
      - apply Hc; [intros os; discriminate|apply hd_ok_dollar1|exact Hend].
      - apply Hc; [intros os; discriminate|apply hd_ok_dollar1|exact Hend]. }
    unfold caret1, S0 in *. destruct (f_no_start c1); cbn [rev app] in Hbody |- *.
    - exact Hbody.
    - apply pseq_caret. exact Hbody.
  Qed.

  Theorem parse_regexpR : forall e, wf_print_gen gap e ->
    parse is_ws (regexpR e) = Some (mkF (f_ci c1) false, top_rast c1 e).
  Proof.
    intros e Hwf. unfold regexpR.
    pose proof (pseq_topR e Hwf) as Hpq.
    set (r := caret1 ++ vf (bodyR e) ++ dollar1) in *.
    unfold parse, flag1. destruct (f_ci c1).
    - unfold txt_IgnoreCaseFlag. cbn [app]. rewrite parse_flags_i. cbn [fl_x].
      rewrite (Hpq (S (S (length r)))) by lia. reflexivity.
    - cbn [app]. rewrite parse_flags_default.
      + cbn [fl_x]. rewrite (Hpq (S (S (length r)))) by lia. reflexivity.
      + unfold r, caret1. destruct (f_no_start c1); cbn [app].
        * apply hd_ok_bodyR. exact Hwf.
        * apply hd_ok_cons; discriminate.
  Qed.

  (* the parser accepts the re-paired pattern and builds the AST top_rast c1 e *)
  Theorem repair_parse_ast : forall e, wf_print_gen gap e ->
    parse is_ws (repair (regexp_str isd c1 e)) = Some (mkF (f_ci c1) false, top_rast c1 e).
  Proof.
    intros e Hwf. rewrite repair_print by exact Hwf. apply parse_regexpR. exact Hwf.
  Qed.
End SurExpr.
