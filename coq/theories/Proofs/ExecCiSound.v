(* The concrete boolean denotations of Engine/ExecCi.v against the Prop-level denotations:

     lit_ci_spec      lit_ci c x = true  <->  fold_eq c x
     range_ci_spec    range_ci lo hi x = true  <->  exists c, lo <= c <= hi /\ fold_eq c x
     cls_engine_spec  cls_engine_b l x = true  <->  cls_engine l x      (by definition)

   hence the executable matcher instances are correct for  m fold_eq cls_engine  ((?i) patterns)
   and  m eq cls_engine  (case-sensitive patterns).

   The Perl classes mean the same with and without (?i): the engine's tables are closed under
   simple case folding (FoldTables.engine_*_fold_invariant for \d \w \s; for the negated classes
   through "engine_D is the complement of engine_d on code points <= 0x10FFFF", a sweep over
   the critical points of the tables as in Props/C09.v, plus "fold classes of scalar values
   consist of scalar values").  This justifies that Sem.m gives RPerl the SAME denotation
   cls_den whatever lit_den is.
   No existing file is modified. *)
From Grex Require Import Base.Str Base.Ranges Engine.Syntax Engine.Sem Engine.Exec Engine.ExecCi.
From Grex Require Import Proofs.FoldTables Proofs.ExecSound.
From GrexGen Require Import OracleTables.
Local Open Scope N_scope.

(* ---------------------------------------------------------------------------------------- *)
(** * Literals and ranges under (?i) *)

Theorem lit_ci_spec : forall c x, lit_ci c x = true <-> fold_eq c x.
Proof. intros c x. unfold lit_ci, fold_eq. apply mem_cp_In. Qed.

Theorem range_ci_spec : forall lo hi x,
  range_ci lo hi x = true <-> exists c, lo <= c /\ c <= hi /\ fold_eq c x.
Proof.
  intros lo hi x. unfold range_ci. rewrite existsb_exists. split.
  - intros (y & Hin & Hy). apply andb_true_iff in Hy. destruct Hy as [H1 H2].
    apply N.leb_le in H1. apply N.leb_le in H2.
    exists y. split; [exact H1|]. split; [exact H2|]. apply fold_eq_sym. exact Hin.
  - intros (c & H1 & H2 & Hc). exists c. split.
    + apply fold_eq_sym. exact Hc.
    + apply andb_true_iff. split; apply N.leb_le; assumption.
Qed.

(* the case-sensitive denotations are the restriction of the (?i) ones to trivial classes;
   in general (?i) accepts at least what the case-sensitive pattern accepts *)
Lemma lit_cs_ci : forall c x, lit_cs c x = true -> lit_ci c x = true.
Proof.
  intros c x H. apply lit_cs_spec in H. subst x. apply lit_ci_spec. apply fold_eq_refl.
Qed.

Lemma range_cs_ci : forall lo hi x, range_cs lo hi x = true -> range_ci lo hi x = true.
Proof.
  intros lo hi x H. apply range_cs_spec in H. destruct H as (c & H1 & H2 & ->).
  apply range_ci_spec. exists x. split; [exact H1|]. split; [exact H2|]. apply fold_eq_refl.
Qed.

(* ---------------------------------------------------------------------------------------- *)
(** * The Perl classes *)

Theorem cls_engine_spec : forall l x, cls_engine_b l x = true <-> cls_engine l x.
Proof. intros l x. unfold cls_engine. reflexivity. Qed.

Lemma cls_engine_b_d : forall x, cls_engine_b 100 x = mem engine_d x. Proof. reflexivity. Qed.
Lemma cls_engine_b_D : forall x, cls_engine_b 68 x = mem engine_D x. Proof. reflexivity. Qed.
Lemma cls_engine_b_w : forall x, cls_engine_b 119 x = mem engine_w x. Proof. reflexivity. Qed.
Lemma cls_engine_b_W : forall x, cls_engine_b 87 x = mem engine_W x. Proof. reflexivity. Qed.
Lemma cls_engine_b_s : forall x, cls_engine_b 115 x = mem engine_s x. Proof. reflexivity. Qed.
Lemma cls_engine_b_S : forall x, cls_engine_b 83 x = mem engine_S x. Proof. reflexivity. Qed.

Lemma cls_engine_b_cases : forall l,
  l = 100 \/ l = 68 \/ l = 119 \/ l = 87 \/ l = 115 \/ l = 83 \/ forall x, cls_engine_b l x = false.
Proof.
  intros l. unfold cls_engine_b.
  destruct (N.eqb_spec l 100) as [E|_]; [auto|].
  destruct (N.eqb_spec l 68) as [E|_]; [auto|].
  destruct (N.eqb_spec l 119) as [E|_]; [auto 6|].
  destruct (N.eqb_spec l 87) as [E|_]; [auto 6|].
  destruct (N.eqb_spec l 115) as [E|_]; [auto 7|].
  destruct (N.eqb_spec l 83) as [E|_]; [auto 8|].
  do 6 right. intros x. reflexivity.
Qed.

(* ---------- the negated classes are the complements, on code points <= 0x10FFFF ---------- *)
Definition cp_ranges : ranges := [(0, 1114111)].

Lemma mem_cp_ranges : forall c, c <= 1114111 -> mem cp_ranges c = true.
Proof.
  intros c H. unfold mem, cp_ranges, in_range. cbn [existsb fst snd].
  rewrite orb_false_r. apply andb_true_iff. split; apply N.leb_le; lia.
Qed.

Lemma is_scalar_le : forall c, is_scalar c = true -> c <= 1114111.
Proof.
  intros c H. unfold is_scalar, mem, scalar_ranges, in_range in H. cbn [existsb fst snd] in H.
  rewrite orb_false_r in H. apply orb_true_iff in H.
  destruct H as [H|H]; apply andb_true_iff in H; destruct H as [_ H]; apply N.leb_le in H; lia.
Qed.

Lemma complement_of_sweep : forall neg pos : ranges,
  sweep (BMem neg) (BAnd (BNot (BMem pos)) (BMem cp_ranges)) = true ->
  forall c, c <= 1114111 -> mem neg c = negb (mem pos c).
Proof.
  intros neg pos Hs c Hc.
  pose proof (sweep_sound _ _ Hs c) as H. cbn [beval] in H.
  rewrite (mem_cp_ranges c Hc), andb_true_r in H. exact H.
Qed.

Lemma sweep_D : sweep (BMem engine_D) (BAnd (BNot (BMem engine_d)) (BMem cp_ranges)) = true.
Proof. vm_cast_no_check (@eq_refl bool true). Qed.
Lemma sweep_W : sweep (BMem engine_W) (BAnd (BNot (BMem engine_w)) (BMem cp_ranges)) = true.
Proof. vm_cast_no_check (@eq_refl bool true). Qed.
Lemma sweep_S : sweep (BMem engine_S) (BAnd (BNot (BMem engine_s)) (BMem cp_ranges)) = true.
Proof. vm_cast_no_check (@eq_refl bool true). Qed.

Theorem negated_digit_le : forall c, c <= 1114111 -> mem engine_D c = negb (mem engine_d c).
Proof. exact (complement_of_sweep engine_D engine_d sweep_D). Qed.
Theorem negated_word_le : forall c, c <= 1114111 -> mem engine_W c = negb (mem engine_w c).
Proof. exact (complement_of_sweep engine_W engine_w sweep_W). Qed.
Theorem negated_space_le : forall c, c <= 1114111 -> mem engine_S c = negb (mem engine_s c).
Proof. exact (complement_of_sweep engine_S engine_s sweep_S). Qed.

Theorem negated_digit : forall c, is_scalar c = true -> mem engine_D c = negb (mem engine_d c).
Proof. intros c H. apply negated_digit_le. apply is_scalar_le. exact H. Qed.
Theorem negated_word : forall c, is_scalar c = true -> mem engine_W c = negb (mem engine_w c).
Proof. intros c H. apply negated_word_le. apply is_scalar_le. exact H. Qed.
Theorem negated_space : forall c, is_scalar c = true -> mem engine_S c = negb (mem engine_s c).
Proof. intros c H. apply negated_space_le. apply is_scalar_le. exact H. Qed.

(* the complement facts are FALSE beyond 0x10FFFF: the tables stop there *)
Example negated_digit_beyond : mem engine_D 1114112 = false /\ mem engine_d 1114112 = false.
Proof. split; vm_compute; reflexivity. Qed.

(* ---------- fold classes of scalar values consist of scalar values ---------- *)
Lemma fold_classes_scalar_b : forallb (fun e => forallb is_scalar (snd e)) fold_classes = true.
Proof. vm_compute. reflexivity. Qed.

Theorem fold_class_scalar : forall x y, is_scalar x = true -> In y (fold_class x) -> is_scalar y = true.
Proof.
  intros x y Hx Hy. destruct (fold_class_cases x) as [[E _]|[ms [E Hin]]]; rewrite E in Hy.
  - destruct Hy as [<-|[]]. exact Hx.
  - pose proof (forallb_In _ _ _ fold_classes_scalar_b Hin) as H. cbv beta in H. cbn [snd] in H.
    exact (forallb_In _ _ _ H Hy).
Qed.

(* ---------- (?i) does not change the Perl classes ---------- *)
(* \d \w \s: for every code point *)
Theorem cls_engine_ci_closed_pos : forall l x y,
  l = 100 \/ l = 119 \/ l = 115 ->
  cls_engine_b l x = true -> In y (fold_class x) -> cls_engine_b l y = true.
Proof.
  intros l x y [-> | [-> | ->]] Hx Hy.
  - rewrite cls_engine_b_d in *. rewrite (engine_d_fold_invariant x y Hy). exact Hx.
  - rewrite cls_engine_b_w in *. rewrite (engine_w_fold_invariant x y Hy). exact Hx.
  - rewrite cls_engine_b_s in *. rewrite (engine_s_fold_invariant x y Hy). exact Hx.
Qed.

(* \D \W \S: on scalar values, through the complement facts *)
Theorem cls_engine_ci_closed_neg : forall l x y,
  l = 68 \/ l = 87 \/ l = 83 -> is_scalar x = true ->
  cls_engine_b l x = true -> In y (fold_class x) -> cls_engine_b l y = true.
Proof.
  intros l x y Hl Hsx Hx Hy. pose proof (fold_class_scalar x y Hsx Hy) as Hsy.
  destruct Hl as [-> | [-> | ->]].
  - rewrite cls_engine_b_D in *. rewrite (negated_digit x Hsx) in Hx.
    rewrite (negated_digit y Hsy), (engine_d_fold_invariant x y Hy). exact Hx.
  - rewrite cls_engine_b_W in *. rewrite (negated_word x Hsx) in Hx.
    rewrite (negated_word y Hsy), (engine_w_fold_invariant x y Hy). exact Hx.
  - rewrite cls_engine_b_S in *. rewrite (negated_space x Hsx) in Hx.
    rewrite (negated_space y Hsy), (engine_s_fold_invariant x y Hy). exact Hx.
Qed.

(* all letters at once, on scalar values *)
Theorem cls_engine_ci_closed : forall l x y,
  is_scalar x = true ->
  cls_engine_b l x = true -> In y (fold_class x) -> cls_engine_b l y = true.
Proof.
  intros l x y Hsx Hx Hy.
  destruct (cls_engine_b_cases l) as [E|[E|[E|[E|[E|[E|E]]]]]].
  - apply (cls_engine_ci_closed_pos l x y); auto.
  - apply (cls_engine_ci_closed_neg l x y); auto.
  - apply (cls_engine_ci_closed_pos l x y); auto.
  - apply (cls_engine_ci_closed_neg l x y); auto.
  - apply (cls_engine_ci_closed_pos l x y); auto.
  - apply (cls_engine_ci_closed_neg l x y); auto.
  - rewrite E in Hx. discriminate.
Qed.

(* membership is invariant on a fold class *)
Theorem cls_engine_ci_invariant : forall l x y,
  is_scalar x = true -> In y (fold_class x) -> cls_engine_b l y = cls_engine_b l x.
Proof.
  intros l x y Hsx Hy. destruct (cls_engine_b l x) eqn:Ex.
  - exact (cls_engine_ci_closed l x y Hsx Ex Hy).
  - destruct (cls_engine_b l y) eqn:Ey; [|reflexivity].
    rewrite <- Ex. symmetry.
    apply (cls_engine_ci_closed l y x (fold_class_scalar x y Hsx Hy) Ey).
    apply fold_eq_sym. exact Hy.
Qed.

(* what the engine computes for a Perl class under (?i) is the closure of the class under simple
   case folding; on scalar values it is the class itself: \d etc. mean the same with and
   without (?i) *)
Theorem cls_engine_ci_same : forall l x, is_scalar x = true ->
  ((exists y, cls_engine l y /\ fold_eq y x) <-> cls_engine l x).
Proof.
  intros l x Hsx. unfold cls_engine. split.
  - intros (y & Hy & Hyx).
    rewrite <- (cls_engine_ci_invariant l x y Hsx (fold_eq_sym y x Hyx)). exact Hy.
  - intros Hx. exists x. split; [exact Hx|apply fold_eq_refl].
Qed.

(* the scalar hypothesis is not needed: the negated tables are closed under folding as well
   (direct computation on the tables, independent of the complement facts) *)
Lemma engine_D_closed_b : closed_under_fold engine_D = true.
Proof. vm_cast_no_check (@eq_refl bool true). Qed.
Lemma engine_W_closed_b : closed_under_fold engine_W = true.
Proof. vm_cast_no_check (@eq_refl bool true). Qed.
Lemma engine_S_closed_b : closed_under_fold engine_S = true.
Proof. vm_cast_no_check (@eq_refl bool true). Qed.

Theorem cls_engine_fold_invariant : forall l x y,
  In y (fold_class x) -> cls_engine_b l y = cls_engine_b l x.
Proof.
  intros l x y Hy.
  destruct (cls_engine_b_cases l) as [-> | [-> | [-> | [-> | [-> | [-> | E]]]]]].
  - rewrite !cls_engine_b_d. exact (engine_d_fold_invariant x y Hy).
  - rewrite !cls_engine_b_D. exact (closed_gen_eq engine_D engine_D_closed_b x y Hy).
  - rewrite !cls_engine_b_w. exact (engine_w_fold_invariant x y Hy).
  - rewrite !cls_engine_b_W. exact (closed_gen_eq engine_W engine_W_closed_b x y Hy).
  - rewrite !cls_engine_b_s. exact (engine_s_fold_invariant x y Hy).
  - rewrite !cls_engine_b_S. exact (closed_gen_eq engine_S engine_S_closed_b x y Hy).
  - rewrite !E. reflexivity.
Qed.

Theorem cls_engine_ci_same_all : forall l x,
  (exists y, cls_engine l y /\ fold_eq y x) <-> cls_engine l x.
Proof.
  intros l x. unfold cls_engine. split.
  - intros (y & Hy & Hyx).
    rewrite <- (cls_engine_fold_invariant l x y (fold_eq_sym y x Hyx)). exact Hy.
  - intros Hx. exists x. split; [exact Hx|apply fold_eq_refl].
Qed.

(* ---------------------------------------------------------------------------------------- *)
(** * The instances of the executable matcher *)

(* (?i) patterns *)
Theorem ends_ci_spec : forall h r i j, In j (ends_ci h r i) <-> m fold_eq cls_engine h r i j.
Proof.
  exact (ends_spec fold_eq cls_engine lit_ci cls_engine_b range_ci
           lit_ci_spec cls_engine_spec range_ci_spec).
Qed.

Theorem ends_ci_NoDup : forall h r i, NoDup (ends_ci h r i).
Proof. exact (ends_NoDup lit_ci cls_engine_b range_ci). Qed.

Theorem matches_whole_ci_spec : forall h r,
  matches_whole_ci h r = true <-> L_rast fold_eq cls_engine r h.
Proof.
  exact (matches_whole_spec fold_eq cls_engine lit_ci cls_engine_b range_ci
           lit_ci_spec cls_engine_spec range_ci_spec).
Qed.

Theorem matches_at_ci_spec : forall h r i j,
  matches_at_ci h r i j = true <-> m fold_eq cls_engine h r i j.
Proof.
  exact (matches_at_spec fold_eq cls_engine lit_ci cls_engine_b range_ci
           lit_ci_spec cls_engine_spec range_ci_spec).
Qed.

Theorem find_leftmost_ci_spec : forall h r i js,
  find_leftmost_ci h r = Some (i, js) <->
  js = ends_ci h r i /\ (exists j, m fold_eq cls_engine h r i j) /\
  (forall i' j, (i' < i)%nat -> ~ m fold_eq cls_engine h r i' j).
Proof.
  exact (find_leftmost_spec fold_eq cls_engine lit_ci cls_engine_b range_ci
           lit_ci_spec cls_engine_spec range_ci_spec).
Qed.

Theorem find_leftmost_ci_none : forall h r,
  find_leftmost_ci h r = None <-> forall i j, ~ m fold_eq cls_engine h r i j.
Proof.
  exact (find_leftmost_none fold_eq cls_engine lit_ci cls_engine_b range_ci
           lit_ci_spec cls_engine_spec range_ci_spec).
Qed.

Theorem find_leftmost_ci_ends : forall h r i js,
  find_leftmost_ci h r = Some (i, js) ->
  (i <= length h)%nat /\ js <> [] /\ NoDup js /\ forall j, In j js <-> m fold_eq cls_engine h r i j.
Proof.
  exact (find_leftmost_ends fold_eq cls_engine lit_ci cls_engine_b range_ci
           lit_ci_spec cls_engine_spec range_ci_spec).
Qed.

(* case-sensitive patterns *)
Theorem ends_cs_engine_spec : forall h r i j,
  In j (ends_cs_engine h r i) <-> m eq cls_engine h r i j.
Proof. exact (ends_cs_spec cls_engine cls_engine_b cls_engine_spec). Qed.

Theorem matches_whole_cs_engine_spec : forall h r,
  matches_whole_cs_engine h r = true <-> L_rast eq cls_engine r h.
Proof. exact (matches_whole_cs_spec cls_engine cls_engine_b cls_engine_spec). Qed.

Theorem matches_at_cs_engine_spec : forall h r i j,
  matches_at_cs_engine h r i j = true <-> m eq cls_engine h r i j.
Proof.
  exact (matches_at_spec eq cls_engine lit_cs cls_engine_b range_cs
           lit_cs_spec cls_engine_spec range_cs_spec).
Qed.

Theorem find_leftmost_cs_engine_spec : forall h r i js,
  find_leftmost_cs_engine h r = Some (i, js) <->
  js = ends_cs_engine h r i /\ (exists j, m eq cls_engine h r i j) /\
  (forall i' j, (i' < i)%nat -> ~ m eq cls_engine h r i' j).
Proof. exact (find_leftmost_cs_spec cls_engine cls_engine_b cls_engine_spec). Qed.

Theorem find_leftmost_cs_engine_none : forall h r,
  find_leftmost_cs_engine h r = None <-> forall i j, ~ m eq cls_engine h r i j.
Proof. exact (find_leftmost_cs_none cls_engine cls_engine_b cls_engine_spec). Qed.

Theorem find_leftmost_cs_engine_ends : forall h r i js,
  find_leftmost_cs_engine h r = Some (i, js) ->
  (i <= length h)%nat /\ js <> [] /\ NoDup js /\ forall j, In j js <-> m eq cls_engine h r i j.
Proof.
  exact (find_leftmost_ends eq cls_engine lit_cs cls_engine_b range_cs
           lit_cs_spec cls_engine_spec range_cs_spec).
Qed.

(* by the flag of the parsed pattern *)
Definition lit_engine (ci : bool) : cp -> cp -> Prop := if ci then fold_eq else eq.

Theorem matches_whole_engine_spec : forall ci h r,
  matches_whole_engine ci h r = true <-> L_rast (lit_engine ci) cls_engine r h.
Proof.
  intros [|] h r; [apply matches_whole_ci_spec|apply matches_whole_cs_engine_spec].
Qed.

Theorem find_leftmost_engine_ends : forall ci h r i js,
  find_leftmost_engine ci h r = Some (i, js) ->
  (i <= length h)%nat /\ js <> [] /\ NoDup js /\
  forall j, In j js <-> m (lit_engine ci) cls_engine h r i j.
Proof.
  intros [|] h r i js; [apply find_leftmost_ci_ends|apply find_leftmost_cs_engine_ends].
Qed.

Theorem find_leftmost_engine_none : forall ci h r,
  find_leftmost_engine ci h r = None <-> forall i j, ~ m (lit_engine ci) cls_engine h r i j.
Proof.
  intros [|] h r; [apply find_leftmost_ci_none|apply find_leftmost_cs_engine_none].
Qed.

(* ---------------------------------------------------------------------------------------- *)
(** * Sanity, by computation *)

Module Sanity.
  (* (?i)k accepts k, K and the Kelvin sign U+212A; the case-sensitive k only k *)
  Example kelvin_ci : map (fun x => matches_whole_ci [x] (RLit 107)) [107; 75; 8490; 108]
                      = [true; true; true; false].
  Proof. vm_compute. reflexivity. Qed.
  Example kelvin_cs : map (fun x => matches_whole_cs_engine [x] (RLit 107)) [107; 75; 8490; 108]
                      = [true; false; false; false].
  Proof. vm_compute. reflexivity. Qed.
  (* (?i)[A-Z] accepts a, and U+017F (long s, folds to S) *)
  Example range_ci_ex : map (fun x => matches_whole_ci [x] (RBracket [(65, 90)])) [97; 383; 48]
                        = [true; true; false].
  Proof. vm_compute. reflexivity. Qed.
  (* \d accepts ARABIC-INDIC DIGIT ZERO U+0660, \D does not; \w accepts Kelvin *)
  Example perl_ex :
    (matches_whole_ci [1632] (RPerl 100), matches_whole_ci [1632] (RPerl 68),
     matches_whole_cs_engine [8490] (RPerl 119), matches_whole_cs_engine [32] (RPerl 115),
     matches_whole_cs_engine [32] (RPerl 83), matches_whole_cs_engine [32] (RPerl 120))
    = (true, false, true, true, false, false).
  Proof. vm_compute. reflexivity. Qed.

  (* the known finding K2, test cases "a" "ba" "aab" "aba" without $: grex prints
     ^(?:a(?:ab)?|a?ba); from 0 in "aba" the ends are 1 and 3 -- the proper prefix "a" is in the
     language, the regex crate (leftmost-first) reports (0, 1) *)
  Definition k2_rast : rast :=
    RCat RStart
      (RGroup false
         (RAlt (RCat (RLit 97) (RRep (RGroup false (RCat (RLit 97) (RLit 98))) 0 (Some 1)))
               (RCat (RCat (RRep (RLit 97) 0 (Some 1)) (RLit 98)) (RLit 97)))).
  Example k2_aba : find_leftmost_cs_engine [97; 98; 97] k2_rast = Some (0%nat, [1%nat; 3%nat]).
  Proof. vm_compute. reflexivity. Qed.
  Example k2_aab : find_leftmost_cs_engine [97; 97; 98] k2_rast = Some (0%nat, [1%nat; 3%nat]).
  Proof. vm_compute. reflexivity. Qed.
  Example k2_a : find_leftmost_cs_engine [97] k2_rast = Some (0%nat, [1%nat]).
  Proof. vm_compute. reflexivity. Qed.
  Example k2_ba : find_leftmost_cs_engine [98; 97] k2_rast = Some (0%nat, [2%nat]).
  Proof. vm_compute. reflexivity. Qed.
End Sanity.

Check lit_ci_spec.
Check range_ci_spec.
Check cls_engine_spec.
Check negated_digit.
Check negated_word.
Check negated_space.
Check fold_class_scalar.
Check cls_engine_ci_closed_pos.
Check cls_engine_ci_closed_neg.
Check cls_engine_ci_closed.
Check cls_engine_ci_invariant.
Check cls_engine_ci_same.
Check cls_engine_fold_invariant.
Check cls_engine_ci_same_all.
Check ends_ci_spec.
Check matches_whole_ci_spec.
Check matches_at_ci_spec.
Check find_leftmost_ci_spec.
Check find_leftmost_ci_none.
Check find_leftmost_ci_ends.
Check ends_cs_engine_spec.
Check matches_whole_cs_engine_spec.
Check find_leftmost_cs_engine_spec.
Check find_leftmost_cs_engine_none.
Check find_leftmost_cs_engine_ends.
Check matches_whole_engine_spec.
Check find_leftmost_engine_ends.
Check find_leftmost_engine_none.
Print Assumptions lit_ci_spec.
Print Assumptions range_ci_spec.
Print Assumptions negated_digit.
Print Assumptions negated_word.
Print Assumptions negated_space.
Print Assumptions fold_class_scalar.
Print Assumptions cls_engine_ci_closed.
Print Assumptions cls_engine_ci_same.
Print Assumptions cls_engine_fold_invariant.
Print Assumptions cls_engine_ci_same_all.
Print Assumptions ends_ci_spec.
Print Assumptions matches_whole_ci_spec.
Print Assumptions find_leftmost_ci_spec.
Print Assumptions find_leftmost_ci_none.
Print Assumptions find_leftmost_ci_ends.
Print Assumptions matches_whole_cs_engine_spec.
Print Assumptions find_leftmost_cs_engine_spec.
Print Assumptions matches_whole_engine_spec.
Print Assumptions find_leftmost_engine_ends.
