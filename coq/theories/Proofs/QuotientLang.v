(* Translation validation of the minimiser's quotient step (Dfa.v: recreate_graph).
   A boolean checker `stableb d p` (p is a partition of the states of d into non-empty
   disjoint blocks, stable w.r.t. finality and labelled successors up to lbl_eqb) and the
   theorems: if the checker accepts, recreate_graph d p succeeds, and its result d' is
   well-formed, acyclic when d is, and accepts the language of d except possibly for the
   empty string (the known "final root without incoming edge" defect).

   Contents
     1. stableb / stable / stableb_spec          the checker and what it establishes
     2. quotient_lang_sub, _eps, _nonempty, _eps_kept, quotient_wf, quotient_acyclic
        (premise on d besides wf_dfa: no_parallel d; tries satisfy it: trie_shape)
     3. recreate_total
     4. quotient_no_bisimilar, quotient_deterministic_minimal (label-word languages Lw_from;
        hypotheses coarsest / deterministic / trim / fin_safe)
     5. min_checkb: a direct executable minimality check of the result (no `coarsest`)

   NOT PROVED (left out on purpose, nothing is assumed):
     - that partition_of (Hopcroft as implemented) returns a stable / coarsest partition:
       this file validates its result instead (stableb, min_checkb);
     - completeness of the checkers (stable d p -> stableb d p = true; min_checkb accepts every
       minimal automaton): only soundness is needed for translation validation;
     - `deterministic d` and `trim d` for tries (true for no_merge tries of a non-empty list of
       clusters): use detb / trimb on the result, or on the trie, instead;
     - minimality w.r.t. code point languages: false in general, because different label words
       can denote the same strings (labels ["ab"] vs ["a"],["b"]); minimality is stated for
       label words (Lw_from), related to L_from by L_from_labels. *)
From Grex Require Import Base.Str Model.Config Model.Cluster Model.Dfa Model.Expr
  Proofs.Lang Proofs.TrieLang.

(* ====================================================================== *)
(* 1. the checker                                                          *)
(* ====================================================================== *)

Definition lbl_eqb (g h : grapheme) : bool :=
  strs_eqb (g_chars g) (g_chars h) && N.eqb (g_min g) (g_min h) && N.eqb (g_max g) (g_max h).

(* equality of two *defined* block indices *)
Definition onat_eqb (a b : option nat) : bool :=
  match a, b with
  | Some x, Some y => Nat.eqb x y
  | _, _ => false
  end.

(* state t has an edge matching e: equal label (up to lbl_eqb), target in the same block *)
Definition edge_matchb (d : dfa) (p : list block) (t : nat) (e : edge) : bool :=
  existsb (fun e' => Nat.eqb (e_src e') t
                     && lbl_eqb (e_lbl e) (e_lbl e')
                     && onat_eqb (block_index (e_dst e) p 0) (block_index (e_dst e') p 0))
          (d_edges d).

(* s and t agree on finality and every out-edge of s is matched by an out-edge of t *)
Definition pair_okb (d : dfa) (p : list block) (s t : nat) : bool :=
  Bool.eqb (set_mem s (d_finals d)) (set_mem t (d_finals d))
  && forallb (fun e => negb (Nat.eqb (e_src e) s) || edge_matchb d p t e) (d_edges d).

(* block number i: non-empty, all members are states whose block_index is i (hence the
   blocks are pairwise disjoint), all pairs of members are compatible *)
Definition block_okb (d : dfa) (p : list block) (ib : nat * block) : bool :=
  let '(i, b) := ib in
  match b with [] => false | _ :: _ => true end
  && forallb (fun s => Nat.ltb s (d_n d) && onat_eqb (block_index s p 0) (Some i)) b
  && forallb (fun s => forallb (fun t => pair_okb d p s t) b) b.

Definition stableb (d : dfa) (p : list block) : bool :=
  forallb (fun s => match block_index s p 0 with Some _ => true | None => false end)
          (seq 0 (d_n d))
  && forallb (block_okb d p) (combine (seq 0 (length p)) p).

(* ---------- what the checker establishes ---------- *)
Record stable (d : dfa) (p : list block) : Prop := mkStable {
  st_cover : forall s, s < d_n d -> exists i, block_index s p 0 = Some i;
  st_block : forall i b, nth_error p i = Some b ->
      b <> [] /\ forall s, In s b -> s < d_n d /\ block_index s p 0 = Some i;
  st_pair : forall i s t, block_index s p 0 = Some i -> block_index t p 0 = Some i ->
      (In s (d_finals d) <-> In t (d_finals d))
      /\ forall e, In e (d_edges d) -> e_src e = s ->
           exists e' j, In e' (d_edges d) /\ e_src e' = t
                        /\ lbl_eqb (e_lbl e) (e_lbl e') = true
                        /\ block_index (e_dst e) p 0 = Some j
                        /\ block_index (e_dst e') p 0 = Some j
}.

Lemma set_mem_in : forall x l, set_mem x l = true <-> In x l.
Proof.
  intros x. induction l as [|y l IH]; simpl.
  - split; [discriminate|tauto].
  - rewrite orb_true_iff, IH, Nat.eqb_eq. split; intros [H|H]; auto.
Qed.

Lemma onat_eqb_true : forall a b, onat_eqb a b = true -> exists i, a = Some i /\ b = Some i.
Proof.
  intros [x|] [y|] H; simpl in H; try discriminate.
  apply Nat.eqb_eq in H. subst. eauto.
Qed.

Lemma block_index_some : forall s p k i,
  block_index s p k = Some i ->
  k <= i /\ exists b, nth_error p (i - k) = Some b /\ In s b.
Proof.
  intros s. induction p as [|b p IH]; intros k i H; simpl in H; [discriminate|].
  destruct (set_mem s b) eqn:E.
  - inversion H; subst. split; [lia|]. rewrite Nat.sub_diag. simpl.
    exists b. split; auto. apply set_mem_in; exact E.
  - apply IH in H. destruct H as (Hk & b' & Hn & Hin). split; [lia|].
    exists b'. split; auto. replace (i - k) with (S (i - S k)) by lia. exact Hn.
Qed.

Lemma block_index_some0 : forall s p i,
  block_index s p 0 = Some i -> exists b, nth_error p i = Some b /\ In s b.
Proof.
  intros s p i H. apply block_index_some in H. destruct H as (_ & b & Hn & Hin).
  rewrite Nat.sub_0_r in Hn. eauto.
Qed.

Lemma block_index_lt : forall s p i, block_index s p 0 = Some i -> i < length p.
Proof.
  intros s p i H. apply block_index_some0 in H. destruct H as (b & Hn & _).
  apply nth_error_Some. congruence.
Qed.

Lemma combine_seq_nth : forall (p : list block) k i b,
  nth_error p i = Some b -> In (k + i, b) (combine (seq k (length p)) p).
Proof.
  induction p as [|c p IH]; intros k i b H.
  - destruct i; discriminate.
  - destruct i as [|i]; simpl in *.
    + inversion H; subst. left. f_equal. lia.
    + right. replace (k + S i) with (S k + i) by lia. apply IH. exact H.
Qed.

Theorem stableb_spec : forall d p, stableb d p = true -> stable d p.
Proof.
  intros d p H. unfold stableb in H. apply andb_true_iff in H. destruct H as [H1 H2].
  rewrite forallb_forall in H1. rewrite forallb_forall in H2.
  assert (HB : forall i b, nth_error p i = Some b -> block_okb d p (i, b) = true).
  { intros i b Hn. apply H2. apply (combine_seq_nth p 0 i b Hn). }
  constructor.
  - intros s Hs. specialize (H1 s). rewrite in_seq in H1.
    destruct (block_index s p 0) as [i|]; [eauto|].
    assert (false = true) by (apply H1; lia). discriminate.
  - intros i b Hn. specialize (HB i b Hn). simpl in HB.
    apply andb_true_iff in HB. destruct HB as [HB _].
    apply andb_true_iff in HB. destruct HB as [HB1 HB2]. split.
    + destruct b; [discriminate|]. discriminate.
    + intros s Hs. rewrite forallb_forall in HB2. specialize (HB2 s Hs).
      apply andb_true_iff in HB2. destruct HB2 as [HB2 HB3].
      apply Nat.ltb_lt in HB2. split; [exact HB2|].
      apply onat_eqb_true in HB3. destruct HB3 as (j & E1 & E2). congruence.
  - intros i s t Hs Ht.
    apply block_index_some0 in Hs as Hs'. destruct Hs' as (b & Hn & Hsb).
    apply block_index_some0 in Ht as Ht'. destruct Ht' as (b' & Hn' & Htb).
    assert (b' = b) by congruence. subst b'.
    specialize (HB i b Hn). simpl in HB.
    apply andb_true_iff in HB. destruct HB as [_ HB].
    rewrite forallb_forall in HB. specialize (HB s Hsb).
    rewrite forallb_forall in HB. specialize (HB t Htb).
    unfold pair_okb in HB. apply andb_true_iff in HB. destruct HB as [HF HE]. split.
    + apply eqb_prop in HF. rewrite <- !set_mem_in. rewrite HF. tauto.
    + intros e Hin Hsrc. rewrite forallb_forall in HE. specialize (HE e Hin).
      apply orb_true_iff in HE. destruct HE as [HE|HE].
      * apply negb_true_iff in HE. apply Nat.eqb_neq in HE. contradiction.
      * unfold edge_matchb in HE. apply existsb_exists in HE.
        destruct HE as (e' & Hin' & HE).
        apply andb_true_iff in HE. destruct HE as [HE HE3].
        apply andb_true_iff in HE. destruct HE as [HE1 HE2].
        apply Nat.eqb_eq in HE1. apply onat_eqb_true in HE3. destruct HE3 as (j & E1 & E2).
        exists e', j. auto.
Qed.

(* ---------- labels: lbl_eqb-equal labels denote the same language ---------- *)
Lemma lbl_eqb_eq : forall g h, lbl_eqb g h = true ->
  g_chars g = g_chars h /\ g_min g = g_min h /\ g_max g = g_max h.
Proof.
  intros g h H. unfold lbl_eqb in H.
  apply andb_true_iff in H. destruct H as [H H3].
  apply andb_true_iff in H. destruct H as [H1 H2].
  apply strs_eqb_eq in H1. apply N.eqb_eq in H2. apply N.eqb_eq in H3. auto.
Qed.

Lemma den_g_lbl : forall lit_den cls_den g h, lbl_eqb g h = true ->
  leq (den_g lit_den cls_den g) (den_g lit_den cls_den h).
Proof.
  intros lit_den cls_den g h H u. apply lbl_eqb_eq in H. destruct H as (H1 & H2 & H3).
  unfold den_g. rewrite H1, H2, H3. tauto.
Qed.

(* ====================================================================== *)
(* recreate_graph as two nested folds, and their specification            *)
(* ====================================================================== *)

Definition rg_inner (d : dfa) (p : list block) (src' rep : nat)
  (acc : option (list edge * list nat)) (tgt : nat) : option (list edge * list nat) :=
  match acc with
  | None => None
  | Some (es, fin) =>
      match find_edge (d_edges d) rep tgt, block_index tgt p 0 with
      | Some e, Some tgt' =>
          Some (es ++ [(src', tgt', e_lbl e)],
                if set_mem tgt (d_finals d) then set_add tgt' fin else fin)
      | _, _ => None
      end
  end.

Definition rg_step (d : dfa) (p : list block)
  (acc : option (list edge * list nat)) (b : block) : option (list edge * list nat) :=
  match acc, block_min b with
  | Some (es, fin), Some rep =>
      match block_index rep p 0 with
      | None => None
      | Some src' =>
          fold_left (rg_inner d p src' rep) (neighbors (d_edges d) rep) (Some (es, fin))
      end
  | _, _ => None
  end.

Lemma recreate_graph_eq : forall d p,
  recreate_graph d p =
  match fold_left (rg_step d p) p (Some ([], [])), block_index (d_init d) p 0 with
  | Some (es, fin), Some init' => Some (mkDfa (length p) es init' fin (d_alphabet d))
  | _, _ => None
  end.
Proof. reflexivity. Qed.

Lemma inner_none : forall d p i rep ns, fold_left (rg_inner d p i rep) ns None = None.
Proof. intros d p i rep. induction ns; simpl; auto. Qed.

Lemma step_none : forall d p bs, fold_left (rg_step d p) bs None = None.
Proof. intros d p. induction bs; simpl; auto. Qed.

Lemma inner_spec : forall d p i rep ns es fin es' fin',
  fold_left (rg_inner d p i rep) ns (Some (es, fin)) = Some (es', fin') ->
  (forall x, In x es' <->
     In x es \/ exists tgt e j, In tgt ns /\ find_edge (d_edges d) rep tgt = Some e
                                /\ block_index tgt p 0 = Some j /\ x = (i, j, e_lbl e))
  /\ (forall j, In j fin' <->
     In j fin \/ exists tgt, In tgt ns /\ In tgt (d_finals d) /\ block_index tgt p 0 = Some j).
Proof.
  intros d p i rep. induction ns as [|a ns IH]; intros es fin es' fin' H; simpl in H.
  - inversion H; subst. split; intros x; split; auto.
    + intros [Hx|(tgt & e & j & [] & _)]; auto.
    + intros [Hx|(tgt & [] & _)]; auto.
  - destruct (find_edge (d_edges d) rep a) as [e|] eqn:F;
      [|rewrite inner_none in H; discriminate].
    destruct (block_index a p 0) as [j0|] eqn:B;
      [|rewrite inner_none in H; discriminate].
    apply IH in H. destruct H as [HE HF]. split.
    + intros x. rewrite HE. rewrite in_app_iff. simpl. split.
      * intros [[Hx|[Hx|[]]]|(tgt & e1 & j & Hin & F1 & B1 & Hx)].
        -- left; exact Hx.
        -- right. exists a, e, j0. subst x. simpl. auto 10.
        -- right. exists tgt, e1, j. simpl. auto 10.
      * intros [Hx|(tgt & e1 & j & [Hin|Hin] & F1 & B1 & Hx)].
        -- left; left; exact Hx.
        -- subst tgt. left; right; left. congruence.
        -- right. exists tgt, e1, j. auto.
    + intros j. rewrite HF. split.
      * intros [Hj|(tgt & Hin & Hf & Bt)].
        -- destruct (set_mem a (d_finals d)) eqn:M; [|left; exact Hj].
           apply set_add_in in Hj. destruct Hj as [->|Hj]; [|left; exact Hj].
           right. exists a. split; [left; reflexivity|]. split; [apply set_mem_in; exact M|exact B].
        -- right. exists tgt. simpl. auto.
      * intros [Hj|(tgt & [Hin|Hin] & Hf & Bt)].
        -- left. destruct (set_mem a (d_finals d)); [apply set_add_in; right|]; exact Hj.
        -- subst tgt. left. apply set_mem_in in Hf. rewrite Hf. apply set_add_in. left. congruence.
        -- right. exists tgt. auto.
Qed.

(* contributions of a list of blocks *)
Definition rg_edge (d : dfa) (p : list block) (bs : list block) (x : edge) : Prop :=
  exists b rep i tgt e j,
    In b bs /\ block_min b = Some rep /\ block_index rep p 0 = Some i
    /\ In tgt (neighbors (d_edges d) rep) /\ find_edge (d_edges d) rep tgt = Some e
    /\ block_index tgt p 0 = Some j /\ x = (i, j, e_lbl e).

Definition rg_fin (d : dfa) (p : list block) (bs : list block) (j : nat) : Prop :=
  exists b rep tgt,
    In b bs /\ block_min b = Some rep
    /\ In tgt (neighbors (d_edges d) rep) /\ In tgt (d_finals d)
    /\ block_index tgt p 0 = Some j.

Lemma step_spec : forall d p bs es fin es' fin',
  fold_left (rg_step d p) bs (Some (es, fin)) = Some (es', fin') ->
  (forall x, In x es' <-> In x es \/ rg_edge d p bs x)
  /\ (forall j, In j fin' <-> In j fin \/ rg_fin d p bs j).
Proof.
  intros d p. induction bs as [|b bs IH]; intros es fin es' fin' H; simpl in H.
  - inversion H; subst. split; intros x; split; auto.
    + intros [Hx|(b & rep & i & tgt & e & j & [] & _)]; auto.
    + intros [Hx|(b & rep & tgt & [] & _)]; auto.
  - destruct (block_min b) as [rep|] eqn:M; [|rewrite step_none in H; discriminate].
    destruct (block_index rep p 0) as [i|] eqn:B; [|rewrite step_none in H; discriminate].
    destruct (fold_left (rg_inner d p i rep) (neighbors (d_edges d) rep) (Some (es, fin)))
      as [[es1 fin1]|] eqn:I; [|rewrite step_none in H; discriminate].
    apply IH in H. destruct H as [HE HF].
    apply inner_spec in I. destruct I as [IE IF]. split.
    + intros x. rewrite HE, IE. split.
      * intros [[Hx|(tgt & e & j & Hin & F1 & B1 & Hx)]|Hx].
        -- left; exact Hx.
        -- right. exists b, rep, i, tgt, e, j. simpl. auto 10.
        -- right. destruct Hx as (b1 & rep1 & i1 & tgt & e & j & Hb & Hx).
           exists b1, rep1, i1, tgt, e, j. split; [right; exact Hb|exact Hx].
      * intros [Hx|(b1 & rep1 & i1 & tgt & e & j & [Hb|Hb] & M1 & B1 & Hx)].
        -- left; left; exact Hx.
        -- subst b1. assert (rep1 = rep) by congruence. subst rep1.
           assert (i1 = i) by congruence. subst i1.
           left; right. exists tgt, e, j. tauto.
        -- right. exists b1, rep1, i1, tgt, e, j. auto.
    + intros j. rewrite HF, IF. split.
      * intros [[Hx|(tgt & Hin & Hf & Bt)]|Hx].
        -- left; exact Hx.
        -- right. exists b, rep, tgt. simpl. auto 10.
        -- right. destruct Hx as (b1 & rep1 & tgt & Hb & Hx).
           exists b1, rep1, tgt. split; [right; exact Hb|exact Hx].
      * intros [Hx|(b1 & rep1 & tgt & [Hb|Hb] & M1 & Hx)].
        -- left; left; exact Hx.
        -- subst b1. assert (rep1 = rep) by congruence. subst rep1.
           left; right. exists tgt. tauto.
        -- right. exists b1, rep1, tgt. auto.
Qed.

Lemma recreate_graph_inv : forall d p d',
  recreate_graph d p = Some d' ->
  d_n d' = length p
  /\ block_index (d_init d) p 0 = Some (d_init d')
  /\ (forall x, In x (d_edges d') <-> rg_edge d p p x)
  /\ (forall j, In j (d_finals d') <-> rg_fin d p p j).
Proof.
  intros d p d' H. rewrite recreate_graph_eq in H.
  destruct (fold_left (rg_step d p) p (Some ([], []))) as [[es fin]|] eqn:F; [|discriminate].
  destruct (block_index (d_init d) p 0) as [i0|] eqn:B; [|discriminate].
  inversion H; subst; simpl. apply step_spec in F. destruct F as [FE FF].
  split; [reflexivity|]. split; [reflexivity|]. split.
  - intros x. rewrite FE. simpl. tauto.
  - intros j. rewrite FF. simpl. tauto.
Qed.

(* ---------- neighbours ---------- *)
Lemma in_neighbors : forall es e, In e es -> In (e_dst e) (neighbors es (e_src e)).
Proof.
  intros es e H. unfold neighbors, out_edges. apply in_map. apply filter_In.
  split; [rewrite <- in_rev; exact H|apply Nat.eqb_refl].
Qed.

Lemma neighbors_in : forall es a t, In t (neighbors es a) ->
  exists e, In e es /\ e_src e = a /\ e_dst e = t.
Proof.
  intros es a t H. unfold neighbors, out_edges in H. apply in_map_iff in H.
  destruct H as (e & Hd & Hin). apply filter_In in Hin. destruct Hin as [Hin Hs].
  apply in_rev in Hin. apply Nat.eqb_eq in Hs. eauto.
Qed.

(* ====================================================================== *)
(* 3. totality of recreate_graph on accepted partitions                    *)
(* ====================================================================== *)

Lemma inner_total : forall d p i rep ns acc0,
  (forall tgt, In tgt ns -> (exists e, find_edge (d_edges d) rep tgt = Some e)
                            /\ exists j, block_index tgt p 0 = Some j) ->
  exists r, fold_left (rg_inner d p i rep) ns (Some acc0) = Some r.
Proof.
  intros d p i rep. induction ns as [|a ns IH]; intros acc0 H; simpl; [eauto|].
  destruct acc0 as [es fin].
  destruct (H a (or_introl eq_refl)) as [[e He] [j Hj]]. rewrite He, Hj.
  apply IH. intros tgt Ht. apply H. right; exact Ht.
Qed.

Lemma wf_dfa_edge : forall d e, wf_dfa d -> In e (d_edges d) ->
  e_src e < d_n d /\ e_dst e < d_n d /\ wf_g (e_lbl e).
Proof.
  intros d e (H & _) Hin. rewrite Forall_forall in H. apply H. exact Hin.
Qed.

Lemma step_total : forall d p, stable d p -> wf_dfa d ->
  forall bs acc0, (forall b, In b bs -> In b p) ->
  exists r, fold_left (rg_step d p) bs (Some acc0) = Some r.
Proof.
  intros d p Hst Hwf. induction bs as [|b bs IH]; intros acc0 Hsub; simpl; [eauto|].
  destruct acc0 as [es fin].
  assert (Hb : In b p) by (apply Hsub; left; reflexivity).
  apply In_nth_error in Hb. destruct Hb as [i Hi].
  destruct (st_block d p Hst i b Hi) as [Hne Hmem].
  destruct b as [|rep b]; [congruence|]. simpl.
  destruct (Hmem rep (or_introl eq_refl)) as [Hlt Hbi]. rewrite Hbi.
  destruct (inner_total d p i rep (neighbors (d_edges d) rep) (es, fin)) as [r Hr].
  - intros tgt Ht. split; [apply find_edge_neighbor; exact Ht|].
    apply neighbors_in in Ht. destruct Ht as (e & Hin & _ & <-).
    apply (st_cover d p Hst). apply (wf_dfa_edge d e Hwf Hin).
  - rewrite Hr. apply IH. intros b0 Hb0. apply Hsub. right; exact Hb0.
Qed.

Theorem recreate_total_stable : forall d p, stable d p -> wf_dfa d ->
  exists d', recreate_graph d p = Some d'.
Proof.
  intros d p Hst Hwf. rewrite recreate_graph_eq.
  destruct (step_total d p Hst Hwf p ([], [])) as [[es fin] Hr]; [auto|]. rewrite Hr.
  destruct Hwf as (_ & Hi & _). destruct (st_cover d p Hst _ Hi) as [i0 Hi0]. rewrite Hi0.
  eauto.
Qed.

Theorem recreate_total : forall d p, stableb d p = true -> wf_dfa d ->
  exists d', recreate_graph d p = Some d'.
Proof. intros d p H. apply recreate_total_stable. apply stableb_spec; exact H. Qed.

(* ====================================================================== *)
(* 2. language of the quotient                                             *)
(* ====================================================================== *)

(* at most one edge per (source, target) pair: holds for tries (trie_shape below) *)
Definition no_parallel (d : dfa) : Prop :=
  forall e1 e2, In e1 (d_edges d) -> In e2 (d_edges d) ->
    e_src e1 = e_src e2 -> e_dst e1 = e_dst e2 -> e1 = e2.

(* ---------- well-formed labels denote non-empty words only ---------- *)
Section NonEmpty.
  Variable lit_den cls_den : cp -> cp -> Prop.

  Lemma den_str_nonempty : forall s u, s <> [] -> den_str lit_den cls_den s u -> u <> [].
  Proof.
    intros s u Hs H. destruct s as [|c s']; [congruence|]. simpl in H.
    destruct s' as [|l s''].
    - destruct H as (x & -> & _). discriminate.
    - destruct (N.eqb c c_backslash && is_class_letter l);
        destruct H as (v & w & -> & (x & -> & _) & _); discriminate.
  Qed.

  Lemma den_chars_nonempty : forall cs u,
    cs <> [] -> Forall (fun s => s <> []) cs -> den_chars lit_den cls_den cs u -> u <> [].
  Proof.
    intros cs u Hne Hall H. destruct cs as [|s cs']; [congruence|]. simpl in H.
    destruct H as (v & w & -> & Hv & _). inversion Hall; subst.
    apply den_str_nonempty in Hv; [|assumption]. destruct v; [congruence|discriminate].
  Qed.

  Lemma den_g_nonempty : forall g u, wf_g g -> den_g lit_den cls_den g u -> u <> [].
  Proof.
    intros g u Hw (k & K1 & K2 & K3). apply wf_g_proj in Hw. destruct Hw as (W1 & W2 & W3 & W4).
    destruct k as [|k]; [simpl in K1; lia|]. simpl in K3.
    destruct K3 as (v & w & -> & Hv & _).
    apply den_chars_nonempty in Hv; auto. destruct v; [congruence|discriminate].
  Qed.

  Lemma path_nil_inv : forall es s u t,
    (forall e, In e es -> wf_g (e_lbl e)) ->
    path lit_den cls_den es s u t -> u = [] -> s = t.
  Proof.
    intros es s u t Hw H. induction H as [s|s m t g v w Hin Hd Hp IH]; intros Hu; auto.
    exfalso. apply (den_g_nonempty g v); [apply (Hw _ Hin)|exact Hd|].
    destruct v; [reflexivity|discriminate].
  Qed.

  (* a path is empty or ends with an edge *)
  Lemma path_last : forall es s u t,
    path lit_den cls_den es s u t ->
    (s = t /\ u = []) \/ exists e, In e es /\ e_dst e = t.
  Proof.
    intros es s u t H. induction H as [s|s m t g v w Hin Hd Hp IH]; [left; auto|].
    right. destruct IH as [[-> _]|IH]; [|exact IH]. exists (s, t, g). auto.
  Qed.
End NonEmpty.

Section Q.
  Variable lit_den cls_den : cp -> cp -> Prop.
  Variables (d d' : dfa) (p : list block).
  Hypothesis Hwf : wf_dfa d.
  Hypothesis Hst : stable d p.
  Hypothesis Hrg : recreate_graph d p = Some d'.

  Local Notation bi := (fun s => block_index s p 0).
  Local Notation pth := (path lit_den cls_den).
  Local Notation deng := (den_g lit_den cls_den).

  Let Hn' : d_n d' = length p := proj1 (recreate_graph_inv d p d' Hrg).
  Let Hinit' : block_index (d_init d) p 0 = Some (d_init d')
    := proj1 (proj2 (recreate_graph_inv d p d' Hrg)).
  Let Hedges' : forall x, In x (d_edges d') <-> rg_edge d p p x
    := proj1 (proj2 (proj2 (recreate_graph_inv d p d' Hrg))).
  Let Hfin' : forall j, In j (d_finals d') <-> rg_fin d p p j
    := proj2 (proj2 (proj2 (recreate_graph_inv d p d' Hrg))).

  (* the representative of a block is one of its members *)
  Lemma rep_member : forall b rep, In b p -> block_min b = Some rep ->
    exists i, nth_error p i = Some b /\ block_index rep p 0 = Some i /\ rep < d_n d.
  Proof.
    intros b rep Hb Hm. apply In_nth_error in Hb. destruct Hb as [i Hi].
    destruct (st_block d p Hst i b Hi) as [_ Hmem].
    destruct b as [|x b]; [discriminate|]. simpl in Hm. inversion Hm; subst x.
    destruct (Hmem rep (or_introl eq_refl)) as [Hlt Hbi]. eauto.
  Qed.

  (* backward: an edge of d' is matched by an edge of every member of its source block *)
  Lemma edge_back : forall i j h s,
    In (i, j, h) (d_edges d') -> block_index s p 0 = Some i ->
    exists e, In e (d_edges d) /\ e_src e = s /\ block_index (e_dst e) p 0 = Some j
              /\ lbl_eqb h (e_lbl e) = true.
  Proof.
    intros i j h s Hin Hs. apply Hedges' in Hin.
    destruct Hin as (b & rep & i1 & tgt & e0 & j1 & Hb & Hm & Hbi & Hnb & Hf & Hbt & Hx).
    inversion Hx; subst i1 j1 h. clear Hx.
    apply find_edge_some in Hf. destruct Hf as (Hin0 & Hs0 & Hd0).
    destruct (st_pair d p Hst i rep s Hbi Hs) as [_ HE].
    destruct (HE e0 Hin0 Hs0) as (e' & j' & Hin' & Hs' & Hl & B1 & B2).
    exists e'. split; [exact Hin'|]. split; [exact Hs'|]. split; [|exact Hl].
    rewrite Hd0 in B1. congruence.
  Qed.

  (* finality of a d' state: every member of the block is final in d *)
  Lemma fin_back : forall j t, In j (d_finals d') -> block_index t p 0 = Some j ->
    In t (d_finals d).
  Proof.
    intros j t Hj Ht. apply Hfin' in Hj. destruct Hj as (b & rep & tgt & _ & _ & _ & Hf & Hbt).
    destruct (st_pair d p Hst j tgt t Hbt Ht) as [HF _]. apply HF; exact Hf.
  Qed.

  Lemma path_back : forall i u j, pth (d_edges d') i u j ->
    forall s, block_index s p 0 = Some i ->
    exists t, block_index t p 0 = Some j /\ pth (d_edges d) s u t.
  Proof.
    intros i u j H. induction H as [i|i m j g v w Hin Hd Hp IH]; intros s Hs.
    - exists s. split; [exact Hs|constructor].
    - destruct (edge_back _ _ _ _ Hin Hs) as (e & Hine & Hse & Hde & Hl).
      destruct (IH _ Hde) as (t & Ht & Hpt). exists t. split; [exact Ht|].
      destruct e as [[s0 m0] g0]. unfold e_src, e_dst, e_lbl in *; simpl in *. subst s0.
      eapply path_step; [exact Hine| |exact Hpt].
      apply (den_g_lbl lit_den cls_den g g0 Hl). exact Hd.
  Qed.

  Theorem quotient_lang_sub_st : lsub (L_dfa lit_den cls_den d') (L_dfa lit_den cls_den d).
  Proof.
    intros u (j & Hj & Hp). unfold L_dfa, L_from.
    destruct (path_back _ _ _ Hp _ Hinit') as (t & Ht & Hpt).
    exists t. split; [|exact Hpt]. eapply fin_back; eauto.
  Qed.

  Theorem quotient_lang_eps_st : L_dfa lit_den cls_den d' [] -> L_dfa lit_den cls_den d [].
  Proof. apply quotient_lang_sub_st. Qed.

  (* ---------- forward direction: needs "no parallel edges" ---------- *)
  Hypothesis Hnp : no_parallel d.

  Lemma edge_fwd : forall e, In e (d_edges d) ->
    exists i j h, block_index (e_src e) p 0 = Some i /\ block_index (e_dst e) p 0 = Some j
                  /\ In (i, j, h) (d_edges d') /\ lbl_eqb (e_lbl e) h = true
                  /\ (In (e_dst e) (d_finals d) -> In j (d_finals d')).
  Proof.
    intros e Hin. destruct (wf_dfa_edge d e Hwf Hin) as (Hs & Hd & _).
    destruct (st_cover d p Hst _ Hs) as [i Hi].
    destruct (block_index_some0 _ _ _ Hi) as (b & Hnth & Hsb).
    destruct (st_block d p Hst i b Hnth) as [Hne Hmem].
    destruct b as [|rep b0] eqn:Eb; [congruence|]. rewrite <- Eb in *.
    assert (Hrepb : In rep b) by (rewrite Eb; left; reflexivity).
    destruct (Hmem rep Hrepb) as [Hrlt Hrbi].
    destruct (st_pair d p Hst i (e_src e) rep Hi Hrbi) as [_ HE].
    destruct (HE e Hin eq_refl) as (e' & j & Hin' & Hs' & Hl & B1 & B2).
    pose proof (in_neighbors _ _ Hin') as Hnb. rewrite Hs' in Hnb.
    destruct (find_edge_neighbor _ _ _ Hnb) as [e'' F].
    apply find_edge_some in F as F'. destruct F' as (Hin'' & Hs'' & Hd'').
    assert (e'' = e') by (apply Hnp; auto; congruence). subst e''.
    assert (Hbp : In b p) by (eapply nth_error_In; eauto).
    assert (Hbm : block_min b = Some rep) by (rewrite Eb; reflexivity).
    exists i, j, (e_lbl e'). split; [exact Hi|]. split; [exact B1|]. split; [|split].
    - apply Hedges'. exists b, rep, i, (e_dst e'), e', j. auto 10.
    - exact Hl.
    - intros Hf. apply Hfin'. exists b, rep, (e_dst e'). split; [exact Hbp|].
      split; [exact Hbm|]. split; [exact Hnb|]. split; [|exact B2].
      destruct (st_pair d p Hst j (e_dst e) (e_dst e') B1 B2) as [HF _]. apply HF; exact Hf.
  Qed.

  Lemma path_fwd : forall s u t, pth (d_edges d) s u t ->
    forall i, block_index s p 0 = Some i ->
    exists j, block_index t p 0 = Some j /\ pth (d_edges d') i u j.
  Proof.
    intros s u t H. induction H as [s|s m t g v w Hin Hd Hp IH]; intros i Hs.
    - exists i. split; [exact Hs|constructor].
    - destruct (edge_fwd _ Hin) as (i1 & j1 & h & B1 & B2 & Hin' & Hl & _).
      unfold e_src, e_dst, e_lbl in *; simpl in *.
      assert (i1 = i) by congruence. subst i1.
      destruct (IH _ B2) as (j & Hj & Hpj). exists j. split; [exact Hj|].
      eapply path_step; [exact Hin'| |exact Hpj].
      apply (den_g_lbl lit_den cls_den g h Hl). exact Hd.
  Qed.

  Theorem quotient_lang_nonempty_st : forall u, u <> [] ->
    (L_dfa lit_den cls_den d' u <-> L_dfa lit_den cls_den d u).
  Proof.
    intros u Hu. split; [apply quotient_lang_sub_st|].
    intros (t & Ht & Hp). unfold L_dfa, L_from.
    destruct (path_fwd _ _ _ Hp _ Hinit') as (j & Hj & Hpj).
    exists j. split; [|exact Hpj].
    destruct (path_last lit_den cls_den _ _ _ _ Hp) as [[_ E]|(e & Hin & Hd)]; [congruence|].
    destruct (edge_fwd _ Hin) as (i1 & j1 & h & _ & B2 & _ & _ & HF).
    rewrite Hd in B2, HF. assert (j1 = j) by congruence. subst j1. apply HF; exact Ht.
  Qed.

  (* the defect does not bite: the root is not final, or its block has a member with an
     incoming edge *)
  Definition eps_safe : Prop :=
    ~ In (d_init d) (d_finals d)
    \/ exists e, In e (d_edges d)
                 /\ block_index (e_dst e) p 0 = block_index (d_init d) p 0.

  Theorem quotient_lang_eps_kept_st : eps_safe ->
    leq (L_dfa lit_den cls_den d') (L_dfa lit_den cls_den d).
  Proof.
    intros Hsafe u. destruct u as [|c u]; [|apply quotient_lang_nonempty_st; discriminate].
    split; [apply quotient_lang_sub_st|].
    intros (t & Ht & Hp).
    assert (d_init d = t).
    { eapply path_nil_inv; [|exact Hp|reflexivity].
      intros e He. apply (wf_dfa_edge d e Hwf He). }
    subst t. destruct Hsafe as [Hnf|(e & Hin & Hb)]; [contradiction|].
    destruct (edge_fwd _ Hin) as (i1 & j1 & h & _ & B2 & _ & _ & HF).
    rewrite Hb, Hinit' in B2. inversion B2; subst j1.
    exists (d_init d'). split; [|constructor]. apply HF.
    rewrite Hinit' in Hb.
    destruct (st_pair d p Hst _ _ _ Hb Hinit') as [HFF _]. apply HFF; exact Ht.
  Qed.

  (* ---------- well-formedness of the quotient ---------- *)
  Theorem quotient_wf_st : wf_dfa d'.
  Proof.
    unfold wf_dfa. rewrite Hn'. split; [|split].
    - apply Forall_forall. intros x Hx. apply Hedges' in Hx.
      destruct Hx as (b & rep & i & tgt & e & j & Hb & Hm & Hbi & Hnb & Hf & Hbt & ->).
      unfold e_src, e_dst, e_lbl; simpl.
      split; [eapply block_index_lt; eauto|]. split; [eapply block_index_lt; eauto|].
      apply find_edge_some in Hf. destruct Hf as (Hin & _ & _).
      apply (wf_dfa_edge d e Hwf Hin).
    - eapply block_index_lt; eauto.
    - apply Forall_forall. intros j Hj. apply Hfin' in Hj.
      destruct Hj as (b & rep & tgt & _ & _ & _ & _ & Hbt). eapply block_index_lt; eauto.
  Qed.
End Q.

(* ====================================================================== *)
(* acyclicity of the quotient                                              *)
(* ====================================================================== *)

(* smallest rank inside a block *)
Definition bmin (rank : nat -> nat) (b : block) : nat :=
  fold_right (fun s m => Nat.min (rank s) m) (rank (hd 0 b)) b.

Lemma fold_min_le : forall (rank : nat -> nat) z l s,
  In s l -> fold_right (fun s m => Nat.min (rank s) m) z l <= rank s.
Proof.
  intros rank z. induction l as [|x l IH]; intros s Hs; [destruct Hs|].
  simpl. destruct Hs as [->|H]; [lia|]. specialize (IH s H). lia.
Qed.

Lemma fold_min_attained : forall (rank : nat -> nat) z l,
  fold_right (fun s m => Nat.min (rank s) m) z l = z
  \/ exists s, In s l /\ rank s = fold_right (fun s m => Nat.min (rank s) m) z l.
Proof.
  intros rank z. induction l as [|x l IH]; simpl; [left; reflexivity|].
  destruct (Nat.min_spec (rank x) (fold_right (fun s m => Nat.min (rank s) m) z l))
    as [[_ E]|[_ E]]; rewrite E.
  - right. exists x. auto.
  - destruct IH as [IH|(s & Hs & Es)]; [left; exact IH|right; exists s; auto].
Qed.

Lemma bmin_le : forall rank b s, In s b -> bmin rank b <= rank s.
Proof. intros rank b s H. unfold bmin. apply fold_min_le; exact H. Qed.

Lemma bmin_attained : forall rank b, b <> [] -> exists s, In s b /\ rank s = bmin rank b.
Proof.
  intros rank b Hb. destruct b as [|x l]; [congruence|]. unfold bmin.
  destruct (fold_min_attained rank (rank (hd 0 (x :: l))) (x :: l)) as [E|H]; [|exact H].
  exists x. split; [left; reflexivity|]. rewrite E. reflexivity.
Qed.

Theorem quotient_acyclic_stable : forall d d' p,
  wf_dfa d -> stable d p -> recreate_graph d p = Some d' ->
  (exists rank : nat -> nat, forall e, In e (d_edges d) -> rank (e_dst e) < rank (e_src e)) ->
  exists rank' : nat -> nat, forall e, In e (d_edges d') -> rank' (e_dst e) < rank' (e_src e).
Proof.
  intros d d' p Hwf Hst Hrg [rank Hrank].
  exists (fun i => match nth_error p i with Some b => bmin rank b | None => 0 end).
  intros [[i j] h] Hin. unfold e_src, e_dst; simpl.
  pose proof (proj1 (proj1 (proj2 (proj2 (recreate_graph_inv d p d' Hrg))) _) Hin) as Hx.
  destruct Hx as (b & rep & i1 & tgt & e0 & j1 & Hb & Hm & Hbi & _ & _ & _ & Hx).
  inversion Hx; subst i1 j1 h. clear Hx.
  destruct (block_index_some0 _ _ _ Hbi) as (bi_ & Hnth & _).
  destruct (st_block d p Hst i bi_ Hnth) as [Hne Hmem].
  destruct (bmin_attained rank bi_ Hne) as (s & Hs & Es).
  destruct (Hmem s Hs) as [_ Hsb].
  destruct (edge_back d d' p Hst Hrg i j (e_lbl e0) s Hin Hsb) as (e & Hine & Hse & Hde & _).
  destruct (block_index_some0 _ _ _ Hde) as (bj & Hnthj & Hinj).
  rewrite Hnth, Hnthj. pose proof (bmin_le rank bj _ Hinj). pose proof (Hrank e Hine).
  rewrite Hse in *. lia.
Qed.

(* ====================================================================== *)
(* tries satisfy the premises                                              *)
(* ====================================================================== *)

Lemma update_newest_dst : forall a b w l,
  map e_dst (update_newest a b w l) = map e_dst l.
Proof.
  intros a b w. induction l as [|e l IH]; simpl; [reflexivity|].
  destruct (Nat.eqb (e_src e) a && Nat.eqb (e_dst e) b) eqn:E; simpl.
  - apply andb_true_iff in E. destruct E as [_ E]. apply Nat.eqb_eq in E.
    unfold e_dst at 1; simpl. congruence.
  - rewrite IH. reflexivity.
Qed.

Lemma update_edge_dst : forall es a b w, map e_dst (update_edge es a b w) = map e_dst es.
Proof.
  intros es a b w. unfold update_edge. rewrite map_rev, update_newest_dst, <- map_rev.
  rewrite rev_involutive. reflexivity.
Qed.

Lemma NoDup_snoc : forall (A : Type) (l : list A) x, NoDup l -> ~ In x l -> NoDup (l ++ [x]).
Proof.
  intros A l x H. induction H as [|y l Hy Hl IH]; intros Hx; simpl.
  - constructor; [intros []|constructor].
  - constructor.
    + rewrite in_app_iff. simpl. intros [H|[H|[]]]; [contradiction|]. subst. apply Hx. left; reflexivity.
    + apply IH. intros H. apply Hx. right; exact H.
Qed.

(* every state except the root has exactly one incoming edge *)
Definition st_tree (st : tstate) : Prop :=
  NoDup (map e_dst (t_edges st))
  /\ forall t, 0 < t -> t < t_n st -> In t (map e_dst (t_edges st)).

Lemma step_tree : forall st cur g st' nx,
  st_ok st -> st_tree st -> step_insert st cur g = Some (st', nx) -> st_tree st'.
Proof.
  intros st cur g st' nx [Hn He] [Hnd Hcov] H.
  destruct (step_cases _ _ _ _ _ H) as [(-> & _)|[(cg & F & _ & _ & ->)|(-> & ->)]].
  - split; assumption.
  - unfold st_tree; simpl. rewrite update_edge_dst. split; assumption.
  - unfold st_tree; simpl. rewrite map_app. simpl. unfold e_dst at 2 4; simpl. split.
    + apply NoDup_snoc; [exact Hnd|]. intros Hin. apply in_map_iff in Hin.
      destruct Hin as ([[s m] g0] & Hm & Hin). unfold e_dst in Hm; simpl in Hm. subst m.
      apply He in Hin. lia.
    + intros t H0 Hlt. rewrite in_app_iff. simpl.
      destruct (Nat.eq_dec t (t_n st)) as [->|Hne]; [right; left; reflexivity|].
      left. apply Hcov; lia.
Qed.

Lemma path_tree : forall gs st cur st' last,
  st_ok st -> cur < t_n st -> st_tree st -> insert_path st cur gs = Some (st', last) ->
  st_tree st'.
Proof.
  induction gs as [|g gs IH]; intros st cur st' last Hok Hc Ht H; simpl in H.
  - inversion H; subst. exact Ht.
  - destruct (step_insert st cur g) as [[st1 nx]|] eqn:S; [|discriminate].
    destruct (step_ok _ _ _ _ _ Hok Hc S) as (Hok1 & Hnx & _).
    eapply IH; [exact Hok1|exact Hnx| |exact H]. eapply step_tree; [exact Hok|exact Ht|exact S].
Qed.

Lemma acc_tree_inv : forall cls a, trie_acc_of cls = Some a -> st_tree (ta_st a).
Proof.
  induction cls as [|cl cls IH] using rev_ind; intros a H.
  - unfold trie_acc_of in H; simpl in H. inversion H; subst. split; simpl.
    + constructor.
    + intros t H0 H1. lia.
  - apply trie_acc_snoc_inv in H. destruct H as (a0 & st' & last & H0 & P & ->).
    destruct (acc_ok_inv _ _ H0) as [Hok _].
    assert (H0n : 0 < t_n (ta_st a0)) by (destruct Hok; lia).
    simpl. eapply path_tree; [exact Hok|exact H0n|apply IH; exact H0|exact P].
Qed.

(* the shape of tries: root 0, edges go to larger states, no edge enters the root, every
   other state has an incoming edge, no parallel edges *)
Record tree_shape (d : dfa) : Prop := mkShape {
  sh_root : d_init d = 0;
  sh_incr : forall e, In e (d_edges d) -> e_src e < e_dst e;
  sh_root_in : forall e, In e (d_edges d) -> e_dst e <> d_init d;
  sh_incoming : forall t, t < d_n d -> t <> d_init d ->
                  exists e, In e (d_edges d) /\ e_dst e = t;
  sh_unique_in : forall e1 e2, In e1 (d_edges d) -> In e2 (d_edges d) ->
                  e_dst e1 = e_dst e2 -> e1 = e2
}.

Lemma NoDup_map_inj : forall (A B : Type) (f : A -> B) l x y,
  NoDup (map f l) -> In x l -> In y l -> f x = f y -> x = y.
Proof.
  intros A B f. induction l as [|z l IH]; intros x y Hnd Hx Hy E; [destruct Hx|].
  simpl in Hnd. inversion Hnd as [|? ? Hz Hl]; subst.
  destruct Hx as [->|Hx]; destruct Hy as [->|Hy]; auto.
  - exfalso. apply Hz. rewrite E. apply in_map; exact Hy.
  - exfalso. apply Hz. rewrite <- E. apply in_map; exact Hx.
Qed.

Theorem trie_shape : forall cls d, trie_of cls = Some d -> tree_shape d.
Proof.
  intros cls d H. apply trie_of_inv in H. destruct H as (a & Ha & ->).
  destruct (acc_ok_inv _ _ Ha) as [[Hn He] _].
  destruct (acc_tree_inv _ _ Ha) as [Hnd Hcov].
  constructor; simpl.
  - reflexivity.
  - intros [[s m] g] Hin. unfold e_src, e_dst; simpl. apply He in Hin. lia.
  - intros [[s m] g] Hin. unfold e_dst; simpl. apply He in Hin. lia.
  - intros t Ht Hne. assert (Hin : In t (map e_dst (t_edges (ta_st a)))) by (apply Hcov; lia).
    apply in_map_iff in Hin. destruct Hin as (e & E & Hin). eauto.
  - intros e1 e2 H1 H2 E. eapply NoDup_map_inj; eauto.
Qed.

Lemma tree_shape_no_parallel : forall d, tree_shape d -> no_parallel d.
Proof. intros d Hs e1 e2 H1 H2 _ E. apply (sh_unique_in d Hs); auto. Qed.

Lemma tree_shape_acyclic : forall d, tree_shape d ->
  exists rank : nat -> nat, forall e, In e (d_edges d) -> rank (e_dst e) < rank (e_src e).
Proof.
  intros d Hs. exists (fun s => d_n d + S (list_max (map e_dst (d_edges d))) - s).
  intros e Hin. pose proof (sh_incr d Hs e Hin).
  assert (e_dst e <= list_max (map e_dst (d_edges d))).
  { pose proof (proj1 (list_max_le (map e_dst (d_edges d)) _) (Nat.le_refl _)) as HF.
    rewrite Forall_forall in HF. apply HF. apply in_map; exact Hin. }
  lia.
Qed.

(* ---------- an executable test for "the known defect does not bite" ---------- *)
Definition eps_safeb (d : dfa) (p : list block) : bool :=
  negb (set_mem (d_init d) (d_finals d))
  || existsb (fun e => onat_eqb (block_index (e_dst e) p 0) (block_index (d_init d) p 0))
             (d_edges d).

Lemma eps_safeb_spec : forall d p, eps_safeb d p = true -> eps_safe d p.
Proof.
  intros d p H. unfold eps_safeb in H. apply orb_true_iff in H. destruct H as [H|H].
  - left. intros Hin. apply set_mem_in in Hin. rewrite Hin in H. discriminate.
  - right. apply existsb_exists in H. destruct H as (e & Hin & H).
    apply onat_eqb_true in H. destruct H as (i & E1 & E2). exists e. split; congruence.
Qed.

(* for tree-shaped automata: the root's block contains another state *)
Lemma tree_eps_safe : forall d p t, tree_shape d ->
  t < d_n d -> t <> d_init d -> block_index t p 0 = block_index (d_init d) p 0 ->
  eps_safe d p.
Proof.
  intros d p t Hs Ht Hne Hb. right.
  destruct (sh_incoming d Hs t Ht Hne) as (e & Hin & <-). eauto.
Qed.

(* ====================================================================== *)
(* main statements, in terms of the boolean checker                        *)
(* ====================================================================== *)
Section Main.
  Variable lit_den cls_den : cp -> cp -> Prop.
  Variables (d d' : dfa) (p : list block).
  Hypothesis Hwf : wf_dfa d.
  Hypothesis Hnp : no_parallel d.
  Hypothesis Hck : stableb d p = true.
  Hypothesis Hrg : recreate_graph d p = Some d'.

  Theorem quotient_lang_sub : lsub (L_dfa lit_den cls_den d') (L_dfa lit_den cls_den d).
  Proof. eapply quotient_lang_sub_st; eauto using stableb_spec. Qed.

  Theorem quotient_lang_eps : L_dfa lit_den cls_den d' [] -> L_dfa lit_den cls_den d [].
  Proof. eapply quotient_lang_eps_st; eauto using stableb_spec. Qed.

  Theorem quotient_lang_nonempty : forall u, u <> [] ->
    (L_dfa lit_den cls_den d' u <-> L_dfa lit_den cls_den d u).
  Proof. eapply quotient_lang_nonempty_st; eauto using stableb_spec. Qed.

  Theorem quotient_lang_eps_kept : eps_safe d p ->
    leq (L_dfa lit_den cls_den d') (L_dfa lit_den cls_den d).
  Proof. eapply quotient_lang_eps_kept_st; eauto using stableb_spec. Qed.

  Corollary quotient_lang_root_not_final : ~ In (d_init d) (d_finals d) ->
    leq (L_dfa lit_den cls_den d') (L_dfa lit_den cls_den d).
  Proof. intros H. apply quotient_lang_eps_kept. left; exact H. Qed.

  Theorem quotient_wf : wf_dfa d'.
  Proof. eapply quotient_wf_st; eauto using stableb_spec. Qed.

  Theorem quotient_acyclic :
    (exists rank : nat -> nat, forall e, In e (d_edges d) -> rank (e_dst e) < rank (e_src e)) ->
    exists rank' : nat -> nat, forall e, In e (d_edges d') -> rank' (e_dst e) < rank' (e_src e).
  Proof. eapply quotient_acyclic_stable; eauto using stableb_spec. Qed.
End Main.

(* ---------- instantiation: minimising a trie with a checked partition ---------- *)
Section Trie.
  Variable lit_den cls_den : cp -> cp -> Prop.
  Variables (cls : list cluster) (d d' : dfa) (p : list block).
  Hypothesis Hcls : Forall wf_cluster cls.
  Hypothesis Htrie : trie_of cls = Some d.
  Hypothesis Hck : stableb d p = true.
  Hypothesis Hrg : recreate_graph d p = Some d'.

  Theorem trie_quotient_lang_nonempty : forall u, u <> [] ->
    (L_dfa lit_den cls_den d' u <-> L_dfa lit_den cls_den d u).
  Proof.
    eapply quotient_lang_nonempty; eauto using trie_wf, tree_shape_no_parallel, trie_shape.
  Qed.

  Theorem trie_quotient_lang_sub : lsub (L_dfa lit_den cls_den d') (L_dfa lit_den cls_den d).
  Proof. eapply quotient_lang_sub; eauto using trie_wf. Qed.

  Theorem trie_quotient_lang_eps_kept : eps_safeb d p = true ->
    leq (L_dfa lit_den cls_den d') (L_dfa lit_den cls_den d).
  Proof.
    intros H. eapply quotient_lang_eps_kept;
      eauto using trie_wf, tree_shape_no_parallel, trie_shape, eps_safeb_spec.
  Qed.

  Theorem trie_quotient_wf : wf_dfa d'.
  Proof. eapply quotient_wf; eauto using trie_wf. Qed.

  Theorem trie_quotient_acyclic :
    exists rank' : nat -> nat, forall e, In e (d_edges d') -> rank' (e_dst e) < rank' (e_src e).
  Proof.
    eapply quotient_acyclic; eauto using trie_wf. eapply trie_acyclic; eauto.
  Qed.
End Trie.

Theorem trie_recreate_total : forall cls d p,
  Forall wf_cluster cls -> trie_of cls = Some d -> stableb d p = true ->
  exists d', recreate_graph d p = Some d'.
Proof. intros cls d p Hc Ht Hs. apply recreate_total; eauto using trie_wf. Qed.

(* ====================================================================== *)
(* sanity checks of the checker on a real example: "ab" "ac" "xb" "xc"     *)
(* ====================================================================== *)
Module Sanity.
  Definition w (l : list N) : cluster := map (fun c => g_from [c]) l.
  Definition cls : list cluster := [w [97;98]; w [97;99]; w [120;98]; w [120;99]]%N.
  Definition t : dfa := match trie_of cls with Some d => d | None => mkDfa 0 [] 0 [] [] end.
  Definition pt : list block := match partition_of t with Some p => p | None => [] end.

  Example trie_n : d_n t = 7. Proof. vm_compute. reflexivity. Qed.
  Example part_is : pt = [[0]; [1; 4]; [2; 3; 5; 6]]. Proof. vm_compute. reflexivity. Qed.
  Example good : stableb t pt = true. Proof. vm_compute. reflexivity. Qed.
  Example good_eps : eps_safeb t pt = true. Proof. vm_compute. reflexivity. Qed.
  (* the discrete partition is stable too *)
  Example good_discrete : stableb t [[0];[1];[2];[3];[4];[5];[6]] = true.
  Proof. vm_compute. reflexivity. Qed.
  (* wrong partitions are rejected: root merged with an inner state *)
  Example bad_merge : stableb t [[0; 1]; [4]; [2; 3; 5; 6]] = false.
  Proof. vm_compute. reflexivity. Qed.
  (* final and non-final mixed *)
  Example bad_final : stableb t [[0]; [1; 4; 2]; [3; 5; 6]] = false.
  Proof. vm_compute. reflexivity. Qed.
  (* a state is missing *)
  Example bad_cover : stableb t [[0]; [1; 4]; [2; 3; 5]] = false.
  Proof. vm_compute. reflexivity. Qed.
  (* overlapping blocks *)
  Example bad_overlap : stableb t [[0]; [1; 4]; [4]; [2; 3; 5; 6]] = false.
  Proof. vm_compute. reflexivity. Qed.
  (* an empty block *)
  Example bad_empty : stableb t [[0]; []; [1; 4]; [2; 3; 5; 6]] = false.
  Proof. vm_compute. reflexivity. Qed.
  (* a state that does not exist *)
  Example bad_range : stableb t [[0]; [1; 4]; [2; 3; 5; 6; 7]] = false.
  Proof. vm_compute. reflexivity. Qed.
  (* "ab" "ac" "xb" "xd": 1 and 4 are no longer equivalent *)
  Definition cls2 : list cluster := [w [97;98]; w [97;99]; w [120;98]; w [120;100]]%N.
  Definition t2 : dfa := match trie_of cls2 with Some d => d | None => mkDfa 0 [] 0 [] [] end.
  Example bad_labels : stableb t2 [[0]; [1; 4]; [2; 3; 5; 6]] = false.
  Proof. vm_compute. reflexivity. Qed.
  Example good2 : match partition_of t2 with Some p => stableb t2 p | None => false end = true.
  Proof. vm_compute. reflexivity. Qed.
  (* the known defect: "" and "a": the root is final and alone in its block *)
  Definition cls3 : list cluster := [w []; w [97]]%N.
  Definition t3 : dfa := match trie_of cls3 with Some d => d | None => mkDfa 0 [] 0 [] [] end.
  Example defect_stable : match partition_of t3 with Some p => stableb t3 p | None => false end = true.
  Proof. vm_compute. reflexivity. Qed.
  Example defect_flagged : match partition_of t3 with Some p => eps_safeb t3 p | None => true end = false.
  Proof. vm_compute. reflexivity. Qed.
End Sanity.


(* ====================================================================== *)
(* 4. minimality (optional part): if p is the coarsest stable partition,   *)
(*    the quotient has no two distinct bisimilar states                    *)
(* ====================================================================== *)

Lemma str_eqb_refl : forall a, str_eqb a a = true.
Proof. induction a as [|x a IH]; simpl; auto. rewrite N.eqb_refl, IH. reflexivity. Qed.

Lemma strs_eqb_refl : forall a, strs_eqb a a = true.
Proof.
  unfold strs_eqb. induction a as [|x a IH]; simpl; auto. rewrite str_eqb_refl, IH. reflexivity.
Qed.

Lemma lbl_eqb_intro : forall g h,
  g_chars g = g_chars h -> g_min g = g_min h -> g_max g = g_max h -> lbl_eqb g h = true.
Proof.
  intros g h H1 H2 H3. unfold lbl_eqb. rewrite H1, H2, H3.
  rewrite strs_eqb_refl, !N.eqb_refl. reflexivity.
Qed.

Lemma lbl_eqb_refl : forall g, lbl_eqb g g = true.
Proof. intros g. apply lbl_eqb_intro; reflexivity. Qed.

Lemma lbl_eqb_sym : forall g h, lbl_eqb g h = true -> lbl_eqb h g = true.
Proof.
  intros g h H. apply lbl_eqb_eq in H. destruct H as (H1 & H2 & H3).
  apply lbl_eqb_intro; auto.
Qed.

Lemma lbl_eqb_trans : forall g h k,
  lbl_eqb g h = true -> lbl_eqb h k = true -> lbl_eqb g k = true.
Proof.
  intros g h k H K. apply lbl_eqb_eq in H. apply lbl_eqb_eq in K.
  destruct H as (H1 & H2 & H3). destruct K as (K1 & K2 & K3).
  apply lbl_eqb_intro; congruence.
Qed.

(* label bisimulation (two-sided, so R need not be symmetric) *)
Definition bisim (d : dfa) (R : nat -> nat -> Prop) : Prop :=
  forall s t, R s t ->
    (In s (d_finals d) <-> In t (d_finals d))
    /\ (forall e, In e (d_edges d) -> e_src e = s ->
          exists e', In e' (d_edges d) /\ e_src e' = t
                     /\ lbl_eqb (e_lbl e) (e_lbl e') = true /\ R (e_dst e) (e_dst e'))
    /\ (forall e', In e' (d_edges d) -> e_src e' = t ->
          exists e, In e (d_edges d) /\ e_src e = s
                    /\ lbl_eqb (e_lbl e) (e_lbl e') = true /\ R (e_dst e) (e_dst e')).

(* p identifies every pair of bisimilar states *)
Definition coarsest (d : dfa) (p : list block) : Prop :=
  forall R, bisim d R -> forall s t, s < d_n d -> t < d_n d -> R s t ->
    block_index s p 0 = block_index t p 0.

(* every final state shares its block with a state that has an incoming edge: then no
   block loses its finality in recreate_graph *)
Definition fin_safe (d : dfa) (p : list block) : Prop :=
  forall t, In t (d_finals d) ->
    exists e, In e (d_edges d) /\ block_index (e_dst e) p 0 = block_index t p 0.

Lemma tree_fin_safe : forall d p, wf_dfa d -> tree_shape d -> eps_safe d p -> fin_safe d p.
Proof.
  intros d p Hwf Hs Heps t Ht.
  destruct (Nat.eq_dec t (d_init d)) as [->|Hne].
  - destruct Heps as [Hnf|H]; [contradiction|exact H].
  - destruct Hwf as (_ & _ & Hf). rewrite Forall_forall in Hf.
    destruct (sh_incoming d Hs t (Hf _ Ht) Hne) as (e & Hin & <-). eauto.
Qed.

Section Minimal.
  Variables (d d' : dfa) (p : list block).
  Hypothesis Hwf : wf_dfa d.
  Hypothesis Hnp : no_parallel d.
  Hypothesis Hst : stable d p.
  Hypothesis Hrg : recreate_graph d p = Some d'.
  Hypothesis Hfs : fin_safe d p.

  Lemma fin_fwd : forall t j, In t (d_finals d) -> block_index t p 0 = Some j ->
    In j (d_finals d').
  Proof.
    intros t j Ht Hj. destruct (Hfs t Ht) as (e & Hin & Hb).
    destruct (edge_fwd d d' p Hwf Hst Hrg Hnp e Hin) as (i1 & j1 & h & _ & B2 & _ & _ & HF).
    assert (j1 = j) by congruence. subst j1. apply HF.
    rewrite Hj in Hb.
    destruct (st_pair d p Hst _ _ _ Hb Hj) as [HFF _]. apply HFF; exact Ht.
  Qed.

  (* a bisimulation on d' pulled back to d *)
  Lemma bisim_pullback : forall R', bisim d' R' ->
    bisim d (fun s t => exists i j, block_index s p 0 = Some i /\ block_index t p 0 = Some j
                                    /\ R' i j).
  Proof.
    intros R' HB s t (i & j & Hi & Hj & HR).
    destruct (HB i j HR) as (HF & HE1 & HE2). split; [|split].
    - split; intros H.
      + eapply (fin_back d d' p Hst Hrg j); [|exact Hj]. apply HF. eapply fin_fwd; eauto.
      + eapply (fin_back d d' p Hst Hrg i); [|exact Hi]. apply HF. eapply fin_fwd; eauto.
    - intros e Hin Hs.
      destruct (edge_fwd d d' p Hwf Hst Hrg Hnp e Hin) as (i1 & j1 & h & B1 & B2 & Hin' & Hl & _).
      rewrite Hs in B1. assert (i1 = i) by congruence. subst i1.
      destruct (HE1 _ Hin' eq_refl) as ([[j0 j2] h'] & Hin2 & Hs2 & Hl2 & HR2).
      unfold e_src, e_dst, e_lbl in Hs2, Hl2, HR2; simpl in Hs2, Hl2, HR2. subst j0.
      destruct (edge_back d d' p Hst Hrg _ _ _ t Hin2 Hj) as (e' & Hine' & Hse' & Hde' & Hl3).
      exists e'. split; [exact Hine'|]. split; [exact Hse'|]. split.
      * eapply lbl_eqb_trans; [exact Hl|]. eapply lbl_eqb_trans; [exact Hl2|exact Hl3].
      * exists j1, j2. auto.
    - intros e' Hin Hs.
      destruct (edge_fwd d d' p Hwf Hst Hrg Hnp e' Hin) as (i1 & j1 & h & B1 & B2 & Hin' & Hl & _).
      rewrite Hs in B1. assert (i1 = j) by congruence. subst i1.
      destruct (HE2 _ Hin' eq_refl) as ([[i0 i2] h'] & Hin2 & Hs2 & Hl2 & HR2).
      unfold e_src, e_dst, e_lbl in Hs2, Hl2, HR2; simpl in Hs2, Hl2, HR2. subst i0.
      destruct (edge_back d d' p Hst Hrg _ _ _ s Hin2 Hi) as (e & Hine & Hse & Hde & Hl3).
      exists e. split; [exact Hine|]. split; [exact Hse|]. split.
      * apply lbl_eqb_sym.
        eapply lbl_eqb_trans; [exact Hl|]. eapply lbl_eqb_trans; [apply lbl_eqb_sym; exact Hl2|exact Hl3].
      * exists i2, j1. auto.
  Qed.

  Theorem quotient_no_bisimilar_st : coarsest d p ->
    forall R', bisim d' R' -> forall i j, i < d_n d' -> j < d_n d' -> R' i j -> i = j.
  Proof.
    intros Hco R' HB i j Hi Hj HR.
    pose proof (proj1 (recreate_graph_inv d p d' Hrg)) as Hn'. rewrite Hn' in Hi, Hj.
    destruct (nth_error p i) as [bi_|] eqn:Ni; [|apply nth_error_None in Ni; lia].
    destruct (nth_error p j) as [bj|] eqn:Nj; [|apply nth_error_None in Nj; lia].
    destruct (st_block d p Hst i bi_ Ni) as [Hnei Hmi].
    destruct (st_block d p Hst j bj Nj) as [Hnej Hmj].
    destruct bi_ as [|s bi_]; [congruence|]. destruct bj as [|t bj]; [congruence|].
    destruct (Hmi s (or_introl eq_refl)) as [Hs Hbs].
    destruct (Hmj t (or_introl eq_refl)) as [Ht Hbt].
    pose proof (Hco _ (bisim_pullback R' HB) s t Hs Ht) as E.
    assert (block_index s p 0 = block_index t p 0) by (apply E; exists i, j; auto).
    congruence.
  Qed.
End Minimal.


(* ---------- right languages over labels (words of labels up to lbl_eqb) ---------- *)
(* On code points two different label words can denote the same strings (e.g. the labels
   ["ab"] and ["a"],["b"]), so minimality is a statement about label words. *)
Inductive lpath (es : list edge) : nat -> list grapheme -> nat -> Prop :=
| lpath_nil : forall s, lpath es s [] s
| lpath_step : forall s m t g h w,
    In (s, m, g) es -> lbl_eqb g h = true -> lpath es m w t -> lpath es s (h :: w) t.

Definition Lw_from (d : dfa) (s : nat) (w : list grapheme) : Prop :=
  exists t, In t (d_finals d) /\ lpath (d_edges d) s w t.

(* the code point language is the denotation of the label language *)
Lemma path_labels_iff : forall lit_den cls_den es s u t,
  path lit_den cls_den es s u t <->
  exists w, lpath es s w t /\ L_cluster lit_den cls_den w u.
Proof.
  intros lit_den cls_den es s u t. split.
  - intros H. induction H as [s|s m t g v w Hin Hd Hp IH].
    + exists []. split; [constructor|reflexivity].
    + destruct IH as (lw & Hl & HL). exists (g :: lw). split.
      * eapply lpath_step; [exact Hin|apply lbl_eqb_refl|exact Hl].
      * simpl. exists v, w. auto.
  - intros (lw & Hl & HL). revert u HL. induction Hl as [s|s m t g h w Hin Hlb Hl IH]; intros u HL.
    + simpl in HL. unfold leps in HL. subst u. constructor.
    + simpl in HL. destruct HL as (v & x & -> & Hv & Hx).
      eapply path_step; [exact Hin| |apply IH; exact Hx].
      apply (den_g_lbl lit_den cls_den g h Hlb). exact Hv.
Qed.

Theorem L_from_labels : forall lit_den cls_den d s u,
  L_from lit_den cls_den d s u <->
  exists w, Lw_from d s w /\ L_cluster lit_den cls_den w u.
Proof.
  intros lit_den cls_den d s u. unfold L_from, Lw_from. split.
  - intros (t & Ht & Hp). apply path_labels_iff in Hp. destruct Hp as (w & Hl & HL).
    exists w. split; [exists t; auto|exact HL].
  - intros (w & (t & Ht & Hl) & HL). exists t. split; [exact Ht|].
    apply path_labels_iff. exists w. auto.
Qed.

Definition deterministic (d : dfa) : Prop :=
  forall e1 e2, In e1 (d_edges d) -> In e2 (d_edges d) ->
    e_src e1 = e_src e2 -> lbl_eqb (e_lbl e1) (e_lbl e2) = true -> e_dst e1 = e_dst e2.

(* every state reaches a final state *)
Definition trim (d : dfa) : Prop := forall s, s < d_n d -> exists w, Lw_from d s w.

(* in a deterministic trim automaton, equality of right label languages is a bisimulation *)
Lemma lang_equiv_bisim : forall d, wf_dfa d -> deterministic d -> trim d ->
  bisim d (fun s t => s < d_n d /\ t < d_n d /\ forall w, Lw_from d s w <-> Lw_from d t w).
Proof.
  intros d Hwf Hdet Htrim.
  assert (Half : forall s t, (forall w, Lw_from d s w -> Lw_from d t w) ->
            forall e, In e (d_edges d) -> e_src e = s ->
            exists e', In e' (d_edges d) /\ e_src e' = t
                       /\ lbl_eqb (e_lbl e) (e_lbl e') = true
                       /\ forall w, Lw_from d (e_dst e) w -> Lw_from d (e_dst e') w).
  { intros s t Hsub [[s0 m] g] Hin Hs. unfold e_src, e_dst, e_lbl in *; simpl in *. subst s0.
    destruct (wf_dfa_edge d _ Hwf Hin) as (_ & Hm & _). unfold e_dst in Hm; simpl in Hm.
    destruct (Htrim m Hm) as (w0 & t0 & Ht0 & Hp0).
    assert (H0 : Lw_from d t (g :: w0)).
    { apply Hsub. exists t0. split; [exact Ht0|].
      eapply lpath_step; [exact Hin|apply lbl_eqb_refl|exact Hp0]. }
    destruct H0 as (t1 & Ht1 & Hp1). inversion Hp1 as [|? m1 ? g1 ? ? Hin1 Hl1 Hp1']; subst.
    exists (t, m1, g1). simpl. split; [exact Hin1|]. split; [reflexivity|].
    split; [apply lbl_eqb_sym; exact Hl1|].
    intros w (t2 & Ht2 & Hp2).
    assert (H2 : Lw_from d t (g :: w)).
    { apply Hsub. exists t2. split; [exact Ht2|].
      eapply lpath_step; [exact Hin|apply lbl_eqb_refl|exact Hp2]. }
    destruct H2 as (t3 & Ht3 & Hp3). inversion Hp3 as [|? m3 ? g3 ? ? Hin3 Hl3 Hp3']; subst.
    assert (E : m3 = m1).
    { apply (Hdet (t, m3, g3) (t, m1, g1)); auto. unfold e_lbl; simpl.
      eapply lbl_eqb_trans; [exact Hl3|apply lbl_eqb_sym; exact Hl1]. }
    subst m3. exists t3. auto. }
  intros s t (Hs & Ht & Heq). split; [|split].
  - split; intros H.
    + destruct (proj1 (Heq []) (ex_intro _ s (conj H (lpath_nil _ s)))) as (t1 & Ht1 & Hp1).
      inversion Hp1; subst. exact Ht1.
    + destruct (proj2 (Heq []) (ex_intro _ t (conj H (lpath_nil _ t)))) as (t1 & Ht1 & Hp1).
      inversion Hp1; subst. exact Ht1.
  - intros e Hin Hse.
    destruct (Half s t (fun w => proj1 (Heq w)) e Hin Hse) as (e' & Hin' & Hs' & Hl & Hsub).
    exists e'. split; [exact Hin'|]. split; [exact Hs'|]. split; [exact Hl|].
    split; [apply (wf_dfa_edge d e Hwf Hin)|]. split; [apply (wf_dfa_edge d e' Hwf Hin')|].
    intros w. split; [apply Hsub|].
    (* the converse inclusion: go back from e' and use determinism *)
    destruct (Half t s (fun w => proj2 (Heq w)) e' Hin' Hs') as (e2 & Hin2 & Hs2 & Hl2 & Hsub2).
    assert (E : e_dst e2 = e_dst e).
    { apply Hdet; auto; [congruence|].
      eapply lbl_eqb_trans; [apply lbl_eqb_sym; exact Hl2|apply lbl_eqb_sym; exact Hl]. }
    rewrite <- E. apply Hsub2.
  - intros e' Hin' Hse'.
    destruct (Half t s (fun w => proj2 (Heq w)) e' Hin' Hse') as (e & Hin & Hs' & Hl & Hsub).
    exists e. split; [exact Hin|]. split; [exact Hs'|]. split; [apply lbl_eqb_sym; exact Hl|].
    split; [apply (wf_dfa_edge d e Hwf Hin)|]. split; [apply (wf_dfa_edge d e' Hwf Hin')|].
    intros w. split; [|apply Hsub].
    destruct (Half s t (fun w => proj1 (Heq w)) e Hin Hs') as (e2 & Hin2 & Hs2 & Hl2 & Hsub2).
    assert (E : e_dst e2 = e_dst e').
    { apply Hdet; auto; [congruence|].
      eapply lbl_eqb_trans; [apply lbl_eqb_sym; exact Hl2|apply lbl_eqb_sym; exact Hl]. }
    rewrite <- E. apply Hsub2.
Qed.

Section Minimal2.
  Variables (d d' : dfa) (p : list block).
  Hypothesis Hwf : wf_dfa d.
  Hypothesis Hnp : no_parallel d.
  Hypothesis Hst : stable d p.
  Hypothesis Hrg : recreate_graph d p = Some d'.
  Hypothesis Hfs : fin_safe d p.

  Lemma lpath_fwd : forall s w t, lpath (d_edges d) s w t ->
    forall i, block_index s p 0 = Some i ->
    exists j, block_index t p 0 = Some j /\ lpath (d_edges d') i w j.
  Proof.
    intros s w t H. induction H as [s|s m t g h w Hin Hl Hp IH]; intros i Hs.
    - exists i. split; [exact Hs|constructor].
    - destruct (edge_fwd d d' p Hwf Hst Hrg Hnp _ Hin) as (i1 & j1 & h' & B1 & B2 & Hin' & Hl' & _).
      unfold e_src, e_dst, e_lbl in *; simpl in *.
      assert (i1 = i) by congruence. subst i1.
      destruct (IH _ B2) as (j & Hj & Hpj). exists j. split; [exact Hj|].
      eapply lpath_step; [exact Hin'| |exact Hpj].
      eapply lbl_eqb_trans; [apply lbl_eqb_sym; exact Hl'|exact Hl].
  Qed.

  Lemma quotient_trim : trim d -> trim d'.
  Proof.
    intros Htrim i Hi.
    pose proof (proj1 (recreate_graph_inv d p d' Hrg)) as Hn'. rewrite Hn' in Hi.
    destruct (nth_error p i) as [b|] eqn:Ni; [|apply nth_error_None in Ni; lia].
    destruct (st_block d p Hst i b Ni) as [Hne Hm].
    destruct b as [|s b]; [congruence|].
    destruct (Hm s (or_introl eq_refl)) as [Hs Hbs].
    destruct (Htrim s Hs) as (w & t & Ht & Hp).
    destruct (lpath_fwd _ _ _ Hp _ Hbs) as (j & Hj & Hpj).
    exists w, j. split; [|exact Hpj]. eapply fin_fwd; eauto.
  Qed.

  Lemma quotient_deterministic : deterministic d -> deterministic d'.
  Proof.
    intros Hdet x1 x2 H1 H2 Hs Hl.
    pose proof (proj1 (proj2 (proj2 (recreate_graph_inv d p d' Hrg)))) as Hedges'.
    apply Hedges' in H1. apply Hedges' in H2.
    destruct H1 as (b1 & r1 & i1 & t1 & e1 & j1 & Hb1 & Hm1 & Hbi1 & _ & Hf1 & Hbt1 & ->).
    destruct H2 as (b2 & r2 & i2 & t2 & e2 & j2 & Hb2 & Hm2 & Hbi2 & _ & Hf2 & Hbt2 & ->).
    unfold e_src, e_lbl in Hs, Hl; simpl in Hs, Hl. subst i2.
    destruct (rep_member d p Hst b1 r1 Hb1 Hm1) as (k1 & N1 & K1 & _).
    destruct (rep_member d p Hst b2 r2 Hb2 Hm2) as (k2 & N2 & K2 & _).
    assert (k1 = i1) by congruence. assert (k2 = i1) by congruence. subst k1 k2.
    assert (b2 = b1) by congruence. subst b2. assert (r2 = r1) by congruence. subst r2.
    apply find_edge_some in Hf1. destruct Hf1 as (I1 & S1 & D1).
    apply find_edge_some in Hf2. destruct Hf2 as (I2 & S2 & D2).
    assert (e_dst e1 = e_dst e2) by (apply Hdet; auto; congruence).
    assert (t2 = t1) by congruence. subst t2. unfold e_dst; simpl. congruence.
  Qed.

  Theorem quotient_deterministic_minimal_st :
    deterministic d -> trim d -> coarsest d p ->
    forall i j, i < d_n d' -> j < d_n d' ->
      (forall w, Lw_from d' i w <-> Lw_from d' j w) -> i = j.
  Proof.
    intros Hdet Htrim Hco i j Hi Hj Heq.
    pose proof (quotient_wf_st d d' p Hwf Hrg) as Hwf'.
    eapply (quotient_no_bisimilar_st d d' p Hwf Hnp Hst Hrg Hfs Hco _
              (lang_equiv_bisim d' Hwf' (quotient_deterministic Hdet) (quotient_trim Htrim)));
      auto.
  Qed.
End Minimal2.

Theorem quotient_no_bisimilar : forall d d' p,
  wf_dfa d -> no_parallel d -> stableb d p = true -> recreate_graph d p = Some d' ->
  fin_safe d p -> coarsest d p ->
  forall R', bisim d' R' -> forall i j, i < d_n d' -> j < d_n d' -> R' i j -> i = j.
Proof. intros d d' p Hwf Hnp Hck. eapply quotient_no_bisimilar_st; eauto using stableb_spec. Qed.

Theorem quotient_deterministic_minimal : forall d d' p,
  wf_dfa d -> no_parallel d -> stableb d p = true -> recreate_graph d p = Some d' ->
  fin_safe d p -> deterministic d -> trim d -> coarsest d p ->
  forall i j, i < d_n d' -> j < d_n d' ->
    (forall w, Lw_from d' i w <-> Lw_from d' j w) -> i = j.
Proof.
  intros d d' p Hwf Hnp Hck. eapply quotient_deterministic_minimal_st; eauto using stableb_spec.
Qed.


(* ====================================================================== *)
(* 5. a direct minimality check of the result (no "coarsest" hypothesis)   *)
(* ====================================================================== *)

(* bounded bisimilarity test; sound for rejecting: bisimilar states pass for every fuel.
   Written with if-then-else so that call-by-value evaluation only recurses on matching
   edges. *)
Fixpoint equivb (fuel : nat) (d : dfa) (s t : nat) : bool :=
  match fuel with
  | O => true
  | S f =>
      if Bool.eqb (set_mem s (d_finals d)) (set_mem t (d_finals d)) then
        if forallb (fun e =>
             if Nat.eqb (e_src e) s then
               existsb (fun e' => if Nat.eqb (e_src e') t then
                                    if lbl_eqb (e_lbl e) (e_lbl e')
                                    then equivb f d (e_dst e) (e_dst e') else false
                                  else false) (d_edges d)
             else true) (d_edges d)
        then
          forallb (fun e' =>
             if Nat.eqb (e_src e') t then
               existsb (fun e => if Nat.eqb (e_src e) s then
                                   if lbl_eqb (e_lbl e) (e_lbl e')
                                   then equivb f d (e_dst e) (e_dst e') else false
                                 else false) (d_edges d)
             else true) (d_edges d)
        else false
      else false
  end.

Lemma bisim_equivb : forall d R, bisim d R ->
  forall fuel s t, R s t -> equivb fuel d s t = true.
Proof.
  intros d R HB. induction fuel as [|f IH]; intros s t HR; [reflexivity|]. simpl.
  destruct (HB s t HR) as (HF & HE1 & HE2).
  match goal with |- (if ?c then _ else _) = true => destruct c eqn:A1 end.
  - match goal with |- (if ?c then _ else _) = true => destruct c eqn:A2 end.
    + apply forallb_forall. intros e' Hin'.
      destruct (Nat.eqb (e_src e') t) eqn:E; [|reflexivity].
      apply Nat.eqb_eq in E. destruct (HE2 e' Hin' E) as (e & Hin & Hs & Hl & HR').
      apply existsb_exists. exists e. split; [exact Hin|].
      apply Nat.eqb_eq in Hs. rewrite Hs, Hl. apply IH; exact HR'.
    + rewrite <- A2. apply forallb_forall. intros e Hin.
      destruct (Nat.eqb (e_src e) s) eqn:E; [|reflexivity].
      apply Nat.eqb_eq in E. destruct (HE1 e Hin E) as (e' & Hin' & Hs' & Hl & HR').
      apply existsb_exists. exists e'. split; [exact Hin'|].
      apply Nat.eqb_eq in Hs'. rewrite Hs', Hl. apply IH; exact HR'.
  - rewrite <- A1. apply eqb_true_iff.
    destruct (set_mem s (d_finals d)) eqn:A; destruct (set_mem t (d_finals d)) eqn:B; auto.
    + apply set_mem_in in A. apply HF in A. apply set_mem_in in A. congruence.
    + apply set_mem_in in B. apply HF in B. apply set_mem_in in B. congruence.
Qed.

Definition minimalb (d : dfa) : bool :=
  forallb (fun s => forallb (fun t => Nat.eqb s t || negb (equivb (d_n d) d s t))
                            (seq 0 (d_n d)))
          (seq 0 (d_n d)).

Theorem minimalb_spec : forall d, minimalb d = true ->
  forall R, bisim d R -> forall s t, s < d_n d -> t < d_n d -> R s t -> s = t.
Proof.
  intros d H R HB s t Hs Ht HR. unfold minimalb in H. rewrite forallb_forall in H.
  assert (Hs' : In s (seq 0 (d_n d))) by (apply in_seq; lia).
  assert (Ht' : In t (seq 0 (d_n d))) by (apply in_seq; lia).
  specialize (H s Hs'). rewrite forallb_forall in H. specialize (H t Ht').
  rewrite (bisim_equivb d R HB _ _ _ HR) in H. simpl in H. rewrite orb_false_r in H.
  apply Nat.eqb_eq in H. exact H.
Qed.

Definition detb (d : dfa) : bool :=
  forallb (fun e1 =>
     forallb (fun e2 => negb (Nat.eqb (e_src e1) (e_src e2) && lbl_eqb (e_lbl e1) (e_lbl e2))
                        || Nat.eqb (e_dst e1) (e_dst e2)) (d_edges d)) (d_edges d).

Lemma detb_spec : forall d, detb d = true -> deterministic d.
Proof.
  intros d H e1 e2 H1 H2 Hs Hl. unfold detb in H. rewrite forallb_forall in H.
  specialize (H e1 H1). rewrite forallb_forall in H. specialize (H e2 H2).
  apply Nat.eqb_eq in Hs. rewrite Hs, Hl in H. simpl in H. apply Nat.eqb_eq in H. exact H.
Qed.

Fixpoint liveb (fuel : nat) (d : dfa) (s : nat) : bool :=
  match fuel with
  | O => false
  | S f => if set_mem s (d_finals d) then true
           else existsb (fun e => if Nat.eqb (e_src e) s then liveb f d (e_dst e) else false)
                        (d_edges d)
  end.

Lemma liveb_spec : forall d fuel s, liveb fuel d s = true -> exists w, Lw_from d s w.
Proof.
  intros d. induction fuel as [|f IH]; intros s H; simpl in H; [discriminate|].
  destruct (set_mem s (d_finals d)) eqn:M.
  - exists [], s. split; [apply set_mem_in; exact M|constructor].
  - apply existsb_exists in H. destruct H as ([[s0 m] g] & Hin & H).
    destruct (Nat.eqb (e_src (s0, m, g)) s) eqn:Hs; [|discriminate]. apply Nat.eqb_eq in Hs.
    unfold e_src, e_dst in *; simpl in *. subst s0.
    destruct (IH _ H) as (w & t & Ht & Hp). exists (g :: w), t. split; [exact Ht|].
    eapply lpath_step; [exact Hin|apply lbl_eqb_refl|exact Hp].
Qed.

Definition trimb (d : dfa) : bool := forallb (liveb (d_n d) d) (seq 0 (d_n d)).

Lemma trimb_spec : forall d, trimb d = true -> trim d.
Proof.
  intros d H s Hs. unfold trimb in H. rewrite forallb_forall in H.
  apply (liveb_spec d (d_n d)). apply H. apply in_seq. lia.
Qed.

Definition min_checkb (d : dfa) : bool := detb d && trimb d && minimalb d.

(* accepted automata have pairwise different right (label) languages *)
Theorem min_checkb_spec : forall d, wf_dfa d -> min_checkb d = true ->
  forall i j, i < d_n d -> j < d_n d ->
    (forall w, Lw_from d i w <-> Lw_from d j w) -> i = j.
Proof.
  intros d Hwf H i j Hi Hj Heq. unfold min_checkb in H.
  apply andb_true_iff in H. destruct H as [H H3].
  apply andb_true_iff in H. destruct H as [H1 H2].
  eapply (minimalb_spec d H3 _
            (lang_equiv_bisim d Hwf (detb_spec d H1) (trimb_spec d H2))); auto.
Qed.

Module Sanity2.
  Import Sanity.
  Definition m : dfa := match minimize t with Some d => d | None => mkDfa 0 [] 0 [] [] end.
  Example m_n : d_n m = 3. Proof. vm_compute. reflexivity. Qed.
  Example m_min : min_checkb m = true. Proof. vm_compute. reflexivity. Qed.
  (* the unminimised trie is deterministic and trim but not minimal *)
  Example t_det : detb t = true. Proof. vm_compute. reflexivity. Qed.
  Example t_trim : trimb t = true. Proof. vm_compute. reflexivity. Qed.
  Example t_not_min : minimalb t = false. Proof. vm_compute. reflexivity. Qed.
  (* the quotient by the discrete partition is not minimal either *)
  Example discrete_not_min :
    match recreate_graph t [[0];[1];[2];[3];[4];[5];[6]] with
    | Some d => minimalb d | None => true end = false.
  Proof. vm_compute. reflexivity. Qed.
  Definition m2 : dfa := match minimize t2 with Some d => d | None => mkDfa 0 [] 0 [] [] end.
  Example m2_min : min_checkb m2 = true. Proof. vm_compute. reflexivity. Qed.
End Sanity2.

Check stableb_spec.
Check recreate_total.
Check quotient_lang_sub.
Check quotient_lang_eps.
Check quotient_lang_nonempty.
Check quotient_lang_eps_kept.
Check quotient_lang_root_not_final.
Check quotient_wf.
Check quotient_acyclic.
Check trie_shape.
Check tree_shape_no_parallel.
Check tree_eps_safe.
Check eps_safeb_spec.
Check trie_quotient_lang_nonempty.
Check trie_quotient_lang_sub.
Check trie_quotient_lang_eps_kept.
Check trie_quotient_wf.
Check trie_quotient_acyclic.
Check trie_recreate_total.
Print Assumptions stableb_spec.
Print Assumptions recreate_total.
Print Assumptions quotient_lang_sub.
Print Assumptions quotient_lang_eps.
Print Assumptions quotient_lang_nonempty.
Print Assumptions quotient_lang_eps_kept.
Print Assumptions quotient_wf.
Print Assumptions quotient_acyclic.
Print Assumptions trie_shape.
Print Assumptions trie_quotient_lang_nonempty.
Print Assumptions trie_quotient_lang_eps_kept.
Print Assumptions trie_quotient_acyclic.
Print Assumptions trie_recreate_total.
Check quotient_no_bisimilar.
Check quotient_deterministic_minimal.
Check L_from_labels.
Check lang_equiv_bisim.
Check minimalb_spec.
Check min_checkb_spec.
Print Assumptions quotient_no_bisimilar.
Print Assumptions quotient_deterministic_minimal.
Print Assumptions min_checkb_spec.
Print Assumptions L_from_labels.
