(* The grapheme-cluster stages (G: cluster_of, K: convert_classes, R: convert_repetitions)
   implement the specification language Spec_str / Spec_cases.  No existing file is modified. *)
From Coq Require Import Setoid Morphisms.
From Grex Require Import Base.Str Model.Config Model.Cluster Model.Pipeline
  Proofs.Lang Proofs.Spec Proofs.RepInv Proofs.ExprLang.
From GrexGen Require Import GrexTables.

(* ------------------------------------------------------------------ *)
(* 0. list helpers                                                     *)
(* ------------------------------------------------------------------ *)

Lemma chunks_concat {A} : forall lens (l : list A), concat (chunks lens l) = l.
Proof.
  induction lens as [|n lens IH]; intros l; simpl.
  - destruct l; simpl; [reflexivity | rewrite app_nil_r; reflexivity].
  - rewrite IH. apply firstn_skipn.
Qed.

Lemma concat_filter_nonempty {A} : forall (ll : list (list A)),
  concat (filter (fun it => match it with [] => false | _ => true end) ll) = concat ll.
Proof.
  induction ll as [|x ll IH]; simpl; [reflexivity|].
  destruct x; simpl; rewrite IH; reflexivity.
Qed.

Lemma map_fst_combine {A B} : forall (a : list A) (b : list B),
  length a <= length b -> map fst (combine a b) = a.
Proof.
  induction a as [|x a IH]; intros b Hlen; simpl; [reflexivity|].
  destruct b as [|y b]; simpl in Hlen; [lia|].
  simpl. rewrite IH by lia. reflexivity.
Qed.

Lemma concat_map_flat_map {A B C} (f : A -> list B) (h : B -> list C) : forall l,
  concat (map h (flat_map f l)) = concat (map (fun x => concat (map h (f x))) l).
Proof.
  induction l as [|x l IH]; simpl; [reflexivity|].
  rewrite map_app, concat_app, IH. reflexivity.
Qed.

(* ------------------------------------------------------------------ *)
(* 1. stage G: cluster_of                                              *)
(* ------------------------------------------------------------------ *)

(* the per-chunk step of cluster_of *)
Definition split_it (it : list (cp * bool)) : cluster :=
  let cs := map fst it in
  if existsb (fun c => N.eqb c c_backslash) cs || existsb snd it
  then map (fun c => g_from [c]) cs
  else [g_from cs].

Lemma cluster_of_eq : forall seg cat s,
  cluster_of seg cat s =
  flat_map split_it
    (filter (fun it => match it with [] => false | _ => true end) (chunks seg (combine s cat))).
Proof. reflexivity. Qed.

(* the shape of every grapheme produced by stage G: one non-empty string, no repetition,
   and a backslash is always alone in its string *)
Definition shape (g : grapheme) : Prop :=
  exists t, g = G [t] [] 1%N 1%N /\ t <> [] /\ (In 92%N t -> t = [92%N]).

Lemma split_it_shape : forall it g, it <> [] -> In g (split_it it) -> shape g.
Proof.
  intros it g Hne Hin. unfold split_it in Hin.
  destruct (existsb (fun c => N.eqb c c_backslash) (map fst it) || existsb snd it) eqn:E.
  - apply in_map_iff in Hin. destruct Hin as [x [Hx _]]. subst g.
    exists [x]. split; [reflexivity|]. split; [discriminate|].
    intros [H|[]]. subst x. reflexivity.
  - destruct Hin as [Hg|[]]. subst g. exists (map fst it). split; [reflexivity|]. split.
    + destruct it; [contradiction Hne; reflexivity | discriminate].
    + intros H92. apply orb_false_iff in E. destruct E as [E _]. exfalso.
      assert (Ht : existsb (fun c => N.eqb c c_backslash) (map fst it) = true).
      { apply existsb_exists. exists 92%N. split; [exact H92 | reflexivity]. }
      rewrite E in Ht. discriminate.
Qed.

Lemma cluster_of_shape : forall seg cat s, Forall shape (cluster_of seg cat s).
Proof.
  intros seg cat s. apply Forall_forall. intros g Hg.
  rewrite cluster_of_eq in Hg. apply in_flat_map in Hg. destruct Hg as [it [Hit Hg]].
  apply filter_In in Hit. destruct Hit as [_ Hne].
  apply (split_it_shape it g); [|exact Hg].
  intros E. subst it. discriminate.
Qed.

Theorem cluster_of_backslash : forall seg cat s g, In g (cluster_of seg cat s) ->
  exists t, g = G [t] [] 1%N 1%N /\ t <> [] /\ (In 92%N t -> t = [92%N]).
Proof.
  intros seg cat s g Hg. pose proof (cluster_of_shape seg cat s) as H.
  rewrite Forall_forall in H. exact (H g Hg).
Qed.

Lemma shape_plain : forall g, shape g -> plain g.
Proof. intros g [t [E _]]. exists t. exact E. Qed.

Lemma shape_wf : forall g, shape g -> wf_g g.
Proof.
  intros g [t [E [Hne _]]]. subst g. simpl. split; [discriminate|].
  split; [constructor; [exact Hne | constructor]|]. split; lia.
Qed.

Theorem cluster_of_plain : forall seg cat s, Forall plain (cluster_of seg cat s).
Proof.
  intros seg cat s. eapply Forall_impl; [|apply cluster_of_shape]. exact shape_plain.
Qed.

Theorem cluster_of_wf : forall seg cat s, Forall wf_g (cluster_of seg cat s).
Proof.
  intros seg cat s. eapply Forall_impl; [|apply cluster_of_shape]. exact shape_wf.
Qed.

(* 2. no code point is lost or reordered *)
Lemma split_it_value : forall it, concat (map g_value (split_it it)) = map fst it.
Proof.
  intros it. unfold split_it.
  destruct (existsb (fun c => N.eqb c c_backslash) (map fst it) || existsb snd it).
  - induction (map fst it) as [|x cs IH]; simpl; [reflexivity|].
    rewrite IH. reflexivity.
  - unfold g_value, g_from. simpl. rewrite !app_nil_r. reflexivity.
Qed.

(* the hypothesis can be weakened to <= : a too long cat list is harmless *)
Lemma cluster_of_concat_le : forall seg cat s, length s <= length cat ->
  concat (map g_value (cluster_of seg cat s)) = s.
Proof.
  intros seg cat s Hlen. rewrite cluster_of_eq. rewrite (concat_map_flat_map split_it g_value).
  rewrite (map_ext _ (map fst) split_it_value).
  rewrite <- concat_map, concat_filter_nonempty, chunks_concat.
  apply map_fst_combine. exact Hlen.
Qed.

Theorem cluster_of_concat : forall seg cat s, length cat = length s ->
  concat (map g_value (cluster_of seg cat s)) = s.
Proof. intros seg cat s Hlen. apply cluster_of_concat_le. lia. Qed.

(* ------------------------------------------------------------------ *)
(* 3. stage K: class tokens                                            *)
(* ------------------------------------------------------------------ *)

Lemma class_token_in : forall c chain x,
  class_token c chain x = [x] \/ In (class_token c chain x) (map snd chain).
Proof.
  intros c chain x. induction chain as [|[[[f neg] t] tok] chain IH]; simpl.
  - left. reflexivity.
  - destruct (flag_of c f && (if neg then negb (table_of t x) else table_of t x)).
    + right. left. reflexivity.
    + destruct IH as [IH|IH]; [left; exact IH | right; right; exact IH].
Qed.

(* every token of the generated chain is a two-character class token *)
Lemma class_chain_tokens :
  forallb (fun tok => match tok with
                      | [b; l] => N.eqb b 92 && is_class_letter l
                      | _ => false
                      end) (map snd class_chain) = true.
Proof. reflexivity. Qed.

Lemma class_token_shape : forall c x,
  class_token c class_chain x = [x] \/
  exists l, class_token c class_chain x = [92%N; l] /\ is_class_letter l = true.
Proof.
  intros c x. destruct (class_token_in c class_chain x) as [H|H]; [left; exact H|right].
  pose proof class_chain_tokens as Hall. rewrite forallb_forall in Hall.
  specialize (Hall _ H).
  destruct (class_token c class_chain x) as [|b [|l [|z r]]]; try discriminate.
  apply andb_true_iff in Hall. destruct Hall as [Hb Hl]. apply N.eqb_eq in Hb. subst b.
  exists l. split; [reflexivity | exact Hl].
Qed.

Lemma class_token_nonempty : forall c x, class_token c class_chain x <> [].
Proof.
  intros c x. destruct (class_token_shape c x) as [H|[l [H _]]]; rewrite H; discriminate.
Qed.

Lemma flat_map_token_nonempty : forall c s, s <> [] ->
  flat_map (class_token c class_chain) s <> [].
Proof.
  intros c [|x s] Hne; [contradiction Hne; reflexivity|]. cbn [flat_map].
  pose proof (class_token_nonempty c x) as Hx.
  destruct (class_token c class_chain x); [contradiction Hx; reflexivity | discriminate].
Qed.

Definition no_class_flag (c : cfg) : Prop :=
  f_digit c = false /\ f_non_digit c = false /\ f_space c = false /\
  f_non_space c = false /\ f_word c = false /\ f_non_word c = false.

Lemma class_token_noflag : forall c x, no_class_flag c -> class_token c class_chain x = [x].
Proof.
  intros c x (H1 & H2 & H3 & H4 & H5 & H6). unfold class_chain. cbn [class_token flag_of].
  rewrite H1, H2, H3, H4, H5, H6. reflexivity.
Qed.

Lemma flat_map_singleton {A} : forall (f : A -> list A) (s : list A),
  (forall x, f x = [x]) -> flat_map f s = s.
Proof.
  intros f s Hf. induction s as [|x s IH]; simpl; [reflexivity|].
  rewrite Hf, IH. reflexivity.
Qed.

Lemma convert_classes_noflag : forall c cl, no_class_flag c -> convert_classes c cl = cl.
Proof.
  intros c cl Hc. unfold convert_classes. rewrite <- (map_id cl) at 2.
  apply map_ext. intros [cs r a b]. simpl. f_equal.
  rewrite <- (map_id cs) at 2. apply map_ext. intros s.
  apply flat_map_singleton. intros x. apply class_token_noflag. exact Hc.
Qed.

Lemma no_class_feature_noflag : forall c, char_class_feature c = false -> no_class_flag c.
Proof.
  intros c H. unfold char_class_feature in H.
  repeat (apply orb_false_iff in H; destruct H as [H ?]).
  unfold no_class_flag. repeat split; assumption.
Qed.

Theorem convert_classes_plain : forall c cl, Forall plain cl -> Forall plain (convert_classes c cl).
Proof.
  intros c cl Hpl. unfold convert_classes. apply Forall_map.
  eapply Forall_impl; [|exact Hpl]. intros g [s Hs]. subst g.
  exists (flat_map (class_token c class_chain) s). reflexivity.
Qed.

Theorem convert_classes_wf : forall c cl, Forall wf_g cl -> Forall wf_g (convert_classes c cl).
Proof.
  intros c cl Hwf. unfold convert_classes. apply Forall_map.
  eapply Forall_impl; [|exact Hwf]. intros [cs r a b] (Hcs & Hall & Ha & Hb). simpl.
  split; [destruct cs; [contradiction Hcs; reflexivity | discriminate]|].
  split; [|split; assumption].
  apply Forall_map. eapply Forall_impl; [|exact Hall].
  intros s Hs. apply flat_map_token_nonempty. exact Hs.
Qed.

(* ------------------------------------------------------------------ *)
(* per-string / per-case stages                                        *)
(* ------------------------------------------------------------------ *)

Definition cluster_g (db : odb) (s : str) : cluster := cluster_of (seg_of db s) (cat_of db s) s.
Definition cluster_k (c : cfg) (cl : cluster) : cluster :=
  if char_class_feature c then convert_classes c cl else cl.
Definition cluster_r (c : cfg) (cl : cluster) : cluster :=
  if f_rep c then convert_repetitions c cl else cl.

Lemma clusters_g_map : forall db ws, clusters_g db ws = map (cluster_g db) ws.
Proof. reflexivity. Qed.
Lemma clusters_k_map : forall c cls, clusters_k c cls = map (cluster_k c) cls.
Proof.
  intros c cls. unfold clusters_k, cluster_k. destruct (char_class_feature c); [reflexivity|].
  symmetry. apply map_id.
Qed.
Lemma clusters_r_map : forall c cls, clusters_r c cls = map (cluster_r c) cls.
Proof.
  intros c cls. unfold clusters_r, cluster_r. destruct (f_rep c); [reflexivity|].
  symmetry. apply map_id.
Qed.
Lemma grapheme_clusters_map : forall c db ws,
  grapheme_clusters c db ws = map (fun s => cluster_r c (cluster_k c (cluster_g db s))) ws.
Proof.
  intros c db ws. unfold grapheme_clusters.
  rewrite clusters_r_map, clusters_k_map, clusters_g_map, !map_map. reflexivity.
Qed.

Lemma cluster_k_plain : forall c cl, Forall plain cl -> Forall plain (cluster_k c cl).
Proof.
  intros c cl H. unfold cluster_k. destruct (char_class_feature c); [|exact H].
  apply convert_classes_plain. exact H.
Qed.
Lemma cluster_k_wf : forall c cl, Forall wf_g cl -> Forall wf_g (cluster_k c cl).
Proof.
  intros c cl H. unfold cluster_k. destruct (char_class_feature c); [|exact H].
  apply convert_classes_wf. exact H.
Qed.
Lemma cluster_gk_plain : forall c db s, Forall plain (cluster_k c (cluster_g db s)).
Proof. intros c db s. apply cluster_k_plain. apply cluster_of_plain. Qed.
Lemma cluster_gk_wf : forall c db s, Forall wf_g (cluster_k c (cluster_g db s)).
Proof. intros c db s. apply cluster_k_wf. apply cluster_of_wf. Qed.

Lemma plain_unit : forall g, plain g -> g_min g = 1%N /\ g_max g = 1%N.
Proof. intros g [s Hs]. subst g. split; reflexivity. Qed.

(* ------------------------------------------------------------------ *)
(* semantic part                                                       *)
(* ------------------------------------------------------------------ *)

Section S.
  Variable lit_den cls_den : cp -> cp -> Prop.

  Local Notation Ds := (den_str lit_den cls_den).
  Local Notation Dt := (den_tokens lit_den cls_den).
  Local Notation Lc := (L_cluster lit_den cls_den).
  Local Notation Ls := (L_clusters lit_den cls_den).

  Lemma den_str_cons2 : forall x l s,
    Ds (x :: l :: s) =
    if N.eqb x c_backslash && is_class_letter l
    then lcat (lone (cls_den l)) (Ds s)
    else lcat (lone (lit_den x)) (Ds (l :: s)).
  Proof. reflexivity. Qed.

  Lemma den_str_single : forall x, Ds [x] = lone (lit_den x).
  Proof. reflexivity. Qed.

  Lemma den_str_lit : forall x rest, x <> 92%N ->
    leq (Ds (x :: rest)) (lcat (Ds [x]) (Ds rest)).
  Proof.
    intros x rest Hx. rewrite den_str_single. destruct rest as [|l rest].
    - rewrite den_str_single. symmetry. apply lcat_eps_r.
    - rewrite den_str_cons2.
      assert (E : N.eqb x c_backslash = false) by (apply N.eqb_neq; exact Hx).
      rewrite E. cbn [andb]. reflexivity.
  Qed.

  Lemma den_str_class : forall l rest, is_class_letter l = true ->
    leq (Ds ([92%N; l] ++ rest)) (lcat (Ds [92%N; l]) (Ds rest)).
  Proof.
    intros l rest Hl. cbn [app]. rewrite !den_str_cons2.
    change (N.eqb 92 c_backslash) with true. rewrite Hl. cbn [andb].
    change (Ds []) with leps. rewrite lcat_eps_r. reflexivity.
  Qed.

  Lemma den_str_token_app : forall c x rest, x <> 92%N ->
    leq (Ds (class_token c class_chain x ++ rest))
        (lcat (Ds (class_token c class_chain x)) (Ds rest)).
  Proof.
    intros c x rest Hx. destruct (class_token_shape c x) as [H|[l [H Hl]]]; rewrite H.
    - apply den_str_lit. exact Hx.
    - apply den_str_class. exact Hl.
  Qed.

  Lemma den_flat_tokens_nobs : forall c t, ~ In 92%N t ->
    leq (Ds (flat_map (class_token c class_chain) t)) (Dt (map (class_token c class_chain) t)).
  Proof.
    intros c t. induction t as [|x t IH]; intros Hn.
    - simpl. reflexivity.
    - cbn [flat_map map den_tokens].
      rewrite den_str_token_app by (intros E; apply Hn; left; exact E).
      rewrite IH by (intros Hin; apply Hn; right; exact Hin). reflexivity.
  Qed.

  (* the key lemma: reading the concatenated tokens = concatenating the readings *)
  Lemma den_flat_tokens : forall c t, (In 92%N t -> t = [92%N]) ->
    leq (Ds (flat_map (class_token c class_chain) t)) (Dt (map (class_token c class_chain) t)).
  Proof.
    intros c t Ht. destruct (in_dec N.eq_dec 92%N t) as [Hin|Hn].
    - rewrite (Ht Hin). cbn [flat_map map den_tokens]. rewrite app_nil_r.
      symmetry. apply lcat_eps_r.
    - apply den_flat_tokens_nobs. exact Hn.
  Qed.

  Lemma den_tokens_app : forall a b, leq (Dt (a ++ b)) (lcat (Dt a) (Dt b)).
  Proof.
    induction a as [|t a IH]; intros b.
    - cbn [app den_tokens]. symmetry. apply lcat_eps_l.
    - cbn [app den_tokens]. rewrite IH. symmetry. apply lcat_assoc.
  Qed.

  Lemma convert_shape_lang : forall c cl, Forall shape cl ->
    leq (Lc (convert_classes c cl))
        (Dt (map (class_token c class_chain) (concat (map g_value cl)))).
  Proof.
    intros c cl H. induction H as [|g cl Hg _ IH].
    - simpl. reflexivity.
    - destruct Hg as [t [E [_ Hbs]]]. subst g.
      change (convert_classes c (G [t] [] 1%N 1%N :: cl))
        with (g_from (flat_map (class_token c class_chain) t) :: convert_classes c cl).
      cbn [L_cluster map concat]. unfold g_value at 1. cbn [g_chars concat].
      rewrite app_nil_r, map_app, den_tokens_app.
      apply lcat_congr; [|exact IH].
      rewrite (RepInv.den_g_from lit_den cls_den). apply den_flat_tokens. exact Hbs.
  Qed.

  Theorem clusters_k_spec : forall c seg cat s, length cat = length s ->
    leq (Lc (convert_classes c (cluster_of seg cat s))) (Spec_str lit_den cls_den c s).
  Proof.
    intros c seg cat s Hlen. unfold Spec_str.
    rewrite (convert_shape_lang c _ (cluster_of_shape seg cat s)).
    rewrite cluster_of_concat by exact Hlen. reflexivity.
  Qed.

  Theorem clusters_g_spec : forall c seg cat s,
    f_digit c = false -> f_non_digit c = false -> f_space c = false ->
    f_non_space c = false -> f_word c = false -> f_non_word c = false ->
    length cat = length s ->
    leq (Lc (cluster_of seg cat s)) (Spec_str lit_den cls_den c s).
  Proof.
    intros c seg cat s H1 H2 H3 H4 H5 H6 Hlen.
    assert (Hc : no_class_flag c) by (unfold no_class_flag; repeat split; assumption).
    rewrite <- (convert_classes_noflag c (cluster_of seg cat s) Hc).
    apply clusters_k_spec. exact Hlen.
  Qed.

  (* stages G and K together, per test case *)
  Theorem clusters_gk_spec : forall c db s, length (cat_of db s) = length s ->
    leq (Lc (cluster_k c (cluster_g db s))) (Spec_str lit_den cls_den c s).
  Proof.
    intros c db s Hlen. unfold cluster_k, cluster_g.
    destruct (char_class_feature c) eqn:E.
    - apply clusters_k_spec. exact Hlen.
    - destruct (no_class_feature_noflag c E) as (H1 & H2 & H3 & H4 & H5 & H6).
      apply clusters_g_spec; assumption.
  Qed.

  (* the same, on the list of clusters *)
  Theorem clusters_gk_spec_all : forall c db ws, oracle_ok db ws ->
    Forall2 (fun s cl => leq (Lc cl) (Spec_str lit_den cls_den c s))
            ws (clusters_k c (clusters_g db ws)).
  Proof.
    intros c db ws Hok. rewrite clusters_k_map, clusters_g_map, map_map.
    induction ws as [|s ws IH]; simpl; constructor.
    - apply clusters_gk_spec. apply Hok. left. reflexivity.
    - apply IH. intros t Ht. apply Hok. right. exact Ht.
  Qed.

  (* ---------------- 4. stage R ---------------- *)

  Lemma cluster_r_lang : forall c cl, Forall plain cl -> leq (Lc (cluster_r c cl)) (Lc cl).
  Proof.
    intros c cl Hpl. unfold cluster_r. destruct (f_rep c); [|reflexivity].
    apply (convert_repetitions_lang lit_den cls_den). exact Hpl.
  Qed.

  Theorem clusters_r_lang : forall c cls, Forall (Forall plain) cls ->
    Forall2 (fun cl' cl => leq (Lc cl') (Lc cl)) (clusters_r c cls) cls.
  Proof.
    intros c cls H. rewrite clusters_r_map. induction H as [|cl cls Hcl _ IH]; simpl; constructor.
    - apply cluster_r_lang. exact Hcl.
    - exact IH.
  Qed.

  Theorem clusters_r_langs : forall c cls, Forall (Forall plain) cls ->
    leq (Ls (clusters_r c cls)) (Ls cls).
  Proof.
    intros c cls H u. rewrite clusters_r_map. rewrite Forall_forall in H. unfold L_clusters. split.
    - intros [cl' [Hin Hu]]. apply in_map_iff in Hin. destruct Hin as [cl [E Hin]]. subst cl'.
      exists cl. split; [exact Hin|]. apply (cluster_r_lang c cl (H cl Hin)). exact Hu.
    - intros [cl [Hin Hu]]. exists (cluster_r c cl). split; [apply in_map; exact Hin|].
      apply (cluster_r_lang c cl (H cl Hin)). exact Hu.
  Qed.

  (* ---------------- 5. final statement ---------------- *)

  Theorem grapheme_clusters_spec : forall c db ws, oracle_ok db ws ->
    leq (Ls (grapheme_clusters c db ws)) (Spec_cases lit_den cls_den c ws).
  Proof.
    intros c db ws Hok u. rewrite grapheme_clusters_map. unfold L_clusters, Spec_cases. split.
    - intros [cl [Hin Hu]]. apply in_map_iff in Hin. destruct Hin as [s [E Hin]]. subst cl.
      exists s. split; [exact Hin|].
      apply (clusters_gk_spec c db s (Hok s Hin)).
      apply (cluster_r_lang c _ (cluster_gk_plain c db s)). exact Hu.
    - intros [s [Hin Hu]]. exists (cluster_r c (cluster_k c (cluster_g db s))).
      split; [apply (in_map (fun s => cluster_r c (cluster_k c (cluster_g db s)))); exact Hin|].
      apply (cluster_r_lang c _ (cluster_gk_plain c db s)).
      apply (clusters_gk_spec c db s (Hok s Hin)). exact Hu.
  Qed.
End S.

(* ------------------------------------------------------------------ *)
(* 4'. stage R: structural facts                                       *)
(* ------------------------------------------------------------------ *)

Lemma cluster_r_wf : forall c cl, wf_cluster cl -> wf_cluster (cluster_r c cl).
Proof.
  intros c cl H. unfold cluster_r. destruct (f_rep c); [|exact H].
  apply convert_wf_strong. exact H.
Qed.

Lemma cluster_r_uniform : forall c cl, Forall plain cl ->
  Forall (fun g => g_min g = g_max g) (cluster_r c cl).
Proof.
  intros c cl H. unfold cluster_r. destruct (f_rep c).
  - apply convert_uniform. exact H.
  - eapply Forall_impl; [|exact H]. intros g Hg. destruct (plain_unit g Hg) as [E1 E2].
    rewrite E1, E2. reflexivity.
Qed.

Theorem clusters_r_wf : forall c cls, Forall wf_cluster cls -> Forall wf_cluster (clusters_r c cls).
Proof.
  intros c cls H. rewrite clusters_r_map. apply Forall_map.
  eapply Forall_impl; [|exact H]. intros cl Hcl. apply cluster_r_wf. exact Hcl.
Qed.

Theorem clusters_r_uniform : forall c cls, Forall (Forall plain) cls ->
  Forall (Forall (fun g => g_min g = g_max g)) (clusters_r c cls).
Proof.
  intros c cls H. rewrite clusters_r_map. apply Forall_map.
  eapply Forall_impl; [|exact H]. intros cl Hcl. apply cluster_r_uniform. exact Hcl.
Qed.

(* ------------------------------------------------------------------ *)
(* 5'. final structural statements                                     *)
(* ------------------------------------------------------------------ *)

Theorem grapheme_clusters_wf : forall c db ws, Forall wf_cluster (grapheme_clusters c db ws).
Proof.
  intros c db ws. rewrite grapheme_clusters_map. apply Forall_map. apply Forall_forall.
  intros s _. apply cluster_r_wf. apply cluster_gk_wf.
Qed.

Theorem grapheme_clusters_uniform : forall c db ws,
  Forall (Forall (fun g => g_min g = g_max g)) (grapheme_clusters c db ws).
Proof.
  intros c db ws. rewrite grapheme_clusters_map. apply Forall_map. apply Forall_forall.
  intros s _. apply cluster_r_uniform. apply cluster_gk_plain.
Qed.

Theorem grapheme_clusters_unit : forall c db ws, f_rep c = false ->
  Forall (Forall (fun g => g_min g = 1%N /\ g_max g = 1%N)) (grapheme_clusters c db ws).
Proof.
  intros c db ws Hr. rewrite grapheme_clusters_map. apply Forall_map. apply Forall_forall.
  intros s _. unfold cluster_r. rewrite Hr.
  eapply Forall_impl; [|apply cluster_gk_plain]. exact plain_unit.
Qed.

Theorem grapheme_clusters_length : forall c db ws,
  length (grapheme_clusters c db ws) = length ws.
Proof. intros c db ws. rewrite grapheme_clusters_map. apply map_length. Qed.

(* sanity: a backslash inside a segmentation cluster is isolated, and \D takes it when enabled *)
Example ex_backslash :
  cluster_of [3] [false; false; false] [97; 92; 98]%N
  = [g_from [97%N]; g_from [92%N]; g_from [98%N]].
Proof. reflexivity. Qed.

(* the length hypothesis of cluster_of_concat is needed (only as length s <= length cat):
   combine truncates, so a too short cat list loses code points *)
Example ex_short_cat : concat (map g_value (cluster_of [1] [] [97%N])) = [].
Proof. reflexivity. Qed.

(* with \D enabled the isolated backslash itself becomes a class token *)
Example ex_backslash_nondigit :
  convert_classes (mkCfg 1 1 false true false false false false false false false false false
                         false false false false)
                  (cluster_of [1] [false] [92%N])
  = [g_from [92; 68]%N].
Proof. vm_compute. reflexivity. Qed.

Print Assumptions cluster_of_plain.
Print Assumptions cluster_of_wf.
Print Assumptions cluster_of_backslash.
Print Assumptions cluster_of_concat.
Print Assumptions convert_classes_plain.
Print Assumptions convert_classes_wf.
Print Assumptions clusters_k_spec.
Print Assumptions clusters_g_spec.
Print Assumptions clusters_gk_spec.
Print Assumptions clusters_gk_spec_all.
Print Assumptions clusters_r_lang.
Print Assumptions clusters_r_langs.
Print Assumptions clusters_r_wf.
Print Assumptions clusters_r_uniform.
Print Assumptions grapheme_clusters_spec.
Print Assumptions grapheme_clusters_wf.
Print Assumptions grapheme_clusters_uniform.
Print Assumptions grapheme_clusters_unit.
Print Assumptions grapheme_clusters_length.
