(* "Syntax highlighting only adds colour codes" — part 7: the plain output contains nothing the
   stripper removes, provided the expression contains no ESC (see ColourStrip.v for the
   counterexample without that hypothesis). *)
From Grex Require Import Base.Str Model.Config Model.Cluster Model.Dfa Model.Expr Model.Print.
From Grex Require Import Proofs.ColourStripBase Proofs.ColourStripExpr Proofs.ColourStripRegexp
     Proofs.ColourStripLines Proofs.ColourStripPlain Proofs.ColourStripIndent.
From GrexGen Require Import SrcConsts.
Local Open Scope N_scope.

Definition ne27 (x : cp) : Prop := x <> 27.
Definition P27 (s : str) : Prop := Forall ne27 s.
Definition p27b (s : str) : bool := forallb (fun x => negb (N.eqb x 27)) s.

Lemma p27b_ok : forall s, p27b s = true -> P27 s.
Proof.
  intros s H. unfold p27b in H. rewrite forallb_forall in H. apply Forall_forall.
  intros x Hx. specialize (H x Hx). apply negb_true_iff in H. apply N.eqb_neq in H. exact H.
Qed.

(* no literal (printed string of a grapheme) and no class contains ESC *)
Definition esc_free (e : expr) : Prop :=
  ewf (fun cs => Forall ne27 cs) (fun cl => Forall (gok P27) cl) e.

Lemma P27_app : forall a b, P27 a -> P27 b -> P27 (a ++ b).
Proof. intros a b Ha Hb. apply Forall_app. split; assumption. Qed.

Lemma P27_digits : forall s, Forall dig_range s -> P27 s.
Proof.
  intros s H. eapply Forall_impl; [|exact H]. intros x [H1 H2]. unfold ne27. lia.
Qed.

(* ---------- escaping keeps ESC-freedom ---------- *)
Lemma replace_self_P27 : forall y s, P27 s -> P27 (replace_cp y [92; y] s).
Proof.
  intros y s H. unfold replace_cp. apply Forall_flat_map. intros x Hx.
  unfold P27 in H. rewrite Forall_forall in H. specialize (H x Hx).
  destruct (N.eqb_spec x y) as [E|E].
  - subst y. constructor; [discriminate|]. constructor; [exact H|constructor].
  - constructor; [exact H|constructor].
Qed.

Lemma replace_P27 : forall y r s, P27 r -> P27 s -> P27 (replace_cp y r s).
Proof.
  intros y r s Hr H. unfold replace_cp. apply Forall_flat_map. intros x Hx.
  unfold P27 in H. rewrite Forall_forall in H. specialize (H x Hx).
  destruct (N.eqb x y); [exact Hr|]. constructor; [exact H|constructor].
Qed.

Lemma escape_symbols_P27 : forall s, P27 s -> P27 (escape_symbols_str s).
Proof.
  intros s H. unfold escape_symbols_str. cbv zeta.
  assert (F : forall l s0, P27 s0 ->
              P27 (fold_left (fun s1 x => replace_cp x [c_backslash; x] s1) l s0)).
  { induction l as [|x l IH]; intros s0 H0; [exact H0|].
    simpl. apply IH. apply replace_self_P27. exact H0. }
  match goal with |- P27 (if str_eqb ?t _ then _ else _) => assert (Ht : P27 t) end.
  { do 3 (apply replace_P27; [apply p27b_ok; reflexivity|]). apply F. exact H. }
  match goal with |- P27 (if ?b then _ else _) => destruct b end.
  - apply p27b_ok. reflexivity.
  - exact Ht.
Qed.

Lemma esc_u4_P27 : forall x, P27 (esc_u4 x).
Proof.
  intros x. apply esc_u4_forall; try (unfold ne27; discriminate).
  intros y Hy. unfold hex_range in Hy. unfold ne27. lia.
Qed.

Lemma escape_cp_P27 : forall sur s, P27 s -> P27 (flat_map (escape_cp sur) s).
Proof.
  intros sur s H. apply Forall_flat_map. intros x Hx.
  unfold P27 in H. rewrite Forall_forall in H. specialize (H x Hx).
  apply escape_cp_forall; try exact H; try (unfold ne27; discriminate).
  intros y Hy. unfold hex_range in Hy. unfold ne27. lia.
Qed.

Lemma esc_strs_P27 : forall c cs, Forall P27 cs -> Forall P27 (esc_strs c cs).
Proof.
  intros c cs H. unfold esc_strs. cbv zeta.
  assert (H1 : Forall P27 (map escape_symbols_str cs)).
  { apply Forall_forall. intros s Hs. apply in_map_iff in Hs. destruct Hs as [s0 [E Hs0]].
    subst. apply escape_symbols_P27. rewrite Forall_forall in H. apply H. exact Hs0. }
  destruct (f_esc c); [|exact H1].
  apply Forall_forall. intros s Hs. apply in_map_iff in Hs. destruct Hs as [s0 [E Hs0]].
  subst. apply escape_cp_P27. rewrite Forall_forall in H1. apply H1. exact Hs0.
Qed.

Lemma gok_escape_P27 : forall c g, gok P27 g -> gok P27 (escape_g c g).
Proof.
  intros c g. induction g as [cs rs a b IH] using grapheme_ind'. intros H.
  rewrite escape_g_eq. inversion H; subst.
  - simpl map. apply gok_leaf. apply esc_strs_P27. assumption.
  - simpl map. apply gok_node.
    change (escape_g c r :: map (escape_g c) rs0) with (map (escape_g c) (r :: rs0)).
    apply Forall_forall. intros x Hx. apply in_map_iff in Hx. destruct Hx as [x0 [E Hx0]].
    subst. rewrite Forall_forall in IH. apply IH; [exact Hx0|].
    match goal with H : Forall (gok P27) _ |- _ => rewrite Forall_forall in H; apply H end.
    exact Hx0.
Qed.

Lemma lit_ok_P27 : forall c0 cl, Forall (gok P27) cl -> lit_ok c0 P27 cl.
Proof.
  intros c0 cl H. unfold lit_ok. eapply Forall_impl; [|exact H].
  intros g Hg. destruct g as [cs rs a b]. destruct rs as [|r rs].
  - apply gok_escape_P27. exact Hg.
  - inversion Hg; subst. simpl map. apply gok_node.
    change (escape_g c0 r :: map (escape_g c0) rs) with (map (escape_g c0) (r :: rs)).
    apply Forall_forall. intros x Hx. apply in_map_iff in Hx. destruct Hx as [x0 [E Hx0]].
    subst. apply gok_escape_P27.
    match goal with H : Forall (gok P27) _ |- _ => rewrite Forall_forall in H; apply H end.
    exact Hx0.
Qed.

(* ---------- components ---------- *)
Ltac p27_pieces :=
  repeat (apply P27_app); try assumption; try (apply p27b_ok; reflexivity).

Section NoEsc.
  Variable c0 : cfg.
  Hypothesis Hcol : f_colour c0 = false.

  Lemma P27_group : forall v fb, P27 v -> P27 (c_group c0 v fb).
  Proof.
    intros v fb H. unfold c_group. rewrite !col_plain by exact Hcol. cbv zeta.
    destruct (f_cap c0); destruct (f_verbose c0); destruct fb; p27_pieces.
  Qed.

  Lemma P27_quant : forall q, P27 (c_quant c0 q).
  Proof.
    intros q. unfold c_quant. rewrite col_plain by exact Hcol.
    destruct q; destruct (f_verbose c0); p27_pieces.
  Qed.

  Lemma P27_rep : forall n vb, P27 (c_rep c0 n vb).
  Proof.
    intros n vb. unfold c_rep. cbv zeta. rewrite col_plain by exact Hcol.
    pose proof (P27_digits _ (dec_of_N_range n)).
    destruct (N.eqb n 0); destruct vb; p27_pieces.
  Qed.

  Lemma P27_range : forall a b vb, P27 (c_range c0 a b vb).
  Proof.
    intros a b vb. unfold c_range. cbv zeta. rewrite col_plain by exact Hcol.
    pose proof (P27_digits _ (dec_of_N_range a)). pose proof (P27_digits _ (dec_of_N_range b)).
    destruct (N.eqb a 0 && N.eqb b 0); destruct vb; p27_pieces.
  Qed.

  Lemma P27_sep : P27 (alt_sep c0).
  Proof.
    unfold alt_sep. rewrite col_plain by exact Hcol. destruct (f_verbose c0); p27_pieces.
  Qed.

  Lemma cc_escape_P27 : forall x, ne27 x -> P27 (cc_escape x).
  Proof.
    intros x Hx. destruct (cc_escape_cases x) as [E|[E|[E|[E|E]]]]; rewrite E;
      repeat constructor; try exact Hx; discriminate.
  Qed.

  Lemma P27_cc : forall cs, Forall ne27 cs -> P27 (cc_str c0 cs).
  Proof.
    intros cs H. unfold cc_str. cbv zeta. fold (cc_part c0).
    rewrite !col_plain by exact Hcol.
    apply P27_app; [apply p27b_ok; reflexivity|].
    apply P27_app; [|apply p27b_ok; reflexivity].
    set (subsets := cc_subsets (map (fun x => (cc_escape x, codepoint_position x)) cs) [] true).
    assert (F : Forall (Forall P27) subsets).
    { apply cc_subsets_forall; [|constructor].
      apply Forall_forall. intros it Hit. apply in_map_iff in Hit. destruct Hit as [x [E Hx]].
      subst. simpl. apply cc_escape_P27. rewrite Forall_forall in H. apply H. exact Hx. }
    clearbody subsets. induction F as [|sub subsets Hs Hss IH].
    - constructor.
    - simpl flat_map. rewrite concat_app. apply P27_app; [|exact IH].
      unfold cc_part. destruct (Nat.leb (length sub) 2).
      + apply Forall_concat. exact Hs.
      + cbn [concat]. rewrite app_nil_r. rewrite col_plain by exact Hcol.
        apply P27_app; [apply Forall_hd; [constructor|exact Hs]|].
        apply P27_app; [apply p27b_ok; reflexivity|].
        apply Forall_last; [constructor|exact Hs].
  Qed.

  Theorem e_str_P27 : forall e, esc_free e -> P27 (e_str c0 e).
  Proof.
    apply (e_str_Q c0 Hcol P27 (fun cs => Forall ne27 cs) (fun cl => Forall (gok P27) cl)).
    - constructor.
    - exact P27_app.
    - exact P27_group.
    - exact P27_quant.
    - exact P27_rep.
    - exact P27_range.
    - exact P27_sep.
    - exact P27_cc.
    - intros cl H. apply lit_ok_P27. exact H.
  Qed.

  Lemma re_raw_P27 : forall e, esc_free e -> P27 (re_raw c0 e).
  Proof.
    intros e H. pose proof (e_str_P27 e H) as He.
    assert (Hb : P27 (re_body c0 e)).
    { unfold re_body. destruct e; try exact He. apply P27_group. exact He. }
    unfold re_raw, re_flag, re_caret, re_dollar. rewrite !col_plain by exact Hcol.
    destruct (f_ci c0); destruct (f_verbose c0); destruct (f_no_start c0);
      destruct (f_no_end c0); cbn [andb]; p27_pieces.
  Qed.

  Lemma re_nv_P27 : forall e, esc_free e -> P27 (re_nv c0 e).
  Proof.
    intros e H. unfold re_nv.
    repeat (apply replace_P27; [apply p27b_ok; reflexivity|]). apply re_raw_P27. exact H.
  Qed.

  Lemma re_v_P27 : forall e, esc_free e -> P27 (re_v c0 e).
  Proof.
    intros e H. unfold re_v.
    apply replace_P27; [apply p27b_ok; reflexivity|].
    apply Forall_flat_map. intros x Hx.
    assert (Hr : P27 (replace_cp 35 [92; 35] (re_nv c0 e))).
    { apply replace_P27; [apply p27b_ok; reflexivity|]. apply re_nv_P27. exact H. }
    unfold P27 in Hr. rewrite Forall_forall in Hr. specialize (Hr x Hx).
    unfold hv. destruct (mem_cp x verbose_ws); [apply esc_u4_P27|].
    constructor; [exact Hr|constructor].
  Qed.
End NoEsc.

(* ---------- lines and indentation ---------- *)
Lemma splitnl_P27 : forall s, P27 s -> Forall P27 (splitnl s).
Proof.
  induction s as [|x s IH]; intros H.
  - simpl. constructor; constructor.
  - inversion H; subst. specialize (IH H3). cbn [splitnl].
    destruct (N.eqb x 10).
    + constructor; [constructor|exact IH].
    + destruct (splitnl s) as [|l ls].
      * constructor; [|constructor]. constructor; [assumption|constructor].
      * inversion IH; subst. constructor; [|assumption]. constructor; assumption.
Qed.

Lemma lines_P27 : forall s, P27 s -> Forall P27 (lines s).
Proof.
  intros s H. rewrite lines_eq. apply lines_of_Forall; [|apply splitnl_P27; exact H].
  intros l0 F. rewrite strip_cr_scr. destruct (scr_prefix l0) as [t Et].
  unfold P27 in F. rewrite Et in F. apply Forall_app in F. destruct F as [F _]. exact F.
Qed.

Lemma repeat_str_P27 : forall n, P27 (repeat_str n [c_space; c_space]).
Proof.
  induction n as [|n IH]; simpl; [constructor|].
  constructor; [discriminate|]. constructor; [discriminate|]. exact IH.
Qed.

Lemma indent_lines_P27 : forall isd c ls, Forall P27 ls ->
    forall i level, Forall P27 (indent_lines isd c ls i level).
Proof.
  intros isd c ls H. induction H as [|l ls Hl Hls IH]; intros i level.
  - constructor.
  - cbn [indent_lines]. destruct l as [|a l]; [apply IH|].
    constructor; [|apply IH]. apply P27_app; [apply repeat_str_P27|exact Hl].
Qed.

Lemma join_nl_P27 : forall l, Forall P27 l -> P27 (join nl l).
Proof.
  intros l H. induction H as [|x l Hx Hl IH]; [constructor|].
  destruct l as [|y l]; [exact Hx|].
  rewrite join_cons2. apply P27_app; [exact Hx|]. apply P27_app; [|exact IH].
  apply p27b_ok. reflexivity.
Qed.

Theorem regexp_str_P27 : forall isd c e, f_colour c = false -> esc_free e ->
    P27 (regexp_str isd c e).
Proof.
  intros isd c e Hc H. rewrite regexp_str_eq. destruct (f_verbose c).
  - unfold indent_regexp. apply join_nl_P27. apply indent_lines_P27. apply lines_P27.
    apply re_v_P27; assumption.
  - apply re_nv_P27; assumption.
Qed.

Lemma P27_no_escbr : forall s, P27 s -> no_escbr s.
Proof.
  intros s H. induction H as [|x s Hx Hs IH]; simpl; [exact I|].
  split; [|exact IH]. intros E. contradiction.
Qed.

(* the plain output of an ESC-free expression contains nothing the stripper removes
   (for any digit predicate) *)
Theorem plain_no_sgr : forall isd c e, esc_free e ->
    strip_sgr isd (regexp_str isd (with_colour c false) e) = regexp_str isd (with_colour c false) e.
Proof.
  intros isd c e H. apply strip_no_escbr. apply P27_no_escbr.
  apply regexp_str_P27; [reflexivity|exact H].
Qed.
