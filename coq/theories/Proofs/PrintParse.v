(* Printing theorem (B): for configurations meant for the regex crate, in non-verbose mode, the
   printed pattern is accepted by the parser model, the parsed AST is the expected one, and it
   denotes exactly the language of the expression. *)
From Grex Require Import Base.Str Model.Config Model.Cluster Model.Dfa Model.Expr Model.Print.
From Grex Require Import Engine.Syntax Engine.Parse Engine.Sem.
From Grex Require Import Proofs.Lang Proofs.RepInv Proofs.ExprLang.
From Grex Require Import Proofs.PrintParseNum Proofs.PrintParseStep Proofs.PrintParseDefs
  Proofs.PrintParseEsc Proofs.PrintParseLit Proofs.PrintParseCC Proofs.PrintParseExpr
  Proofs.PrintParseSem Proofs.PrintParseLang Proofs.PrintParseShape.
From GrexGen Require Import SrcConsts.

(* ---------- leading flags ---------- *)
Lemma parse_flags_i : forall r, parse_flags (40 :: 63 :: 105 :: 41 :: r)%N = (mkF true false, r).
Proof. reflexivity. Qed.

Lemma parse_flags_not40 : forall x s, x <> 40%N -> parse_flags (x :: s) = (mkF false false, x :: s).
Proof.
  intros x s H. destruct x as [|p]; [reflexivity|].
  do 6 (try (destruct p as [p|p|]; try reflexivity)).
  exfalso. apply H. reflexivity.
Qed.

Lemma parse_flags_40_not63 : forall y s, y <> 63%N ->
  parse_flags (40%N :: y :: s) = (mkF false false, 40%N :: y :: s).
Proof.
  intros y s H. destruct y as [|p]; [reflexivity|].
  do 6 (try (destruct p as [p|p|]; try reflexivity)).
  exfalso. apply H. reflexivity.
Qed.

Lemma parse_flags_default : forall s, hd_ok s -> parse_flags s = (mkF false false, s).
Proof.
  intros [|x s] H; [reflexivity|]. destruct H as [H63 H40].
  destruct (N.eq_dec x 40) as [->|Hx]; [|apply parse_flags_not40; exact Hx].
  specialize (H40 eq_refl). destruct s as [|y s]; [reflexivity|].
  destruct (N.eq_dec y 63) as [->|Hy]; [|apply parse_flags_40_not63; exact Hy].
  destruct (H40 eq_refl) as [s3 ->]. reflexivity.
Qed.

Section Top.
  Variable isd is_ws : cp -> bool.
  Variable c : cfg.
  Hypothesis Hp : printable c.
  Hypothesis Hv : f_verbose c = false.
  Hypothesis Hws : ws_ok is_ws.

  Notation pseq := (pseq is_ws).

  Definition flag_str : str := if f_ci c then txt_IgnoreCaseFlag else [].
  Definition caret_str : str := if f_no_start c then [] else [94%N].
  Definition dollar_str : str := if f_no_end c then [] else [36%N].
  Definition body_str (e : expr) : str :=
    match e with EAlt _ => grp c (e_str c e) | _ => e_str c e end.

  Lemma regexp_str_eq : forall e,
    regexp_str isd c e = vf (flag_str ++ caret_str ++ body_str e ++ dollar_str).
  Proof.
    intros e. unfold regexp_str. rewrite Hv, andb_false_r. rewrite !(col_off c Hp).
    cbv zeta. cbv iota. rewrite !app_nil_r.
    assert (Eb : match e with EAlt _ => c_group c (e_str c e) false | _ => e_str c e end = body_str e).
    { unfold body_str. destruct e; try reflexivity. apply (c_group_eq c Hp Hv). }
    rewrite Eb. reflexivity.
  Qed.

  Lemma vf_flag : vf flag_str = flag_str.
  Proof. unfold flag_str. destruct (f_ci c); reflexivity. Qed.
  Lemma vf_caret : vf caret_str = caret_str.
  Proof. unfold caret_str. destruct (f_no_start c); reflexivity. Qed.
  Lemma vf_dollar : vf dollar_str = dollar_str.
  Proof. unfold dollar_str. destruct (f_no_end c); reflexivity. Qed.

  Lemma hd_ok_dollar : hd_ok dollar_str.
  Proof. unfold dollar_str. destruct (f_no_end c); [exact I|apply hd_ok_cons; discriminate]. Qed.

  Variable gap : Prop.

  Lemma hd_ok_body : forall e, wf_print_gen gap e -> hd_ok (vf (body_str e) ++ dollar_str).
  Proof.
    intros e Hwf. destruct (e_good_all is_ws c gap Hp Hv Hws e Hwf) as (Hh & _ & _).
    unfold body_str. destruct e; try (apply Hh; intros _; apply hd_ok_dollar).
    apply grp_hd. exact Hh.
  Qed.

  Lemma pseq_top : forall e, wf_print_gen gap e ->
    pseq true (caret_str ++ vf (body_str e) ++ dollar_str) [] [] (top_rast c e, []).
  Proof.
    intros e Hwf. destruct (e_good_all is_ws c gap Hp Hv Hws e Hwf) as (Hh & Ha & Hc).
    set (S0 := if f_no_start c then [] else [RStart]).
    assert (Hend : pseq true dollar_str (rev (e_atoms c e) ++ rev S0) [] (top_rast c e, [])).
    { assert (Eres : top_rast c e
                     = alt_of [cat_of (rev (if f_no_end c then [] else [REnd])
                                       ++ rev (e_atoms c e) ++ rev S0)]).
      { unfold top_rast, rcat, top_atoms. fold S0. rewrite !rev_app_distr, <- app_assoc. reflexivity. }
      rewrite Eres. unfold dollar_str. destruct (f_no_end c).
      - cbn [rev app]. apply pseq_end.
      - cbn [rev app]. apply pseq_dollar. apply pseq_end. }
    assert (Hbody : pseq true (vf (body_str e) ++ dollar_str) (rev S0) [] (top_rast c e, [])).
    { unfold body_str. destruct e as [os|cs|a b|cl|x q].
      - apply grp_catp; [exact Hh|exact Ha|].
        rewrite e_atoms_alt, <- e_alts_alt in Hend. cbn [rev app] in Hend. exact Hend.
      - apply Hc; [intros os; discriminate|apply hd_ok_dollar|exact Hend].
      - apply Hc; [intros os; discriminate|apply hd_ok_dollar|exact Hend].
      - apply Hc; [intros os; discriminate|apply hd_ok_dollar|exact Hend].
      - apply Hc; [intros os; discriminate|apply hd_ok_dollar|exact Hend]. }
    unfold caret_str, S0 in *. destruct (f_no_start c); cbn [rev app] in Hbody |- *.
    - exact Hbody.
    - apply pseq_caret. exact Hbody.
  Qed.

  (* the parser accepts the printed pattern and builds the expected AST *)
  Theorem print_parse : forall e, wf_print_gen gap e ->
    parse is_ws (regexp_str isd c e) = Some (mkF (f_ci c) false, top_rast c e).
  Proof.
    intros e Hwf. rewrite regexp_str_eq. rewrite !vf_app, vf_flag, vf_caret, vf_dollar.
    pose proof (pseq_top e Hwf) as Hpq.
    set (r := caret_str ++ vf (body_str e) ++ dollar_str) in *.
    unfold parse, flag_str. destruct (f_ci c).
    - unfold txt_IgnoreCaseFlag. cbn [app]. rewrite parse_flags_i. cbn [fl_x].
      rewrite (Hpq (S (S (length r)))) by lia. reflexivity.
    - cbn [app]. rewrite parse_flags_default.
      + cbn [fl_x]. rewrite (Hpq (S (S (length r)))) by lia. reflexivity.
      + unfold r, caret_str. destruct (f_no_start c); cbn [app].
        * apply hd_ok_body. exact Hwf.
        * apply hd_ok_cons; discriminate.
  Qed.

  (* ... which denotes the language of the expression *)
  Variable lit_den cls_den : cp -> cp -> Prop.
  Hypothesis Hgap : gap -> forall c0 x, surrogate c0 -> ~ lit_den c0 x.

  Theorem top_rast_lang : forall e, wf_print_gen gap e ->
    forall s, L_rast lit_den cls_den (top_rast c e) s <-> L_expr lit_den cls_den e s.
  Proof.
    intros e Hwf s.
    destruct (e_sem_all lit_den cls_den c gap Hp Hgap e Hwf) as (H1 & _ & _ & H4 & _).
    unfold top_rast, top_atoms. rewrite top_sem by exact H4. apply H1.
  Qed.
End Top.


(* ---------- the printing theorem ---------- *)
Theorem print_parse_lang : forall lit_den cls_den isd is_ws c e,
  printable c -> f_verbose c = false -> wf_print e -> ws_ok is_ws ->
  exists fl r, parse is_ws (regexp_str isd c e) = Some (fl, r)
    /\ fl_i fl = f_ci c /\ fl_x fl = false
    /\ (forall s, L_rast lit_den cls_den r s <-> L_expr lit_den cls_den e s).
Proof.
  intros lit_den cls_den isd is_ws c e Hp Hv Hwf Hws.
  exists (mkF (f_ci c) false), (top_rast c e). split; [|split; [reflexivity|split; [reflexivity|]]].
  - apply (print_parse isd is_ws c Hp Hv Hws False e Hwf).
  - apply (top_rast_lang c Hp False lit_den cls_den); [intros []|exact Hwf].
Qed.

(* variant: classes may straddle the surrogate gap when no literal denotes a surrogate
   (haystacks are sequences of Unicode scalar values) *)
Theorem print_parse_lang_scalar : forall lit_den cls_den isd is_ws c e,
  printable c -> f_verbose c = false -> wf_print_gen True e -> ws_ok is_ws ->
  (forall c0 x, surrogate c0 -> ~ lit_den c0 x) ->
  exists fl r, parse is_ws (regexp_str isd c e) = Some (fl, r)
    /\ fl_i fl = f_ci c /\ fl_x fl = false
    /\ (forall s, L_rast lit_den cls_den r s <-> L_expr lit_den cls_den e s).
Proof.
  intros lit_den cls_den isd is_ws c e Hp Hv Hwf Hws Hsur.
  exists (mkF (f_ci c) false), (top_rast c e). split; [|split; [reflexivity|split; [reflexivity|]]].
  - apply (print_parse isd is_ws c Hp Hv Hws True e Hwf).
  - apply (top_rast_lang c Hp True lit_den cls_den); [intros _; exact Hsur|exact Hwf].
Qed.

Lemma wf_print_gen_weaken : forall (g1 g2 : Prop) e, (g1 -> g2) -> wf_print_gen g1 e -> wf_print_gen g2 e.
Proof.
  intros g1 g2 e Hg. induction e as [os IH|cs|a b IHa IHb|cl|x q IHx] using expr_ind'; intros H.
  - apply wf_print_alt in H. apply wf_print_alt. destruct H as [Hne H]. split; [exact Hne|].
    clear Hne. revert H. induction IH as [|o os Ho _ IHos]; intros H; [constructor|].
    inversion H; subst.
    constructor; [apply Ho; assumption|apply IHos; assumption].
  - cbn [wf_print_gen] in *. unfold wf_cc in *. intuition.
  - cbn [wf_print_gen] in *. destruct H. split; auto.
  - exact H.
  - cbn [wf_print_gen] in *. destruct H. split; auto.
Qed.

(* the parsed AST, explicitly, and its shape *)
Theorem print_parse_shape : forall isd is_ws c e,
  printable c -> f_verbose c = false -> wf_print e -> ws_ok is_ws ->
  parse is_ws (regexp_str isd c e) = Some (mkF (f_ci c) false, rcat (top_atoms c e))
  /\ top_atoms c e = (if f_no_start c then [] else [RStart]) ++ e_atoms c e
                     ++ (if f_no_end c then [] else [REnd])
  /\ ((exists l, top_atoms c e = RStart :: l) <-> f_no_start c = false)
  /\ ((exists l, top_atoms c e = l ++ [REnd]) <-> f_no_end c = false)
  /\ Forall (shape_ok (f_cap c)) (e_atoms c e).
Proof.
  intros isd is_ws c e Hp Hv Hwf Hws.
  destruct (top_atoms_shape c False e Hwf) as (S1 & S2 & E1 & E2 & Hok).
  split; [apply (print_parse isd is_ws c Hp Hv Hws False e Hwf)|].
  split; [reflexivity|]. split; [|split; [|exact Hok]].
  - split.
    + intros [l Hl]. destruct (f_no_start c) eqn:E; [|reflexivity]. exfalso. eapply S2; eauto.
    + exact S1.
  - split.
    + intros [l Hl]. destruct (f_no_end c) eqn:E; [|reflexivity]. exfalso. eapply E2; eauto.
    + exact E1.
Qed.

Check print_parse.
Check top_rast_lang.
Check print_parse_lang.
Check print_parse_lang_scalar.
Check print_parse_shape.
Print Assumptions print_parse_lang.
Print Assumptions print_parse_lang_scalar.
Print Assumptions print_parse_shape.
