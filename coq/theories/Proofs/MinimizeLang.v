(* Composition of the Hopcroft results (HopSets / HopcroftInv / TrieLikeOf) with the
   translation validation of the quotient step (QuotientLang):
     - stable_bridge        : HopcroftInv.stable_partition + "is a partition"  ==>  QuotientLang.stable
     - minimize_trie_lang   : minimize succeeds on no_merge tries of uniform clusters; the result
                              is well formed, acyclic, and accepts the trie's language except
                              possibly the empty string
     - recreate_total_cover : recreate_graph succeeds on every covering partition with non-empty
                              blocks (no stability needed)
     - minimize_total_wf    : minimize never fails on a well-formed automaton with >= 1 state,
                              and its result is well formed. *)
From Grex Require Import Base.Str Model.Config Model.Cluster Model.Dfa Model.Expr.
From Grex Require Import Proofs.Lang Proofs.TrieLang Proofs.HopSets Proofs.HopcroftInv
  Proofs.TrieLikeOf Proofs.QuotientLang.

(* ---------- block_index on partitions ---------- *)
Lemma block_index_in : forall p (B : block) s k,
  In B p -> In s B -> exists i, block_index s p k = Some i.
Proof.
  induction p as [|b p IH]; intros B s k HB Hs; [destruct HB|].
  simpl. destruct (set_mem s b) eqn:E; [eauto|].
  destruct HB as [->|HB].
  - apply HopSets.set_mem_In in Hs. congruence.
  - eapply IH; eauto.
Qed.

Lemma block_index_nth : forall p i (b : block) s k,
  pdisj p -> nth_error p i = Some b -> In s b -> block_index s p k = Some (k + i).
Proof.
  induction p as [|b0 p IH]; intros i b s k Hd Hn Hs.
  - destruct i; discriminate.
  - destruct i as [|i]; simpl in Hn.
    + inversion Hn; subst b0. simpl.
      apply HopSets.set_mem_In in Hs. rewrite Hs. f_equal. lia.
    + simpl. destruct Hd as [Hd1 Hd2].
      destruct (set_mem s b0) eqn:E.
      * apply HopSets.set_mem_In in E. exfalso.
        apply (Hd1 s E b); [eapply nth_error_In; eauto|exact Hs].
      * rewrite (IH i b s (S k) Hd2 Hn Hs). f_equal. lia.
Qed.

(* ---------- Task 1: the bridge ---------- *)
Theorem stable_bridge : forall d p,
  (forall B, In B p -> B <> [] /\ (forall s, In s B -> s < d_n d)) ->
  pdisj p ->
  (forall s, s < d_n d -> exists B, In B p /\ In s B) ->
  stable_partition d p -> stable d p.
Proof.
  intros d p HB Hd Hc [Hfin Hedge]. constructor.
  - intros s Hs. destruct (Hc s Hs) as (B & H1 & H2). eapply block_index_in; eauto.
  - intros i b Hn. assert (Hin : In b p) by (eapply nth_error_In; eauto).
    destruct (HB b Hin) as [Hne Hr]. split; [exact Hne|].
    intros s Hs. split; [auto|]. apply (block_index_nth p i b s 0 Hd Hn Hs).
  - intros i s t Hs Ht.
    destruct (block_index_some0 _ _ _ Hs) as (b & Hn & Hsb).
    destruct (block_index_some0 _ _ _ Ht) as (b' & Hn' & Htb).
    assert (b' = b) by congruence. subst b'.
    assert (Hin : In b p) by (eapply nth_error_In; eauto).
    split.
    + pose proof (Hfin b s t Hin Hsb Htb) as E.
      rewrite <- !HopSets.set_mem_In. rewrite E. tauto.
    + intros e He Hsrc.
      destruct (Hedge b s t e Hin Hsb Htb He Hsrc)
        as (e' & E1 & E2 & E3 & E4 & E5 & (B' & P1 & P2 & P3) & E6).
      destruct (block_index_in p B' (e_dst e) 0 P1 P2) as [j Hj].
      exists e', j. split; [exact E1|]. split; [exact E2|].
      split; [apply lbl_eqb_intro; congruence|]. split; [exact Hj|congruence].
Qed.

Corollary trie_partition_stable_Q : forall cls t p,
  Forall wf_cluster cls -> Forall (Forall uniform_g) cls -> no_merge cls = true ->
  trie_of cls = Some t -> partition_of t = Some p -> stable t p.
Proof.
  intros cls t p Hwf Hu Hnm Ht Hp.
  pose proof (trie_like_of_trie cls t Ht Hnm Hu) as TL.
  destruct (partition_is_partition t p TL Hp) as (HB & Hd & Hc).
  apply stable_bridge; auto.
  - intros B HBp. destruct (HB B HBp) as (H1 & _ & H3 & _). auto.
  - apply partition_stable; auto.
Qed.

Section M.
  Variable lit_den cls_den : cp -> cp -> Prop.
  Local Notation Ld := (L_dfa lit_den cls_den).

  Theorem minimize_trie_lang : forall cls t,
    Forall wf_cluster cls -> Forall (Forall uniform_g) cls -> no_merge cls = true ->
    trie_of cls = Some t ->
    exists d' p,
      partition_of t = Some p /\ recreate_graph t p = Some d' /\ minimize t = Some d'
      /\ wf_dfa d'
      /\ (exists rank : nat -> nat,
            forall e, In e (d_edges d') -> rank (e_dst e) < rank (e_src e))
      /\ (forall u, u <> [] -> (Ld d' u <-> Ld t u))
      /\ (Ld d' [] -> Ld t [])
      /\ (eps_safe t p -> leq (Ld d') (Ld t))
      /\ (~ In (d_init t) (d_finals t) -> leq (Ld d') (Ld t))
      /\ (forall s, s < d_n t -> s <> d_init t ->
            block_index s p 0 = block_index (d_init t) p 0 -> leq (Ld d') (Ld t)).
  Proof.
    intros cls t Hwf Hu Hnm Ht.
    pose proof (trie_wf cls t Hwf Ht) as Hwt.
    pose proof (trie_shape cls t Ht) as Hsh.
    pose proof (tree_shape_no_parallel t Hsh) as Hnp.
    destruct (partition_total_any t) as [p Hp].
    pose proof (trie_partition_stable_Q cls t p Hwf Hu Hnm Ht Hp) as Hst.
    destruct (recreate_total_stable t p Hst Hwt) as [d' Hrg].
    exists d', p. split; [exact Hp|]. split; [exact Hrg|].
    split; [unfold minimize; rewrite Hp; exact Hrg|].
    split; [exact (quotient_wf_st t d' p Hwt Hrg)|].
    split; [exact (quotient_acyclic_stable t d' p Hwt Hst Hrg (trie_acyclic cls t Ht))|].
    split; [exact (quotient_lang_nonempty_st lit_den cls_den t d' p Hwt Hst Hrg Hnp)|].
    split; [exact (quotient_lang_sub_st lit_den cls_den t d' p Hst Hrg [])|].
    assert (HE : eps_safe t p -> leq (Ld d') (Ld t))
      by exact (quotient_lang_eps_kept_st lit_den cls_den t d' p Hwt Hst Hrg Hnp).
    split; [exact HE|]. split.
    - intros Hnf. apply HE. left. exact Hnf.
    - intros s Hs Hne Hb. apply HE. eapply tree_eps_safe; eauto.
  Qed.
End M.

(* ---------- Task 2 (part): recreate_graph on covering partitions ---------- *)
Lemma step_total_cover : forall d p,
  wf_dfa d ->
  (forall B, In B p -> B <> []) ->
  (forall s, s < d_n d -> exists B, In B p /\ In s B) ->
  forall bs acc0, (forall b, In b bs -> In b p) ->
  exists r, fold_left (rg_step d p) bs (Some acc0) = Some r.
Proof.
  intros d p Hwf Hne Hc. induction bs as [|b bs IH]; intros acc0 Hsub; simpl; [eauto|].
  destruct acc0 as [es fin].
  assert (Hb : In b p) by (apply Hsub; left; reflexivity).
  pose proof (Hne b Hb) as Hbne.
  destruct b as [|rep b]; [congruence|]. simpl.
  destruct (block_index_in p (rep :: b) rep 0 Hb (or_introl eq_refl)) as [i Hi]. rewrite Hi.
  destruct (inner_total d p i rep (neighbors (d_edges d) rep) (es, fin)) as [r Hr].
  - intros tgt Ht. split; [apply find_edge_neighbor; exact Ht|].
    apply neighbors_in in Ht. destruct Ht as (e & Hin & _ & <-).
    destruct (Hc (e_dst e)) as (B & HB1 & HB2); [apply (wf_dfa_edge d e Hwf Hin)|].
    eapply block_index_in; eauto.
  - rewrite Hr. apply IH. intros b0 Hb0. apply Hsub. right; exact Hb0.
Qed.

Theorem recreate_total_cover : forall d p,
  wf_dfa d ->
  (forall B, In B p -> B <> []) ->
  (forall s, s < d_n d -> exists B, In B p /\ In s B) ->
  exists d', recreate_graph d p = Some d'.
Proof.
  intros d p Hwf Hne Hc. rewrite recreate_graph_eq.
  destruct (step_total_cover d p Hwf Hne Hc p ([], [])) as [[es fin] Hr]; [auto|]. rewrite Hr.
  destruct Hwf as (_ & Hi & _). destruct (Hc _ Hi) as (B & H1 & H2).
  destruct (block_index_in p B _ 0 H1 H2) as [i0 Hi0]. rewrite Hi0. eauto.
Qed.

Theorem minimize_total_wf : forall d, wf_dfa d -> exists d', minimize d = Some d' /\ wf_dfa d'.
Proof.
  intros d Hwf. destruct (partition_total_any d) as [p Hp].
  assert (Hn : 1 <= d_n d) by (destruct Hwf as (_ & Hi & _); lia).
  destruct (partition_is_partition_any d p Hn Hp) as (HB & _ & Hc).
  destruct (recreate_total_cover d p Hwf) as [d' Hrg].
  - intros B HBp. apply (HB B HBp).
  - exact Hc.
  - exists d'. split; [unfold minimize; rewrite Hp; exact Hrg|].
    exact (quotient_wf_st d d' p Hwf Hrg).
Qed.

Check stable_bridge.
Check minimize_trie_lang.
Check recreate_total_cover.
Check minimize_total_wf.
Print Assumptions minimize_trie_lang.
Print Assumptions minimize_total_wf.
