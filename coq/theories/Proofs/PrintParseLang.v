(* Printing theorem, part 7: the expected AST denotes the language of the expression. *)
From Grex Require Import Base.Str Model.Config Model.Cluster Model.Dfa Model.Expr Model.Print.
From Grex Require Import Engine.Syntax Engine.Parse Engine.Sem.
From Grex Require Import Proofs.Lang Proofs.RepInv Proofs.ExprLang.
From Grex Require Import Proofs.PrintParseNum Proofs.PrintParseStep Proofs.PrintParseDefs
  Proofs.PrintParseEsc Proofs.PrintParseLit Proofs.PrintParseCC Proofs.PrintParseExpr
  Proofs.PrintParseSem.
From Coq Require Import Setoid Morphisms.

Section LangEq.
  Variable lit_den cls_den : cp -> cp -> Prop.
  Variable is_ws : cp -> bool.
  Variable c : cfg.
  Variable gap : Prop.
  Hypothesis Hp : printable c.
  Hypothesis Hverb : f_verbose c = false.
  Hypothesis Hgap : gap -> forall c0 x, surrogate c0 -> ~ lit_den c0 x.

  Notation LR := (LR lit_den cls_den).
  Notation LRs := (LRs lit_den cls_den).
  Notation LRa := (LRa lit_den cls_den).
  Notation Ls := (den_str lit_den cls_den).
  Notation Lg := (den_g lit_den cls_den).
  Notation Lc := (L_cluster lit_den cls_den).
  Notation Le := (L_expr lit_den cls_den).

  (* ---------- strings ---------- *)
  Lemma str_atoms_sem : forall n t, length t <= n ->
    leq (LRs (str_atoms t)) (Ls t) /\ afs (str_atoms t).
  Proof.
    induction n as [|n IH]; intros t Hlen.
    - destruct t; [|cbn [length] in Hlen; lia]. split; [reflexivity|constructor].
    - destruct t as [|x t]; [split; [reflexivity|constructor]|].
      destruct t as [|l t].
      + cbn [str_atoms den_str]. split; [apply LRs_one|repeat constructor].
      + cbn [length] in Hlen. cbn [str_atoms den_str].
        destruct (N.eqb x c_backslash && is_class_letter l).
        * destruct (IH t ltac:(lia)) as [H1 H2]. split; [|constructor; [exact I|exact H2]].
          cbn [PrintParseSem.LRs fold_right PrintParseSem.LR].
          apply lcat_congr; [reflexivity|exact H1].
        * destruct (IH (l :: t) ltac:(cbn [length]; lia)) as [H1 H2].
          split; [|constructor; [exact I|exact H2]].
          cbn [PrintParseSem.LRs fold_right PrintParseSem.LR].
          apply lcat_congr; [reflexivity|exact H1].
  Qed.

  Lemma chars_sem : forall cs,
    leq (LRs (flat_map str_atoms cs)) (den_chars lit_den cls_den cs) /\ afs (flat_map str_atoms cs).
  Proof.
    induction cs as [|t cs [IH1 IH2]]; [split; [reflexivity|constructor]|].
    destruct (str_atoms_sem (length t) t (le_n _)) as [H1 H2].
    cbn [flat_map den_chars]. split.
    - rewrite LRs_app. apply lcat_congr; assumption.
    - apply Forall_app. split; assumption.
  Qed.

  (* ---------- graphemes ---------- *)
  Definition g_sem (g : grapheme) : Prop :=
    leq (LRs (g_atoms c g)) (Lg g) /\ afs (g_atoms c g).

  Lemma glist_sem : forall gs, Forall g_sem gs ->
    leq (LRs (flat_map (g_atoms c) gs)) (Lc gs) /\ afs (flat_map (g_atoms c) gs).
  Proof.
    intros gs HF. induction HF as [|g gs [H1 H2] _ [IH1 IH2]]; [split; [reflexivity|constructor]|].
    cbn [flat_map L_cluster]. split.
    - rewrite LRs_app. apply lcat_congr; assumption.
    - apply Forall_app. split; assumption.
  Qed.

  Lemma den_g_11 : forall cs rs, leq (Lg (G cs rs 1%N 1%N)) (den_chars lit_den cls_den cs).
  Proof.
    intros cs rs u. unfold den_g. cbn [g_min g_max g_chars]. split.
    - intros (k & H1 & H2 & H3). assert (k = 1) by lia. subst k.
      cbn [lpow] in H3. destruct H3 as (v & w & -> & Hv & Hw). unfold leps in Hw. subst w.
      rewrite app_nil_r. exact Hv.
    - intros H. exists 1. repeat split; try lia. cbn [lpow]. exists u, []. rewrite app_nil_r.
      repeat split. exact H.
  Qed.

  Lemma afs_hd : forall l, afs l -> af (hd REmpty l).
  Proof. intros l H. destruct H; [exact I|assumption]. Qed.

  Lemma g_sem_all : forall g nested, wf_pg nested g -> g_sem g.
  Proof.
    induction g as [cs rs a b IH] using grapheme_ind'. intros nested Hwf.
    apply wf_pg_unfold in Hwf.
    destruct Hwf as (Hne & Htok & Ha & Hab & Hnest & Hrs & Hwfrs).
    assert (Hsem : Forall g_sem rs).
    { clear Hrs. induction IH as [|r rs Hr _ IHrs]; [constructor|].
      inversion Hwfrs; subst. constructor; [eapply Hr; eassumption|apply IHrs; assumption]. }
    destruct (glist_sem rs Hsem) as [Lrs Ars].
    destruct (chars_sem cs) as [Lcs Acs].
    set (D := den_chars lit_den cls_den cs).
    assert (HD : leq (LRs (g_inner c cs rs)) D /\ afs (g_inner c cs rs)).
    { unfold g_inner. destruct Hrs as [->|[Hexp _]]; [split; assumption|].
      destruct rs as [|r rs']; [split; assumption|]. split; [|exact Ars].
      rewrite Lrs.
      rewrite (RepInv.L_cluster_expand lit_den cls_den (r :: rs')).
      - rewrite Hexp. apply RepInv.L_cluster_map_g_from.
      - eapply Forall_impl; [|exact Hwfrs]. intros [cs1 rs1 a1 b1] H1.
        apply wf_pg_unfold in H1. destruct H1 as (_ & _ & _ & _ & Hn & _). cbn [g_min g_max].
        apply Hn. reflexivity. }
    destruct HD as [HD HA].
    unfold g_sem. rewrite g_atoms_unfold.
    destruct (N.eqb a 1 && N.eqb b 1) eqn:E11.
    - apply andb_true_iff in E11. destruct E11 as [Ea Eb].
      apply N.eqb_eq in Ea, Eb. subst a b. split; [|exact HA].
      rewrite HD. symmetry. apply den_g_11.
    - set (body := if g_single c cs rs then hd REmpty (g_inner c cs rs)
                   else RGroup (f_cap c) (rcat (g_inner c cs rs))).
      assert (HB : leq (LR body) D /\ af body).
      { unfold body. destruct (g_single c cs rs) eqn:Es.
        - assert (Ers : rs = []) by (destruct rs; [reflexivity|discriminate Es]). subst rs.
          cbn [g_single] in Es.
          destruct (single_atoms c Hp cs Hne Htok Es) as [x Hx].
          cbn [g_inner] in *. rewrite Hx in *. cbn [hd]. split.
          + rewrite <- HD. symmetry. apply LRs_one.
          + inversion HA; assumption.
        - cbn [PrintParseSem.LR af]. split.
          + rewrite LR_rcat. exact HD.
          + apply af_rcat. exact HA. }
      destruct HB as [HB HAb]. split; [|constructor; [exact HAb|constructor]].
      rewrite LRs_one. cbn [PrintParseSem.LR]. intros u. unfold den_g, rep_ok.
      cbn [g_min g_max g_chars]. fold D. split.
      + intros (n & [H1 H2] & H3). exists n. repeat split; try assumption.
        apply (lpow_congr _ _ n HB). exact H3.
      + intros (n & H1 & H2 & H3). exists n. repeat split; try assumption.
        apply (lpow_congr _ _ n HB). exact H3.
  Qed.

  Lemma cluster_sem : forall cl, Forall (wf_pg false) cl ->
    leq (LRs (flat_map (g_atoms c) cl)) (Lc cl) /\ afs (flat_map (g_atoms c) cl).
  Proof.
    intros cl HF. apply glist_sem. eapply Forall_impl; [|exact HF].
    intros g Hg. eapply g_sem_all. exact Hg.
  Qed.

  (* ---------- bracket classes ---------- *)
  Lemma cc_sem : forall cs, wf_cc gap cs -> leq (LR (RBracket (cc_items cs))) (Le (ECC cs)).
  Proof.
    intros cs Hwf u. cbn [PrintParseSem.LR L_expr]. unfold lone, bracket_den. split.
    - intros (x & -> & lo & hi & c0 & Hin & H1 & H2 & Hx).
      destruct (cc_cover_out gap cs lo hi c0 Hwf Hin H1 H2) as [Hc|(Hs & H3 & H4)].
      + exists c0. split; [exact Hc|]. exists x. auto.
      + exfalso. destruct Hwf as (_ & _ & _ & [Hg|Hg]); [|apply Hg; auto].
        eapply Hgap; eauto.
    - intros (c0 & Hin & x & -> & Hx).
      destruct (cc_cover_in gap cs c0 Hwf Hin) as (lo & hi & H1 & H2 & H3).
      exists x. split; [reflexivity|]. exists lo, hi, c0. auto.
  Qed.

  (* ---------- expressions ---------- *)
  Definition e_sem (e : expr) : Prop :=
    leq (LRs (e_atoms c e)) (Le e) /\ leq (LRa (e_alts c e)) (Le e) /\ e_alts c e <> []
    /\ afs (e_atoms c e) /\ afs (e_alts c e).

  Lemma e_sem_of_atoms : forall e, not_alt e ->
    leq (LRs (e_atoms c e)) (Le e) -> afs (e_atoms c e) -> e_sem e.
  Proof.
    intros e Hna H Ha. unfold e_sem. rewrite (e_alts_nonalt c e Hna).
    split; [exact H|]. split; [rewrite LRa_one, LR_rcat; exact H|].
    split; [discriminate|]. split; [exact Ha|].
    constructor; [apply af_rcat; exact Ha|constructor].
  Qed.

  Lemma group_sem : forall x, e_sem x ->
    leq (LR (RGroup (f_cap c) (ralt (e_alts c x)))) (Le x) /\ af (RGroup (f_cap c) (ralt (e_alts c x))).
  Proof.
    intros x (_ & H2 & H3 & _ & H5). cbn [PrintParseSem.LR af]. split.
    - rewrite LR_ralt by exact H3. exact H2.
    - apply af_ralt. exact H5.
  Qed.

  Lemma part_sem : forall lvl x, e_sem x ->
    leq (LRs (e_part c lvl x)) (Le x) /\ afs (e_part c lvl x).
  Proof.
    intros lvl x Hx. unfold e_part. destruct (needs_group c lvl x).
    - destruct (group_sem x Hx) as [H1 H2]. split; [rewrite LRs_one; exact H1|].
      constructor; [exact H2|constructor].
    - destruct Hx as (H1 & _ & _ & H4 & _). split; assumption.
  Qed.

  Lemma ungrouped_atom : forall x, wf_print_gen gap x -> needs_group c 3 x = false ->
    exists y, e_atoms c x = [y].
  Proof.
    intros x Hwf Eg. destruct x as [os|cs|a b|cl|x' q'].
    - rewrite needs_group_alt in Eg by lia. discriminate.
    - eexists. reflexivity.
    - discriminate Eg.
    - unfold needs_group in Eg. cbn [precedence] in Eg.
      change (Nat.ltb 2 3) with true in Eg. cbn [andb] in Eg. apply negb_false_iff in Eg.
      cbn [wf_print_gen] in Hwf.
      destruct (single_lit_shape c cl Hwf Eg) as (y & -> & _). eexists. reflexivity.
    - eexists. reflexivity.
  Qed.

  Lemma alts_sem : forall os, Forall e_sem os ->
    leq (LRa (flat_map (e_alts c) os)) (Le (EAlt os)) /\ afs (flat_map (e_alts c) os).
  Proof.
    intros os HF. induction HF as [|o os (_ & H2 & _ & _ & H5) _ [IH1 IH2]].
    - split; [reflexivity|constructor].
    - cbn [flat_map]. split.
      + rewrite LRa_app.
        change (Le (EAlt (o :: os))) with (lunion (Le o) (Le (EAlt os))).
        apply lunion_congr; assumption.
      + apply Forall_app. split; assumption.
  Qed.

  Lemma rep_sem : forall body A q, leq (LR body) A ->
    leq (LR (RRep body (quant_lo q) (quant_hi q)))
        (match q with QStar => lstar A | QQuestion => lopt A end).
  Proof.
    intros body A q HB u. cbn [PrintParseSem.LR]. unfold rep_ok, quant_lo. destruct q; cbn [quant_hi].
    - unfold lstar. split.
      + intros (n & _ & Hn). exists n. apply (lpow_congr _ _ n HB). exact Hn.
      + intros (n & Hn). exists n. split; [split; [lia|exact I]|].
        apply (lpow_congr _ _ n HB). exact Hn.
    - unfold lopt, lunion. split.
      + intros (n & [_ Hn1] & Hn). destruct n as [|[|n]]; [left; exact Hn| |lia].
        right. cbn [lpow] in Hn. destruct Hn as (v & w & -> & Hv & Hw). unfold leps in Hw. subst w.
        rewrite app_nil_r. apply HB. exact Hv.
      + intros [H|H].
        * exists 0. split; [split; lia|exact H].
        * exists 1. split; [split; lia|]. cbn [lpow]. exists u, []. rewrite app_nil_r.
          repeat split. apply HB. exact H.
  Qed.

  Lemma e_sem_all : forall e, wf_print_gen gap e -> e_sem e.
  Proof.
    induction e as [os IH|cs|a b IHa IHb|cl|x q IHx] using expr_ind'; intros Hwf.
    - apply wf_print_alt in Hwf. destruct Hwf as [Hne Hwf].
      assert (HF : Forall e_sem os).
      { clear Hne. induction IH as [|o os Ho _ IHos]; [constructor|].
        inversion Hwf; subst. constructor; [apply Ho; assumption|apply IHos; assumption]. }
      destruct (alts_sem os HF) as [H1 H2].
      assert (Hnz : flat_map (e_alts c) os <> []).
      { destruct os as [|o os]; [congruence|]. inversion HF as [|? ? (_ & _ & H3 & _) _]; subst.
        cbn [flat_map]. intros X. apply app_eq_nil in X. destruct X. contradiction. }
      unfold e_sem. rewrite e_atoms_alt, e_alts_alt.
      split; [|split; [exact H1|split; [exact Hnz|split; [|exact H2]]]].
      + rewrite LRs_one. cbn [PrintParseSem.LR]. rewrite LR_ralt by exact Hnz. exact H1.
      + constructor; [|constructor]. cbn [af]. apply af_ralt. exact H2.
    - cbn [wf_print_gen] in Hwf. apply e_sem_of_atoms; [intros os; discriminate| |].
      + rewrite e_atoms_cc, LRs_one. apply cc_sem. exact Hwf.
      + repeat constructor.
    - cbn [wf_print_gen] in Hwf. destruct Hwf as [Hwa Hwb].
      destruct (part_sem 2 a (IHa Hwa)) as [A1 A2]. destruct (part_sem 2 b (IHb Hwb)) as [B1 B2].
      apply e_sem_of_atoms; [intros os; discriminate| |].
      + rewrite e_atoms_cat, LRs_app. cbn [L_expr]. apply lcat_congr; assumption.
      + rewrite e_atoms_cat. apply Forall_app. split; assumption.
    - cbn [wf_print_gen] in Hwf. destruct (cluster_sem cl Hwf) as [H1 H2].
      apply e_sem_of_atoms; [intros os; discriminate| |]; rewrite e_atoms_lit; assumption.
    - cbn [wf_print_gen] in Hwf. destruct Hwf as [Hwx _]. specialize (IHx Hwx).
      set (body := if needs_group c 3 x then RGroup (f_cap c) (ralt (e_alts c x))
                   else hd REmpty (e_atoms c x)).
      assert (HB : leq (LR body) (Le x) /\ af body).
      { unfold body. destruct (needs_group c 3 x) eqn:Eg; [apply group_sem; exact IHx|].
        destruct (ungrouped_atom x Hwx Eg) as [y Ey]. rewrite Ey. cbn [hd].
        destruct IHx as (H1 & _ & _ & H4 & _). rewrite Ey in H1, H4. split.
        - rewrite <- H1. symmetry. apply LRs_one.
        - inversion H4; assumption. }
      destruct HB as [HB HAb].
      apply e_sem_of_atoms; [intros os; discriminate| |].
      + rewrite e_atoms_rep. fold body. rewrite LRs_one.
        rewrite (rep_sem body (Le x) q HB). destruct q; reflexivity.
      + rewrite e_atoms_rep. fold body. constructor; [exact HAb|constructor].
  Qed.
End LangEq.
