(* Property "syntax highlighting only adds colour codes":
   removing the SGR sequences from the highlighted output yields exactly the plain output.

   Files:  ColourStripBase   the stripper (fuel-free equations), wrappers, the relation CP
           ColourStripExpr   e_str                       (all modes, unconditional)
           ColourStripRegexp regexp_str, non-verbose     (unconditional)
           ColourStripLines  lines / indent_regexp       (under decision stability of the lines)
           ColourStripPlain  invariants of the plain verbose text (classes with sorted members)
           ColourStripIndent every plain verbose line is decision-stable
           ColourStripNoEsc  the plain output of an ESC-free expression has no SGR sequence
           ColourStrip       (this file) the theorems, and the counterexamples.

   FINDINGS
   1. strip_regexp_str as originally stated (every expression, every setting) is FALSE in
      verbose mode: indent_regexp strips each line before testing it — also the lines of the
      PLAIN text — and a plain line may contain a literal ESC directly followed by the `[` of a
      bracket class, e.g. ESC [ 0 m ) ] for the class {0, m, )} listed in that order.  Stripping
      the plain line then yields ")]", which triggers a dedent that the highlighted run (where
      `[` is wrapped) does not perform.  See cex_verbose_unsorted below.
      It is TRUE for all expressions whose class members are strictly increasing (the BTreeSet
      invariant of Expression::CharacterClass): expr_wf.  In non-verbose mode it is true for
      every expression.
   2. plain_no_sgr as originally stated is FALSE, even for sorted classes and the default
      configuration: the plain output for  ECat (ELit ESC) (ECC {0, m})  is  ^ ESC [ 0 m ] $,
      which contains the SGR reset sequence.  A literal `[` is always printed `\[`, but the
      opening bracket of a class is not.  See cex_plain_no_sgr.  It is true when no literal
      and no class of the expression contains ESC (esc_free). *)
From Coq Require Import Sorting.Sorted.
From Grex Require Import Base.Str Model.Config Model.Cluster Model.Dfa Model.Expr Model.Print.
From Grex Require Export Proofs.ColourStripBase.
From Grex Require Import Proofs.ColourStripExpr Proofs.ColourStripRegexp Proofs.ColourStripLines
     Proofs.ColourStripPlain Proofs.ColourStripIndent Proofs.ColourStripNoEsc.
From GrexGen Require Import SrcConsts.
Local Open Scope N_scope.

(* well-formed expressions: the members of every class are strictly increasing *)
Definition expr_wf := ColourStripIndent.expr_wf.

(* the main theorem *)
Theorem strip_regexp_str : forall isd c e, digit_ok isd ->
    (f_verbose c = true -> expr_wf e) ->
    strip_sgr isd (regexp_str isd (with_colour c true) e) = regexp_str isd (with_colour c false) e.
Proof.
  intros isd c e Hd W. apply ColourStripLines.strip_regexp_str_gen; [exact Hd|].
  intros Hv. apply verbose_lines_dstable; [exact Hv|apply W; exact Hv].
Qed.

Corollary strip_regexp_str_wf : forall isd c e, digit_ok isd -> expr_wf e ->
    strip_sgr isd (regexp_str isd (with_colour c true) e) = regexp_str isd (with_colour c false) e.
Proof. intros isd c e Hd W. apply strip_regexp_str; [exact Hd|intros _; exact W]. Qed.

(* non-verbose mode: every expression *)
Theorem strip_regexp_str_nonverbose : forall isd c e, digit_ok isd -> f_verbose c = false ->
    strip_sgr isd (regexp_str isd (with_colour c true) e) = regexp_str isd (with_colour c false) e.
Proof. exact ColourStripRegexp.strip_regexp_str_nonverbose. Qed.

(* all modes, every expression, under the semantic condition (exactly what the indentation
   needs) that stripping a plain line does not change the four tests of indent_lines *)
Theorem strip_regexp_str_gen : forall isd c e, digit_ok isd ->
    (f_verbose c = true -> Forall (dstable isd) (lines (re_v (with_colour c false) e))) ->
    strip_sgr isd (regexp_str isd (with_colour c true) e) = regexp_str isd (with_colour c false) e.
Proof. exact ColourStripLines.strip_regexp_str_gen. Qed.

(* the expression printer: every expression, every setting *)
Theorem strip_e_str : forall isd c e, digit_ok isd ->
    strip_sgr isd (e_str (with_colour c true) e) = e_str (with_colour c false) e.
Proof. exact ColourStripExpr.strip_e_str. Qed.

(* the plain output contains nothing the stripper removes, for ESC-free expressions *)
Definition esc_free := ColourStripNoEsc.esc_free.
Theorem plain_no_sgr : forall isd c e, esc_free e ->
    strip_sgr isd (regexp_str isd (with_colour c false) e) = regexp_str isd (with_colour c false) e.
Proof. exact ColourStripNoEsc.plain_no_sgr. Qed.

(* unfolding the two hypotheses *)
Lemma expr_wf_unfold : forall e,
    expr_wf e <-> ewf (StronglySorted N.lt) (fun _ => True) e.
Proof. intros e. split; intros H; exact H. Qed.
Lemma esc_free_unfold : forall e,
    esc_free e <-> ewf (fun cs => Forall (fun x => x <> 27) cs)
                       (fun cl => Forall (gok (Forall (fun x => x <> 27))) cl) e.
Proof. intros e. split; intros H; exact H. Qed.

(* ---------- counterexamples ---------- *)
Lemma digit_ok_is_dig : digit_ok is_dig.
Proof.
  split; [|split; reflexivity].
  intros d H1 H2. unfold is_dig. apply andb_true_iff. split; apply N.leb_le; assumption.
Qed.

Definition cex_cfg_verbose : cfg :=
  mkCfg 1 1 false false false false false false false false false false false true false false false.

(* verbose mode, class members not sorted: the stripped highlighted output differs from the
   plain output (the plain run dedents the line  ESC [ 0 m ) ]  because its stripped form
   starts with a closing parenthesis) *)
Definition cex_unsorted : expr := ECat (ELit [g_from [27]]) (ECC [48; 109; 41]).

Lemma cex_verbose_unsorted :
  strip_sgr is_dig (regexp_str is_dig (with_colour cex_cfg_verbose true) cex_unsorted)
  <> regexp_str is_dig (with_colour cex_cfg_verbose false) cex_unsorted.
Proof. vm_compute. discriminate. Qed.

(* plain output that contains an SGR sequence: default configuration, sorted class *)
Definition cex_plain : expr := ECat (ELit [g_from [27]]) (ECC [48; 109]).

Lemma cex_plain_wf : expr_wf cex_plain.
Proof.
  apply ewf_cat; [apply ewf_lit; exact I|]. apply ewf_cc.
  repeat constructor.
Qed.

Lemma cex_plain_no_sgr :
  strip_sgr is_dig (regexp_str is_dig (with_colour default_cfg false) cex_plain)
  <> regexp_str is_dig (with_colour default_cfg false) cex_plain.
Proof. vm_compute. discriminate. Qed.

(* the counterexample to plain_no_sgr still satisfies the main theorem *)
Lemma cex_plain_main :
  strip_sgr is_dig (regexp_str is_dig (with_colour cex_cfg_verbose true) cex_plain)
  = regexp_str is_dig (with_colour cex_cfg_verbose false) cex_plain.
Proof. apply strip_regexp_str_wf; [exact digit_ok_is_dig|exact cex_plain_wf]. Qed.

Check strip_regexp_str.
Check strip_regexp_str_wf.
Check strip_regexp_str_nonverbose.
Check strip_regexp_str_gen.
Check strip_e_str.
Check plain_no_sgr.
Check cex_verbose_unsorted.
Check cex_plain_no_sgr.
Print Assumptions strip_regexp_str.
Print Assumptions strip_regexp_str_nonverbose.
Print Assumptions strip_regexp_str_gen.
Print Assumptions strip_e_str.
Print Assumptions plain_no_sgr.
Print Assumptions cex_verbose_unsorted.
Print Assumptions cex_plain_no_sgr.
