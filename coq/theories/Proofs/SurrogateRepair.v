(* Re-pairing of UTF-16 surrogate escapes, part 1: the function `repair` and its elementary
   properties.

   With f_esc and f_sur the printer writes every astral code point as the pair \u{hi}\u{lo} of its
   UTF-16 surrogates.  The regex crate rejects surrogate escapes by design, so such a pattern has
   to be decoded first: `repair` scans the pattern from left to right and replaces every adjacent
   pair \u{h1}\u{h2}, h1 a high and h2 a low surrogate (lower-case hex), by the single escape of
   the code point they encode.  Everything else is left alone. *)
From Grex Require Import Base.Str Model.Config Model.Cluster Model.Expr Model.Print.
From Grex Require Import Proofs.EscapeProps.
From GrexGen Require Import SrcConsts.

Local Open Scope N_scope.
Arguments N.add : simpl never.
Arguments N.sub : simpl never.
Arguments N.mul : simpl never.
Arguments N.div : simpl never.
Arguments N.modulo : simpl never.
Arguments N.pow : simpl never.
Arguments N.leb : simpl never.
Arguments N.ltb : simpl never.
Arguments N.eqb : simpl never.

Notation u_escape := EscapeProps.parse_escape.

(* the code point encoded by the surrogates v (high) and w (low) *)
Definition combine_sur (v w : N) : N := 65536 + (v - 55296) * 1024 + (w - 56320).

(* a high+low surrogate escape pair at the start of s: the code point and what follows *)
Definition pair_at (s : str) : option (N * str) :=
  match u_escape s with
  | Some (v, rest) =>
      if is_hi v then
        match u_escape rest with
        | Some (w, rest2) => if is_lo w then Some (combine_sur v w, rest2) else None
        | None => None
        end
      else None
  | None => None
  end.

Fixpoint repair_fuel (fuel : nat) (s : str) : str :=
  match fuel with
  | O => s
  | S f =>
      match s with
      | [] => []
      | x :: s' =>
          match pair_at s with
          | Some (u, rest2) => esc_unicode u ++ repair_fuel f rest2
          | None => x :: repair_fuel f s'
          end
      end
  end.

Definition repair (s : str) : str := repair_fuel (length s) s.

(* ------------------------------------------------------------------ *)
(** * the escape token parser *)

Lemma scan_hex_suffix : forall s acc v r, scan_hex s acc = (v, r) -> exists p, s = p ++ r.
Proof.
  induction s as [|c s IH]; intros acc v r H; cbn [scan_hex] in H.
  - inversion H; subst. exists []. reflexivity.
  - destruct (hexval c) as [d|].
    + apply IH in H. destruct H as [p ->]. exists (c :: p). reflexivity.
    + inversion H; subst. exists []. reflexivity.
Qed.

Lemma u_escape_inv : forall s v rest, u_escape s = Some (v, rest) ->
  exists t, s = 92 :: 117 :: 123 :: t /\ starts_hex t = true /\ scan_hex t 0 = (v, 125 :: rest).
Proof.
  intros s v rest H. unfold EscapeProps.parse_escape in H.
  destruct s as [|a [|b [|c t]]]; try discriminate.
  destruct (N.eqb_spec a 92) as [->|]; [|discriminate].
  destruct (N.eqb_spec b 117) as [->|]; [|discriminate].
  destruct (N.eqb_spec c 123) as [->|]; [|discriminate].
  cbn [andb] in H. destruct (starts_hex t) eqn:Es; [|discriminate].
  destruct (scan_hex t 0) as [v' [|z r']] eqn:Esc; [discriminate|].
  destruct (N.eqb_spec z 125) as [->|]; [|discriminate].
  inversion H; subst. exists t. auto.
Qed.

Lemma u_escape_suffix : forall s v rest, u_escape s = Some (v, rest) ->
  exists p, s = p ++ rest /\ p <> [].
Proof.
  intros s v rest H. apply u_escape_inv in H. destruct H as (t & -> & _ & Hsc).
  apply scan_hex_suffix in Hsc. destruct Hsc as [p ->].
  exists (92 :: 117 :: 123 :: p ++ [125]). split; [|discriminate].
  cbn [app]. rewrite <- app_assoc. reflexivity.
Qed.

Lemma u_escape_hd : forall x s p, u_escape (x :: s) = Some p -> x = 92.
Proof.
  intros x s [v r] H. apply u_escape_inv in H. destruct H as (t & E & _). congruence.
Qed.

Lemma u_escape_not_bs : forall x s, x <> 92 -> u_escape (x :: s) = None.
Proof.
  intros x s H. destruct (u_escape (x :: s)) as [p|] eqn:E; [|reflexivity].
  apply u_escape_hd in E. contradiction.
Qed.

Lemma u_escape_not_u : forall z s, z <> 117 -> u_escape (92 :: z :: s) = None.
Proof.
  intros z s H. destruct (u_escape (92 :: z :: s)) as [[v r]|] eqn:E; [|reflexivity].
  apply u_escape_inv in E. destruct E as (t & E & _). congruence.
Qed.

Lemma u_escape_not_brace : forall z s, z <> 123 -> u_escape (92 :: 117 :: z :: s) = None.
Proof.
  intros z s H. destruct (u_escape (92 :: 117 :: z :: s)) as [[v r]|] eqn:E; [|reflexivity].
  apply u_escape_inv in E. destruct E as (t & E & _). congruence.
Qed.

Lemma u_escape_not_hex : forall s, starts_hex s = false -> u_escape (92 :: 117 :: 123 :: s) = None.
Proof.
  intros s H. destruct (u_escape (92 :: 117 :: 123 :: s)) as [[v r]|] eqn:E; [|reflexivity].
  apply u_escape_inv in E. destruct E as (t & E & Hs & _). inversion E; subst. congruence.
Qed.

(* ------------------------------------------------------------------ *)
(** * pairs *)

Lemma pair_at_inv : forall s u r, pair_at s = Some (u, r) ->
  exists v w m, u_escape s = Some (v, m) /\ is_hi v = true /\ u_escape m = Some (w, r)
                /\ is_lo w = true /\ u = combine_sur v w.
Proof.
  intros s u r H. unfold pair_at in H.
  destruct (u_escape s) as [[v m]|] eqn:E1; [|discriminate].
  destruct (is_hi v) eqn:Ev; [|discriminate].
  destruct (u_escape m) as [[w r']|] eqn:E2; [|discriminate].
  destruct (is_lo w) eqn:Ew; [|discriminate].
  inversion H; subst. exists v, w, m. auto.
Qed.

Lemma pair_at_suffix : forall s u r, pair_at s = Some (u, r) -> exists p, s = p ++ r /\ p <> [].
Proof.
  intros s u r H. apply pair_at_inv in H. destruct H as (v & w & m & E1 & _ & E2 & _).
  apply u_escape_suffix in E1. destruct E1 as (p1 & -> & Hp1).
  apply u_escape_suffix in E2. destruct E2 as (p2 & -> & _).
  exists (p1 ++ p2). split; [rewrite app_assoc; reflexivity|].
  intros X. apply app_eq_nil in X. destruct X. contradiction.
Qed.

Lemma pair_at_len : forall s u r, pair_at s = Some (u, r) -> (length r < length s)%nat.
Proof.
  intros s u r H. apply pair_at_suffix in H. destruct H as (p & -> & Hp).
  rewrite app_length. destruct p; [congruence|]. cbn [length]. lia.
Qed.

Lemma pair_at_none_esc : forall s, u_escape s = None -> pair_at s = None.
Proof. intros s H. unfold pair_at. rewrite H. reflexivity. Qed.

Lemma pair_at_none_hi : forall s v m, u_escape s = Some (v, m) -> is_hi v = false -> pair_at s = None.
Proof. intros s v m H Hv. unfold pair_at. rewrite H, Hv. reflexivity. Qed.

(* ------------------------------------------------------------------ *)
(** * the fuel *)

Lemma repair_fuel_indep : forall n s f1 f2,
  (length s <= n)%nat -> (length s <= f1)%nat -> (length s <= f2)%nat ->
  repair_fuel f1 s = repair_fuel f2 s.
Proof.
  induction n as [|n IH]; intros s f1 f2 Hn H1 H2.
  - destruct s; [|cbn [length] in Hn; lia]. destruct f1, f2; reflexivity.
  - destruct s as [|x s']; [destruct f1, f2; reflexivity|].
    destruct f1 as [|f1]; [cbn [length] in H1; lia|].
    destruct f2 as [|f2]; [cbn [length] in H2; lia|].
    cbn [repair_fuel]. destruct (pair_at (x :: s')) as [[u r]|] eqn:E.
    + apply pair_at_len in E. f_equal. cbn [length] in *. apply IH; lia.
    + f_equal. cbn [length] in *. apply IH; lia.
Qed.

Lemma repair_nil : repair [] = [].
Proof. reflexivity. Qed.

Lemma repair_cons : forall x s,
  repair (x :: s)
  = match pair_at (x :: s) with
    | Some (u, r) => esc_unicode u ++ repair r
    | None => x :: repair s
    end.
Proof.
  intros x s. unfold repair. cbn [length repair_fuel].
  destruct (pair_at (x :: s)) as [[u r]|] eqn:E; [|reflexivity].
  apply pair_at_len in E. cbn [length] in E. f_equal.
  apply (repair_fuel_indep (length r)); lia.
Qed.

Lemma repair_none : forall x s, pair_at (x :: s) = None -> repair (x :: s) = x :: repair s.
Proof. intros x s H. rewrite repair_cons, H. reflexivity. Qed.

Lemma repair_some : forall s u r, pair_at s = Some (u, r) -> repair s = esc_unicode u ++ repair r.
Proof.
  intros s u r H. destruct s as [|x s].
  - apply pair_at_len in H. cbn [length] in H. lia.
  - rewrite repair_cons, H. reflexivity.
Qed.

(* ------------------------------------------------------------------ *)
(** * what repair leaves alone *)

Definition no_bs (s : str) : Prop := Forall (fun x => x <> 92) s.

Lemma repair_raw1 : forall x s, x <> 92 -> repair (x :: s) = x :: repair s.
Proof.
  intros x s H. apply repair_none. apply pair_at_none_esc. apply u_escape_not_bs. exact H.
Qed.

Lemma repair_raw : forall a s, no_bs a -> repair (a ++ s) = a ++ repair s.
Proof.
  intros a s H. induction H as [|x a Hx _ IH]; [reflexivity|].
  cbn [app]. rewrite repair_raw1 by exact Hx. rewrite IH. reflexivity.
Qed.

(* a backslash that does not start a \u escape *)
Lemma repair_bs1 : forall z s, z <> 117 -> repair (92 :: z :: s) = 92 :: repair (z :: s).
Proof.
  intros z s H. apply repair_none. apply pair_at_none_esc. apply u_escape_not_u. exact H.
Qed.

Lemma repair_bs_nil : repair [92] = [92].
Proof. reflexivity. Qed.

(* a two-character escape other than \\ and \u *)
Lemma repair_esc2 : forall z s, z <> 117 -> z <> 92 -> repair (92 :: z :: s) = 92 :: z :: repair s.
Proof.
  intros z s H1 H2. rewrite repair_bs1 by exact H1. rewrite repair_raw1 by exact H2. reflexivity.
Qed.

(* [nb s]: a backslash in front of s does not start a high surrogate escape *)
Definition nb (s : str) : Prop := forall v r, u_escape (92 :: s) = Some (v, r) -> is_hi v = false.

Lemma pair_at_nb : forall s, nb s -> pair_at (92 :: s) = None.
Proof.
  intros s H. destruct (u_escape (92 :: s)) as [[v r]|] eqn:E.
  - eapply pair_at_none_hi; [exact E|]. eapply H. exact E.
  - apply pair_at_none_esc. exact E.
Qed.

(* the escaped backslash *)
Lemma repair_bsbs : forall s, nb s -> repair (92 :: 92 :: s) = 92 :: 92 :: repair s.
Proof.
  intros s H. rewrite repair_bs1 by discriminate.
  rewrite repair_none by (apply pair_at_nb; exact H). reflexivity.
Qed.

Lemma nb_nil : nb [].
Proof. intros v r H. discriminate H. Qed.

Lemma nb_cons : forall x s, x <> 117 -> nb (x :: s).
Proof. intros x s H v r E. rewrite u_escape_not_u in E by exact H. discriminate. Qed.

Lemma nb_u_nil : nb [117].
Proof. intros v r H. discriminate H. Qed.

Lemma nb_u_cons : forall x s, x <> 123 -> nb (117 :: x :: s).
Proof. intros x s H v r E. rewrite u_escape_not_brace in E by exact H. discriminate. Qed.

Lemma nb_u_brace : forall s, starts_hex s = false -> nb (117 :: 123 :: s).
Proof. intros s H v r E. rewrite u_escape_not_hex in E by exact H. discriminate. Qed.

(* ------------------------------------------------------------------ *)
(** * single escapes and pairs *)

Lemma hex_no_bs : forall n, no_bs (hex_of_N n).
Proof.
  intros n. eapply Forall_impl; [|apply hex_of_N_digits].
  intros x H. unfold is_hex in H. unfold cp in *. lia.
Qed.

Lemma dec_no_bs : forall n, no_bs (dec_of_N n).
Proof.
  intros n. eapply Forall_impl; [|apply dec_of_N_digits].
  intros x H. unfold is_dec in H. unfold cp in *. lia.
Qed.

Lemma no_bs_app : forall a b, no_bs a -> no_bs b -> no_bs (a ++ b).
Proof. intros a b Ha Hb. apply Forall_app. split; assumption. Qed.

(* an escape that is not a high surrogate is kept *)
Lemma repair_esc_unicode : forall y s, is_hi y = false ->
  repair (esc_unicode y ++ s) = esc_unicode y ++ repair s.
Proof.
  intros y s Hy.
  assert (Hn : pair_at (esc_unicode y ++ s) = None).
  { eapply pair_at_none_hi; [apply parse_escape_esc_unicode|exact Hy]. }
  rewrite (esc_unicode_cons y s) in Hn.
  rewrite (esc_unicode_cons y s), (esc_unicode_cons y (repair s)).
  rewrite repair_none by exact Hn. f_equal.
  replace (117 :: 123 :: hex_of_N y ++ 125 :: s) with ((117 :: 123 :: hex_of_N y ++ [125]) ++ s)
    by (cbn [app]; rewrite <- app_assoc; reflexivity).
  replace (117 :: 123 :: hex_of_N y ++ 125 :: repair s)
    with ((117 :: 123 :: hex_of_N y ++ [125]) ++ repair s)
    by (cbn [app]; rewrite <- app_assoc; reflexivity).
  apply repair_raw. constructor; [discriminate|]. constructor; [discriminate|].
  apply no_bs_app; [apply hex_no_bs|]. constructor; [discriminate|constructor].
Qed.

(* a high+low pair is replaced by the escape of the code point it encodes *)
Lemma repair_pair : forall v w s, is_hi v = true -> is_lo w = true ->
  repair (esc_unicode v ++ esc_unicode w ++ s) = esc_unicode (combine_sur v w) ++ repair s.
Proof.
  intros v w s Hv Hw. apply repair_some. unfold pair_at.
  rewrite parse_escape_esc_unicode, Hv, parse_escape_esc_unicode, Hw. reflexivity.
Qed.

Lemma is_astral_spec : forall x, is_astral x = true <-> 65536 <= x <= 1114111.
Proof.
  intros x. unfold is_astral.
  change astral_lo with 65536. change astral_hi with 1114111. change astral_inclusive with true.
  cbv iota. rewrite andb_true_iff, !N.leb_le. reflexivity.
Qed.

(* the arithmetic round trip *)
Theorem repair_escape_cp_astral : forall x s, 65536 <= x <= 1114111 ->
  repair (escape_cp true x ++ s) = escape_cp false x ++ repair s.
Proof.
  intros x s Hx. destruct (escape_cp_surrogate_full x Hx) as (E & Hh & Hl & Hrt).
  rewrite E, <- app_assoc. rewrite repair_pair.
  - unfold combine_sur. rewrite Hrt.
    rewrite (escape_cp_unicode false x) by (unfold cp in *; (lia || (left; reflexivity))).
    reflexivity.
  - unfold is_hi. apply andb_true_intro. split; apply N.leb_le; apply Hh.
  - unfold is_lo. apply andb_true_intro. split; apply N.leb_le; apply Hl.
Qed.

Corollary repair_escape_cp : forall x, 65536 <= x <= 1114111 ->
  repair (escape_cp true x) = escape_cp false x.
Proof.
  intros x Hx. pose proof (repair_escape_cp_astral x [] Hx) as H.
  rewrite repair_nil, !app_nil_r in H. exact H.
Qed.

(* a non-ASCII code point below the astral planes that is no high surrogate *)
Lemma repair_escape_cp_bmp : forall sur x s, 128 <= x -> x < 65536 -> is_hi x = false ->
  repair (escape_cp sur x ++ s) = escape_cp false x ++ repair s.
Proof.
  intros sur x s H1 H2 Hh.
  assert (Ha : is_astral x = false).
  { destruct (is_astral x) eqn:E; [|reflexivity]. apply is_astral_spec in E. unfold cp in *. lia. }
  rewrite (escape_cp_unicode sur x) by (auto). rewrite (escape_cp_unicode false x) by auto.
  apply (repair_esc_unicode x s Hh).
Qed.

(* ------------------------------------------------------------------ *)
(** * ASCII is preserved *)

Lemma ascii_app_r : forall a b : str, ascii (a ++ b) -> ascii b.
Proof. intros a b H. apply Forall_app in H. apply H. Qed.

Lemma repair_fuel_ascii : forall f s, ascii s -> ascii (repair_fuel f s).
Proof.
  induction f as [|f IH]; intros s Hs; [exact Hs|].
  destruct s as [|x s']; [constructor|]. cbn [repair_fuel].
  destruct (pair_at (x :: s')) as [[u r]|] eqn:E.
  - apply pair_at_suffix in E. destruct E as (p & E & _).
    apply ascii_app; [apply esc_unicode_ascii|]. apply IH.
    rewrite E in Hs. eapply ascii_app_r. exact Hs.
  - inversion Hs; subst. constructor; [assumption|]. apply IH. assumption.
Qed.

Theorem repair_ascii : forall s,
  Forall (fun x => x < 128) s -> Forall (fun x => x < 128) (repair s).
Proof. intros s H. apply repair_fuel_ascii. exact H. Qed.

(* ------------------------------------------------------------------ *)
(** * no pair, no change *)

(* no suffix of s starts with a high+low surrogate escape pair *)
Definition no_pairs (s : str) : Prop := forall p t, s = p ++ t -> pair_at t = None.

Theorem repair_no_pairs : forall s, no_pairs s -> repair s = s.
Proof.
  induction s as [|x s IH]; intros H; [reflexivity|].
  rewrite repair_none by (apply (H []); reflexivity). f_equal. apply IH.
  intros p t E. apply (H (x :: p)). rewrite E. reflexivity.
Qed.

(* conversely every change comes from a pair *)
Lemma repair_changed : forall s, repair s <> s -> ~ no_pairs s.
Proof. intros s H Hn. apply H. apply repair_no_pairs. exact Hn. Qed.

(* ------------------------------------------------------------------ *)
(** * decimal digits never spell a high surrogate in hexadecimal *)

Definition dig4 (n : N) : Prop :=
  n mod 16 < 10 /\ (n / 16) mod 16 < 10 /\ (n / 256) mod 16 < 10 /\ (n / 4096) mod 16 < 10.

Lemma shift_digit : forall n d, d < 16 -> (16 * n + d) / 16 = n /\ (16 * n + d) mod 16 = d.
Proof.
  intros n d Hd.
  assert (E : 16 * n + d = d + n * 16) by lia. rewrite E.
  rewrite N.div_add by lia. rewrite N.mod_add by lia.
  rewrite (N.div_small d 16) by exact Hd. rewrite (N.mod_small d 16) by exact Hd.
  split; lia.
Qed.

Lemma dig4_step : forall n d, dig4 n -> d < 10 -> dig4 (16 * n + d).
Proof.
  intros n d (H0 & H1 & H2 & H3) Hd.
  destruct (shift_digit n d ltac:(lia)) as [Eq Em].
  unfold dig4. rewrite Em, Eq.
  change 256 with (16 * 16). change 4096 with (16 * (16 * 16)).
  rewrite <- !N.div_div by lia. rewrite Eq.
  rewrite !N.div_div by lia. change (16 * 16) with 256.
  repeat split; assumption.
Qed.

Lemma dig4_0 : dig4 0.
Proof. unfold dig4. repeat split; reflexivity. Qed.

Lemma dig4_not_hi : forall v, dig4 v -> is_hi v = false.
Proof.
  intros v (_ & _ & _ & H). unfold is_hi.
  destruct (N.leb_spec 55296 v) as [H1|H1]; [|reflexivity].
  destruct (N.leb_spec v 56319) as [H2|H2]; [|reflexivity]. exfalso.
  assert (E : v / 4096 = 13).
  { symmetry. apply (N.div_unique v 4096 13 (v - 53248)); lia. }
  rewrite E in H. change (13 mod 16) with 13 in H. lia.
Qed.

Lemma hexval_dec : forall d, is_dec d -> exists k, hexval d = Some k /\ k < 10.
Proof.
  intros d H. unfold is_dec in H. unfold hexval. unfold cp in *.
  replace ((48 <=? d) && (d <=? 57)) with true.
  - exists (d - 48). split; [reflexivity|lia].
  - symmetry. apply andb_true_intro. split; apply N.leb_le; lia.
Qed.

Lemma scan_hex_dec : forall ds x s acc, Forall is_dec ds -> hexval x = None -> dig4 acc ->
  exists v, scan_hex (ds ++ x :: s) acc = (v, x :: s) /\ dig4 v.
Proof.
  induction ds as [|d ds IH]; intros x s acc Hds Hx Hacc.
  - exists acc. cbn [app scan_hex]. rewrite Hx. auto.
  - inversion Hds as [|? ? Hd Hds']; subst.
    destruct (hexval_dec d Hd) as (k & Ek & Hk).
    cbn [app scan_hex]. rewrite Ek. apply IH; [exact Hds'|exact Hx|].
    apply dig4_step; assumption.
Qed.

(* `\`, then u{n} or u{m,n} with decimal numbers, is no high surrogate escape *)
Lemma nb_u_dec : forall n x s, x = 125 \/ x = 44 -> nb (117 :: 123 :: dec_of_N n ++ x :: s).
Proof.
  intros n x s Hx v r E. apply u_escape_inv in E. destruct E as (t & Et & _ & Hsc).
  assert (Et' : t = dec_of_N n ++ x :: s) by congruence. subst t. clear Et.
  assert (Hxv : hexval x = None) by (destruct Hx as [-> | ->]; reflexivity).
  destruct (scan_hex_dec (dec_of_N n) x s 0 (dec_of_N_digits n) Hxv dig4_0) as (v' & E' & Hd).
  pose proof (eq_trans (eq_sym Hsc) E') as X. inversion X; subst. apply dig4_not_hi. exact Hd.
Qed.

Check repair_ascii.
Check repair_no_pairs.
Check repair_escape_cp.
Check repair_escape_cp_astral.
Print Assumptions repair_ascii.
Print Assumptions repair_no_pairs.
Print Assumptions repair_escape_cp.
