(* Sufficient conditions for no_merge (Dfa.v): the widening branch NWiden of step_insert is
   never taken
     - when at most one cluster is inserted (no_merge_nil, no_merge_single, and at the
       pipeline level no_merge_le1 / construction_lang_single);
     - when no two graphemes of the input have the same characters and maxima that differ
       by exactly one (adjacent_free; no_merge_adjacent_free / construction_lang_adjacent_free).
   No axioms; the examples at the end show that the criteria are not vacuous. *)
From Grex Require Import Base.Str Model.Config Model.Cluster Model.Dfa Model.Expr.
From Grex Require Import Proofs.Lang Proofs.Spec Proofs.NormaliseDet Proofs.ClustersSpec
  Proofs.TrieLang.
From Grex Require Import Model.Pipeline.
From Grex Require Import Proofs.Construction.

(* ====================================================================== *)
(* 1. a single cluster never widens                                        *)
(* ====================================================================== *)

Lemma filter_none : forall {A} (f : A -> bool) l,
  (forall x, In x l -> f x = false) -> filter f l = [].
Proof.
  intros A f. induction l as [|x l IH]; intros H; simpl; [reflexivity|].
  rewrite (H x (or_introl eq_refl)). apply IH. intros y Hy. apply H. right. exact Hy.
Qed.

Lemma out_edges_none : forall es a,
  (forall e, In e es -> e_src e <> a) -> out_edges es a = [].
Proof.
  intros es a H. unfold out_edges. apply filter_none. intros e He.
  apply in_rev in He. apply Nat.eqb_neq. apply H. exact He.
Qed.

Lemma neighbors_none : forall es a,
  (forall e, In e es -> e_src e <> a) -> neighbors es a = [].
Proof. intros es a H. unfold neighbors. rewrite (out_edges_none es a H). reflexivity. Qed.

(* while one path is inserted into the fresh trie, the current state is the newest node and
   every edge starts at an older node *)
Definition st_tip (st : tstate) (cur : nat) : Prop :=
  t_merged st = false /\ S cur = t_n st /\ forall e, In e (t_edges st) -> e_src e < cur.

Lemma step_tip : forall st cur g,
  st_tip st cur ->
  exists st', step_insert st cur g = Some (st', S cur) /\ st_tip st' (S cur).
Proof.
  intros st cur g (Hm & Hn & He). unfold step_insert.
  rewrite neighbors_none by (intros e Hin; apply He in Hin; lia). simpl.
  rewrite <- Hn. eexists. split; [reflexivity|].
  split; [exact Hm|]. split; [reflexivity|]. simpl.
  intros e Hin. apply in_app_or in Hin. destruct Hin as [Hin|[<-|[]]].
  - apply He in Hin. lia.
  - unfold e_src; simpl. lia.
Qed.

Lemma path_tip : forall gs st cur,
  st_tip st cur ->
  exists st', insert_path st cur gs = Some (st', length gs + cur)
              /\ st_tip st' (length gs + cur).
Proof.
  induction gs as [|g gs IH]; intros st cur H; simpl.
  - eauto.
  - destruct (step_tip st cur g H) as (st1 & S1 & H1). rewrite S1.
    destruct (IH st1 (S cur) H1) as (st' & P & H').
    rewrite Nat.add_succ_r in P, H'. eauto.
Qed.

Lemma fresh_tip : st_tip (mkT 1 [] false) 0.
Proof. split; [reflexivity|]. split; [reflexivity|]. intros e []. Qed.

Theorem no_merge_nil : no_merge [] = true.
Proof. reflexivity. Qed.

Theorem no_merge_single : forall cl, no_merge [cl] = true.
Proof.
  intros cl. unfold no_merge, trie_acc_of. simpl.
  destruct (path_tip cl _ _ fresh_tip) as (st' & P & (Hm & _)).
  rewrite P. simpl. rewrite Hm. reflexivity.
Qed.

Corollary no_merge_le1 : forall cls, length cls <= 1 -> no_merge cls = true.
Proof.
  intros [|cl [|cl' cls]] H; simpl in H.
  - apply no_merge_nil.
  - apply no_merge_single.
  - lia.
Qed.

(* ====================================================================== *)
(* 2. pipeline level: at most one normalised test case                     *)
(* ====================================================================== *)

(* (ClustersSpec.grapheme_clusters_length : length (grapheme_clusters c db ws) = length ws) *)

Theorem no_merge_pipeline_le1 : forall c db ws,
  length (normalise c db ws) <= 1 ->
  no_merge (grapheme_clusters c db (normalise c db ws)) = true.
Proof.
  intros c db ws H. apply no_merge_le1. rewrite grapheme_clusters_length. exact H.
Qed.

Lemma sort_cases_single : forall w, sort_cases [w] = [w].
Proof. reflexivity. Qed.

Theorem normalise_single : forall c db w, length (normalise c db [w]) = 1.
Proof. intros c db w. unfold normalise. destruct (f_ci c); reflexivity. Qed.

(* all test cases equal: dedup leaves one *)
Lemma insert_by_repeat : forall {A} (le : A -> A -> bool) x n,
  insert_by le x (repeat x n) = repeat x (S n).
Proof.
  intros A le x. induction n as [|n IH]; [reflexivity|].
  change (repeat x (S n)) with (x :: repeat x n) at 1. simpl insert_by.
  destruct (le x x); [reflexivity|]. rewrite IH. reflexivity.
Qed.

Lemma sort_by_repeat : forall {A} (le : A -> A -> bool) x n,
  sort_by le (repeat x n) = repeat x n.
Proof.
  intros A le x. induction n as [|n IH]; [reflexivity|].
  change (sort_by le (repeat x (S n))) with (insert_by le x (sort_by le (repeat x n))).
  rewrite IH. apply insert_by_repeat.
Qed.

Lemma dedup_repeat : forall x n, dedup (repeat x (S n)) = [x].
Proof.
  intros x. induction n as [|n IH]; [reflexivity|].
  change (repeat x (S (S n))) with (x :: x :: repeat x n). rewrite dedup_cons2.
  rewrite NormaliseDet.str_eqb_refl. exact IH.
Qed.

Lemma sort_cases_repeat : forall x n, sort_cases (repeat x (S n)) = [x].
Proof.
  intros x n. unfold sort_cases. rewrite sort_by_repeat, dedup_repeat. reflexivity.
Qed.

Lemma map_repeat' : forall {A B} (f : A -> B) x n, map f (repeat x n) = repeat (f x) n.
Proof. intros A B f x. induction n; simpl; congruence. Qed.

Theorem normalise_repeat : forall c db w n, length (normalise c db (repeat w (S n))) = 1.
Proof.
  intros c db w n. unfold normalise. destruct (f_ci c).
  - rewrite map_repeat', sort_cases_repeat. reflexivity.
  - rewrite sort_cases_repeat. reflexivity.
Qed.

(* ====================================================================== *)
(* 3. the adjacency criterion                                              *)
(* ====================================================================== *)

(* the test of find_next_scan that leads to NWiden: label g of an existing edge, inserted g' *)
Definition adjacent_pair (g g' : grapheme) : bool :=
  strs_eqb (g_chars g) (g_chars g') && N.eqb (g_max g) (g_max g' - 1).

Definition adjacent_free_list (pool : list grapheme) : bool :=
  forallb (fun g => forallb (fun g' => negb (adjacent_pair g g')) pool) pool.

Definition adjacent_free (cls : list cluster) : bool :=
  forallb (fun g => forallb (fun g' => negb (adjacent_pair g g')) (concat cls)) (concat cls).

Lemma adjacent_free_list_spec : forall pool,
  adjacent_free_list pool = true <->
  (forall g g', In g pool -> In g' pool -> adjacent_pair g g' = false).
Proof.
  intros pool. unfold adjacent_free_list. rewrite forallb_forall. split.
  - intros H g g' Hg Hg'. specialize (H g Hg). rewrite forallb_forall in H.
    apply negb_true_iff. apply H. exact Hg'.
  - intros H g Hg. apply forallb_forall. intros g' Hg'. apply negb_true_iff. auto.
Qed.

Lemma adjacent_free_spec : forall cls,
  adjacent_free cls = true <->
  (forall g g', In g (concat cls) -> In g' (concat cls) -> adjacent_pair g g' = false).
Proof. intros cls. apply (adjacent_free_list_spec (concat cls)). Qed.

Lemma strs_eqb_refl : forall a, strs_eqb a a = true.
Proof.
  unfold strs_eqb. induction a as [|x a IH]; simpl; [reflexivity|].
  rewrite NormaliseDet.str_eqb_refl. exact IH.
Qed.

Lemma adjacent_pair_true : forall cg g,
  g_chars cg = g_chars g -> g_max cg = (g_max g - 1)%N -> adjacent_pair cg g = true.
Proof.
  intros cg g Hc Hm. unfold adjacent_pair. rewrite Hc, Hm, strs_eqb_refl, N.eqb_refl.
  reflexivity.
Qed.

(* the scan never answers NWiden when no outgoing edge of cur is adjacent to g *)
Lemma scan_no_widen : forall es cur g ns,
  (forall e, In e es -> e_src e = cur -> adjacent_pair (e_lbl e) g = false) ->
  forall s w, find_next_scan es cur g ns <> Some (NWiden s w).
Proof.
  intros es cur g ns H s w S. apply scan_spec in S.
  destruct S as (cg & F & Hc & Hm & _).
  apply find_edge_some3 in F. destruct F as (Hin & _ & _).
  specialize (H _ Hin eq_refl). unfold e_lbl in H; simpl in H.
  rewrite (adjacent_pair_true cg g Hc Hm) in H. discriminate.
Qed.

(* invariant: not merged, and every edge label satisfies P *)
Section Pool.
  Variable pool : list grapheme.
  Hypothesis pool_free : forall g g', In g pool -> In g' pool -> adjacent_pair g g' = false.

  Definition st_pool (st : tstate) : Prop :=
    t_merged st = false /\ forall e, In e (t_edges st) -> In (e_lbl e) pool.

  Lemma step_pool : forall st cur g st' nx,
    st_pool st -> In g pool -> step_insert st cur g = Some (st', nx) -> st_pool st'.
  Proof.
    intros st cur g st' nx [Hm Hl] Hg H. unfold step_insert in H.
    destruct (find_next_scan (t_edges st) cur g (neighbors (t_edges st) cur)) as [r|] eqn:S;
      [|discriminate].
    destruct r as [s|s w|].
    - inversion H; subst. split; assumption.
    - exfalso. revert S. apply scan_no_widen. intros e Hin _. apply pool_free; auto.
    - inversion H; subst. split; simpl; [exact Hm|].
      intros e Hin. apply in_app_or in Hin. destruct Hin as [Hin|[<-|[]]]; auto.
  Qed.

  Lemma path_pool : forall gs st cur st' last,
    st_pool st -> incl gs pool -> insert_path st cur gs = Some (st', last) -> st_pool st'.
  Proof.
    induction gs as [|g gs IH]; intros st cur st' last Hs Hg H; simpl in H.
    - inversion H; subst. exact Hs.
    - destruct (step_insert st cur g) as [[st1 nx]|] eqn:S; [|discriminate].
      eapply IH; [|intros x Hx; apply Hg; right; exact Hx|exact H].
      eapply step_pool; [exact Hs|apply Hg; left; reflexivity|exact S].
  Qed.

  Lemma acc_pool : forall cls a,
    (forall cl, In cl cls -> incl cl pool) -> trie_acc_of cls = Some a -> st_pool (ta_st a).
  Proof.
    induction cls as [|cl0 cls IH] using rev_ind; intros a Hi H.
    - unfold trie_acc_of in H; simpl in H. inversion H; subst. split; simpl; auto.
      intros e [].
    - apply trie_acc_snoc_inv in H. destruct H as (a0 & st' & last & H0 & P & ->).
      simpl. eapply path_pool; [eapply IH; [|exact H0]| |exact P].
      + intros cl Hcl. apply Hi. apply in_or_app. left. exact Hcl.
      + apply Hi. apply in_or_app. right. left. reflexivity.
  Qed.

  Lemma no_merge_pool : forall cls,
    (forall cl, In cl cls -> incl cl pool) -> no_merge cls = true.
  Proof.
    intros cls Hi. unfold no_merge. destruct (trie_acc_of cls) as [a|] eqn:Ha; [|reflexivity].
    destruct (acc_pool _ _ Hi Ha) as [Hm _]. rewrite Hm. reflexivity.
  Qed.
End Pool.

Theorem no_merge_adjacent_free : forall cls, adjacent_free cls = true -> no_merge cls = true.
Proof.
  intros cls H. pose proof (proj1 (adjacent_free_spec cls) H) as H'.
  apply (no_merge_pool (concat cls) H'). intros cl Hcl g Hg.
  apply in_concat. exists cl. auto.
Qed.

(* ====================================================================== *)
(* 4. composition with Construction.construction_lang                      *)
(* ====================================================================== *)

Corollary construction_lang_single : forall (lit_den cls_den : cp -> cp -> Prop) c db sc ws e,
  ws <> [] -> oracle_ok db (normalise c db ws) ->
  length (normalise c db ws) <= 1 ->
  Pipeline.final_expr c (grapheme_clusters c db (normalise c db ws)) sc = Some e ->
  (forall u, (u <> [] \/ K4 (normalise c db ws) = false) ->
     (L_expr lit_den cls_den e u <-> Spec lit_den cls_den c db ws u))
  /\ (L_expr lit_den cls_den e [] -> Spec lit_den cls_den c db ws []).
Proof.
  intros lit_den cls_den c db sc ws e Hws Hok Hl H.
  apply (construction_lang lit_den cls_den c db sc ws e Hws Hok
           (no_merge_pipeline_le1 c db ws Hl) H).
Qed.

Corollary construction_lang_adjacent_free :
  forall (lit_den cls_den : cp -> cp -> Prop) c db sc ws e,
  ws <> [] -> oracle_ok db (normalise c db ws) ->
  adjacent_free (grapheme_clusters c db (normalise c db ws)) = true ->
  Pipeline.final_expr c (grapheme_clusters c db (normalise c db ws)) sc = Some e ->
  (forall u, (u <> [] \/ K4 (normalise c db ws) = false) ->
     (L_expr lit_den cls_den e u <-> Spec lit_den cls_den c db ws u))
  /\ (L_expr lit_den cls_den e [] -> Spec lit_den cls_den c db ws []).
Proof.
  intros lit_den cls_den c db sc ws e Hws Hok Ha H.
  apply (construction_lang lit_den cls_den c db sc ws e Hws Hok
           (no_merge_adjacent_free _ Ha) H).
Qed.

(* ====================================================================== *)
(* 5. the criteria are not vacuous                                         *)
(* ====================================================================== *)
Module Examples.
  Definition ga (k : N) : grapheme := g_new [[97%N]] k k.      (* a{k} *)
  Definition gb (k : N) : grapheme := g_new [[98%N]] k k.      (* b{k} *)
  Definition rep_cfg : cfg :=
    mkCfg 1 1 false false false false false false true false false false false false false false false.
  Definition clusters_of (ws : list str) : list cluster :=
    grapheme_clusters rep_cfg [] (normalise rep_cfg [] ws).

  (* "ab", "abbb" with repetition conversion: counts 1 and 3 are not adjacent *)
  Example pipeline_ab_abbb :
    clusters_of [[97; 98]; [97; 98; 98; 98]]%N = [[ga 1; gb 1]; [ga 1; gb 3]].
  Proof. vm_compute. reflexivity. Qed.
  Example free_ab_abbb : adjacent_free [[ga 1; gb 1]; [ga 1; gb 3]] = true.
  Proof. vm_compute. reflexivity. Qed.
  Example nm_ab_abbb : no_merge [[ga 1; gb 1]; [ga 1; gb 3]] = true.
  Proof. apply no_merge_adjacent_free. vm_compute. reflexivity. Qed.

  (* "ba", "bb": b and b{2} are adjacent, and the trie does widen (K1) *)
  Example pipeline_ba_bb :
    clusters_of [[98; 97]; [98; 98]]%N = [[gb 1; ga 1]; [gb 2]].
  Proof. vm_compute. reflexivity. Qed.
  Example not_free_ba_bb : adjacent_free [[gb 1; ga 1]; [gb 2]] = false.
  Proof. vm_compute. reflexivity. Qed.
  Example merge_ba_bb : no_merge [[gb 1; ga 1]; [gb 2]] = false.
  Proof. vm_compute. reflexivity. Qed.

  (* a{2} then a{3} *)
  Example adjacent_a2_a3 : adjacent_pair (ga 2) (ga 3) = true.
  Proof. vm_compute. reflexivity. Qed.
  Example merge_a2_a3 : no_merge [[ga 2]; [ga 3]] = false.
  Proof. vm_compute. reflexivity. Qed.
  (* the criterion is sufficient, not necessary: in the other insertion order nothing widens *)
  Example no_merge_a3_a2 : no_merge [[ga 3]; [ga 2]] = true.
  Proof. vm_compute. reflexivity. Qed.
  Example not_free_a3_a2 : adjacent_free [[ga 3]; [ga 2]] = false.
  Proof. vm_compute. reflexivity. Qed.

  (* a single cluster may contain adjacent graphemes and still never widens *)
  Example single_not_free : adjacent_free [[ga 1; gb 1; ga 2]] = false.
  Proof. vm_compute. reflexivity. Qed.
  Example single_no_merge : no_merge [[ga 1; gb 1; ga 2]] = true.
  Proof. apply no_merge_single. Qed.
End Examples.

Check no_merge_nil.
Check no_merge_single.
Check no_merge_le1.
Check no_merge_pipeline_le1.
Check normalise_single.
Check normalise_repeat.
Check scan_no_widen.
Check no_merge_adjacent_free.
Check construction_lang_single.
Check construction_lang_adjacent_free.
Print Assumptions no_merge_nil.
Print Assumptions no_merge_single.
Print Assumptions no_merge_le1.
Print Assumptions no_merge_pipeline_le1.
Print Assumptions normalise_single.
Print Assumptions normalise_repeat.
Print Assumptions no_merge_adjacent_free.
Print Assumptions construction_lang_single.
Print Assumptions construction_lang_adjacent_free.
