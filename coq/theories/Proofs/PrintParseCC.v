(* Printing theorem, part 4: bracket classes.  format_character_class groups the members into
   runs of consecutive positions; the parser reads the printed class back as the expected items,
   and the items cover exactly the members (up to the surrogate gap). *)
From Grex Require Import Base.Str Model.Config Model.Cluster Model.Dfa Model.Expr Model.Print.
From Grex Require Import Engine.Syntax Engine.Parse.
From Grex Require Import Proofs.Lang.
From Grex Require Import Proofs.PrintParseNum Proofs.PrintParseStep Proofs.PrintParseDefs
  Proofs.PrintParseEsc Proofs.PrintParseLit.
From GrexGen Require Import SrcConsts.

(* ---------- cc_subsets computes the runs ---------- *)
Definition cc_it (x : cp) : str * N := (cc_escape x, codepoint_position x).

Lemma cc_subsets_runs : forall l x cur,
  cc_subsets (map cc_it (x :: l)) (map cc_escape (cur ++ [x])) false
  = map (map cc_escape) (runs_from (cur ++ [x]) (codepoint_position x) l).
Proof.
  induction l as [|y l IH]; intros x cur; [reflexivity|].
  cbn [map cc_subsets runs_from]. unfold cc_it at 1 2. cbn [map].
  destruct (N.eqb (codepoint_position y) (codepoint_position x + 1)).
  - change (cc_it y :: map cc_it l) with (map cc_it (y :: l)).
    replace (map cc_escape (cur ++ [x]) ++ [cc_escape y])
      with (map cc_escape ((cur ++ [x]) ++ [y])) by (rewrite (map_app _ (cur ++ [x])); reflexivity).
    apply IH.
  - cbn [map]. f_equal.
    change (cc_it y :: map cc_it l) with (map cc_it (y :: l)).
    apply (IH y []).
Qed.

Lemma cc_subsets_cc_runs : forall cs, 2 <= length cs ->
  cc_subsets (map cc_it cs) [] true = map (map cc_escape) (cc_runs cs).
Proof.
  intros cs Hlen. destruct cs as [|x [|y l]]; cbn [length] in Hlen; try lia.
  unfold cc_runs. pose proof (cc_subsets_runs (y :: l) x []) as H. cbn [app] in H.
  rewrite <- H. reflexivity.
Qed.

(* ---------- entries ---------- *)
Inductive centry := CS (x : cp) | CR (a b : cp).
Definition entry_str (e : centry) : str :=
  match e with CS x => cc_escape x | CR a b => cc_escape a ++ [45%N] ++ cc_escape b end.
Definition entry_item (e : centry) : cp * cp :=
  match e with CS x => (x, x) | CR a b => (a, b) end.
Definition entry_first (e : centry) : cp := match e with CS x => x | CR a _ => a end.
Definition run_entries (r : list cp) : list centry :=
  if Nat.leb (length r) 2 then map CS r else [CR (hd 0%N r) (last r 0%N)].
Definition cc_entries (cs : list cp) : list centry := flat_map run_entries (cc_runs cs).

Lemma run_items_entries : forall r, run_items r = map entry_item (run_entries r).
Proof.
  intros r. unfold run_items, run_entries. destruct (Nat.leb (length r) 2); [|reflexivity].
  rewrite map_map. reflexivity.
Qed.

Lemma cc_items_entries : forall cs, cc_items cs = map entry_item (cc_entries cs).
Proof.
  intros cs. unfold cc_items, cc_entries. induction (cc_runs cs) as [|r l IH]; [reflexivity|].
  cbn [flat_map]. rewrite map_app, IH, run_items_entries. reflexivity.
Qed.

Lemma hd_map : forall {A B} (f : A -> B) (l : list A) (d : A) (d' : B),
  l <> [] -> hd d' (map f l) = f (hd d l).
Proof. intros A B f [|x l] d d' H; [congruence|reflexivity]. Qed.

Lemma last_map : forall {A B} (f : A -> B) (l : list A) (d : A) (d' : B),
  l <> [] -> last (map f l) d' = f (last l d).
Proof.
  intros A B f l d d' H. induction l as [|x l IH]; [congruence|].
  destruct l as [|y l]; [reflexivity|]. cbn [map last] in *. apply IH. discriminate.
Qed.

Section CCStr.
  Variable c : cfg.
  Hypothesis Hp : printable c.

  Lemma cc_part_run : forall r, r <> [] ->
    concat (let sub := map cc_escape r in
            if Nat.leb (length sub) 2 then sub
            else [hd [] sub ++ txt_Hyphen ++ last sub []])
    = flat_map entry_str (run_entries r).
  Proof.
    intros r Hr. cbv zeta. unfold run_entries. rewrite map_length.
    destruct (Nat.leb (length r) 2).
    - rewrite flat_map_map'. cbn [entry_str]. rewrite flat_map_concat_map. reflexivity.
    - cbn [concat flat_map entry_str]. rewrite !app_nil_r.
      rewrite (hd_map cc_escape r 0%N) by exact Hr.
      rewrite (last_map cc_escape r 0%N) by exact Hr. reflexivity.
  Qed.

  Lemma runs_from_nonempty : forall l cur p, cur <> [] -> Forall (fun r => r <> []) (runs_from cur p l).
  Proof.
    induction l as [|y l IH]; intros cur p Hc; cbn [runs_from].
    - constructor; [exact Hc|constructor].
    - destruct (N.eqb (codepoint_position y) (p + 1)).
      + apply IH. destruct cur; discriminate.
      + constructor; [exact Hc|]. apply IH. discriminate.
  Qed.

  Lemma cc_runs_nonempty : forall cs, cs <> [] -> Forall (fun r => r <> []) (cc_runs cs).
  Proof.
    intros [|x l] H; [congruence|]. unfold cc_runs. apply runs_from_nonempty. discriminate.
  Qed.

  Lemma cc_str_entries : forall cs, 2 <= length cs ->
    cc_str c cs = [91%N] ++ flat_map entry_str (cc_entries cs) ++ [93%N].
  Proof.
    intros cs Hlen. unfold cc_str. rewrite !col_off by exact Hp.
    change (map (fun x => (cc_escape x, codepoint_position x)) cs) with (map cc_it cs).
    rewrite cc_subsets_cc_runs by exact Hlen.
    unfold txt_LeftBracket, txt_RightBracket. f_equal. f_equal.
    unfold cc_entries.
    assert (Hne : Forall (fun r => r <> []) (cc_runs cs)).
    { apply cc_runs_nonempty. destruct cs; [cbn [length] in Hlen; lia|discriminate]. }
    induction Hne as [|r l Hr _ IH]; [reflexivity|].
    cbn [map flat_map]. rewrite concat_app, IH, flat_map_app. f_equal.
    apply cc_part_run. exact Hr.
  Qed.
End CCStr.

(* ---------- the parser on entries ---------- *)
Section CCParse.
  Variable is_ws : cp -> bool.
  Notation pcls := (pcls is_ws).

  (* the continuation after a class item lo, as in parse_class_items *)
  Definition cls_cont (f : nat) (lo : cp) (r : str) (acc : list (cp * cp)) :=
    match r with
    | d :: r2 =>
        if N.eqb d 45 then
          match r2 with
          | e :: r3 =>
              let hi_item : option (cp * str) :=
                if N.eqb e 92 then
                  match Parse.parse_escape false r3 with
                  | Some (EscLit l, r4) => Some (l, r4)
                  | _ => None
                  end
                else if mem_cp e [91; 93; 94; 45]%N then None
                else if mem_cp e [38; 126]%N then
                  (match r3 with d :: _ => if N.eqb d e then None else Some (e, r3) | [] => Some (e, r3) end)
                else Some (e, r3) in
              match hi_item with
              | Some (hi, r4) =>
                  if N.leb lo hi then parse_class_items is_ws f false r4 ((lo, hi) :: acc) else None
              | None => None
              end
          | [] => None
          end
        else parse_class_items is_ws f false r ((lo, lo) :: acc)
    | [] => None
    end.

  Lemma pci_bs : forall f s acc,
    parse_class_items is_ws (S f) false (92%N :: s) acc
    = match Parse.parse_escape false s with
      | Some (EscLit l, r) => cls_cont f l r acc
      | _ => None
      end.
  Proof.
    intros f s acc. cbn [parse_class_items bump].
    change (N.eqb 92 93) with false. change (N.eqb 92 92) with true. cbn iota.
    destruct (Parse.parse_escape false s) as [[[l|l] r]|]; reflexivity.
  Qed.

  Definition cls_special : list cp := [93; 92; 91; 94; 45]%N.

  Lemma pci_raw : forall f x s acc,
    mem_cp x cls_special = false ->
    (mem_cp x [38; 126]%N = true -> match s with d :: _ => d <> x | [] => True end) ->
    parse_class_items is_ws (S f) false (x :: s) acc = cls_cont f x s acc.
  Proof.
    intros f x s acc Hx Hamp.
    assert (E : forall z, In z cls_special -> N.eqb x z = false)
      by (intros z Hz; eapply mem_cp_false_neq; eauto).
    cbn [parse_class_items bump].
    rewrite (E 93%N), (E 92%N) by (unfold cls_special; cbn [In]; tauto).
    assert (E3 : mem_cp x [91; 94; 45]%N = false).
    { cbn [mem_cp]. rewrite (E 91%N), (E 94%N), (E 45%N) by (unfold cls_special; cbn [In]; tauto).
      reflexivity. }
    rewrite E3.
    destruct (mem_cp x [38; 126]%N) eqn:Eamp; [|reflexivity].
    specialize (Hamp eq_refl). destruct s as [|d s]; [reflexivity|].
    replace (N.eqb d x) with false by (symmetry; apply N.eqb_neq; exact Hamp).
    reflexivity.
  Qed.

  Lemma cls_cont_single : forall f lo d r acc, d <> 45%N ->
    cls_cont f lo (d :: r) acc = parse_class_items is_ws f false (d :: r) ((lo, lo) :: acc).
  Proof.
    intros f lo d r acc Hd. unfold cls_cont. apply N.eqb_neq in Hd. rewrite Hd. reflexivity.
  Qed.

  Lemma cls_cont_range_bs : forall f lo hi s r acc,
    Parse.parse_escape false s = Some (EscLit hi, r) -> (lo <= hi)%N ->
    cls_cont f lo (45%N :: 92%N :: s) acc = parse_class_items is_ws f false r ((lo, hi) :: acc).
  Proof.
    intros f lo hi s r acc E Hle. unfold cls_cont.
    change (N.eqb 45 45) with true. change (N.eqb 92 92) with true. cbn iota. rewrite E.
    apply N.leb_le in Hle. rewrite Hle. reflexivity.
  Qed.

  (* the upper end of a range may be a raw & or ~ unless the same character follows *)
  Lemma cls_cont_range_raw : forall f lo hi r acc,
    mem_cp hi [92; 91; 93; 94; 45]%N = false ->
    (mem_cp hi [38; 126]%N = true -> match r with d :: _ => d <> hi | [] => True end) ->
    (lo <= hi)%N ->
    cls_cont f lo (45%N :: hi :: r) acc = parse_class_items is_ws f false r ((lo, hi) :: acc).
  Proof.
    intros f lo hi r acc Hm Hamp Hle. unfold cls_cont.
    change (N.eqb 45 45) with true. cbn iota.
    cbn [mem_cp] in Hm. apply orb_false_elim in Hm. destruct Hm as [H92 Hm].
    rewrite H92. change (mem_cp hi [91; 93; 94; 45]%N) with
      (N.eqb hi 91 || (N.eqb hi 93 || (N.eqb hi 94 || (N.eqb hi 45 || false)))).
    rewrite Hm. apply N.leb_le in Hle.
    destruct (mem_cp hi [38; 126]%N) eqn:E; [|rewrite Hle; reflexivity].
    specialize (Hamp eq_refl). destruct r as [|d r]; [rewrite Hle; reflexivity|].
    replace (N.eqb d hi) with false by (symmetry; apply N.eqb_neq; exact Hamp).
    rewrite Hle. reflexivity.
  Qed.

  (* the shape of a printed class member *)
  Inductive cform (x : cp) : str -> Prop :=
  | cf_esc : forall z, (forall r, Parse.parse_escape false (z :: r) = Some (EscLit x, r)) ->
      cform x [92%N; z]
  | cf_raw : mem_cp x cc_chars_to_escape = false -> x <> 11%N -> x <> 12%N -> cform x [x].

  Definition cc_special_ok (y : cp) : bool :=
    is_meta y && negb (N.eqb y 11) && negb (N.eqb y 12).
  Lemma cc_special_ok_all : forallb cc_special_ok cc_chars_to_escape = true.
  Proof. vm_compute. reflexivity. Qed.

  Lemma cc_form : forall x, cform x (vf (cc_escape x)).
  Proof.
    intros x. unfold cc_escape. destruct (mem_cp x cc_chars_to_escape) eqn:Hm.
    - pose proof cc_special_ok_all as HA. rewrite forallb_forall in HA.
      specialize (HA x (mem_cp_true_in _ _ Hm)). unfold cc_special_ok in HA.
      apply andb_true_iff in HA. destruct HA as [HA H12].
      apply andb_true_iff in HA. destruct HA as [Hmeta H11].
      apply negb_true_iff in H11, H12. apply N.eqb_neq in H11, H12.
      unfold c_backslash. unfold cp in *. rewrite (vf_esc2 x H11 H12). apply cf_esc. intros r.
      unfold Parse.parse_escape. rewrite Hmeta. reflexivity.
    - unfold c_nl, c_cr, c_tab, c_backslash.
      destruct (N.eqb_spec x 10) as [->|H10]; [apply cf_esc; intros r; reflexivity|].
      destruct (N.eqb_spec x 13) as [->|H13]; [apply cf_esc; intros r; reflexivity|].
      destruct (N.eqb_spec x 9) as [->|H9]; [apply cf_esc; intros r; reflexivity|].
      rewrite vf_single. unfold vf1.
      destruct (N.eqb_spec x 11) as [->|H11]; [apply cf_esc; intros r; reflexivity|].
      destruct (N.eqb_spec x 12) as [->|H12]; [apply cf_esc; intros r; reflexivity|].
      apply cf_raw; assumption.
  Qed.

  Lemma cls_special_escaped : forallb (fun z => mem_cp z cc_chars_to_escape) cls_special = true.
  Proof. vm_compute. reflexivity. Qed.

  Lemma cc_raw_not_special : forall x, mem_cp x cc_chars_to_escape = false ->
    mem_cp x cls_special = false.
  Proof.
    intros x H. destruct (mem_cp x cls_special) eqn:E; [|reflexivity]. exfalso.
    apply mem_cp_true_in in E.
    pose proof cls_special_escaped as HA. rewrite forallb_forall in HA. specialize (HA x E).
    congruence.
  Qed.

  (* first character of a printed member *)
  Lemma cform_first : forall x s, cform x s -> exists d s', s = d :: s' /\ d <> 45%N /\ (d = 92%N \/ d = x).
  Proof.
    intros x s [z _|Hm _ _].
    - eexists _, _. split; [reflexivity|]. split; [discriminate|left; reflexivity].
    - eexists _, _. split; [reflexivity|]. split; [|right; reflexivity].
      intros ->. vm_compute in Hm. discriminate.
  Qed.

  (* one single member *)
  Lemma pcls_single : forall x d s acc res,
    d <> 45%N -> (mem_cp x [38; 126]%N = true -> d <> x) ->
    pcls (d :: s) ((x, x) :: acc) res ->
    pcls (vf (cc_escape x) ++ d :: s) acc res.
  Proof.
    intros x d s acc res Hd Hamp H f Hf.
    destruct (cc_form x) as [z Hz|Hm H11 H12].
    - cbn [app] in *. destruct f as [|f]; [lia|].
      rewrite pci_bs, Hz, cls_cont_single by exact Hd. apply H. slia.
    - cbn [app] in *. destruct f as [|f]; [lia|].
      rewrite pci_raw; [|apply cc_raw_not_special; exact Hm|exact Hamp].
      rewrite cls_cont_single by exact Hd. apply H. slia.
  Qed.

  (* one range *)
  Lemma pcls_range : forall a b s acc res,
    (a <= b)%N ->
    (mem_cp b [38; 126]%N = true -> match s with d :: _ => d <> b | [] => True end) ->
    pcls s ((a, b) :: acc) res ->
    pcls (vf (cc_escape a) ++ 45%N :: vf (cc_escape b) ++ s) acc res.
  Proof.
    intros a b s acc res Hab Hnext H f Hf.
    assert (Hhi : forall f' lo acc', (lo <= b)%N -> length s < f' ->
              cls_cont f' lo (45%N :: vf (cc_escape b) ++ s) acc'
              = parse_class_items is_ws f' false s ((lo, b) :: acc')).
    { intros f' lo acc' Hlo Hf'. destruct (cc_form b) as [z Hz|Hm H11 H12].
      - cbn [app]. apply cls_cont_range_bs; [apply Hz|exact Hlo].
      - cbn [app]. apply cls_cont_range_raw; [|exact Hnext|exact Hlo].
        pose proof (cc_raw_not_special b Hm) as Hsp.
        unfold cls_special in Hsp. cbn [mem_cp] in Hsp |- *.
        repeat (apply orb_false_elim in Hsp; destruct Hsp as [? Hsp]).
        repeat match goal with X : N.eqb b _ = false |- _ => rewrite X; clear X end.
        reflexivity. }
    destruct (cc_form a) as [z Hz|Hm H11 H12].
    - cbn [app] in *. destruct f as [|f]; [lia|].
      rewrite pci_bs, Hz. rewrite Hhi; [apply H| exact Hab|]; cbn [length] in Hf; rewrite app_length in Hf; slia.
    - cbn [app] in *. destruct f as [|f]; [lia|].
      rewrite pci_raw; [|apply cc_raw_not_special; exact Hm|].
      + rewrite Hhi; [apply H| exact Hab|]; cbn [length] in Hf; rewrite app_length in Hf; slia.
      + intros Hamp E. subst a. cbn [mem_cp] in Hamp. discriminate Hamp.
  Qed.

  Lemma pcls_close : forall r acc, acc <> [] -> pcls (93%N :: r) acc (rev acc, r).
  Proof.
    intros r acc Hacc f Hf. destruct f as [|f]; [lia|].
    cbn [parse_class_items bump]. change (N.eqb 93 93) with true. cbn iota.
    destruct acc; [congruence|reflexivity].
  Qed.

  (* conditions on a list of entries *)
  Fixpoint entries_ok (es : list centry) : Prop :=
    match es with
    | [] => True
    | e :: es' =>
        match e with
        | CS x => match es' with e' :: _ => entry_first e' <> x | [] => True end
        | CR a b => (a <= b)%N /\ match es' with e' :: _ => entry_first e' <> b | [] => True end
        end /\ entries_ok es'
    end.

  Lemma entry_str_first : forall e s, exists d s',
    vf (entry_str e) ++ s = d :: s' /\ d <> 45%N /\ (d = 92%N \/ d = entry_first e).
  Proof.
    intros e s. destruct e as [x|a b]; cbn [entry_str entry_first].
    - destruct (cform_first x _ (cc_form x)) as (d & s' & E & H1 & H2).
      rewrite E. exists d, (s' ++ s). auto.
    - rewrite vf_app. destruct (cform_first a _ (cc_form a)) as (d & s' & E & H1 & H2).
      rewrite E. eexists d, _. cbn [app]. split; [reflexivity|]. auto.
  Qed.

  Lemma pcls_entries : forall es, entries_ok es -> forall r acc res,
    pcls (93%N :: r) (rev (map entry_item es) ++ acc) res ->
    pcls (vf (flat_map entry_str es) ++ 93%N :: r) acc res.
  Proof.
    induction es as [|e es IH]; intros Hok r acc res H; [exact H|].
    cbn [entries_ok] in Hok. destruct Hok as [He Hok].
    cbn [flat_map]. rewrite vf_app, <- app_assoc.
    assert (Hrest : pcls (vf (flat_map entry_str es) ++ 93%N :: r) (entry_item e :: acc) res).
    { apply IH; [exact Hok|]. cbn [map rev] in H. rewrite <- app_assoc in H. exact H. }
    (* what follows the member: never the same character again *)
    assert (Hnext : forall x, match es with e' :: _ => entry_first e' <> x | [] => True end ->
                     exists d s', vf (flat_map entry_str es) ++ 93%N :: r = d :: s'
                       /\ d <> 45%N /\ (mem_cp x [38; 126]%N = true -> d <> x)).
    { intros x Hx0. destruct es as [|e' es'].
      - exists 93%N, r. split; [reflexivity|]. split; [discriminate|].
        intros Hx. cbn [mem_cp] in Hx. intros <-. discriminate Hx.
      - cbn [flat_map]. rewrite vf_app, <- app_assoc.
        destruct (entry_str_first e' (vf (flat_map entry_str es') ++ 93%N :: r))
          as (d & s' & E & H1 & H2).
        exists d, s'. split; [exact E|]. split; [exact H1|].
        intros Hx. destruct H2 as [->| ->]; [|exact Hx0].
        intros <-. cbn [mem_cp] in Hx. discriminate Hx. }
    destruct e as [x|a b]; cbn [entry_str entry_item] in *.
    - destruct (Hnext x He) as (d & s' & E & Hd & Hamp). rewrite E in *.
      apply pcls_single; assumption.
    - destruct He as (Hab & Hb).
      destruct (Hnext b Hb) as (d & s' & E & Hd & Hamp).
      rewrite vf_app. rewrite vf_app. change (vf [45%N]) with [45%N]. rewrite <- !app_assoc. cbn [app].
      apply pcls_range; [exact Hab| |exact Hrest].
      rewrite E. exact Hamp.
  Qed.
End CCParse.

(* ---------- structure of the runs ---------- *)
Local Open Scope N_scope.

Notation pos := codepoint_position.

Fixpoint incr_from (lo : N) (l : list cp) : Prop :=
  match l with [] => True | x :: l' => lo <= x /\ incr_from (x + 1) l' end.

Lemma incr_cons : forall l x, incr (x :: l) <-> incr_from (x + 1) l.
Proof.
  induction l as [|y l IH]; intros x; [cbn; tauto|].
  cbn [incr incr_from]. rewrite <- IH. unfold cp in *. split; intros [H1 H2]; (split; [lia|exact H2]).
Qed.

Lemma incr_from_skip : forall mid lo x l,
  incr_from lo (mid ++ x :: l) -> lo <= x /\ incr_from (x + 1) l.
Proof.
  induction mid as [|m mid IH]; intros lo x l H; [exact H|].
  cbn [app incr_from] in H. destruct H as [H1 H2]. apply IH in H2. destruct H2 as [H2 H3].
  split; [unfold cp in *; lia|exact H3].
Qed.

Fixpoint chain_from (p : N) (l : list cp) : Prop :=
  match l with [] => True | y :: l' => pos y = p + 1 /\ chain_from (pos y) l' end.
Definition is_chain (r : list cp) : Prop :=
  match r with [] => True | x :: l => chain_from (pos x) l end.

Lemma runs_from_split : forall l cur p, exists pre post,
  l = pre ++ post /\ chain_from p pre /\
  runs_from cur p l
  = (cur ++ pre) :: match post with [] => [] | y :: post' => runs_from [y] (pos y) post' end.
Proof.
  induction l as [|y l IH]; intros cur p.
  - exists [], []. cbn [runs_from app chain_from]. rewrite app_nil_r. auto.
  - cbn [runs_from]. destruct (N.eqb_spec (pos y) (p + 1)) as [E|E].
    + destruct (IH (cur ++ [y]) (pos y)) as (pre & post & El & Hc & Hr).
      exists (y :: pre), post. cbn [app chain_from]. rewrite El at 1.
      split; [reflexivity|]. split; [auto|].
      rewrite Hr, <- app_assoc. reflexivity.
    + exists [], (y :: l). cbn [app chain_from]. rewrite app_nil_r. auto.
Qed.

Lemma runs_single_spec : forall n l x, (length l <= n)%nat ->
  concat (runs_from [x] (pos x) l) = x :: l /\
  Forall is_chain (runs_from [x] (pos x) l) /\
  Forall (fun r => r <> []) (runs_from [x] (pos x) l).
Proof.
  induction n as [|n IH]; intros l x Hlen.
  - destruct l; [|cbn [length] in Hlen; lia]. cbn [runs_from concat app].
    repeat split; repeat constructor. discriminate.
  - destruct (runs_from_split l [x] (pos x)) as (pre & post & El & Hc & Hr).
    rewrite Hr. destruct post as [|y post'].
    + rewrite app_nil_r in El. subst pre. cbn [concat app]. rewrite app_nil_r.
      repeat split; repeat constructor; [exact Hc|discriminate].
    + assert (Hl' : (length post' <= n)%nat).
      { subst l. rewrite app_length in Hlen. cbn [length] in Hlen. lia. }
      destruct (IH post' y Hl') as (H1 & H2 & H3).
      cbn [concat]. rewrite H1. subst l. cbn [app].
      repeat split; [constructor; [exact Hc|exact H2]|constructor; [discriminate|exact H3]].
Qed.

Lemma cc_runs_spec : forall cs, cs <> [] ->
  concat (cc_runs cs) = cs /\ Forall is_chain (cc_runs cs) /\ Forall (fun r => r <> []) (cc_runs cs).
Proof.
  intros [|x l] H; [congruence|]. unfold cc_runs. apply (runs_single_spec (length l)). lia.
Qed.

(* scalar values and positions *)
Lemma scalar_cases : forall y, scalar y -> y < 55296 \/ (57344 <= y /\ y <= 1114111).
Proof.
  intros y H. unfold scalar, is_scalar_value in H. apply orb_true_iff in H.
  destruct H as [H|H]; [left; apply N.ltb_lt; exact H|right].
  apply andb_true_iff in H. destruct H as [H1 H2]. apply N.leb_le in H1, H2. auto.
Qed.

Lemma pos_succ : forall u v, scalar u -> scalar v -> pos v = pos u + 1 ->
  v = u + 1 \/ (u = 55295 /\ v = 57344).
Proof.
  intros u v Hu Hv H. unfold codepoint_position in H.
  apply scalar_cases in Hu. apply scalar_cases in Hv.
  destruct (N.ltb_spec u 55296), (N.ltb_spec v 55296); unfold cp in *; lia.
Qed.

Lemma pos_small : forall y p, scalar y -> pos y = p -> p < 55296 -> y = p.
Proof.
  intros y p Hy H Hp. unfold codepoint_position in H. apply scalar_cases in Hy.
  destruct (N.ltb_spec y 55296); unfold cp in *; lia.
Qed.

(* ---------- the entries of a well-formed class are accepted ---------- *)
Fixpoint ent_sorted (lo : N) (es : list centry) : Prop :=
  match es with
  | [] => True
  | CS x :: es' => lo <= x /\ ent_sorted (x + 1) es'
  | CR a b :: es' => lo <= a /\ a < b /\ ent_sorted (b + 1) es'
  end.

Lemma ent_sorted_first : forall lo e es, ent_sorted lo (e :: es) -> lo <= entry_first e.
Proof. intros lo [x|a b] es H; cbn [ent_sorted entry_first] in *; tauto. Qed.

Lemma ent_sorted_ok : forall es lo, ent_sorted lo es -> entries_ok es.
Proof.
  induction es as [|e es IH]; intros lo H; [exact I|].
  destruct e as [x|a b]; cbn [ent_sorted entries_ok] in *.
  - destruct H as [_ H]. split; [|eapply IH; exact H].
    destruct es as [|e' es']; [exact I|]. apply ent_sorted_first in H. unfold cp in *; lia.
  - destruct H as (_ & Hab & H). split; [|eapply IH; exact H].
    split; [lia|].
    destruct es as [|e' es']; [exact I|]. apply ent_sorted_first in H. unfold cp in *; lia.
Qed.

Lemma run_entries_sorted : forall r L ES lo,
  r <> [] -> incr_from lo (r ++ L) ->
  (incr_from (last r 0 + 1) L -> ent_sorted (last r 0 + 1) ES) ->
  ent_sorted lo (run_entries r ++ ES).
Proof.
  intros r L ES lo Hne Hinc HES. unfold run_entries.
  destruct r as [|x r]; [congruence|].
  destruct r as [|y r].
  - cbn [length Nat.leb map app ent_sorted]. cbn [app incr_from last] in *. tauto.
  - destruct r as [|z r].
    + cbn [length Nat.leb map app ent_sorted]. cbn [app incr_from last] in *.
      destruct Hinc as (H1 & H2 & H3). auto.
    + cbn [length Nat.leb]. cbn [app ent_sorted hd].
      destruct (exists_last (l := y :: z :: r) ltac:(discriminate)) as (mid & b & Emid).
      assert (Elast : last (x :: y :: z :: r) 0 = b).
      { change (last (x :: y :: z :: r) 0) with (last (y :: z :: r) 0).
        rewrite Emid. apply last_last. }
      rewrite Elast in *.
      change ((x :: y :: z :: r) ++ L) with (x :: (y :: z :: r) ++ L) in Hinc.
      cbn [incr_from] in Hinc. destruct Hinc as [Hlo Hinc].
      rewrite Emid, <- app_assoc in Hinc. cbn [app] in Hinc.
      apply incr_from_skip in Hinc. destruct Hinc as [Hxb HL].
      repeat split; auto. unfold cp in *. lia.
Qed.

Lemma runs_entries_sorted : forall runs lo,
  Forall (fun r => r <> []) runs ->
  incr_from lo (concat runs) -> ent_sorted lo (flat_map run_entries runs).
Proof.
  induction runs as [|r runs IH]; intros lo Hne Hinc; [exact I|].
  inversion Hne; subst.
  cbn [flat_map concat] in *.
  eapply run_entries_sorted; eauto.
Qed.

Lemma cc_entries_ok : forall gap cs, wf_cc gap cs -> entries_ok (cc_entries cs) /\ cc_entries cs <> [].
Proof.
  intros gap cs Hwf. pose proof Hwf as (Hlen & Hsc & Hinc & _).
  assert (Hcs : cs <> []) by (destruct cs; [cbn [length] in Hlen; lia|discriminate]).
  destruct (cc_runs_spec cs Hcs) as (Hcat & Hch & Hne).
  split.
  - destruct cs as [|x l]; [congruence|].
    apply (ent_sorted_ok _ 0). unfold cc_entries.
    apply runs_entries_sorted; [exact Hne|].
    rewrite Hcat. apply incr_cons in Hinc. cbn [incr_from]. split; [|exact Hinc].
    unfold cp in *. lia.
  - unfold cc_entries. destruct (cc_runs cs) as [|r runs]; [discriminate Hcat || (cbn in Hcat; congruence)|].
    inversion Hne; subst. cbn [flat_map]. unfold run_entries.
    destruct r as [|x r]; [congruence|]. destruct (Nat.leb (length (x :: r)) 2); discriminate.
Qed.

(* ---------- the printed class parses to the expected items ---------- *)
Section CCGood.
  Variable is_ws : cp -> bool.
  Variable c : cfg.
  Hypothesis Hp : printable c.

  Lemma cc_good : forall gap cs, wf_cc gap cs ->
    (forall rest, hd_ok (vf (cc_str c cs) ++ rest)) /\
    (forall top rest racc ralts res,
       pseq is_ws top rest (RBracket (cc_items cs) :: racc) ralts res ->
       pseq is_ws top (vf (cc_str c cs) ++ rest) racc ralts res).
  Proof.
    intros gap cs Hwf. pose proof Hwf as (Hlen & _).
    destruct (cc_entries_ok gap cs Hwf) as [Hok Hne].
    rewrite (cc_str_entries c Hp cs Hlen). rewrite !vf_app.
    change (vf [91]) with [91]. change (vf [93]) with [93].
    split.
    - intros rest. cbn [app]. apply hd_ok_cons; discriminate.
    - intros top rest racc ralts res H. cbn [app]. rewrite <- app_assoc. cbn [app].
      eapply pseq_bracket with (items := cc_items cs) (r := rest); [| |exact H].
      + apply pcls_entries; [exact Hok|].
        pose proof (pcls_close is_ws rest (rev (map entry_item (cc_entries cs)) ++ [])) as Hc.
        rewrite app_nil_r, rev_involutive in Hc.
        rewrite app_nil_r, cc_items_entries. apply Hc.
        intros X. apply (f_equal (@rev _)) in X. rewrite rev_involutive in X. cbn [rev] in X.
        apply map_eq_nil in X. contradiction.
      + rewrite app_length. slia.
  Qed.
End CCGood.

(* ---------- the items cover exactly the members ---------- *)
Lemma chain_lt : forall x v, scalar x -> scalar v -> pos v = pos x + 1 -> x < v.
Proof. intros x v Hx Hv H. destruct (pos_succ x v Hx Hv H) as [E|[E1 E2]]; unfold cp in *; lia. Qed.

Lemma chain_le_last : forall l x, chain_from (pos x) l -> Forall scalar (x :: l) ->
  x <= last (x :: l) 0.
Proof.
  induction l as [|v l IH]; intros x Hc Hs; [cbn [last]; unfold cp in *; lia|].
  cbn [chain_from] in Hc. destruct Hc as [Hv Hc].
  inversion Hs as [|? ? Hx Hs1]; subst. inversion Hs1 as [|? ? Hvs _]; subst.
  change (last (x :: v :: l) 0) with (last (v :: l) 0).
  pose proof (IH v Hc Hs1). pose proof (chain_lt x v Hx Hvs Hv). unfold cp in *. lia.
Qed.

Lemma chain_bounds : forall l x z, chain_from (pos x) l -> Forall scalar (x :: l) ->
  In z (x :: l) -> x <= z /\ z <= last (x :: l) 0.
Proof.
  induction l as [|v l IH]; intros x z Hc Hs Hin.
  - destruct Hin as [->|[]]. cbn [last]. unfold cp in *. lia.
  - destruct Hin as [->|Hin].
    + split; [unfold cp in *; lia|]. apply chain_le_last; assumption.
    + cbn [chain_from] in Hc. destruct Hc as [Hv Hc].
      inversion Hs as [|? ? Hx Hs1]; subst. inversion Hs1 as [|? ? Hvs _]; subst.
      change (last (x :: v :: l) 0) with (last (v :: l) 0).
      destruct (IH v z Hc Hs1 Hin) as [H1 H2].
      pose proof (chain_lt x v Hx Hvs Hv). unfold cp in *. lia.
Qed.

Lemma chain_cover : forall l x c0, chain_from (pos x) l -> Forall scalar (x :: l) ->
  x <= c0 -> c0 <= last (x :: l) 0 ->
  In c0 (x :: l) \/ (surrogate c0 /\ In 55295 (x :: l) /\ In 57344 (x :: l)).
Proof.
  induction l as [|v l IH]; intros x c0 Hc Hs Hlo Hhi.
  - cbn [last] in Hhi. left. left. unfold cp in *. lia.
  - cbn [chain_from] in Hc. destruct Hc as [Hv Hc].
    inversion Hs as [|? ? Hx Hs1]; subst. inversion Hs1 as [|? ? Hvs _]; subst.
    change (last (x :: v :: l) 0) with (last (v :: l) 0) in Hhi.
    destruct (N.eq_dec c0 x) as [->|Hne]; [left; left; reflexivity|].
    destruct (pos_succ x v Hx Hvs Hv) as [E|[E1 E2]].
    + destruct (IH v c0 Hc Hs1 ltac:(unfold cp in *; lia) Hhi) as [H|(H1 & H2 & H3)].
      * left. right. exact H.
      * right. split; [exact H1|]. split; right; assumption.
    + destruct (N.lt_ge_cases c0 57344) as [Hlt|Hge].
      * right. split; [unfold surrogate; unfold cp in *; lia|].
        subst x v. split; [left; reflexivity|right; left; reflexivity].
      * destruct (IH v c0 Hc Hs1 ltac:(unfold cp in *; lia) Hhi) as [H|(H1 & H2 & H3)].
        -- left. right. exact H.
        -- right. split; [exact H1|]. split; right; assumption.
Qed.

Lemma run_items_in : forall r lo hi, r <> [] -> In (lo, hi) (run_items r) ->
  (lo = hi /\ In lo r) \/ ((3 <= length r)%nat /\ lo = hd 0 r /\ hi = last r 0).
Proof.
  intros r lo hi Hne Hin. unfold run_items in Hin.
  destruct (Nat.leb_spec (length r) 2) as [Hl|Hl].
  - apply in_map_iff in Hin. destruct Hin as (x & E & Hx). inversion E; subst. left. auto.
  - destruct Hin as [E|[]]. inversion E; subst. right. split; [lia|auto].
Qed.

Lemma cc_cover_in : forall gap cs c0, wf_cc gap cs -> In c0 cs ->
  exists lo hi, In (lo, hi) (cc_items cs) /\ lo <= c0 /\ c0 <= hi.
Proof.
  intros gap cs c0 Hwf Hin. pose proof Hwf as (Hlen & Hsc & _).
  assert (Hcs : cs <> []) by (destruct cs; [cbn [length] in Hlen; lia|discriminate]).
  destruct (cc_runs_spec cs Hcs) as (Hcat & Hch & Hne).
  rewrite <- Hcat in Hin. apply in_concat in Hin. destruct Hin as (r & Hr & Hc0).
  rewrite Forall_forall in Hch, Hne. specialize (Hch r Hr). specialize (Hne r Hr).
  assert (Hscr : Forall scalar r).
  { apply Forall_forall. intros z Hz. rewrite Forall_forall in Hsc. apply Hsc.
    rewrite <- Hcat. apply in_concat. eauto. }
  unfold cc_items.
  destruct (Nat.leb_spec (length r) 2) as [Hl|Hl].
  - exists c0, c0. split; [|unfold cp in *; lia]. apply in_flat_map. exists r. split; [exact Hr|].
    unfold run_items. apply Nat.leb_le in Hl. rewrite Hl. apply in_map_iff. eauto.
  - exists (hd 0 r), (last r 0). split.
    + apply in_flat_map. exists r. split; [exact Hr|]. unfold run_items.
      replace (Nat.leb (length r) 2) with false by (symmetry; apply Nat.leb_gt; lia).
      left. reflexivity.
    + destruct r as [|x l]; [congruence|]. cbn [hd]. cbn [is_chain] in Hch.
      apply chain_bounds; assumption.
Qed.

Lemma cc_cover_out : forall gap cs lo hi c0, wf_cc gap cs ->
  In (lo, hi) (cc_items cs) -> lo <= c0 -> c0 <= hi ->
  In c0 cs \/ (surrogate c0 /\ In 55295 cs /\ In 57344 cs).
Proof.
  intros gap cs lo hi c0 Hwf Hin Hlo Hhi. pose proof Hwf as (Hlen & Hsc & _).
  assert (Hcs : cs <> []) by (destruct cs; [cbn [length] in Hlen; lia|discriminate]).
  destruct (cc_runs_spec cs Hcs) as (Hcat & Hch & Hne).
  unfold cc_items in Hin. apply in_flat_map in Hin. destruct Hin as (r & Hr & Hit).
  rewrite Forall_forall in Hch, Hne. specialize (Hch r Hr). specialize (Hne r Hr).
  assert (Hsub : forall z, In z r -> In z cs).
  { intros z Hz. rewrite <- Hcat. apply in_concat. eauto. }
  assert (Hscr : Forall scalar r).
  { apply Forall_forall. intros z Hz. rewrite Forall_forall in Hsc. auto. }
  destruct (run_items_in r lo hi Hne Hit) as [[E Hl]|(Hlen3 & E1 & E2)].
  - left. subst hi. assert (c0 = lo) by (unfold cp in *; lia). subst c0. auto.
  - destruct r as [|x l]; [congruence|]. cbn [hd] in E1. subst lo hi. cbn [is_chain] in Hch.
    destruct (chain_cover l x c0 Hch Hscr Hlo Hhi) as [H|(H1 & H2 & H3)]; [left; auto|].
    right. auto.
Qed.
