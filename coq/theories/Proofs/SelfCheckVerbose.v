(* The self-check in VERBOSE mode: `regex = Regex::new(&regex.to_string().replace('\n', "")).unwrap()`
   (src/regexp.rs).  Removing the line breaks from the Expression's verbose string gives EXACTLY the
   Expression's non-verbose string ([remove_nl_e_str]): every line break of that string is layout, a
   line break of a test case is always printed as the two characters \ n.  Hence the re-compiled
   first candidate is the non-verbose candidate, which parses (SelfCheckTotal.cand_parses): that
   unwrap cannot fail, and the computed self-check [sc_ref] returns an outcome in verbose mode too
   ([sc_ref_total_verbose]).  NOT proved for verbose mode: that the outcome is not "skipped" -- the
   first trial compile is of the verbose string WITHOUT the x flag, a string language no theorem
   here covers (measured by the self-check tie). *)
From Grex Require Import Base.Str Base.Ranges Model.Config Model.Cluster Model.Dfa Model.Expr Model.Print
  Model.Pipeline Model.SelfCheck.
From Grex Require Import Engine.Syntax Engine.Parse.
From Grex Require Import Proofs.Lang Proofs.ExprLang Proofs.EscapeProps.
From Grex Require Import Proofs.PrintParseNum Proofs.PrintParseStep Proofs.PrintParseDefs
  Proofs.PrintParseEsc Proofs.PrintParseLit Proofs.PrintParseCC Proofs.PrintParseExpr Proofs.PrintParse.
From Grex Require Import Proofs.VerboseWs Proofs.PrintParseXTok Proofs.PrintParseXPrint.
From Grex Require Import Proofs.ColourStripBase Proofs.ColourStripExpr.
From Grex Require Import Proofs.ClustersSpec Proofs.Construction Proofs.PipelinePrintable
  Proofs.SelfCheckProps Proofs.SelfCheckTotal.
From GrexGen Require Import OracleTables SrcConsts.
Local Open Scope N_scope.

Notation R := remove_nl.

Definition no10 (s : str) : Prop := Forall (fun x => x <> 10) s.

Lemma R_app : forall a b, R (a ++ b) = R a ++ R b.
Proof. intros a b. unfold remove_nl. apply filter_app. Qed.

Lemma R_nl : R nl = [].
Proof. reflexivity. Qed.

Lemma R_id : forall s, no10 s -> R s = s.
Proof.
  intros s H. unfold remove_nl. induction H as [|x s Hx _ IH]; [reflexivity|].
  cbn [filter]. apply N.eqb_neq in Hx. rewrite Hx. cbn [negb]. f_equal. exact IH.
Qed.

Lemma R_flat_map : forall {A} (f g : A -> str) l,
  Forall (fun x => R (f x) = g x) l -> R (flat_map f l) = flat_map g l.
Proof.
  intros A f g l H. induction H as [|x l Hx _ IH]; [reflexivity|].
  cbn [flat_map]. rewrite R_app, Hx, IH. reflexivity.
Qed.

Lemma no10_app : forall a b, no10 a -> no10 b -> no10 (a ++ b).
Proof. intros a b Ha Hb. apply Forall_app. split; assumption. Qed.

Lemma no10_concat : forall l, Forall no10 l -> no10 (concat l).
Proof.
  intros l H. induction H as [|s l Hs _ IH]; [constructor|]. cbn [concat]. apply no10_app; assumption.
Qed.

Lemma no10_flat_map : forall {A} (f : A -> str) l, Forall (fun x => no10 (f x)) l -> no10 (flat_map f l).
Proof.
  intros A f l H. induction H as [|x l Hx _ IH]; [constructor|]. cbn [flat_map]. apply no10_app; assumption.
Qed.

Lemma no10_replace : forall y r s, no10 r -> no10 s -> no10 (replace_cp y r s).
Proof.
  intros y r s Hr Hs. unfold replace_cp. apply no10_flat_map.
  eapply Forall_impl; [|exact Hs]. intros x Hx. cbv beta.
  destruct (N.eqb x y); [exact Hr|constructor; [exact Hx|constructor]].
Qed.

Lemma no10_replace_nl : forall r s, no10 r -> no10 (replace_cp 10 r s).
Proof.
  intros r s Hr. unfold replace_cp. apply no10_flat_map. apply Forall_forall. intros x _. cbv beta.
  destruct (N.eqb_spec x 10) as [E|E]; [exact Hr|constructor; [exact E|constructor]].
Qed.

Lemma solid_not10 : forall x, PrintParseXTok.solid x -> x <> 10.
Proof. intros x [H _] E. subst x. vm_compute in H. discriminate. Qed.

Lemma no10_solid : forall s, Forall PrintParseXTok.solid s -> no10 s.
Proof. intros s H. eapply Forall_impl; [|exact H]. intros x. apply solid_not10. Qed.

Ltac no10c := repeat (first [apply Forall_nil | apply Forall_cons; [discriminate|]]).

Lemma no10_fold_escape : forall l s,
  no10 s -> no10 (fold_left (fun s x => replace_cp x [c_backslash; x] s) l s) \/ In 10 l.
Proof.
  induction l as [|y l IH]; intros s Hs; [left; exact Hs|].
  cbn [fold_left]. destruct (N.eq_dec y 10) as [E|E]; [right; left; exact E|].
  destruct (IH (replace_cp y [c_backslash; y] s)) as [H|H].
  - apply no10_replace; [|exact Hs]. constructor; [discriminate|]. constructor; [exact E|constructor].
  - left. exact H.
  - right. right. exact H.
Qed.

Lemma chars_to_escape_no10 : ~ In 10 chars_to_escape.
Proof.
  intros H. assert (E : mem_cp 10 chars_to_escape = false) by (vm_compute; reflexivity).
  apply mem_cp_in_true in H. rewrite H in E. discriminate.
Qed.

(* a line break of the text never survives escaping: it is printed as \ n *)
Lemma no10_escape_symbols : forall t, no10 (escape_symbols_str t).
Proof.
  intros t. unfold escape_symbols_str. cbv zeta.
  set (s1 := fold_left (fun s x => replace_cp x [c_backslash; x] s) chars_to_escape t).
  assert (H2 : no10 (replace_cp c_nl [c_backslash; 110] s1)).
  { apply no10_replace_nl. no10c. }
  assert (H4 : no10 (replace_cp c_tab [c_backslash; 116]
                      (replace_cp c_cr [c_backslash; 114] (replace_cp c_nl [c_backslash; 110] s1)))).
  { apply no10_replace; [no10c|]. apply no10_replace; [no10c|exact H2]. }
  destruct (str_eqb _ [c_backslash]); [no10c|exact H4].
Qed.

Lemma no10_esc_unicode : forall x, no10 (esc_unicode x).
Proof.
  intros x. unfold esc_unicode. apply no10_app; [no10c|]. apply no10_app; [|no10c].
  apply no10_solid. apply Forall_solid_hex.
Qed.

Lemma no10_escape_cp : forall sur x, x <> 10 -> no10 (escape_cp sur x).
Proof.
  intros sur x Hx. unfold escape_cp. destruct (N.ltb x 128); [constructor; [exact Hx|constructor]|].
  destruct (sur && is_astral x); [apply no10_app|]; apply no10_esc_unicode.
Qed.

Lemma no10_esc_str : forall c t, no10 (esc_str c t).
Proof.
  intros c t. unfold esc_str. cbv zeta. pose proof (no10_escape_symbols t) as H.
  destruct (f_esc c); [|exact H]. apply no10_flat_map.
  eapply Forall_impl; [|exact H]. intros x Hx. apply no10_escape_cp. exact Hx.
Qed.

Lemma no10_rep_str : forall a b, no10 (rep_str a b).
Proof.
  intros a b. unfold rep_str. destruct (N.ltb a b).
  - apply no10_app; [no10c|]. apply no10_app; [apply no10_solid, Forall_solid_dec|].
    apply no10_app; [no10c|]. apply no10_app; [apply no10_solid, Forall_solid_dec|no10c].
  - apply no10_app; [no10c|]. apply no10_app; [apply no10_solid, Forall_solid_dec|no10c].
Qed.

Lemma no10_quant_str : forall q, no10 (quant_str q).
Proof. intros [|]; no10c. Qed.

Lemma no10_grp_open : forall c, no10 (grp_open c).
Proof. intros c. unfold grp_open. destruct (f_cap c); vm_compute; no10c. Qed.

(* ---------- character classes ---------- *)
Lemma no10_cc_escape : forall x, no10 (cc_escape x).
Proof.
  intros x. unfold cc_escape.
  destruct (mem_cp x cc_chars_to_escape) eqn:E1.
  - constructor; [discriminate|]. constructor; [|constructor].
    intros ->. vm_compute in E1. discriminate.
  - destruct (N.eqb_spec x c_nl) as [E|E]; [no10c|].
    destruct (N.eqb x c_cr); [no10c|]. destruct (N.eqb x c_tab); [no10c|].
    constructor; [exact E|constructor].
Qed.

Lemma cc_subsets_no10 : forall items subset first,
  Forall (fun it => no10 (fst it)) items -> Forall no10 subset ->
  Forall (Forall no10) (cc_subsets items subset first).
Proof.
  induction items as [|[c1 p1] items IH]; intros subset first Hi Hs.
  - cbn [cc_subsets]. constructor; [exact Hs|constructor].
  - destruct items as [|[c2 p2] rest].
    + cbn [cc_subsets]. constructor; [exact Hs|constructor].
    + inversion Hi as [|? ? H1 Hi']; subst. inversion Hi' as [|? ? H2 _]; subst.
      cbn [fst] in H1, H2.
      change (cc_subsets ((c1, p1) :: (c2, p2) :: rest) subset first)
        with (let subset := if first then [c1] else subset in
              if N.eqb p2 (p1 + 1) then cc_subsets ((c2, p2) :: rest) (subset ++ [c2]) false
              else subset :: cc_subsets ((c2, p2) :: rest) [c2] false).
      cbv zeta.
      assert (Hs' : Forall no10 (if first then [c1] else subset)).
      { destruct first; [constructor; [exact H1|constructor]|exact Hs]. }
      destruct (N.eqb p2 (p1 + 1)).
      * apply IH; [exact Hi'|]. apply Forall_app. split; [exact Hs'|constructor; [exact H2|constructor]].
      * constructor; [exact Hs'|]. apply IH; [exact Hi'|constructor; [exact H2|constructor]].
Qed.

Lemma no10_hd : forall l, Forall no10 l -> no10 (hd [] l).
Proof. intros l H. destruct H; [constructor|assumption]. Qed.

Lemma no10_last : forall l, Forall no10 l -> no10 (last l []).
Proof.
  intros l H. induction H as [|x l Hx Hl IH]; [constructor|].
  destruct l as [|y l]; [exact Hx|exact IH].
Qed.

Lemma no10_cc_str : forall c cs, f_colour c = false -> no10 (cc_str c cs).
Proof.
  intros c cs Hc. unfold cc_str, col. rewrite Hc. cbv zeta.
  apply no10_app; [vm_compute; no10c|]. apply no10_app; [|vm_compute; no10c].
  apply no10_concat.
  assert (HS : Forall (Forall no10)
                 (cc_subsets (map (fun x => (cc_escape x, codepoint_position x)) cs) [] true)).
  { apply cc_subsets_no10; [|constructor]. apply Forall_map. apply Forall_forall. intros x _. apply no10_cc_escape. }
  induction HS as [|sub l Hsub _ IH]; [constructor|].
  cbn [flat_map]. apply Forall_app. split; [|exact IH].
  destruct (Nat.leb (length sub) 2); [exact Hsub|].
  constructor; [|constructor].
  apply no10_app; [apply no10_hd; exact Hsub|]. apply no10_app; [vm_compute; no10c|apply no10_last; exact Hsub].
Qed.

(* ---------------------------------------------------------------------- *)
(* the Expression's string: verbose minus line breaks = non-verbose          *)
(* ---------------------------------------------------------------------- *)
Section Struct.
  Variable c : cfg.
  Variable gap : Prop.
  Hypothesis Hp : printable c.
  Hypothesis Hv : f_verbose c = true.

  Let c0 := unv c.
  Let Hp0 : printable c0 := Hp.
  Let Hv0 : f_verbose c0 = false := eq_refl.

  Lemma R_c_group : forall v fb, R (c_group c v fb) = grp c0 (R v).
  Proof.
    intros v fb. rewrite (c_group_v c Hp Hv). rewrite !R_app, !R_nl.
    unfold grp. change (grp_open c0) with (grp_open c).
    rewrite (R_id (grp_open c)) by apply no10_grp_open.
    destruct fb; cbn [app]; rewrite ?R_nl, ?app_nil_r; reflexivity.
  Qed.

  Definition g_eq (g : grapheme) : Prop := R (gp c g) = gp c0 g.

  Lemma g_eq_all : forall g nested, wf_pg nested g -> g_eq g.
  Proof.
    induction g as [cs rs a b IH] using ColourStripExpr.grapheme_ind'. intros nested Hwf.
    apply wf_pg_unfold in Hwf.
    destruct Hwf as (Hne & Htok & Ha & Hab & Hnest & Hrs & Hwfrs).
    assert (Hrel : Forall g_eq rs).
    { clear Hrs. induction IH as [|r rs Hr _ IHrs]; [constructor|].
      inversion Hwfrs; subst. constructor; [eapply Hr; eassumption|apply IHrs; assumption]. }
    unfold g_eq. rewrite (gp_unfold c0 Hp0 Hv0), (gp_unfold_v c Hp Hv) by assumption. cbv zeta.
    change (esc_str c0) with (esc_str c).
    set (v0 := match rs with [] => concat (map (esc_str c) cs) | _ => flat_map (gp c0) rs end).
    set (v1 := match rs with [] => concat (map (esc_str c) cs) | _ => flat_map (gp c) rs end).
    assert (Vb : R v1 = v0).
    { unfold v0, v1. destruct rs as [|r rs].
      - apply R_id. apply no10_concat. apply Forall_map. apply Forall_forall. intros t _. apply no10_esc_str.
      - apply R_flat_map. exact Hrel. }
    clearbody v0 v1.
    destruct (N.eqb a 1 && N.eqb b 1); [exact Vb|].
    destruct (chars_single (map (esc_str c) cs)).
    - rewrite R_app, Vb, (R_id (rep_str a b)) by apply no10_rep_str. reflexivity.
    - rewrite !R_app, R_c_group, Vb, R_nl, app_nil_r, (R_id (rep_str a b)) by apply no10_rep_str. reflexivity.
  Qed.

  Lemma R_lit_str : forall cl, Forall (wf_pg false) cl -> R (lit_str c cl) = lit_str c0 cl.
  Proof.
    intros cl HF. rewrite (lit_str_gp c0 Hp0 Hv0), (lit_str_gp_v c Hp Hv) by exact HF.
    apply R_flat_map. eapply Forall_impl; [|exact HF]. intros g Hg. eapply g_eq_all. exact Hg.
  Qed.

  Definition e_eq (e : expr) : Prop := R (e_str c e) = e_str c0 e.

  Lemma R_partv : forall fb lvl x, e_eq x -> R (partv c fb lvl x) = part c0 lvl x.
  Proof.
    intros fb lvl x Hx. unfold part, partv. change (needs_group c0 lvl x) with (needs_group c lvl x).
    destruct (needs_group c lvl x); [|exact Hx]. rewrite R_c_group, Hx. reflexivity.
  Qed.

  Lemma R_alt : forall os, Forall e_eq os ->
    R (join sepv (map (e_str c) os)) = join [124] (map (e_str c0) os).
  Proof.
    induction os as [|o os IH]; intros HF; [reflexivity|].
    inversion HF as [|? ? Ho HF']; subst. destruct os as [|o2 os]; [exact Ho|].
    change (join [124] (map (e_str c0) (o :: o2 :: os)))
      with (e_str c0 o ++ [124] ++ join [124] (map (e_str c0) (o2 :: os))).
    change (join sepv (map (e_str c) (o :: o2 :: os)))
      with (e_str c o ++ sepv ++ join sepv (map (e_str c) (o2 :: os))).
    rewrite !R_app, Ho, (IH HF'). reflexivity.
  Qed.

  Theorem remove_nl_e_str : forall e, wf_print_gen gap e -> e_eq e.
  Proof.
    induction e as [os IH|cs|a b IHa IHb|cl|x q IHx] using ExprLang.expr_ind'; intros Hwf.
    - apply wf_print_alt in Hwf. destruct Hwf as [Hne Hwf].
      unfold e_eq. rewrite (e_str_alt c0 Hp0 Hv0), (e_str_alt_v c Hp Hv). apply R_alt.
      clear Hne. induction IH as [|o os Ho _ IHos]; [constructor|].
      inversion Hwf; subst. constructor; [apply Ho; assumption|apply IHos; assumption].
    - unfold e_eq. cbn [e_str]. change (cc_str c0 cs) with (cc_str c cs).
      apply R_id. apply no10_cc_str. exact (proj1 Hp).
    - cbn [wf_print_gen] in Hwf. destruct Hwf as [Hwa Hwb].
      unfold e_eq. rewrite (e_str_cat c0 Hp0 Hv0), e_str_cat_v. rewrite R_app.
      rewrite !R_partv by auto. reflexivity.
    - cbn [wf_print_gen] in Hwf. unfold e_eq. cbn [e_str]. apply R_lit_str. exact Hwf.
    - cbn [wf_print_gen] in Hwf. destruct Hwf as [Hwx _].
      unfold e_eq. rewrite (e_str_rep c0 Hp0 Hv0), (e_str_rep_v c Hp Hv). rewrite !R_app, R_nl, app_nil_r.
      rewrite R_partv by auto. rewrite (R_id (quant_str q)) by apply no10_quant_str. reflexivity.
  Qed.
End Struct.

Print Assumptions remove_nl_e_str.

(* ---------------------------------------------------------------------- *)
(* the self-check in verbose mode                                           *)
(* ---------------------------------------------------------------------- *)
(* the candidate as it would be printed without colour and without layout *)
Definition cand_nv (c : cfg) (e : expr) : str := e_str (unv (with_colour c false)) e.

Lemma unv_same : forall c, f_verbose c = false -> unv c = c.
Proof. intros c H. destruct c. cbn in H. subst. reflexivity. Qed.

Section SCV.
  Variable isd is_ws : cp -> bool.
  Hypothesis Hd : digit_ok isd.
  Hypothesis Hws : ws_ok is_ws.

  (* what `regex.to_string().replace('\n', "")` is, in verbose mode: the non-verbose candidate *)
  Theorem cand1_str_verbose : forall c gap e,
    f_sur c = false -> f_verbose c = true -> wf_print_gen gap e ->
    cand1_str isd c e = cand_nv c e.
  Proof.
    intros c gap e Hs Hv Hwf. unfold cand1_str. rewrite Hv. rewrite (cand_str_plain isd Hd).
    apply (remove_nl_e_str (with_colour c false) gap); [split; [reflexivity|exact Hs]|exact Hv|exact Hwf].
  Qed.

  (* in either mode the string that the test cases are searched with is the non-verbose candidate *)
  Theorem cand1_str_any : forall c gap e,
    f_sur c = false -> wf_print_gen gap e -> cand1_str isd c e = cand_nv c e.
  Proof.
    intros c gap e Hs Hwf. destruct (f_verbose c) eqn:Hv.
    - exact (cand1_str_verbose c gap e Hs Hv Hwf).
    - unfold cand1_str, cand_nv. rewrite Hv. rewrite (cand_str_plain isd Hd).
      rewrite (unv_same (with_colour c false)) by exact Hv. reflexivity.
  Qed.

  Theorem cand1_str_parses : forall c gap e,
    f_sur c = false -> wf_print_gen gap e -> no_vf (cand_nv c e) ->
    parse is_ws (cand1_str isd c e)
    = Some (mkF false false, ralt (e_alts (unv (with_colour c false)) e)).
  Proof.
    intros c gap e Hs Hwf Hn. rewrite (cand1_str_any c gap e Hs Hwf).
    unfold cand_nv in *. rewrite <- (vf_id _ Hn) at 1.
    apply (cand_parses is_ws (unv (with_colour c false)) gap);
      [split; [reflexivity|exact Hs]|reflexivity|exact Hws|exact Hwf].
  Qed.

  (* TOTAL in every mode: the unwrap() at the verbose re-compile cannot fail *)
  Theorem sc_ref_total : forall c cls tcs,
    Forall wf_cluster cls -> Forall (Forall (wf_pg false)) cls -> cls <> [] ->
    f_sur c = false ->
    (forall e1, cand1 c cls = Some e1 -> no_vf (cand_nv c e1)) ->
    exists sc, sc_ref isd is_ws c cls tcs = Some sc.
  Proof.
    intros c cls tcs Hwc Hwp Hne Hs Hn.
    destruct (final_expr_total c cls SCPass1 Hwc) as [e1 He1].
    pose proof (final_expr_W c cls SCPass1 e1 Hwp Hne He1) as HW.
    rewrite <- cand1_final in He1. specialize (Hn e1 He1).
    pose proof (cand1_str_parses c True e1 Hs HW Hn) as Hparse.
    unfold cand1 in He1. unfold sc_ref.
    destruct (dfa_from cls true) as [d1|]; [|discriminate].
    rewrite He1.
    destruct (parse is_ws (cand_str isd c e1)); [|eexists; reflexivity].
    unfold all_count1. rewrite Hparse. eexists. reflexivity.
  Qed.

  Theorem build_closed_total : forall c db ws,
    let tcs := normalise c db ws in
    let cls := grapheme_clusters c db tcs in
    Forall (Forall (wf_pg false)) cls -> cls <> [] ->
    f_sur c = false ->
    (forall e1, cand1 c cls = Some e1 -> no_vf (cand_nv c e1)) ->
    exists s, build_closed isd is_ws c db ws = Some s.
  Proof.
    intros c db ws tcs cls Hwp Hne Hs Hn. unfold build_closed. fold tcs. fold cls.
    destruct (f_no_start c && f_no_end c).
    - destruct (sc_ref_total c cls tcs) as (sc & Hsc); try assumption.
      { apply grapheme_clusters_wf. }
      rewrite Hsc. apply build_total.
    - apply build_total.
  Qed.
End SCV.

Print Assumptions cand1_str_verbose.
Print Assumptions sc_ref_total.
Print Assumptions build_closed_total.

(* NON-VACUITY: verbose, both anchors off, ["a","ab"]: the first trial compile is of "ab?\n"
   (no x flag: the line break is a literal), the re-compiled candidate is "ab?" *)
From Grex Require Proofs.NonVacuity.
Definition c_SCV : cfg := (mkCfg 1 1 false false false false false false false false false false false true true true false).
Definition e_SCV : expr := ECat (ELit [G [[97]] [] 1 1]) (ERep (ELit [G [[98]] [] 1 1]) QQuestion).
Example sc_ref_world_verbose :
  cand1 c_SCV (grapheme_clusters c_SCV db_SC (normalise c_SCV db_SC ws_SC)) = Some e_SCV
  /\ cand_str NonVacuity.isd c_SCV e_SCV = [97; 98; 63; 10]
  /\ cand1_str NonVacuity.isd c_SCV e_SCV = [97; 98; 63]
  /\ sc_ref NonVacuity.isd NonVacuity.is_ws_std c_SCV (grapheme_clusters c_SCV db_SC (normalise c_SCV db_SC ws_SC))
            (normalise c_SCV db_SC ws_SC) = Some SCPass1.
Proof. split; [|split; [|split]]; vm_compute; reflexivity. Qed.
