(* THE CONSTRUCTION THEOREM: composition of the stage lemmas into statements about the
   pipeline (Pipeline.final_expr / build).  Helpers: MinimizeLang.v (Hopcroft result ==>
   QuotientLang.stable, minimize_trie_lang, recreate_total_cover), ExprTotal.v
   (expr_from_total_wf: Expression::from never fails on a well-formed automaton).

     final_expr_total, build_total   build() never panics (no hypothesis on merging,
                                     uniformity or acyclicity)
     construction_lang               for ws <> [], a consistent oracle and no_merge: the
                                     expression denotes exactly the specification language,
                                     except possibly for the empty string under K4.
                                     NO hypothesis on lit_den / cls_den.
     construction_lang_exact         SCPass2 / SCFail (both anchors disabled): exact
     construction_lang_fail          SCFail: exact, without no_merge
     construction_exact_default      no_merge holds automatically when f_rep = false
     construction_wf                 the expression is well formed
     construction_sound_trie         trie stage only: every spec string is accepted by the trie,
                                     even with merging *)
From Grex Require Import Base.Str Model.Config Model.Cluster Model.Dfa Model.Expr.
From Grex Require Import Proofs.Lang Proofs.Spec Proofs.NormaliseDet Proofs.ClustersSpec
  Proofs.TrieLang Proofs.HopSets Proofs.QuotientLang Proofs.MatLemmas Proofs.DfsOk
  Proofs.ElimLang Proofs.ExprLang Proofs.MinimizeLang Proofs.ExprTotal.
From Grex Require Import Model.Pipeline.
From GrexGen Require Import GrexTables.

(* ====================================================================== *)
(* 2. TOTALITY                                                             *)
(* ====================================================================== *)

Theorem final_expr_total : forall c cls sc, Forall wf_cluster cls ->
  exists e, Pipeline.final_expr c cls sc = Some e.
Proof.
  intros c cls sc Hwf. unfold Pipeline.final_expr, dfa_from.
  destruct (trie_total cls) as [t Ht]. rewrite Ht.
  pose proof (trie_wf cls t Hwf Ht) as Hwt.
  destruct (minimize_total_wf t Hwt) as (d1 & Hm & Hw1). rewrite Hm.
  destruct (expr_from_total_wf c d1 Hw1) as (e1 & He1 & _). rewrite He1.
  destruct (expr_from_total_wf c t Hwt) as (e2 & He2 & _). rewrite He2.
  destruct (f_no_start c && f_no_end c); [|eauto].
  destruct sc; eauto.
Qed.

Theorem build_total : forall isd c db sc ws, exists s, build isd c db sc ws = Some s.
Proof.
  intros isd c db sc ws. unfold build.
  destruct (final_expr_total c (grapheme_clusters c db (normalise c db ws)) sc) as [e He].
  - apply grapheme_clusters_wf.
  - rewrite He. eauto.
Qed.

(* what final_expr returns *)
Lemma final_expr_inv : forall c cls sc e, Pipeline.final_expr c cls sc = Some e ->
  exists t d1 e1,
    trie_of cls = Some t /\ minimize t = Some d1 /\ expr_from c d1 = Some e1
    /\ (e = e1
        \/ (f_no_start c && f_no_end c = true /\ sc = SCPass2 /\ expr_from c t = Some e)
        \/ (f_no_start c && f_no_end c = true /\ sc = SCFail
            /\ e = new_alternation (map ELit cls))).
Proof.
  intros c cls sc e H. unfold Pipeline.final_expr, dfa_from in H.
  destruct (trie_of cls) as [t|] eqn:Ht; [|discriminate].
  destruct (minimize t) as [d1|] eqn:Hm; [|discriminate].
  destruct (expr_from c d1) as [e1|] eqn:He1; [|discriminate].
  exists t, d1, e1. split; [reflexivity|]. split; [exact Hm|]. split; [exact He1|].
  destruct (f_no_start c && f_no_end c).
  - destruct sc.
    + left. congruence.
    + left. congruence.
    + destruct (expr_from c t) as [e2|] eqn:He2; [|discriminate].
      right; left. split; [reflexivity|]. split; [reflexivity|]. congruence.
    + destruct (expr_from c t) as [e2|] eqn:He2; [|discriminate].
      right; right. split; [reflexivity|]. split; [reflexivity|]. congruence.
  - left. congruence.
Qed.

Corollary final_expr_wf : forall c cls sc e, Forall wf_cluster cls ->
  Pipeline.final_expr c cls sc = Some e -> wf_expr e.
Proof.
  intros c cls sc e Hwf H.
  destruct (final_expr_inv c cls sc e H) as (t & d1 & e1 & Ht & Hm & He1 & Hcase).
  pose proof (trie_wf cls t Hwf Ht) as Hwt.
  destruct Hcase as [->|[(_ & _ & He2)|(_ & _ & ->)]].
  - destruct (minimize_total_wf t Hwt) as (d1' & Hm' & Hw1).
    assert (d1' = d1) by congruence. subst d1'.
    destruct (expr_from_total_wf c d1 Hw1) as (e' & He' & Hw). congruence.
  - destruct (expr_from_total_wf c t Hwt) as (e' & He' & Hw). congruence.
  - apply new_alternation_wf. apply Forall_forall. intros x Hx.
    apply in_map_iff in Hx. destruct Hx as (cl & <- & Hcl). simpl.
    rewrite Forall_forall in Hwf. apply Hwf; exact Hcl.
Qed.

(* ====================================================================== *)
(* the trivial trie: all clusters are empty                                *)
(* ====================================================================== *)
Definition T0 : dfa := mkDfa 1 [] 0 [0] [].
Definition D0 : dfa := mkDfa 1 [] 0 [] [].

Lemma trie_acc_all_nil : forall cls, Forall (fun cl : cluster => cl = []) cls ->
  fold_left insert_cluster cls (Some (mkTA (mkT 1 [] false) [0] []))
  = Some (mkTA (mkT 1 [] false) [0] []).
Proof.
  induction cls as [|cl cls IH]; intros H; [reflexivity|].
  inversion H as [|? ? Hcl Hrest]; subst. simpl. apply IH; exact Hrest.
Qed.

Lemma trie_all_nil : forall cls, Forall (fun cl : cluster => cl = []) cls -> cls <> [] ->
  trie_of cls = Some T0.
Proof.
  intros cls H Hne. destruct cls as [|cl cls]; [congruence|].
  inversion H as [|? ? Hcl Hrest]; subst. unfold trie_of, trie_acc_of. simpl.
  change (fold_left insert_cluster cls (Some (mkTA (mkT 1 [] false) [0] []))) with
    (fold_left insert_cluster cls (Some (mkTA (mkT 1 [] false) [0] []))).
  rewrite (trie_acc_all_nil cls Hrest). reflexivity.
Qed.

Lemma minimize_T0 : minimize T0 = Some D0.
Proof. reflexivity. Qed.

Lemma expr_from_D0 : forall c, expr_from c D0 = Some (ELit []).
Proof. reflexivity. Qed.

Lemma expr_from_T0 : forall c, expr_from c T0 = Some (ELit []).
Proof. reflexivity. Qed.

(* the clusters of the empty string *)
Lemma chunks_nil_filter : forall {A} lens,
  filter (fun it : list A => match it with [] => false | _ => true end) (chunks lens []) = [].
Proof.
  intros A. induction lens as [|n lens IH]; [reflexivity|].
  simpl. rewrite firstn_nil, skipn_nil. simpl. exact IH.
Qed.

Lemma cluster_of_nil : forall seg cat, cluster_of seg cat [] = [].
Proof. intros seg cat. unfold cluster_of. simpl. rewrite chunks_nil_filter. reflexivity. Qed.

Lemma cluster_grk_nil : forall c db, cluster_r c (cluster_k c (cluster_g db [])) = [].
Proof.
  intros c db. unfold cluster_g. rewrite cluster_of_nil.
  unfold cluster_k, cluster_r. destruct (char_class_feature c); destruct (f_rep c); reflexivity.
Qed.

Lemma K4_false_inv : forall tcs, K4 tcs = false -> In [] tcs -> forall s, In s tcs -> s = [].
Proof.
  intros tcs H Hin s Hs. unfold K4 in H. apply andb_false_iff in H. destruct H as [H|H].
  - exfalso. rewrite (proj2 (existsb_exists _ _)) in H; [discriminate|].
    exists []. auto.
  - destruct s as [|x s]; [reflexivity|]. exfalso.
    rewrite (proj2 (existsb_exists _ _)) in H; [discriminate|].
    exists (x :: s). auto.
Qed.

(* ====================================================================== *)
(* inhabited denotations: every well-formed cluster denotes some string    *)
(* ====================================================================== *)
Section Inh.
  Variables lit_den cls_den : cp -> cp -> Prop.
  Hypothesis lit_inh : forall c, exists x, lit_den c x.
  Hypothesis cls_inh : forall l, is_class_letter l = true -> exists x, cls_den l x.

  Lemma den_str_inh_n : forall n s, length s <= n -> exists u, den_str lit_den cls_den s u.
  Proof.
    induction n as [|n IH]; intros s Hlen.
    - destruct s; [|simpl in Hlen; lia]. exists []. reflexivity.
    - destruct s as [|c s']; [exists []; reflexivity|].
      destruct s' as [|l s''].
      + destruct (lit_inh c) as [x Hx]. exists [x]. exists x. auto.
      + rewrite den_str_cons2. simpl in Hlen.
        destruct (N.eqb c c_backslash && is_class_letter l) eqn:E.
        * apply andb_true_iff in E. destruct E as [_ E].
          destruct (cls_inh l E) as [x Hx].
          destruct (IH s'') as [u Hu]; [lia|].
          exists ([x] ++ u), [x], u. split; [reflexivity|]. split; [exists x; auto|exact Hu].
        * destruct (lit_inh c) as [x Hx].
          destruct (IH (l :: s'')) as [u Hu]; [simpl; lia|].
          exists ([x] ++ u), [x], u. split; [reflexivity|]. split; [exists x; auto|exact Hu].
  Qed.

  Lemma den_str_inh : forall s, exists u, den_str lit_den cls_den s u.
  Proof. intros s. apply (den_str_inh_n (length s) s (Nat.le_refl _)). Qed.

  Lemma den_chars_inh : forall cs, exists u, den_chars lit_den cls_den cs u.
  Proof.
    induction cs as [|s cs [u Hu]]; [exists []; reflexivity|].
    destruct (den_str_inh s) as [v Hv]. exists (v ++ u), v, u. auto.
  Qed.

  Lemma lpow_inh : forall (A : lang), (exists u, A u) -> forall k, exists u, lpow A k u.
  Proof.
    intros A [v Hv]. induction k as [|k [u Hu]]; [exists []; reflexivity|].
    exists (v ++ u), v, u. auto.
  Qed.

  Lemma den_g_inh : forall g, wf_g g -> exists u, den_g lit_den cls_den g u.
  Proof.
    intros g Hw. apply wf_g_proj in Hw. destruct Hw as (_ & _ & _ & Hle).
    destruct (lpow_inh _ (den_chars_inh (g_chars g)) (N.to_nat (g_min g))) as [u Hu].
    exists u, (N.to_nat (g_min g)). rewrite N2Nat.id.
    split; [apply N.le_refl|]. split; [exact Hle|exact Hu].
  Qed.

  Lemma L_cluster_inh : forall cl, wf_cluster cl -> exists u, L_cluster lit_den cls_den cl u.
  Proof.
    induction cl as [|g cl IH]; intros Hw; [exists []; reflexivity|].
    inversion Hw as [|? ? Hg Hcl]; subst. destruct (IH Hcl) as [u Hu].
    destruct (den_g_inh g Hg) as [v Hv]. exists (v ++ u), v, u. auto.
  Qed.

  Lemma den_tokens_inh : forall toks, exists u, den_tokens lit_den cls_den toks u.
  Proof.
    induction toks as [|t toks [u Hu]]; [exists []; reflexivity|].
    destruct (den_str_inh t) as [v Hv]. exists (v ++ u), v, u. auto.
  Qed.

  (* the specification language of a non-empty list of test cases is inhabited *)
  Lemma Spec_inh : forall c db ws, ws <> [] -> exists u, Spec lit_den cls_den c db ws u.
  Proof.
    intros c db ws Hws. unfold Spec, Spec_cases.
    assert (Hex : exists t, In t (if f_ci c then map (lower' db) ws else ws)).
    { destruct ws as [|w ws]; [congruence|]. destruct (f_ci c); simpl; eauto. }
    destruct Hex as [t Ht].
    destruct (den_tokens_inh (map (class_token c class_chain) t)) as [u Hu].
    exists u, t. split; [exact Ht|exact Hu].
  Qed.
End Inh.

(* the total denotation: used only as a device to read syntactic facts ("the automaton has an
   accepting path") off the semantic disjunction of ElimLang.expr_from_lang_gen *)
Definition dT : cp -> cp -> Prop := fun _ _ => True.

Lemma L_cluster_inh_T : forall cl, wf_cluster cl -> exists u, L_cluster dT dT cl u.
Proof.
  apply L_cluster_inh.
  - intros c. exists c. exact I.
  - intros l _. exists l. exact I.
Qed.

(* Expression::from on acyclic automata, with the union2/concatenate premises discharged *)
Lemma efl : forall (lit_den cls_den : cp -> cp -> Prop) c d e,
  wf_dfa d -> acyclic d -> expr_from c d = Some e ->
  leq (L_expr lit_den cls_den e) (L_dfa lit_den cls_den d)
  \/ (e = ELit [] /\ forall u, ~ L_dfa lit_den cls_den d u).
Proof.
  intros lit_den cls_den.
  exact (ElimLang.expr_from_lang_gen lit_den cls_den
           (ExprLang.union2_lang lit_den cls_den) ExprLang.union2_total ExprLang.union2_wf
           (ExprLang.concatenate_lang lit_den cls_den) ExprLang.concatenate_wf).
Qed.

(* ====================================================================== *)
(* 3. THE CONSTRUCTION THEOREM                                             *)
(* ====================================================================== *)
Section C.
  Variables lit_den cls_den : cp -> cp -> Prop.
  Local Notation Le := (L_expr lit_den cls_den).
  Local Notation Ld := (L_dfa lit_den cls_den).
  Local Notation Lcs := (L_clusters lit_den cls_den).
  Local Notation Lcl := (L_cluster lit_den cls_den).
  Local Notation SpecL := (Spec lit_den cls_den).

  (* ---------- small facts ---------- *)
  Lemma L_cluster_nil_inv : forall cl, wf_cluster cl -> Lcl cl [] -> cl = [].
  Proof.
    intros [|g cl] Hwf H; [reflexivity|]. exfalso. simpl in H.
    destruct H as (v & w & E & Hv & _). inversion Hwf; subst.
    apply (den_g_nonempty lit_den cls_den g v); auto.
    destruct v; [reflexivity|discriminate E].
  Qed.

  Lemma Spec_str_nil_inv : forall c t, Spec_str lit_den cls_den c t [] -> t = [].
  Proof.
    intros c [|x t] H; [reflexivity|]. exfalso.
    change (lcat (den_str lit_den cls_den (class_token c class_chain x))
                 (den_tokens lit_den cls_den (map (class_token c class_chain) t)) []) in H.
    destruct H as (v & w & E & Hv & _).
    apply (den_str_nonempty lit_den cls_den _ v (class_token_nonempty c x) Hv).
    destruct v; [reflexivity|discriminate E].
  Qed.

  Lemma spec_tcs : forall c db ws u,
    Spec_cases lit_den cls_den c (normalise c db ws) u <-> SpecL c db ws u.
  Proof.
    intros c db ws u. unfold Spec, Spec_cases.
    split; intros (t & Ht & H); exists t; (split; [|exact H]); apply normalise_in; exact Ht.
  Qed.

  (* Spec is stated on ws, the clusters are built from the normalised test cases *)
  Lemma spec_clusters : forall c db ws, oracle_ok db (normalise c db ws) ->
    leq (Lcs (grapheme_clusters c db (normalise c db ws))) (SpecL c db ws).
  Proof.
    intros c db ws Hok u.
    pose proof (grapheme_clusters_spec lit_den cls_den c db (normalise c db ws) Hok u) as A.
    pose proof (spec_tcs c db ws u) as B. tauto.
  Qed.

  (* ---------- SCFail: plain alternation, no hypothesis at all ---------- *)
  Theorem fallback_lang : forall cls, leq (Le (new_alternation (map ELit cls))) (Lcs cls).
  Proof.
    intros cls u. unfold L_clusters. split.
    - intros H. apply (new_alternation_lang lit_den cls_den) in H.
      destruct H as (o & Ho & Hu). apply in_map_iff in Ho. destruct Ho as (cl & <- & Hcl).
      exists cl. auto.
    - intros (cl & Hcl & Hu). apply (new_alternation_lang lit_den cls_den).
      exists (ELit cl). split; [apply in_map; exact Hcl|exact Hu].
  Qed.

  (* ---------- a syntactic fact, read off at the total denotation ---------- *)
  (* if cls is non-empty, then either the automaton d (whose language agrees with the trie's
     on non-empty strings and is included in it) accepts something at the total denotation,
     or all of this collapses to "the empty cluster is in cls" *)
  Lemma nil_in_cls : forall cls, Forall wf_cluster cls -> L_clusters dT dT cls [] -> In [] cls.
  Proof.
    intros cls Hwf (cl & Hcl & H). rewrite Forall_forall in Hwf.
    destruct cl as [|g cl]; [exact Hcl|]. exfalso. simpl in H.
    destruct H as (v & w & E & Hv & _). pose proof (Hwf _ Hcl) as Hw. inversion Hw; subst.
    apply (den_g_nonempty dT dT g v); auto. destruct v; [reflexivity|discriminate E].
  Qed.

  Lemma Lcs_nil : forall cls, In [] cls -> Lcs cls [].
  Proof. intros cls H. exists []. split; [exact H|reflexivity]. Qed.

  (* ---------- SCPass2: the trie, exact ---------- *)
  Lemma trie_branch : forall c cls t e2,
    Forall wf_cluster cls -> Forall (Forall uniform_g) cls -> no_merge cls = true ->
    cls <> [] ->
    trie_of cls = Some t -> expr_from c t = Some e2 -> leq (Le e2) (Lcs cls).
  Proof.
    intros c cls t e2 Hwf Hu Hnm Hne Ht He2.
    pose proof (trie_lang lit_den cls_den cls t Hwf Hu Ht Hnm) as Htl.
    pose proof (trie_lang dT dT cls t Hwf Hu Ht Hnm) as HtlT.
    pose proof (trie_wf cls t Hwf Ht) as Hwt. pose proof (trie_acyclic cls t Ht) as Hac.
    destruct (efl lit_den cls_den c t e2 Hwt Hac He2) as [Hl|[-> Hemp]].
    - intros u. pose proof (Hl u). pose proof (Htl u). tauto.
    - (* e2 = ELit [] and the trie accepts nothing: impossible *)
      exfalso.
      destruct (efl dT dT c t (ELit []) Hwt Hac He2) as [HlT|[_ HempT]].
      + apply (Hemp []). apply Htl. apply Lcs_nil. apply (nil_in_cls cls Hwf).
        apply HtlT. apply HlT. reflexivity.
      + destruct cls as [|cl cls]; [congruence|].
        inversion Hwf as [|? ? Hcl _]; subst.
        destruct (L_cluster_inh_T cl Hcl) as [u0 Hu0].
        apply (HempT u0). apply HtlT. exists cl. split; [left; reflexivity|exact Hu0].
  Qed.

  (* ---------- minimised automaton ---------- *)
  Lemma min_branch : forall c cls t d1 e1,
    Forall wf_cluster cls -> Forall (Forall uniform_g) cls -> no_merge cls = true ->
    cls <> [] ->
    trie_of cls = Some t -> minimize t = Some d1 -> expr_from c d1 = Some e1 ->
    (forall u, u <> [] -> (Le e1 u <-> Lcs cls u)) /\ (Le e1 [] -> Lcs cls []).
  Proof.
    intros c cls t d1 e1 Hwf Hu Hnm Hcne Ht Hm He1.
    destruct (minimize_trie_lang lit_den cls_den cls t Hwf Hu Hnm Ht)
      as (d' & p & Hp & Hrg & Hm' & Hwd & Hac & Hne & Heps & _).
    assert (d' = d1) by congruence. subst d'.
    destruct (minimize_trie_lang dT dT cls t Hwf Hu Hnm Ht)
      as (d' & p' & _ & _ & HmT & _ & _ & HneT & HepsT & _).
    assert (d' = d1) by congruence. subst d'.
    pose proof (trie_lang lit_den cls_den cls t Hwf Hu Ht Hnm) as Htl.
    pose proof (trie_lang dT dT cls t Hwf Hu Ht Hnm) as HtlT.
    destruct (efl lit_den cls_den c d1 e1 Hwd Hac He1) as [Hl|[-> Hemp]].
    - split.
      + intros u Hu1. pose proof (Hl u). pose proof (Hne u Hu1). pose proof (Htl u). tauto.
      + intros H. apply Htl. apply Heps. apply Hl. exact H.
    - (* fallback ELit []: d1 has no accepting path; then the empty cluster is in cls *)
      split.
      + intros u Hu1. split; intros H.
        * simpl in H. contradiction.
        * exfalso. apply (Hemp u). apply Hne; [exact Hu1|]. apply Htl. exact H.
      + intros _. apply Lcs_nil. apply (nil_in_cls cls Hwf).
        destruct (efl dT dT c d1 (ELit []) Hwd Hac He1) as [HlT|[_ HempT]].
        * apply HtlT. apply HepsT. apply HlT. reflexivity.
        * destruct cls as [|cl cls]; [congruence|].
          inversion Hwf as [|? ? Hcl _]; subst.
          destruct (L_cluster_inh_T cl Hcl) as [u0 Hu0].
          assert (HL : L_clusters dT dT (cl :: cls) u0)
            by (exists cl; split; [left; reflexivity|exact Hu0]).
          destruct u0 as [|x u0]; [exact HL|].
          exfalso. apply (HempT (x :: u0)). apply HneT; [discriminate|].
          apply HtlT. exact HL.
  Qed.

  (* ---------- all clusters empty: everything computes ---------- *)
  Lemma all_nil_final : forall c cls sc e,
    Forall (fun cl : cluster => cl = []) cls -> cls <> [] ->
    Pipeline.final_expr c cls sc = Some e -> Le e [].
  Proof.
    intros c cls sc e Hall Hne H.
    destruct (final_expr_inv c cls sc e H) as (t & d1 & e1 & Ht & Hm & He1 & Hcase).
    rewrite (trie_all_nil cls Hall Hne) in Ht. inversion Ht; subst t.
    rewrite minimize_T0 in Hm. inversion Hm; subst d1.
    rewrite expr_from_D0 in He1. inversion He1; subst e1.
    destruct Hcase as [->|[(_ & _ & He2)|(_ & _ & ->)]].
    - reflexivity.
    - rewrite expr_from_T0 in He2. inversion He2; subst e. reflexivity.
    - apply fallback_lang. destruct cls as [|cl cls]; [congruence|].
      inversion Hall; subst. exists []. split; [left; reflexivity|reflexivity].
  Qed.

  (* ---------- the statement at cluster level ---------- *)
  Theorem clusters_construction : forall c cls sc e,
    Forall wf_cluster cls -> Forall (Forall uniform_g) cls -> no_merge cls = true ->
    cls <> [] ->
    Pipeline.final_expr c cls sc = Some e ->
    (forall u, u <> [] -> (Le e u <-> Lcs cls u))
    /\ (Le e [] -> Lcs cls [])
    /\ ((forall cl, In cl cls -> cl = []) -> Le e []).
  Proof.
    intros c cls sc e Hwf Hu Hnm Hne H.
    split; [|split].
    - destruct (final_expr_inv c cls sc e H) as (t & d1 & e1 & Ht & Hm & He1 & Hcase).
      destruct Hcase as [->|[(_ & _ & He2)|(_ & _ & ->)]].
      + apply (min_branch c cls t d1 e1 Hwf Hu Hnm Hne Ht Hm He1).
      + intros u _. apply (trie_branch c cls t e Hwf Hu Hnm Hne Ht He2).
      + intros u _. apply fallback_lang.
    - destruct (final_expr_inv c cls sc e H) as (t & d1 & e1 & Ht & Hm & He1 & Hcase).
      destruct Hcase as [->|[(_ & _ & He2)|(_ & _ & ->)]].
      + apply (min_branch c cls t d1 e1 Hwf Hu Hnm Hne Ht Hm He1).
      + apply (trie_branch c cls t e Hwf Hu Hnm Hne Ht He2).
      + apply fallback_lang.
    - intros Hall. apply (all_nil_final c cls sc e); [|exact Hne|exact H].
      apply Forall_forall. exact Hall.
  Qed.

  (* exactness of the two branches that do not use the minimised automaton *)
  Theorem clusters_construction_exact : forall c cls sc e,
    Forall wf_cluster cls -> Forall (Forall uniform_g) cls -> no_merge cls = true ->
    cls <> [] ->
    f_no_start c && f_no_end c = true -> sc = SCPass2 \/ sc = SCFail ->
    Pipeline.final_expr c cls sc = Some e -> leq (Le e) (Lcs cls).
  Proof.
    intros c cls sc e Hwf Hu Hnm Hne Hfl Hsc H.
    unfold Pipeline.final_expr, dfa_from in H.
    destruct (trie_of cls) as [t|] eqn:Ht; [|discriminate].
    destruct (minimize t) as [d1|]; [|discriminate].
    destruct (expr_from c d1) as [e1|]; [|discriminate].
    rewrite Hfl in H.
    destruct (expr_from c t) as [e2|] eqn:He2; [|destruct Hsc; subst sc; discriminate].
    destruct Hsc; subst sc; inversion H; subst e.
    - apply (trie_branch c cls t e2 Hwf Hu Hnm Hne Ht He2).
    - apply fallback_lang.
  Qed.

  Lemma clusters_nonempty : forall c db ws, ws <> [] ->
    grapheme_clusters c db (normalise c db ws) <> [].
  Proof.
    intros c db ws Hws E. apply (normalise_nonempty c db ws Hws).
    apply length_zero_iff_nil. rewrite <- (grapheme_clusters_length c db (normalise c db ws)).
    rewrite E. reflexivity.
  Qed.

  (* ---------- THE pipeline-level theorem: no hypothesis on the denotations ---------- *)
  Theorem construction_lang : forall c db sc ws e,
    ws <> [] ->
    oracle_ok db (normalise c db ws) ->
    no_merge (grapheme_clusters c db (normalise c db ws)) = true ->
    Pipeline.final_expr c (grapheme_clusters c db (normalise c db ws)) sc = Some e ->
    (forall u, (u <> [] \/ K4 (normalise c db ws) = false) -> (Le e u <-> SpecL c db ws u))
    /\ (Le e [] -> SpecL c db ws []).
  Proof.
    intros c db sc ws e Hws Hok Hnm H.
    pose proof (spec_clusters c db ws Hok) as Hspec.
    pose proof (clusters_nonempty c db ws Hws) as Hne.
    set (tcs := normalise c db ws) in *.
    set (cls := grapheme_clusters c db tcs) in *.
    assert (Hwf : Forall wf_cluster cls) by apply grapheme_clusters_wf.
    assert (Hun : Forall (Forall uniform_g) cls) by apply grapheme_clusters_uniform.
    destruct (clusters_construction c cls sc e Hwf Hun Hnm Hne H) as (A & B & C).
    split.
    - intros u [Hu|HK].
      + pose proof (A u Hu). pose proof (Hspec u). tauto.
      + destruct u as [|x u].
        * split; [intros HL; apply Hspec; apply B; exact HL|].
          intros HS. apply C. intros cl Hcl.
          assert (Hin0 : In [] tcs).
          { apply spec_tcs in HS. destruct HS as (t & Ht & HSt).
            apply Spec_str_nil_inv in HSt. subst t. exact Ht. }
          unfold cls in Hcl. rewrite grapheme_clusters_map in Hcl.
          apply in_map_iff in Hcl. destruct Hcl as (s & <- & Hs).
          rewrite (K4_false_inv tcs HK Hin0 s Hs). apply cluster_grk_nil.
        * assert (Hu : x :: u <> []) by discriminate.
          pose proof (A _ Hu). pose proof (Hspec (x :: u)). tauto.
    - intros HL. apply Hspec. apply B. exact HL.
  Qed.

  (* SCPass2 / SCFail with both anchors disabled: exact, no K4 exception *)
  Theorem construction_lang_exact : forall c db sc ws e,
    ws <> [] ->
    oracle_ok db (normalise c db ws) ->
    no_merge (grapheme_clusters c db (normalise c db ws)) = true ->
    f_no_start c && f_no_end c = true -> sc = SCPass2 \/ sc = SCFail ->
    Pipeline.final_expr c (grapheme_clusters c db (normalise c db ws)) sc = Some e ->
    leq (Le e) (SpecL c db ws).
  Proof.
    intros c db sc ws e Hws Hok Hnm Hfl Hsc H u.
    pose proof (spec_clusters c db ws Hok u) as Hspec.
    pose proof (clusters_construction_exact c _ sc e
                  (grapheme_clusters_wf c db _) (grapheme_clusters_uniform c db _)
                  Hnm (clusters_nonempty c db ws Hws) Hfl Hsc H u) as A.
    tauto.
  Qed.

  (* SCFail needs no no_merge hypothesis *)
  Theorem construction_lang_fail : forall c db ws e,
    oracle_ok db (normalise c db ws) ->
    f_no_start c && f_no_end c = true ->
    Pipeline.final_expr c (grapheme_clusters c db (normalise c db ws)) SCFail = Some e ->
    leq (Le e) (SpecL c db ws).
  Proof.
    intros c db ws e Hok Hfl H u.
    destruct (final_expr_inv c _ SCFail e H) as (t & d1 & e1 & Ht & Hm & He1 & Hcase).
    pose proof (spec_clusters c db ws Hok u) as Hspec.
    unfold Pipeline.final_expr, dfa_from in H. rewrite Ht, Hm, He1, Hfl in H.
    destruct (expr_from c t); [|discriminate]. inversion H; subst e.
    pose proof (fallback_lang (grapheme_clusters c db (normalise c db ws)) u). tauto.
  Qed.

  (* ====================================================================== *)
  (* 4. trie stage only: soundness even with merging                         *)
  (* ====================================================================== *)
  Theorem construction_sound_trie : forall c db ws t,
    oracle_ok db (normalise c db ws) ->
    trie_of (grapheme_clusters c db (normalise c db ws)) = Some t ->
    lsub (SpecL c db ws) (Ld t).
  Proof.
    intros c db ws t Hok Ht u Hu.
    apply (trie_lang_sup lit_den cls_den _ t (grapheme_clusters_wf c db _)
             (grapheme_clusters_uniform c db _) Ht).
    apply (spec_clusters c db ws Hok). exact Hu.
  Qed.
End C.

(* ---------- no_merge is automatic without repetition conversion ---------- *)
Corollary construction_exact_default : forall c db ws, f_rep c = false ->
  no_merge (grapheme_clusters c db (normalise c db ws)) = true.
Proof.
  intros c db ws Hr. apply no_merge_unit. apply grapheme_clusters_unit. exact Hr.
Qed.

Corollary construction_lang_default : forall (lit_den cls_den : cp -> cp -> Prop) c db sc ws e,
  f_rep c = false -> ws <> [] -> oracle_ok db (normalise c db ws) ->
  Pipeline.final_expr c (grapheme_clusters c db (normalise c db ws)) sc = Some e ->
  (forall u, (u <> [] \/ K4 (normalise c db ws) = false) ->
     (L_expr lit_den cls_den e u <-> Spec lit_den cls_den c db ws u))
  /\ (L_expr lit_den cls_den e [] -> Spec lit_den cls_den c db ws []).
Proof.
  intros lit_den cls_den c db sc ws e Hr Hws Hok H.
  apply (construction_lang lit_den cls_den c db sc ws e Hws Hok
           (construction_exact_default c db ws Hr) H).
Qed.

Corollary construction_wf : forall c db sc ws e,
  Pipeline.final_expr c (grapheme_clusters c db (normalise c db ws)) sc = Some e -> wf_expr e.
Proof.
  intros c db sc ws e H. eapply final_expr_wf; [|exact H]. apply grapheme_clusters_wf.
Qed.

(* ====================================================================== *)
(* sanity: the exceptions in the statements are real                        *)
(* ====================================================================== *)
Module Sanity.
  Definition fe (c : cfg) (ws : list str) (sc : selfcheck) : option expr :=
    Pipeline.final_expr c (grapheme_clusters c [] (normalise c [] ws)) sc.
  Definition a_ : grapheme := G [[97%N]] [] 1 1.

  (* K4: test cases "" and "a": the empty string is in the specification but is lost *)
  Example k4_cases : K4 (normalise default_cfg [] [[]; [97%N]]) = true.
  Proof. vm_compute. reflexivity. Qed.
  Example k4_expr : fe default_cfg [[]; [97%N]] SCPass1 = Some (ELit [a_]).
  Proof. vm_compute. reflexivity. Qed.
  Example k4_spec : Spec eq eq default_cfg [] [[]; [97%N]] [].
  Proof. exists []. split; [left; reflexivity|reflexivity]. Qed.
  Example k4_lost : ~ L_expr eq eq (ELit [a_]) [].
  Proof.
    intros H. apply (L_cluster_nil_inv eq eq) in H; [discriminate|].
    constructor; [|constructor]. simpl. repeat split; try discriminate; try lia.
    constructor; [discriminate|constructor].
  Qed.
  (* ... while the unminimised candidate (SCPass2, anchors disabled) keeps it *)
  Definition c_noanchor : cfg :=
    mkCfg 1 1 false false false false false false false false false false false false true true false.
  Example k4_pass2 : fe c_noanchor [[]; [97%N]] SCPass2 = Some (ERep (ELit [a_]) QQuestion).
  Proof. vm_compute. reflexivity. Qed.

  (* all test cases empty: one state, no accepting path after recreate_graph, the fallback
     literal is the right answer *)
  Example only_empty : fe default_cfg [[]] SCPass1 = Some (ELit []).
  Proof. vm_compute. reflexivity. Qed.

  (* no_merge is a real restriction once repetitions are converted: "aaa" "aaaa" *)
  Definition c_rep : cfg :=
    mkCfg 1 1 false false false false false false true false false false false false false false false.
  Example merge_happens :
    no_merge (grapheme_clusters c_rep [] (normalise c_rep [] [[97;97;97]%N; [97;97;97;97]%N])) = false.
  Proof. vm_compute. reflexivity. Qed.
End Sanity.

(* NOT PROVED / remarks
   - Nothing is assumed about lit_den / cls_den: the inhabitation hypotheses suggested for
     excluding expr_from's fallback `ELit []` are not needed.  The fallback case of
     ElimLang.expr_from_lang_gen is analysed by instantiating the same (denotation-independent)
     computation at the total denotation dT, which shows that the empty cluster is in cls.
     Section Inh (den_str_inh ... Spec_inh) is kept as a library: it is used at dT only.
   - construction_lang needs no_merge (known finding K1: a widened edge {m,n} is shared by
     clusters that only had {m} or {n}); construction_sound_trie is the statement that survives
     merging, and it is a statement about the trie stage ONLY (nothing is claimed there about
     the minimised automaton or the expression).
   - Under K4 (the empty test case next to a non-empty one) only the empty string is lost and
     only on the branches that use the minimised automaton (examples k4_cases .. k4_pass2 in module Sanity);
     construction_lang_exact covers SCPass2 / SCFail with both anchors disabled. *)

Check final_expr_total.
Check build_total.
Check fallback_lang.
Check clusters_construction.
Check construction_lang.
Check construction_lang_exact.
Check construction_lang_fail.
Check construction_exact_default.
Check construction_lang_default.
Check construction_wf.
Check construction_sound_trie.
Print Assumptions construction_lang.
Print Assumptions final_expr_total.
Print Assumptions build_total.
Print Assumptions construction_wf.
Print Assumptions construction_sound_trie.
