(* The SAFETY half of Hopcroft's algorithm as implemented (Dfa.v: partition_of): the
   implementation never separates two bisimilar states.  Together with stability
   (HopcroftInv.partition_stable) this makes minimality of `minimize` on tries a theorem
   (trie_minimize_minimal) instead of a per-case check (QuotientLang.min_checkb).

   Invariant of hopcroft_loop, for a fixed bisimulation R: every block of P and every set in
   the worklist W is R-CLOSED,
       rcl B  :=  forall s t < n, R s t -> (In s B <-> In t B).
   (The iff form makes the notion symmetric although R need not be; `bisim` is two-sided.)
     - the two initial blocks are R-closed because bisimilar states agree on finality;
     - if the splitter A is R-closed then X = parent_states A c is R-closed: an edge of s into
       A is matched by an edge of t with an lbl_eqb-equal label (hence the same label_match
       verdict against c) into an R-related state, which is in A;
     - intersections and differences of R-closed sets are R-closed;
     - the final filter of empty blocks only removes blocks.

   Contents
     1. partition_coarsest_gen / partition_coarsest
     2. stable_of_partition (HopcroftInv.stable_partition -> QuotientLang.stable),
        trie_like_deterministic
     3. trie_trim: tries of a non-empty cluster list built without widening are trim
     4. trie_root_final: the root of a trie is final only if the empty cluster was inserted
     5. trie_minimize_minimal and its corollaries *)
From Grex Require Import Base.Str Model.Config Model.Cluster Model.Dfa Model.Expr.
From Grex Require Import Proofs.Lang Proofs.TrieLang Proofs.HopSets Proofs.HopcroftInv
  Proofs.TrieLikeOf Proofs.QuotientLang.

(* ====================================================================== *)
(* 1. the partition is coarser than every bisimulation                     *)
(* ====================================================================== *)

(* label_match only looks at chars / min / max of its first argument *)
Lemma label_match_lbl : forall g h c,
  lbl_eqb g h = true -> label_match g c = label_match h c.
Proof.
  intros g h c H. apply lbl_eqb_eq in H. destruct H as (H1 & H2 & H3).
  unfold label_match. rewrite H1, H2, H3. reflexivity.
Qed.

Section Coarsest.
  Variable d : dfa.
  (* the only two facts about d that the safety half needs *)
  Hypothesis Hin_unique : forall e1 e2, In e1 (d_edges d) -> In e2 (d_edges d) ->
                            e_dst e1 = e_dst e2 -> e1 = e2.
  Hypothesis Hrange : forall e, In e (d_edges d) -> e_dst e < d_n d.
  Variable R : nat -> nat -> Prop.
  Hypothesis HB : bisim d R.

  Local Notation es := (d_edges d).
  Local Notation n := (d_n d).

  Definition rcl (B : block) : Prop :=
    forall s t, s < n -> t < n -> R s t -> (In s B <-> In t B).

  Lemma rcl_inter : forall y x, rcl y -> rcl x -> rcl (set_inter y x).
  Proof.
    intros y x Hy Hx s t Hs Ht HR. rewrite !set_inter_In.
    pose proof (Hy s t Hs Ht HR). pose proof (Hx s t Hs Ht HR). tauto.
  Qed.

  Lemma rcl_diff : forall y x, rcl y -> rcl x -> rcl (set_diff y x).
  Proof.
    intros y x Hy Hx s t Hs Ht HR. rewrite !set_diff_In.
    pose proof (Hy s t Hs Ht HR). pose proof (Hx s t Hs Ht HR). tauto.
  Qed.

  Lemma rcl_parent : forall a c, rcl a -> rcl (parent_states es a c).
  Proof.
    intros a c Ha s t Hs Ht HR.
    destruct (HB s t HR) as (_ & HE1 & HE2).
    split; intros H; apply parent_states_In in H; auto; apply parent_states_In; auto;
      destruct H as (s' & Hs' & (e & E1 & E2 & E3 & E4)).
    - destruct (HE1 e E1 E2) as (e' & F1 & F2 & F3 & F4).
      exists (e_dst e'). split.
      + apply (Ha (e_dst e) (e_dst e')); auto. rewrite E3. exact Hs'.
      + exists e'. split; [exact F1|]. split; [exact F2|]. split; [reflexivity|].
        rewrite <- (label_match_lbl _ _ c F3). exact E4.
    - destruct (HE2 e E1 E2) as (e' & F1 & F2 & F3 & F4).
      exists (e_dst e'). split.
      + apply (Ha (e_dst e') (e_dst e)); auto. rewrite E3. exact Hs'.
      + exists e'. split; [exact F1|]. split; [exact F2|]. split; [reflexivity|].
        rewrite (label_match_lbl _ _ c F3). exact E4.
  Qed.

  Definition CInv (p w : list block) : Prop :=
    (forall B, In B p -> rcl B) /\ (forall B, In B w -> rcl B).

  Lemma CInv_refine : forall a c p w, rcl a -> CInv p w ->
    CInv (sp_fst (parent_states es a c) p)
         (update_worklist w (sp_snd (parent_states es a c) p)).
  Proof.
    intros a c p w Ha [HP HW]. pose proof (rcl_parent a c Ha) as HX. split.
    - intros B HBin. apply sp_in in HBin. destruct HBin as [[H _]|(Y & H1 & _ & [H|H])].
      + apply HP. exact H.
      + subst B. apply rcl_inter; auto.
      + subst B. apply rcl_diff; auto.
    - intros B HBin. apply uw_from in HBin. destruct HBin as [H|([[Y i] dd] & H1 & H2)].
      + apply HW. exact H.
      + apply sp_rs_in in H1. destruct H1 as (H3 & _ & -> & ->).
        unfold snd3, thd3 in H2; simpl in H2. destruct H2 as [H2|H2]; subst B.
        * apply rcl_inter; auto.
        * apply rcl_diff; auto.
  Qed.

  Lemma CInv_fold : forall a alpha pw, rcl a -> CInv (fst pw) (snd pw) ->
    CInv (fst (fold_left (refine_by es a) alpha pw))
         (snd (fold_left (refine_by es a) alpha pw)).
  Proof.
    intros a. induction alpha as [|c alpha IH]; intros [p w] Ha H; [exact H|].
    cbn [fold_left]. apply IH; [exact Ha|]. rewrite refine_by_eq. simpl.
    apply CInv_refine; [exact Ha|exact H].
  Qed.

  Lemma bisim_fin_eq : forall s t, R s t ->
    set_mem s (d_finals d) = set_mem t (d_finals d).
  Proof.
    intros s t HR. destruct (HB s t HR) as (HF & _ & _).
    destruct (set_mem s (d_finals d)) eqn:A; destruct (set_mem t (d_finals d)) eqn:B; auto.
    - apply set_mem_In in A. apply HF in A. apply set_mem_In in A. congruence.
    - apply set_mem_In in B. apply HF in B. apply set_mem_In in B. congruence.
  Qed.

  Lemma CInv_init : CInv (initial_partition d) (initial_partition d).
  Proof.
    assert (K : forall B, In B (initial_partition d) -> rcl B).
    { intros B [H|[H|[]]]; subst B; intros s t Hs Ht HR; rewrite !filter_In, !in_seq;
        rewrite (bisim_fin_eq s t HR); split; intros [_ H]; (split; [lia|exact H]). }
    split; exact K.
  Qed.

  Lemma coarsest_loop : exists p',
    hopcroft_loop (2 * n + 4) es (d_alphabet d) (initial_partition d) (initial_partition d)
      = Some p' /\ CInv p' [].
  Proof.
    apply (loop_rule es (d_alphabet d) CInv).
    - intros a p w [H1 H2]. apply (CInv_fold a (d_alphabet d) (p, w)).
      + apply H2. left. reflexivity.
      + split; [exact H1|]. intros B HBin. apply H2. right. exact HBin.
    - exact CInv_init.
    - apply Phi_init.
  Qed.
End Coarsest.

(* the general form: the automaton need not be a trie; what is needed is that every state has
   at most one incoming edge (otherwise get_parent_states, which only looks at the first
   matching incoming edge of a state, misses parents) and that edges stay inside the state set *)
Theorem partition_coarsest_gen : forall d p,
  (forall e1 e2, In e1 (d_edges d) -> In e2 (d_edges d) -> e_dst e1 = e_dst e2 -> e1 = e2) ->
  (forall e, In e (d_edges d) -> e_dst e < d_n d) ->
  partition_of d = Some p -> coarsest d p.
Proof.
  intros d p Hu Hr H R HB s t Hs Ht HR.
  assert (Hn : 1 <= d_n d) by lia.
  destruct (partition_is_partition_any d p Hn H) as (_ & Hd & Hc).
  apply partition_of_inv in H. destruct H as (p' & Hl & ->).
  destruct (coarsest_loop d Hu Hr R HB) as (p'' & Hl' & [HP _]).
  rewrite Hl in Hl'. inversion Hl'; subst p''.
  destruct (Hc s Hs) as (B & HBp & HsB).
  assert (HclB : rcl d R B) by (apply HP; apply filter_In in HBp; tauto).
  apply (block_index_same _ B s t 0 Hd HBp HsB).
  apply (HclB s t Hs Ht HR). exact HsB.
Qed.

Theorem partition_coarsest : forall d p,
  trie_like d -> partition_of d = Some p -> coarsest d p.
Proof.
  intros d p TL. apply partition_coarsest_gen.
  - apply (tl_in_unique d TL).
  - intros e He. apply (tl_range d TL e He).
Qed.

(* ====================================================================== *)
(* 2. bridging HopcroftInv and QuotientLang                                 *)
(* ====================================================================== *)

Lemma block_index_in : forall p B s k, In B p -> In s B ->
  exists i, block_index s p k = Some i.
Proof.
  induction p as [|y p IH]; intros B s k HB Hs; [destruct HB|].
  simpl. destruct (set_mem s y) eqn:E; [eauto|].
  destruct HB as [->|HB]; [apply set_mem_nIn in E; tauto|eapply IH; eauto].
Qed.

Lemma block_index_nth : forall p i b s k,
  pdisj p -> nth_error p i = Some b -> In s b -> block_index s p k = Some (k + i).
Proof.
  induction p as [|y p IH]; intros i b s k Hd Hn Hs; [destruct i; discriminate|].
  destruct i as [|i]; simpl in *.
  - inversion Hn; subst y. rewrite (proj2 (set_mem_In s b) Hs). f_equal. lia.
  - destruct Hd as [Hd1 Hd2]. destruct (set_mem s y) eqn:E.
    + apply set_mem_In in E. exfalso.
      apply (Hd1 s E b); [eapply nth_error_In; eauto|exact Hs].
    + rewrite (IH i b s (S k) Hd2 Hn Hs). f_equal. lia.
Qed.

(* what Hopcroft returns on a trie_like automaton satisfies the specification of the
   translation-validation checker stableb (QuotientLang.stable), so the checker is no longer
   needed on that class *)
Theorem stable_of_partition : forall d p,
  trie_like d -> partition_of d = Some p -> stable d p.
Proof.
  intros d p TL H.
  destruct (partition_is_partition d p TL H) as (HBk & Hd & Hc).
  destruct (partition_stable d p TL H) as [SF SE].
  assert (Hcov : forall s, s < d_n d -> exists i, block_index s p 0 = Some i).
  { intros s Hs. destruct (Hc s Hs) as (B & H1 & H2). eapply block_index_in; eauto. }
  constructor.
  - exact Hcov.
  - intros i b Hn. assert (Hbp : In b p) by (eapply nth_error_In; eauto).
    destruct (HBk b Hbp) as (Hne & _ & Hr & _). split; [exact Hne|].
    intros s Hs. split; [apply Hr; exact Hs|].
    apply (block_index_nth p i b s 0 Hd Hn Hs).
  - intros i s t Hs Ht.
    destruct (block_index_some0 _ _ _ Hs) as (b & Hn & Hsb).
    destruct (block_index_some0 _ _ _ Ht) as (b' & Hn' & Htb).
    assert (b' = b) by congruence. subst b'.
    assert (Hbp : In b p) by (eapply nth_error_In; eauto).
    split.
    + rewrite <- !set_mem_In. rewrite (SF b s t Hbp Hsb Htb). tauto.
    + intros e He Hsrc.
      destruct (SE b s t e Hbp Hsb Htb He Hsrc) as (e' & E1 & E2 & E3 & E4 & E5 & _ & E7).
      destruct (Hcov (e_dst e) (proj2 (tl_range d TL e He))) as [j Hj].
      exists e', j. split; [exact E1|]. split; [exact E2|]. split.
      * apply lbl_eqb_intro; auto.
      * split; [exact Hj|]. rewrite E7. exact Hj.
Qed.

Lemma trie_like_deterministic : forall d, trie_like d -> deterministic d.
Proof.
  intros d TL e1 e2 H1 H2 Hs Hl. apply lbl_eqb_eq in Hl. destruct Hl as (L1 & L2 & L3).
  assert (e1 = e2) by (apply (tl_det d TL); auto; apply label_match_of_eq; auto).
  congruence.
Qed.

(* ====================================================================== *)
(* 3. tries built without widening are trim                                *)
(* ====================================================================== *)

Lemma lpath_incl : forall es es' s w t,
  incl es es' -> lpath es s w t -> lpath es' s w t.
Proof.
  intros es es' s w t Hi H. induction H as [s|s m t g h w Hin Hl Hp IH].
  - constructor.
  - eapply lpath_step; [apply Hi; exact Hin|exact Hl|exact IH].
Qed.

(* inserting a path (no widening): old edges are kept; the start state and every state
   created on the way reach the end of the path *)
Lemma path_live : forall gs st cur st' last,
  insert_path st cur gs = Some (st', last) -> t_merged st' = false ->
  incl (t_edges st) (t_edges st')
  /\ forall s, s = cur \/ (t_n st <= s /\ s < t_n st') ->
       exists w, lpath (t_edges st') s w last.
Proof.
  induction gs as [|g gs IH]; intros st cur st' last H Hm; simpl in H.
  - inversion H; subst. split; [apply incl_refl|].
    intros s [->|Hs]; [exists []; constructor|lia].
  - destruct (step_insert st cur g) as [[st1 nx]|] eqn:S; [|discriminate].
    pose proof (path_merged_mono _ _ _ _ _ H Hm) as Hm1.
    destruct (IH _ _ _ _ H Hm) as (I1 & I2).
    destruct (step_cases _ _ _ _ _ S) as
      [(-> & cg & Hin & _)|[(cg & _ & _ & _ & ->)|(-> & ->)]].
    + split; [exact I1|]. intros s [->|Hs].
      * destruct (I2 nx (or_introl eq_refl)) as [w Hw]. exists (cg :: w).
        eapply lpath_step; [apply I1; exact Hin|apply lbl_eqb_refl|exact Hw].
      * apply I2. right. exact Hs.
    + simpl in Hm1. discriminate.
    + simpl in I1, I2. split.
      * intros e He. apply I1. apply in_or_app. left. exact He.
      * intros s [->|Hs].
        -- destruct (I2 (t_n st) (or_introl eq_refl)) as [w Hw]. exists (g :: w).
           eapply lpath_step; [|apply lbl_eqb_refl|exact Hw].
           apply I1. apply in_or_app. right. left. reflexivity.
        -- destruct (Nat.eq_dec s (t_n st)) as [->|Hne].
           ++ apply I2. left. reflexivity.
           ++ apply I2. right. lia.
Qed.

Definition live (a : trie_acc) (s : nat) : Prop :=
  exists w t, In t (ta_finals a) /\ lpath (t_edges (ta_st a)) s w t.

(* after an insertion EVERY state is live, provided all non-root states were *)
Lemma snoc_live : forall a0 cl st' last al,
  (forall s, 0 < s -> s < t_n (ta_st a0) -> live a0 s) ->
  insert_path (ta_st a0) 0 cl = Some (st', last) -> t_merged st' = false ->
  forall s, s < t_n st' -> live (mkTA st' (set_add last (ta_finals a0)) al) s.
Proof.
  intros a0 cl st' last al HL P Hm s Hs.
  destruct (path_live _ _ _ _ _ P Hm) as (I1 & I2). unfold live; simpl.
  destruct (Nat.eq_dec s 0) as [->|Hs0].
  - destruct (I2 0 (or_introl eq_refl)) as [w Hw]. exists w, last.
    split; [apply set_add_in; left; reflexivity|exact Hw].
  - destruct (Nat.lt_ge_cases s (t_n (ta_st a0))) as [Hlt|Hge].
    + destruct (HL s) as (w & t & Ht & Hp); [lia|exact Hlt|].
      exists w, t. split; [apply set_add_in; right; exact Ht|].
      eapply lpath_incl; eauto.
    + destruct (I2 s) as [w Hw]; [right; lia|]. exists w, last.
      split; [apply set_add_in; left; reflexivity|exact Hw].
Qed.

Lemma acc_live_weak : forall cls a,
  trie_acc_of cls = Some a -> t_merged (ta_st a) = false ->
  forall s, 0 < s -> s < t_n (ta_st a) -> live a s.
Proof.
  induction cls as [|cl cls IH] using rev_ind; intros a H Hm s H0 Hs.
  - unfold trie_acc_of in H; simpl in H. inversion H; subst. simpl in Hs. lia.
  - apply trie_acc_snoc_inv in H. destruct H as (a0 & st' & last & Ha0 & P & ->).
    simpl in Hm, Hs. pose proof (path_merged_mono _ _ _ _ _ P Hm) as Hm0.
    eapply snoc_live; eauto.
Qed.

Lemma acc_live : forall cls a, cls <> [] ->
  trie_acc_of cls = Some a -> t_merged (ta_st a) = false ->
  forall s, s < t_n (ta_st a) -> live a s.
Proof.
  intros cls a Hne H Hm s Hs.
  destruct (exists_last Hne) as (cls0 & cl & ->).
  apply trie_acc_snoc_inv in H. destruct H as (a0 & st' & last & Ha0 & P & ->).
  simpl in Hm, Hs. pose proof (path_merged_mono _ _ _ _ _ P Hm) as Hm0.
  eapply snoc_live; eauto. intros s' H0 Hs'. eapply acc_live_weak; eauto.
Qed.

(* cls <> [] is necessary: the trie of [] has the single state 0 and no final state *)
Theorem trie_trim : forall cls d,
  cls <> [] -> no_merge cls = true -> trie_of cls = Some d -> trim d.
Proof.
  intros cls d Hne Hnm H. apply trie_of_inv in H. destruct H as (a & Ha & ->).
  unfold no_merge in Hnm. rewrite Ha in Hnm. apply negb_true_iff in Hnm.
  intros s Hs. simpl in Hs.
  destruct (acc_live cls a Hne Ha Hnm s Hs) as (w & t & Ht & Hp).
  exists w, t. simpl. auto.
Qed.

(* ====================================================================== *)
(* 4. the root of a trie is final only if the empty cluster was inserted   *)
(* ====================================================================== *)

Lemma path_last_ge : forall gs st cur st' last,
  st_ok st -> cur < t_n st -> insert_path st cur gs = Some (st', last) ->
  cur <= last /\ (gs <> [] -> cur < last).
Proof.
  induction gs as [|g gs IH]; intros st cur st' last Hok Hc H; simpl in H.
  - inversion H; subst. split; [lia|congruence].
  - destruct (step_insert st cur g) as [[st1 nx]|] eqn:S; [|discriminate].
    destruct (step_ok _ _ _ _ _ Hok Hc S) as (Hok1 & Hnx & _).
    destruct (IH _ _ _ _ Hok1 Hnx H) as [Hle _].
    assert (Hlt : cur < nx).
    { destruct Hok as [Hn He].
      destruct (step_cases _ _ _ _ _ S) as
        [(_ & cg & Hin & _)|[(cg & F & _)|(-> & _)]].
      - apply He in Hin. lia.
      - apply find_edge_some3 in F. destruct F as (Hin & _ & _). apply He in Hin. lia.
      - exact Hc. }
    split; [lia|]. intros _. lia.
Qed.

Lemma acc_root_final : forall cls a,
  trie_acc_of cls = Some a -> In 0 (ta_finals a) -> In [] cls.
Proof.
  induction cls as [|cl cls IH] using rev_ind; intros a H H0.
  - unfold trie_acc_of in H; simpl in H. inversion H; subst. destruct H0.
  - apply trie_acc_snoc_inv in H. destruct H as (a0 & st' & last & Ha0 & P & ->).
    simpl in H0. apply set_add_in in H0. apply in_or_app. destruct H0 as [H0|H0].
    + right. left.
      destruct (acc_ok_inv _ _ Ha0) as [Hok _].
      assert (H0n : 0 < t_n (ta_st a0)) by (destruct Hok; lia).
      destruct (path_last_ge _ _ _ _ _ Hok H0n P) as [_ Hlt].
      destruct cl as [|g cl]; [reflexivity|].
      assert (0 < last) by (apply Hlt; discriminate). lia.
    + left. eapply IH; eauto.
Qed.

Theorem trie_root_final : forall cls d,
  trie_of cls = Some d -> In (d_init d) (d_finals d) -> In [] cls.
Proof.
  intros cls d H Hf. apply trie_of_inv in H. destruct H as (a & Ha & ->).
  simpl in Hf. eapply acc_root_final; eauto.
Qed.

(* ====================================================================== *)
(* 5. end to end: minimize on a trie returns a deterministic automaton      *)
(*    whose states have pairwise different right (label) languages          *)
(* ====================================================================== *)

Lemma minimize_inv : forall d d', minimize d = Some d' ->
  exists p, partition_of d = Some p /\ recreate_graph d p = Some d'.
Proof.
  intros d d' H. unfold minimize in H.
  destruct (partition_of d) as [p|]; [|discriminate]. eauto.
Qed.

(* determinism of the result needs no K4-freeness *)
Theorem trie_minimize_deterministic : forall cls t d',
  Forall (Forall uniform_g) cls -> no_merge cls = true ->
  trie_of cls = Some t -> minimize t = Some d' -> deterministic d'.
Proof.
  intros cls t d' Hu Hnm Ht Hmin.
  destruct (minimize_inv _ _ Hmin) as (p & Hp & Hrg).
  pose proof (trie_like_of_trie cls t Ht Hnm Hu) as TL.
  apply (quotient_deterministic t d' p (stable_of_partition t p TL Hp) Hrg).
  apply trie_like_deterministic. exact TL.
Qed.

(* K4-freeness is stated as eps_safe for the partition that minimize computes: the root is
   not final, or some non-root state shares the root's block *)
Theorem trie_minimize_minimal : forall cls t d',
  Forall wf_cluster cls -> Forall (Forall uniform_g) cls -> cls <> [] ->
  no_merge cls = true -> trie_of cls = Some t -> minimize t = Some d' ->
  (forall p, partition_of t = Some p -> eps_safe t p) ->
  deterministic d'
  /\ (forall i j, i < d_n d' -> j < d_n d' ->
        (forall w, Lw_from d' i w <-> Lw_from d' j w) -> i = j).
Proof.
  intros cls t d' Hw Hu Hne Hnm Ht Hmin Heps.
  split; [eapply trie_minimize_deterministic; eauto|].
  destruct (minimize_inv _ _ Hmin) as (p & Hp & Hrg).
  pose proof (trie_like_of_trie cls t Ht Hnm Hu) as TL.
  pose proof (trie_wf cls t Hw Ht) as Hwf.
  pose proof (trie_shape cls t Ht) as Hsh.
  apply (quotient_deterministic_minimal_st t d' p Hwf (tree_shape_no_parallel t Hsh)
           (stable_of_partition t p TL Hp) Hrg
           (tree_fin_safe t p Hwf Hsh (Heps p Hp))
           (trie_like_deterministic t TL)
           (trie_trim cls t Hne Hnm Ht)
           (partition_coarsest t p TL Hp)).
Qed.

(* the root is not final *)
Corollary trie_minimize_minimal_root_not_final : forall cls t d',
  Forall wf_cluster cls -> Forall (Forall uniform_g) cls -> cls <> [] ->
  no_merge cls = true -> trie_of cls = Some t -> minimize t = Some d' ->
  ~ In (d_init t) (d_finals t) ->
  deterministic d'
  /\ (forall i j, i < d_n d' -> j < d_n d' ->
        (forall w, Lw_from d' i w <-> Lw_from d' j w) -> i = j).
Proof.
  intros cls t d' Hw Hu Hne Hnm Ht Hmin Hnf.
  eapply trie_minimize_minimal; eauto. intros p _. left. exact Hnf.
Qed.

(* in terms of the input: the empty cluster is not among the test cases *)
Corollary trie_minimize_minimal_no_empty : forall cls t d',
  Forall wf_cluster cls -> Forall (Forall uniform_g) cls -> cls <> [] ->
  no_merge cls = true -> trie_of cls = Some t -> minimize t = Some d' ->
  ~ In [] cls ->
  deterministic d'
  /\ (forall i j, i < d_n d' -> j < d_n d' ->
        (forall w, Lw_from d' i w <-> Lw_from d' j w) -> i = j).
Proof.
  intros cls t d' Hw Hu Hne Hnm Ht Hmin Hnil.
  eapply trie_minimize_minimal_root_not_final; eauto.
  intros Hf. apply Hnil. eapply trie_root_final; eauto.
Qed.

(* the general (non-trie) form of the minimality theorem, for the record *)
Theorem minimize_minimal_trie_like : forall d d' p,
  trie_like d -> wf_dfa d -> trim d -> partition_of d = Some p ->
  recreate_graph d p = Some d' -> fin_safe d p ->
  deterministic d'
  /\ (forall i j, i < d_n d' -> j < d_n d' ->
        (forall w, Lw_from d' i w <-> Lw_from d' j w) -> i = j).
Proof.
  intros d d' p TL Hwf Htrim Hp Hrg Hfs.
  pose proof (stable_of_partition d p TL Hp) as Hst.
  pose proof (trie_like_deterministic d TL) as Hdet.
  assert (Hnp : no_parallel d).
  { intros e1 e2 H1 H2 _ E. apply (tl_in_unique d TL); auto. }
  split; [apply (quotient_deterministic d d' p Hst Hrg Hdet)|].
  apply (quotient_deterministic_minimal_st d d' p Hwf Hnp Hst Hrg Hfs Hdet Htrim
           (partition_coarsest d p TL Hp)).
Qed.

(* NOT PROVED:
   - trie_minimize_minimal WITHOUT the K4-freeness premise.  The premise (eps_safe for the
     computed partition) is what the proof route needs (fin_safe, hence quotient_trim and the
     pull-back of bisimulations through recreate_graph).  It is sufficient; it does not seem
     to be necessary for the minimality conclusion: on the K4 witnesses ["", "a"] and
     ["", "a", "ba"] the result of minimize (which has lost the finality of the root, so its
     language is wrong) still passes min_checkb.  An unconditional proof would need a separate
     argument for the root's block (acyclicity: a non-root state cannot have the root's
     language minus the empty word).
   Everything else asked for is proved; no statement had to be weakened.  partition_coarsest
   holds under weaker premises than trie_like (partition_coarsest_gen). *)

Check partition_coarsest_gen.
Check partition_coarsest.
Check stable_of_partition.
Check trie_like_deterministic.
Check trie_trim.
Check trie_root_final.
Check trie_minimize_deterministic.
Check trie_minimize_minimal.
Check trie_minimize_minimal_root_not_final.
Check trie_minimize_minimal_no_empty.
Check minimize_minimal_trie_like.
Print Assumptions partition_coarsest_gen.
Print Assumptions partition_coarsest.
Print Assumptions stable_of_partition.
Print Assumptions trie_trim.
Print Assumptions trie_root_final.
Print Assumptions trie_minimize_deterministic.
Print Assumptions trie_minimize_minimal.
Print Assumptions trie_minimize_minimal_root_not_final.
Print Assumptions trie_minimize_minimal_no_empty.
Print Assumptions minimize_minimal_trie_like.
