(* Printing theorem, part 8: the shape of the expected AST (capture flags of the groups, bounds of
   the repetitions, no anchors inside). *)
From Grex Require Import Base.Str Model.Config Model.Cluster Model.Dfa Model.Expr Model.Print.
From Grex Require Import Engine.Syntax Engine.Parse.
From Grex Require Import Proofs.Lang Proofs.ExprLang.
From Grex Require Import Proofs.PrintParseDefs.

(* bounds of a repetition: * or ? (uncounted), or the {min,max} of a grapheme with
   (min,max) <> (1,1) *)
Definition rep_shape (lo : N) (hi : option N) : Prop :=
  (lo = 0%N /\ hi = None) \/ (lo = 0%N /\ hi = Some 1%N) \/
  (exists b, hi = Some b /\ (1 <= lo)%N /\ (lo <= b)%N /\ ~ (lo = 1%N /\ b = 1%N)).

Fixpoint shape_ok (cap : bool) (r : rast) : Prop :=
  match r with
  | RGroup cp r' => cp = cap /\ shape_ok cap r'
  | RRep r' lo hi => shape_ok cap r' /\ rep_shape lo hi
  | RCat a b | RAlt a b => shape_ok cap a /\ shape_ok cap b
  | RStart | REnd => False
  | _ => True
  end.

Section Shape.
  Variable c : cfg.
  Notation ok := (shape_ok (f_cap c)).
  Definition oks (l : list rast) : Prop := Forall ok l.

  Lemma ok_fold_cat : forall l a, ok a -> oks l -> ok (fold_left (fun acc b => RCat acc b) l a).
  Proof.
    induction l as [|b l IH]; intros a Ha Hl; [exact Ha|].
    inversion Hl; subst. cbn [fold_left]. apply IH; [split; assumption|assumption].
  Qed.
  Lemma ok_rcat : forall l, oks l -> ok (rcat l).
  Proof.
    intros l Hl. unfold rcat, cat_of. rewrite rev_involutive.
    destruct l as [|a l]; [exact I|]. inversion Hl; subst. apply ok_fold_cat; assumption.
  Qed.
  Lemma ok_fold_alt : forall l a, ok a -> oks l -> ok (fold_left (fun acc b => RAlt acc b) l a).
  Proof.
    induction l as [|b l IH]; intros a Ha Hl; [exact Ha|].
    inversion Hl; subst. cbn [fold_left]. apply IH; [split; assumption|assumption].
  Qed.
  Lemma ok_ralt : forall l, oks l -> ok (ralt l).
  Proof.
    intros l Hl. unfold ralt, alt_of. rewrite rev_involutive.
    destruct l as [|a l]; [exact I|]. inversion Hl; subst. apply ok_fold_alt; assumption.
  Qed.
  Lemma ok_hd : forall l, oks l -> ok (hd REmpty l).
  Proof. intros l H. destruct H; [exact I|assumption]. Qed.

  Lemma str_atoms_ok : forall n t, length t <= n -> oks (str_atoms t).
  Proof.
    induction n as [|n IH]; intros t Hlen.
    - destruct t; [constructor|cbn [length] in Hlen; lia].
    - destruct t as [|x t]; [constructor|]. destruct t as [|l t]; [repeat constructor|].
      cbn [length] in Hlen. cbn [str_atoms].
      destruct (N.eqb x c_backslash && is_class_letter l).
      + constructor; [exact I|apply IH; lia].
      + constructor; [exact I|apply (IH (l :: t)); cbn [length]; lia].
  Qed.

  Lemma chars_ok : forall cs, oks (flat_map str_atoms cs).
  Proof.
    induction cs as [|t cs IH]; [constructor|]. cbn [flat_map]. apply Forall_app.
    split; [apply (str_atoms_ok (length t)); lia|exact IH].
  Qed.

  Lemma g_atoms_ok : forall g nested, wf_pg nested g -> oks (g_atoms c g).
  Proof.
    induction g as [cs rs a b IH] using grapheme_ind'. intros nested Hwf.
    apply wf_pg_unfold in Hwf.
    destruct Hwf as (_ & _ & Ha & Hab & _ & _ & Hwfrs).
    assert (Hin : oks (g_inner c cs rs)).
    { unfold g_inner. destruct rs as [|r rs]; [apply chars_ok|].
      induction IH as [|r' rs' Hr _ IHrs]; [constructor|].
      inversion Hwfrs; subst. cbn [flat_map]. apply Forall_app.
      split; [eapply Hr; eassumption|apply IHrs; assumption]. }
    rewrite g_atoms_unfold. destruct (N.eqb a 1 && N.eqb b 1) eqn:E11; [exact Hin|].
    constructor; [|constructor]. cbn [shape_ok]. split.
    - destruct (g_single c cs rs); [apply ok_hd; exact Hin|].
      cbn [shape_ok]. split; [reflexivity|apply ok_rcat; exact Hin].
    - right. right. exists b. repeat split; try assumption.
      intros [-> ->]. discriminate E11.
  Qed.

  Lemma e_both_ok : forall gap e, wf_print_gen gap e -> oks (e_atoms c e) /\ oks (e_alts c e).
  Proof.
    intros gap.
    assert (Hna : forall e, (forall os, e <> EAlt os) -> oks (e_atoms c e) ->
                            oks (e_atoms c e) /\ oks (e_alts c e)).
    { intros e Hn H. split; [exact H|]. rewrite (e_alts_nonalt c e Hn).
      constructor; [apply ok_rcat; exact H|constructor]. }
    assert (Hgrp : forall x, oks (e_alts c x) -> ok (RGroup (f_cap c) (ralt (e_alts c x)))).
    { intros x H. cbn [shape_ok]. split; [reflexivity|apply ok_ralt; exact H]. }
    induction e as [os IH|cs|a b IHa IHb|cl|x q IHx] using expr_ind'; intros Hwf.
    - apply wf_print_alt in Hwf. destruct Hwf as [_ Hwf].
      assert (Hal : oks (flat_map (e_alts c) os)).
      { induction IH as [|o os Ho _ IHos]; [constructor|].
        inversion Hwf; subst. cbn [flat_map]. apply Forall_app.
        split; [apply Ho; assumption|apply IHos; assumption]. }
      rewrite e_atoms_alt, e_alts_alt. split; [|exact Hal].
      constructor; [|constructor]. cbn [shape_ok]. split; [reflexivity|apply ok_ralt; exact Hal].
    - apply Hna; [intros os; discriminate|]. repeat constructor.
    - cbn [wf_print_gen] in Hwf. destruct Hwf as [Hwa Hwb].
      destruct (IHa Hwa) as [A1 A2]. destruct (IHb Hwb) as [B1 B2].
      apply Hna; [intros os; discriminate|]. rewrite e_atoms_cat. apply Forall_app.
      unfold e_part. split.
      + destruct (needs_group c 2 a); [constructor; [apply Hgrp; exact A2|constructor]|exact A1].
      + destruct (needs_group c 2 b); [constructor; [apply Hgrp; exact B2|constructor]|exact B1].
    - cbn [wf_print_gen] in Hwf. apply Hna; [intros os; discriminate|].
      rewrite e_atoms_lit. induction Hwf as [|g cl Hg _ IH]; [constructor|].
      cbn [flat_map]. apply Forall_app. split; [eapply g_atoms_ok; exact Hg|exact IH].
    - cbn [wf_print_gen] in Hwf. destruct Hwf as [Hwx _]. destruct (IHx Hwx) as [X1 X2].
      apply Hna; [intros os; discriminate|]. rewrite e_atoms_rep.
      constructor; [|constructor]. cbn [shape_ok]. split.
      + destruct (needs_group c 3 x); [apply Hgrp; exact X2|apply ok_hd; exact X1].
      + destruct q; [left|right; left]; split; reflexivity.
  Qed.

  (* the top-level atom list *)
  Lemma top_atoms_shape : forall gap e, wf_print_gen gap e ->
    (f_no_start c = false -> exists l, top_atoms c e = RStart :: l) /\
    (f_no_start c = true -> forall l, top_atoms c e <> RStart :: l) /\
    (f_no_end c = false -> exists l, top_atoms c e = l ++ [REnd]) /\
    (f_no_end c = true -> forall l, top_atoms c e <> l ++ [REnd]) /\
    oks (e_atoms c e).
  Proof.
    intros gap e Hwf. destruct (e_both_ok gap e Hwf) as [Hok _].
    assert (Hns : forall a, In a (e_atoms c e) -> a <> RStart /\ a <> REnd).
    { intros a Ha. unfold oks in Hok. rewrite Forall_forall in Hok. specialize (Hok a Ha).
      split; intros ->; exact Hok. }
    unfold top_atoms. repeat split.
    - intros ->. eexists. reflexivity.
    - intros -> l. cbn [app]. destruct (e_atoms c e) as [|a atoms] eqn:E.
      + cbn [app]. destruct (f_no_end c); discriminate.
      + cbn [app]. intros X. inversion X; subst. destruct (Hns RStart ltac:(left; reflexivity)) as [H _]. apply H. reflexivity.
    - intros ->. exists ((if f_no_start c then [] else [RStart]) ++ e_atoms c e).
      rewrite app_assoc. reflexivity.
    - intros -> l X. rewrite app_nil_r in X. apply (f_equal (@rev _)) in X.
      rewrite !rev_app_distr in X. cbn [rev app] in X.
      destruct (rev (e_atoms c e)) as [|a ra] eqn:E.
      + cbn [app] in X. destruct (f_no_start c); cbn [rev app] in X; discriminate.
      + cbn [app] in X. inversion X; subst.
        assert (Hin : In REnd (e_atoms c e)) by (apply in_rev; rewrite E; left; reflexivity).
        destruct (Hns REnd Hin) as [_ H]. apply H. reflexivity.
    - exact Hok.
  Qed.
End Shape.
