(* The property-level specification language of a build: u is accepted iff for some test case
   t (lower-cased under (?i) when the code point count is preserved), |u| = |t| and every u_i is
   accepted by the token that t_i is documented to become (first match of \d \w \s \D \W \S
   among the enabled options, else the literal code point). *)
From Grex Require Import Base.Str Model.Config Model.Cluster Model.Dfa Model.Expr Model.Pipeline Proofs.Lang.
From GrexGen Require Import GrexTables.

Section Spec.
  Variable lit_den : cp -> cp -> Prop.
  Variable cls_den : cp -> cp -> Prop.

  (* concatenated denotations of a list of token strings *)
  Fixpoint den_tokens (toks : list str) : lang :=
    match toks with
    | [] => leps
    | t :: toks' => lcat (den_str lit_den cls_den t) (den_tokens toks')
    end.

  Definition Spec_str (c : cfg) (s : str) : lang :=
    den_tokens (map (class_token c class_chain) s).

  Definition Spec_cases (c : cfg) (ws : list str) : lang :=
    fun u => exists t, In t ws /\ Spec_str c t u.

  (* the specification of build c db ws *)
  Definition Spec (c : cfg) (db : odb) (ws : list str) : lang :=
    Spec_cases c (if f_ci c then map (lower' db) ws else ws).
End Spec.

(* what the per-case oracle data must satisfy (checked by the harness on every case) *)
Definition oracle_ok (db : odb) (ws : list str) : Prop :=
  forall s, In s ws -> length (cat_of db s) = length s.

(* known finding K4: the empty string next to a non-empty test case *)
Definition K4 (ws : list str) : bool :=
  existsb (fun s => match s with [] => true | _ => false end) ws
  && existsb (fun s => match s with [] => false | _ => true end) ws.
