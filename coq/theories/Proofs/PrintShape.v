(* Shape of the printed regular expression.
   e. with f_esc the output is pure ASCII (given that character classes only contain ASCII,
      an invariant that Expression::from maintains by construction)
   f. flags and anchors of the non-verbose output
   g. the first line of the verbose output *)
From Grex Require Import Base.Str Model.Config Model.Cluster Model.Dfa Model.Expr Model.Print.
From Grex Require Import Proofs.EscapeProps.
From GrexGen Require Import SrcConsts.

Local Open Scope N_scope.
Arguments N.add : simpl never.
Arguments N.sub : simpl never.
Arguments N.mul : simpl never.
Arguments N.div : simpl never.
Arguments N.modulo : simpl never.
Arguments N.leb : simpl never.
Arguments N.ltb : simpl never.
Arguments N.eqb : simpl never.

(* ------------------------------------------------------------------ *)
(** * Induction principles for the nested types *)

Section GInd.
  Variable P : grapheme -> Prop.
  Hypothesis HG : forall cs rs a b, Forall P rs -> P (G cs rs a b).
  Fixpoint grapheme_ind' (g : grapheme) : P g :=
    match g with
    | G cs rs a b =>
        HG cs rs a b
          ((fix go (l : list grapheme) : Forall P l :=
              match l with
              | [] => Forall_nil P
              | r :: l' => Forall_cons r (grapheme_ind' r) (go l')
              end) rs)
    end.
End GInd.

Section EInd.
  Variable P : expr -> Prop.
  Hypothesis HAlt : forall os, Forall P os -> P (EAlt os).
  Hypothesis HCC : forall cs, P (ECC cs).
  Hypothesis HCat : forall a b, P a -> P b -> P (ECat a b).
  Hypothesis HLit : forall cl, P (ELit cl).
  Hypothesis HRep : forall e q, P e -> P (ERep e q).
  Fixpoint expr_ind' (e : expr) : P e :=
    match e with
    | EAlt os =>
        HAlt os
          ((fix go (l : list expr) : Forall P l :=
              match l with
              | [] => Forall_nil P
              | o :: l' => Forall_cons o (expr_ind' o) (go l')
              end) os)
    | ECC cs => HCC cs
    | ECat a b => HCat a b (expr_ind' a) (expr_ind' b)
    | ELit cl => HLit cl
    | ERep x q => HRep x q (expr_ind' x)
    end.
End EInd.

(* ------------------------------------------------------------------ *)
(** * e. ASCII output *)

Definition asciib (s : str) : bool := forallb (fun x => x <? 128) s.

Lemma asciib_ok s : asciib s = true -> ascii s.
Proof.
  unfold asciib, ascii. rewrite forallb_forall, Forall_forall.
  intros H x Hx. apply N.ltb_lt. apply H. exact Hx.
Qed.

Lemma ascii_nil : ascii [].
Proof. constructor. Qed.

Lemma ascii_cons x s : x < 128 -> ascii s -> ascii (x :: s).
Proof. intros; constructor; assumption. Qed.

Lemma ascii_concat l : Forall ascii l -> ascii (concat l).
Proof.
  induction 1; cbn [concat]; [apply ascii_nil|apply ascii_app; assumption].
Qed.

Lemma ascii_flat_map {A} (f : A -> str) l : Forall (fun x => ascii (f x)) l -> ascii (flat_map f l).
Proof.
  induction 1; cbn [flat_map]; [apply ascii_nil|apply ascii_app; assumption].
Qed.

Lemma ascii_flat_map_cp (f : cp -> str) s :
  (forall x, x < 128 -> ascii (f x)) -> ascii s -> ascii (flat_map f s).
Proof.
  intros Hf Hs. apply ascii_flat_map. eapply Forall_impl; [|exact Hs]. exact Hf.
Qed.

Lemma ascii_replace_cp x r s : ascii r -> ascii s -> ascii (replace_cp x r s).
Proof.
  intros Hr Hs. unfold replace_cp. apply ascii_flat_map_cp; [|exact Hs].
  intros y Hy. destruct (y =? x); [exact Hr|]. apply ascii_cons; [exact Hy|apply ascii_nil].
Qed.

Lemma ascii_rev s : ascii s -> ascii (rev s).
Proof. apply Forall_rev. Qed.

Lemma ascii_join sep l : ascii sep -> Forall ascii l -> ascii (join sep l).
Proof.
  intros Hsep H. induction H as [|x l Hx Hl IH]; [apply ascii_nil|].
  cbn [join]. destruct l as [|y l']; [exact Hx|].
  apply ascii_app; [exact Hx|]. apply ascii_app; [exact Hsep|exact IH].
Qed.

(* the generated constants *)
Ltac const_ascii := apply asciib_ok; vm_compute; reflexivity.

Lemma ascii_nl : ascii nl. Proof. const_ascii. Qed.

(* \uXXXX: backslash, u, zero padding, lower-case hex digits *)
Lemma esc_u4_ascii c : ascii (esc_u4 c).
Proof.
  unfold esc_u4. cbv zeta. apply ascii_app; [|apply ascii_app].
  - unfold c_backslash. apply ascii_cons; [reflexivity|]. apply ascii_cons; [reflexivity|].
    apply ascii_nil.
  - apply Forall_forall. intros y Hy. apply repeat_spec in Hy. subst y. reflexivity.
  - apply hex_of_N_ascii.
Qed.

Create HintDb asc.
#[local] Hint Resolve ascii_nil ascii_app ascii_cons ascii_nl dec_of_N_ascii hex_of_N_ascii
  esc_unicode_ascii esc_u4_ascii : asc.
#[local] Hint Extern 1 (_ < 128) => reflexivity : asc.
#[local] Hint Extern 1 (ascii sgr_CapturedLeftParenthesis) => const_ascii : asc.
#[local] Hint Extern 1 (ascii sgr_Caret) => const_ascii : asc.
#[local] Hint Extern 1 (ascii sgr_CharClass) => const_ascii : asc.
#[local] Hint Extern 1 (ascii sgr_DollarSign) => const_ascii : asc.
#[local] Hint Extern 1 (ascii sgr_Hyphen) => const_ascii : asc.
#[local] Hint Extern 1 (ascii sgr_IgnoreCaseFlag) => const_ascii : asc.
#[local] Hint Extern 1 (ascii sgr_IgnoreCaseAndVerboseModeFlag) => const_ascii : asc.
#[local] Hint Extern 1 (ascii sgr_LeftBracket) => const_ascii : asc.
#[local] Hint Extern 1 (ascii sgr_Pipe) => const_ascii : asc.
#[local] Hint Extern 1 (ascii sgr_Quantifier) => const_ascii : asc.
#[local] Hint Extern 1 (ascii sgr_Repetition) => const_ascii : asc.
#[local] Hint Extern 1 (ascii sgr_RepetitionRange) => const_ascii : asc.
#[local] Hint Extern 1 (ascii sgr_RightBracket) => const_ascii : asc.
#[local] Hint Extern 1 (ascii sgr_RightParenthesis) => const_ascii : asc.
#[local] Hint Extern 1 (ascii sgr_UncapturedLeftParenthesis) => const_ascii : asc.
#[local] Hint Extern 1 (ascii sgr_VerboseModeFlag) => const_ascii : asc.
#[local] Hint Extern 1 (ascii txt_CapturedLeftParenthesis) => const_ascii : asc.
#[local] Hint Extern 1 (ascii txt_Hyphen) => const_ascii : asc.
#[local] Hint Extern 1 (ascii txt_IgnoreCaseFlag) => const_ascii : asc.
#[local] Hint Extern 1 (ascii txt_LeftBracket) => const_ascii : asc.
#[local] Hint Extern 1 (ascii txt_Pipe) => const_ascii : asc.
#[local] Hint Extern 1 (ascii txt_RightBracket) => const_ascii : asc.
#[local] Hint Extern 1 (ascii txt_RightParenthesis) => const_ascii : asc.
#[local] Hint Extern 1 (ascii txt_UncapturedLeftParenthesis) => const_ascii : asc.

Lemma ascii_col c code v : ascii code -> ascii v -> ascii (col c code v).
Proof.
  intros Hc Hv. unfold col, ESC. destruct (f_colour c); auto 10 with asc.
Qed.
#[local] Hint Resolve ascii_col : asc.

Lemma ascii_c_group c e b : ascii e -> ascii (c_group c e b).
Proof.
  intros He. unfold c_group.
  destruct (f_cap c), (f_verbose c), b; auto 15 with asc.
Qed.

Lemma ascii_quant_str q : ascii (quant_str q).
Proof. destruct q; cbn; auto with asc. Qed.

Lemma ascii_c_quant c q : ascii (c_quant c q).
Proof.
  unfold c_quant. pose proof (ascii_quant_str q). destruct (f_verbose c); auto 10 with asc.
Qed.

Lemma ascii_c_rep c n v : ascii (c_rep c n v).
Proof.
  unfold c_rep. destruct (n =? 0), v; auto 15 with asc.
Qed.

Lemma ascii_c_range c a b v : ascii (c_range c a b v).
Proof.
  unfold c_range. destruct ((a =? 0) && (b =? 0)), v; auto 20 with asc.
Qed.
#[local] Hint Resolve ascii_c_group ascii_c_quant ascii_c_rep ascii_c_range : asc.

(* graphemes whose printed characters are ASCII: g_str only looks at the characters of a
   grapheme without repetitions *)
Fixpoint g_ok (g : grapheme) : Prop :=
  match g with
  | G cs rs _ _ =>
      (rs = [] -> Forall ascii cs) /\
      (fix go (l : list grapheme) : Prop :=
         match l with [] => True | r :: l' => g_ok r /\ go l' end) rs
  end.

Lemma g_ok_eq cs rs a b :
  g_ok (G cs rs a b) <-> ((rs = [] -> Forall ascii cs) /\ Forall g_ok rs).
Proof.
  cbn [g_ok]. apply and_iff_compat_l.
  induction rs as [|r rs IH].
  - split; intros; [constructor|exact I].
  - rewrite IH. split.
    + intros [H1 H2]. constructor; assumption.
    + intros H. inversion H; subst. split; assumption.
Qed.

Lemma escape_g_eq c cs rs a b :
  escape_g c (G cs rs a b) =
  G (let cs := map escape_symbols_str cs in
     if f_esc c then map (fun s => flat_map (escape_cp (f_sur c)) s) cs else cs)
    (map (escape_g c) rs) a b.
Proof.
  reflexivity.
Qed.

Lemma g_str_eq c cs rs a b :
  g_str c (G cs rs a b) =
  let single := Nat.eqb (g_char_count false (G cs rs a b)) 1
                || match cs with [s] => is_single_escape_sequence s | _ => false end in
  let is_range := N.ltb a b in
  let is_rep := N.ltb 1 a in
  let v := match rs with [] => concat cs | _ => flat_map (g_str c) rs end in
  let v := if f_colour c && is_char_class v then col c sgr_CharClass v else v in
  if negb is_range && is_rep && single then v ++ c_rep c a false
  else if negb is_range && is_rep then c_group c v false ++ c_rep c a (f_verbose c)
  else if is_range && single then v ++ c_range c a b false
  else if is_range then c_group c v false ++ c_range c a b (f_verbose c)
  else v.
Proof.
  reflexivity.
Qed.

Lemma ascii_escape_cp_str sur s : ascii (flat_map (escape_cp sur) s).
Proof.
  apply ascii_flat_map. apply Forall_forall. intros x _. apply escape_cp_ascii.
Qed.

Lemma escape_g_ok c g : f_esc c = true -> g_ok (escape_g c g).
Proof.
  intros He. induction g as [cs rs a b IH] using grapheme_ind'.
  rewrite escape_g_eq, g_ok_eq. cbv zeta. rewrite He. split.
  - intros _. apply Forall_forall. intros s Hs. apply in_map_iff in Hs.
    destruct Hs as (s0 & <- & _). apply ascii_escape_cp_str.
  - apply Forall_forall. intros r Hr. apply in_map_iff in Hr.
    destruct Hr as (r0 & <- & Hr0). rewrite Forall_forall in IH. apply IH. exact Hr0.
Qed.

Lemma ascii_g_str c g : g_ok g -> ascii (g_str c g).
Proof.
  induction g as [cs rs a b IH] using grapheme_ind'. intros Hok.
  apply g_ok_eq in Hok. destruct Hok as [Hcs Hrs].
  rewrite g_str_eq. cbv zeta.
  set (v0 := match rs with [] => concat cs | _ :: _ => flat_map (g_str c) rs end).
  assert (Hv0 : ascii v0).
  { unfold v0. destruct rs as [|r rs'].
    - apply ascii_concat. apply Hcs. reflexivity.
    - apply ascii_flat_map. rewrite Forall_forall in *. intros x Hx.
      apply IH; [exact Hx|]. apply Hrs. exact Hx. }
  set (v := if f_colour c && is_char_class v0 then col c sgr_CharClass v0 else v0).
  assert (Hv : ascii v).
  { unfold v. destruct (f_colour c && is_char_class v0); auto with asc. }
  repeat match goal with |- ascii (if ?b then _ else _) => destruct b end; auto with asc.
Qed.

Lemma ascii_lit_str c cl : f_esc c = true -> ascii (lit_str c cl).
Proof.
  intros He. unfold lit_str. apply ascii_flat_map. apply Forall_forall. intros g _.
  destruct g as [cs rs a b]. destruct rs as [|r rs].
  - apply ascii_g_str. apply escape_g_ok. exact He.
  - apply ascii_g_str. apply g_ok_eq. split; [discriminate|].
    apply Forall_forall. intros x Hx. apply in_map_iff in Hx.
    destruct Hx as (x0 & <- & _). apply escape_g_ok. exact He.
Qed.

(* character classes *)
Lemma ascii_cc_escape x : x < 128 -> ascii (cc_escape x).
Proof.
  intros H. unfold cc_escape, c_backslash.
  repeat match goal with |- ascii (if ?b then _ else _) => destruct b end; auto with asc.
Qed.

Lemma cc_subsets_cons2 c1 p1 c2 p2 rest subset first :
  cc_subsets ((c1, p1) :: (c2, p2) :: rest) subset first =
  if N.eqb p2 (p1 + 1)
  then cc_subsets ((c2, p2) :: rest) ((if first then [c1] else subset) ++ [c2]) false
  else (if first then [c1] else subset) :: cc_subsets ((c2, p2) :: rest) [c2] false.
Proof. reflexivity. Qed.

Lemma cc_subsets_ascii : forall items subset first,
  Forall (fun it : str * N => ascii (fst it)) items -> Forall ascii subset ->
  Forall (Forall ascii) (cc_subsets items subset first).
Proof.
  induction items as [|[c1 p1] items IH]; intros subset first Hit Hsub.
  - cbn. constructor; [exact Hsub|constructor].
  - destruct items as [|[c2 p2] rest].
    + cbn. constructor; [exact Hsub|constructor].
    + rewrite cc_subsets_cons2.
      inversion Hit as [|? ? H1 Hit']; subst. inversion Hit' as [|? ? H2 _]; subst.
      cbn [fst] in H1, H2.
      assert (Hsub' : Forall ascii (if first then [c1] else subset)).
      { destruct first; [constructor; [exact H1|constructor]|exact Hsub]. }
      destruct (p2 =? p1 + 1).
      * apply IH; [exact Hit'|]. apply Forall_app. split; [exact Hsub'|].
        constructor; [exact H2|constructor].
      * constructor; [exact Hsub'|]. apply IH; [exact Hit'|].
        constructor; [exact H2|constructor].
Qed.

Lemma ascii_hd l : Forall ascii l -> ascii (hd [] l).
Proof. intros H. destruct H; [apply ascii_nil|assumption]. Qed.

Lemma ascii_last l : Forall ascii l -> ascii (last l []).
Proof.
  induction 1 as [|x l Hx Hl IH]; [apply ascii_nil|].
  cbn [last]. destruct l; [exact Hx|exact IH].
Qed.

Lemma ascii_cc_str c cs : Forall (fun x => x < 128) cs -> ascii (cc_str c cs).
Proof.
  intros Hcs. unfold cc_str.
  apply ascii_app; [auto with asc|]. apply ascii_app; [|auto with asc].
  apply ascii_concat. apply Forall_flat_map.
  eapply Forall_impl; [|apply cc_subsets_ascii].
  - intros sub Hsub. cbv beta. destruct (Nat.leb (length sub) 2); [exact Hsub|].
    constructor; [|constructor].
    apply ascii_app; [apply ascii_hd; exact Hsub|].
    apply ascii_app; [auto with asc|apply ascii_last; exact Hsub].
  - apply Forall_forall. intros it Hit. apply in_map_iff in Hit.
    destruct Hit as (x & <- & Hx). cbn [fst]. apply ascii_cc_escape.
    rewrite Forall_forall in Hcs. apply Hcs. exact Hx.
  - constructor.
Qed.

(* expressions *)
Fixpoint cc_ascii (e : expr) : Prop :=
  match e with
  | EAlt os => (fix go (l : list expr) : Prop :=
                  match l with [] => True | o :: l' => cc_ascii o /\ go l' end) os
  | ECC cs => Forall (fun x => x < 128) cs
  | ECat a b => cc_ascii a /\ cc_ascii b
  | ELit _ => True
  | ERep x _ => cc_ascii x
  end.

Lemma cc_ascii_alt os : cc_ascii (EAlt os) <-> Forall cc_ascii os.
Proof.
  cbn [cc_ascii]. induction os as [|o os IH].
  - split; intros; [constructor|exact I].
  - rewrite IH. split.
    + intros [H1 H2]. constructor; assumption.
    + intros H. inversion H; subst. split; assumption.
Qed.

Lemma e_str_alt c os :
  e_str c (EAlt os) =
  join (if f_verbose c then nl ++ col c sgr_Pipe txt_Pipe ++ nl else col c sgr_Pipe txt_Pipe)
    (map (fun o => if Nat.ltb (precedence o) 1 && negb (is_single_codepoint c o)
                   then c_group c (e_str c o) true else e_str c o) os).
Proof.
  reflexivity.
Qed.

Lemma ascii_e_str c e : f_esc c = true -> cc_ascii e -> ascii (e_str c e).
Proof.
  intros He. induction e as [os IH|cs|a b IHa IHb|cl|x q IHx] using expr_ind'; intros Hcc.
  - rewrite e_str_alt. apply cc_ascii_alt in Hcc. apply ascii_join.
    + destruct (f_verbose c); auto 10 with asc.
    + apply Forall_forall. intros s Hs. apply in_map_iff in Hs.
      destruct Hs as (o & <- & Ho). rewrite Forall_forall in IH, Hcc.
      specialize (IH o Ho (Hcc o Ho)).
      destruct (Nat.ltb (precedence o) 1 && negb (is_single_codepoint c o)); auto with asc.
  - cbn [e_str]. apply ascii_cc_str. exact Hcc.
  - cbn [e_str]. destruct Hcc as [Ha Hb]. specialize (IHa Ha). specialize (IHb Hb).
    apply ascii_app.
    + destruct (Nat.ltb (precedence a) 2 && negb (is_single_codepoint c a)); auto with asc.
    + destruct (Nat.ltb (precedence b) 2 && negb (is_single_codepoint c b)); auto with asc.
  - cbn [e_str]. apply ascii_lit_str. exact He.
  - cbn [e_str]. cbn [cc_ascii] in Hcc. specialize (IHx Hcc).
    destruct (Nat.ltb (precedence x) 3 && negb (is_single_codepoint c x)); auto with asc.
Qed.

(* lines / indentation *)
Lemma split_nl_ascii : forall s cur, ascii s -> ascii cur -> Forall ascii (split_nl s cur).
Proof.
  induction s as [|x s IH]; intros cur Hs Hcur; cbn [split_nl].
  - constructor; [apply ascii_rev; exact Hcur|constructor].
  - inversion Hs; subst. destruct (x =? c_nl).
    + constructor; [apply ascii_rev; exact Hcur|]. apply IH; [assumption|apply ascii_nil].
    + apply IH; [assumption|]. apply ascii_cons; assumption.
Qed.

Lemma strip_cr_ascii l : ascii l -> ascii (strip_cr l).
Proof.
  intros H. unfold strip_cr. destruct (rev l) as [|x r] eqn:E; [exact H|].
  destruct (x =? c_cr); [|exact H].
  apply ascii_rev in H. rewrite E in H. inversion H; subst. apply ascii_rev. assumption.
Qed.

Lemma lines_ascii s : ascii s -> Forall ascii (lines s).
Proof.
  intros H. unfold lines.
  assert (H1 : Forall ascii (split_nl s [])) by (apply split_nl_ascii; [exact H|apply ascii_nil]).
  apply Forall_rev in H1. destruct (rev (split_nl s [])) as [|last r]; [constructor|].
  inversion H1 as [|x0 l0 Hlast Hr]; subst. apply Forall_app. split.
  - apply Forall_forall. intros l Hl. apply in_map_iff in Hl. destruct Hl as (l0 & <- & Hl0).
    apply strip_cr_ascii. apply Forall_rev in Hr. rewrite Forall_forall in Hr. apply Hr. exact Hl0.
  - destruct last; [constructor|]. constructor; [exact Hlast|constructor].
Qed.

Lemma repeat_str_ascii n s : ascii s -> ascii (repeat_str n s).
Proof. intros H. induction n; cbn [repeat_str]; auto with asc. Qed.

Lemma indent_lines_ascii isd c : forall ls i level,
  Forall ascii ls -> Forall ascii (indent_lines isd c ls i level).
Proof.
  induction ls as [|line ls IH]; intros i level H; cbn [indent_lines]; [constructor|].
  inversion H; subst. destruct line as [|x line']; [apply IH; assumption|].
  constructor; [|apply IH; assumption].
  apply ascii_app; [|assumption]. apply repeat_str_ascii. unfold c_space. auto with asc.
Qed.

Lemma indent_regexp_ascii isd c s : ascii s -> ascii (indent_regexp isd c s).
Proof.
  intros H. unfold indent_regexp. apply ascii_join; [apply ascii_nl|].
  apply indent_lines_ascii. apply lines_ascii. exact H.
Qed.

Theorem regexp_str_ascii isd c e :
  f_esc c = true -> cc_ascii e -> Forall (fun x => x < 128) (regexp_str isd c e).
Proof.
  intros He Hcc. change (ascii (regexp_str isd c e)). unfold regexp_str.
  pose proof (ascii_e_str c e He Hcc) as Hb.
  match goal with |- ascii (if _ then ?v else ?r) =>
    assert (Hr : ascii r); [|set (r0 := r) in *]
  end.
  { unfold c_backslash. apply ascii_replace_cp; [auto with asc|].
    apply ascii_replace_cp; [auto with asc|].
    apply ascii_app; [|apply ascii_app; [|apply ascii_app]].
    - destruct (f_ci c), (f_verbose c); cbn [andb]; auto 15 with asc.
    - destruct (f_no_start c), (f_verbose c); auto 10 with asc.
    - destruct e; auto with asc.
    - destruct (f_no_end c), (f_verbose c); auto 10 with asc. }
  destruct (f_verbose c); [|exact Hr].
  apply indent_regexp_ascii. unfold c_backslash, c_space.
  apply ascii_replace_cp; [auto with asc|].
  apply ascii_flat_map_cp.
  - intros x Hx. destruct (mem_cp x verbose_ws); auto with asc.
  - apply ascii_replace_cp; [auto with asc|exact Hr].
Qed.

(* ------------------------------------------------------------------ *)
(** * e'. cc_ascii is maintained by construction *)

Lemma cc_ascii_remove_substring p n e : cc_ascii e -> cc_ascii (remove_substring p n e).
Proof.
  intros H. destruct e as [os|cs|a b|cl|x q]; try exact H.
  - cbn [remove_substring]. destruct H as [Ha Hb].
    destruct p; [destruct a|destruct b]; cbn [cc_ascii]; try split; auto.
Qed.

Lemma flatten_alt_cc : forall fuel es, Forall cc_ascii es -> Forall cc_ascii (flatten_alt fuel es).
Proof.
  induction fuel as [|f IH]; intros es H; cbn [flatten_alt]; [exact H|].
  apply Forall_flat_map. eapply Forall_impl; [|exact H].
  intros e He. destruct e; try (constructor; [exact He|constructor]).
  apply IH. apply cc_ascii_alt. exact He.
Qed.

Lemma insert_by_Forall {A} (P : A -> Prop) le x l :
  P x -> Forall P l -> Forall P (insert_by le x l).
Proof.
  intros Hx H. induction H as [|y l Hy Hl IH]; cbn [insert_by].
  - constructor; [exact Hx|constructor].
  - destruct (le x y); constructor; auto.
Qed.

Lemma sort_by_Forall {A} (P : A -> Prop) le l : Forall P l -> Forall P (sort_by le l).
Proof.
  intros H. unfold sort_by. induction H; cbn [fold_right]; [constructor|].
  apply insert_by_Forall; assumption.
Qed.

Theorem new_alternation_cc_ascii es : Forall cc_ascii es -> cc_ascii (new_alternation es).
Proof.
  intros H. unfold new_alternation. apply cc_ascii_alt. apply sort_by_Forall.
  apply flatten_alt_cc. exact H.
Qed.

Lemma flat_map_flat_map_concat {A B} (f : A -> list B) l :
  flat_map (fun s => flat_map f s) l = flat_map f (concat l).
Proof.
  induction l as [|s l IH]; [reflexivity|].
  cbn [flat_map concat]. rewrite flat_map_app, IH. reflexivity.
Qed.

Lemma escape_cp_false_len x : 128 <= x -> (2 <= length (escape_cp false x))%nat.
Proof.
  intros H. rewrite escape_cp_unicode by (auto). cbn [app length]. lia.
Qed.

(* with f_esc, is_single_codepoint counts the ESCAPED length: a literal that passes is ASCII *)
Lemma single_codepoint_ascii c e s :
  f_esc c = true -> cc_ascii e -> is_single_codepoint c e = true ->
  extract_character_set e = Some s -> Forall (fun x => x < 128) s.
Proof.
  intros He Hcc Hs Hx. destruct e as [os|cs|a b|cl|x q]; try discriminate.
  - cbn in Hx. inversion Hx; subst. exact Hcc.
  - cbn [is_single_codepoint] in Hs. rewrite He in Hs. apply andb_prop in Hs.
    destruct Hs as [Hcount _]. apply Nat.eqb_eq in Hcount.
    destruct cl as [|g cl']; [discriminate|]. cbn [extract_character_set] in Hx.
    destruct (g_value g) as [|x v] eqn:Ev; [discriminate|]. inversion Hx; subst.
    constructor; [|constructor].
    cbn [cluster_char_count fold_right] in Hcount.
    unfold g_char_count at 1 in Hcount.
    rewrite flat_map_flat_map_concat in Hcount. fold (g_value g) in Hcount.
    rewrite Ev in Hcount. cbn [flat_map] in Hcount. rewrite app_length in Hcount.
    destruct (N.lt_ge_cases x 128) as [Hlt|Hge]; [exact Hlt|].
    pose proof (escape_cp_false_len x Hge). lia.
Qed.

Lemma cset_add_Forall (P : cp -> Prop) x l : P x -> Forall P l -> Forall P (cset_add x l).
Proof.
  intros Hx H. induction H as [|y l Hy Hl IH]; cbn [cset_add].
  - constructor; [exact Hx|constructor].
  - destruct (x <? y); [constructor; [exact Hx|constructor; assumption]|].
    destruct (x =? y); constructor; auto.
Qed.

Lemma cset_union_Forall (P : cp -> Prop) a b : Forall P a -> Forall P b -> Forall P (cset_union a b).
Proof.
  unfold cset_union. intros Ha Hb. revert a Ha.
  induction Hb as [|x b Hx Hb IH]; intros a Ha; cbn [fold_left]; [exact Ha|].
  apply IH. apply cset_add_Forall; assumption.
Qed.

Definition core_tail (c : cfg) (e1 e2 : expr) : option expr :=
  if is_single_codepoint c e1 && is_single_codepoint c e2 then
    match extract_character_set e1, extract_character_set e2 with
    | Some s1, Some s2 => Some (ECC (cset_union s1 s2))
    | _, _ => None
    end
  else Some (new_alternation [e1; e2]).

Lemma core_tail_ok c e1 e2 r :
  f_esc c = true -> cc_ascii e1 -> cc_ascii e2 -> core_tail c e1 e2 = Some r -> cc_ascii r.
Proof.
  intros He H1 H2 H. unfold core_tail in H.
  destruct (is_single_codepoint c e1) eqn:S1; cbn [andb] in H.
  - destruct (is_single_codepoint c e2) eqn:S2.
    + destruct (extract_character_set e1) as [s1|] eqn:X1; [|discriminate].
      destruct (extract_character_set e2) as [s2|] eqn:X2; [|discriminate].
      inversion H; subst. cbn [cc_ascii]. apply cset_union_Forall.
      * apply (single_codepoint_ascii c e1 s1); assumption.
      * apply (single_codepoint_ascii c e2 s2); assumption.
    + inversion H; subst. apply new_alternation_cc_ascii. repeat constructor; assumption.
  - inversion H; subst. apply new_alternation_cc_ascii. repeat constructor; assumption.
Qed.

Lemma union_core_ok c e1 e2 r :
  f_esc c = true -> cc_ascii e1 -> cc_ascii e2 ->
  (if is_empty e1 then Some (ERep e2 QQuestion)
   else if is_empty e2 then Some (ERep e1 QQuestion)
   else match e1 with
        | ERep x QQuestion => Some (ERep (new_alternation [x; e2]) QQuestion)
        | _ =>
            match e2 with
            | ERep y QQuestion => Some (ERep (new_alternation [e1; y]) QQuestion)
            | _ =>
                if is_single_codepoint c e1 && is_single_codepoint c e2 then
                  match extract_character_set e1, extract_character_set e2 with
                  | Some s1, Some s2 => Some (ECC (cset_union s1 s2))
                  | _, _ => None
                  end
                else Some (new_alternation [e1; e2])
            end
        end) = Some r -> cc_ascii r.
Proof.
  intros He H1 H2 H.
  destruct (is_empty e1); [inversion H; subst; exact H2|].
  destruct (is_empty e2); [inversion H; subst; exact H1|].
  assert (Hna : forall x y, cc_ascii x -> cc_ascii y -> cc_ascii (new_alternation [x; y])).
  { intros. apply new_alternation_cc_ascii. repeat constructor; assumption. }
  destruct e1 as [os1|cs1|a1 b1|cl1|x1 [|]];
    try (destruct e2 as [os2|cs2|a2 b2|cl2|x2 [|]];
         try (eapply core_tail_ok; [exact He|exact H1|exact H2|exact H]);
         inversion H; subst; cbn [cc_ascii]; apply Hna; assumption).
Qed.

Theorem union2_cc_ascii c a b r :
  f_esc c = true -> cc_ascii a -> cc_ascii b -> union2 c a b = Some r -> cc_ascii r.
Proof.
  intros He Ha Hb H. unfold union2 in H.
  destruct (expr_eqb a b); [inversion H; subst; exact Ha|].
  cbv zeta in H.
  set (cp_ := find_common true a b) in *.
  set (e1 := match cp_ with [] => a | _ :: _ => remove_substring true (length cp_) a end) in *.
  set (e2 := match cp_ with [] => b | _ :: _ => remove_substring true (length cp_) b end) in *.
  set (cs_ := find_common false e1 e2) in *.
  set (e1' := match cs_ with [] => e1 | _ :: _ => remove_substring false (length cs_) e1 end) in *.
  set (e2' := match cs_ with [] => e2 | _ :: _ => remove_substring false (length cs_) e2 end) in *.
  assert (H1 : cc_ascii e1) by (unfold e1; destruct cp_; auto using cc_ascii_remove_substring).
  assert (H2 : cc_ascii e2) by (unfold e2; destruct cp_; auto using cc_ascii_remove_substring).
  assert (H1' : cc_ascii e1') by (unfold e1'; destruct cs_; auto using cc_ascii_remove_substring).
  assert (H2' : cc_ascii e2') by (unfold e2'; destruct cs_; auto using cc_ascii_remove_substring).
  clearbody e1' e2'.
  match type of H with match ?core with _ => _ end = _ =>
    destruct core as [r0|] eqn:Ec; [|discriminate] end.
  apply union_core_ok in Ec; try assumption.
  inversion H; subst.
  destruct cp_, cs_; cbn [cc_ascii]; auto.
Qed.

Definition cc_opt (o : option expr) : Prop :=
  match o with Some e => cc_ascii e | None => True end.

Theorem concatenate_cc_ascii a b : cc_opt a -> cc_opt b -> cc_opt (concatenate a b).
Proof.
  intros Ha Hb. destruct a as [x|], b as [y|]; try exact I. cbn [cc_opt] in Ha, Hb.
  unfold concatenate.
  destruct (is_empty x); [exact Hb|]. destruct (is_empty y); [exact Ha|].
  repeat match goal with
         | |- cc_opt (match ?e with _ => _ end) => destruct e
         end; cbn [cc_opt cc_ascii] in *; tauto.
Qed.

Lemma union_cc_ascii c a b r :
  f_esc c = true -> cc_opt a -> cc_opt b -> union c a b = Some r -> cc_opt r.
Proof.
  intros He Ha Hb H. destruct a as [x|], b as [y|]; cbn [union] in H.
  - destruct (union2 c x y) as [u|] eqn:E; [|discriminate]. inversion H; subst.
    cbn [cc_opt] in *. apply (union2_cc_ascii c x y u); assumption.
  - inversion H; subst; exact Ha.
  - inversion H; subst; exact Hb.
  - inversion H; subst; exact I.
Qed.

Lemma star_cc_ascii a : cc_opt a -> cc_opt (star a).
Proof. destruct a; exact (fun H => H). Qed.

(* matrices *)
Definition v_ok (b : list (option expr)) : Prop := Forall cc_opt b.
Definition m_ok (a : list (list (option expr))) : Prop := Forall v_ok a.
Definition sys_ok (s : option sys) : Prop :=
  match s with Some (a, b) => m_ok a /\ v_ok b | None => True end.

Lemma set_nth_Forall {A} (P : A -> Prop) l k v : P v -> Forall P l -> Forall P (set_nth l k v).
Proof.
  intros Hv H. revert k. induction H as [|x l Hx Hl IH]; intros k; cbn [set_nth]; [constructor|].
  destruct k; constructor; auto.
Qed.

Lemma nth_Forall {A} (P : A -> Prop) l k d : P d -> Forall P l -> P (nth k l d).
Proof.
  intros Hd H. revert k. induction H as [|x l Hx Hl IH]; intros k; destruct k; cbn [nth]; auto.
Qed.

Lemma mget_ok a i j : m_ok a -> cc_opt (mget a i j).
Proof.
  intros H. unfold mget. apply nth_Forall; [exact I|].
  apply (nth_Forall v_ok); [constructor|exact H].
Qed.

Lemma vget_ok b i : v_ok b -> cc_opt (vget b i).
Proof. intros H. unfold vget. apply nth_Forall; [exact I|exact H]. Qed.

Lemma mset_ok a i j v : m_ok a -> cc_opt v -> m_ok (mset a i j v).
Proof.
  intros Ha Hv. unfold mset. apply set_nth_Forall; [|exact Ha].
  apply set_nth_Forall; [exact Hv|]. apply (nth_Forall v_ok); [constructor|exact Ha].
Qed.

Lemma fold_left_inv {A B} (P : A -> Prop) (f : A -> B -> A) l :
  (forall acc x, P acc -> P (f acc x)) -> forall init, P init -> P (fold_left f l init).
Proof.
  intros Hf. induction l as [|x l IH]; intros init Hi; cbn [fold_left]; auto.
Qed.

Lemma repeat_Forall {A} (P : A -> Prop) x n : P x -> Forall P (repeat x n).
Proof. intros H. induction n; cbn [repeat]; constructor; auto. Qed.

Lemma init_system_ok c d states : f_esc c = true -> sys_ok (init_system c d states).
Proof.
  intros He. unfold init_system. apply fold_left_inv.
  - intros acc [i st] Hacc. destruct acc as [[a b]|]; [|exact I].
    apply fold_left_inv.
    + intros acc e Hacc'. destruct acc as [[a' b']|]; [|exact I].
      destruct Hacc' as [Ha' Hb'].
      destruct (position (e_dst e) states 0) as [j|]; [|exact I].
      pose proof (mget_ok a' i j Ha') as Hg.
      destruct (mget a' i j) as [old|].
      * destruct (union2 c old (ELit [e_lbl e])) as [u|] eqn:E; [|exact I].
        cbn [sys_ok]. split; [|exact Hb']. apply mset_ok; [exact Ha'|].
        cbn [cc_opt]. eapply union2_cc_ascii; [exact He|exact Hg| |exact E]. exact I.
      * cbn [sys_ok]. split; [|exact Hb']. apply mset_ok; [exact Ha'|exact I].
    + destruct Hacc as [Ha Hb]. cbn [sys_ok]. split; [exact Ha|].
      destruct (set_mem st (d_finals d)); [|exact Hb].
      apply set_nth_Forall; [exact I|exact Hb].
  - cbn [sys_ok]. split.
    + apply repeat_Forall. apply repeat_Forall. exact I.
    + apply repeat_Forall. exact I.
Qed.

Lemma elim_step_ok c acc n : f_esc c = true -> sys_ok acc -> sys_ok (elim_step c acc n).
Proof.
  intros He Hacc. unfold elim_step. destruct acc as [[a b]|]; [|exact I].
  destruct Hacc as [Ha Hb].
  match goal with |- sys_ok (let '(a0, b0) := ?p in _) =>
    assert (Hp : m_ok (fst p) /\ v_ok (snd p)); [|destruct p as [a1 b1]] end.
  { pose proof (mget_ok a n n Ha) as Hg. destruct (mget a n n) as [ann|]; [|split; assumption].
    cbn [fst snd]. split.
    - apply fold_left_inv; [|exact Ha]. intros a' j Ha'. apply mset_ok; [exact Ha'|].
      apply concatenate_cc_ascii; [exact Hg|apply mget_ok; exact Ha'].
    - apply set_nth_Forall; [|exact Hb].
      apply concatenate_cc_ascii; [exact Hg|apply vget_ok; exact Hb]. }
  cbn [fst snd] in Hp. destruct Hp as [Ha1 Hb1].
  apply fold_left_inv; [|split; assumption].
  intros acc i Hacc. destruct acc as [[a2 b2]|]; [|exact I]. destruct Hacc as [Ha2 Hb2].
  pose proof (mget_ok a2 i n Ha2) as Hg. destruct (mget a2 i n) as [ain|]; [|split; assumption].
  destruct (union c (vget b2 i) (concatenate (Some ain) (vget b2 n))) as [bi|] eqn:Eu; [|exact I].
  apply union_cc_ascii in Eu;
    [|exact He|apply vget_ok; exact Hb2
     |apply concatenate_cc_ascii; [exact Hg|apply vget_ok; exact Hb2]].
  apply fold_left_inv.
  - intros acc j Hacc. destruct acc as [[a3 b3]|]; [|exact I]. destruct Hacc as [Ha3 Hb3].
    destruct (union c (mget a3 i j) (concatenate (Some ain) (mget a3 n j))) as [aij|] eqn:Ea;
      [|exact I].
    apply union_cc_ascii in Ea;
      [|exact He|apply mget_ok; exact Ha3
       |apply concatenate_cc_ascii; [exact Hg|apply mget_ok; exact Ha3]].
    split; [apply mset_ok; assumption|exact Hb3].
  - split; [exact Ha2|]. apply set_nth_Forall; assumption.
Qed.

Theorem expr_from_cc_ascii c d e : f_esc c = true -> expr_from c d = Some e -> cc_ascii e.
Proof.
  intros He H. unfold expr_from in H.
  destruct (dfs_order d) as [states|]; [|discriminate].
  assert (Hs : sys_ok (fold_left (elim_step c) (rev (seq 0 (d_n d))) (init_system c d states))).
  { apply fold_left_inv; [|apply init_system_ok; exact He].
    intros acc n Hacc. apply elim_step_ok; assumption. }
  destruct (fold_left (elim_step c) (rev (seq 0 (d_n d))) (init_system c d states)) as [[a b]|];
    [|discriminate].
  destruct Hs as [_ Hb]. destruct b as [|[e0|] b'].
  - inversion H; subst. exact I.
  - inversion H; subst. inversion Hb; subst. assumption.
  - inversion H; subst. exact I.
Qed.

(* end-to-end: whatever Expression::from builds prints as pure ASCII when escaping is on *)
Corollary regexp_str_from_ascii isd c d e :
  f_esc c = true -> expr_from c d = Some e -> Forall (fun x => x < 128) (regexp_str isd c e).
Proof.
  intros He H. apply regexp_str_ascii; [exact He|]. eapply expr_from_cc_ascii; eauto.
Qed.

(* ------------------------------------------------------------------ *)
(** * f. flags and anchors (non-verbose, no colour) *)

(* the printer of expressions only reads these five flags *)
Definition print_eq (c c' : cfg) : Prop :=
  f_cap c = f_cap c' /\ f_esc c = f_esc c' /\ f_sur c = f_sur c' /\
  f_verbose c = f_verbose c' /\ f_colour c = f_colour c'.

Section PrintEq.
  Variables c c' : cfg.
  Hypothesis PE : print_eq c c'.

  Let Hcap : f_cap c = f_cap c'. Proof. apply PE. Qed.
  Let Hesc : f_esc c = f_esc c'. Proof. apply PE. Qed.
  Let Hsur : f_sur c = f_sur c'. Proof. apply PE. Qed.
  Let Hverb : f_verbose c = f_verbose c'. Proof. apply PE. Qed.
  Let Hcol : f_colour c = f_colour c'. Proof. apply PE. Qed.

  Lemma col_pe code v : col c code v = col c' code v.
  Proof. unfold col. rewrite Hcol. reflexivity. Qed.

  Lemma c_group_pe e b : c_group c e b = c_group c' e b.
  Proof. unfold c_group. rewrite !col_pe, Hcap, Hverb. reflexivity. Qed.

  Lemma c_quant_pe q : c_quant c q = c_quant c' q.
  Proof. unfold c_quant. rewrite !col_pe, Hverb. reflexivity. Qed.

  Lemma c_rep_pe n v : c_rep c n v = c_rep c' n v.
  Proof. unfold c_rep. rewrite !col_pe. reflexivity. Qed.

  Lemma c_range_pe a b v : c_range c a b v = c_range c' a b v.
  Proof. unfold c_range. rewrite !col_pe. reflexivity. Qed.

  Lemma escape_g_pe g : escape_g c g = escape_g c' g.
  Proof.
    induction g as [cs rs a b IH] using grapheme_ind'.
    rewrite !escape_g_eq. cbv zeta. rewrite Hesc, Hsur. f_equal.
    apply map_ext_in. intros r Hr. rewrite Forall_forall in IH. apply IH. exact Hr.
  Qed.

  Lemma flat_map_ext_Forall {A B} (f g : A -> list B) l :
    Forall (fun x => f x = g x) l -> flat_map f l = flat_map g l.
  Proof. induction 1; cbn [flat_map]; congruence. Qed.

  Lemma g_str_pe g : g_str c g = g_str c' g.
  Proof.
    induction g as [cs rs a b IH] using grapheme_ind'.
    rewrite !g_str_eq. cbv zeta.
    rewrite (flat_map_ext_Forall _ _ _ IH).
    rewrite !c_group_pe, !c_rep_pe, !c_range_pe, !col_pe, Hcol, Hverb. reflexivity.
  Qed.

  Lemma lit_str_pe cl : lit_str c cl = lit_str c' cl.
  Proof.
    unfold lit_str. apply flat_map_ext. intros g. destruct g as [cs rs a b].
    destruct rs as [|r rs]; rewrite g_str_pe.
    - rewrite escape_g_pe. reflexivity.
    - f_equal. f_equal. apply map_ext. intros; apply escape_g_pe.
  Qed.

  Lemma cc_str_pe cs : cc_str c cs = cc_str c' cs.
  Proof.
    unfold cc_str. rewrite !col_pe. reflexivity.
  Qed.

  Lemma is_single_codepoint_pe e : is_single_codepoint c e = is_single_codepoint c' e.
  Proof. destruct e; cbn [is_single_codepoint]; rewrite ?Hesc; reflexivity. Qed.

  Lemma e_str_pe e : e_str c e = e_str c' e.
  Proof.
    induction e as [os IH|cs|a b IHa IHb|cl|x q IHx] using expr_ind'.
    - rewrite !e_str_alt. rewrite !col_pe, Hverb. f_equal.
      apply map_ext_in. intros o Ho. rewrite Forall_forall in IH.
      rewrite (IH o Ho), is_single_codepoint_pe, c_group_pe. reflexivity.
    - cbn [e_str]. apply cc_str_pe.
    - cbn [e_str]. rewrite IHa, IHb, !is_single_codepoint_pe, !c_group_pe. reflexivity.
    - cbn [e_str]. apply lit_str_pe.
    - cbn [e_str]. rewrite IHx, is_single_codepoint_pe, c_group_pe, c_quant_pe. reflexivity.
  Qed.
End PrintEq.

(* the \v and \f rewrites of the Display impl *)
Definition vf_escape (s : str) : str :=
  replace_cp 12 [c_backslash; 102] (replace_cp 11 [c_backslash; 118] s).

Lemma replace_cp_app x r a b : replace_cp x r (a ++ b) = replace_cp x r a ++ replace_cp x r b.
Proof. apply flat_map_app. Qed.

Lemma vf_escape_app a b : vf_escape (a ++ b) = vf_escape a ++ vf_escape b.
Proof. unfold vf_escape. rewrite !replace_cp_app. reflexivity. Qed.

Definition body_str (c : cfg) (e : expr) : str :=
  vf_escape (match e with
             | EAlt _ => c_group c (e_str c e) false
             | _ => e_str c e
             end).

Definition set_anchors (c : cfg) (no_start no_end : bool) : cfg :=
  mkCfg (min_rep c) (min_len c) (f_digit c) (f_non_digit c) (f_space c) (f_non_space c)
        (f_word c) (f_non_word c) (f_rep c) (f_ci c) (f_cap c) (f_esc c) (f_sur c)
        (f_verbose c) no_start no_end (f_colour c).

Lemma body_str_pe c c' e : print_eq c c' -> body_str c e = body_str c' e.
Proof.
  intros PE. unfold body_str. rewrite (e_str_pe c c' PE), (c_group_pe c c' PE). reflexivity.
Qed.

(* body_str does not depend on the anchor flags *)
Theorem body_str_anchor_indep c s t e : body_str (set_anchors c s t) e = body_str c e.
Proof. apply body_str_pe. repeat split. Qed.

Definition flag_str (c : cfg) : str := if f_ci c then [40; 63; 105; 41] else [].      (* (?i) *)
Definition caret_str (c : cfg) : str := if f_no_start c then [] else [94].            (* ^ *)
Definition dollar_str (c : cfg) : str := if f_no_end c then [] else [36].             (* $ *)

Theorem regexp_str_plain isd c e :
  f_verbose c = false -> f_colour c = false ->
  regexp_str isd c e = flag_str c ++ caret_str c ++ body_str c e ++ dollar_str c.
Proof.
  intros Hv Hc. unfold regexp_str. rewrite Hv. rewrite andb_false_r.
  unfold col. rewrite Hc. rewrite !app_nil_r. cbn [app].
  match goal with
  | |- replace_cp 12 _ (replace_cp 11 _ ?x) = _ => change (vf_escape x = flag_str c ++ caret_str c ++ body_str c e ++ dollar_str c)
  end.
  rewrite !vf_escape_app. fold (body_str c e).
  unfold flag_str, caret_str, dollar_str.
  destruct (f_ci c), (f_no_start c), (f_no_end c); reflexivity.
Qed.

(* all four anchor settings share the same body *)
Corollary regexp_str_anchors isd c e s t :
  f_verbose c = false -> f_colour c = false ->
  regexp_str isd (set_anchors c s t) e =
  flag_str c ++ (if s then [] else [94]) ++ body_str c e ++ (if t then [] else [36]).
Proof.
  intros Hv Hc. rewrite regexp_str_plain by assumption.
  rewrite body_str_anchor_indep. reflexivity.
Qed.

(* ------------------------------------------------------------------ *)
(** * g. verbose mode: the first line is the flag line, unindented *)

(* the rewrites applied to the whole string in verbose mode (before indentation) *)
Definition vtrans (s : str) : str :=
  replace_cp c_space [c_backslash; c_space]
    (flat_map (fun x => if mem_cp x verbose_ws then esc_u4 x else [x])
       (replace_cp 35 [c_backslash; 35] (vf_escape s))).

Lemma vtrans_app a b : vtrans (a ++ b) = vtrans a ++ vtrans b.
Proof.
  unfold vtrans. rewrite vf_escape_app, replace_cp_app, flat_map_app, replace_cp_app. reflexivity.
Qed.

Definition vflag_str (c : cfg) : str :=
  if f_ci c then [40; 63; 105; 120; 41] else [40; 63; 120; 41].      (* (?ix) / (?x) *)

Definition vrest (c : cfg) (e : expr) : str :=
  vtrans ((if f_no_start c then [] else [94] ++ nl) ++
          match e with EAlt _ => c_group c (e_str c e) false | _ => e_str c e end ++
          (if f_no_end c then [] else nl ++ [36])).

Lemma regexp_str_verbose_pre isd c e :
  f_verbose c = true -> f_colour c = false ->
  regexp_str isd c e = indent_regexp isd c (vflag_str c ++ c_nl :: vrest c e).
Proof.
  intros Hv Hc. unfold regexp_str. rewrite Hv. rewrite andb_true_r.
  unfold col. rewrite Hc.
  match goal with
  | |- indent_regexp _ _ (replace_cp c_space _ (flat_map _ (replace_cp 35 _
         (replace_cp 12 _ (replace_cp 11 _ ?x))))) = _ =>
      change (indent_regexp isd c (vtrans x) = indent_regexp isd c (vflag_str c ++ c_nl :: vrest c e))
  end.
  f_equal. rewrite vtrans_app. unfold vrest, vflag_str.
  destruct (f_ci c); reflexivity.
Qed.

Lemma split_nl_app : forall A cur R,
  mem_cp c_nl A = false ->
  split_nl (A ++ c_nl :: R) cur = (rev cur ++ A) :: split_nl R [].
Proof.
  induction A as [|x A IH]; intros cur R H.
  - cbn [app split_nl]. rewrite N.eqb_refl, app_nil_r. reflexivity.
  - cbn [mem_cp] in H. apply orb_false_iff in H. destruct H as [Hx HA].
    cbn [app split_nl]. rewrite N.eqb_sym in Hx. rewrite Hx.
    rewrite IH by exact HA. cbn [rev]. rewrite <- app_assoc. reflexivity.
Qed.

Lemma split_nl_nonempty : forall s cur, split_nl s cur <> [].
Proof.
  induction s as [|x s IH]; intros cur; cbn [split_nl]; [discriminate|].
  destruct (x =? c_nl); [discriminate|apply IH].
Qed.

Lemma lines_first A R :
  mem_cp c_nl A = false -> strip_cr A = A -> lines (A ++ c_nl :: R) = A :: lines R.
Proof.
  intros HA Hs. unfold lines. rewrite split_nl_app by exact HA. change (rev [] ++ A) with A.
  cbn [rev]. pose proof (split_nl_nonempty R []) as HL.
  destruct (rev (split_nl R [])) as [|last r] eqn:E.
  - exfalso. apply HL. rewrite <- (rev_involutive (split_nl R [])), E. reflexivity.
  - cbn [app]. rewrite rev_unit. cbn [map app]. rewrite Hs. reflexivity.
Qed.

Lemma join_cons sep x l :
  join sep (x :: l) = x ++ match l with [] => [] | _ => sep ++ join sep l end.
Proof. destruct l; cbn [join]; [rewrite app_nil_r|]; reflexivity. Qed.

Lemma indent_flag isd c ls :
  indent_lines isd c (vflag_str c :: ls) 0 0 = vflag_str c :: indent_lines isd c ls 1 0.
Proof. unfold vflag_str. destruct (f_ci c); reflexivity. Qed.

(* exact shape of the verbose output: flag text, then (if anything non-blank follows) a line
   break and the indented remaining lines *)
Theorem regexp_str_verbose isd c e :
  f_verbose c = true -> f_colour c = false ->
  regexp_str isd c e =
  vflag_str c ++ match indent_lines isd c (lines (vrest c e)) 1 0 with
                 | [] => []
                 | l => nl ++ join nl l
                 end.
Proof.
  intros Hv Hc. rewrite regexp_str_verbose_pre by assumption.
  unfold indent_regexp. rewrite lines_first.
  - rewrite indent_flag, join_cons.
    destruct (indent_lines isd c (lines (vrest c e)) 1 0); reflexivity.
  - unfold vflag_str. destruct (f_ci c); reflexivity.
  - unfold vflag_str. destruct (f_ci c); reflexivity.
Qed.

Lemma starts_with_app p s : starts_with p (p ++ s) = true.
Proof. induction p as [|x p IH]; [reflexivity|]. cbn [app starts_with]. rewrite N.eqb_refl. exact IH. Qed.

(* always true: the output starts with the flag text, with no indentation *)
Theorem regexp_str_verbose_flag isd c e :
  f_verbose c = true -> f_colour c = false ->
  starts_with (vflag_str c) (regexp_str isd c e) = true.
Proof.
  intros Hv Hc. rewrite regexp_str_verbose by assumption. apply starts_with_app.
Qed.

(* the line break after the flag is present iff some non-blank line follows *)
Theorem regexp_str_verbose_flag_line isd c e :
  f_verbose c = true -> f_colour c = false ->
  indent_lines isd c (lines (vrest c e)) 1 0 <> [] ->
  starts_with (vflag_str c ++ nl) (regexp_str isd c e) = true.
Proof.
  intros Hv Hc Hne. rewrite regexp_str_verbose by assumption.
  destruct (indent_lines isd c (lines (vrest c e)) 1 0) as [|l0 l]; [congruence|].
  rewrite app_assoc. apply starts_with_app.
Qed.

(* COUNTEREXAMPLE to the statement with the line break included: with both anchors disabled
   and an empty body nothing follows the flag line, str::lines drops the empty last piece
   and the join does not re-add the line break: the output is "(?x)" *)
Definition cex_cfg : cfg :=
  mkCfg 1 1 false false false false false false false false false false false true true true false.

Lemma verbose_flag_line_counterexample isd :
  regexp_str isd cex_cfg (ELit []) = [40; 63; 120; 41] /\
  starts_with [40; 63; 120; 41; 10] (regexp_str isd cex_cfg (ELit [])) = false.
Proof. split; reflexivity. Qed.

Lemma indent_caret isd c ls :
  f_no_start c = false ->
  indent_lines isd c ([94] :: ls) 1 0 = [94] :: indent_lines isd c ls 2 1.
Proof. intros H. cbn [indent_lines]. rewrite H. reflexivity. Qed.

(* with the start anchor enabled, the flag line is followed by the unindented caret line *)
Theorem regexp_str_verbose_flag_caret isd c e :
  f_verbose c = true -> f_colour c = false -> f_no_start c = false ->
  starts_with (vflag_str c ++ nl ++ [94]) (regexp_str isd c e) = true.
Proof.
  intros Hv Hc Hs. rewrite regexp_str_verbose by assumption.
  unfold vrest. rewrite Hs. rewrite vtrans_app.
  change (vtrans ([94] ++ nl)) with ([94] ++ [c_nl]). rewrite <- app_assoc.
  change ([c_nl] ++ ?x) with (c_nl :: x).
  rewrite lines_first by reflexivity.
  rewrite indent_caret by exact Hs. rewrite join_cons.
  rewrite !app_assoc. rewrite <- (app_assoc _ nl [94]). apply starts_with_app.
Qed.

(* ------------------------------------------------------------------ *)
Print Assumptions regexp_str_ascii.
Print Assumptions union2_cc_ascii.
Print Assumptions concatenate_cc_ascii.
Print Assumptions new_alternation_cc_ascii.
Print Assumptions expr_from_cc_ascii.
Print Assumptions regexp_str_from_ascii.
Print Assumptions regexp_str_plain.
Print Assumptions regexp_str_anchors.
Print Assumptions body_str_anchor_indep.
Print Assumptions regexp_str_verbose.
Print Assumptions regexp_str_verbose_flag.
Print Assumptions regexp_str_verbose_flag_line.
Print Assumptions verbose_flag_line_counterexample.
Print Assumptions regexp_str_verbose_flag_caret.

(* summary *)
Eval vm_compute in regexp_str (fun _ => false) cex_cfg (ELit []).
Check regexp_str_ascii.
Check union2_cc_ascii.
Check concatenate_cc_ascii.
Check new_alternation_cc_ascii.
Check expr_from_cc_ascii.
Check regexp_str_from_ascii.
Check single_codepoint_ascii.
Check e_str_pe.
Check body_str_anchor_indep.
Check regexp_str_plain.
Check regexp_str_anchors.
Check regexp_str_verbose.
Check regexp_str_verbose_flag.
Check regexp_str_verbose_flag_line.
Check verbose_flag_line_counterexample.
Check regexp_str_verbose_flag_caret.
