(* The pipeline produces printable expressions: the expression built by final_expr from the
   grapheme clusters of scalar-valued test cases satisfies the well-formedness predicate of
   the printing theorem (PrintParseDefs.wf_print_gen True; wf_print when no class contains both
   U+D7FF and U+E000).

     A. the clusters: every grapheme satisfies wf_pg false (stages G, K: tokenised strings of
        scalar values; stage R: PrintParsePipe.convert_wf_pg)
     B. the expression operations (new_alternation, concatenate, union2) preserve
        W := wf_print_gen True, under side conditions on the shape of the operands
     C. the equation system of Expression::from: entries of the matrix are W and `solid`
        (neither the empty literal nor a repetition at top level), entries of the vector are W
     D. final_expr, and the variant without the surrogate gap

   No existing file is modified. *)
From Grex Require Import Base.Str Model.Config Model.Cluster Model.Dfa Model.Expr Model.Pipeline.
From Grex Require Import Proofs.Lang Proofs.Spec Proofs.RepInv Proofs.ExprLang Proofs.TrieLang
  Proofs.ClustersSpec Proofs.NormaliseDet Proofs.Provenance
  Proofs.PrintParseDefs Proofs.PrintParseLit Proofs.PrintParsePipe.
From Coq Require Import Permutation.
From GrexGen Require Import GrexTables.

(* ====================================================================== *)
(* A. the clusters                                                         *)
(* ====================================================================== *)

Lemma scalar_92 : scalar 92%N.
Proof. reflexivity. Qed.

Lemma toks_of_plain : forall t, Forall (fun y => y <> 92%N /\ scalar y) t -> toks t.
Proof.
  intros t H. induction H as [|y t [Hy Hs] _ IH]; [constructor|].
  apply toks_lit; assumption.
Qed.

(* stage G: a backslash is alone in its string *)
Lemma tokenised_stageG : forall t, Forall scalar t -> (In 92%N t -> t = [92%N]) ->
  PrintParseDefs.tokenised t.
Proof.
  intros t Hs Hbs. destruct (in_dec N.eq_dec 92%N t) as [Hin|Hn].
  - left. exact (Hbs Hin).
  - right. apply toks_of_plain. rewrite Forall_forall in *. intros y Hy.
    split; [intros ->; exact (Hn Hy)|exact (Hs y Hy)].
Qed.

(* stage K: each code point becomes itself or a class token *)
Lemma toks_tokens : forall c t, Forall (fun y => y <> 92%N /\ scalar y) t ->
  toks (flat_map (class_token c class_chain) t).
Proof.
  intros c t H. induction H as [|y t [Hy Hs] _ IH]; cbn [flat_map]; [constructor|].
  destruct (class_token_shape c y) as [E|(l & E & Hl)]; rewrite E; cbn [app].
  - apply toks_lit; assumption.
  - apply toks_cls; assumption.
Qed.

Lemma tokenised_tokens : forall c t, Forall scalar t -> (In 92%N t -> t = [92%N]) ->
  PrintParseDefs.tokenised (flat_map (class_token c class_chain) t).
Proof.
  intros c t Hs Hbs. destruct (in_dec N.eq_dec 92%N t) as [Hin|Hn].
  - rewrite (Hbs Hin). cbn [flat_map]. rewrite app_nil_r.
    destruct (class_token_shape c 92%N) as [E|(l & E & Hl)]; rewrite E.
    + left. reflexivity.
    + right. apply toks_cls; [exact Hl|constructor].
  - right. apply toks_tokens. rewrite Forall_forall in *. intros y Hy.
    split; [intros ->; exact (Hn Hy)|exact (Hs y Hy)].
Qed.

(* the code points of stage G come from the test case *)
Lemma cluster_g_members : forall db s g x, length (cat_of db s) = length s ->
  In g (cluster_g db s) -> In x (g_value g) -> In x s.
Proof.
  intros db s g x Hlen Hg Hx. unfold cluster_g in Hg.
  rewrite <- (cluster_of_concat (seg_of db s) (cat_of db s) s Hlen).
  apply in_concat. exists (g_value g). split; [|exact Hx].
  apply in_map. exact Hg.
Qed.

Lemma cluster_gk_tok_plain : forall c db s, Forall scalar s -> length (cat_of db s) = length s ->
  Forall tok_plain (cluster_k c (cluster_g db s)).
Proof.
  intros c db s Hs Hlen.
  assert (HG : Forall (fun g => exists t, g = G [t] [] 1%N 1%N /\ t <> []
                                   /\ (In 92%N t -> t = [92%N]) /\ Forall scalar t)
                      (cluster_g db s)).
  { apply Forall_forall. intros g Hg.
    pose proof (cluster_of_shape (seg_of db s) (cat_of db s) s) as Hsh.
    rewrite Forall_forall in Hsh. destruct (Hsh g Hg) as (t & -> & Hne & Hbs).
    exists t. repeat split; try assumption.
    apply Forall_forall. intros x Hx. rewrite Forall_forall in Hs. apply Hs.
    apply (cluster_g_members db s (G [t] [] 1%N 1%N) x Hlen Hg).
    unfold g_value. cbn [g_chars concat]. rewrite app_nil_r. exact Hx. }
  unfold cluster_k. destruct (char_class_feature c).
  - unfold convert_classes. apply Forall_map. eapply Forall_impl; [|exact HG].
    intros g (t & -> & Hne & Hbs & Hsc). cbn [convert_classes_g map].
    exists (flat_map (class_token c class_chain) t). split; [reflexivity|]. split.
    + apply flat_map_token_nonempty. exact Hne.
    + apply tokenised_tokens; assumption.
  - eapply Forall_impl; [|exact HG]. intros g (t & -> & Hne & Hbs & Hsc).
    exists t. split; [reflexivity|]. split; [exact Hne|]. apply tokenised_stageG; assumption.
Qed.

Lemma cluster_r_wf_pg : forall c cl, Forall tok_plain cl -> Forall (wf_pg false) (cluster_r c cl).
Proof.
  intros c cl H. unfold cluster_r. destruct (f_rep c).
  - apply convert_wf_pg. exact H.
  - eapply Forall_impl; [|exact H]. intros g Hg. apply wf_pg_tok_plain. exact Hg.
Qed.

Theorem grapheme_clusters_wf_pg : forall c db tcs,
  Forall (Forall scalar) tcs -> oracle_ok db tcs ->
  Forall (Forall (wf_pg false)) (grapheme_clusters c db tcs).
Proof.
  intros c db tcs Hsc Hok. rewrite grapheme_clusters_map. apply Forall_map.
  apply Forall_forall. intros s Hs. apply cluster_r_wf_pg. apply cluster_gk_tok_plain.
  - rewrite Forall_forall in Hsc. exact (Hsc s Hs).
  - exact (Hok s Hs).
Qed.

(* the normalised test cases are scalar *)
Lemma normalise_scalar : forall c db ws,
  Forall (Forall scalar) ws -> (forall s, In s ws -> Forall scalar (lower' db s)) ->
  Forall (Forall scalar) (normalise c db ws).
Proof.
  intros c db ws Hws Hlow. apply Forall_forall. intros s Hs.
  apply normalise_in in Hs. destruct (f_ci c).
  - apply in_map_iff in Hs. destruct Hs as (s0 & <- & Hs0). exact (Hlow s0 Hs0).
  - rewrite Forall_forall in Hws. exact (Hws s Hs).
Qed.

(* the hypothesis on lower-casing follows from a hypothesis on the oracle table *)
Lemma lower_scalar_of_db : forall db ws,
  Forall (Forall scalar) ws -> Forall (fun e => Forall scalar (o_lower e)) db ->
  forall s, In s ws -> Forall scalar (lower' db s).
Proof.
  intros db ws Hws Hdb s Hs. rewrite Forall_forall in Hws. specialize (Hws s Hs).
  unfold lower', lower_of.
  destruct (o_find db s) as [e|] eqn:F.
  - destruct (Nat.eqb (length (o_lower e)) (length s)); [|exact Hws].
    clear Hs Hws. induction db as [|e0 db IH]; cbn [o_find] in F; [discriminate|].
    inversion Hdb as [|? ? He0 Hdb']; subst.
    destruct (str_eqb (o_s e0) s); [injection F as <-; exact He0|apply IH; assumption].
  - try (destruct (Nat.eqb (length s) (length s))); exact Hws.
Qed.

(* wf_pg false is stable under the widening of the trie construction *)
Lemma wf_pg_widen : forall g h, wf_pg false g -> wf_pg false h ->
  g_chars g = g_chars h -> g_max g = (g_max h - 1)%N ->
  wf_pg false (g_new (g_chars h) (N.min (g_min g) (g_min h)) (N.max (g_max g) (g_max h))).
Proof.
  intros [cs1 rs1 a1 b1] [cs2 rs2 a2 b2] Hg Hh _ _. cbn [g_chars g_min g_max]. unfold g_new.
  apply wf_pg_unfold in Hg. apply wf_pg_unfold in Hh. apply wf_pg_unfold.
  destruct Hg as (_ & _ & G3 & G4 & _). destruct Hh as (H1 & H2 & H3 & H4 & _).
  repeat split; auto; try lia.
Qed.

(* ====================================================================== *)
(* B. the expression operations                                            *)
(* ====================================================================== *)

(* ---------- reflexivity of the structural equality tests ---------- *)
Lemma str_eqb_refl : forall s, str_eqb s s = true.
Proof. induction s as [|x s IH]; cbn [str_eqb]; [reflexivity|]. rewrite N.eqb_refl. exact IH. Qed.

Lemma list_eqb_refl_F : forall {A} (eqb : A -> A -> bool) (l : list A),
  Forall (fun x => eqb x x = true) l -> list_eqb eqb l l = true.
Proof.
  intros A eqb l H. induction H as [|x l Hx _ IH]; cbn [list_eqb]; [reflexivity|].
  rewrite Hx. exact IH.
Qed.

Lemma list_eqb_refl : forall {A} (eqb : A -> A -> bool), (forall x, eqb x x = true) ->
  forall l, list_eqb eqb l l = true.
Proof. intros A eqb H l. apply list_eqb_refl_F. apply Forall_forall. intros x _. apply H. Qed.

Lemma g_eqb_refl : forall g, g_eqb g g = true.
Proof.
  induction g as [cs rs m x HF] using grapheme_ind'. cbn [g_eqb].
  rewrite !N.eqb_refl, !andb_true_r. apply andb_true_iff. split.
  - unfold strs_eqb. apply list_eqb_refl. exact str_eqb_refl.
  - induction HF as [|g rs Hg HF IH]; [reflexivity|]. simpl. rewrite Hg. exact IH.
Qed.

Lemma expr_eqb_refl : forall e, expr_eqb e e = true.
Proof.
  induction e as [os HF|cs|a b IHa IHb|cl|e q IH] using expr_ind'; cbn [expr_eqb].
  - induction HF as [|o os Ho HF IH]; [reflexivity|]. simpl. rewrite Ho. exact IH.
  - apply list_eqb_refl. exact N.eqb_refl.
  - rewrite IHa, IHb. reflexivity.
  - apply list_eqb_refl. exact g_eqb_refl.
  - rewrite IH. destruct q; reflexivity.
Qed.

(* ---------- character sets stay strictly increasing ---------- *)
Lemma incr_cons_iff : forall l x, incr (x :: l) <-> Forall (N.lt x) l /\ incr l.
Proof.
  induction l as [|y l IH]; intros x.
  - cbn [incr]. split; [intros _; split; [constructor|exact I]|intros _; exact I].
  - change (incr (x :: y :: l)) with ((x < y)%N /\ incr (y :: l)). split.
    + intros [Hxy Hi]. split; [|exact Hi]. constructor; [exact Hxy|].
      apply IH in Hi. destruct Hi as [HF _]. eapply Forall_impl; [|exact HF].
      intros z Hz. unfold cp in *. lia.
    + intros [HF Hi]. inversion HF; subst. split; assumption.
Qed.

Lemma cset_add_incr : forall x l, incr l -> incr (cset_add x l).
Proof.
  intros x l. induction l as [|y l IH]; intros H; cbn [cset_add]; [exact I|].
  destruct (N.ltb_spec x y) as [Hlt|Hge].
  - change (incr (x :: y :: l)) with ((x < y)%N /\ incr (y :: l)). split; assumption.
  - destruct (N.eqb_spec x y) as [E|E]; [exact H|].
    apply incr_cons_iff in H. destruct H as [HF Hi]. apply incr_cons_iff. split; [|apply IH; exact Hi].
    apply Forall_forall. intros z Hz. apply cset_add_in in Hz. destruct Hz as [<-|Hz].
    + unfold cp in *. lia.
    + rewrite Forall_forall in HF. exact (HF z Hz).
Qed.

Lemma cset_union_incr : forall b a, incr a -> incr (cset_union a b).
Proof.
  unfold cset_union. induction b as [|x b IH]; intros a H; cbn [fold_left]; [exact H|].
  apply IH. apply cset_add_incr. exact H.
Qed.

Lemma incr_NoDup : forall l, incr l -> NoDup l.
Proof.
  induction l as [|x l IH]; intros H; [constructor|].
  apply incr_cons_iff in H. destruct H as [HF Hi]. constructor; [|apply IH; exact Hi].
  intros Hin. rewrite Forall_forall in HF. specialize (HF x Hin). unfold cp in *. lia.
Qed.

Lemma wf_cc_union : forall s1 s2 w,
  Forall scalar s1 -> Forall scalar s2 -> incr s1 ->
  NoDup w -> 2 <= length w -> (forall z, In z w -> In z s1 \/ In z s2) ->
  wf_cc True (cset_union s1 s2).
Proof.
  intros s1 s2 w H1 H2 Hi Hnd Hlen Hw. unfold wf_cc. split; [|split; [|split]].
  - etransitivity; [exact Hlen|]. apply NoDup_incl_length; [exact Hnd|].
    intros z Hz. apply cset_union_in. exact (Hw z Hz).
  - apply Forall_forall. intros z Hz. apply cset_union_in in Hz.
    rewrite Forall_forall in H1, H2. destruct Hz as [Hz|Hz]; [exact (H1 z Hz)|exact (H2 z Hz)].
  - apply cset_union_incr. exact Hi.
  - left. exact I.
Qed.

(* ---------- the invariant ---------- *)
Local Notation W := (wf_print_gen True).

Definition non_rep (e : expr) : Prop := match e with ERep _ _ => False | _ => True end.
(* neither the empty literal nor a repetition at top level *)
Definition solid (e : expr) : Prop := is_empty e = false /\ non_rep e.

Lemma W_rep_q : forall x, W x -> non_rep x -> W (ERep x QQuestion).
Proof. intros x Hx Hn. cbn [wf_print_gen]. split; [exact Hx|]. intros _. destruct x; auto. Qed.

Lemma W_rep_star : forall x, W x -> W (ERep x QStar).
Proof. intros x Hx. cbn [wf_print_gen]. split; [exact Hx|]. discriminate. Qed.

Lemma W_rep_inv : forall x q, W (ERep x q) -> W x.
Proof. intros x q H. cbn [wf_print_gen] in H. exact (proj1 H). Qed.

Lemma W_alt_iff : forall os, W (EAlt os) <-> os <> [] /\ Forall W os.
Proof. intros os. apply wf_print_alt. Qed.

(* ---------- new_alternation ---------- *)
Lemma flatten_alt_W : forall f es, Forall W es -> Forall W (flatten_alt f es).
Proof.
  induction f as [|f IHf]; intros es H; cbn [flatten_alt]; [exact H|].
  induction H as [|e es He H IH]; cbn [flat_map]; [constructor|].
  apply Forall_app. split; [|exact IH].
  destruct e as [os| | | |]; try (constructor; [exact He|constructor]).
  apply IHf. apply W_alt_iff in He. exact (proj2 He).
Qed.

Lemma flatten_alt_nonempty : forall f es, Forall W es -> es <> [] -> flatten_alt f es <> [].
Proof.
  induction f as [|f IHf]; intros es H Hne; cbn [flatten_alt]; [exact Hne|].
  destruct es as [|e es]; [congruence|]. inversion H as [|? ? He _]; subst.
  cbn [flat_map]. intros E. apply app_eq_nil in E. destruct E as [E _].
  destruct e as [os| | | |]; try discriminate.
  apply W_alt_iff in He. destruct He as [Hos HF]. exact (IHf os HF Hos E).
Qed.

Lemma new_alternation_W : forall es, Forall W es -> es <> [] -> W (new_alternation es).
Proof.
  intros es H Hne. unfold new_alternation. apply W_alt_iff.
  match goal with |- sort_by ?le ?l <> [] /\ _ => pose proof (ExprLang.sort_by_perm le l) as HP end.
  split.
  - intros E. rewrite E in HP. apply Permutation_nil in HP.
    revert HP. apply flatten_alt_nonempty; assumption.
  - eapply Permutation_Forall; [symmetry; exact HP|]. apply flatten_alt_W. exact H.
Qed.

Lemma new_alternation_non_rep : forall es, non_rep (new_alternation es).
Proof. intros es. exact I. Qed.

(* ---------- concatenate ---------- *)
Definition oW (o : option expr) : Prop := match o with Some e => W e | None => True end.
Definition oWS (o : option expr) : Prop := match o with Some e => W e /\ solid e | None => True end.

Lemma oWS_oW : forall o, oWS o -> oW o.
Proof. intros [e|] H; [exact (proj1 H)|exact I]. Qed.

Lemma concatenate_W : forall a b, oW a -> oW b -> oW (concatenate a b).
Proof.
  intros [x|] [y|] Hx Hy; cbn [concatenate oW]; try exact I.
  cbn [oW] in Hx, Hy.
  destruct (is_empty x); [exact Hy|]. destruct (is_empty y); [exact Hx|].
  destruct x as [?|?|xa xb|ga|? ?]; destruct y as [?|?|ya yb|gb|? ?];
    try (cbn [oW wf_print_gen]; split; assumption);
    try (destruct xb as [?|?|? ?|gs|? ?]; try (cbn [oW wf_print_gen]; split; assumption));
    try (destruct ya as [?|?|? ?|gf|? ?]; try (cbn [oW wf_print_gen]; split; assumption)).
  - cbn [oW wf_print_gen] in *. destruct Hx as [Hx1 Hx2].
    split; [exact Hx1|apply Forall_app; split; assumption].
  - cbn [oW wf_print_gen] in *. destruct Hy as [Hy1 Hy2].
    split; [apply Forall_app; split; assumption|exact Hy2].
  - cbn [oW wf_print_gen] in *. apply Forall_app; split; assumption.
Qed.

Definition oS (o : option expr) : Prop := match o with Some e => solid e | None => True end.

Lemma is_empty_app_l : forall ga gb, is_empty (ELit ga) = false -> is_empty (ELit (ga ++ gb)) = false.
Proof. intros [|g ga] gb H; [discriminate H|reflexivity]. Qed.
Lemma is_empty_app_r : forall ga gb, is_empty (ELit gb) = false -> is_empty (ELit (ga ++ gb)) = false.
Proof. intros [|g ga] gb H; [exact H|reflexivity]. Qed.

(* a solid left operand makes the concatenation solid, whatever the right operand *)
Lemma concatenate_solid_l : forall x b, solid x -> oS (concatenate (Some x) b).
Proof.
  intros x [y|] [Hx Hn]; cbn [concatenate oS]; [|exact I].
  rewrite Hx. destruct (is_empty y) eqn:Ey; [split; assumption|].
  destruct x as [?|?|xa xb|ga|? ?]; try contradiction;
    destruct y as [?|?|ya yb|gb|? ?]; try (split; [reflexivity|exact I]);
    try (destruct xb as [?|?|? ?|gs|? ?]; try (split; [reflexivity|exact I]));
    try (destruct ya as [?|?|? ?|gf|? ?]; try (split; [reflexivity|exact I])).
  split; [apply is_empty_app_l; exact Hx|exact I].
Qed.

(* a non-empty left operand (e.g. a starred loop) and a solid right operand *)
Lemma concatenate_solid_r : forall x y, is_empty x = false -> solid y ->
  oS (concatenate (Some x) (Some y)).
Proof.
  intros x y Hx [Hy Hn]. cbn [concatenate oS]. rewrite Hx, Hy.
  destruct x as [?|?|xa xb|ga|? ?];
    destruct y as [?|?|ya yb|gb|? ?]; try contradiction; try (split; [reflexivity|exact I]);
    try (destruct xb as [?|?|? ?|gs|? ?]; try (split; [reflexivity|exact I]));
    try (destruct ya as [?|?|? ?|gf|? ?]; try (split; [reflexivity|exact I])).
  split; [apply is_empty_app_r; exact Hy|exact I].
Qed.

(* ---------- prefix / suffix factoring ---------- *)
Lemma value_top_W : forall pre a, W a -> Forall (wf_pg false) (value_top pre a).
Proof.
  intros pre a H. destruct a as [?|?|a1 a2|cl|? ?]; cbn [value_top]; try constructor.
  - cbn [wf_print_gen] in H. destruct H as [H1 H2].
    destruct pre; [destruct a1|destruct a2]; try constructor; assumption.
  - exact H.
Qed.

Lemma find_common_W : forall pre a b, W a -> Forall (wf_pg false) (find_common pre a b).
Proof.
  intros pre a b H. unfold find_common. destruct pre.
  - apply common_prefix_Forall. apply value_top_W. exact H.
  - apply Forall_rev. apply common_prefix_Forall. apply Forall_rev. apply value_top_W. exact H.
Qed.

Lemma drop_sub_W : forall pre n cl, Forall (wf_pg false) cl -> Forall (wf_pg false) (drop_sub pre n cl).
Proof.
  intros pre n cl H. unfold drop_sub.
  destruct pre; [apply ExprLang.Forall_skipn'|apply ExprLang.Forall_firstn']; exact H.
Qed.

Lemma remove_substring_W : forall pre n a, W a -> W (remove_substring pre n a).
Proof.
  intros pre n a H. destruct a as [?|?|a1 a2|cl|? ?]; cbn [remove_substring]; try exact H.
  - cbn [wf_print_gen] in H. destruct H as [H1 H2]. destruct pre.
    + destruct a1; try (split; assumption). split; [apply drop_sub_W; exact H1|exact H2].
    + destruct a2; try (split; assumption). split; [exact H1|apply drop_sub_W; exact H2].
  - apply drop_sub_W. exact H.
Qed.

Lemma strip_W : forall pre p a, W a -> W (strip pre p a).
Proof. intros pre p a H. unfold strip. destruct p; [exact H|apply remove_substring_W; exact H]. Qed.

Lemma remove_substring_non_rep : forall pre n a, non_rep a -> non_rep (remove_substring pre n a).
Proof.
  intros pre n a H. destruct a as [?|?|a1 a2|cl|? ?]; cbn [remove_substring]; try exact I; try exact H.
  destruct pre; [destruct a1|destruct a2]; exact I.
Qed.

Lemma strip_non_rep : forall pre p a, non_rep a -> non_rep (strip pre p a).
Proof.
  intros pre p a H. unfold strip. destruct p; [exact H|apply remove_substring_non_rep; exact H].
Qed.

Lemma wrapP_W : forall p r, Forall (wf_pg false) p -> W r -> W (wrapP p r).
Proof. intros [|g p] r Hp Hr; cbn [wrapP]; [exact Hr|split; assumption]. Qed.
Lemma wrapS_W : forall s r, Forall (wf_pg false) s -> W r -> W (wrapS s r).
Proof. intros [|g s] r Hs Hr; cbn [wrapS]; [exact Hr|split; assumption]. Qed.

(* a repetition has no top-level value: nothing is factored out of it *)
Lemma find_common_rep_l : forall pre x q b, find_common pre (ERep x q) b = [].
Proof. intros [|] x q b; reflexivity. Qed.

(* stripping a common prefix / suffix is injective *)
Lemma strip_true_inj : forall a b p ta tb,
  value_top true a = p ++ ta -> value_top true b = p ++ tb ->
  strip true p a = strip true p b -> a = b.
Proof.
  intros a b p ta tb Ha Hb E. destruct p as [|g p']; [exact E|].
  unfold strip in E. set (p := g :: p') in *.
  destruct a as [?|?|a1 a2|cl1|? ?]; try (cbn in Ha; discriminate);
    destruct b as [?|?|b1 b2|cl2|? ?]; try (cbn in Hb; discriminate).
  - destruct a1 as [?|?|? ?|cl1|? ?]; try (cbn in Ha; discriminate).
    destruct b1 as [?|?|? ?|cl2|? ?]; try (cbn in Hb; discriminate).
    cbn [value_top] in Ha, Hb. subst cl1 cl2.
    cbn [remove_substring drop_sub] in E. rewrite !skipn_length_app in E.
    injection E as E1 E2. subst. reflexivity.
  - destruct a1 as [?|?|? ?|cl1|? ?]; try (cbn in Ha; discriminate);
      cbn [remove_substring] in E; discriminate E.
  - destruct b1 as [?|?|? ?|cl3|? ?]; try (cbn in Hb; discriminate);
      cbn [remove_substring] in E; discriminate E.
  - cbn [value_top] in Ha, Hb. subst cl1 cl2.
    cbn [remove_substring drop_sub] in E. rewrite !skipn_length_app in E.
    injection E as E1. subst. reflexivity.
Qed.

Lemma strip_false_inj : forall a b s ta tb,
  value_top false a = ta ++ s -> value_top false b = tb ++ s ->
  strip false s a = strip false s b -> a = b.
Proof.
  intros a b s ta tb Ha Hb E. destruct s as [|g s']; [exact E|].
  unfold strip in E. set (s := g :: s') in *.
  destruct a as [?|?|a1 a2|cl1|? ?]; try (cbn in Ha; destruct ta; discriminate);
    destruct b as [?|?|b1 b2|cl2|? ?]; try (cbn in Hb; destruct tb; discriminate).
  - destruct a2 as [?|?|? ?|cl1|? ?]; try (cbn in Ha; destruct ta; discriminate).
    destruct b2 as [?|?|? ?|cl2|? ?]; try (cbn in Hb; destruct tb; discriminate).
    cbn [value_top] in Ha, Hb. subst cl1 cl2.
    cbn [remove_substring drop_sub] in E. rewrite !firstn_length_app in E.
    injection E as E1 E2. subst. reflexivity.
  - destruct a2 as [?|?|? ?|cl1|? ?]; try (cbn in Ha; destruct ta; discriminate);
      cbn [remove_substring] in E; discriminate E.
  - destruct b2 as [?|?|? ?|cl3|? ?]; try (cbn in Hb; destruct tb; discriminate);
      cbn [remove_substring] in E; discriminate E.
  - cbn [value_top] in Ha, Hb. subst cl1 cl2.
    cbn [remove_substring drop_sub] in E. rewrite !firstn_length_app in E.
    injection E as E1. subst. reflexivity.
Qed.

(* ---------- single code point operands ---------- *)
Lemma wf_pg_single : forall x rs a, wf_pg false (G [[x]] rs a 1%N) ->
  rs = [] /\ a = 1%N /\ scalar x.
Proof.
  intros x rs a H. apply wf_pg_unfold in H. destruct H as (_ & HF & H3 & H4 & _ & H6 & _).
  split; [|split].
  - destruct H6 as [E|[_ Hl]]; [exact E|cbn [length] in Hl; lia].
  - lia.
  - inversion HF as [|? ? [_ Ht] _]; subst. destruct Ht as [E|Ht].
    + injection E as ->. exact scalar_92.
    + inversion Ht; subst; assumption.
Qed.

Lemma single_cp_W : forall c e, W e -> is_single_codepoint c e = true ->
  (exists cs, e = ECC cs) \/ (exists x, e = ELit [G [[x]] [] 1%N 1%N] /\ scalar x).
Proof.
  intros c e He H. destruct e as [?|cs|? ?|cl|? ?]; cbn [is_single_codepoint] in H; try discriminate.
  - left. exists cs. reflexivity.
  - right. apply andb_true_iff in H. destruct H as [H1 H2]. apply Nat.eqb_eq in H1.
    cbn [wf_print_gen] in He.
    assert (Hwf : wf_cluster cl).
    { unfold wf_cluster. eapply Forall_impl; [|exact He]. intros g. apply wf_pg_wf_g. }
    destruct (single_cluster _ _ Hwf H1) as (g & -> & Hg).
    apply N.eqb_eq in H2. destruct g as [cs rs a b]. cbn [g_max] in H2. subst b.
    inversion Hwf as [|? ? Hwg _]; subst. destruct Hwg as (Hne & HF & Ha1 & Ha2).
    inversion He as [|? ? HQ _]; subst.
    assert (Hx : exists x, cs = [[x]]).
    { unfold g_char_count in Hg. cbn [g_chars] in Hg. destruct (f_esc c).
      - apply chars_single_esc; assumption.
      - apply chars_single_plain; assumption. }
    destruct Hx as [x ->]. destruct (wf_pg_single x rs a HQ) as (-> & -> & Hs).
    exists x. split; [reflexivity|exact Hs].
Qed.

Lemma union_dflt_W : forall c e1 e2 r, W e1 -> W e2 -> e1 <> e2 ->
  union_dflt c e1 e2 = Some r -> W r.
Proof.
  intros c e1 e2 r H1 H2 Hne H. unfold union_dflt in H.
  destruct (is_single_codepoint c e1) eqn:S1; destruct (is_single_codepoint c e2) eqn:S2;
    cbn [andb] in H.
  2,3,4: injection H as <-; apply new_alternation_W; [repeat constructor; assumption|discriminate].
  destruct (single_cp_W c e1 H1 S1) as [(cs1 & ->)|(x & -> & Hx)];
    destruct (single_cp_W c e2 H2 S2) as [(cs2 & ->)|(y & -> & Hy)];
    cbn [extract_character_set g_value g_chars concat app] in H; injection H as <-;
    cbn [wf_print_gen] in *.
  - destruct H1 as (L1 & SC1 & I1 & _). destruct H2 as (L2 & SC2 & I2 & _).
    apply (wf_cc_union cs1 cs2 cs1); [exact SC1|exact SC2|exact I1|apply incr_NoDup; exact I1|exact L1|].
    intros z Hz. left. exact Hz.
  - destruct H1 as (L1 & SC1 & I1 & _).
    apply (wf_cc_union cs1 [y] cs1);
      [exact SC1|constructor; [exact Hy|constructor]|exact I1|apply incr_NoDup; exact I1|exact L1|].
    intros z Hz. left. exact Hz.
  - destruct H2 as (L2 & SC2 & I2 & _).
    apply (wf_cc_union [x] cs2 cs2);
      [constructor; [exact Hx|constructor]|exact SC2|exact I|apply incr_NoDup; exact I2|exact L2|].
    intros z Hz. right. exact Hz.
  - assert (Hxy : x <> y) by (intros ->; apply Hne; reflexivity).
    apply (wf_cc_union [x] [y] [x; y]);
      [constructor; [exact Hx|constructor]|constructor; [exact Hy|constructor]|exact I| |cbn [length]; lia|].
    + constructor; [intros [E|[]]; congruence|]. constructor; [intros []|constructor].
    + intros z [<-|[<-|[]]]; [left|right]; left; reflexivity.
Qed.

Lemma union_dflt_solid : forall c e1 e2 r, union_dflt c e1 e2 = Some r -> solid r.
Proof.
  intros c e1 e2 r H. unfold union_dflt in H.
  destruct (is_single_codepoint c e1 && is_single_codepoint c e2).
  - destruct (extract_character_set e1); [|discriminate].
    destruct (extract_character_set e2); [|discriminate].
    injection H as <-. split; [reflexivity|exact I].
  - injection H as <-. split; [reflexivity|exact I].
Qed.

(* ---------- the core of union2 ---------- *)
Lemma union_core_W : forall c e1 e2 r, W e1 -> W e2 ->
  non_rep e2 -> (non_rep e1 \/ is_empty e2 = false) -> e1 <> e2 ->
  union_core c e1 e2 = Some r -> W r.
Proof.
  intros c e1 e2 r H1 H2 N2 N1 Hne H. rewrite union_core_eq in H.
  destruct (is_empty e1). { injection H as <-. apply W_rep_q; assumption. }
  destruct (is_empty e2).
  { injection H as <-. apply W_rep_q; [exact H1|]. destruct N1 as [N1|N1]; [exact N1|discriminate]. }
  destruct (opt_body e1) as [x|] eqn:O1.
  { apply opt_body_some in O1. subst e1. apply W_rep_inv in H1. injection H as <-.
    apply W_rep_q; [|apply new_alternation_non_rep].
    apply new_alternation_W; [repeat constructor; assumption|discriminate]. }
  destruct (opt_body e2) as [y|] eqn:O2.
  { apply opt_body_some in O2. subst e2. contradiction. }
  exact (union_dflt_W c e1 e2 r H1 H2 Hne H).
Qed.

Lemma opt_body_non_rep : forall e, non_rep e -> opt_body e = None.
Proof. intros [| | | |? ?] H; try reflexivity. contradiction. Qed.

(* ---------- union2 ---------- *)
Theorem union2_W : forall c a b r, W a -> W b -> solid b -> union2 c a b = Some r -> W r.
Proof.
  intros c a b r Ha Hb [Eb Nb] H. rewrite union2_unfold in H.
  destruct (expr_eqb a b) eqn:Eab. { injection H as <-. exact Ha. }
  cbv zeta in H.
  destruct (find_common_true_spec a b) as (ta & tb & Hta & Htb).
  set (p := find_common true a b) in *.
  set (e1 := strip true p a) in *. set (e2 := strip true p b) in *.
  destruct (find_common_false_spec e1 e2) as (ta' & tb' & Hta' & Htb').
  set (s := find_common false e1 e2) in *.
  assert (W1 : W e1) by (apply strip_W; exact Ha).
  assert (W2 : W e2) by (apply strip_W; exact Hb).
  destruct (union_core c (strip false s e1) (strip false s e2)) as [r0|] eqn:C; [|discriminate].
  injection H as <-.
  apply wrapS_W; [exact (find_common_W false e1 e2 W1)|].
  apply wrapP_W; [exact (find_common_W true a b Ha)|].
  apply (union_core_W c (strip false s e1) (strip false s e2) r0);
    [apply strip_W; exact W1|apply strip_W; exact W2| | | |exact C].
  - apply strip_non_rep. apply strip_non_rep. exact Nb.
  - destruct a as [?|?|? ?|?|x q]; try (left; apply strip_non_rep; apply strip_non_rep; exact I).
    right. subst s e1 e2 p. rewrite !find_common_rep_l. cbn [strip]. exact Eb.
  - intros E. apply (strip_false_inj e1 e2 s ta' tb' Hta' Htb') in E.
    apply (strip_true_inj a b p ta tb Hta Htb) in E. subst b.
    rewrite expr_eqb_refl in Eab. discriminate.
Qed.

Theorem union2_solid : forall c a b r, solid a -> solid b -> union2 c a b = Some r -> solid r.
Proof.
  intros c a b r [Ea Na] [Eb Nb] H. rewrite union2_unfold in H.
  destruct (expr_eqb a b). { injection H as <-. split; assumption. }
  cbv zeta in H.
  set (p := find_common true a b) in *.
  set (e1 := strip true p a) in *. set (e2 := strip true p b) in *.
  set (s := find_common false e1 e2) in *.
  destruct (union_core c (strip false s e1) (strip false s e2)) as [r0|] eqn:C; [|discriminate].
  injection H as <-.
  destruct s as [|g s]; [|split; [reflexivity|exact I]].
  destruct p as [|g p]; [|split; [reflexivity|exact I]].
  cbn [wrapS wrapP]. subst e1 e2. cbn [strip] in C.
  rewrite union_core_eq, Ea, Eb, (opt_body_non_rep a Na), (opt_body_non_rep b Nb) in C.
  exact (union_dflt_solid c a b r0 C).
Qed.

Lemma union_W : forall c a b r, oW a -> oWS b -> union c a b = Some r -> oW r.
Proof.
  intros c [x|] [y|] r Ha Hb H; cbn [union] in H.
  - destruct (union2 c x y) as [r'|] eqn:E; [|discriminate]. injection H as <-.
    cbn [oW]. destruct Hb as [Hb Sb]. exact (union2_W c x y r' Ha Hb Sb E).
  - injection H as <-. exact Ha.
  - injection H as <-. exact (proj1 Hb).
  - injection H as <-. exact I.
Qed.

Lemma union_WS : forall c a b r, oWS a -> oWS b -> union c a b = Some r -> oWS r.
Proof.
  intros c [x|] [y|] r Ha Hb H; cbn [union] in H.
  - destruct (union2 c x y) as [r'|] eqn:E; [|discriminate]. injection H as <-.
    destruct Ha as [Ha Sa]. destruct Hb as [Hb Sb]. split.
    + exact (union2_W c x y r' Ha Hb Sb E).
    + exact (union2_solid c x y r' Sa Sb E).
  - injection H as <-. exact Ha.
  - injection H as <-. exact Hb.
  - injection H as <-. exact I.
Qed.

Lemma oWS_concat_l : forall x y, W x -> solid x -> oW y -> oWS (concatenate (Some x) y).
Proof.
  intros x y Hx Sx Hy.
  pose proof (concatenate_W (Some x) y Hx Hy) as HW.
  pose proof (concatenate_solid_l x y Sx) as HS.
  destruct (concatenate (Some x) y) as [r|]; [split; assumption|exact I].
Qed.

Lemma oWS_concat_r : forall x y, W x -> is_empty x = false -> oWS y -> oWS (concatenate (Some x) y).
Proof.
  intros x [y|] Hx Ex Hy; [|exact I]. destruct Hy as [Hy Sy].
  pose proof (concatenate_W (Some x) (Some y) Hx Hy) as HW.
  pose proof (concatenate_solid_r x y Ex Sy) as HS.
  destruct (concatenate (Some x) (Some y)) as [r|]; [split; assumption|exact I].
Qed.

(* ====================================================================== *)
(* C. the equation system of Expression::from                              *)
(* ====================================================================== *)

Section Matrix.
  Variable P : option expr -> Prop.
  Hypothesis P_none : P None.

  Lemma mget_F : forall a i j, Forall (Forall P) a -> P (mget a i j).
  Proof.
    intros a i j H. unfold mget. apply nth_Forall_d; [|exact P_none].
    apply (nth_Forall_d (Forall P)); [exact H|constructor].
  Qed.

  Lemma vget_F : forall b i, Forall P b -> P (vget b i).
  Proof. intros b i H. unfold vget. apply nth_Forall_d; [exact H|exact P_none]. Qed.

  Lemma mset_F : forall a i j v, Forall (Forall P) a -> P v -> Forall (Forall P) (mset a i j v).
  Proof.
    intros a i j v H Hv. unfold mset. apply set_nth_Forall; [exact H|].
    apply set_nth_Forall; [|exact Hv].
    apply (nth_Forall_d (Forall P)); [exact H|constructor].
  Qed.
End Matrix.

(* entries of the matrix: W and solid; entries of the vector: W *)
Definition sysI (s : sys) : Prop := Forall (Forall oWS) (fst s) /\ Forall oW (snd s).

Notation edges_pg := (edges_Q (wf_pg false)).

Lemma init_system_I : forall c d states s,
  edges_pg (d_edges d) -> init_system c d states = Some s -> sysI s.
Proof.
  intros c d states s Hd H. unfold init_system in H. revert H.
  apply (fold_left_opt_inv _ sysI).
  - intros [i st]. reflexivity.
  - intros [a b] [i st] s' _ [Ha Hb] H. cbn [fst snd] in *. revert H.
    apply (fold_left_opt_inv _ sysI).
    + intros e. reflexivity.
    + intros [a1 b1] e s1 Hin [Ha1 Hb1] H. cbn [fst snd] in *.
      assert (HQ : wf_pg false (e_lbl e)).
      { unfold out_edges in Hin. apply filter_In in Hin. destruct Hin as [Hin _].
        apply in_rev in Hin. unfold edges_Q in Hd. rewrite Forall_forall in Hd. exact (Hd e Hin). }
      assert (HL : W (ELit [e_lbl e])) by (cbn [wf_print_gen]; constructor; [exact HQ|constructor]).
      assert (SL : solid (ELit [e_lbl e])) by (split; [reflexivity|exact I]).
      destruct (position (e_dst e) states 0) as [j|]; [|discriminate].
      pose proof (mget_F oWS I a1 i j Ha1) as Hold.
      destruct (mget a1 i j) as [old|].
      * destruct (union2 c old (ELit [e_lbl e])) as [u|] eqn:U; [|discriminate].
        injection H as <-. split; cbn [fst snd]; [|exact Hb1].
        apply (mset_F oWS); [exact Ha1|]. destruct Hold as [Hold Sold]. split.
        -- exact (union2_W c _ _ u Hold HL SL U).
        -- exact (union2_solid c _ _ u Sold SL U).
      * injection H as <-. split; cbn [fst snd]; [|exact Hb1].
        apply (mset_F oWS); [exact Ha1|]. split; assumption.
    + split; cbn [fst snd]; [exact Ha|].
      destruct (set_mem st (d_finals d)); [|exact Hb].
      apply set_nth_Forall; [exact Hb|]. cbn [oW wf_print_gen]. constructor.
  - split; cbn [fst snd].
    + apply Forall_repeat. apply Forall_repeat. exact I.
    + apply Forall_repeat. exact I.
Qed.

Lemma elim_pre_I : forall a b n, sysI (a, b) -> sysI (elim_pre a b n).
Proof.
  intros a b n [Ha Hb]. cbn [fst snd] in *. unfold elim_pre.
  pose proof (mget_F oWS I a n n Ha) as Hann.
  destruct (mget a n n) as [ann|]; [|split; assumption].
  destruct Hann as [Hann _]. cbv zeta. cbn [star].
  assert (Hs : W (ERep ann QStar)) by (apply W_rep_star; exact Hann).
  split; cbn [fst snd].
  - apply (fold_left_inv_in (fun a => Forall (Forall oWS) a)); [|exact Ha].
    intros a' j _ Ha'. apply (mset_F oWS); [exact Ha'|].
    apply oWS_concat_r; [exact Hs|reflexivity|apply (mget_F oWS I); exact Ha'].
  - apply set_nth_Forall; [exact Hb|].
    apply (concatenate_W (Some (ERep ann QStar))); [exact Hs|apply (vget_F oW I); exact Hb].
Qed.

Lemma elim_step_I : forall c s n s', sysI s -> elim_step c (Some s) n = Some s' -> sysI s'.
Proof.
  intros c [a b] n s' Hs H.
  pose proof (elim_pre_I a b n Hs) as Hpre.
  change (elim_step c (Some (a, b)) n) with
    (let '(a0, b0) := elim_pre a b n in
     fold_left
       (fun (acc : option sys) i =>
          match acc with
          | None => None
          | Some (a, b) =>
              match mget a i n with
              | None => Some (a, b)
              | Some ain =>
                  match union c (vget b i) (concatenate (Some ain) (vget b n)) with
                  | None => None
                  | Some bi =>
                      let b := set_nth b i bi in
                      fold_left
                        (fun (acc : option sys) j =>
                           match acc with
                           | None => None
                           | Some (a, b) =>
                               match union c (mget a i j) (concatenate (Some ain) (mget a n j)) with
                               | None => None
                               | Some aij => Some (mset a i j aij, b)
                               end
                           end)
                        (seq 0 n) (Some (a, b))
                  end
              end
          end)
       (seq 0 n) (Some (a0, b0))) in H.
  destruct (elim_pre a b n) as [a0 b0]. revert H.
  apply (fold_left_opt_inv _ sysI); [intros x; reflexivity| |exact Hpre].
  intros [a1 b1] i s1 _ [Ha1 Hb1] H. cbn [fst snd] in *.
  pose proof (mget_F oWS I a1 i n Ha1) as Hain.
  destruct (mget a1 i n) as [ain|]; [|injection H as <-; split; assumption].
  destruct Hain as [Hain Sain].
  destruct (union c (vget b1 i) (concatenate (Some ain) (vget b1 n))) as [bi|] eqn:U; [|discriminate].
  assert (Hbi : oW bi).
  { refine (union_W c _ _ bi _ _ U); [apply (vget_F oW I); exact Hb1|].
    apply oWS_concat_l; [exact Hain|exact Sain|apply (vget_F oW I); exact Hb1]. }
  cbv zeta in H. revert H.
  apply (fold_left_opt_inv _ sysI); [intros x; reflexivity| |].
  - intros [a2 b2] j s2 _ [Ha2 Hb2] H. cbn [fst snd] in *.
    destruct (union c (mget a2 i j) (concatenate (Some ain) (mget a2 n j))) as [aij|] eqn:U2;
      [|discriminate].
    injection H as <-. split; cbn [fst snd]; [|exact Hb2].
    apply (mset_F oWS); [exact Ha2|].
    refine (union_WS c _ _ aij _ _ U2); [apply (mget_F oWS I); exact Ha2|].
    apply oWS_concat_l; [exact Hain|exact Sain|].
    apply oWS_oW. apply (mget_F oWS I). exact Ha2.
  - split; cbn [fst snd]; [exact Ha1|]. apply set_nth_Forall; [exact Hb1|exact Hbi].
Qed.

Theorem expr_from_W : forall c d e, edges_pg (d_edges d) -> expr_from c d = Some e -> W e.
Proof.
  intros c d e Hd H. unfold expr_from in H.
  destruct (dfs_order d) as [states|]; [|discriminate].
  destruct (fold_left (elim_step c) (rev (seq 0 (d_n d))) (init_system c d states))
    as [[a b]|] eqn:F; [|discriminate].
  assert (Hs : sysI (a, b)).
  { destruct (init_system c d states) as [s0|] eqn:I0.
    - revert F. apply (fold_left_opt_inv _ sysI).
      + intros x. reflexivity.
      + intros s x s' _ Hs Hst. exact (elim_step_I c s x s' Hs Hst).
      + exact (init_system_I c d states s0 Hd I0).
    - rewrite (fold_left_none (elim_step c)) in F; [discriminate|]. intros x. reflexivity. }
  destruct Hs as [_ Hb]. cbn [snd] in Hb.
  destruct b as [|[e0|] b'].
  - injection H as <-. cbn [wf_print_gen]. constructor.
  - injection H as <-. inversion Hb as [|? ? He0 _]; subst. exact He0.
  - injection H as <-. cbn [wf_print_gen]. constructor.
Qed.

(* ====================================================================== *)
(* D. the pipeline                                                         *)
(* ====================================================================== *)

Theorem final_expr_W : forall c cls sc e,
  Forall (Forall (wf_pg false)) cls -> cls <> [] ->
  Pipeline.final_expr c cls sc = Some e -> W e.
Proof.
  intros c cls sc e Hw Hne H. unfold Pipeline.final_expr in H.
  destruct (dfa_from cls true) as [d1|] eqn:D1; [|discriminate].
  destruct (expr_from c d1) as [e1|] eqn:E1; [|discriminate].
  assert (H1 : W e1).
  { destruct (dfa_from_labels (wf_pg false) wf_pg_widen cls true d1 Hw D1) as [I1 _].
    exact (expr_from_W c d1 e1 I1 E1). }
  assert (HA : W (new_alternation (map ELit cls))).
  { apply new_alternation_W.
    - apply Forall_map. eapply Forall_impl; [|exact Hw]. intros cl Hcl. exact Hcl.
    - destruct cls; [congruence|discriminate]. }
  destruct (f_no_start c && f_no_end c); [|injection H as <-; exact H1].
  destruct sc; try (injection H as <-; exact H1);
    destruct (dfa_from cls false) as [d2|] eqn:D2; try discriminate;
    destruct (expr_from c d2) as [e2|] eqn:E2; try discriminate;
    injection H as <-.
  - destruct (dfa_from_labels (wf_pg false) wf_pg_widen cls false d2 Hw D2) as [I2 _].
    exact (expr_from_W c d2 e2 I2 E2).
  - exact HA.
Qed.

(* THE THEOREM: the expression built from scalar-valued test cases is printable; classes may
   straddle the surrogate gap *)
Theorem final_expr_wf_print : forall c db sc ws e,
  ws <> [] ->
  Forall (Forall scalar) ws ->
  (forall s, In s ws -> Forall scalar (lower' db s)) ->
  oracle_ok db (normalise c db ws) ->
  Pipeline.final_expr c (grapheme_clusters c db (normalise c db ws)) sc = Some e ->
  wf_print_gen True e.
Proof.
  intros c db sc ws e Hws Hsc Hlow Hok H.
  apply (final_expr_W c (grapheme_clusters c db (normalise c db ws)) sc e); [| |exact H].
  - apply grapheme_clusters_wf_pg; [|exact Hok]. apply normalise_scalar; assumption.
  - intros E. apply (normalise_nonempty c db ws Hws).
    apply length_zero_iff_nil. rewrite <- (grapheme_clusters_length c db (normalise c db ws)).
    rewrite E. reflexivity.
Qed.

(* ... with the hypothesis on lower-casing derived from the oracle table *)
Corollary final_expr_wf_print_db : forall c db sc ws e,
  ws <> [] ->
  Forall (Forall scalar) ws ->
  Forall (fun o => Forall scalar (o_lower o)) db ->
  oracle_ok db (normalise c db ws) ->
  Pipeline.final_expr c (grapheme_clusters c db (normalise c db ws)) sc = Some e ->
  wf_print_gen True e.
Proof.
  intros c db sc ws e Hws Hsc Hdb Hok H.
  exact (final_expr_wf_print c db sc ws e Hws Hsc (lower_scalar_of_db db ws Hsc Hdb) Hok H).
Qed.

(* ---------- without the surrogate gap ---------- *)
(* the character classes of an expression, wherever they occur *)
Inductive class_in (cs : list cp) : expr -> Prop :=
| cli_alt : forall os o, In o os -> class_in cs o -> class_in cs (EAlt os)
| cli_cat_l : forall a b, class_in cs a -> class_in cs (ECat a b)
| cli_cat_r : forall a b, class_in cs b -> class_in cs (ECat a b)
| cli_cc : class_in cs (ECC cs)
| cli_rep : forall e q, class_in cs e -> class_in cs (ERep e q).

Definition no_gap_class (e : expr) : Prop :=
  forall cs, class_in cs e -> ~ (In 55295%N cs /\ In 57344%N cs).

Lemma wf_print_of_gen : forall e, wf_print_gen True e -> no_gap_class e -> wf_print e.
Proof.
  unfold wf_print, no_gap_class.
  induction e as [os IH|cs|a b IHa IHb|cl|x q IHx] using expr_ind'; intros H Hng.
  - apply wf_print_alt in H. apply wf_print_alt. destruct H as [Hne H]. split; [exact Hne|].
    rewrite Forall_forall in *. intros o Ho. apply (IH o Ho (H o Ho)).
    intros cs Hcs. apply Hng. exact (cli_alt cs os o Ho Hcs).
  - cbn [wf_print_gen] in *. destruct H as (H1 & H2 & H3 & _).
    split; [exact H1|]. split; [exact H2|]. split; [exact H3|]. right. apply Hng. constructor.
  - cbn [wf_print_gen] in *. destruct H as [Ha Hb]. split.
    + apply IHa; [exact Ha|]. intros cs Hcs. apply Hng. apply cli_cat_l. exact Hcs.
    + apply IHb; [exact Hb|]. intros cs Hcs. apply Hng. apply cli_cat_r. exact Hcs.
  - exact H.
  - cbn [wf_print_gen] in *. destruct H as [Hx Hq]. split; [|exact Hq].
    apply IHx; [exact Hx|]. intros cs Hcs. apply Hng. apply cli_rep. exact Hcs.
Qed.

Theorem final_expr_wf_print_nogap : forall c db sc ws e,
  ws <> [] ->
  Forall (Forall scalar) ws ->
  (forall s, In s ws -> Forall scalar (lower' db s)) ->
  oracle_ok db (normalise c db ws) ->
  Pipeline.final_expr c (grapheme_clusters c db (normalise c db ws)) sc = Some e ->
  no_gap_class e ->
  wf_print e.
Proof.
  intros c db sc ws e Hws Hsc Hlow Hok H Hng.
  apply wf_print_of_gen; [|exact Hng].
  exact (final_expr_wf_print c db sc ws e Hws Hsc Hlow Hok H).
Qed.

(* ---------- a sufficient condition on the inputs ---------- *)
(* a code point z (neither the backslash nor a class letter) that occurs in no normalised test
   case occurs in no grapheme of the clusters, hence (provenance) in no character class *)
Section Avoid.
  Variable z : cp.
  Hypothesis z_not_bs : z <> 92%N.
  Hypothesis z_not_letter : is_class_letter z = false.

  Definition avoids (t : str) : Prop := ~ In z t.
  Definition av_g (g : grapheme) : Prop := Forall avoids (g_chars g).

  Lemma avoids_tokens : forall c t, avoids t -> avoids (flat_map (class_token c class_chain) t).
  Proof.
    unfold avoids. intros c t. induction t as [|x t IH]; intros H; cbn [flat_map]; [exact H|].
    intros Hin. apply in_app_or in Hin. destruct Hin as [Hin|Hin].
    - destruct (class_token_shape c x) as [E|(l & E & Hl)]; rewrite E in Hin.
      + destruct Hin as [<-|[]]. apply H. left. reflexivity.
      + destruct Hin as [E1|[<-|[]]]; [apply z_not_bs; symmetry; exact E1|congruence].
    - apply IH; [|exact Hin]. intros Hz. apply H. right. exact Hz.
  Qed.

  Lemma cluster_gk_av : forall c db s, avoids s -> length (cat_of db s) = length s ->
    Forall av_g (cluster_k c (cluster_g db s)).
  Proof.
    intros c db s Hs Hlen.
    assert (HG : Forall (fun g => exists t, g = G [t] [] 1%N 1%N /\ avoids t) (cluster_g db s)).
    { apply Forall_forall. intros g Hg.
      pose proof (cluster_of_shape (seg_of db s) (cat_of db s) s) as Hsh.
      rewrite Forall_forall in Hsh. destruct (Hsh g Hg) as (t & -> & _ & _).
      exists t. split; [reflexivity|]. intros Hz. apply Hs.
      apply (cluster_g_members db s (G [t] [] 1%N 1%N) z Hlen Hg).
      unfold g_value. cbn [g_chars concat]. rewrite app_nil_r. exact Hz. }
    unfold cluster_k. destruct (char_class_feature c).
    - unfold convert_classes. apply Forall_map. eapply Forall_impl; [|exact HG].
      intros g (t & -> & Ht). unfold av_g. cbn [convert_classes_g g_chars map].
      constructor; [apply avoids_tokens; exact Ht|constructor].
    - eapply Forall_impl; [|exact HG]. intros g (t & -> & Ht). unfold av_g. cbn [g_chars].
      constructor; [exact Ht|constructor].
  Qed.

  Lemma plain_value_av : forall g, plain g -> av_g g -> avoids (g_value g).
  Proof.
    intros g [t ->] Ht. unfold g_value, av_g in *. cbn [g_chars concat] in *.
    rewrite app_nil_r. inversion Ht; subst. assumption.
  Qed.

  Lemma av_g_relabel : forall fuel c g, av_g g -> av_g (relabel fuel c g).
  Proof. intros fuel c [cs rs a b] H. exact H. Qed.

  Lemma conv_reps_av : forall c fuel gs,
    Forall plain gs -> Forall av_g gs -> Forall av_g (conv_reps fuel c gs).
  Proof.
    intros c [|fuel] gs Hpl Hav; [constructor|].
    destruct (conv_reps_S fuel c gs) as [E|E]; rewrite E; [constructor|].
    apply Forall_map. apply splice_all_Forall.
    - eapply Forall_impl; [|exact Hav]. intros g Hg. apply av_g_relabel. exact Hg.
    - intros s e sub Hin _. apply av_g_relabel. unfold av_g, g_new. cbn [g_chars].
      apply in_co_of in Hin. destruct Hin as [idx [Hidx _]].
      destruct (collect_ok gs sub idx Hidx) as [Hne Hocc].
      destruct idx as [|i idx]; [congruence|].
      destruct (Hocc i (or_introl eq_refl)) as [_ Hp]. rewrite <- Hp.
      apply Forall_map. apply RepInv.Forall_firstn'. apply RepInv.Forall_skipn'.
      rewrite Forall_forall in *. intros g Hg.
      apply plain_value_av; [exact (Hpl g Hg)|exact (Hav g Hg)].
  Qed.

  Lemma cluster_r_av : forall c cl, Forall plain cl -> Forall av_g cl -> Forall av_g (cluster_r c cl).
  Proof.
    intros c cl Hpl Hav. unfold cluster_r. destruct (f_rep c); [|exact Hav].
    unfold convert_repetitions.
    destruct (conv_reps (S (length cl)) c cl) as [|g r] eqn:E; [exact Hav|].
    rewrite <- E. apply conv_reps_av; assumption.
  Qed.

  Lemma grapheme_clusters_av : forall c db tcs, Forall avoids tcs -> oracle_ok db tcs ->
    Forall (Forall av_g) (grapheme_clusters c db tcs).
  Proof.
    intros c db tcs Hav Hok. rewrite grapheme_clusters_map. apply Forall_map.
    apply Forall_forall. intros s Hs.
    apply cluster_r_av; [apply cluster_gk_plain|].
    apply cluster_gk_av; [rewrite Forall_forall in Hav; exact (Hav s Hs)|exact (Hok s Hs)].
  Qed.

  Lemma av_g_widen : forall g h, av_g g -> av_g h ->
    g_chars g = g_chars h -> g_max g = (g_max h - 1)%N ->
    av_g (g_new (g_chars h) (N.min (g_min g) (g_min h)) (N.max (g_max g) (g_max h))).
  Proof. intros g h _ Hh _ _. exact Hh. Qed.

  Theorem final_expr_avoids : forall c db tcs sc e,
    Forall avoids tcs -> oracle_ok db tcs ->
    Pipeline.final_expr c (grapheme_clusters c db tcs) sc = Some e ->
    forall cs, class_in cs e -> ~ In z cs.
  Proof.
    intros c db tcs sc e Hav Hok H cs Hcs Hz.
    pose proof (final_expr_all_Q av_g av_g_widen c _ sc e
                  (grapheme_clusters_av c db tcs Hav Hok) (grapheme_clusters_wf c db tcs) H) as HA.
    assert (Hin : cc_in z e).
    { clear -Hcs Hz. induction Hcs as [os o Ho _ IH|a b _ IH|a b _ IH| |e q _ IH].
      - exact (ci_alt z os o Ho IH).
      - apply ci_cat_l. exact IH.
      - apply ci_cat_r. exact IH.
      - apply ci_cc. exact Hz.
      - apply ci_rep. exact IH. }
    destruct (expr_all_cc_in av_g e z HA Hin) as (g & Hg & Hc & _).
    unfold av_g in Hg. rewrite Hc in Hg. inversion Hg as [|? ? Hgz _]; subst.
    apply Hgz. left. reflexivity.
  Qed.
End Avoid.

(* when U+D7FF or U+E000 occurs in no (normalised) test case, no class straddles the gap *)
Theorem final_expr_wf_print_inputs : forall c db sc ws e,
  ws <> [] ->
  Forall (Forall scalar) ws ->
  (forall s, In s ws -> Forall scalar (lower' db s)) ->
  oracle_ok db (normalise c db ws) ->
  (Forall (fun s => ~ In 55295%N s) (normalise c db ws)
   \/ Forall (fun s => ~ In 57344%N s) (normalise c db ws)) ->
  Pipeline.final_expr c (grapheme_clusters c db (normalise c db ws)) sc = Some e ->
  wf_print e.
Proof.
  intros c db sc ws e Hws Hsc Hlow Hok Hav H.
  apply (final_expr_wf_print_nogap c db sc ws e Hws Hsc Hlow Hok H).
  intros cs Hcs [H1 H2]. destruct Hav as [Hav|Hav].
  - exact (final_expr_avoids 55295%N ltac:(discriminate) eq_refl c db _ sc e Hav Hok H cs Hcs H1).
  - exact (final_expr_avoids 57344%N ltac:(discriminate) eq_refl c db _ sc e Hav Hok H cs Hcs H2).
Qed.

(* REMARKS
   - (iv) holds: `ERep x QQuestion` is never built around a repetition.  The invariant of the
     equation system is: every entry of the matrix `a` is W and solid (neither the empty literal
     nor a repetition at top level); every entry of the vector `b` is W.  The second operand of
     every union is `concatenate (Some a_in) _` with a_in solid, hence solid (concatenate_solid_l);
     a first operand that is a repetition (only possible in `b`) has no top-level value, so
     nothing is factored out and the second operand is not emptied (union2_W).
   - (ii) two single-code-point operands that reach the class branch are different expressions:
     the structural test expr_eqb is reflexive (expr_eqb_refl) and factoring out the common
     prefix / suffix is injective (strip_true_inj, strip_false_inj).
   - (iii) needs a non-empty list of clusters (SCFail with no cluster would print `EAlt []`);
     it follows from ws <> []. *)

Check grapheme_clusters_wf_pg.
Check expr_eqb_refl.
Check union2_W.
Check union2_solid.
Check expr_from_W.
Check final_expr_W.
Check final_expr_wf_print.
Check final_expr_wf_print_db.
Check final_expr_wf_print_nogap.
Check final_expr_wf_print_inputs.
Print Assumptions final_expr_wf_print.
Print Assumptions final_expr_wf_print_db.
Print Assumptions final_expr_wf_print_nogap.
Print Assumptions final_expr_wf_print_inputs.
