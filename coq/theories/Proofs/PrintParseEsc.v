(* Printing theorem, part 2: what escape_regexp_symbols / escape_g / the final \v \f replacements
   do to a tokenised string, character by character, and how the parser reads each rendering. *)
From Grex Require Import Base.Str Model.Config Model.Cluster Model.Dfa Model.Expr Model.Print.
From Grex Require Import Engine.Syntax Engine.Parse.
From Grex Require Import Proofs.Lang Proofs.EscapeProps.
From Grex Require Import Proofs.PrintParseNum Proofs.PrintParseStep Proofs.PrintParseDefs.
From GrexGen Require Import SrcConsts.

(* ---------- flat_map algebra ---------- *)
Lemma flat_map_flat_map : forall {A B C} (f : A -> list B) (g : B -> list C) (l : list A),
  flat_map g (flat_map f l) = flat_map (fun x => flat_map g (f x)) l.
Proof.
  intros A B C f g l. induction l as [|x l IH]; [reflexivity|].
  cbn [flat_map]. rewrite flat_map_app, IH. reflexivity.
Qed.

Lemma flat_map_map' : forall {A B C} (f : A -> B) (g : B -> list C) (l : list A),
  flat_map g (map f l) = flat_map (fun x => g (f x)) l.
Proof.
  intros A B C f g l. induction l as [|x l IH]; [reflexivity|].
  cbn [map flat_map]. rewrite IH. reflexivity.
Qed.

Lemma flat_map_concat : forall {A B} (f : A -> list B) (l : list (list A)),
  flat_map f (concat l) = concat (map (flat_map f) l).
Proof.
  intros A B f l. induction l as [|x l IH]; [reflexivity|].
  cbn [concat map]. rewrite flat_map_app, IH. reflexivity.
Qed.

Lemma flat_map_id_when : forall {A} (f : A -> list A) (l : list A),
  Forall (fun x => f x = [x]) l -> flat_map f l = l.
Proof.
  intros A f l H. induction H as [|x l Hx _ IH]; [reflexivity|].
  cbn [flat_map]. rewrite Hx, IH. reflexivity.
Qed.

(* ---------- the global \v \f replacement ---------- *)
Definition vf1 (x : cp) : str :=
  if N.eqb x 11 then [92; 118]%N else if N.eqb x 12 then [92; 102]%N else [x].

Lemma vf_flat : forall s, vf s = flat_map vf1 s.
Proof.
  intros s. unfold vf, replace_cp. rewrite flat_map_flat_map.
  apply flat_map_ext. intros x. unfold vf1.
  destruct (N.eqb_spec x 11) as [->|H11]; [reflexivity|].
  cbn [flat_map]. rewrite app_nil_r. reflexivity.
Qed.

Lemma vf_app : forall a b, vf (a ++ b) = vf a ++ vf b.
Proof. intros a b. rewrite !vf_flat. apply flat_map_app. Qed.

Lemma vf_nil : vf [] = [].
Proof. reflexivity. Qed.

Lemma vf_concat : forall l, vf (concat l) = concat (map vf l).
Proof.
  intros l. induction l as [|x l IH]; [reflexivity|].
  cbn [concat map]. rewrite vf_app, IH. reflexivity.
Qed.

Lemma vf_flat_map : forall {A} (f : A -> str) (l : list A),
  vf (flat_map f l) = flat_map (fun x => vf (f x)) l.
Proof.
  intros A f l. induction l as [|x l IH]; [reflexivity|].
  cbn [flat_map]. rewrite vf_app, IH. reflexivity.
Qed.

Lemma vf_id : forall s, Forall (fun x => x <> 11%N /\ x <> 12%N) s -> vf s = s.
Proof.
  intros s H. rewrite vf_flat. apply flat_map_id_when.
  eapply Forall_impl; [|exact H]. intros x [H1 H2]. unfold vf1.
  apply N.eqb_neq in H1. apply N.eqb_neq in H2. rewrite H1, H2. reflexivity.
Qed.

Lemma vf_dec : forall n, vf (dec_of_N n) = dec_of_N n.
Proof.
  intros n. apply vf_id. eapply Forall_impl; [|apply dec_of_N_digits].
  intros x [H1 H2]. unfold cp in *. split; lia.
Qed.

Lemma vf_hex : forall n, vf (hex_of_N n) = hex_of_N n.
Proof.
  intros n. apply vf_id. eapply Forall_impl; [|apply hex_of_N_digits].
  intros x [[H1 H2]|[H1 H2]]; unfold cp in *; split; lia.
Qed.

(* ---------- escape_regexp_symbols, one character at a time ---------- *)
Definition esc1 (y : cp) : str :=
  if mem_cp y chars_to_escape then [92%N; y]
  else if N.eqb y 10 then [92; 110]%N
  else if N.eqb y 13 then [92; 114]%N
  else if N.eqb y 9 then [92; 116]%N
  else [y].

Lemma fold_replace : forall (l : list cp) (s : str),
  NoDup l -> ~ In 92%N l ->
  fold_left (fun s x => replace_cp x [c_backslash; x] s) l s
  = flat_map (fun y => if mem_cp y l then [92%N; y] else [y]) s.
Proof.
  induction l as [|x l IH]; intros s Hnd H92.
  - cbn [fold_left mem_cp]. symmetry. apply flat_map_id_when.
    apply Forall_forall. intros; reflexivity.
  - inversion Hnd as [|? ? Hx Hnd']; subst.
    cbn [fold_left]. rewrite IH; [|exact Hnd'|intros X; apply H92; right; exact X].
    unfold replace_cp. rewrite flat_map_flat_map. apply flat_map_ext. intros y.
    cbn [mem_cp]. destruct (N.eqb_spec y x) as [->|Hyx].
    + cbn [orb flat_map app].
      assert (E1 : mem_cp c_backslash l = false).
      { destruct (mem_cp c_backslash l) eqn:E; [|reflexivity].
        exfalso. apply H92. right. apply mem_cp_true_in. exact E. }
      assert (E2 : mem_cp x l = false).
      { destruct (mem_cp x l) eqn:E; [|reflexivity].
        exfalso. apply Hx. apply mem_cp_true_in. exact E. }
      rewrite E1, E2. reflexivity.
    + cbn [orb flat_map]. rewrite app_nil_r. reflexivity.
Qed.

Lemma chars_to_escape_nodup : NoDup chars_to_escape.
Proof. unfold chars_to_escape. repeat (constructor; [cbn [In]; intuition discriminate|]). constructor. Qed.

Lemma chars_to_escape_no_bs : ~ In 92%N chars_to_escape.
Proof. unfold chars_to_escape. cbn [In]. intuition discriminate. Qed.

(* facts about the members of chars_to_escape, by computation *)
Definition special_ok (y : cp) : bool :=
  N.ltb y 128 && negb (N.eqb y 11) && negb (N.eqb y 12) && is_meta y
  && negb (N.eqb y 92) && negb (N.eqb y 10) && negb (N.eqb y 13) && negb (N.eqb y 9)
  && negb (N.eqb y 117).

Lemma special_ok_all : forallb special_ok chars_to_escape = true.
Proof. vm_compute. reflexivity. Qed.

Lemma special_facts : forall y, mem_cp y chars_to_escape = true ->
  (y < 128)%N /\ y <> 11%N /\ y <> 12%N /\ is_meta y = true /\ y <> 92%N
  /\ y <> 10%N /\ y <> 13%N /\ y <> 9%N /\ y <> 117%N.
Proof.
  intros y H. apply mem_cp_true_in in H.
  pose proof special_ok_all as HA. rewrite forallb_forall in HA. specialize (HA y H).
  unfold special_ok in HA.
  repeat (apply andb_true_iff in HA; destruct HA as [HA ?]).
  repeat match goal with
         | X : negb (N.eqb _ _) = true |- _ => apply negb_true_iff in X; apply N.eqb_neq in X
         end.
  apply N.ltb_lt in HA. repeat split; assumption.
Qed.

(* the parser's special characters are all escaped by the printer *)
Lemma loop_special_escaped :
  forallb (fun z => mem_cp z chars_to_escape || N.eqb z 92) loop_special = true.
Proof. vm_compute. reflexivity. Qed.

Lemma plain_not_special : forall y,
  mem_cp y chars_to_escape = false -> y <> 92%N -> mem_cp y loop_special = false.
Proof.
  intros y H H92. destruct (mem_cp y loop_special) eqn:E; [|reflexivity]. exfalso.
  apply mem_cp_true_in in E.
  pose proof loop_special_escaped as HA. rewrite forallb_forall in HA. specialize (HA y E).
  apply orb_true_iff in HA. destruct HA as [HA|HA]; [congruence|].
  apply N.eqb_eq in HA. contradiction.
Qed.

Lemma esc1_nonempty : forall y, esc1 y <> [].
Proof.
  intros y. unfold esc1.
  destruct (mem_cp y chars_to_escape); [discriminate|].
  destruct (N.eqb y 10); [discriminate|]. destruct (N.eqb y 13); [discriminate|].
  destruct (N.eqb y 9); discriminate.
Qed.

Lemma escape_symbols_flat : forall s,
  escape_symbols_str s
  = let s' := flat_map esc1 s in if str_eqb s' [c_backslash] then [c_backslash; c_backslash] else s'.
Proof.
  intros s. unfold escape_symbols_str. cbv zeta.
  rewrite fold_replace by (apply chars_to_escape_nodup || apply chars_to_escape_no_bs).
  unfold replace_cp.
  set (f0 := fun y : cp => if mem_cp y chars_to_escape then [92%N; y] else [y]).
  set (f1 := fun x : N => if N.eqb x c_nl then [c_backslash; 110%N] else [x]).
  set (f2 := fun x : N => if N.eqb x c_cr then [c_backslash; 114%N] else [x]).
  set (f3 := fun x : N => if N.eqb x c_tab then [c_backslash; 116%N] else [x]).
  assert (E : forall y, flat_map f3 (flat_map f2 (flat_map f1 (f0 y))) = esc1 y).
  { intros y. unfold esc1, f0, f1, f2, f3. destruct (mem_cp y chars_to_escape) eqn:Em.
    - destruct (special_facts y Em) as (_ & _ & _ & _ & _ & H10 & H13 & H9 & _).
      unfold c_nl, c_cr, c_tab, c_backslash. cbn [flat_map app].
      apply N.eqb_neq in H10. apply N.eqb_neq in H13. apply N.eqb_neq in H9.
      change (N.eqb 92 10) with false. cbn iota. cbn [app flat_map].
      rewrite H10. cbn [app flat_map]. change (N.eqb 92 13) with false. cbn iota. cbn [app].
      rewrite H13. cbn [app flat_map]. change (N.eqb 92 9) with false. cbn iota. cbn [app].
      rewrite H9. reflexivity.
    - unfold c_nl, c_cr, c_tab, c_backslash. cbn [flat_map].
      destruct (N.eqb_spec y 10) as [->|H10]; [reflexivity|].
      cbn [app flat_map].
      destruct (N.eqb_spec y 13) as [->|H13]; [reflexivity|].
      cbn [app flat_map]. rewrite app_nil_r. reflexivity. }
  rewrite (flat_map_flat_map f0 f1 s).
  rewrite (flat_map_flat_map _ f2 s).
  rewrite (flat_map_flat_map _ f3 s).
  rewrite (flat_map_ext _ _ E). reflexivity.
Qed.

(* ---------- rendering of one code point ---------- *)
Section Rend.
  Variable c : cfg.
  Hypothesis Hp : printable c.

  Definition nonascii_esc (s : str) : str :=
    if f_esc c then flat_map (escape_cp (f_sur c)) s else s.

  (* before / after the final \v \f replacement *)
  Definition rend0 (y : cp) : str := nonascii_esc (esc1 y).
  Definition rend (y : cp) : str := vf (rend0 y).

  Lemma nonascii_esc_flat_map : forall {A} (f : A -> str) (l : list A),
    nonascii_esc (flat_map f l) = flat_map (fun x => nonascii_esc (f x)) l.
  Proof.
    intros A f l. unfold nonascii_esc. destruct (f_esc c); [|reflexivity].
    apply flat_map_flat_map.
  Qed.

  Lemma nonascii_esc_ascii : forall s, Forall (fun x => (x < 128)%N) s -> nonascii_esc s = s.
  Proof.
    intros s H. unfold nonascii_esc. destruct (f_esc c); [|reflexivity].
    apply flat_map_id_when. eapply Forall_impl; [|exact H].
    intros x Hx. apply escape_cp_ascii_id. exact Hx.
  Qed.

  Lemma rend0_special : forall y, mem_cp y chars_to_escape = true -> rend0 y = [92%N; y].
  Proof.
    intros y H. unfold rend0, esc1. rewrite H.
    destruct (special_facts y H) as (Hlt & _).
    apply nonascii_esc_ascii. constructor; [reflexivity|constructor; [exact Hlt|constructor]].
  Qed.

  Lemma rend0_ctl : forall y z, mem_cp y chars_to_escape = false ->
    (y = 10%N /\ z = 110%N) \/ (y = 13%N /\ z = 114%N) \/ (y = 9%N /\ z = 116%N) ->
    rend0 y = [92%N; z].
  Proof.
    intros y z Hm H. unfold rend0, esc1. rewrite Hm.
    destruct H as [[-> ->]|[[-> ->]|[-> ->]]]; cbn [N.eqb Pos.eqb];
      apply nonascii_esc_ascii; repeat constructor; unfold cp; lia.
  Qed.

  Definition is_ctl (y : cp) : bool := N.eqb y 10 || N.eqb y 13 || N.eqb y 9.

  Lemma esc1_plain : forall y, mem_cp y chars_to_escape = false -> is_ctl y = false -> esc1 y = [y].
  Proof.
    intros y Hm Hc. unfold esc1. rewrite Hm. unfold is_ctl in Hc.
    apply orb_false_elim in Hc. destruct Hc as [Hc H9].
    apply orb_false_elim in Hc. destruct Hc as [H10 H13].
    rewrite H10, H13, H9. reflexivity.
  Qed.

  Lemma rend0_plain_ascii : forall y, mem_cp y chars_to_escape = false -> is_ctl y = false ->
    (y < 128)%N -> rend0 y = [y].
  Proof.
    intros y Hm Hc Hlt. unfold rend0. rewrite esc1_plain by assumption.
    apply nonascii_esc_ascii. repeat constructor. exact Hlt.
  Qed.

  Lemma rend0_plain_raw : forall y, mem_cp y chars_to_escape = false -> is_ctl y = false ->
    f_esc c = false -> rend0 y = [y].
  Proof.
    intros y Hm Hc He. unfold rend0. rewrite esc1_plain by assumption.
    unfold nonascii_esc. rewrite He. reflexivity.
  Qed.

  Lemma rend0_plain_u : forall y, mem_cp y chars_to_escape = false -> is_ctl y = false ->
    (128 <= y)%N -> f_esc c = true -> rend0 y = [92; 117; 123]%N ++ hex_of_N y ++ [125%N].
  Proof.
    intros y Hm Hc Hge He. unfold rend0. rewrite esc1_plain by assumption.
    unfold nonascii_esc. rewrite He. cbn [flat_map]. rewrite app_nil_r.
    apply escape_cp_unicode; [exact Hge|]. left. apply Hp.
  Qed.

  (* the shapes of a rendering *)
  Inductive rshape (y : cp) : str -> Prop :=
  | rs_raw : mem_cp y chars_to_escape = false -> is_ctl y = false -> rshape y [y]
  | rs_esc : forall z, z <> 117%N -> z <> 11%N -> z <> 12%N ->
      (forall r, Parse.parse_escape false (z :: r) = Some (EscLit y, r)) -> rshape y [92%N; z]
  | rs_u : (128 <= y)%N -> rshape y ([92; 117; 123]%N ++ hex_of_N y ++ [125%N]).

  Lemma parse_escape_meta : forall y r, is_meta y = true ->
    Parse.parse_escape false (y :: r) = Some (EscLit y, r).
  Proof. intros y r H. unfold Parse.parse_escape. rewrite H. reflexivity. Qed.

  Lemma rend0_shape : forall y, rshape y (rend0 y).
  Proof.
    intros y. destruct (mem_cp y chars_to_escape) eqn:Hm.
    - rewrite rend0_special by exact Hm.
      destruct (special_facts y Hm) as (_ & H11 & H12 & Hmeta & _ & _ & _ & _ & H117).
      apply rs_esc; try assumption.
      intros r. apply parse_escape_meta. exact Hmeta.
    - destruct (is_ctl y) eqn:Hc.
      + unfold is_ctl in Hc. apply orb_true_iff in Hc. destruct Hc as [Hc|Hc];
          [apply orb_true_iff in Hc; destruct Hc as [Hc|Hc]|]; apply N.eqb_eq in Hc.
        * rewrite (rend0_ctl y 110%N) by tauto. subst y.
          apply rs_esc; try discriminate. intros r. reflexivity.
        * rewrite (rend0_ctl y 114%N) by tauto. subst y.
          apply rs_esc; try discriminate. intros r. reflexivity.
        * rewrite (rend0_ctl y 116%N) by tauto. subst y.
          apply rs_esc; try discriminate. intros r. reflexivity.
      + destruct (N.ltb_spec y 128) as [Hlt|Hge].
        * rewrite rend0_plain_ascii by assumption. apply rs_raw; assumption.
        * destruct (f_esc c) eqn:He.
          -- rewrite rend0_plain_u by assumption. apply rs_u. exact Hge.
          -- rewrite rend0_plain_raw by assumption. apply rs_raw; assumption.
  Qed.

  Lemma rend0_bs : rend0 92%N = [92%N].
  Proof. apply rend0_plain_ascii; reflexivity. Qed.

  Lemma class_letter_cases : forall l, is_class_letter l = true ->
    l = 100%N \/ l = 68%N \/ l = 119%N \/ l = 87%N \/ l = 115%N \/ l = 83%N.
  Proof.
    intros l H. apply mem_cp_true_in in H. cbn [In] in H. intuition.
  Qed.

  Lemma rend0_letter : forall l, is_class_letter l = true -> rend0 l = [l].
  Proof.
    intros l H. apply class_letter_cases in H.
    destruct H as [->|[->|[->|[->|[->| ->]]]]]; apply rend0_plain_ascii; reflexivity.
  Qed.
End Rend.
