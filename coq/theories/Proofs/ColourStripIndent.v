(* "Syntax highlighting only adds colour codes" — part 6: every line of the plain verbose text is
   decision-stable when the class members are sorted. *)
From Coq Require Import Sorting.Sorted.
From Grex Require Import Base.Str Model.Config Model.Cluster Model.Dfa Model.Expr Model.Print.
From Grex Require Import Proofs.ColourStripBase Proofs.ColourStripExpr Proofs.ColourStripRegexp
     Proofs.ColourStripLines Proofs.ColourStripPlain.
From GrexGen Require Import SrcConsts.
Local Open Scope N_scope.

(* ---------- a raw $ or ^ is escaped, or followed by a line break, or last ---------- *)
Definition next10 (s : str) : bool := match s with [] => true | y :: _ => N.eqb y 10 end.
Fixpoint b2 (p92 : bool) (s : str) : bool :=
  match s with
  | [] => true
  | x :: s' => (negb (S2 x) || p92 || next10 s') && b2 (N.eqb x 92) s'
  end.

Lemma b2_mono : forall s p, b2 false s = true -> b2 p s = true.
Proof.
  intros [|x s] p H; [reflexivity|]. cbn [b2] in *. apply andb_true_iff in H.
  destruct H as [H1 H2]. rewrite H2. rewrite orb_false_r in H1.
  apply orb_true_iff in H1. destruct H1 as [H1|H1]; rewrite H1.
  - reflexivity.
  - rewrite !orb_true_r. reflexivity.
Qed.

Lemma b2_safe_app : forall a c, safeS S2 a -> b2 false c = true ->
    forall p, b2 p (a ++ c) = true.
Proof.
  intros a c H Hc. induction H as [|x s Hx H IH|x s H IH]; intros p.
  - simpl. apply b2_mono. exact Hc.
  - simpl app. cbn [b2]. rewrite Hx. cbn [negb orb andb]. apply IH.
  - simpl app. cbn [b2]. change (S2 92) with false. change (N.eqb 92 92) with true.
    cbn [negb orb andb]. rewrite orb_true_r. cbn [orb andb]. apply IH.
Qed.

Lemma safe_freeb : forall s, forallb (fun x => negb (S2 x)) s = true -> safeS S2 s.
Proof.
  intros s H. apply safe_free. rewrite forallb_forall in H. apply Forall_forall.
  intros x Hx. apply negb_true_iff. apply H. exact Hx.
Qed.

(* ---------- the raw text flag ++ caret ++ body ++ dollar ---------- *)
Definition expr_wf (e : expr) : Prop := ewf (StronglySorted N.lt) (fun _ => True) e.

Lemma re_body_Qe : forall c e, f_verbose c = true -> expr_wf e ->
    Qe (re_body (with_colour c false) e).
Proof.
  intros c e Hv W.
  assert (H : Qe (e_str (with_colour c false) e)).
  { apply e_str_Qe; [reflexivity|exact Hv|exact W]. }
  unfold re_body. destruct e; try exact H.
  apply Qe_group; [reflexivity|exact Hv|exact H].
Qed.

Lemma re_raw_T : forall c e, f_verbose c = true -> expr_wf e ->
    asafeb false (re_raw (with_colour c false) e) = true /\
    b2 false (re_raw (with_colour c false) e) = true.
Proof.
  intros c e Hv W. pose proof (re_body_Qe c e Hv W) as [B1 B2].
  unfold re_raw. set (body := re_body (with_colour c false) e) in *. clearbody body.
  unfold re_flag, re_caret, re_dollar. rewrite !col_false.
  change (f_verbose (with_colour c false)) with (f_verbose c).
  change (f_ci (with_colour c false)) with (f_ci c).
  change (f_no_start (with_colour c false)) with (f_no_start c).
  change (f_no_end (with_colour c false)) with (f_no_end c).
  rewrite Hv. split.
  - rewrite app_assoc. apply asafeb_app.
    + destruct (f_ci c); destruct (f_no_start c); vm_compute; reflexivity.
    + apply asafeb_app; [exact B1|]. destruct (f_no_end c); vm_compute; reflexivity.
  - apply b2_safe_app.
    + apply safe_freeb. destruct (f_ci c); vm_compute; reflexivity.
    + assert (R : b2 false (body ++ (if f_no_end c then [] else nl ++ [36])) = true).
      { apply b2_safe_app; [exact B2|]. destruct (f_no_end c); vm_compute; reflexivity. }
      destruct (f_no_start c).
      * exact R.
      * exact R.
Qed.

(* ---------- character-wise maps ---------- *)
Definition specials2 : list cp := [109; 40; 41; 36; 94; 92; 10].
Definition img2_ok (y : cp) : Prop := inD y = false /\ y <> 109 /\ y <> 10.
Definition h2_ok (h : cp -> str) : Prop :=
  (forall x, In x specials2 -> h x = [x]) /\
  (forall x, h x = [x] \/ (h x <> [] /\ Forall img2_ok (h x))).

Lemma asafeb_img : forall img rest p, img <> [] -> Forall img2_ok img ->
    asafeb false rest = true -> asafeb p (img ++ rest) = true.
Proof.
  intros img rest p N F H. apply nonnil_nD_app; try assumption.
  - unfold nDb. apply forallb_forall. intros x Hx. rewrite Forall_forall in F.
    destruct (F x Hx) as [E _]. rewrite E. reflexivity.
  - apply forallb_forall. intros x Hx. rewrite Forall_forall in F.
    destruct (F x Hx) as [_ [E _]]. apply negb_true_iff. apply N.eqb_neq. exact E.
Qed.

Lemma asafeb_flat_map : forall h s p, h2_ok h -> asafeb p s = true ->
    asafeb p (flat_map h s) = true.
Proof.
  intros h s p [Hs Hi]. revert p. induction s as [|x s IH]; intros p H.
  - reflexivity.
  - cbn [asafeb] in H. apply andb_true_iff in H. destruct H as [H1 H2].
    simpl flat_map. destruct (N.eq_dec x 109) as [E|E].
    + subst x. rewrite (Hs 109) by (unfold specials2; simpl; tauto).
      simpl app. cbn [asafeb]. rewrite H1. apply IH. exact H2.
    + assert (E' : N.eqb x 109 = false) by (apply N.eqb_neq; exact E).
      rewrite E' in H2. specialize (IH _ H2).
      destruct (Hi x) as [Hx|[Hx1 Hx2]].
      * rewrite Hx. simpl app. cbn [asafeb]. rewrite H1. rewrite E'. exact IH.
      * apply asafeb_img; assumption.
Qed.

Lemma next10_flat_map : forall h s, h2_ok h -> next10 s = true -> next10 (flat_map h s) = true.
Proof.
  intros h s [Hs _] H. destruct s as [|y s]; [reflexivity|].
  simpl in H. apply N.eqb_eq in H. subst y. simpl flat_map.
  rewrite (Hs 10) by (unfold specials2; simpl; tauto). reflexivity.
Qed.

Lemma img2_S2 : forall img, Forall img2_ok img -> safeS S2 img.
Proof.
  intros img F. apply safe_free. eapply Forall_impl; [|exact F].
  intros x [E _]. destruct (S2 x) eqn:E2; [|reflexivity]. apply S2_inD in E2. congruence.
Qed.

Lemma b2_flat_map : forall h s p, h2_ok h -> b2 p s = true -> b2 p (flat_map h s) = true.
Proof.
  intros h s p Hh. pose proof Hh as [Hs Hi]. revert p.
  induction s as [|x s IH]; intros p H.
  - reflexivity.
  - cbn [b2] in H. apply andb_true_iff in H. destruct H as [H1 H2].
    simpl flat_map. destruct (N.eq_dec x 92) as [E|E].
    + subst x. rewrite (Hs 92) by (unfold specials2; simpl; tauto).
      simpl app. cbn [b2]. change (S2 92) with false. cbn [negb orb andb]. apply IH. exact H2.
    + assert (E' : N.eqb x 92 = false) by (apply N.eqb_neq; exact E).
      rewrite E' in H2. specialize (IH _ H2).
      destruct (Hi x) as [Hx|[Hx1 Hx2]].
      * rewrite Hx. simpl app. cbn [b2]. rewrite E'. rewrite IH. rewrite andb_true_r.
        apply orb_true_iff in H1. destruct H1 as [H1|H1].
        -- rewrite H1. reflexivity.
        -- rewrite (next10_flat_map h s Hh H1). rewrite orb_true_r. reflexivity.
      * apply b2_safe_app; [apply img2_S2; exact Hx2|exact IH].
Qed.

Lemma h2_ok_replace : forall y z, ~ In y specials2 -> img2_ok z ->
    h2_ok (fun x => if N.eqb x y then [92; z] else [x]).
Proof.
  intros y z Hy Hz. split.
  - intros x Hx. destruct (N.eqb_spec x y) as [E|E]; [subst; contradiction|reflexivity].
  - intros x. destruct (N.eqb x y); [right|left; reflexivity].
    split; [discriminate|]. constructor; [|constructor; [exact Hz|constructor]].
    unfold img2_ok; split; [reflexivity|split; discriminate].
Qed.

Definition ws_ok2 : bool := forallb (fun x => negb (mem_cp x verbose_ws)) specials2.
Lemma ws_ok2_true : ws_ok2 = true.
Proof. vm_compute. reflexivity. Qed.

Lemma h2_ok_hv : h2_ok hv.
Proof.
  split.
  - intros x Hx. unfold hv. pose proof ws_ok2_true as A. unfold ws_ok2 in A.
    rewrite forallb_forall in A. specialize (A x Hx). apply negb_true_iff in A.
    rewrite A. reflexivity.
  - intros x. unfold hv. destruct (mem_cp x verbose_ws); [right|left; reflexivity].
    split; [apply esc_u4_nonnil|].
    apply esc_u4_forall;
      try (unfold img2_ok; split; [reflexivity|split; discriminate]).
    intros y Hy. unfold hex_range in Hy. unfold img2_ok.
    split; [apply inD_false; lia|split; lia].
Qed.

Lemma not_special2 : forall y, y <> 109 -> y <> 40 -> y <> 41 -> y <> 36 -> y <> 94 ->
    y <> 92 -> y <> 10 -> ~ In y specials2.
Proof.
  intros y H1 H2 H3 H4 H5 H6 H7 H. unfold specials2 in H. simpl in H.
  repeat (destruct H as [H|H]; [subst; congruence|]). exact H.
Qed.

Lemma re_v_T : forall c e, f_verbose c = true -> expr_wf e ->
    asafeb false (re_v (with_colour c false) e) = true /\
    b2 false (re_v (with_colour c false) e) = true.
Proof.
  intros c e Hv W. destruct (re_raw_T c e Hv W) as [A B].
  assert (R : forall y z, ~ In y specials2 -> img2_ok z -> forall s,
               asafeb false s = true /\ b2 false s = true ->
               asafeb false (replace_cp y [92; z] s) = true /\
               b2 false (replace_cp y [92; z] s) = true).
  { intros y z Hy Hz s [A1 B1]. unfold replace_cp. split.
    - apply asafeb_flat_map; [apply h2_ok_replace; assumption|exact A1].
    - apply b2_flat_map; [apply h2_ok_replace; assumption|exact B1]. }
  unfold re_v, re_nv.
  apply R; [apply not_special2; discriminate
           |unfold img2_ok; split; [reflexivity|split; discriminate]|].
  split; [apply asafeb_flat_map; [apply h2_ok_hv|]|apply b2_flat_map; [apply h2_ok_hv|]];
    apply R; try (apply not_special2; discriminate);
    try (unfold img2_ok; split; [reflexivity|split; discriminate]);
    apply R; try (apply not_special2; discriminate);
    try (unfold img2_ok; split; [reflexivity|split; discriminate]);
    apply R; try (apply not_special2; discriminate);
    try (unfold img2_ok; split; [reflexivity|split; discriminate]);
    split; assumption.
Qed.

(* ---------- from the text to its lines ---------- *)
(* a line that starts with a raw $ or ^ has no second character *)
Definition Lp (l : str) : Prop := match l with x :: _ :: _ => S2 x = false | _ => True end.

Lemma splitnl_asafe : forall s p, asafeb p s = true ->
    asafeb p (hd [] (splitnl s)) = true /\
    Forall (fun l => asafeb false l = true) (tl (splitnl s)).
Proof.
  induction s as [|x s IH]; intros p H.
  - simpl. split; [reflexivity|constructor].
  - cbn [asafeb] in H. apply andb_true_iff in H. destruct H as [H1 H2].
    cbn [splitnl]. destruct (N.eqb_spec x 10) as [E|E].
    + subst x. change (N.eqb 10 109) with false in H2.
      destruct (IH _ H2) as [I1 I2]. simpl. split; [reflexivity|].
      pose proof (splitnl_nonnil s) as N. destruct (splitnl s) as [|l ls]; [contradiction|].
      simpl in I1, I2. constructor; assumption.
    + destruct (IH _ H2) as [I1 I2].
      pose proof (splitnl_nonnil s) as N. destruct (splitnl s) as [|l ls]; [contradiction|].
      simpl in I1, I2. simpl. split; [|exact I2].
      cbn [asafeb]. rewrite H1, I1. reflexivity.
Qed.

Lemma splitnl_Lp : forall s p, b2 p s = true ->
    (p = false -> Lp (hd [] (splitnl s))) /\ Forall Lp (tl (splitnl s)).
Proof.
  induction s as [|x s IH]; intros p H.
  - simpl. split; [intros; exact I|constructor].
  - cbn [b2] in H. apply andb_true_iff in H. destruct H as [H1 H2].
    destruct (IH _ H2) as [I1 I2].
    cbn [splitnl]. destruct (N.eqb_spec x 10) as [E|E].
    + subst x. simpl. split; [intros; exact I|].
      pose proof (splitnl_nonnil s) as N. destruct (splitnl s) as [|l ls]; [contradiction|].
      simpl in I1, I2. constructor; [apply I1; reflexivity|exact I2].
    + pose proof (splitnl_nonnil s) as N.
      destruct (splitnl s) as [|l ls] eqn:Es; [contradiction|].
      simpl in I1, I2. simpl. split; [|exact I2].
      intros Hp. subst p. destruct l as [|y l]; [exact I|]. simpl.
      rewrite orb_false_r in H1. apply orb_true_iff in H1. destruct H1 as [H1|H1].
      * apply negb_true_iff in H1. exact H1.
      * exfalso. destruct s as [|z s]; [simpl in Es; discriminate|].
        simpl in H1. apply N.eqb_eq in H1. subst z. simpl in Es. discriminate.
Qed.

Lemma scr_prefix : forall l, exists t, l = scr l ++ t.
Proof.
  intros l. destruct (rev l) as [|x r] eqn:E.
  - destruct l; [exists []; reflexivity|].
    apply (f_equal (@rev cp)) in E. rewrite rev_involutive in E. discriminate.
  - assert (L : l = rev r ++ [x]).
    { apply (f_equal (@rev cp)) in E. rewrite rev_involutive in E. exact E. }
    rewrite L. rewrite scr_snoc. destruct (N.eqb x 13).
    + exists [x]. reflexivity.
    + exists []. rewrite app_nil_r. reflexivity.
Qed.

Lemma Lp_prefix : forall a t, Lp (a ++ t) -> Lp a.
Proof.
  intros a t H. destruct a as [|x [|y a]]; try exact I. exact H.
Qed.

Lemma lines_T : forall s, asafeb false s = true -> b2 false s = true ->
    Forall (fun l => asafeb false l = true /\ Lp l) (lines s).
Proof.
  intros s A B. rewrite lines_eq.
  assert (F : Forall (fun l => asafeb false l = true /\ Lp l) (splitnl s)).
  { destruct (splitnl_asafe s false A) as [A1 A2].
    destruct (splitnl_Lp s false B) as [B1 B2]. specialize (B1 eq_refl).
    pose proof (splitnl_nonnil s) as N. destruct (splitnl s) as [|l ls]; [contradiction|].
    simpl in *. constructor; [split; assumption|].
    rewrite Forall_forall in *. intros x Hx. split; [apply A2|apply B2]; exact Hx. }
  apply lines_of_Forall; [|exact F].
  intros l0 [F1 F2]. rewrite strip_cr_scr. destruct (scr_prefix l0) as [t Et].
  split.
  - apply (asafeb_prefix _ t). rewrite <- Et. exact F1.
  - apply (Lp_prefix _ t). rewrite <- Et. exact F2.
Qed.

(* ---------- a line with these two properties is decision-stable ---------- *)
Section Stable.
  Variable isd : cp -> bool.

  Lemma match_tail_split_m : forall s r,
      match_sgr_tail isd s = Some r -> exists p, s = p ++ 109 :: r.
  Proof.
    intros s r H. unfold match_sgr_tail in H.
    destruct (take_digits isd s) as [d1 r1] eqn:E1.
    pose proof (take_digits_split isd _ _ _ E1) as S1.
    assert (Fallback : match s with
                       | z :: m :: r0 => if N.eqb z 48 && N.eqb m 109 then Some r0 else None
                       | _ => None
                       end = Some r -> exists p, s = p ++ 109 :: r).
    { clear. intros H. destruct s as [|z [|m r0]]; try discriminate.
      destruct (N.eqb z 48 && N.eqb m 109) eqn:E; try discriminate. inversion H; subst.
      apply andb_true_iff in E. destruct E as [_ E]. apply N.eqb_eq in E. subst m.
      exists [z]. reflexivity. }
    destruct d1 as [|a d1]; [apply Fallback; exact H|].
    destruct r1 as [|semi r2]; [apply Fallback; exact H|].
    destruct (N.eqb semi 59); [|apply Fallback; exact H].
    destruct (take_digits isd r2) as [d2 r3] eqn:E2.
    pose proof (take_digits_split isd _ _ _ E2) as S2'.
    destruct d2 as [|b d2]; [apply Fallback; exact H|].
    destruct r3 as [|m r4]; [apply Fallback; exact H|].
    destruct (N.eqb_spec m 109) as [Em|Em]; [|apply Fallback; exact H].
    inversion H; subst.
    exists ((a :: d1) ++ semi :: (b :: d2)).
    rewrite <- !app_assoc. simpl. reflexivity.
  Qed.

  Lemma strip_hd_notD : forall n s, (length s <= n)%nat ->
      asafeb false s = true -> hdD s = false -> hdD (strip_sgr isd s) = false.
  Proof.
    induction n as [|n IH]; intros s L A H.
    - destruct s; [reflexivity|simpl in L; lia].
    - destruct s as [|x s]; [reflexivity|].
      destruct (N.eq_dec x ESC) as [E|E].
      + subst x. destruct s as [|br s'].
        * reflexivity.
        * destruct (N.eq_dec br 91) as [Eb|Eb].
          -- subst br. destruct (match_sgr_tail isd s') as [r|] eqn:M.
             ++ rw_cp (strip_match isd _ _ M).
                destruct (match_tail_split_m _ _ M) as [p Ep].
                assert (Ar : asafeb true r = true).
                { apply (asafeb_after_m (ESC :: 91 :: p) r false).
                  simpl app. rewrite <- Ep. exact A. }
                apply IH.
                ** pose proof (match_tail_shorter isd _ _ M). simpl in L. lia.
                ** apply asafeb_mono. exact Ar.
                ** apply asafeb_true_hd. exact Ar.
             ++ rw_cp (strip_nomatch isd _ M). reflexivity.
          -- rewrite strip_esc_nobr.
             ++ reflexivity.
             ++ intros s'' Es. inversion Es. contradiction.
      + rewrite strip_cons_ne by exact E. exact H.
  Qed.

  Lemma tests_notD : forall q, hdD q = false -> tests q = (false, false, false, false).
  Proof.
    intros [|y q] H; [reflexivity|]. simpl in H.
    assert (E1 : N.eqb y 36 = false).
    { apply N.eqb_neq. intros E. subst. discriminate. }
    assert (E2 : N.eqb 41 y = false).
    { apply N.eqb_neq. intros E. subst. discriminate. }
    assert (E3 : N.eqb y 94 = false).
    { apply N.eqb_neq. intros E. subst. discriminate. }
    assert (E4 : N.eqb 40 y = false).
    { apply N.eqb_neq. intros E. subst. discriminate. }
    unfold tests. cbn [str_eqb starts_with]. rewrite E1, E2, E3, E4. reflexivity.
  Qed.

  Lemma dstable_of : forall pl, asafeb false pl = true -> Lp pl -> dstable isd pl.
  Proof.
    intros pl A L. unfold dstable. destruct pl as [|x r]; [reflexivity|].
    destruct (N.eq_dec x ESC) as [E|E].
    - subst x.
      rewrite (tests_notD (strip_sgr isd (ESC :: r))).
      + reflexivity.
      + apply (strip_hd_notD (length (ESC :: r))); [lia|exact A|reflexivity].
    - rewrite strip_cons_ne by exact E.
      unfold tests. cbn [str_eqb starts_with].
      destruct r as [|y r].
      + rewrite strip_nil. reflexivity.
      + simpl in L.
        assert (E1 : N.eqb x 36 = false).
        { apply N.eqb_neq. intros E0. subst. discriminate. }
        assert (E3 : N.eqb x 94 = false).
        { apply N.eqb_neq. intros E0. subst. discriminate. }
        rewrite E1, E3. reflexivity.
  Qed.
End Stable.

Theorem verbose_lines_dstable : forall isd c e, f_verbose c = true -> expr_wf e ->
    Forall (dstable isd) (lines (re_v (with_colour c false) e)).
Proof.
  intros isd c e Hv W. destruct (re_v_T c e Hv W) as [A B].
  eapply Forall_impl; [|apply (lines_T _ A B)].
  intros l [H1 H2]. apply dstable_of; assumption.
Qed.
