(* END TO END, at the string level, VERBOSE mode: the twins of the theorems of EndToEnd.v for
   f_verbose c = true, and forms that cover both modes at once.

   Composition of
     Construction.construction_lang           final expression  <->  specification
     PipelinePrintable.final_expr_wf_print    the final expression is printable
     PrintParseX.print_parse_verbose          the verbose output "(?x)..." parses, under the x
                                              flag, to the same AST top_rast c e
     PrintParse.top_rast_lang                 that AST has the language of the expression
   exactly as EndToEnd.v does with PrintParse.print_parse for the non-verbose mode.

   Hypothesis on the parser's whitespace test: ws_x is_ws (is_ws is the engine's whitespace
   table std_whitespace; PrintParseX.ws_x_std shows that VerboseWs.is_ws satisfies it).
   No existing file is modified. *)
From Grex Require Import Base.Str Model.Config Model.Cluster Model.Dfa Model.Expr Model.Print.
From Grex Require Import Engine.Syntax Engine.Parse Engine.Sem.
From Grex Require Import Proofs.Lang Proofs.Spec Proofs.NormaliseDet Proofs.ClustersSpec.
From Grex Require Import Proofs.PrintParseNum Proofs.PrintParseDefs Proofs.PrintParseShape
  Proofs.PrintParse.
From Grex Require Import Proofs.PrintParseXTok Proofs.PrintParseXSim Proofs.PrintParseXPrint
  Proofs.PrintParseX.
From Grex Require Import Proofs.Construction Proofs.PipelinePrintable Proofs.EndToEnd.
From Grex Require Import Proofs.PropsGlue.
From Grex Require Import Model.Pipeline.

(* ====================================================================== *)
(* 1. both modes at once                                                   *)
(* ====================================================================== *)

(* what is asked of the parser's whitespace test, by mode *)
Definition ws_for (c : cfg) (is_ws : cp -> bool) : Prop :=
  if f_verbose c then ws_x is_ws else ws_ok is_ws.

Lemma ws_for_x : forall c is_ws, ws_x is_ws -> ws_for c is_ws.
Proof.
  intros c is_ws H. unfold ws_for. destruct (f_verbose c); [exact H|apply ws_ok_of_x; exact H].
Qed.

(* the printing theorem, either mode: the x flag of the parsed pattern is f_verbose c *)
Theorem print_parse_any : forall isd is_ws c gap e,
  printable c -> ws_for c is_ws -> wf_print_gen gap e ->
  parse is_ws (regexp_str isd c e) = Some (mkF (f_ci c) (f_verbose c), top_rast c e).
Proof.
  intros isd is_ws c gap e Hp Hws Hwf. unfold ws_for in Hws.
  destruct (f_verbose c) eqn:Hv.
  - exact (print_parse_verbose isd is_ws c gap e Hp Hv Hwf Hws).
  - exact (print_parse isd is_ws c Hp Hv Hws gap e Hwf).
Qed.

(* final_expr_wf_print with the hypothesis on the NORMALISED test cases (so that nothing is
   asked of the lower-casing oracle when f_ci c = false) *)
Theorem final_expr_wf_print_norm : forall c db sc ws e,
  ws <> [] ->
  Forall (Forall scalar) (normalise c db ws) ->
  oracle_ok db (normalise c db ws) ->
  Pipeline.final_expr c (grapheme_clusters c db (normalise c db ws)) sc = Some e ->
  wf_print_gen True e.
Proof.
  intros c db sc ws e Hws Hsc Hok H.
  apply (final_expr_W c (grapheme_clusters c db (normalise c db ws)) sc e); [| |exact H].
  - apply grapheme_clusters_wf_pg; [exact Hsc|exact Hok].
  - intros E. apply (normalise_nonempty c db ws Hws).
    apply length_zero_iff_nil. rewrite <- (grapheme_clusters_length c db (normalise c db ws)).
    rewrite E. reflexivity.
Qed.

Lemma normalise_scalar_cs : forall c db ws,
  f_ci c = false -> Forall (Forall scalar) ws -> Forall (Forall scalar) (normalise c db ws).
Proof.
  intros c db ws Hci Hws. apply Forall_forall. intros s Hs.
  apply normalise_in in Hs. rewrite Hci in Hs. rewrite Forall_forall in Hws. exact (Hws s Hs).
Qed.

(* the core: the output of build is the print of a printable expression and parses to the
   expected AST, whose language is that of the expression *)
Theorem build_parse_any : forall isd is_ws c db sc ws s,
  ws <> [] ->
  Forall (Forall scalar) (normalise c db ws) ->
  oracle_ok db (normalise c db ws) ->
  printable c -> ws_for c is_ws ->
  build isd c db sc ws = Some s ->
  exists e, Pipeline.final_expr c (grapheme_clusters c db (normalise c db ws)) sc = Some e
    /\ wf_print_gen True e
    /\ s = regexp_str isd c e
    /\ parse is_ws s = Some (mkF (f_ci c) (f_verbose c), top_rast c e).
Proof.
  intros isd is_ws c db sc ws s Hne Hsc Hok Hp Hws H.
  destruct (build_inv isd c db sc ws s H) as (e & He & ->).
  pose proof (final_expr_wf_print_norm c db sc ws e Hne Hsc Hok He) as Hwf.
  exists e. split; [exact He|]. split; [exact Hwf|]. split; [reflexivity|].
  exact (print_parse_any isd is_ws c True e Hp Hws Hwf).
Qed.

(* the language of the parsed pattern is the specification: either mode *)
Theorem build_parse_lang_any : forall lit_den cls_den isd is_ws c db sc ws s,
  ws <> [] ->
  Forall (Forall scalar) (normalise c db ws) ->
  oracle_ok db (normalise c db ws) ->
  printable c -> ws_for c is_ws ->
  (forall c0 x, surrogate c0 -> ~ lit_den c0 x) ->
  no_merge (grapheme_clusters c db (normalise c db ws)) = true ->
  build isd c db sc ws = Some s ->
  exists fl r, parse is_ws s = Some (fl, r) /\ fl_i fl = f_ci c /\ fl_x fl = f_verbose c
    /\ (forall u, (u <> [] \/ K4 (normalise c db ws) = false) ->
          (L_rast lit_den cls_den r u <-> Spec lit_den cls_den c db ws u))
    /\ (L_rast lit_den cls_den r [] -> Spec lit_den cls_den c db ws []).
Proof.
  intros lit_den cls_den isd is_ws c db sc ws s Hne Hsc Hok Hp Hws Hsur Hnm H.
  destruct (build_parse_any isd is_ws c db sc ws s Hne Hsc Hok Hp Hws H)
    as (e & He & Hwf & _ & Hpar).
  pose proof (top_rast_lang c Hp True lit_den cls_den (fun _ => Hsur) e Hwf) as HL.
  destruct (construction_lang lit_den cls_den c db sc ws e Hne Hok Hnm He) as [A B].
  exists (mkF (f_ci c) (f_verbose c)), (top_rast c e).
  split; [exact Hpar|]. split; [reflexivity|]. split; [reflexivity|]. split.
  - intros u Hu. rewrite (HL u). exact (A u Hu).
  - intros H0. apply B. apply HL. exact H0.
Qed.

(* ====================================================================== *)
(* 2. the verbose twins of EndToEnd.v                                      *)
(* ====================================================================== *)

(* C07: the verbose output is syntactically valid (no no_merge hypothesis) *)
Theorem build_parses_verbose : forall isd is_ws c db sc ws s,
  ws <> [] ->
  Forall (Forall scalar) ws ->
  (forall s0, In s0 ws -> Forall scalar (lower' db s0)) ->
  oracle_ok db (normalise c db ws) ->
  printable c -> f_verbose c = true -> ws_x is_ws ->
  build isd c db sc ws = Some s ->
  exists e, Pipeline.final_expr c (grapheme_clusters c db (normalise c db ws)) sc = Some e
    /\ s = regexp_str isd c e
    /\ Parse.parse is_ws s = Some (mkF (f_ci c) true, top_rast c e).
Proof.
  intros isd is_ws c db sc ws s Hne Hsc Hlow Hok Hp Hv Hws H.
  destruct (build_inv isd c db sc ws s H) as (e & He & ->).
  exists e. split; [exact He|]. split; [reflexivity|].
  apply (print_parse_verbose isd is_ws c True e Hp Hv); [|exact Hws].
  exact (final_expr_wf_print c db sc ws e Hne Hsc Hlow Hok He).
Qed.

Corollary build_parses_total_verbose : forall isd is_ws c db sc ws,
  ws <> [] ->
  Forall (Forall scalar) ws ->
  (forall s0, In s0 ws -> Forall scalar (lower' db s0)) ->
  oracle_ok db (normalise c db ws) ->
  printable c -> f_verbose c = true -> ws_x is_ws ->
  exists s r, build isd c db sc ws = Some s
    /\ Parse.parse is_ws s = Some (mkF (f_ci c) true, r).
Proof.
  intros isd is_ws c db sc ws Hne Hsc Hlow Hok Hp Hv Hws.
  destruct (build_total isd c db sc ws) as [s Hs].
  destruct (build_parses_verbose isd is_ws c db sc ws s Hne Hsc Hlow Hok Hp Hv Hws Hs)
    as (e & _ & _ & Hpar).
  exists s, (top_rast c e). split; assumption.
Qed.

(* the language of the parsed verbose pattern is the specification *)
Theorem build_parse_lang_verbose : forall lit_den cls_den isd is_ws c db sc ws s,
  ws <> [] ->
  Forall (Forall scalar) ws ->
  (forall s0, In s0 ws -> Forall scalar (lower' db s0)) ->
  oracle_ok db (normalise c db ws) ->
  printable c -> f_verbose c = true -> ws_x is_ws ->
  (forall c0 x, surrogate c0 -> ~ lit_den c0 x) ->
  no_merge (grapheme_clusters c db (normalise c db ws)) = true ->
  build isd c db sc ws = Some s ->
  exists fl r, Parse.parse is_ws s = Some (fl, r) /\ fl_i fl = f_ci c /\ fl_x fl = true
    /\ (forall u, (u <> [] \/ K4 (normalise c db ws) = false) ->
          (L_rast lit_den cls_den r u <-> Spec lit_den cls_den c db ws u))
    /\ (L_rast lit_den cls_den r [] -> Spec lit_den cls_den c db ws []).
Proof.
  intros lit_den cls_den isd is_ws c db sc ws s Hne Hsc Hlow Hok Hp Hv Hws Hsur Hnm H.
  destruct (build_inv isd c db sc ws s H) as (e & He & ->).
  pose proof (final_expr_wf_print c db sc ws e Hne Hsc Hlow Hok He) as Hwf.
  destruct (print_parse_lang_verbose_scalar lit_den cls_den isd is_ws c e Hp Hv Hwf Hws Hsur)
    as (fl & r & Hpar & Hi & Hx & HL).
  destruct (construction_lang lit_den cls_den c db sc ws e Hne Hok Hnm He) as [A B].
  exists fl, r. split; [exact Hpar|]. split; [exact Hi|]. split; [exact Hx|]. split.
  - intros u Hu. rewrite (HL u). exact (A u Hu).
  - intros H0. apply B. apply HL. exact H0.
Qed.

Corollary build_parse_lang_exact_verbose : forall lit_den cls_den isd is_ws c db sc ws s,
  ws <> [] ->
  Forall (Forall scalar) ws ->
  (forall s0, In s0 ws -> Forall scalar (lower' db s0)) ->
  oracle_ok db (normalise c db ws) ->
  printable c -> f_verbose c = true -> ws_x is_ws ->
  (forall c0 x, surrogate c0 -> ~ lit_den c0 x) ->
  no_merge (grapheme_clusters c db (normalise c db ws)) = true ->
  K4 (normalise c db ws) = false ->
  build isd c db sc ws = Some s ->
  exists fl r, Parse.parse is_ws s = Some (fl, r) /\ fl_i fl = f_ci c /\ fl_x fl = true
    /\ (forall u, L_rast lit_den cls_den r u <-> Spec lit_den cls_den c db ws u).
Proof.
  intros lit_den cls_den isd is_ws c db sc ws s Hne Hsc Hlow Hok Hp Hv Hws Hsur Hnm HK H.
  destruct (build_parse_lang_verbose lit_den cls_den isd is_ws c db sc ws s
              Hne Hsc Hlow Hok Hp Hv Hws Hsur Hnm H) as (fl & r & Hpar & Hi & Hx & A & _).
  exists fl, r. split; [exact Hpar|]. split; [exact Hi|]. split; [exact Hx|].
  intros u. apply A. right. exact HK.
Qed.

(* the shape of the parsed verbose pattern: the same AST as in non-verbose mode *)
Theorem build_parse_shape_verbose : forall isd is_ws c db sc ws s,
  ws <> [] ->
  Forall (Forall scalar) ws ->
  (forall s0, In s0 ws -> Forall scalar (lower' db s0)) ->
  oracle_ok db (normalise c db ws) ->
  printable c -> f_verbose c = true -> ws_x is_ws ->
  build isd c db sc ws = Some s ->
  exists e, Pipeline.final_expr c (grapheme_clusters c db (normalise c db ws)) sc = Some e
    /\ Parse.parse is_ws s = Some (mkF (f_ci c) true, rcat (top_atoms c e))
    /\ top_atoms c e = (if f_no_start c then [] else [RStart]) ++ e_atoms c e
                       ++ (if f_no_end c then [] else [REnd])
    /\ ((exists l, top_atoms c e = RStart :: l) <-> f_no_start c = false)
    /\ ((exists l, top_atoms c e = l ++ [REnd]) <-> f_no_end c = false)
    /\ Forall (shape_ok (f_cap c)) (e_atoms c e).
Proof.
  intros isd is_ws c db sc ws s Hne Hsc Hlow Hok Hp Hv Hws H.
  destruct (build_inv isd c db sc ws s H) as (e & He & ->).
  pose proof (final_expr_wf_print c db sc ws e Hne Hsc Hlow Hok He) as Hwf.
  destruct (top_atoms_shape c True e Hwf) as (S1 & S2 & E1 & E2 & Hok').
  exists e. split; [exact He|].
  split; [apply (print_parse_verbose isd is_ws c True e Hp Hv Hwf Hws)|].
  split; [reflexivity|]. split; [|split; [|exact Hok']].
  - split.
    + intros [l Hl]. destruct (f_no_start c) eqn:E; [|reflexivity]. exfalso. eapply S2; eauto.
    + exact S1.
  - split.
    + intros [l Hl]. destruct (f_no_end c) eqn:E; [|reflexivity]. exfalso. eapply E2; eauto.
    + exact E1.
Qed.

(* ====================================================================== *)
(* 3. verbose mode is presentation only, at the level of build            *)
(* ====================================================================== *)

(* the pipeline does not read f_verbose: unv c is c with f_verbose := false *)
Lemma final_expr_unv : forall c cls sc,
  Pipeline.final_expr (unv c) cls sc = Pipeline.final_expr c cls sc.
Proof. reflexivity. Qed.

Lemma normalise_unv : forall c db ws, normalise (unv c) db ws = normalise c db ws.
Proof. reflexivity. Qed.

Lemma grapheme_clusters_unv : forall c db tcs,
  grapheme_clusters (unv c) db tcs = grapheme_clusters c db tcs.
Proof.
  intros c db tcs. symmetry. apply grapheme_clusters_presentation. repeat split.
Qed.

Lemma build_unv : forall isd c db sc ws,
  build isd (unv c) db sc ws
  = match Pipeline.final_expr c (grapheme_clusters c db (normalise c db ws)) sc with
    | None => None
    | Some e => Some (regexp_str isd (unv c) e)
    end.
Proof.
  intros isd c db sc ws. unfold build.
  rewrite normalise_unv, grapheme_clusters_unv, final_expr_unv. reflexivity.
Qed.

(* the verbose and the non-verbose outputs of build for the same inputs parse to the SAME AST;
   only the x flag differs *)
Theorem build_verbose_same_ast : forall isd is_ws c db sc ws s,
  ws <> [] ->
  Forall (Forall scalar) ws ->
  (forall s0, In s0 ws -> Forall scalar (lower' db s0)) ->
  oracle_ok db (normalise c db ws) ->
  printable c -> f_verbose c = true -> ws_x is_ws ->
  build isd c db sc ws = Some s ->
  exists s0 a,
    build isd (unv c) db sc ws = Some s0
    /\ Parse.parse is_ws s = Some (mkF (f_ci c) true, a)
    /\ Parse.parse is_ws s0 = Some (mkF (f_ci c) false, a).
Proof.
  intros isd is_ws c db sc ws s Hne Hsc Hlow Hok Hp Hv Hws H.
  destruct (build_inv isd c db sc ws s H) as (e & He & ->).
  pose proof (final_expr_wf_print c db sc ws e Hne Hsc Hlow Hok He) as Hwf.
  destruct (verbose_same_ast isd is_ws c True e Hp Hv Hwf Hws) as (a & H1 & H2).
  exists (regexp_str isd (unv c) e), a. split; [|split; [exact H1|exact H2]].
  rewrite build_unv, He. reflexivity.
Qed.

Check print_parse_any.
Check build_parse_any.
Check build_parse_lang_any.
Check build_parses_verbose.
Check build_parses_total_verbose.
Check build_parse_lang_verbose.
Check build_parse_lang_exact_verbose.
Check build_parse_shape_verbose.
Check build_verbose_same_ast.
Print Assumptions build_parse_lang_any.
Print Assumptions build_parses_verbose.
Print Assumptions build_parses_total_verbose.
Print Assumptions build_parse_lang_verbose.
Print Assumptions build_parse_lang_exact_verbose.
Print Assumptions build_parse_shape_verbose.
Print Assumptions build_verbose_same_ast.
