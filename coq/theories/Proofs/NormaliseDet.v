(* Normalisation of the test cases (RegExp::sort, plus optional lower-casing) is a function of
   the SET of test cases, is idempotent, and loses nothing.
   Models:  test_cases.sort(); test_cases.dedup();
            test_cases.sort_by(|a,b| (a.len(), a).cmp(&(b.len(), b)))                      *)
From Coq Require Import List NArith Bool Arith Lia Sorted Permutation.
From Grex Require Import Base.Str Model.Config Model.Cluster Model.Pipeline.
Import ListNotations.

(* ------------------------------------------------------------------------------------ *)
(* str_eqb / str_cmp                                                                    *)
(* ------------------------------------------------------------------------------------ *)

Lemma str_eqb_eq : forall a b, str_eqb a b = true <-> a = b.
Proof.
  induction a as [|x a IH]; intros [|y b]; simpl; split; intro H;
    try reflexivity; try discriminate.
  - apply andb_true_iff in H. destruct H as [H1 H2].
    apply N.eqb_eq in H1. apply IH in H2. subst. reflexivity.
  - injection H as Hx Hb. apply andb_true_iff. split.
    + apply N.eqb_eq. exact Hx.
    + apply IH. exact Hb.
Qed.

Lemma str_eqb_refl : forall a, str_eqb a a = true.
Proof. intro a. apply str_eqb_eq. reflexivity. Qed.

Lemma str_cmp_eq : forall a b, str_cmp a b = Eq <-> a = b.
Proof.
  induction a as [|x a IH]; intros [|y b]; simpl; split; intro H;
    try reflexivity; try discriminate.
  - destruct (N.compare x y) eqn:E; try discriminate.
    apply N.compare_eq_iff in E. apply IH in H. subst. reflexivity.
  - injection H as Hx Hb. subst y. rewrite N.compare_refl. apply IH. exact Hb.
Qed.

Lemma str_cmp_refl : forall a, str_cmp a a = Eq.
Proof. intro a. apply str_cmp_eq. reflexivity. Qed.

Lemma str_cmp_antisym : forall a b, str_cmp a b = CompOpp (str_cmp b a).
Proof.
  induction a as [|x a IH]; intros [|y b]; simpl; try reflexivity.
  rewrite (N.compare_antisym y x).
  destruct (N.compare y x); simpl; try reflexivity. apply IH.
Qed.

Lemma str_cmp_lt_trans : forall a b c,
  str_cmp a b = Lt -> str_cmp b c = Lt -> str_cmp a c = Lt.
Proof.
  induction a as [|x a IH]; intros [|y b] [|z c]; simpl; intros H1 H2;
    try discriminate; try reflexivity.
  destruct (N.compare x y) eqn:E1; destruct (N.compare y z) eqn:E2; try discriminate.
  - apply N.compare_eq_iff in E1. apply N.compare_eq_iff in E2. subst.
    rewrite N.compare_refl. eapply IH; eassumption.
  - apply N.compare_eq_iff in E1. subst. rewrite E2. reflexivity.
  - apply N.compare_eq_iff in E2. subst. rewrite E1. reflexivity.
  - apply N.compare_lt_iff in E1. apply N.compare_lt_iff in E2.
    assert (E3 : N.compare x z = Lt) by (apply N.compare_lt_iff; eapply N.lt_trans; eassumption).
    rewrite E3. reflexivity.
Qed.

Lemma str_cmp_gt_lt : forall a b, str_cmp a b = Gt <-> str_cmp b a = Lt.
Proof.
  intros a b. rewrite (str_cmp_antisym a b).
  destruct (str_cmp b a); simpl; split; intro H; try discriminate; reflexivity.
Qed.

(* ------------------------------------------------------------------------------------ *)
(* str_leb is a total order                                                             *)
(* ------------------------------------------------------------------------------------ *)

Lemma str_leb_refl : forall a, str_leb a a = true.
Proof. intro a. unfold str_leb. rewrite str_cmp_refl. reflexivity. Qed.

Lemma str_leb_total : forall a b, str_leb a b = true \/ str_leb b a = true.
Proof.
  intros a b. unfold str_leb. rewrite (str_cmp_antisym a b).
  destruct (str_cmp b a); simpl; auto.
Qed.

Lemma str_leb_antisym : forall a b, str_leb a b = true -> str_leb b a = true -> a = b.
Proof.
  intros a b. unfold str_leb. rewrite (str_cmp_antisym b a).
  destruct (str_cmp a b) eqn:E; simpl; intros H1 H2; try discriminate.
  apply str_cmp_eq. exact E.
Qed.

Lemma str_leb_trans : forall a b c,
  str_leb a b = true -> str_leb b c = true -> str_leb a c = true.
Proof.
  intros a b c. unfold str_leb.
  destruct (str_cmp a b) eqn:E1; destruct (str_cmp b c) eqn:E2; intros H1 H2;
    try discriminate.
  - apply str_cmp_eq in E1. apply str_cmp_eq in E2. subst.
    rewrite str_cmp_refl. reflexivity.
  - apply str_cmp_eq in E1. subst. rewrite E2. reflexivity.
  - apply str_cmp_eq in E2. subst. rewrite E1. reflexivity.
  - rewrite (str_cmp_lt_trans a b c E1 E2). reflexivity.
Qed.

(* ------------------------------------------------------------------------------------ *)
(* len_lex_leb is a total order                                                         *)
(* ------------------------------------------------------------------------------------ *)

Lemma len_lex_leb_total : forall a b, len_lex_leb a b = true \/ len_lex_leb b a = true.
Proof.
  intros a b. unfold len_lex_leb; cbv zeta.
  destruct (Nat.eqb_spec (utf8_len a) (utf8_len b)) as [E1|E1];
  destruct (Nat.eqb_spec (utf8_len b) (utf8_len a)) as [E2|E2]; try lia.
  - apply str_leb_total.
  - rewrite !Nat.ltb_lt. lia.
Qed.

Lemma len_lex_leb_antisym : forall a b,
  len_lex_leb a b = true -> len_lex_leb b a = true -> a = b.
Proof.
  intros a b. unfold len_lex_leb; cbv zeta.
  destruct (Nat.eqb_spec (utf8_len a) (utf8_len b)) as [E1|E1];
  destruct (Nat.eqb_spec (utf8_len b) (utf8_len a)) as [E2|E2]; try lia.
  - apply str_leb_antisym.
  - rewrite !Nat.ltb_lt. lia.
Qed.

Lemma len_lex_leb_trans : forall a b c,
  len_lex_leb a b = true -> len_lex_leb b c = true -> len_lex_leb a c = true.
Proof.
  intros a b c. unfold len_lex_leb; cbv zeta.
  destruct (Nat.eqb_spec (utf8_len a) (utf8_len b)) as [E1|E1];
  destruct (Nat.eqb_spec (utf8_len b) (utf8_len c)) as [E2|E2];
  destruct (Nat.eqb_spec (utf8_len a) (utf8_len c)) as [E3|E3];
  rewrite ?Nat.ltb_lt; intros H1 H2; try lia.
  eapply str_leb_trans; eassumption.
Qed.

(* ------------------------------------------------------------------------------------ *)
(* generic facts about the insertion sort                                               *)
(* ------------------------------------------------------------------------------------ *)

Section Sort.
  Context {A : Type} (le : A -> A -> bool).

  Lemma insert_by_perm : forall x l, Permutation (x :: l) (insert_by le x l).
  Proof.
    intros x l. induction l as [|y l IH]; simpl.
    - apply Permutation_refl.
    - destruct (le x y).
      + apply Permutation_refl.
      + eapply perm_trans; [apply perm_swap|]. apply perm_skip. exact IH.
  Qed.

  Lemma sort_by_perm : forall l, Permutation l (sort_by le l).
  Proof.
    induction l as [|x l IH].
    - apply perm_nil.
    - change (sort_by le (x :: l)) with (insert_by le x (sort_by le l)).
      eapply perm_trans; [apply perm_skip; exact IH|]. apply insert_by_perm.
  Qed.

  Lemma sort_by_in : forall l x, In x (sort_by le l) <-> In x l.
  Proof.
    intros l x. split; intro H.
    - eapply Permutation_in; [apply Permutation_sym, sort_by_perm|exact H].
    - eapply Permutation_in; [apply sort_by_perm|exact H].
  Qed.

  Hypothesis le_total : forall a b, le a b = true \/ le b a = true.
  Hypothesis le_trans : forall a b c, le a b = true -> le b c = true -> le a c = true.

  Let leP (a b : A) : Prop := le a b = true.

  Lemma insert_by_sorted : forall x l,
    StronglySorted leP l -> StronglySorted leP (insert_by le x l).
  Proof.
    intros x l Hs. induction Hs as [|y l Hs IH Hall]; simpl.
    - constructor; constructor.
    - destruct (le x y) eqn:E.
      + constructor.
        * constructor; assumption.
        * constructor; [exact E|].
          eapply Forall_impl; [|exact Hall]. intros z Hz.
          eapply le_trans; [exact E|exact Hz].
      + constructor; [exact IH|].
        apply Forall_forall. intros z Hz.
        apply (Permutation_in z (Permutation_sym (insert_by_perm x l))) in Hz.
        destruct Hz as [Hz|Hz].
        * subst z. destruct (le_total x y) as [H|H]; [congruence|exact H].
        * rewrite Forall_forall in Hall. apply Hall. exact Hz.
  Qed.

  Lemma sort_by_sorted : forall l, StronglySorted leP (sort_by le l).
  Proof.
    induction l as [|x l IH].
    - constructor.
    - change (sort_by le (x :: l)) with (insert_by le x (sort_by le l)).
      apply insert_by_sorted. exact IH.
  Qed.
End Sort.

(* a sorted duplicate-free list is strictly sorted *)
Lemma sorted_nodup_strict : forall (A : Type) (R : A -> A -> Prop) (l : list A),
  StronglySorted R l -> NoDup l -> StronglySorted (fun a b => R a b /\ a <> b) l.
Proof.
  intros A R l Hs. induction Hs as [|x l Hs IH Hall]; intro Hnd.
  - constructor.
  - inversion Hnd as [|x' l' Hnin Hnd']; subst.
    constructor; [apply IH; exact Hnd'|].
    apply Forall_forall. intros z Hz. split.
    + rewrite Forall_forall in Hall. apply Hall. exact Hz.
    + intro Heq. subst z. apply Hnin. exact Hz.
Qed.

(* two strictly sorted lists (w.r.t. an antisymmetric relation) with the same elements are equal *)
Lemma strict_sorted_unique : forall (A : Type) (R : A -> A -> Prop),
  (forall a b, R a b -> R b a -> a = b) ->
  forall l1 l2 : list A,
    StronglySorted (fun a b => R a b /\ a <> b) l1 ->
    StronglySorted (fun a b => R a b /\ a <> b) l2 ->
    (forall x, In x l1 <-> In x l2) -> l1 = l2.
Proof.
  intros A R Ranti l1.
  induction l1 as [|a l1 IH]; intros l2 H1 H2 Hin.
  - destruct l2 as [|b l2]; [reflexivity|].
    exfalso. apply (proj2 (Hin b)). left. reflexivity.
  - destruct l2 as [|b l2].
    + exfalso. apply (proj1 (Hin a)). left. reflexivity.
    + inversion H1 as [|a' l1' Hs1 Hall1]; subst.
      inversion H2 as [|b' l2' Hs2 Hall2]; subst.
      rewrite Forall_forall in Hall1, Hall2.
      assert (Hab : a = b).
      { destruct (proj1 (Hin a) (or_introl eq_refl)) as [Hba|Hba]; [symmetry; exact Hba|].
        destruct (proj2 (Hin b) (or_introl eq_refl)) as [Hab|Hab]; [exact Hab|].
        apply Ranti.
        - apply (Hall1 b Hab).
        - apply (Hall2 a Hba). }
      subst b. f_equal. apply IH; [exact Hs1|exact Hs2|].
      intro x. split; intro Hx.
      * destruct (proj1 (Hin x) (or_intror Hx)) as [Hax|Hax]; [|exact Hax].
        subst x. exfalso. apply (proj2 (Hall1 a Hx)). reflexivity.
      * destruct (proj2 (Hin x) (or_intror Hx)) as [Hax|Hax]; [|exact Hax].
        subst x. exfalso. apply (proj2 (Hall2 a Hx)). reflexivity.
Qed.

(* ------------------------------------------------------------------------------------ *)
(* dedup on a sorted list                                                               *)
(* ------------------------------------------------------------------------------------ *)

Lemma dedup_cons2 : forall x y r,
  dedup (x :: y :: r) = if str_eqb x y then dedup (y :: r) else x :: dedup (y :: r).
Proof. reflexivity. Qed.

Lemma dedup_in : forall l x, In x (dedup l) <-> In x l.
Proof.
  induction l as [|a l IH]; intro x.
  - simpl. tauto.
  - destruct l as [|y r].
    + simpl. tauto.
    + rewrite dedup_cons2. pose proof (IH x) as IHx.
      destruct (str_eqb a y) eqn:E.
      * apply str_eqb_eq in E. subst y. cbn [In] in *. tauto.
      * cbn [In] in *. tauto.
Qed.

Lemma dedup_nodup : forall l,
  StronglySorted (fun a b => str_leb a b = true) l -> NoDup (dedup l).
Proof.
  induction l as [|a l IH]; intro Hs.
  - simpl. constructor.
  - destruct l as [|y r].
    + simpl. constructor; [intros []|constructor].
    + inversion Hs as [|a' l' Hs' Hall]; subst.
      rewrite dedup_cons2. destruct (str_eqb a y) eqn:E.
      * apply IH. exact Hs'.
      * constructor; [|apply IH; exact Hs'].
        rewrite dedup_in. intro Hin.
        assert (Hay : a = y).
        { rewrite Forall_forall in Hall.
          destruct Hin as [Hin|Hin]; [symmetry; exact Hin|].
          inversion Hs' as [|y' r' Hs'' Hall']; subst.
          rewrite Forall_forall in Hall'.
          apply str_leb_antisym.
          - apply Hall. left. reflexivity.
          - apply Hall'. exact Hin. }
        subst y. rewrite str_eqb_refl in E. discriminate.
Qed.

(* ------------------------------------------------------------------------------------ *)
(* sort_cases                                                                           *)
(* ------------------------------------------------------------------------------------ *)

(* strictly increasing w.r.t. (utf8 length, lexicographic) *)
Definition len_lex_lt (a b : str) : Prop := len_lex_leb a b = true /\ a <> b.

Theorem sort_cases_in : forall ws x, In x (sort_cases ws) <-> In x ws.
Proof.
  intros ws x. unfold sort_cases.
  rewrite sort_by_in, dedup_in, sort_by_in. tauto.
Qed.

Theorem sort_cases_nodup : forall ws, NoDup (sort_cases ws).
Proof.
  intro ws. unfold sort_cases.
  eapply Permutation_NoDup; [apply sort_by_perm|].
  apply dedup_nodup.
  apply (sort_by_sorted str_leb str_leb_total str_leb_trans).
Qed.

Theorem sort_cases_sorted : forall ws, StronglySorted len_lex_lt (sort_cases ws).
Proof.
  intro ws. unfold len_lex_lt.
  apply (sorted_nodup_strict str (fun a b => len_lex_leb a b = true)).
  - unfold sort_cases.
    apply (sort_by_sorted len_lex_leb len_lex_leb_total len_lex_leb_trans).
  - apply sort_cases_nodup.
Qed.

Theorem sort_cases_locally_sorted : forall ws, LocallySorted len_lex_lt (sort_cases ws).
Proof.
  intro ws. apply Sorted_LocallySorted_iff. apply StronglySorted_Sorted.
  apply sort_cases_sorted.
Qed.

Theorem sort_cases_perm : forall ws1 ws2,
  (forall x, In x ws1 <-> In x ws2) -> sort_cases ws1 = sort_cases ws2.
Proof.
  intros ws1 ws2 Hin.
  apply (strict_sorted_unique str (fun a b => len_lex_leb a b = true) len_lex_leb_antisym).
  - apply sort_cases_sorted.
  - apply sort_cases_sorted.
  - intro x. rewrite !sort_cases_in. apply Hin.
Qed.

Theorem sort_cases_idem : forall ws, sort_cases (sort_cases ws) = sort_cases ws.
Proof.
  intro ws. apply sort_cases_perm. intro x. apply sort_cases_in.
Qed.

Theorem sort_cases_nonempty : forall ws, ws <> [] -> sort_cases ws <> [].
Proof.
  intros [|w ws] Hne; [congruence|].
  intro Hnil.
  assert (Hin : In w (sort_cases (w :: ws))) by (apply sort_cases_in; left; reflexivity).
  rewrite Hnil in Hin. exact Hin.
Qed.

(* ------------------------------------------------------------------------------------ *)
(* normalise                                                                            *)
(* ------------------------------------------------------------------------------------ *)

(* nothing is lost, nothing is invented *)
Theorem normalise_in : forall c db ws x,
  In x (normalise c db ws) <->
  In x (if f_ci c then map (lower' db) ws else ws).
Proof. intros c db ws x. unfold normalise. apply sort_cases_in. Qed.

Theorem normalise_nodup : forall c db ws, NoDup (normalise c db ws).
Proof. intros c db ws. unfold normalise. apply sort_cases_nodup. Qed.

Theorem normalise_sorted : forall c db ws, StronglySorted len_lex_lt (normalise c db ws).
Proof. intros c db ws. unfold normalise. apply sort_cases_sorted. Qed.

Theorem normalise_perm : forall c db ws1 ws2,
  (forall x, In x ws1 <-> In x ws2) -> normalise c db ws1 = normalise c db ws2.
Proof.
  intros c db ws1 ws2 Hin. unfold normalise. apply sort_cases_perm.
  destruct (f_ci c); [|exact Hin].
  intro x. rewrite !in_map_iff.
  split; intros [y [Hy Hiny]]; exists y; (split; [exact Hy|apply Hin; exact Hiny]).
Qed.

Theorem normalise_idem : forall c db ws,
  (forall s, In s ws -> lower' db (lower' db s) = lower' db s) ->
  normalise c db (normalise c db ws) = normalise c db ws.
Proof.
  intros c db ws Hlow. unfold normalise.
  destruct (f_ci c); [|apply sort_cases_idem].
  apply sort_cases_perm. intro x. rewrite !in_map_iff. split.
  - intros [y [Hy Hiny]]. apply (proj1 (sort_cases_in _ _)) in Hiny.
    apply (proj1 (in_map_iff _ _ _)) in Hiny.
    destruct Hiny as [s [Hs Hins]]. exists s. split; [|exact Hins].
    subst y. rewrite <- Hy. symmetry. apply Hlow. exact Hins.
  - intros [s [Hs Hins]]. exists (lower' db s). split.
    + rewrite <- Hs. apply Hlow. exact Hins.
    + apply sort_cases_in. apply in_map. exact Hins.
Qed.

(* without case-insensitive matching no hypothesis is needed *)
Theorem normalise_idem_cs : forall c db ws,
  f_ci c = false -> normalise c db (normalise c db ws) = normalise c db ws.
Proof.
  intros c db ws Hci. unfold normalise. rewrite Hci. apply sort_cases_idem.
Qed.

Theorem normalise_nonempty : forall c db ws, ws <> [] -> normalise c db ws <> [].
Proof.
  intros c db ws Hne. unfold normalise. apply sort_cases_nonempty.
  destruct (f_ci c); [|exact Hne].
  destruct ws as [|w ws]; [congruence|]. simpl. discriminate.
Qed.

(* duplicates and order are irrelevant *)
Corollary normalise_dup : forall c db ws, normalise c db (ws ++ ws) = normalise c db ws.
Proof.
  intros c db ws. apply normalise_perm. intro x. rewrite in_app_iff. tauto.
Qed.

Corollary normalise_app_comm : forall c db ws1 ws2,
  normalise c db (ws1 ++ ws2) = normalise c db (ws2 ++ ws1).
Proof.
  intros c db ws1 ws2. apply normalise_perm. intro x. rewrite !in_app_iff. tauto.
Qed.

Corollary normalise_permutation : forall c db ws1 ws2,
  Permutation ws1 ws2 -> normalise c db ws1 = normalise c db ws2.
Proof.
  intros c db ws1 ws2 Hp. apply normalise_perm. intro x. split; intro Hx.
  - eapply Permutation_in; [exact Hp|exact Hx].
  - eapply Permutation_in; [apply Permutation_sym; exact Hp|exact Hx].
Qed.

Print Assumptions normalise_perm.
Print Assumptions normalise_idem.
Print Assumptions normalise_nonempty.
Print Assumptions normalise_permutation.
