(* Re-pairing of UTF-16 surrogate escapes, part 5: the theorem.

   With f_esc and f_sur the printer writes astral code points as surrogate escape pairs, which the
   regex crate rejects by design.  After `repair` (SurrogateRepair.v) the pattern is accepted by
   the parser model and denotes exactly the language of the expression — the same language as the
   pattern printed without f_sur (PrintParse.print_parse_lang).  The two patterns are not equal
   as strings: a quantified astral code point is printed \u{1f4a9}{2} without surrogates but
   (?:\u{d83d}\u{dca9}){2} with them, and (?:\u{1f4a9}){2} after repair. *)
From Grex Require Import Base.Str Model.Config Model.Cluster Model.Dfa Model.Expr Model.Print.
From Grex Require Import Engine.Syntax Engine.Parse Engine.Sem.
From Grex Require Import Proofs.Lang Proofs.RepInv Proofs.ExprLang Proofs.EscapeProps Proofs.PrintShape.
From Grex Require Import Proofs.PrintParseNum Proofs.PrintParseStep Proofs.PrintParseDefs
  Proofs.PrintParseEsc Proofs.PrintParseLit Proofs.PrintParseCC Proofs.PrintParseExpr
  Proofs.PrintParseSem Proofs.PrintParseLang Proofs.PrintParse
  Proofs.SurrogateRepair Proofs.SurrogateLit Proofs.SurrogateCC Proofs.SurrogateExpr.
From Coq Require Import Setoid Morphisms.
From GrexGen Require Import SrcConsts.

(* ------------------------------------------------------------------ *)
(** * (C) the AST top_rast c1 e denotes the language of e *)
Section SurSem.
  Variable lit_den cls_den : cp -> cp -> Prop.
  Variables c1 c0 : cfg.
  Variable gap : Prop.
  Hypothesis Hp0 : printable c0.
  Hypothesis Hesc : f_esc c1 = f_esc c0.
  Hypothesis Hgap : gap -> forall x y, surrogate x -> ~ lit_den x y.

  Notation LR := (LR lit_den cls_den).
  Notation LRs := (LRs lit_den cls_den).
  Notation LRa := (LRa lit_den cls_den).
  Notation Lg := (den_g lit_den cls_den).
  Notation Lc := (L_cluster lit_den cls_den).
  Notation Le := (L_expr lit_den cls_den).
  Notation g_sem := (g_sem lit_den cls_den c1).
  Notation e_sem := (e_sem lit_den cls_den c1).

  Lemma g_sem_all1 : forall g nested, wf_pg nested g -> g_sem g.
  Proof.
    induction g as [cs rs a b IH] using grapheme_ind'. intros nested Hwf.
    apply wf_pg_unfold in Hwf.
    destruct Hwf as (Hne & Htok & Ha & Hab & Hnest & Hrs & Hwfrs).
    assert (Hsem : Forall g_sem rs).
    { clear Hrs. induction IH as [|r rs Hr _ IHrs]; [constructor|].
      inversion Hwfrs; subst. constructor; [eapply Hr; eassumption|apply IHrs; assumption]. }
    destruct (glist_sem lit_den cls_den c1 rs Hsem) as [Lrs Ars].
    destruct (chars_sem lit_den cls_den cs) as [Lcs Acs].
    set (D := den_chars lit_den cls_den cs).
    assert (HD : leq (LRs (g_inner c1 cs rs)) D /\ afs (g_inner c1 cs rs)).
    { unfold g_inner. destruct Hrs as [->|[Hexp _]]; [split; assumption|].
      destruct rs as [|r rs']; [split; assumption|]. split; [|exact Ars].
      rewrite Lrs.
      rewrite (RepInv.L_cluster_expand lit_den cls_den (r :: rs')).
      - rewrite Hexp. apply RepInv.L_cluster_map_g_from.
      - eapply Forall_impl; [|exact Hwfrs]. intros [cs1 rs1 a1 b1] H1.
        apply wf_pg_unfold in H1. destruct H1 as (_ & _ & _ & _ & Hn & _). cbn [g_min g_max].
        apply Hn. reflexivity. }
    destruct HD as [HD HA].
    unfold PrintParseLang.g_sem. rewrite g_atoms_unfold.
    destruct (N.eqb a 1 && N.eqb b 1) eqn:E11.
    - apply andb_true_iff in E11. destruct E11 as [Ea Eb].
      apply N.eqb_eq in Ea, Eb. subst a b. split; [|exact HA].
      rewrite HD. symmetry. apply den_g_11.
    - set (body := if g_single c1 cs rs then hd REmpty (g_inner c1 cs rs)
                   else RGroup (f_cap c1) (rcat (g_inner c1 cs rs))).
      assert (HB : leq (LR body) D /\ af body).
      { unfold body. destruct (g_single c1 cs rs) eqn:Es.
        - assert (Ers : rs = []) by (destruct rs; [reflexivity|discriminate Es]). subst rs.
          cbn [g_single] in Es.
          destruct (single_atoms1 c1 c0 Hp0 Hesc cs Hne Htok Es) as [x Hx].
          cbn [g_inner] in *. rewrite Hx in *. cbn [hd]. split.
          + rewrite <- HD. symmetry. apply LRs_one.
          + inversion HA; assumption.
        - cbn [PrintParseSem.LR af]. split.
          + rewrite LR_rcat. exact HD.
          + apply af_rcat. exact HA. }
      destruct HB as [HB HAb]. split; [|constructor; [exact HAb|constructor]].
      rewrite LRs_one. cbn [PrintParseSem.LR]. intros u. unfold den_g, rep_ok.
      cbn [g_min g_max g_chars]. fold D. split.
      + intros (n & [H1 H2] & H3). exists n. repeat split; try assumption.
        apply (lpow_congr _ _ n HB). exact H3.
      + intros (n & H1 & H2 & H3). exists n. repeat split; try assumption.
        apply (lpow_congr _ _ n HB). exact H3.
  Qed.

  Lemma cluster_sem1 : forall cl, Forall (wf_pg false) cl ->
    leq (LRs (flat_map (g_atoms c1) cl)) (Lc cl) /\ afs (flat_map (g_atoms c1) cl).
  Proof.
    intros cl HF. apply glist_sem. eapply Forall_impl; [|exact HF].
    intros g Hg. eapply g_sem_all1. exact Hg.
  Qed.

  Lemma e_sem_all1 : forall e, wf_print_gen gap e -> e_sem e.
  Proof.
    induction e as [os IH|cs|a b IHa IHb|cl|x q IHx] using expr_ind'; intros Hwf.
    - apply wf_print_alt in Hwf. destruct Hwf as [Hne Hwf].
      assert (HF : Forall e_sem os).
      { clear Hne. induction IH as [|o os Ho _ IHos]; [constructor|].
        inversion Hwf; subst. constructor; [apply Ho; assumption|apply IHos; assumption]. }
      destruct (alts_sem lit_den cls_den c1 os HF) as [H1 H2].
      assert (Hnz : flat_map (e_alts c1) os <> []).
      { destruct os as [|o os]; [congruence|]. inversion HF as [|? ? (_ & _ & H3 & _) _]; subst.
        cbn [flat_map]. intros X. apply app_eq_nil in X. destruct X. contradiction. }
      unfold PrintParseLang.e_sem. rewrite e_atoms_alt, e_alts_alt.
      split; [|split; [exact H1|split; [exact Hnz|split; [|exact H2]]]].
      + rewrite LRs_one. cbn [PrintParseSem.LR]. rewrite LR_ralt by exact Hnz. exact H1.
      + constructor; [|constructor]. cbn [af]. apply af_ralt. exact H2.
    - cbn [wf_print_gen] in Hwf. apply e_sem_of_atoms; [intros os; discriminate| |].
      + rewrite e_atoms_cc, LRs_one. apply (cc_sem lit_den cls_den gap Hgap). exact Hwf.
      + repeat constructor.
    - cbn [wf_print_gen] in Hwf. destruct Hwf as [Hwa Hwb].
      destruct (part_sem lit_den cls_den c1 2 a (IHa Hwa)) as [A1 A2].
      destruct (part_sem lit_den cls_den c1 2 b (IHb Hwb)) as [B1 B2].
      apply e_sem_of_atoms; [intros os; discriminate| |].
      + rewrite e_atoms_cat, LRs_app. cbn [L_expr]. apply lcat_congr; assumption.
      + rewrite e_atoms_cat. apply Forall_app. split; assumption.
    - cbn [wf_print_gen] in Hwf. destruct (cluster_sem1 cl Hwf) as [H1 H2].
      apply e_sem_of_atoms; [intros os; discriminate| |]; rewrite e_atoms_lit; assumption.
    - cbn [wf_print_gen] in Hwf. destruct Hwf as [Hwx _]. specialize (IHx Hwx).
      set (body := if needs_group c1 3 x then RGroup (f_cap c1) (ralt (e_alts c1 x))
                   else hd REmpty (e_atoms c1 x)).
      assert (HB : leq (LR body) (Le x) /\ af body).
      { unfold body. destruct (needs_group c1 3 x) eqn:Eg; [apply group_sem; exact IHx|].
        destruct (ungrouped_atom c1 gap x Hwx Eg) as [y Ey]. rewrite Ey. cbn [hd].
        destruct IHx as (H1 & _ & _ & H4 & _). rewrite Ey in H1, H4. split.
        - rewrite <- H1. symmetry. apply LRs_one.
        - inversion H4; assumption. }
      destruct HB as [HB HAb].
      apply e_sem_of_atoms; [intros os; discriminate| |].
      + rewrite e_atoms_rep. fold body. rewrite LRs_one.
        rewrite (rep_sem lit_den cls_den body (Le x) q HB). destruct q; reflexivity.
      + rewrite e_atoms_rep. fold body. constructor; [exact HAb|constructor].
  Qed.

  Theorem top_rast_lang1 : forall e, wf_print_gen gap e ->
    forall s, L_rast lit_den cls_den (top_rast c1 e) s <-> L_expr lit_den cls_den e s.
  Proof.
    intros e Hwf s.
    destruct (e_sem_all1 e Hwf) as (H1 & _ & _ & H4 & _).
    unfold top_rast, top_atoms. rewrite top_sem by exact H4. apply H1.
  Qed.
End SurSem.

(* ------------------------------------------------------------------ *)
(** * the two configurations of the property *)

(* non-ASCII characters escaped, astral code points as surrogate pairs; no colour *)
Definition sur (c : cfg) : cfg :=
  mkCfg (min_rep c) (min_len c) (f_digit c) (f_non_digit c) (f_space c) (f_non_space c)
        (f_word c) (f_non_word c) (f_rep c) (f_ci c) (f_cap c) true true
        (f_verbose c) (f_no_start c) (f_no_end c) false.

(* non-ASCII characters escaped, no surrogate pairs; no colour *)
Definition nosur (c : cfg) : cfg :=
  mkCfg (min_rep c) (min_len c) (f_digit c) (f_non_digit c) (f_space c) (f_non_space c)
        (f_word c) (f_non_word c) (f_rep c) (f_ci c) (f_cap c) true false
        (f_verbose c) (f_no_start c) (f_no_end c) false.

Lemma nosur_printable : forall c, printable (nosur c).
Proof. intros c. split; reflexivity. Qed.

(* the same expression is printed in both modes: is_single_codepoint (used when the expression is
   built) reads f_esc only *)
Lemma is_single_codepoint_sur : forall c e,
  is_single_codepoint (sur c) e = is_single_codepoint (nosur c) e.
Proof. intros c e. destruct e; reflexivity. Qed.

Section Main.
  Variable lit_den cls_den : cp -> cp -> Prop.
  Variable isd is_ws : cp -> bool.
  Variable c : cfg.
  Hypothesis Hv : f_verbose c = false.
  Hypothesis Hws : ws_ok is_ws.

  (* the re-paired pattern, explicitly *)
  Theorem repair_print_sur : forall gap e, wf_print_gen gap e ->
    repair (regexp_str isd (sur c) e) = regexpR (sur c) (nosur c) e.
  Proof.
    intros gap e Hwf.
    apply (repair_print (sur c) (nosur c) eq_refl Hv (nosur_printable c) Hv eq_refl eq_refl gap isd e Hwf).
  Qed.

  (* the parser model accepts it and builds the AST top_rast (sur c) e *)
  Theorem repair_parse_ast_sur : forall gap e, wf_print_gen gap e ->
    parse is_ws (repair (regexp_str isd (sur c) e))
    = Some (mkF (f_ci c) false, top_rast (sur c) e).
  Proof.
    intros gap e Hwf.
    apply (repair_parse_ast (sur c) (nosur c) eq_refl Hv (nosur_printable c) Hv eq_refl eq_refl
             gap is_ws Hws isd e Hwf).
  Qed.

  (* ... which denotes the language of the expression *)
  Theorem top_rast_sur_lang : forall (gap : Prop) e,
    (gap -> forall x y, surrogate x -> ~ lit_den x y) -> wf_print_gen gap e ->
    forall s, L_rast lit_den cls_den (top_rast (sur c) e) s <-> L_expr lit_den cls_den e s.
  Proof.
    intros gap e Hgap Hwf.
    apply (top_rast_lang1 lit_den cls_den (sur c) (nosur c) gap (nosur_printable c) eq_refl Hgap e Hwf).
  Qed.
End Main.

(* ------------------------------------------------------------------ *)
(** * the theorem *)

(* after re-pairing the surrogate escapes, the pattern printed with f_esc and f_sur is accepted by
   the parser model, with the flags of the configuration, and denotes the language of the
   expression *)
Theorem repair_parse : forall lit_den cls_den isd is_ws c e,
  f_verbose c = false -> wf_print e -> ws_ok is_ws ->
  exists fl r, parse is_ws (repair (regexp_str isd (sur c) e)) = Some (fl, r)
    /\ fl_i fl = f_ci c /\ fl_x fl = false
    /\ (forall s, L_rast lit_den cls_den r s <-> L_expr lit_den cls_den e s).
Proof.
  intros lit_den cls_den isd is_ws c e Hv Hwf Hws.
  exists (mkF (f_ci c) false), (top_rast (sur c) e).
  split; [|split; [reflexivity|split; [reflexivity|]]].
  - apply (repair_parse_ast_sur isd is_ws c Hv Hws False e Hwf).
  - apply (top_rast_sur_lang lit_den cls_den c False e); [intros []|exact Hwf].
Qed.

(* variant: classes may straddle the surrogate gap when no literal denotes a surrogate
   (haystacks are sequences of Unicode scalar values) *)
Theorem repair_parse_scalar : forall lit_den cls_den isd is_ws c e,
  f_verbose c = false -> wf_print_gen True e -> ws_ok is_ws ->
  (forall x y, surrogate x -> ~ lit_den x y) ->
  exists fl r, parse is_ws (repair (regexp_str isd (sur c) e)) = Some (fl, r)
    /\ fl_i fl = f_ci c /\ fl_x fl = false
    /\ (forall s, L_rast lit_den cls_den r s <-> L_expr lit_den cls_den e s).
Proof.
  intros lit_den cls_den isd is_ws c e Hv Hwf Hws Hsur.
  exists (mkF (f_ci c) false), (top_rast (sur c) e).
  split; [|split; [reflexivity|split; [reflexivity|]]].
  - apply (repair_parse_ast_sur isd is_ws c Hv Hws True e Hwf).
  - apply (top_rast_sur_lang lit_den cls_den c True e); [intros _; exact Hsur|exact Hwf].
Qed.

(* the re-paired surrogate pattern and the pattern printed without surrogates denote the same
   language (both that of the expression) *)
Corollary repair_same_language : forall lit_den cls_den isd is_ws c e,
  f_verbose c = false -> wf_print e -> ws_ok is_ws ->
  exists fl r1 r2,
    parse is_ws (repair (regexp_str isd (sur c) e)) = Some (fl, r1) /\
    parse is_ws (regexp_str isd (nosur c) e) = Some (fl, r2) /\
    (forall s, L_rast lit_den cls_den r1 s <-> L_rast lit_den cls_den r2 s).
Proof.
  intros lit_den cls_den isd is_ws c e Hv Hwf Hws.
  exists (mkF (f_ci c) false), (top_rast (sur c) e), (top_rast (nosur c) e).
  split; [|split].
  - apply (repair_parse_ast_sur isd is_ws c Hv Hws False e Hwf).
  - apply (print_parse isd is_ws (nosur c) (nosur_printable c) Hv Hws False e Hwf).
  - intros s.
    rewrite (top_rast_sur_lang lit_den cls_den c False e) by (try (intros []); exact Hwf).
    symmetry.
    apply (top_rast_lang (nosur c) (nosur_printable c) False lit_den cls_den); [intros []|exact Hwf].
Qed.

(* general form: `gap` is the semantic side condition under which a printed class range may
   straddle the surrogate gap (PrintParseDefs.wf_cc) *)
Theorem repair_parse_gen : forall lit_den cls_den isd is_ws c (gap : Prop) e,
  f_verbose c = false -> wf_print_gen gap e -> ws_ok is_ws ->
  (gap -> forall x y, surrogate x -> ~ lit_den x y) ->
  parse is_ws (repair (regexp_str isd (sur c) e))
  = Some (mkF (f_ci c) false, top_rast (sur c) e)
  /\ (forall s, L_rast lit_den cls_den (top_rast (sur c) e) s <-> L_expr lit_den cls_den e s).
Proof.
  intros lit_den cls_den isd is_ws c gap e Hv Hwf Hws Hgap. split.
  - apply (repair_parse_ast_sur isd is_ws c Hv Hws gap e Hwf).
  - apply (top_rast_sur_lang lit_den cls_den c gap e Hgap Hwf).
Qed.

Check repair_parse.
Check repair_parse_scalar.
Check repair_same_language.
Check repair_print_sur.
Check repair_parse_ast_sur.
Check repair_parse_gen.
Check top_rast_sur_lang.
Print Assumptions repair_parse.
Print Assumptions repair_parse_gen.
Print Assumptions repair_parse_scalar.
Print Assumptions repair_same_language.
