(* "Syntax highlighting only adds colour codes" — part 1: the SGR stripper, wrappers, and the
   colouring relation CP between a highlighted string and its plain counterpart. *)
From Grex Require Import Base.Str Model.Config Model.Cluster Model.Dfa Model.Expr Model.Print.
From GrexGen Require Import SrcConsts.
Local Open Scope N_scope.

Definition with_colour (c : cfg) (b : bool) : cfg :=
  mkCfg (min_rep c) (min_len c) (f_digit c) (f_non_digit c) (f_space c) (f_non_space c)
        (f_word c) (f_non_word c) (f_rep c) (f_ci c) (f_cap c) (f_esc c) (f_sur c)
        (f_verbose c) (f_no_start c) (f_no_end c) b.

Definition digit_ok (isd : cp -> bool) : Prop :=
  (forall d, (48 <= d)%N -> (d <= 57)%N -> isd d = true) /\ isd 59%N = false /\ isd 109%N = false.

(* `cp` is a definition for N: numerals elaborate to `@cons N`, model terms to `@cons cp`;
   rewriting is syntactic, so normalise both sides first. *)
Ltac rw_cp H :=
  let X := fresh "X" in
  pose proof H as X; unfold str, cp in X; unfold str, cp; rewrite X; clear X.

(* ---------- generic list helpers ---------- *)
Lemma Forall_flat_map {A B} (P : B -> Prop) (f : A -> list B) (l : list A) :
  (forall x, In x l -> Forall P (f x)) -> Forall P (flat_map f l).
Proof.
  induction l as [|a l IH]; intros H; simpl.
  - constructor.
  - apply Forall_app. split.
    + apply H. left. reflexivity.
    + apply IH. intros x Hx. apply H. right. exact Hx.
Qed.

Lemma Forall_concat {A} (P : A -> Prop) (l : list (list A)) :
  Forall (Forall P) l -> Forall P (concat l).
Proof.
  induction 1 as [|x l Hx Hl IH]; simpl.
  - constructor.
  - apply Forall_app. split; assumption.
Qed.

(* ---------- the stripper: fuel independence and unfolding equations ---------- *)
Section Strip.
  Variable isd : cp -> bool.

  Lemma take_digits_split : forall s d r, take_digits isd s = (d, r) -> s = d ++ r.
  Proof.
    induction s as [|a s IH]; simpl; intros d r H.
    - inversion H. reflexivity.
    - destruct (isd a).
      + destruct (take_digits isd s) as [d' r'] eqn:E. inversion H; subst. simpl. f_equal.
        apply IH. reflexivity.
      + inversion H. reflexivity.
  Qed.

  Lemma match_tail_split : forall s r,
      match_sgr_tail isd s = Some r -> exists p, s = p ++ r /\ p <> [].
  Proof.
    intros s r H. unfold match_sgr_tail in H.
    destruct (take_digits isd s) as [d1 r1] eqn:E1.
    pose proof (take_digits_split _ _ _ E1) as S1.
    assert (Fallback : match s with
                       | z :: m :: r0 => if N.eqb z 48 && N.eqb m 109 then Some r0 else None
                       | _ => None
                       end = Some r -> exists p, s = p ++ r /\ p <> []).
    { clear. intros H. destruct s as [|z [|m r0]]; try discriminate.
      destruct (N.eqb z 48 && N.eqb m 109); try discriminate. inversion H; subst.
      exists [z; m]. split; [reflexivity|discriminate]. }
    destruct d1 as [|a d1]; [apply Fallback; exact H|].
    destruct r1 as [|semi r2]; [apply Fallback; exact H|].
    destruct (N.eqb semi 59); [|apply Fallback; exact H].
    destruct (take_digits isd r2) as [d2 r3] eqn:E2.
    pose proof (take_digits_split _ _ _ E2) as S2.
    destruct d2 as [|b d2]; [apply Fallback; exact H|].
    destruct r3 as [|m r4]; [apply Fallback; exact H|].
    destruct (N.eqb m 109); [|apply Fallback; exact H].
    inversion H; subst.
    exists ((a :: d1) ++ semi :: (b :: d2) ++ [m]). split.
    - rewrite <- !app_assoc. simpl. rewrite <- !app_assoc. reflexivity.
    - discriminate.
  Qed.

  Lemma match_tail_shorter : forall s r,
      match_sgr_tail isd s = Some r -> (length r < length s)%nat.
  Proof.
    intros s r H. destruct (match_tail_split _ _ H) as [p [E Hp]]. subst s.
    rewrite app_length. destruct p; [contradiction|]. simpl. lia.
  Qed.

  Lemma strip_fuel_S : forall f s,
      strip_sgr_fuel isd (S f) s =
      match s with
      | [] => []
      | x :: s' =>
          if N.eqb x ESC then
            match s' with
            | br :: s'' =>
                if N.eqb br 91 then
                  match match_sgr_tail isd s'' with
                  | Some r => strip_sgr_fuel isd f r
                  | None => x :: strip_sgr_fuel isd f s'
                  end
                else x :: strip_sgr_fuel isd f s'
            | [] => [x]
            end
          else x :: strip_sgr_fuel isd f s'
      end.
  Proof. reflexivity. Qed.

  Lemma fuel_irrel : forall f1 f2 s,
      (length s < f1)%nat -> (length s < f2)%nat ->
      strip_sgr_fuel isd f1 s = strip_sgr_fuel isd f2 s.
  Proof.
    induction f1 as [|f1 IH]; intros f2 s H1 H2; [lia|].
    destruct f2 as [|f2]; [lia|].
    rewrite !strip_fuel_S.
    destruct s as [|x s']; [reflexivity|]. simpl in H1, H2.
    destruct (N.eqb x ESC).
    - destruct s' as [|br s'']; [reflexivity|].
      destruct (N.eqb br 91).
      + destruct (match_sgr_tail isd s'') as [r|] eqn:E.
        * pose proof (match_tail_shorter _ _ E) as L. simpl in H1, H2. apply IH; lia.
        * f_equal. apply IH; lia.
      + f_equal. apply IH; lia.
    - f_equal. apply IH; lia.
  Qed.

  Lemma strip_nil : strip_sgr isd [] = [].
  Proof. reflexivity. Qed.

  Lemma strip_cons_ne : forall x s, x <> ESC -> strip_sgr isd (x :: s) = x :: strip_sgr isd s.
  Proof.
    intros x s Hx. unfold strip_sgr. simpl length. rewrite strip_fuel_S.
    destruct (N.eqb_spec x ESC) as [E|E]; [contradiction|]. reflexivity.
  Qed.

  Lemma strip_esc_nobr : forall s, (forall s', s <> 91 :: s') ->
      strip_sgr isd (ESC :: s) = ESC :: strip_sgr isd s.
  Proof.
    intros s Hs. unfold strip_sgr. simpl length. rewrite strip_fuel_S.
    rewrite N.eqb_refl. destruct s as [|br s'']; [reflexivity|].
    destruct (N.eqb_spec br 91) as [E|E].
    - subst. exfalso. apply (Hs s''). reflexivity.
    - reflexivity.
  Qed.

  Lemma strip_match : forall s r, match_sgr_tail isd s = Some r ->
      strip_sgr isd (ESC :: 91 :: s) = strip_sgr isd r.
  Proof.
    intros s r H. unfold strip_sgr. simpl length. rewrite strip_fuel_S.
    rewrite N.eqb_refl. rewrite N.eqb_refl. rewrite H.
    pose proof (match_tail_shorter _ _ H) as L.
    apply fuel_irrel; lia.
  Qed.

  Lemma strip_nomatch : forall s, match_sgr_tail isd s = None ->
      strip_sgr isd (ESC :: 91 :: s) = ESC :: 91 :: strip_sgr isd s.
  Proof.
    intros s H. unfold strip_sgr at 1. simpl length. rewrite strip_fuel_S.
    rewrite N.eqb_refl. rewrite N.eqb_refl. rewrite H.
    reflexivity.
  Qed.

  Lemma strip_app_noesc : forall t s, Forall (fun x => x <> ESC) t ->
      strip_sgr isd (t ++ s) = t ++ strip_sgr isd s.
  Proof.
    induction t as [|x t IH]; intros s H; simpl.
    - reflexivity.
    - inversion H; subst. rewrite strip_cons_ne by assumption. f_equal. apply IH. assumption.
  Qed.

  (* a string without ESC [ is left alone *)
  Fixpoint no_escbr (s : str) : Prop :=
    match s with
    | [] => True
    | x :: s' => (x = ESC -> forall s'', s' <> 91 :: s'') /\ no_escbr s'
    end.

  Lemma strip_no_escbr : forall s, no_escbr s -> strip_sgr isd s = s.
  Proof.
    induction s as [|x s IH]; intros H.
    - reflexivity.
    - destruct H as [H1 H2]. destruct (N.eq_dec x ESC) as [E|E].
      + subst. rewrite strip_esc_nobr by (apply H1; reflexivity). f_equal. apply IH. exact H2.
      + rewrite strip_cons_ne by exact E. f_equal. apply IH. exact H2.
  Qed.

  (* ---------- wrappers ---------- *)
  Definition is_dig (x : cp) : bool := N.leb 48 x && N.leb x 57.

  Hypothesis Hd : digit_ok isd.

  Lemma is_dig_isd : forall x, is_dig x = true -> isd x = true.
  Proof.
    intros x H. unfold is_dig in H. apply andb_true_iff in H. destruct H as [H1 H2].
    apply N.leb_le in H1. apply N.leb_le in H2. destruct Hd as [D _]. apply D; assumption.
  Qed.

  Lemma take_digits_digits : forall (d : str) (x : cp) (r : str),
      forallb is_dig d = true -> isd x = false -> take_digits isd (d ++ x :: r) = (d, x :: r).
  Proof.
    induction d as [|a d IH]; intros x r H Hx; simpl.
    - rewrite Hx. reflexivity.
    - simpl in H. apply andb_true_iff in H. destruct H as [Ha H].
      rewrite (is_dig_isd _ Ha). rewrite (IH x r H Hx). reflexivity.
  Qed.
End Strip.

Inductive code_ok (code : str) : Prop :=
| code_ok_intro (d1 d2 : str) :
    code = d1 ++ 59 :: d2 -> d1 <> [] -> d2 <> [] ->
    forallb is_dig d1 = true -> forallb is_dig d2 = true -> code_ok code.

(* boolean checker, evaluated on the generated constants *)
Fixpoint span_dig (s : str) : str * str :=
  match s with
  | x :: s' => if is_dig x then let '(d, r) := span_dig s' in (x :: d, r) else ([], s)
  | [] => ([], [])
  end.

Lemma span_dig_spec : forall s d r, span_dig s = (d, r) -> s = d ++ r /\ forallb is_dig d = true.
Proof.
  induction s as [|a s IH]; simpl; intros d r H.
  - inversion H. split; reflexivity.
  - destruct (is_dig a) eqn:Ea.
    + destruct (span_dig s) as [d' r'] eqn:E. inversion H; subst.
      destruct (IH _ _ eq_refl) as [E1 E2]. subst s. split; [reflexivity|].
      simpl. rewrite Ea. exact E2.
    + inversion H; subst. split; reflexivity.
Qed.

Definition code_okb (code : str) : bool :=
  let '(d1, r) := span_dig code in
  match d1, r with
  | _ :: _, semi :: d2 =>
      N.eqb semi 59 && match d2 with [] => false | _ => forallb is_dig d2 end
  | _, _ => false
  end.

Lemma code_okb_ok : forall code, code_okb code = true -> code_ok code.
Proof.
  intros code H. unfold code_okb in H.
  destruct (span_dig code) as [d1 r] eqn:E.
  destruct (span_dig_spec _ _ _ E) as [E1 E2].
  destruct d1 as [|a d1]; [discriminate|].
  destruct r as [|semi d2]; [discriminate|].
  apply andb_true_iff in H. destruct H as [H1 H2].
  apply N.eqb_eq in H1. subst semi.
  destruct d2 as [|b d2]; [discriminate|].
  apply (code_ok_intro code (a :: d1) (b :: d2)); try assumption; discriminate.
Qed.

Definition wrap (code tok : str) : str :=
  [ESC; 91] ++ code ++ [109] ++ tok ++ [ESC; 91; 48; 109].
Arguments wrap : simpl never.

Lemma col_true : forall c code v, col (with_colour c true) code v = wrap code v.
Proof. reflexivity. Qed.
Lemma col_false : forall c code v, col (with_colour c false) code v = v.
Proof. reflexivity. Qed.

Lemma wrap_app : forall code tok s : str,
    wrap code tok ++ s = ESC :: 91 :: (code ++ 109 :: (tok ++ ESC :: 91 :: 48 :: 109 :: s)).
Proof.
  intros. unfold wrap. simpl. f_equal. f_equal. rewrite <- !app_assoc. simpl.
  rewrite <- !app_assoc. reflexivity.
Qed.

Section Strip2.
  Variable isd : cp -> bool.
  Hypothesis Hd : digit_ok isd.

  Lemma match_tail_code : forall (code rest : str), code_ok code ->
      match_sgr_tail isd (code ++ 109 :: rest) = Some rest.
  Proof.
    intros code rest [d1 d2 E N1 N2 D1 D2]. subst code.
    destruct Hd as [_ [H59 H109]].
    rewrite <- app_assoc. simpl.
    unfold match_sgr_tail.
    rewrite (take_digits_digits isd Hd d1 59 (d2 ++ 109 :: rest) D1 H59).
    destruct d1 as [|a d1]; [contradiction|].
    cbv beta iota. rewrite N.eqb_refl.
    rw_cp (take_digits_digits isd Hd d2 109 rest D2 H109).
    destruct d2 as [|b d2]; [contradiction|].
    cbv beta iota. rewrite N.eqb_refl. reflexivity.
  Qed.

  Lemma match_tail_reset : forall rest : str, match_sgr_tail isd (48 :: 109 :: rest) = Some rest.
  Proof.
    intros rest. destruct Hd as [_ [H59 H109]].
    unfold match_sgr_tail.
    assert (E : take_digits isd (48 :: 109 :: rest) = ([48], 109 :: rest)).
    { apply (take_digits_digits isd Hd [48] 109 rest); [reflexivity|exact H109]. }
    rewrite E. reflexivity.
  Qed.

  Lemma strip_wrap : forall (code tok s : str), code_ok code -> Forall (fun x => x <> ESC) tok ->
      strip_sgr isd (wrap code tok ++ s) = tok ++ strip_sgr isd s.
  Proof.
    intros code tok s Hc Ht. rewrite wrap_app.
    rewrite (strip_match isd _ _ (match_tail_code code _ Hc)).
    rewrite strip_app_noesc by exact Ht.
    f_equal. apply strip_match. apply match_tail_reset.
  Qed.
End Strip2.

(* ---------- the colouring relation ---------- *)
Definition tok_char_ok (x : cp) : Prop := x <> 27 /\ x <> 10 /\ x <> 13.
Definition tok_ok (tok : str) : Prop := tok <> [] /\ Forall tok_char_ok tok.

Inductive CP : str -> str -> Prop :=
| CP_nil : CP [] []
| CP_char x cs ps : x <> 91 -> CP cs ps -> CP (x :: cs) (x :: ps)
| CP_bs cs ps : CP cs ps -> CP (92 :: 91 :: cs) (92 :: 91 :: ps)
| CP_tok code tok cs ps : code_ok code -> tok_ok tok -> CP cs ps ->
                          CP (wrap code tok ++ cs) (tok ++ ps).

Lemma CP_hd : forall cs ps, CP cs ps -> forall s', cs <> 91 :: s'.
Proof.
  intros cs ps H s' E. destruct H.
  - discriminate.
  - inversion E; subst. contradiction.
  - discriminate.
  - rewrite wrap_app in E. discriminate.
Qed.

Lemma tok_ok_noesc : forall tok, tok_ok tok -> Forall (fun x => x <> ESC) tok.
Proof.
  intros tok [_ H]. eapply Forall_impl; [|exact H]. intros x [Hx _]. exact Hx.
Qed.

Theorem strip_CP : forall isd, digit_ok isd -> forall cs ps, CP cs ps -> strip_sgr isd cs = ps.
Proof.
  intros isd Hd cs ps H. induction H as [|x cs ps Hx H IH|cs ps H IH|code tok cs ps Hc Ht H IH].
  - reflexivity.
  - destruct (N.eq_dec x ESC) as [E|E].
    + subst x. rewrite strip_esc_nobr by (apply (CP_hd _ _ H)). rewrite IH. reflexivity.
    + rewrite strip_cons_ne by exact E. rewrite IH. reflexivity.
  - rewrite strip_cons_ne by discriminate. rewrite strip_cons_ne by discriminate.
    rewrite IH. reflexivity.
  - rewrite (strip_wrap isd Hd) by (try assumption; apply tok_ok_noesc; assumption).
    rewrite IH. reflexivity.
Qed.

Lemma CP_app : forall a b a' b', CP a b -> CP a' b' -> CP (a ++ a') (b ++ b').
Proof.
  intros a b a' b' H H'. induction H.
  - exact H'.
  - simpl. apply CP_char; assumption.
  - simpl. apply CP_bs; assumption.
  - rewrite <- !app_assoc. apply CP_tok; assumption.
Qed.

Lemma CP_nil_iff : forall cs ps, CP cs ps -> (cs = [] <-> ps = []).
Proof.
  intros cs ps H. destruct H.
  - split; reflexivity.
  - split; discriminate.
  - split; discriminate.
  - split; intros E.
    + rewrite wrap_app in E. discriminate.
    + destruct H0 as [N _]. destruct tok; [contradiction|discriminate].
Qed.

Lemma CP_col : forall c code tok, code_ok code -> tok_ok tok ->
    CP (col (with_colour c true) code tok) (col (with_colour c false) code tok).
Proof.
  intros c code tok Hc Ht. rewrite col_true, col_false.
  rewrite <- (app_nil_r (wrap code tok)). rewrite <- (app_nil_r tok) at 2.
  apply CP_tok; try assumption. constructor.
Qed.

(* a string without ESC on the coloured side is its own plain string *)
Lemma CP_noesc_eq : forall cs ps, CP cs ps -> Forall (fun x => x <> ESC) cs -> cs = ps.
Proof.
  intros cs ps H. induction H; intros F.
  - reflexivity.
  - inversion F; subst. f_equal. apply IHCP. assumption.
  - inversion F; subst. inversion H3; subst. f_equal. f_equal. apply IHCP. assumption.
  - rewrite wrap_app in F. inversion F; subst. exfalso. apply H4. reflexivity.
Qed.

(* ---------- strings in which every character of a set S is escaped by a backslash ---------- *)
Inductive safeS (S : cp -> bool) : str -> Prop :=
| safe_nil : safeS S []
| safe_char x s : S x = false -> safeS S s -> safeS S (x :: s)
| safe_bs x s : safeS S s -> safeS S (92 :: x :: s).

Lemma safe_app : forall S a b, safeS S a -> safeS S b -> safeS S (a ++ b).
Proof.
  intros S a b Ha Hb. induction Ha; simpl.
  - exact Hb.
  - apply safe_char; assumption.
  - apply safe_bs; assumption.
Qed.

Lemma safe_concat : forall S l, Forall (safeS S) l -> safeS S (concat l).
Proof.
  intros S l H. induction H; simpl.
  - constructor.
  - apply safe_app; assumption.
Qed.

Lemma safe_free : forall S s, Forall (fun x => S x = false) s -> safeS S s.
Proof.
  intros S s H. induction H.
  - constructor.
  - apply safe_char; assumption.
Qed.

Lemma safe_mono : forall (S S' : cp -> bool) s,
    (forall x, S' x = true -> S x = true) -> safeS S s -> safeS S' s.
Proof.
  intros S S' s M H. induction H.
  - constructor.
  - apply safe_char; [|assumption].
    destruct (S' x) eqn:E; [|reflexivity]. apply M in E. congruence.
  - apply safe_bs. assumption.
Qed.

Lemma safe_CP : forall S s, S 91 = true -> safeS S s -> CP s s.
Proof.
  intros S s H91 H. induction H.
  - constructor.
  - apply CP_char; [|assumption]. intros E. subst. congruence.
  - destruct (N.eq_dec x 91) as [E|E].
    + subst. apply CP_bs. assumption.
    + apply CP_char; [discriminate|]. apply CP_char; assumption.
Qed.

(* character-wise maps preserve safety (possibly for a different set) *)
Lemma safe_flat_map2 : forall S S' (h : cp -> str) s,
    (forall y, S y = false -> safeS S' (h y)) ->
    (forall x, safeS S' (h 92 ++ h x)) ->
    safeS S s -> safeS S' (flat_map h s).
Proof.
  intros S S' h s H1 H2 H. induction H; simpl.
  - constructor.
  - apply safe_app; [apply H1; assumption|assumption].
  - rewrite app_assoc. apply safe_app; [apply H2|assumption].
Qed.

Lemma safe_flat_map : forall S (h : cp -> str) s,
    (forall y, S y = false -> safeS S (h y)) ->
    (forall x, safeS S (h 92 ++ h x)) ->
    safeS S s -> safeS S (flat_map h s).
Proof. intros S h s. apply safe_flat_map2. Qed.

Lemma safe_replace_cp : forall S y z s, S 92 = false -> y <> 92 ->
    safeS S s -> safeS S (replace_cp y [92; z] s).
Proof.
  intros S y z s H92 Hy H. unfold replace_cp. apply safe_flat_map; [| |exact H].
  - intros x Hx. destruct (N.eqb x y).
    + apply safe_bs. constructor.
    + apply safe_char; [exact Hx|constructor].
  - intros x. destruct (N.eqb_spec 92 y) as [E|E]; [congruence|].
    destruct (N.eqb x y); simpl.
    + apply safe_char; [exact H92|]. apply safe_bs. constructor.
    + apply safe_bs. constructor.
Qed.

(* escaping a character keeps safety *)
Lemma safe_replace_self_keep : forall S y s, S 92 = false ->
    safeS S s -> safeS S (replace_cp y [92; y] s).
Proof.
  intros S y s H92 H. unfold replace_cp. apply safe_flat_map; [| |exact H].
  - intros x Hx. destruct (N.eqb x y).
    + apply safe_bs. constructor.
    + apply safe_char; [exact Hx|constructor].
  - intros x. destruct (N.eqb_spec 92 y) as [E|E]; [subst y|]; destruct (N.eqb x 92) eqn:E2; simpl.
    + apply safe_bs. apply safe_bs. constructor.
    + apply safe_char; [exact H92|]. apply safe_bs. constructor.
    + destruct (N.eqb x y); simpl.
      * apply safe_char; [exact H92|]. apply safe_bs. constructor.
      * apply safe_bs. constructor.
    + destruct (N.eqb x y); simpl.
      * apply safe_char; [exact H92|]. apply safe_bs. constructor.
      * apply safe_bs. constructor.
Qed.

(* escaping y adds y to the set of escaped characters *)
Lemma safe_replace_self_add : forall T y s, T 92 = false -> y <> 92 ->
    safeS T s -> safeS (fun z => T z || N.eqb z y) (replace_cp y [92; y] s).
Proof.
  intros T y s H92 Hy H. unfold replace_cp. apply (safe_flat_map2 T); [| |exact H].
  - intros x Hx. destruct (N.eqb x y) eqn:E.
    + apply safe_bs. constructor.
    + apply safe_char; [rewrite Hx, E; reflexivity|constructor].
  - intros x. destruct (N.eqb_spec 92 y) as [E|E]; [congruence|].
    assert (F : T 92 || N.eqb 92 y = false).
    { rewrite H92. rewrite orb_false_l. apply N.eqb_neq. exact E. }
    destruct (N.eqb x y); simpl.
    + apply safe_char; [exact F|]. apply safe_bs. constructor.
    + apply safe_bs. constructor.
Qed.

Lemma fold_escape_safe : forall (l : list cp) T s, T 92 = false -> mem_cp 92 l = false ->
    safeS T s ->
    safeS (fun y => T y || mem_cp y l) (fold_left (fun s x => replace_cp x [92; x] s) l s).
Proof.
  induction l as [|x l IH]; intros T s H92 Hm H.
  - simpl. eapply safe_mono; [|exact H]. intros y Hy. cbv beta in Hy.
    rewrite orb_false_r in Hy. exact Hy.
  - cbn [mem_cp] in Hm. apply orb_false_iff in Hm. destruct Hm as [Hx Hm].
    apply N.eqb_neq in Hx.
    simpl fold_left.
    eapply safe_mono; [|apply (IH (fun z => T z || N.eqb z x))].
    + intros y Hy. cbv beta in Hy |- *. cbn [mem_cp] in Hy.
      destruct (T y), (N.eqb y x), (mem_cp y l); simpl in *; congruence.
    + cbv beta. rewrite H92. rewrite orb_false_l. apply N.eqb_neq. exact Hx.
    + exact Hm.
    + apply safe_replace_self_add; [exact H92|congruence|exact H].
Qed.
