(* Expression::from never panics on a well-formed automaton, cyclic or not, and its result is
   well formed.  Invariant: all entries of the matrix a and of the vector b are wf_oexpr.
   (ElimLang.expr_from_total assumes acyclicity because it is derived from the language
   theorem; here nothing about languages is needed.) *)
From Grex Require Import Base.Str Model.Config Model.Cluster Model.Dfa Model.Expr.
From Grex Require Import Proofs.Lang Proofs.MatLemmas Proofs.DfsOk Proofs.ExprLang.

(* ---------- get/set without side conditions ---------- *)
Lemma nth_set_nth_cases : forall {A} (l : list A) k v k' d,
  nth k' (set_nth l k v) d = v \/ nth k' (set_nth l k v) d = nth k' l d.
Proof.
  intros A. induction l as [|x l IH]; intros k v k' d.
  - right. destruct k; reflexivity.
  - destruct k as [|k]; destruct k' as [|k']; simpl; auto.
Qed.

Lemma mget_mset_P : forall {A} (P : option A -> Prop) (m : list (list (option A))) i j v,
  P v -> (forall i j, P (mget m i j)) -> forall i' j', P (mget (mset m i j v) i' j').
Proof.
  intros A P m i j v Hv Hm i' j'. unfold mget, mset.
  destruct (nth_set_nth_cases m i (set_nth (nth i m []) j v) i' []) as [E|E]; rewrite E.
  - destruct (nth_set_nth_cases (nth i m []) j v j' None) as [E'|E']; rewrite E'.
    + exact Hv.
    + apply (Hm i j').
  - apply (Hm i' j').
Qed.

Lemma vget_set_nth_P : forall {A} (P : option A -> Prop) (b : list (option A)) i v,
  P v -> (forall i, P (vget b i)) -> forall i', P (vget (set_nth b i v) i').
Proof.
  intros A P b i v Hv Hb i'. unfold vget.
  destruct (nth_set_nth_cases b i v i' None) as [E|E]; rewrite E; [exact Hv|apply Hb].
Qed.

(* ---------- folds over option states ---------- *)
Lemma fold_opt_total : forall {S X} (P : S -> Prop) (f : option S -> X -> option S) (l : list X),
  (forall s x, In x l -> P s -> exists s', f (Some s) x = Some s' /\ P s') ->
  forall s, P s -> exists s', fold_left f l (Some s) = Some s' /\ P s'.
Proof.
  intros S X P f. induction l as [|x l IH]; intros Hf s Hs; simpl.
  - eauto.
  - destruct (Hf s x (or_introl eq_refl) Hs) as (s1 & E & H1). rewrite E.
    apply IH; [|exact H1]. intros s0 x0 Hx0. apply Hf. right; exact Hx0.
Qed.

Definition mat_wf (a : list (list (option expr))) : Prop := forall i j, wf_oexpr (mget a i j).
Definition vec_wf (b : list (option expr)) : Prop := forall i, wf_oexpr (vget b i).
Definition sys_wf (s : sys) : Prop := mat_wf (fst s) /\ vec_wf (snd s).

Lemma mat_wf_mset : forall a i j v, wf_oexpr v -> mat_wf a -> mat_wf (mset a i j v).
Proof. intros a i j v Hv Ha i' j'. apply mget_mset_P; auto. Qed.

Lemma vec_wf_set : forall b i v, wf_oexpr v -> vec_wf b -> vec_wf (set_nth b i v).
Proof. intros b i v Hv Hb i'. apply vget_set_nth_P; auto. Qed.

Lemma union_total_wf : forall c a b, wf_oexpr a -> wf_oexpr b ->
  exists r, union c a b = Some r /\ wf_oexpr r.
Proof.
  intros c a b Ha Hb. destruct (ExprLang.union_total c a b Ha Hb) as [r Hr].
  exists r. split; [exact Hr|]. exact (ExprLang.union_wf c a b r Ha Hb Hr).
Qed.

(* ---------- init_system ---------- *)
Lemma init_system_total_wf : forall c d states, wf_dfa d -> dfs_ok d states ->
  exists s, init_system c d states = Some s /\ sys_wf s.
Proof.
  intros c d states Hwf (Hnd & Hhd & Hbd & Hcl). unfold init_system.
  apply (fold_opt_total sys_wf).
  - intros [a b] [i st] Hin [Ha Hb]. simpl in Ha, Hb.
    apply in_combine_r in Hin.
    set (b' := if set_mem st (d_finals d) then set_nth b i (Some (ELit [])) else b).
    assert (Hb' : vec_wf b').
    { subst b'. destruct (set_mem st (d_finals d)); [|exact Hb].
      apply vec_wf_set; [|exact Hb]. simpl. constructor. }
    apply (fold_opt_total sys_wf).
    + intros [a1 b1] e He [Ha1 Hb1]. simpl in Ha1, Hb1.
      apply in_out_edges in He. destruct He as [He Hsrc].
      assert (Hdst : In (e_dst e) states) by (apply Hcl; [exact He|rewrite Hsrc; exact Hin]).
      destruct (position_some (e_dst e) states 0 Hdst) as [j Hj]. rewrite Hj.
      assert (Hl : wf_expr (ELit [e_lbl e])).
      { simpl. constructor; [|constructor]. destruct Hwf as (Hes & _).
        rewrite Forall_forall in Hes. apply (Hes e He). }
      destruct (mget a1 i j) as [old|] eqn:Eo.
      * assert (Hold : wf_expr old) by (pose proof (Ha1 i j) as H; rewrite Eo in H; exact H).
        destruct (ExprLang.union2_total c old _ Hold Hl) as [u Hu]. rewrite Hu.
        eexists. split; [reflexivity|]. split; simpl; [|exact Hb1].
        apply mat_wf_mset; [|exact Ha1]. simpl. exact (ExprLang.union2_wf c old _ u Hold Hl Hu).
      * eexists. split; [reflexivity|]. split; simpl; [|exact Hb1].
        apply mat_wf_mset; [exact Hl|exact Ha1].
    + split; simpl; [exact Ha|exact Hb'].
  - split; simpl.
    + intros i j. rewrite mget_repeat_none. exact I.
    + intros i. rewrite vget_repeat_none. exact I.
Qed.

(* ---------- elim_step ---------- *)
Definition el_inner (c : cfg) (ain : expr) (n i : nat) (acc : option sys) (j : nat) : option sys :=
  match acc with
  | None => None
  | Some (a, b) =>
      match union c (mget a i j) (concatenate (Some ain) (mget a n j)) with
      | None => None
      | Some aij => Some (mset a i j aij, b)
      end
  end.

Definition el_outer (c : cfg) (n : nat) (acc : option sys) (i : nat) : option sys :=
  match acc with
  | None => None
  | Some (a, b) =>
      match mget a i n with
      | None => Some (a, b)
      | Some ain =>
          match union c (vget b i) (concatenate (Some ain) (vget b n)) with
          | None => None
          | Some bi =>
              let b := set_nth b i bi in
              fold_left (el_inner c ain n i) (seq 0 n) (Some (a, b))
          end
      end
  end.

Definition el_pre (n : nat) (a : list (list (option expr))) (b : list (option expr)) : sys :=
  match mget a n n with
  | Some ann =>
      let s := star (Some ann) in
      let b := set_nth b n (concatenate s (vget b n)) in
      let a := fold_left (fun a j => mset a n j (concatenate s (mget a n j))) (seq 0 n) a in
      (a, b)
  | None => (a, b)
  end.

Lemma elim_step_eq : forall c a b n,
  elim_step c (Some (a, b)) n =
  let '(a, b) := el_pre n a b in fold_left (el_outer c n) (seq 0 n) (Some (a, b)).
Proof. reflexivity. Qed.

Lemma pre_fold_wf : forall s n l a, wf_oexpr s -> mat_wf a ->
  mat_wf (fold_left (fun a j => mset a n j (concatenate s (mget a n j))) l a).
Proof.
  intros s n. induction l as [|j l IH]; intros a Hs Ha; simpl; [exact Ha|].
  apply IH; [exact Hs|]. apply mat_wf_mset; [|exact Ha].
  apply ExprLang.concatenate_wf; [exact Hs|apply Ha].
Qed.

Lemma el_pre_wf : forall n a b, mat_wf a -> vec_wf b -> sys_wf (el_pre n a b).
Proof.
  intros n a b Ha Hb. unfold el_pre. destruct (mget a n n) as [ann|] eqn:E.
  - assert (Hs : wf_oexpr (star (Some ann))).
    { simpl. pose proof (Ha n n) as H. rewrite E in H. exact H. }
    split; cbn [fst snd].
    + apply pre_fold_wf; [exact Hs|exact Ha].
    + apply vec_wf_set; [|exact Hb]. apply ExprLang.concatenate_wf; [exact Hs|apply Hb].
  - split; assumption.
Qed.

Lemma elim_step_total_wf : forall c s n, sys_wf s ->
  exists s', elim_step c (Some s) n = Some s' /\ sys_wf s'.
Proof.
  intros c [a b] n [Ha Hb]. simpl in Ha, Hb. rewrite elim_step_eq.
  pose proof (el_pre_wf n a b Ha Hb) as Hp. destruct (el_pre n a b) as [a1 b1].
  apply (fold_opt_total sys_wf); [|exact Hp].
  intros [a2 b2] i _ [Ha2 Hb2]. simpl in Ha2, Hb2. unfold el_outer.
  destruct (mget a2 i n) as [ain|] eqn:E.
  - assert (Hain : wf_oexpr (Some ain)) by (pose proof (Ha2 i n) as H; rewrite E in H; exact H).
    destruct (union_total_wf c (vget b2 i) (concatenate (Some ain) (vget b2 n))) as (bi & Ebi & Hbi).
    + apply Hb2.
    + apply ExprLang.concatenate_wf; [exact Hain|apply Hb2].
    + rewrite Ebi. apply (fold_opt_total sys_wf).
      * intros [a3 b3] j _ [Ha3 Hb3]. simpl in Ha3, Hb3. unfold el_inner.
        destruct (union_total_wf c (mget a3 i j) (concatenate (Some ain) (mget a3 n j)))
          as (aij & Eaij & Haij).
        -- apply Ha3.
        -- apply ExprLang.concatenate_wf; [exact Hain|apply Ha3].
        -- rewrite Eaij. eexists. split; [reflexivity|]. split; simpl; [|exact Hb3].
           apply mat_wf_mset; [exact Haij|exact Ha3].
      * split; simpl; [exact Ha2|]. apply vec_wf_set; [exact Hbi|exact Hb2].
  - eexists. split; [reflexivity|]. split; assumption.
Qed.

(* ---------- Expression::from ---------- *)
Theorem expr_from_total_wf : forall c d, wf_dfa d ->
  exists e, expr_from c d = Some e /\ wf_expr e.
Proof.
  intros c d Hwf. unfold expr_from.
  destruct (dfs_order_total d) as [states Hord]. rewrite Hord.
  pose proof (dfs_order_ok d states Hwf Hord) as Hok.
  destruct (init_system_total_wf c d states Hwf Hok) as (s0 & E0 & H0). rewrite E0.
  destruct (fold_opt_total sys_wf (elim_step c) (rev (seq 0 (d_n d)))) with (s := s0)
    as ([a b] & E & [_ Hb]).
  - intros s n _ Hs. apply elim_step_total_wf; exact Hs.
  - exact H0.
  - rewrite E. simpl in Hb. destruct b as [|[e|] b'].
    + eexists. split; [reflexivity|]. simpl. constructor.
    + exists e. split; [reflexivity|]. exact (Hb 0).
    + eexists. split; [reflexivity|]. simpl. constructor.
Qed.

Check expr_from_total_wf.
Print Assumptions expr_from_total_wf.
