(* The self-check of RegExp::from, computed inside the model (Model/SelfCheck.sc_ref), is TOTAL and is
   NEVER SKIPPED without surrogate escapes -- in non-verbose mode, for candidates without a raw
   VT/FF character.

   Until now "the self-check is skipped only with surrogate escapes" (Pipeline.sc_admissible) was
   measured on every correspondence run and guarded, not proved.  Here it is a theorem about the
   model: the candidate handed to Regex::new -- the Expression's string, NOT the RegExp's: no flag
   prefix, no anchors, a top-level alternation NOT wrapped in a group, colour codes stripped --
   is accepted by the parser model, so the `try_convert_expr_to_regex(..).is_some()` guard of
   src/regexp.rs holds and the `unwrap()` of `convert_expr_to_regex` cannot fail.

   New here: parsing an alternation at the TOP level (PrintParseExpr proves it inside a group):
   [term_top], [e_altp_top_all], [cand_pseq], [cand_parses].

   Limits, stated in the theorems: f_verbose c = false (in verbose mode the candidate is compiled
   without the x flag and, for the first candidate, with its line breaks removed -- a different
   string language, not covered; measured by the correspondence run as before) and [no_vf] of the
   candidate (the printing lemmas are stated for strings after RegExp::fmt's \v \f replacement, which
   the Expression's string has not undergone; a raw VT or FF is an ordinary literal for the parser,
   but that is not proved). *)
From Grex Require Import Base.Str Model.Config Model.Cluster Model.Dfa Model.Expr Model.Print
  Model.Pipeline Model.SelfCheck.
From Grex Require Import Engine.Syntax Engine.Parse.
From Grex Require Import Proofs.Lang Proofs.ExprLang.
From Grex Require Import Proofs.PrintParseNum Proofs.PrintParseStep Proofs.PrintParseDefs
  Proofs.PrintParseEsc Proofs.PrintParseLit Proofs.PrintParseCC Proofs.PrintParseExpr Proofs.PrintParse.
From GrexGen Require Import SrcConsts.
From Grex Require Import Proofs.ColourStripBase Proofs.ColourStripExpr.
From Grex Require Import Proofs.Spec Proofs.NormaliseDet Proofs.ClustersSpec Proofs.PropsGlue Proofs.Construction Proofs.PipelinePrintable Proofs.SelfCheckProps.

Local Open Scope N_scope.

(* no raw VT / FF *)
Definition no_vf (s : str) : Prop := Forall (fun x => x <> 11 /\ x <> 12) s.
Definition no_vfb (s : str) : bool := forallb (fun x => negb (N.eqb x 11) && negb (N.eqb x 12)) s.

Lemma no_vfb_spec : forall s, no_vfb s = true -> no_vf s.
Proof.
  intros s H. unfold no_vfb in H. rewrite forallb_forall in H. apply Forall_forall.
  intros x Hx. specialize (H x Hx). apply andb_true_iff in H. destruct H as [H1 H2].
  apply negb_true_iff in H1, H2. apply N.eqb_neq in H1, H2. split; assumption.
Qed.

Lemma vf_id : forall s, no_vf s -> vf s = s.
Proof.
  intros s H. unfold vf, replace_cp.
  induction H as [|x s [H1 H2] _ IH]; [reflexivity|].
  cbn [flat_map]. apply N.eqb_neq in H1, H2. rewrite H1. cbn [flat_map app].
  rewrite H2. cbn [app]. f_equal. exact IH.
Qed.

Section Top.
  Variable is_ws : cp -> bool.
  Variable c : cfg.
  Variable gap : Prop.
  Hypothesis Hp : printable c.
  Hypothesis Hv : f_verbose c = false.
  Hypothesis Hws : ws_ok is_ws.

  Notation pseq := (pseq is_ws).

  (* what follows an alternative at the top level: a pipe and more, or the end of the pattern *)
  Definition term_top (ralts : list rast) (rest : str) (res : rast * str) : Prop :=
    (exists rest', rest = 124 :: rest' /\ pseq true rest' [] ralts res) \/
    (rest = [] /\ res = (alt_of ralts, [])).

  Lemma term_top_step : forall racc ralts rest res,
    term_top (cat_of racc :: ralts) rest res -> pseq true rest racc ralts res.
  Proof.
    intros racc ralts rest res [(rest' & -> & H)|(-> & ->)].
    - apply pseq_pipe. exact H.
    - apply pseq_end.
  Qed.

  Lemma term_top_hd_ok : forall ralts rest res, term_top ralts rest res -> hd_ok rest.
  Proof.
    intros ralts rest res [(rest' & -> & _)|(-> & _)].
    - apply hd_ok_cons; discriminate.
    - exact I.
  Qed.

  Definition e_altp_top (e : expr) : Prop :=
    forall ralts rest res, term_top (rev (e_alts c e) ++ ralts) rest res ->
      pseq true (vf (e_str c e) ++ rest) [] ralts res.

  Lemma altp_top_of_catp : forall e, not_alt e -> e_catp is_ws c e -> e_altp_top e.
  Proof.
    intros e Hna Hc ralts rest res Ht.
    apply Hc; [exact Hna|eapply term_top_hd_ok; exact Ht|].
    rewrite app_nil_r. apply term_top_step.
    rewrite (e_alts_nonalt c e Hna) in Ht. exact Ht.
  Qed.

  Lemma alt_list_top : forall os, os <> [] -> Forall e_altp_top os ->
    forall ralts rest res, term_top (rev (flat_map (e_alts c) os) ++ ralts) rest res ->
      pseq true (vf (join [124] (map (e_str c) os)) ++ rest) [] ralts res.
  Proof.
    induction os as [|o os IH]; intros Hne HF; [congruence|].
    inversion HF as [|? ? Ha HF']; subst.
    destruct os as [|o2 os].
    - cbn [map join flat_map]. intros ralts rest res Ht. rewrite app_nil_r in Ht. apply Ha. exact Ht.
    - pose proof (IH ltac:(discriminate) HF') as IHp.
      change (join [124] (map (e_str c) (o :: o2 :: os)))
        with (e_str c o ++ [124] ++ join [124] (map (e_str c) (o2 :: os))).
      rewrite !vf_app. change (vf [124]) with [124].
      intros ralts rest res Ht. rewrite <- !app_assoc. apply Ha. left.
      eexists. split; [reflexivity|]. apply IHp.
      cbn [flat_map] in Ht. rewrite rev_app_distr, <- app_assoc in Ht. exact Ht.
  Qed.

  Lemma e_altp_top_all : forall e, wf_print_gen gap e -> e_altp_top e.
  Proof.
    induction e as [os IH|cs|a b _ _|cl|x q _] using ExprLang.expr_ind'; intros Hwf.
    - pose proof Hwf as Hwf0. apply wf_print_alt in Hwf. destruct Hwf as [Hne Hwf].
      assert (HF : Forall e_altp_top os).
      { clear Hne Hwf0. induction IH as [|o os Ho _ IHos]; [constructor|].
        inversion Hwf; subst. constructor; [apply Ho; assumption|apply IHos; assumption]. }
      intros ralts rest res Ht. rewrite (e_str_alt c Hp Hv). apply (alt_list_top os Hne HF).
      rewrite <- e_alts_alt. exact Ht.
    - destruct (e_good_all is_ws c gap Hp Hv Hws _ Hwf) as (_ & _ & Hc).
      apply altp_top_of_catp; [intros os; discriminate|exact Hc].
    - destruct (e_good_all is_ws c gap Hp Hv Hws _ Hwf) as (_ & _ & Hc).
      apply altp_top_of_catp; [intros os; discriminate|exact Hc].
    - destruct (e_good_all is_ws c gap Hp Hv Hws _ Hwf) as (_ & _ & Hc).
      apply altp_top_of_catp; [intros os; discriminate|exact Hc].
    - destruct (e_good_all is_ws c gap Hp Hv Hws _ Hwf) as (_ & _ & Hc).
      apply altp_top_of_catp; [intros os; discriminate|exact Hc].
  Qed.

  (* the Expression's string, on its own, is a complete pattern *)
  Theorem cand_pseq : forall e, wf_print_gen gap e ->
    pseq true (vf (e_str c e)) [] [] (ralt (e_alts c e), []).
  Proof.
    intros e Hwf. pose proof (e_altp_top_all e Hwf [] [] (ralt (e_alts c e), [])) as H.
    rewrite !app_nil_r in H. apply H. right. split; [reflexivity|]. reflexivity.
  Qed.

  Theorem cand_parses : forall e, wf_print_gen gap e ->
    parse is_ws (vf (e_str c e)) = Some (mkF false false, ralt (e_alts c e)).
  Proof.
    intros e Hwf. unfold parse.
    assert (Hh : hd_ok (vf (e_str c e))).
    { destruct (e_good_all is_ws c gap Hp Hv Hws e Hwf) as (Hh & _ & _).
      specialize (Hh [] (fun _ => I)). rewrite app_nil_r in Hh. exact Hh. }
    rewrite (parse_flags_default _ Hh). cbn [fl_x].
    rewrite (cand_pseq e Hwf (S (S (length (vf (e_str c e)))))) by lia. reflexivity.
  Qed.
End Top.

(* ---------------------------------------------------------------------- *)
(* the candidate of the self-check                                          *)
(* ---------------------------------------------------------------------- *)
Lemma with_colour_same : forall c, with_colour c (f_colour c) = c.
Proof. intros c. destruct c. reflexivity. Qed.

Section SC.
  Variable isd is_ws : cp -> bool.
  Hypothesis Hd : digit_ok isd.
  Hypothesis Hws : ws_ok is_ws.

  (* colour never reaches Regex::new *)
  Lemma cand_str_plain : forall c e, cand_str isd c e = e_str (with_colour c false) e.
  Proof.
    intros c e. unfold cand_str. destruct (f_colour c) eqn:Hc.
    - rewrite <- (with_colour_same c) at 1. rewrite Hc. apply strip_e_str. exact Hd.
    - rewrite <- (with_colour_same c) at 1. rewrite Hc. reflexivity.
  Qed.

  Theorem cand_str_parses : forall c gap e,
    f_sur c = false -> f_verbose c = false -> wf_print_gen gap e -> no_vf (cand_str isd c e) ->
    parse is_ws (cand_str isd c e)
    = Some (mkF false false, ralt (e_alts (with_colour c false) e)).
  Proof.
    intros c gap e Hs Hv Hwf Hn. rewrite cand_str_plain in *.
    rewrite <- (vf_id _ Hn) at 1.
    apply (cand_parses is_ws (with_colour c false) gap); [split; [reflexivity|exact Hs]|exact Hv|exact Hws|exact Hwf].
  Qed.

  (* the first candidate of the pipeline *)
  Definition cand1 (c : cfg) (cls : list cluster) : option expr :=
    match dfa_from cls true with
    | None => None
    | Some d1 => expr_from c d1
    end.

  Lemma cand1_final : forall c cls, cand1 c cls = Pipeline.final_expr c cls SCPass1.
  Proof.
    intros c cls. unfold cand1, Pipeline.final_expr.
    destruct (dfa_from cls true) as [d1|]; [|reflexivity].
    destruct (expr_from c d1) as [e1|]; [|reflexivity].
    destruct (f_no_start c && f_no_end c); reflexivity.
  Qed.

  (* TOTAL and NEVER SKIPPED: without surrogates, in non-verbose mode, the computed self-check
     returns an outcome, and the outcome is not "skipped" *)
  Theorem sc_ref_total_nonverbose : forall c cls tcs,
    Forall wf_cluster cls -> Forall (Forall (wf_pg false)) cls -> cls <> [] ->
    f_sur c = false -> f_verbose c = false ->
    (forall e1, cand1 c cls = Some e1 -> no_vf (cand_str isd c e1)) ->
    exists sc, sc_ref isd is_ws c cls tcs = Some sc /\ sc <> SCSkipped.
  Proof.
    intros c cls tcs Hwc Hwp Hne Hs Hv Hn.
    destruct (final_expr_total c cls SCPass1 Hwc) as [e1 He1].
    pose proof (final_expr_W c cls SCPass1 e1 Hwp Hne He1) as HW.
    rewrite <- cand1_final in He1. specialize (Hn e1 He1).
    pose proof (cand_str_parses c True e1 Hs Hv HW Hn) as Hparse.
    unfold cand1 in He1. unfold sc_ref.
    destruct (dfa_from cls true) as [d1|]; [|discriminate].
    rewrite He1. rewrite Hparse.
    unfold all_count1, cand1_str. rewrite Hv. rewrite Hparse.
    eexists. split; [reflexivity|].
    intros E. apply sc_decide_skipped in E. discriminate.
  Qed.

  (* the closed build (no free self-check input) is total under the same conditions *)
  Theorem build_closed_total_nonverbose : forall c db ws,
    let tcs := normalise c db ws in
    let cls := grapheme_clusters c db tcs in
    Forall (Forall (wf_pg false)) cls -> cls <> [] ->
    f_sur c = false -> f_verbose c = false ->
    (forall e1, cand1 c cls = Some e1 -> no_vf (cand_str isd c e1)) ->
    exists s, build_closed isd is_ws c db ws = Some s.
  Proof.
    intros c db ws tcs cls Hwp Hne Hs Hv Hn. unfold build_closed. fold tcs. fold cls.
    destruct (f_no_start c && f_no_end c).
    - destruct (sc_ref_total_nonverbose c cls tcs) as (sc & Hsc & _); try assumption.
      { apply grapheme_clusters_wf. }
      rewrite Hsc. apply build_total.
    - apply build_total.
  Qed.

  (* ... stated on the INPUTS of build(): non-empty list of strings of scalar values, oracle data present.
     The computed outcome is then admissible in the sense of Pipeline.sc_admissible -- that predicate,
     which the correspondence run enforces on the implementation's recorded outcome, is a theorem of
     the closed model here. *)
  Theorem sc_ref_admissible_inputs : forall c db ws,
    let tcs := normalise c db ws in
    let cls := grapheme_clusters c db tcs in
    ws <> [] -> Forall (Forall scalar) tcs -> oracle_ok db tcs ->
    f_sur c = false -> f_verbose c = false ->
    (forall e1, cand1 c cls = Some e1 -> no_vf (cand_str isd c e1)) ->
    (exists sc, sc_ref isd is_ws c cls tcs = Some sc /\ sc <> SCSkipped /\ sc_admissible c sc = true)
    /\ (exists s, build_closed isd is_ws c db ws = Some s).
  Proof.
    intros c db ws tcs cls Hne0 Hsc Hok Hs Hv Hn.
    assert (Hwp : Forall (Forall (wf_pg false)) cls).
    { apply grapheme_clusters_wf_pg; [exact Hsc|exact Hok]. }
    assert (Hne : cls <> []).
    { intros E. apply (normalise_nonempty c db ws Hne0).
      apply length_zero_iff_nil. rewrite <- (grapheme_clusters_length c db (normalise c db ws)).
      fold tcs. fold cls. rewrite E. reflexivity. }
    split.
    - destruct (sc_ref_total_nonverbose c cls tcs) as (sc & Hsc1 & Hsc2); try assumption.
      { apply grapheme_clusters_wf. }
      exists sc. split; [exact Hsc1|]. split; [exact Hsc2|].
      destruct sc; try reflexivity. congruence.
    - apply build_closed_total_nonverbose; assumption.
  Qed.
End SC.

Print Assumptions cand_parses.
Print Assumptions sc_ref_total_nonverbose.
Print Assumptions build_closed_total_nonverbose.
Print Assumptions sc_ref_admissible_inputs.

(* NON-VACUITY: a concrete world in which every hypothesis holds and the self-check really runs
   (both anchors disabled, two prefix-related test cases "a", "ab"): the model computes the outcome. *)
From Grex Require Proofs.NonVacuity.
Definition ws_SC : list str := [[97]; [97; 98]].
Definition c_SC : cfg := (mkCfg 1 1 false false false false false false false false false false false false true true false).
Definition db_SC : odb := map NonVacuity.e_plain ws_SC.
Example sc_ref_world :
  sc_ref NonVacuity.isd NonVacuity.is_ws_std c_SC (grapheme_clusters c_SC db_SC (normalise c_SC db_SC ws_SC))
         (normalise c_SC db_SC ws_SC) = Some SCPass1
  /\ build_closed NonVacuity.isd NonVacuity.is_ws_std c_SC db_SC ws_SC = Some [97; 98; 63].
Proof. vm_compute. split; reflexivity. Qed.

Example sc_ref_world_hyps :
  ws_SC <> [] /\ Forall (Forall scalar) (normalise c_SC db_SC ws_SC) /\ oracle_ok db_SC (normalise c_SC db_SC ws_SC)
  /\ (forall e1, cand1 c_SC (grapheme_clusters c_SC db_SC (normalise c_SC db_SC ws_SC)) = Some e1 ->
       no_vf (cand_str NonVacuity.isd c_SC e1)).
Proof.
  split; [discriminate|]. split; [apply NonVacuity.scalarsb_ok; vm_compute; reflexivity|].
  split; [apply NonVacuity.oracle_okb_ok; vm_compute; reflexivity|].
  intros e1 H. vm_compute in H. injection H as <-. apply no_vfb_spec. vm_compute. reflexivity.
Qed.
