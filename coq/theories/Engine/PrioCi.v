(* Model of the regex crate, part 7: the priority matcher of Engine/Prio.v at the CONCRETE
   denotations of the real engine (ExecCi.v): what `Regex::find` reports, to be run against the
   regex crate's PikeVM.  Definitions only. *)
From Grex Require Import Base.Str Engine.Syntax Engine.Exec Engine.ExecCi Engine.Prio.

Definition find_first_ci := find_first lit_ci cls_engine_b range_ci.
Definition find_first_cs_engine := find_first_cs cls_engine_b.
Definition find_first_engine (ci : bool) : str -> rast -> option (nat * nat) :=
  if ci then find_first_ci else find_first_cs_engine.
Definition pends_engine (ci : bool) : str -> rast -> nat -> list nat :=
  if ci then pends lit_ci cls_engine_b range_ci else pends_cs cls_engine_b.

Definition find_iter_count_engine (ci : bool) : str -> rast -> nat :=
  if ci then find_iter_count lit_ci cls_engine_b range_ci
  else find_iter_count lit_cs cls_engine_b range_cs.
