(* Model of the regex crate, part 3: matching semantics over a haystack with positions (so that
   ^ and $ mean what they mean), parameterised by the denotation of literals (equality, or
   simple case folding under (?i)) and of the Perl classes. *)
From Grex Require Import Base.Str Engine.Syntax.

Section Sem.
  Variable lit_den : cp -> cp -> Prop.
  Variable cls_den : cp -> cp -> Prop.

  Inductive m (h : str) : rast -> nat -> nat -> Prop :=
  | m_empty : forall i, m h REmpty i i
  | m_lit : forall c x i, nth_error h i = Some x -> lit_den c x -> m h (RLit c) i (S i)
  | m_perl : forall l x i, nth_error h i = Some x -> cls_den l x -> m h (RPerl l) i (S i)
  | m_bracket : forall items lo hi c x i,
      In (lo, hi) items -> (lo <= c)%N -> (c <= hi)%N -> nth_error h i = Some x -> lit_den c x ->
      m h (RBracket items) i (S i)
  | m_start : m h RStart 0 0
  | m_end : m h REnd (length h) (length h)
  | m_group : forall cap r i j, m h r i j -> m h (RGroup cap r) i j
  | m_cat : forall a b i k j, m h a i k -> m h b k j -> m h (RCat a b) i j
  | m_alt_l : forall a b i j, m h a i j -> m h (RAlt a b) i j
  | m_alt_r : forall a b i j, m h b i j -> m h (RAlt a b) i j
  | m_rep : forall r lo hi n i j,
      (lo <= N.of_nat n)%N -> (match hi with Some k => (N.of_nat n <= k)%N | None => True end) ->
      m_iter h r n i j -> m h (RRep r lo hi) i j
  with m_iter (h : str) : rast -> nat -> nat -> nat -> Prop :=
  | mi_0 : forall r i, m_iter h r 0 i i
  | mi_S : forall r n i k j, m h r i k -> m_iter h r n k j -> m_iter h r (S n) i j.

  (* the language of whole-haystack matches *)
  Definition L_rast (r : rast) : str -> Prop := fun s => m s r 0 (length s).
  (* a match somewhere in the haystack (unanchored search finds some i, j) *)
  Definition found (r : rast) (s : str) (i j : nat) : Prop := m s r i j.
End Sem.
