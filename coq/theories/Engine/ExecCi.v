(* Model of the regex crate, part 5: CONCRETE boolean denotations for the real engine, to run the
   executable matcher of Engine/Exec.v against the regex crate:

   - literals under (?i): simple case folding, from the regex crate's fold classes
     (gen/OracleTables.fold_classes through Proofs/FoldTables.fold_class);
   - bracket ranges under (?i): some member of the range folds to the code point;
   - the Perl classes \d \D \w \W \s \S: the engine's own range tables (gen/OracleTables).

   Definitions only (bool / N / list code, extractable); the specifications against the
   Prop-level denotations are in Proofs/ExecCiSound.v. *)
From Grex Require Import Base.Str Base.Ranges Engine.Syntax Engine.Exec Proofs.FoldTables.
From GrexGen Require Import OracleTables.
Local Open Scope N_scope.

(* (?i): the literal c matches x iff x is in the fold class of c *)
Definition lit_ci (c x : cp) : bool := mem_cp x (fold_class c).

(* (?i): some c in lo..hi matches x iff the fold class of x meets lo..hi *)
Definition range_ci (lo hi x : cp) : bool :=
  existsb (fun y => N.leb lo y && N.leb y hi) (fold_class x).

(* the Perl classes, by their letter: d = 100, D = 68, w = 119, W = 87, s = 115, S = 83 *)
Definition cls_engine_b (l x : cp) : bool :=
  if N.eqb l 100 then mem engine_d x
  else if N.eqb l 68 then mem engine_D x
  else if N.eqb l 119 then mem engine_w x
  else if N.eqb l 87 then mem engine_W x
  else if N.eqb l 115 then mem engine_s x
  else if N.eqb l 83 then mem engine_S x
  else false.

(* the Prop-level denotation of the Perl classes of the real engine *)
Definition cls_engine (l x : cp) : Prop := cls_engine_b l x = true.

(* case-insensitive instances: the pattern was compiled with (?i) *)
Definition ends_ci := ends lit_ci cls_engine_b range_ci.
Definition matches_whole_ci := matches_whole lit_ci cls_engine_b range_ci.
Definition matches_at_ci := matches_at lit_ci cls_engine_b range_ci.
Definition find_leftmost_ci := find_leftmost lit_ci cls_engine_b range_ci.

(* case-sensitive instances with the engine's Perl classes *)
Definition ends_cs_engine := ends_cs cls_engine_b.
Definition matches_whole_cs_engine := matches_whole_cs cls_engine_b.
Definition matches_at_cs_engine := matches_at lit_cs cls_engine_b range_cs.
Definition find_leftmost_cs_engine := find_leftmost_cs cls_engine_b.

(* by the flag of the parsed pattern (Syntax.rflags.fl_i) *)
Definition matches_whole_engine (ci : bool) : str -> rast -> bool :=
  if ci then matches_whole_ci else matches_whole_cs_engine.
Definition find_leftmost_engine (ci : bool) : str -> rast -> option (nat * list nat) :=
  if ci then find_leftmost_ci else find_leftmost_cs_engine.
