(* Model of the regex crate, part 6: leftmost-FIRST priority.

   [Exec.ends h r i] is the SET of ends of the matches of r from i.  The regex crate's `find`
   reports, from the least start that admits a match, the end that a backtracking matcher finds
   FIRST (its PikeVM simulates exactly that order): alternatives left to right, greedy
   repetitions ("one more iteration" before "stop"), and a counted repetition x{lo,hi} is the
   crate's own expansion  x^lo (x (x ...)?)?  with hi - lo nested optional copies.

   [pends h r i] is the list of ends in that PRIORITY order, each end once (first occurrence kept:
   a later, lower-priority way of reaching the same end is dropped, as the PikeVM drops a thread
   that arrives at an instruction already on the list).  The reported match is its head.

   Scope: exact for repetition bodies that cannot match the empty string (all that grex prints: a
   grapheme is never empty) -- iteration counts are capped at length h + 1 as in Exec.v, which is
   exact for such bodies (no match can take more iterations) and keeps the function total and
   cheap for counts like 2^32.  For bodies that can match the empty string the regex crate has
   special rules (an empty iteration of a star is not repeated); those are NOT modelled, but the
   SET of ends is still right for every body (Proofs/PrioSound.pends_ends).

   Definitions only (bool / nat / N / list code, extractable). *)
From Grex Require Import Base.Str Engine.Syntax Engine.Exec.

(* keep the first occurrence of every element, in order *)
Fixpoint undup (l : list nat) : list nat :=
  match l with
  | [] => []
  | x :: l' => x :: filter (fun y => negb (Nat.eqb x y)) (undup l')
  end.

Section PIter.
  Variable f : nat -> list nat.            (* the ends of the body from a position, by priority *)

  (* positions after exactly n more iterations of the body, by priority *)
  Fixpoint ppow (n : nat) (ps : list nat) : list nat :=
    match ps with
    | [] => []
    | _ => match n with
           | O => ps
           | S n' => ppow n' (undup (flat_map f ps))
           end
    end.

  (* (x (x ...)?)? with c nested optional copies, greedy: one more iteration first, then stop *)
  Fixpoint popt (c : nat) (i : nat) : list nat :=
    match c with
    | O => [i]
    | S c' => undup (flat_map (popt c') (f i) ++ [i])
    end.

  Definition prio_rep (len : nat) (lo : N) (hi : option N) (i : nat) : list nat :=
    let K := N.of_nat (S len) in
    let lo' := N.min lo K in
    let hi' := match hi with Some k => N.min k K | None => K end in
    if match hi with Some k => N.leb lo k | None => true end
    then undup (flat_map (popt (N.to_nat (hi' - lo'))) (ppow (N.to_nat lo') [i]))
    else [].
End PIter.

Section PE.
  Variable lit_b : cp -> cp -> bool.
  Variable cls_b : cp -> cp -> bool.
  Variable range_b : cp -> cp -> cp -> bool.

  Fixpoint pends (h : str) (r : rast) (i : nat) {struct r} : list nat :=
    match r with
    | REmpty => [i]
    | RLit c =>
        match nth_error h i with
        | Some x => if lit_b c x then [S i] else []
        | None => []
        end
    | RPerl l =>
        match nth_error h i with
        | Some x => if cls_b l x then [S i] else []
        | None => []
        end
    | RBracket items =>
        match nth_error h i with
        | Some x => if existsb (item_b range_b x) items then [S i] else []
        | None => []
        end
    | RStart => if Nat.eqb i 0 then [i] else []
    | REnd => if Nat.eqb i (length h) then [i] else []
    | RGroup _ r' => pends h r' i
    | RRep r' lo hi => prio_rep (pends h r') (length h) lo hi i
    | RCat a b => undup (flat_map (pends h b) (pends h a i))
    | RAlt a b => undup (pends h a i ++ pends h b i)
    end.

  (* the end the engine reports for a match attempt anchored at i *)
  Definition first_end (h : str) (r : rast) (i : nat) : option nat := hd_error (pends h r i).

  Fixpoint pfind_from (h : str) (r : rast) (cnt i : nat) : option (nat * nat) :=
    match pends h r i with
    | [] => match cnt with
            | O => None
            | S cnt' => pfind_from h r cnt' (S i)
            end
    | j :: _ => Some (i, j)
    end.

  (* what `Regex::find` reports: the least start with a match and the first end from there *)
  Definition find_first (h : str) (r : rast) : option (nat * nat) :=
    pfind_from h r (length h) 0.

  (* can r match the empty string somewhere?  (syntactic over-approximation, used only to say
     where the priority model is exact: no repetition body is nullable) *)
  Fixpoint nullable (r : rast) : bool :=
    match r with
    | REmpty | RStart | REnd => true
    | RLit _ | RPerl _ | RBracket _ => false
    | RGroup _ r' => nullable r'
    | RRep r' lo _ => N.eqb lo 0 || nullable r'
    | RCat a b => nullable a && nullable b
    | RAlt a b => nullable a || nullable b
    end.
  Fixpoint rep_bodies_ok (r : rast) : bool :=
    match r with
    | RGroup _ r' => rep_bodies_ok r'
    | RRep r' _ _ => negb (nullable r') && rep_bodies_ok r'
    | RCat a b | RAlt a b => rep_bodies_ok a && rep_bodies_ok b
    | _ => true
    end.
End PE.

Definition pends_cs (cls_b : cp -> cp -> bool) := pends lit_cs cls_b range_cs.
Definition find_first_cs (cls_b : cp -> cp -> bool) := find_first lit_cs cls_b range_cs.

(* ---------------------------------------------------------------------------------------- *)
(* `Regex::find_iter(h).count()`: successive non-overlapping leftmost-first matches
   (regex-automata util::iter::Searcher::advance): search from `start` with the whole haystack as
   context; an EMPTY match that ends where the previous match ended is not reported -- the search
   is repeated one position further; the next search starts at the end of the reported match. *)
Section FindIter.
  Variable lit_b : cp -> cp -> bool.
  Variable cls_b : cp -> cp -> bool.
  Variable range_b : cp -> cp -> cp -> bool.

  Definition search_from (h : str) (r : rast) (start : nat) : option (nat * nat) :=
    if Nat.ltb (length h) start then None
    else pfind_from lit_b cls_b range_b h r (length h - start) start.

  Definition opt_nat_eqb (a : option nat) (b : nat) : bool :=
    match a with Some x => Nat.eqb x b | None => false end.

  Fixpoint fi_count (fuel : nat) (h : str) (r : rast) (start : nat) (last : option nat) : nat :=
    match fuel with
    | O => 0
    | S f =>
        match search_from h r start with
        | None => 0
        | Some (s, e) =>
            if Nat.eqb s e && opt_nat_eqb last e then
              match search_from h r (S start) with
              | None => 0
              | Some (_, e') => S (fi_count f h r e' (Some e'))
              end
            else S (fi_count f h r e (Some e))
        end
    end.

  (* every reported match moves `start` forward or is the one empty match allowed at `start`:
     at most 2 * (length h + 1) matches *)
  Definition find_iter_count (h : str) (r : rast) : nat :=
    fi_count (2 * length h + 3) h r 0 None.
End FindIter.
