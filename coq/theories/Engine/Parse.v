(* Model of the regex crate, part 2: a parser for the fragment, following the control flow of
   regex_syntax::ast::parse::Parser (skip pattern whitespace/comments before every token under
   (?x); groups; alternation; bracket classes with ranges; uncounted and counted repetition;
   escapes).  Anything outside the fragment is None (the real parser may accept it; grex never
   prints it — PrintParse proves that). *)
From Grex Require Import Base.Str Engine.Syntax.
Local Open Scope N_scope.

Section Parse.
  Variable is_ws : cp -> bool.            (* char::is_whitespace, dumped *)

  (* skip to just after the next newline *)
  Fixpoint skip_comment (s : str) : str :=
    match s with
    | [] => []
    | c :: s' => if N.eqb c 10 then s' else skip_comment s'
    end.

  (* bump_space under (?x): whitespace and #-comments *)
  Fixpoint skip_space (fuel : nat) (s : str) : str :=
    match fuel with
    | O => s
    | S f =>
        match s with
        | c :: s' =>
            if is_ws c then skip_space f s'
            else if N.eqb c 35 then skip_space f (skip_comment s')
            else s
        | [] => []
        end
    end.
  Definition bump (x : bool) (s : str) : str := if x then skip_space (length s) s else s.

  Definition is_digit (c : cp) : bool := N.leb 48 c && N.leb c 57.
  Definition is_hex (c : cp) : bool := is_digit c || (N.leb 97 c && N.leb c 102) || (N.leb 65 c && N.leb c 70).
  Definition hexval (c : cp) : N :=
    if is_digit c then (c - 48)%N else if N.leb 97 c then (c - 87)%N else (c - 55)%N.

  Fixpoint take_while (p : cp -> bool) (s : str) : str * str :=
    match s with
    | c :: s' => if p c then let '(a, b) := take_while p s' in (c :: a, b) else ([], s)
    | [] => ([], [])
    end.

  Definition num_of (base : N) (val : cp -> N) (ds : str) : N :=
    fold_left (fun acc d => (acc * base + val d)%N) ds 0%N.

  Definition is_scalar_value (n : N) : bool :=
    N.ltb n 55296 || (N.leb 57344 n && N.leb n 1114111).

  (* punctuation that may be escaped to itself (regex_syntax::is_meta_character) *)
  Definition is_meta (c : cp) : bool :=
    mem_cp c [92; 46; 43; 42; 63; 40; 41; 124; 91; 93; 123; 125; 94; 36; 35; 38; 45; 126]%N.

  Inductive esc :=
  | EscLit (c : cp)
  | EscPerl (l : cp).

  (* after the backslash *)
  Definition parse_escape (x : bool) (s : str) : option (esc * str) :=
    match s with
    | [] => None
    | c :: s' =>
        if is_meta c then Some (EscLit c, s')
        else if N.eqb c 110 then Some (EscLit 10, s')          (* \n *)
        else if N.eqb c 114 then Some (EscLit 13, s')          (* \r *)
        else if N.eqb c 116 then Some (EscLit 9, s')           (* \t *)
        else if N.eqb c 118 then Some (EscLit 11, s')          (* \v *)
        else if N.eqb c 102 then Some (EscLit 12, s')          (* \f *)
        else if N.eqb c 32 then Some (EscLit 32, s')           (* "\ " *)
        else if mem_cp c [100; 68; 115; 83; 119; 87]%N then Some (EscPerl c, s')
        else if N.eqb c 117 then                               (* \u{h..} or \uHHHH *)
          match s' with
          | b :: s'' =>
              if N.eqb b 123 then
                let '(ds, r) := take_while is_hex s'' in
                match ds, r with
                | _ :: _, cl :: r' =>
                    if N.eqb cl 125 && Nat.leb (length ds) 8%nat then
                      let n := num_of 16 hexval ds in
                      if is_scalar_value n then Some (EscLit n, r') else None
                    else None
                | _, _ => None
                end
              else
                match s' with
                | a1 :: a2 :: a3 :: a4 :: r =>
                    if is_hex a1 && is_hex a2 && is_hex a3 && is_hex a4 then
                      let n := num_of 16 hexval [a1; a2; a3; a4] in
                      if is_scalar_value n then Some (EscLit n, r) else None
                    else None
                | _ => None
                end
          | [] => None
          end
        else None
    end.

  (* bracket class: after '[' *)
  Fixpoint parse_class_items (fuel : nat) (x : bool) (s : str) (acc : list (cp * cp)) : option (list (cp * cp) * str) :=
    match fuel with
    | O => None
    | S f =>
        let s := bump x s in
        match s with
        | [] => None
        | c :: s' =>
            if N.eqb c 93 then (match acc with [] => None | _ => Some (rev acc, s') end)     (* ] *)
            else
              let item : option (cp * str) :=
                if N.eqb c 92 then
                  match parse_escape x s' with
                  | Some (EscLit l, r) => Some (l, r)
                  | _ => None
                  end
                else if mem_cp c [91; 94; 45]%N then None          (* nested class, raw ^ and raw - : outside the fragment *)
                else if mem_cp c [38; 126]%N then
                  (match s' with d :: _ => if N.eqb d c then None else Some (c, s') | [] => Some (c, s') end)   (* && ~~ *)
                else Some (c, s') in
              match item with
              | None => None
              | Some (lo, r) =>
                  let r1 := bump x r in
                  match r1 with
                  | d :: r2 =>
                      if N.eqb d 45 then                          (* range lo-hi *)
                        let r2 := bump x r2 in
                        match r2 with
                        | e :: r3 =>
                            let hi_item : option (cp * str) :=
                              if N.eqb e 92 then
                                match parse_escape x r3 with
                                | Some (EscLit l, r4) => Some (l, r4)
                                | _ => None
                                end
                              else if mem_cp e [91; 93; 94; 45]%N then None
                              else if mem_cp e [38; 126]%N then
                                (match r3 with d :: _ => if N.eqb d e then None else Some (e, r3) | [] => Some (e, r3) end)   (* && ~~ *)
                              else Some (e, r3) in
                            match hi_item with
                            | Some (hi, r4) => if N.leb lo hi then parse_class_items f x r4 ((lo, hi) :: acc) else None
                            | None => None
                            end
                        | [] => None
                        end
                      else parse_class_items f x r ((lo, lo) :: acc)
                  | [] => None
                  end
              end
        end
    end.

  Definition cat_of (racc : list rast) : rast :=
    match rev racc with
    | [] => REmpty
    | a :: l => fold_left (fun acc b => RCat acc b) l a
    end.
  Definition alt_of (ralts : list rast) : rast :=
    match rev ralts with
    | [] => REmpty
    | a :: l => fold_left (fun acc b => RAlt acc b) l a
    end.

  (* {n} {m,n} {n,} — after '{' *)
  Definition trim_ws (s : str) : str := snd (take_while is_ws s).
  Definition parse_counted (x : bool) (s : str) : option (N * option N * str) :=
    let s := trim_ws (bump x s) in
    let '(d1, r1) := take_while is_digit s in
    match d1 with
    | [] => None
    | _ =>
        let lo := num_of 10 (fun d => (d - 48)%N) d1 in
        let r1 := bump x (trim_ws r1) in
        match r1 with
        | c :: r2 =>
            if N.eqb c 125 then Some (lo, Some lo, r2)
            else if N.eqb c 44 then
              let r2 := trim_ws (bump x r2) in
              let '(d2, r3) := take_while is_digit r2 in
              let r3 := bump x (trim_ws r3) in
              match r3 with
              | e :: r4 =>
                  if N.eqb e 125 then
                    match d2 with
                    | [] => Some (lo, None, r4)
                    | _ => let hi := num_of 10 (fun d => (d - 48)%N) d2 in
                           if N.leb lo hi then Some (lo, Some hi, r4) else None
                    end
                  else None
              | [] => None
              end
            else None
        | [] => None
        end
    end.

  Definition lazy_follows (s : str) : bool :=
    match s with c :: _ => N.eqb c 63 | [] => false end.

  (* the main loop: racc = current concatenation (reversed), ralts = finished alternatives
     (reversed), top = not inside a group *)
  Fixpoint p_seq (fuel : nat) (x : bool) (top : bool) (s : str) (racc ralts : list rast) : option (rast * str) :=
    match fuel with
    | O => None
    | S f =>
        let s := bump x s in
        match s with
        | [] => if top then Some (alt_of (cat_of racc :: ralts), []) else None
        | c :: s' =>
            if N.eqb c 41 then                                     (* ) *)
              (if top then None else Some (alt_of (cat_of racc :: ralts), s'))
            else if N.eqb c 124 then p_seq f x top s' [] (cat_of racc :: ralts)      (* | *)
            else if N.eqb c 40 then                                (* ( *)
              let '(cap, body) :=
                match s' with
                | q :: col :: r => if N.eqb q 63 && N.eqb col 58 then (Some false, r)
                                   else if N.eqb q 63 then (None, s') else (Some true, s')
                | q :: r => if N.eqb q 63 then (None, s') else (Some true, s')
                | [] => (Some true, s')
                end in
              match cap with
              | None => None                                        (* flags / named groups / look-around inside: outside the fragment *)
              | Some cp_ =>
                  match p_seq f x false body [] [] with
                  | Some (inner, r) => p_seq f x top r (RGroup cp_ inner :: racc) ralts
                  | None => None
                  end
              end
            else if N.eqb c 91 then                                (* [ *)
              match parse_class_items f x s' [] with
              | Some (items, r) => p_seq f x top r (RBracket items :: racc) ralts
              | None => None
              end
            else if mem_cp c [63; 42; 43]%N then                   (* ? * + *)
              match racc with
              | a :: racc' =>
                  if lazy_follows s' then None
                  else
                    let '(lo, hi) := if N.eqb c 63 then (0%N, Some 1%N) else if N.eqb c 42 then (0%N, None) else (1%N, None) in
                    p_seq f x top s' (RRep a lo hi :: racc') ralts
              | [] => None
              end
            else if N.eqb c 123 then                               (* { *)
              match racc with
              | a :: racc' =>
                  match parse_counted x s' with
                  | Some (lo, hi, r) => if lazy_follows (bump x r) then None else p_seq f x top r (RRep a lo hi :: racc') ralts
                  | None => None
                  end
              | [] => None
              end
            else if N.eqb c 92 then                                (* \ *)
              match parse_escape x s' with
              | Some (EscLit l, r) => p_seq f x top r (RLit l :: racc) ralts
              | Some (EscPerl l, r) => p_seq f x top r (RPerl l :: racc) ralts
              | None => None
              end
            else if N.eqb c 46 then None                           (* . : outside the fragment *)
            else if N.eqb c 94 then p_seq f x top s' (RStart :: racc) ralts
            else if N.eqb c 36 then p_seq f x top s' (REnd :: racc) ralts
            else p_seq f x top s' (RLit c :: racc) ralts
        end
    end.

  (* leading flags: (?i) (?x) (?ix) (?xi) *)
  Definition parse_flags (s : str) : rflags * str :=
    match s with
    | 40 :: 63 :: 105 :: 41 :: r => (mkF true false, r)
    | 40 :: 63 :: 120 :: 41 :: r => (mkF false true, r)
    | 40 :: 63 :: 105 :: 120 :: 41 :: r => (mkF true true, r)
    | 40 :: 63 :: 120 :: 105 :: 41 :: r => (mkF true true, r)
    | _ => (mkF false false, s)
    end%N.

  Definition parse (s : str) : option (rflags * rast) :=
    let '(fl, r) := parse_flags s in
    match p_seq (S (S (length r))) (fl_x fl) true r [] [] with
    | Some (a, _) => Some (fl, a)
    | None => None
    end.
End Parse.
