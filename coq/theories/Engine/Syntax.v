(* Model of the regex crate, part 1: abstract syntax of the fragment grex can emit
   (and its near misses).  Modelled, validated against regex_syntax::ast on every run — not
   verified (DESIGN §3.4). *)
From Grex Require Import Base.Str.

Inductive rast :=
| REmpty
| RLit (c : cp)
| RPerl (l : cp)                        (* \d \D \s \S \w \W: the letter *)
| RBracket (items : list (cp * cp))     (* closed ranges; a single member c is (c, c) *)
| RStart                                 (* ^ *)
| REnd                                   (* $ *)
| RGroup (cap : bool) (r : rast)
| RRep (r : rast) (lo : N) (hi : option N)   (* greedy; ? = 0..1, * = 0.., + = 1.., {n}, {m,n}, {n,} *)
| RCat (a b : rast)
| RAlt (a b : rast).

Record rflags := mkF { fl_i : bool; fl_x : bool }.
