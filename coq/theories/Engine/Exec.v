(* Model of the regex crate, part 4: an EXECUTABLE matcher for the relation [Sem.m].

   [ends h r i] computes the (duplicate-free) list of all end positions j such that r matches
   h[i..j).  It is a plain structural recursion on r; no fuel is needed:

   - the body of a repetition is iterated on whole SETS of positions ("frontiers"):
     R_0 = {i}, R_{k+1} = U { ends body p | p in R_k }, i.e. R_k = the positions reachable after
     exactly k iterations of the body;
   - a match never moves left and never leaves the haystack, so a chain of k > length h body
     matches contains an empty body match, which can be removed or duplicated: R_k = R_K for all
     k >= K := length h + 1.  Hence the union of the R_k for lo <= k <= hi equals the union for
     min lo K <= k <= min hi K (K in place of hi for an unbounded repetition), provided lo <= hi.
     This is correct for bodies that can match the empty string too, and the number of rounds is
     bounded by length h + 1 however large the counts lo, hi (binary numbers) are;
   - an empty frontier stays empty, so the iteration stops early on it.

   Everything here is bool / nat / N / list code (extractable, no Props).  The equivalence with
   [Sem.m] is proved in Proofs/ExecSound.v.  Priorities (leftmost-FIRST) are not modelled: all
   ends are returned. *)
From Grex Require Import Base.Str Engine.Syntax.

Fixpoint memb (x : nat) (l : list nat) : bool :=
  match l with
  | [] => false
  | y :: l' => Nat.eqb x y || memb x l'
  end.

Fixpoint dedup (l : list nat) : list nat :=
  match l with
  | [] => []
  | x :: l' => if memb x l' then dedup l' else x :: dedup l'
  end.

Section Iter.
  Variable f : nat -> list nat.            (* the ends of the body from a position *)

  (* one more iteration of the body from every position of the frontier *)
  Definition step (ps : list nat) : list nat := dedup (flat_map f ps).

  (* the frontier after exactly n more iterations *)
  Fixpoint pow (n : nat) (ps : list nat) : list nat :=
    match ps with
    | [] => []
    | _ => match n with
           | O => ps
           | S n' => pow n' (step ps)
           end
    end.

  (* the union of the frontiers after 0, 1, ..., c more iterations *)
  Fixpoint collect (c : nat) (ps : list nat) : list nat :=
    match ps with
    | [] => []
    | _ => match c with
           | O => ps
           | S c' => ps ++ collect c' (step ps)
           end
    end.

  (* the ends of body{lo,hi} (hi = None: unbounded) from i in a haystack of length len *)
  Definition rep_ends (len : nat) (lo : N) (hi : option N) (i : nat) : list nat :=
    let K := N.of_nat (S len) in
    let lo' := N.min lo K in
    let hi' := match hi with Some k => N.min k K | None => K end in
    if match hi with Some k => N.leb lo k | None => true end
    then dedup (collect (N.to_nat (hi' - lo')) (pow (N.to_nat lo') [i]))
    else [].
End Iter.

Section E.
  Variable lit_b : cp -> cp -> bool.          (* lit_b c x: the literal c matches the code point x *)
  Variable cls_b : cp -> cp -> bool.          (* cls_b l x: the Perl class \l matches x *)
  Variable range_b : cp -> cp -> cp -> bool.  (* range_b lo hi x: some c in lo..hi matches x *)

  Definition item_b (x : cp) (it : cp * cp) : bool := range_b (fst it) (snd it) x.

  Fixpoint ends (h : str) (r : rast) (i : nat) {struct r} : list nat :=
    match r with
    | REmpty => [i]
    | RLit c =>
        match nth_error h i with
        | Some x => if lit_b c x then [S i] else []
        | None => []
        end
    | RPerl l =>
        match nth_error h i with
        | Some x => if cls_b l x then [S i] else []
        | None => []
        end
    | RBracket items =>
        match nth_error h i with
        | Some x => if existsb (item_b x) items then [S i] else []
        | None => []
        end
    | RStart => if Nat.eqb i 0 then [i] else []
    | REnd => if Nat.eqb i (length h) then [i] else []
    | RGroup _ r' => ends h r' i
    | RRep r' lo hi => rep_ends (ends h r') (length h) lo hi i
    | RCat a b => dedup (flat_map (ends h b) (ends h a i))
    | RAlt a b => dedup (ends h a i ++ ends h b i)
    end.

  (* r matches the whole haystack *)
  Definition matches_whole (h : str) (r : rast) : bool :=
    existsb (Nat.eqb (length h)) (ends h r 0).

  (* r matches h[i..j) *)
  Definition matches_at (h : str) (r : rast) (i j : nat) : bool := memb j (ends h r i).

  (* the first start among i, i+1, ..., i+cnt from which there is a match, with all its ends *)
  Fixpoint find_from (h : str) (r : rast) (cnt i : nat) : option (nat * list nat) :=
    match ends h r i with
    | [] => match cnt with
            | O => None
            | S cnt' => find_from h r cnt' (S i)
            end
    | js => Some (i, js)
    end.

  (* the leftmost start of a match (0..length h), with ALL the ends from that start (the end the
     regex crate reports is one of them; which one is a matter of priority, not modelled) *)
  Definition find_leftmost (h : str) (r : rast) : option (nat * list nat) :=
    find_from h r (length h) 0.
End E.

(* Case-sensitive instances (lit_den := eq). *)
Definition lit_cs (c x : cp) : bool := N.eqb c x.
Definition range_cs (lo hi x : cp) : bool := N.leb lo x && N.leb x hi.

Definition ends_cs (cls_b : cp -> cp -> bool) := ends lit_cs cls_b range_cs.
Definition matches_whole_cs (cls_b : cp -> cp -> bool) := matches_whole lit_cs cls_b range_cs.
Definition find_leftmost_cs (cls_b : cp -> cp -> bool) := find_leftmost lit_cs cls_b range_cs.
