(* regexp.rs RegExp::from + builder.rs build(): the whole pipeline.
   Oracle data (external Unicode behaviour, measured by the harness per case):
     odb : list of (s, lower s, seg s, cat s)
   Self-check outcomes (behaviour of the regex crate's optimised search, recorded from the
   implementation in the correspondence run, universally quantified in the theorems). *)
From Grex Require Import Base.Str Model.Config Model.Cluster Model.Dfa Model.Expr Model.Print.

Record oentry := mkO { o_s : str; o_lower : str; o_seg : list nat; o_cat : list bool }.
Definition odb := list oentry.

Fixpoint o_find (db : odb) (s : str) : option oentry :=
  match db with
  | [] => None
  | e :: db' => if str_eqb (o_s e) s then Some e else o_find db' s
  end.

(* defaults when the oracle has no entry: identity lower-casing, one code point per cluster,
   no Mark/Other — the driver reports a miss, so these defaults never decide a comparison *)
Definition lower_of (db : odb) (s : str) : str :=
  match o_find db s with Some e => o_lower e | None => s end.
Definition seg_of (db : odb) (s : str) : list nat :=
  match o_find db s with Some e => o_seg e | None => map (fun _ => 1) s end.
Definition cat_of (db : odb) (s : str) : list bool :=
  match o_find db s with Some e => o_cat e | None => map (fun _ => false) s end.

(* convert_for_case_insensitive_matching *)
Definition lower' (db : odb) (s : str) : str :=
  let l := lower_of db s in
  if Nat.eqb (length l) (length s) then l else s.

(* RegExp::sort: sort; dedup; sort_by (byte length, then lexicographic) *)
Definition str_leb (a b : str) : bool := match str_cmp a b with Gt => false | _ => true end.
Fixpoint dedup (l : list str) : list str :=
  match l with
  | x :: ((y :: _) as l') => if str_eqb x y then dedup l' else x :: dedup l'
  | _ => l
  end.
Definition len_lex_leb (a b : str) : bool :=
  let la := utf8_len a in let lb := utf8_len b in
  if Nat.eqb la lb then str_leb a b else Nat.ltb la lb.
Definition sort_cases (l : list str) : list str :=
  sort_by len_lex_leb (dedup (sort_by str_leb l)).

Definition normalise (c : cfg) (db : odb) (ws : list str) : list str :=
  sort_cases (if f_ci c then map (lower' db) ws else ws).

(* RegExp::grapheme_clusters, stage by stage *)
Definition clusters_g (db : odb) (ws : list str) : list cluster :=
  map (fun s => cluster_of (seg_of db s) (cat_of db s) s) ws.
Definition clusters_k (c : cfg) (cls : list cluster) : list cluster :=
  if char_class_feature c then map (convert_classes c) cls else cls.
Definition clusters_r (c : cfg) (cls : list cluster) : list cluster :=
  if f_rep c then map (convert_repetitions c) cls else cls.
Definition grapheme_clusters (c : cfg) (db : odb) (ws : list str) : list cluster :=
  clusters_r c (clusters_k c (clusters_g db ws)).

(* outcome of the self-check of RegExp::from *)
Inductive selfcheck :=
| SCSkipped          (* candidate with surrogate escapes does not compile: check skipped *)
| SCPass1            (* minimised candidate accepted *)
| SCPass2            (* unminimised candidate accepted *)
| SCFail.            (* both rejected: plain alternation *)

(* which recorded outcomes the code can produce at all: the check is skipped only when the
   candidate contains surrogate escapes (which the regex crate rejects), i.e. only with f_sur;
   and it is consulted only when both anchors are disabled *)
Definition sc_admissible (c : cfg) (sc : selfcheck) : bool :=
  match sc with
  | SCSkipped => f_sur c
  | _ => true
  end.

Inductive berr := EPanic | EFuel.

Definition final_expr (c : cfg) (cls : list cluster) (sc : selfcheck) : option expr :=
  match dfa_from cls true with
  | None => None
  | Some d1 =>
      match expr_from c d1 with
      | None => None
      | Some e1 =>
          if f_no_start c && f_no_end c then
            match sc with
            | SCSkipped | SCPass1 => Some e1
            | SCPass2 | SCFail =>
                match dfa_from cls false with
                | None => None
                | Some d2 =>
                    match expr_from c d2 with
                    | None => None
                    | Some e2 =>
                        match sc with
                        | SCPass2 => Some e2
                        | _ => Some (new_alternation (map ELit cls))
                        end
                    end
                end
            end
          else Some e1
      end
  end.

Section Build.
  Variable is_digit_engine : cp -> bool.

  Definition build (c : cfg) (db : odb) (sc : selfcheck) (ws : list str) : option str :=
    let tcs := normalise c db ws in
    match final_expr c (grapheme_clusters c db tcs) sc with
    | None => None
    | Some e => Some (regexp_str is_digit_engine c e)
    end.
End Build.
