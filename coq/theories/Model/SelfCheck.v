(* F: the self-check of RegExp::from INSIDE the model.

   Model/Pipeline.final_expr takes the outcome of the self-check as an input [sc] (the theorems
   quantify over all four outcomes).  Here the outcome is COMPUTED, the way src/regexp.rs computes
   it, from the semantics of the regex crate as modelled in Engine/ (parser model, leftmost-first
   priority, find_iter): the candidate is the Expression's string (colour codes stripped, in
   verbose mode -- for the first candidate only -- with the line breaks removed), compiled WITHOUT
   the (?i)/(?x) prefix; it is accepted iff `find_iter(tc).count() == 1` for every normalised test
   case; the first candidate is tried only when there are at least two test cases (the rotation
   loop `for _ in 1..test_cases.len()` runs zero times otherwise, and never recompiles).

   [sc_decide] is the control flow alone, as a function of the verdicts; [sc_ref] feeds it with
   the verdicts of the reference semantics.  The implementation uses the regex crate's OPTIMISED
   engine, whose unanchored search is known to differ from the reference engines on rare patterns
   (DESIGN 3.3): the correspondence check therefore compares the recorded outcome with
   [sc_decide] applied to the optimised engine's own verdicts on the MODEL's candidates, and logs
   where the two engines differ. *)
From Grex Require Import Base.Str Model.Config Model.Cluster Model.Dfa Model.Expr Model.Print
  Model.Pipeline.
From Grex Require Import Engine.Syntax Engine.Parse Engine.Exec Engine.ExecCi Engine.Prio
  Engine.PrioCi.

Definition remove_nl (s : str) : str := filter (fun c => negb (N.eqb c 10)) s.

(* verdict about one candidate: None = does not compile *)
Definition sc_decide (ntc : nat) (v1 : option bool) (v2 : unit -> option bool) : selfcheck :=
  match v1 with
  | None => SCSkipped
  | Some ok1 =>
      if Nat.ltb 1 ntc && ok1 then SCPass1
      else match v2 tt with
           | Some true => SCPass2
           | _ => SCFail
           end
  end.

Section SC.
  Variable is_digit_engine : cp -> bool.
  Variable is_ws : cp -> bool.

  (* the string handed to Regex::new *)
  Definition cand_str (c : cfg) (e : expr) : str :=
    if f_colour c then strip_sgr is_digit_engine (e_str c e) else e_str c e.
  Definition cand1_str (c : cfg) (e : expr) : str :=
    if f_verbose c then remove_nl (cand_str c e) else cand_str c e.

  Definition all_count1 (s : str) (tcs : list str) : option bool :=
    match parse is_ws s with
    | None => None
    | Some (fl, r) =>
        Some (forallb (fun t => Nat.eqb (find_iter_count_engine (fl_i fl) t r) 1) tcs)
    end.

  (* Some sc: the outcome; None: the pipeline itself fails before (never, Construction.build_total)
     or the verbose re-compile of the first candidate fails (an unwrap in the code) *)
  Definition sc_ref (c : cfg) (cls : list cluster) (tcs : list str) : option selfcheck :=
    match dfa_from cls true with
    | None => None
    | Some d1 =>
        match expr_from c d1 with
        | None => None
        | Some e1 =>
            match parse is_ws (cand_str c e1) with
            | None => Some SCSkipped
            | Some _ =>
                match all_count1 (cand1_str c e1) tcs with
                | None => None
                | Some ok1 =>
                    Some (sc_decide (length tcs) (Some ok1)
                            (fun _ =>
                               match dfa_from cls false with
                               | None => None
                               | Some d2 =>
                                   match expr_from c d2 with
                                   | None => None
                                   | Some e2 => all_count1 (cand_str c e2) tcs
                                   end
                               end))
                end
            end
        end
    end.

  (* build with no free input besides the configuration, the oracle data and the test cases *)
  Definition build_closed (c : cfg) (db : odb) (ws : list str) : option str :=
    let tcs := normalise c db ws in
    let cls := grapheme_clusters c db tcs in
    if f_no_start c && f_no_end c then
      match sc_ref c cls tcs with
      | None => None
      | Some sc => build is_digit_engine c db sc ws
      end
    else build is_digit_engine c db SCPass1 ws.
End SC.
