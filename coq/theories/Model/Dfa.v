(* dfa.rs: trie construction (insert / find_next_state), Hopcroft minimisation as written
   (minimize / get_parent_states / recreate_graph), depth-first state order.
   The graph mirrors petgraph's StableGraph: edges in insertion order; a node's outgoing
   edges and neighbours are enumerated newest first; update_edge keeps the position. *)
From Grex Require Import Base.Str Model.Config Model.Cluster.

Definition edge := (nat * nat * grapheme)%type.
Definition e_src (e : edge) : nat := fst (fst e).
Definition e_dst (e : edge) : nat := snd (fst e).
Definition e_lbl (e : edge) : grapheme := snd e.

Record dfa := mkDfa {
  d_n : nat;                      (* node count; nodes are 0 .. n-1 *)
  d_edges : list edge;            (* insertion order *)
  d_init : nat;
  d_finals : list nat;            (* strictly increasing *)
  d_alphabet : list grapheme      (* BTreeSet<Grapheme>: strictly increasing w.r.t. g_cmp *)
}.

(* ---------- sorted sets of nat (canonical form of HashSet<State>) ---------- *)
Fixpoint set_add (x : nat) (l : list nat) : list nat :=
  match l with
  | [] => [x]
  | y :: l' => if Nat.ltb x y then x :: l else if Nat.eqb x y then l else y :: set_add x l'
  end.
Fixpoint set_mem (x : nat) (l : list nat) : bool :=
  match l with
  | [] => false
  | y :: l' => Nat.eqb x y || set_mem x l'
  end.
Definition set_inter (a b : list nat) : list nat := filter (fun x => set_mem x b) a.
Definition set_diff (a b : list nat) : list nat := filter (fun x => negb (set_mem x b)) a.
Definition set_eqb (a b : list nat) : bool := list_eqb Nat.eqb a b.

(* BTreeSet<Grapheme> insertion *)
Fixpoint alpha_add (g : grapheme) (l : list grapheme) : list grapheme :=
  match l with
  | [] => [g]
  | h :: l' => match g_cmp g h with
               | Lt => g :: l
               | Eq => l
               | Gt => h :: alpha_add g l'
               end
  end.

(* ---------- petgraph views ---------- *)
Definition out_edges (es : list edge) (a : nat) : list edge :=
  filter (fun e => Nat.eqb (e_src e) a) (rev es).                 (* newest first *)
Definition neighbors (es : list edge) (a : nat) : list nat := map e_dst (out_edges es a).
Definition find_edge (es : list edge) (a b : nat) : option edge :=
  find (fun e => Nat.eqb (e_dst e) b) (out_edges es a).
Definition in_edges (es : list edge) (b : nat) : list edge :=
  filter (fun e => Nat.eqb (e_dst e) b) (rev es).                 (* newest first *)

(* update_edge(a, b, w): replace the weight of the (newest) a->b edge in place *)
Fixpoint update_newest (a b : nat) (w : grapheme) (res : list edge) : list edge :=
  (* `res` is the edge list reversed (newest first) *)
  match res with
  | [] => []
  | e :: r => if Nat.eqb (e_src e) a && Nat.eqb (e_dst e) b then (a, b, w) :: r
              else e :: update_newest a b w r
  end.
Definition update_edge (es : list edge) (a b : nat) (w : grapheme) : list edge :=
  rev (update_newest a b w (rev es)).

(* ---------- T: insert ---------- *)

Inductive next_result :=
| NFound (s : nat)                        (* existing edge with the same maximum *)
| NWiden (s : nat) (w : grapheme)         (* existing edge widened to w *)
| NNone.

(* find_next_state: scan the neighbours newest first *)
Fixpoint find_next_scan (es : list edge) (cur : nat) (g : grapheme) (ns : list nat) : option next_result :=
  match ns with
  | [] => Some NNone
  | nx :: ns' =>
      match find_edge es cur nx with
      | None => None                                  (* find_edge(..).unwrap() *)
      | Some e =>
          let cg := e_lbl e in
          if negb (strs_eqb (g_chars cg) (g_chars g)) then find_next_scan es cur g ns'
          else if N.eqb (g_max cg) (g_max g - 1) then
            Some (NWiden nx (g_new (g_chars g) (N.min (g_min cg) (g_min g)) (N.max (g_max cg) (g_max g))))
          else if N.eqb (g_max cg) (g_max g) then Some (NFound nx)
          else find_next_scan es cur g ns'
      end
  end.

(* state while inserting: node count, edges, whether the widening branch was ever taken *)
Record tstate := mkT { t_n : nat; t_edges : list edge; t_merged : bool }.

Definition step_insert (st : tstate) (cur : nat) (g : grapheme) : option (tstate * nat) :=
  match find_next_scan (t_edges st) cur g (neighbors (t_edges st) cur) with
  | None => None
  | Some (NFound s) => Some (st, s)
  | Some (NWiden s w) => Some (mkT (t_n st) (update_edge (t_edges st) cur s w) true, s)
  | Some NNone => Some (mkT (S (t_n st)) (t_edges st ++ [(cur, t_n st, g)]) (t_merged st), t_n st)
  end.

Fixpoint insert_path (st : tstate) (cur : nat) (gs : list grapheme) : option (tstate * nat) :=
  match gs with
  | [] => Some (st, cur)
  | g :: gs' => match step_insert st cur g with
                | None => None
                | Some (st', nx) => insert_path st' nx gs'
                end
  end.

Record trie_acc := mkTA { ta_st : tstate; ta_finals : list nat; ta_alpha : list grapheme }.

Definition insert_cluster (acc : option trie_acc) (cl : cluster) : option trie_acc :=
  match acc with
  | None => None
  | Some a =>
      match insert_path (ta_st a) 0 cl with
      | None => None
      | Some (st', last) =>
          Some (mkTA st' (set_add last (ta_finals a)) (fold_left (fun al g => alpha_add g al) cl (ta_alpha a)))
      end
  end.

Definition trie_acc_of (cls : list cluster) : option trie_acc :=
  fold_left insert_cluster cls (Some (mkTA (mkT 1 [] false) [] [])).

Definition trie_of (cls : list cluster) : option dfa :=
  match trie_acc_of cls with
  | None => None
  | Some a => Some (mkDfa (t_n (ta_st a)) (t_edges (ta_st a)) 0 (ta_finals a) (ta_alpha a))
  end.

(* the executable class of known finding K1: was the widening branch ever taken? *)
Definition no_merge (cls : list cluster) : bool :=
  match trie_acc_of cls with
  | None => true
  | Some a => negb (t_merged (ta_st a))
  end.

(* ---------- M: minimize ---------- *)

(* get_parent_states: for every state of a, the first incoming edge (newest first) whose
   label matches; insertion into a set *)
Definition label_match (g lbl : grapheme) : bool :=
  strs_eqb (g_chars g) (g_chars lbl)
  && N.leb (g_min g) (g_min lbl) && N.leb (g_max lbl) (g_max g).

Definition parent_states (es : list edge) (a : list nat) (lbl : grapheme) : list nat :=
  fold_left
    (fun x st =>
       match find (fun e => label_match (e_lbl e) lbl) (in_edges es st) with
       | Some e => set_add (e_src e) x
       | None => x
       end)
    a [].

Definition block := list nat.

(* one left-to-right pass: split every block cut by x, in place; record the replacements *)
Fixpoint split_pass (x : list nat) (p : list block) : list block * list (block * block * block) :=
  match p with
  | [] => ([], [])
  | y :: p' =>
      let i := set_inter y x in
      let d := set_diff y x in
      let '(q, rs) := split_pass x p' in
      match i, d with
      | _ :: _, _ :: _ => (i :: d :: q, (y, i, d) :: rs)
      | _, _ => (y :: q, rs)
      end
  end.

Fixpoint remove_first_set (y : block) (w : list block) : option (list block) :=
  match w with
  | [] => None
  | z :: w' => if set_eqb z y then Some w'
               else match remove_first_set y w' with
                    | Some r => Some (z :: r)
                    | None => None
                    end
  end.

Definition update_worklist (w : list block) (rs : list (block * block * block)) : list block :=
  fold_left
    (fun w r =>
       let '(y, i, d) := r in
       match remove_first_set y w with
       | Some w' => w' ++ [i; d]
       | None => w ++ [i; d]
       end)
    rs w.

Definition refine_by (es : list edge) (a : block) (pw : list block * list block) (lbl : grapheme)
  : list block * list block :=
  let '(p, w) := pw in
  let x := parent_states es a lbl in
  let '(p', rs) := split_pass x p in
  (p', update_worklist w rs).

Fixpoint hopcroft_loop (fuel : nat) (es : list edge) (alpha : list grapheme) (p w : list block)
  : option (list block) :=
  match w with
  | [] => Some p
  | a :: w' =>
      match fuel with
      | O => None
      | S fuel' =>
          let '(p', w'') := fold_left (refine_by es a) alpha (p, w') in
          hopcroft_loop fuel' es alpha p' w''
      end
  end.

Definition initial_partition (d : dfa) : list block :=
  let all := seq 0 (d_n d) in
  [filter (fun s => negb (set_mem s (d_finals d))) all; filter (fun s => set_mem s (d_finals d)) all].

Definition partition_of (d : dfa) : option (list block) :=
  let p := initial_partition d in
  match hopcroft_loop (2 * d_n d + 4) (d_edges d) (d_alphabet d) p p with
  | None => None
  | Some p' => Some (filter (fun b => match b with [] => false | _ => true end) p')
  end.

(* position of the block containing a state *)
Fixpoint block_index (s : nat) (p : list block) (k : nat) : option nat :=
  match p with
  | [] => None
  | b :: p' => if set_mem s b then Some k else block_index s p' (S k)
  end.

Definition block_min (b : block) : option nat := hd_error b.       (* blocks are increasing *)

(* recreate_graph: representative = the smallest state of the class *)
Definition recreate_graph (d : dfa) (p : list block) : option dfa :=
  let step (acc : option (list edge * list nat)) (b : block) : option (list edge * list nat) :=
    match acc, block_min b with
    | Some (es, fin), Some rep =>
        match block_index rep p 0 with
        | None => None
        | Some src' =>
            fold_left
              (fun acc tgt =>
                 match acc with
                 | None => None
                 | Some (es, fin) =>
                     match find_edge (d_edges d) rep tgt, block_index tgt p 0 with
                     | Some e, Some tgt' =>
                         Some (es ++ [(src', tgt', e_lbl e)],
                               if set_mem tgt (d_finals d) then set_add tgt' fin else fin)
                     | _, _ => None
                     end
                 end)
              (neighbors (d_edges d) rep) (Some (es, fin))
        end
    | _, _ => None
    end in
  match fold_left step p (Some ([], [])), block_index (d_init d) p 0 with
  | Some (es, fin), Some init' => Some (mkDfa (length p) es init' fin (d_alphabet d))
  | _, _ => None
  end.

Definition minimize (d : dfa) : option dfa :=
  match partition_of d with
  | None => None
  | Some p => recreate_graph d p
  end.

(* Dfa::from *)
Definition dfa_from (cls : list cluster) (minimized : bool) : option dfa :=
  match trie_of cls with
  | None => None
  | Some t => if minimized then minimize t else Some t
  end.

(* ---------- states_in_depth_first_order (petgraph Dfs) ---------- *)
Fixpoint dfs_loop (fuel : nat) (es : list edge) (stack : list nat) (disc : list nat) (order : list nat)
  : option (list nat) :=
  match stack with
  | [] => Some (rev order)
  | n :: stack' =>
      match fuel with
      | O => None
      | S fuel' =>
          if set_mem n disc then dfs_loop fuel' es stack' disc order
          else
            let disc' := set_add n disc in
            (* push undiscovered successors in neighbour order; the last pushed is popped first *)
            let pushed := filter (fun s => negb (set_mem s disc')) (neighbors es n) in
            dfs_loop fuel' es (rev pushed ++ stack') disc' (n :: order)
      end
  end.

Definition dfs_order (d : dfa) : option (list nat) :=
  dfs_loop (2 + length (d_edges d) + d_n d) (d_edges d) [d_init d] [] [].
