(* builder.rs: RegExpBuilder as a state machine. Field updates of the configuration record;
   the setters themselves are GENERATED from the source (gen/SrcBuilder.v). *)
From Grex Require Import Base.Str Model.Config.

Definition set_min_rep (v : N) (c : cfg) : cfg :=
  mkCfg v (min_len c) (f_digit c) (f_non_digit c) (f_space c) (f_non_space c) (f_word c) (f_non_word c) (f_rep c) (f_ci c) (f_cap c) (f_esc c) (f_sur c) (f_verbose c) (f_no_start c) (f_no_end c) (f_colour c).
Definition set_min_len (v : N) (c : cfg) : cfg :=
  mkCfg (min_rep c) v (f_digit c) (f_non_digit c) (f_space c) (f_non_space c) (f_word c) (f_non_word c) (f_rep c) (f_ci c) (f_cap c) (f_esc c) (f_sur c) (f_verbose c) (f_no_start c) (f_no_end c) (f_colour c).
Definition set_f_digit (v : bool) (c : cfg) : cfg :=
  mkCfg (min_rep c) (min_len c) v (f_non_digit c) (f_space c) (f_non_space c) (f_word c) (f_non_word c) (f_rep c) (f_ci c) (f_cap c) (f_esc c) (f_sur c) (f_verbose c) (f_no_start c) (f_no_end c) (f_colour c).
Definition set_f_non_digit (v : bool) (c : cfg) : cfg :=
  mkCfg (min_rep c) (min_len c) (f_digit c) v (f_space c) (f_non_space c) (f_word c) (f_non_word c) (f_rep c) (f_ci c) (f_cap c) (f_esc c) (f_sur c) (f_verbose c) (f_no_start c) (f_no_end c) (f_colour c).
Definition set_f_space (v : bool) (c : cfg) : cfg :=
  mkCfg (min_rep c) (min_len c) (f_digit c) (f_non_digit c) v (f_non_space c) (f_word c) (f_non_word c) (f_rep c) (f_ci c) (f_cap c) (f_esc c) (f_sur c) (f_verbose c) (f_no_start c) (f_no_end c) (f_colour c).
Definition set_f_non_space (v : bool) (c : cfg) : cfg :=
  mkCfg (min_rep c) (min_len c) (f_digit c) (f_non_digit c) (f_space c) v (f_word c) (f_non_word c) (f_rep c) (f_ci c) (f_cap c) (f_esc c) (f_sur c) (f_verbose c) (f_no_start c) (f_no_end c) (f_colour c).
Definition set_f_word (v : bool) (c : cfg) : cfg :=
  mkCfg (min_rep c) (min_len c) (f_digit c) (f_non_digit c) (f_space c) (f_non_space c) v (f_non_word c) (f_rep c) (f_ci c) (f_cap c) (f_esc c) (f_sur c) (f_verbose c) (f_no_start c) (f_no_end c) (f_colour c).
Definition set_f_non_word (v : bool) (c : cfg) : cfg :=
  mkCfg (min_rep c) (min_len c) (f_digit c) (f_non_digit c) (f_space c) (f_non_space c) (f_word c) v (f_rep c) (f_ci c) (f_cap c) (f_esc c) (f_sur c) (f_verbose c) (f_no_start c) (f_no_end c) (f_colour c).
Definition set_f_rep (v : bool) (c : cfg) : cfg :=
  mkCfg (min_rep c) (min_len c) (f_digit c) (f_non_digit c) (f_space c) (f_non_space c) (f_word c) (f_non_word c) v (f_ci c) (f_cap c) (f_esc c) (f_sur c) (f_verbose c) (f_no_start c) (f_no_end c) (f_colour c).
Definition set_f_ci (v : bool) (c : cfg) : cfg :=
  mkCfg (min_rep c) (min_len c) (f_digit c) (f_non_digit c) (f_space c) (f_non_space c) (f_word c) (f_non_word c) (f_rep c) v (f_cap c) (f_esc c) (f_sur c) (f_verbose c) (f_no_start c) (f_no_end c) (f_colour c).
Definition set_f_cap (v : bool) (c : cfg) : cfg :=
  mkCfg (min_rep c) (min_len c) (f_digit c) (f_non_digit c) (f_space c) (f_non_space c) (f_word c) (f_non_word c) (f_rep c) (f_ci c) v (f_esc c) (f_sur c) (f_verbose c) (f_no_start c) (f_no_end c) (f_colour c).
Definition set_f_esc (v : bool) (c : cfg) : cfg :=
  mkCfg (min_rep c) (min_len c) (f_digit c) (f_non_digit c) (f_space c) (f_non_space c) (f_word c) (f_non_word c) (f_rep c) (f_ci c) (f_cap c) v (f_sur c) (f_verbose c) (f_no_start c) (f_no_end c) (f_colour c).
Definition set_f_sur (v : bool) (c : cfg) : cfg :=
  mkCfg (min_rep c) (min_len c) (f_digit c) (f_non_digit c) (f_space c) (f_non_space c) (f_word c) (f_non_word c) (f_rep c) (f_ci c) (f_cap c) (f_esc c) v (f_verbose c) (f_no_start c) (f_no_end c) (f_colour c).
Definition set_f_verbose (v : bool) (c : cfg) : cfg :=
  mkCfg (min_rep c) (min_len c) (f_digit c) (f_non_digit c) (f_space c) (f_non_space c) (f_word c) (f_non_word c) (f_rep c) (f_ci c) (f_cap c) (f_esc c) (f_sur c) v (f_no_start c) (f_no_end c) (f_colour c).
Definition set_f_no_start (v : bool) (c : cfg) : cfg :=
  mkCfg (min_rep c) (min_len c) (f_digit c) (f_non_digit c) (f_space c) (f_non_space c) (f_word c) (f_non_word c) (f_rep c) (f_ci c) (f_cap c) (f_esc c) (f_sur c) (f_verbose c) v (f_no_end c) (f_colour c).
Definition set_f_no_end (v : bool) (c : cfg) : cfg :=
  mkCfg (min_rep c) (min_len c) (f_digit c) (f_non_digit c) (f_space c) (f_non_space c) (f_word c) (f_non_word c) (f_rep c) (f_ci c) (f_cap c) (f_esc c) (f_sur c) (f_verbose c) (f_no_start c) v (f_colour c).
Definition set_f_colour (v : bool) (c : cfg) : cfg :=
  mkCfg (min_rep c) (min_len c) (f_digit c) (f_non_digit c) (f_space c) (f_non_space c) (f_word c) (f_non_word c) (f_rep c) (f_ci c) (f_cap c) (f_esc c) (f_sur c) (f_verbose c) (f_no_start c) (f_no_end c) v.
