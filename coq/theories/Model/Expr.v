(* expression.rs: the Expression tree, union / concatenate with their simplifications,
   new_alternation, and Brzozowski's algebraic method (Expression::from). *)
From Grex Require Import Base.Str Model.Config Model.Cluster Model.Dfa.
From GrexGen Require Import SrcConsts.

Inductive quant := QStar | QQuestion.

Inductive expr :=
| EAlt (options : list expr)
| ECC (chars : list cp)              (* BTreeSet<char>: strictly increasing *)
| ECat (a b : expr)
| ELit (c : cluster)
| ERep (e : expr) (q : quant).

Definition quant_eqb (a b : quant) : bool :=
  match a, b with QStar, QStar | QQuestion, QQuestion => true | _, _ => false end.

Fixpoint expr_eqb (a b : expr) {struct a} : bool :=
  match a, b with
  | EAlt o1, EAlt o2 =>
      (fix go (l1 l2 : list expr) {struct l1} : bool :=
         match l1, l2 with
         | [], [] => true
         | x :: l1', y :: l2' => expr_eqb x y && go l1' l2'
         | _, _ => false
         end) o1 o2
  | ECC c1, ECC c2 => list_eqb N.eqb c1 c2
  | ECat a1 b1, ECat a2 b2 => expr_eqb a1 a2 && expr_eqb b1 b2
  | ELit c1, ELit c2 => list_eqb g_eqb c1 c2
  | ERep e1 q1, ERep e2 q2 => expr_eqb e1 e2 && quant_eqb q1 q2
  | _, _ => false
  end.

(* ---------- escaping (grapheme.rs), needed here because is_single_codepoint is decided on
   the escaped length ---------- *)

Definition is_astral (c : cp) : bool :=
  N.leb astral_lo c && (if astral_inclusive then N.leb c astral_hi else N.ltb c astral_hi).

Definition esc_unicode (c : cp) : str := [92; 117; 123]%N ++ hex_of_N c ++ [125%N].   (* \u{hex} *)

Definition escape_cp (surrogates : bool) (c : cp) : str :=
  if N.ltb c 128 then [c]
  else if surrogates && is_astral c then
    let v := (c - 65536)%N in
    esc_unicode (55296 + N.shiftr v 10)%N ++ esc_unicode (56320 + N.land v 1023)%N
  else esc_unicode c.

(* Grapheme::char_count *)
Definition g_char_count (escaped : bool) (g : grapheme) : nat :=
  if escaped
  then length (flat_map (fun s => flat_map (escape_cp false) s) (g_chars g))
  else fold_right (fun s n => length s + n) 0 (g_chars g).

Definition cluster_char_count (escaped : bool) (cl : cluster) : nat :=
  fold_right (fun g n => g_char_count escaped g + n) 0 cl.

Definition is_empty (e : expr) : bool :=
  match e with ELit [] => true | _ => false end.

Definition is_single_codepoint (c : cfg) (e : expr) : bool :=
  match e with
  | ECC _ => true
  | ELit cl =>
      Nat.eqb (cluster_char_count (f_esc c) cl) 1
      && match cl with g :: _ => N.eqb (g_max g) 1 | [] => false end
  | _ => false
  end.

Fixpoint e_len (e : expr) : nat :=
  match e with
  | EAlt (o :: _) => e_len o
  | EAlt [] => 0
  | ECC _ => 1
  | ECat a b => e_len a + e_len b
  | ELit cl => length cl
  | ERep e' _ => e_len e'
  end.

Definition precedence (e : expr) : nat :=
  match e with
  | EAlt _ | ECC _ => 1
  | ECat _ _ | ELit _ => 2
  | ERep _ _ => 3
  end.

(* flatten_alternations *)
Fixpoint flatten_alt (fuel : nat) (es : list expr) : list expr :=
  match fuel with
  | O => es
  | S f =>
      flat_map (fun e => match e with EAlt os => flatten_alt f os | _ => [e] end) es
  end.

Fixpoint alt_depth (e : expr) : nat :=
  match e with
  | EAlt os => S (fold_right (fun o n => Nat.max (alt_depth o) n) 0 os)
  | _ => 0
  end.

(* new_alternation: flatten, then stable sort by len() descending *)
Definition new_alternation (es : list expr) : expr :=
  let fuel := S (fold_right (fun o n => Nat.max (alt_depth o) n) 0 es) in
  EAlt (sort_by (fun a b => Nat.leb (e_len b) (e_len a)) (flatten_alt fuel es)).

(* value(Some(substring)) at the top level of union *)
Definition value_top (prefix : bool) (e : expr) : list grapheme :=
  match e with
  | ECat a b => match (if prefix then a else b) with ELit cl => cl | _ => [] end
  | ELit cl => cl
  | _ => []
  end.

Definition drop_sub (prefix : bool) (n : nat) (cl : cluster) : cluster :=
  if prefix then skipn n cl else firstn (length cl - n) cl.

Definition remove_substring (prefix : bool) (n : nat) (e : expr) : expr :=
  match e with
  | ECat a b =>
      if prefix then match a with ELit cl => ECat (ELit (drop_sub true n cl)) b | _ => e end
      else match b with ELit cl => ECat a (ELit (drop_sub false n cl)) | _ => e end
  | ELit cl => ELit (drop_sub prefix n cl)
  | _ => e
  end.

Fixpoint common_prefix (a b : list grapheme) : list grapheme :=
  match a, b with
  | x :: a', y :: b' => if g_eqb x y then x :: common_prefix a' b' else []
  | _, _ => []
  end.

Definition find_common (prefix : bool) (a b : expr) : list grapheme :=
  let ga := value_top prefix a in
  let gb := value_top prefix b in
  if prefix then common_prefix ga gb else rev (common_prefix (rev ga) (rev gb)).

(* first character of the first grapheme's value (extract_character_set) *)
Definition extract_character_set (e : expr) : option (list cp) :=
  match e with
  | ELit (g :: _) => match g_value g with c :: _ => Some [c] | [] => None end
  | ELit [] => None
  | ECC cs => Some cs
  | _ => Some []
  end.

Fixpoint cset_add (x : cp) (l : list cp) : list cp :=
  match l with
  | [] => [x]
  | y :: l' => if N.ltb x y then x :: l else if N.eqb x y then l else y :: cset_add x l'
  end.
Definition cset_union (a b : list cp) : list cp := fold_left (fun l x => cset_add x l) b a.

(* Expression::union on two present operands; None = a panic site (unwrap on empty data) *)
Definition union2 (c : cfg) (a b : expr) : option expr :=
  if expr_eqb a b then Some a
  else
    let cp_ := find_common true a b in
    let e1 := match cp_ with [] => a | _ => remove_substring true (length cp_) a end in
    let e2 := match cp_ with [] => b | _ => remove_substring true (length cp_) b end in
    let cs_ := find_common false e1 e2 in
    let e1 := match cs_ with [] => e1 | _ => remove_substring false (length cs_) e1 end in
    let e2 := match cs_ with [] => e2 | _ => remove_substring false (length cs_) e2 end in
    let core : option expr :=
      if is_empty e1 then Some (ERep e2 QQuestion)
      else if is_empty e2 then Some (ERep e1 QQuestion)
      else match e1 with
           | ERep x QQuestion => Some (ERep (new_alternation [x; e2]) QQuestion)
           | _ =>
               match e2 with
               | ERep y QQuestion => Some (ERep (new_alternation [e1; y]) QQuestion)
               | _ =>
                   if is_single_codepoint c e1 && is_single_codepoint c e2 then
                     match extract_character_set e1, extract_character_set e2 with
                     | Some s1, Some s2 => Some (ECC (cset_union s1 s2))
                     | _, _ => None
                     end
                   else Some (new_alternation [e1; e2])
               end
           end in
    match core with
    | None => None
    | Some r =>
        let r := match cp_ with [] => r | _ => ECat (ELit cp_) r end in
        let r := match cs_ with [] => r | _ => ECat r (ELit cs_) end in
        Some r
    end.

Definition union (c : cfg) (a b : option expr) : option (option expr) :=
  match a, b with
  | Some x, Some y => match union2 c x y with Some r => Some (Some r) | None => None end
  | Some x, None => Some (Some x)
  | None, Some y => Some (Some y)
  | None, None => Some None
  end.

Definition concatenate (a b : option expr) : option expr :=
  match a, b with
  | Some x, Some y =>
      if is_empty x then Some y
      else if is_empty y then Some x
      else match x, y with
           | ELit ga, ELit gb => Some (ELit (ga ++ gb))
           | ELit ga, ECat (ELit gf) second => Some (ECat (ELit (ga ++ gf)) second)
           | ECat first (ELit gs), ELit gb => Some (ECat first (ELit (gs ++ gb)))
           | _, _ => Some (ECat x y)
           end
  | _, _ => None
  end.

Definition star (a : option expr) : option expr :=
  match a with Some x => Some (ERep x QStar) | None => None end.

(* ---------- matrices as lists of rows ---------- *)
Definition mget {A} (m : list (list (option A))) (i j : nat) : option A :=
  nth j (nth i m []) None.
Fixpoint set_nth {A} (l : list A) (k : nat) (v : A) : list A :=
  match l, k with
  | [], _ => []
  | _ :: l', O => v :: l'
  | x :: l', S k' => x :: set_nth l' k' v
  end.
Definition mset {A} (m : list (list (option A))) (i j : nat) (v : option A) : list (list (option A)) :=
  set_nth m i (set_nth (nth i m []) j v).
Definition vget {A} (b : list (option A)) (i : nat) : option A := nth i b None.

Fixpoint position (x : nat) (l : list nat) (k : nat) : option nat :=
  match l with
  | [] => None
  | y :: l' => if Nat.eqb x y then Some k else position x l' (S k)
  end.

Definition sys := (list (list (option expr)) * list (option expr))%type.

(* fill a and b from the automaton *)
Definition init_system (c : cfg) (d : dfa) (states : list nat) : option sys :=
  let n := d_n d in
  let a0 := repeat (repeat (@None expr) n) n in
  let b0 := repeat (@None expr) n in
  fold_left
    (fun (acc : option sys) (ist : nat * nat) =>
       let '(i, st) := ist in
       match acc with
       | None => None
       | Some (a, b) =>
           let b := if set_mem st (d_finals d) then set_nth b i (Some (ELit [])) else b in
           fold_left
             (fun (acc : option sys) (e : edge) =>
                match acc with
                | None => None
                | Some (a, b) =>
                    match position (e_dst e) states 0 with
                    | None => None
                    | Some j =>
                        let l := ELit [e_lbl e] in
                        match mget a i j with
                        | Some old =>
                            match union2 c old l with
                            | Some u => Some (mset a i j (Some u), b)
                            | None => None
                            end
                        | None => Some (mset a i j (Some l), b)
                        end
                    end
                end)
             (out_edges (d_edges d) st) (Some (a, b))
       end)
    (combine (seq 0 (length states)) states) (Some (a0, b0)).

(* eliminate state n *)
Definition elim_step (c : cfg) (acc : option sys) (n : nat) : option sys :=
  match acc with
  | None => None
  | Some (a, b) =>
      let '(a, b) :=
        match mget a n n with
        | Some ann =>
            let s := star (Some ann) in
            let b := set_nth b n (concatenate s (vget b n)) in
            let a := fold_left (fun a j => mset a n j (concatenate s (mget a n j))) (seq 0 n) a in
            (a, b)
        | None => (a, b)
        end in
      fold_left
        (fun (acc : option sys) i =>
           match acc with
           | None => None
           | Some (a, b) =>
               match mget a i n with
               | None => Some (a, b)
               | Some ain =>
                   match union c (vget b i) (concatenate (Some ain) (vget b n)) with
                   | None => None
                   | Some bi =>
                       let b := set_nth b i bi in
                       fold_left
                         (fun (acc : option sys) j =>
                            match acc with
                            | None => None
                            | Some (a, b) =>
                                match union c (mget a i j) (concatenate (Some ain) (mget a n j)) with
                                | None => None
                                | Some aij => Some (mset a i j aij, b)
                                end
                            end)
                         (seq 0 n) (Some (a, b))
                   end
               end
           end)
        (seq 0 n) (Some (a, b))
  end.

(* Expression::from *)
Definition expr_from (c : cfg) (d : dfa) : option expr :=
  match dfs_order d with
  | None => None
  | Some states =>
      match fold_left (elim_step c) (rev (seq 0 (d_n d))) (init_system c d states) with
      | None => None
      | Some (_, b) =>
          match b with
          | Some e :: _ => Some e
          | _ => Some (ELit [])
          end
      end
  end.
