(* builder.rs as a state machine with histories; the CLI's documented meaning; the wasm object
   heap.  DEFINITIONS ONLY — the proofs are in Proofs/Wrappers.v.

   builder.rs: `build(&mut self)` sorts, dedups and (with case-insensitive matching)
   lower-cases the builder's OWN test_cases in place, then builds from them. *)
From Coq Require Import List NArith Bool.
From Grex Require Import Base.Str Model.Config Model.Builder Model.Pipeline.
From GrexGen Require Import SrcConsts SrcBuilder SrcCli SrcWasm.
Import ListNotations.

Record bstate := mkB { b_tcs : list str; b_cfg : cfg }.

Inductive bop := OSet (s : setter) | OBuild.

(* sequencing of panicking computations: the first panic wins *)
Definition bind_cfg (r : cfg + list N) (f : cfg -> cfg + list N) : cfg + list N :=
  match r with inl c => f c | inr m => inr m end.

(* a sequence of builder calls, as handle_input makes them *)
Definition run_setters (l : list setter) (acc : cfg + list N) : cfg + list N :=
  fold_left (fun acc s => match acc with inl c => apply_setter s c | e => e end) l acc.

Section Hist.
  Variable isd : cp -> bool.
  Variable db : odb.
  (* the self-check outcome is a function of the configuration and the normalised test cases *)
  Variable sc : cfg -> list str -> selfcheck.

  Definition build_out (c : cfg) (ws : list str) : option str :=
    build isd c db (sc c (normalise c db ws)) ws.

  Definition bstep (st : bstate) (op : bop) : option (bstate * list (option str)) :=
    match op with
    | OSet s =>
        match apply_setter s (b_cfg st) with
        | inl c' => Some (mkB (b_tcs st) c', [])
        | inr _ => None
        end
    | OBuild =>
        Some (mkB (normalise (b_cfg st) db (b_tcs st)) (b_cfg st),
              [build_out (b_cfg st) (b_tcs st)])
    end.

  (* outputs in order; None = some setter panicked *)
  Fixpoint brun (st : bstate) (ops : list bop) : option (bstate * list (option str)) :=
    match ops with
    | [] => Some (st, [])
    | op :: ops' =>
        match bstep st op with
        | None => None
        | Some (st1, o1) =>
            match brun st1 ops' with
            | None => None
            | Some (st2, o2) => Some (st2, o1 ++ o2)
            end
        end
    end.

  (* the accumulated settings: fold of the OSet's, ignoring OBuild *)
  Fixpoint cfg_after (c : cfg) (ops : list bop) : option cfg :=
    match ops with
    | [] => Some c
    | OSet s :: ops' =>
        match apply_setter s c with
        | inl c' => cfg_after c' ops'
        | inr _ => None
        end
    | OBuild :: ops' => cfg_after c ops'
    end.

  (* what the outputs SHOULD be: every build() is build_out of the settings accumulated so far
     applied to the ORIGINAL test cases ws *)
  Fixpoint expected (ws : list str) (c : cfg) (ops : list bop) : list (option str) :=
    match ops with
    | [] => []
    | OSet s :: ops' =>
        match apply_setter s c with
        | inl c' => expected ws c' ops'
        | inr _ => []
        end
    | OBuild :: ops' => build_out c ws :: expected ws c ops'
    end.

  (* the configuration in force at the LAST build() of the history, if any *)
  Fixpoint last_build_cfg (c : cfg) (ops : list bop) : option cfg :=
    match ops with
    | [] => None
    | OSet s :: ops' =>
        match apply_setter s c with
        | inl c' => last_build_cfg c' ops'
        | inr _ => None
        end
    | OBuild :: ops' =>
        match last_build_cfg c ops' with
        | Some c' => Some c'
        | None => Some c
        end
    end.

  (* what the builder's own test_cases field SHOULD be after the history *)
  Definition tcs_after (ws : list str) (c : cfg) (ops : list bop) : list str :=
    match last_build_cfg c ops with
    | None => ws
    | Some c0 => normalise c0 db ws
    end.

  (* ---------------- wasm.rs: a heap of builder objects ---------------- *)
  (* every setter of the JS class mutates the receiver and returns a CLONE of it (a new JS
     object); build() normalises the receiver's own test cases in place *)
  Inductive wop := WSet (i : nat) (s : wasm_setter) | WBuild (i : nat).

  Definition heap := list bstate.

  Fixpoint upd {A} (l : list A) (i : nat) (x : A) : list A :=
    match l, i with
    | [], _ => []
    | _ :: l', O => x :: l'
    | y :: l', S i' => y :: upd l' i' x
    end.

  Definition wstep (h : heap) (op : wop) : option (heap * list (option str)) :=
    match op with
    | WSet i s =>
        match nth_error h i with
        | None => None
        | Some st =>
            match wasm_apply s (b_cfg st) with
            | inr _ => None                                   (* throws *)
            | inl c' => let st' := mkB (b_tcs st) c' in Some (upd h i st' ++ [st'], [])
            end
        end
    | WBuild i =>
        match nth_error h i with
        | None => None
        | Some st =>
            Some (upd h i (mkB (normalise (b_cfg st) db (b_tcs st)) (b_cfg st)),
                  [build_out (b_cfg st) (b_tcs st)])
        end
    end.

  Fixpoint wrun (h : heap) (ops : list wop) : option (heap * list (option str)) :=
    match ops with
    | [] => Some (h, [])
    | op :: ops' =>
        match wstep h op with
        | None => None
        | Some (h1, o1) =>
            match wrun h1 ops' with
            | None => None
            | Some (h2, o2) => Some (h2, o1 ++ o2)
            end
        end
    end.

  (* the ancestry of every object: the LINEAR library history that produced it *)
  Definition anc_step (ancs : list (list bop)) (op : wop) : list (list bop) :=
    match op with
    | WSet i s =>
        let a := nth i ancs [] ++ [OSet (wasm_to_lib s)] in upd ancs i a ++ [a]
    | WBuild i => upd ancs i (nth i ancs [] ++ [OBuild])
    end.

  Definition ancestries (ancs : list (list bop)) (ops : list wop) : list (list bop) :=
    fold_left anc_step ops ancs.

  (* what the outputs of a wasm run SHOULD be: build_out of the settings accumulated along the
     receiver's ancestry, applied to the ORIGINAL test cases *)
  Fixpoint wexpected (ws : list str) (c0 : cfg) (ancs : list (list bop)) (ops : list wop)
    : list (option str) :=
    match ops with
    | [] => []
    | op :: ops' =>
        (match op with
         | WSet _ _ => []
         | WBuild i =>
             match cfg_after c0 (nth i ancs []) with
             | Some c => [build_out c ws]
             | None => []
             end
         end) ++ wexpected ws c0 (anc_step ancs op) ops'
    end.
End Hist.

(* ---------------- main.rs: the documented meaning of the command line flags -------------- *)
Definition spec_cfg (a : cli) : cfg :=
  {| min_rep := cli_minimum_repetitions a;
     min_len := cli_minimum_substring_length a;
     f_digit := cli_is_digit_converted a;
     f_non_digit := cli_is_non_digit_converted a;
     f_space := cli_is_space_converted a;
     f_non_space := cli_is_non_space_converted a;
     f_word := cli_is_word_converted a;
     f_non_word := cli_is_non_word_converted a;
     f_rep := cli_is_repetition_converted a;
     f_ci := cli_is_case_ignored a;
     f_cap := cli_is_group_captured a;
     f_esc := cli_is_non_ascii_char_escaped a;
     f_sur := cli_is_non_ascii_char_escaped a && cli_is_astral_code_point_converted_to_surrogate a;
     f_verbose := cli_is_verbose_mode_enabled a;
     f_no_start := cli_is_caret_anchor_disabled a || cli_are_anchors_disabled a;
     f_no_end := cli_is_dollar_sign_anchor_disabled a || cli_are_anchors_disabled a;
     f_colour := cli_is_output_colorized a |}.
