(* cluster.rs / grapheme.rs (data part): graphemes, grapheme clusters, class conversion,
   repetition conversion.  External Unicode behaviour enters as oracle data:
   seg : lengths (in code points) of the extended grapheme clusters of a string,
   cat : per code point, "general category is Mark or Other" (unic-ucd-category). *)
From Grex Require Import Base.Str Model.Config.
From GrexGen Require Import GrexTables.

Inductive grapheme := G (chars : list str) (reps : list grapheme) (gmin gmax : N).

Definition g_chars (g : grapheme) := let '(G c _ _ _) := g in c.
Definition g_reps (g : grapheme) := let '(G _ r _ _) := g in r.
Definition g_min (g : grapheme) := let '(G _ _ a _) := g in a.
Definition g_max (g : grapheme) := let '(G _ _ _ b) := g in b.

Definition g_from (s : str) : grapheme := G [s] [] 1 1.          (* Grapheme::from *)
Definition g_new (cs : list str) (a b : N) : grapheme := G cs [] a b.   (* Grapheme::new *)
Definition g_value (g : grapheme) : str := concat (g_chars g).   (* Grapheme::value *)

Fixpoint g_eqb (a b : grapheme) {struct a} : bool :=
  match a, b with
  | G c1 r1 m1 x1, G c2 r2 m2 x2 =>
      strs_eqb c1 c2
      && (fix go (l1 l2 : list grapheme) {struct l1} : bool :=
            match l1, l2 with
            | [], [] => true
            | g1 :: l1', g2 :: l2' => g_eqb g1 g2 && go l1' l2'
            | _, _ => false
            end) r1 r2
      && N.eqb m1 m2 && N.eqb x1 x2
  end.

(* derived Ord on Grapheme: chars, repetitions, min, max (the three flags are constant) *)
Fixpoint g_cmp (a b : grapheme) {struct a} : comparison :=
  match a, b with
  | G c1 r1 m1 x1, G c2 r2 m2 x2 =>
      match list_cmp str_cmp c1 c2 with
      | Eq =>
          match (fix go (l1 l2 : list grapheme) {struct l1} : comparison :=
                   match l1, l2 with
                   | [], [] => Eq
                   | [], _ :: _ => Lt
                   | _ :: _, [] => Gt
                   | g1 :: l1', g2 :: l2' =>
                       match g_cmp g1 g2 with Eq => go l1' l2' | c => c end
                   end) r1 r2 with
          | Eq => match N.compare m1 m2 with Eq => N.compare x1 x2 | c => c end
          | c => c
          end
      | c => c
      end
  end.

Definition cluster := list grapheme.

(* ---------- G: GraphemeCluster::from ---------- *)

(* split a list into chunks of the given lengths; a remainder (oracle inconsistency) becomes
   one final chunk so that no code point is ever lost *)
Fixpoint chunks {A} (lens : list nat) (l : list A) : list (list A) :=
  match lens with
  | [] => match l with [] => [] | _ => [l] end
  | n :: lens' => firstn n l :: chunks lens' (skipn n l)
  end.

Definition cluster_of (seg : list nat) (cat : list bool) (s : str) : cluster :=
  flat_map
    (fun it : list (cp * bool) =>
       let cs := map fst it in
       let contains_backslash := existsb (fun c => N.eqb c c_backslash) cs in
       let contains_mark_or_other := existsb snd it in
       if contains_backslash || contains_mark_or_other
       then map (fun c => g_from [c]) cs
       else [g_from cs])
    (filter (fun it => match it with [] => false | _ => true end) (chunks seg (combine s cat))).

(* ---------- K: convert_to_char_classes ---------- *)

Definition in_range (c : N) (r : N * N) : bool := N.leb (fst r) c && N.leb c (snd r).
Definition mem_ranges (rs : list (N * N)) (c : N) : bool := existsb (in_range c) rs.

Definition is_digit (c : cp) : bool := mem_ranges grex_decimal c.
Definition is_word (c : cp) : bool := mem_ranges grex_word c.
Definition is_space (c : cp) : bool := mem_ranges grex_space c.

Definition flag_of (c : cfg) (f : cflag) : bool :=
  match f with
  | FDigit => f_digit c | FNonDigit => f_non_digit c
  | FSpace => f_space c | FNonSpace => f_non_space c
  | FWord => f_word c | FNonWord => f_non_word c
  end.
Definition table_of (t : ctable) : cp -> bool :=
  match t with TDigit => is_digit | TWord => is_word | TSpace => is_space end.

(* first matching arm of the translated chain, else the character itself *)
Fixpoint class_token (c : cfg) (chain : list (cflag * bool * ctable * list N)) (x : cp) : str :=
  match chain with
  | [] => [x]
  | (f, neg, t, tok) :: chain' =>
      if flag_of c f && (if neg then negb (table_of t x) else table_of t x)
      then tok else class_token c chain' x
  end.

Definition convert_classes_g (c : cfg) (g : grapheme) : grapheme :=
  match g with
  | G cs r a b => G (map (fun s => flat_map (class_token c class_chain) s) cs) r a b
  end.
Definition convert_classes (c : cfg) (cl : cluster) : cluster := map (convert_classes_g c) cl.

(* ---------- R: convert_repetitions ---------- *)

Definition range := (nat * nat)%type.     (* start..end, end exclusive *)

(* assoc list keyed by prefix, insertion order = first occurrence *)
Fixpoint assoc_push (k : list str) (i : nat) (m : list (list str * list nat)) : list (list str * list nat) :=
  match m with
  | [] => [(k, [i])]
  | (k', is) :: m' => if strs_eqb k k' then (k', is ++ [i]) :: m' else (k', is) :: assoc_push k i m'
  end.

(* collect_repeated_substrings *)
Definition collect_repeated_substrings (gs : list grapheme) : list (list str * list nat) :=
  let n := length gs in
  fold_left
    (fun m i =>
       let suffix := skipn i gs in
       fold_left
         (fun m j =>
            if Nat.leb j (length suffix)
            then assoc_push (map g_value (firstn j suffix)) i m
            else m)
         (seq 1 (n / 2)) m)
    (seq 0 n) [].

(* itertools coalesce *)
Fixpoint coalesce_go {A} (f : A -> A -> option A) (acc : A) (l : list A) : list A :=
  match l with
  | [] => [acc]
  | y :: l' => match f acc y with
               | Some z => coalesce_go f z l'
               | None => acc :: coalesce_go f y l'
               end
  end.
Definition coalesce {A} (f : A -> A -> option A) (l : list A) : list A :=
  match l with [] => [] | x :: l' => coalesce_go f x l' end.

Fixpoint windows_all (p : nat -> nat -> bool) (l : list nat) : bool :=
  match l with
  | a :: ((b :: _) as l') => p a b && windows_all p l'
  | _ => true
  end.

(* create_ranges_of_repetitions.  The HashMap iteration order does not matter: entries are
   grouped by prefix length (descending) and ordered by first index inside a group, and
   (length, first index) identifies an entry; the insertion-ordered assoc list filtered by
   length is already in first-index order. *)
Definition create_ranges (c : cfg) (m : list (list str * list nat)) (n : nat)
  : list (range * list str) :=
  let ok := filter (fun e : list str * list nat =>
                      let '(p, idx) := e in windows_all (fun a b => Nat.leb (length p) (b - a)) idx) m in
  flat_map
    (fun plen =>
       flat_map
         (fun e : list str * list nat =>
            let '(p, idx) := e in
            if Nat.eqb (length p) plen then
              let rs := coalesce (fun x y : range => if Nat.eqb (snd x) (fst y) then Some (fst x, snd y) else None)
                                 (map (fun i => (i, i + plen)) idx) in
              map (fun r => (r, p))
                  (filter (fun r : range => N.ltb (min_rep c) (N.of_nat ((snd r - fst r) / plen))) rs)
            else [])
         ok)
    (rev (seq 1 (n / 2))).

(* stable insertion sort by a "precedes or equal" relation *)
Fixpoint insert_by {A} (le : A -> A -> bool) (x : A) (l : list A) : list A :=
  match l with
  | [] => [x]
  | y :: l' => if le x y then x :: l else y :: insert_by le x l'
  end.
Definition sort_by {A} (le : A -> A -> bool) (l : list A) : list A :=
  fold_right (insert_by le) [] l.

Definition range_contains (r : range) (x : nat) : bool := Nat.leb (fst r) x && Nat.ltb x (snd r).

(* coalesce_repetitions: sort by (end descending, start ascending), drop overlapping *)
Definition coalesce_repetitions (l : list (range * list str)) : list (range * list str) :=
  let le := fun (a b : range * list str) =>
              let '(fa, _) := a in let '(fb, _) := b in
              if Nat.eqb (snd fa) (snd fb) then Nat.leb (fst fa) (fst fb) else Nat.ltb (snd fb) (snd fa) in
  coalesce
    (fun a b : range * list str =>
       let fr := fst a in let sr := fst b in
       if (range_contains fr (fst sr) || range_contains fr (snd sr)) && negb (Nat.eqb (snd sr) (fst fr))
       then Some a else None)
    (sort_by le l).

(* the splice loop of replace_graphemes_with_repetitions; `break` = stop processing *)
Fixpoint splice_all (c : cfg) (co : list (range * list str)) (out : list grapheme) : list grapheme :=
  match co with
  | [] => out
  | ((s, e), sub) :: co' =>
      if Nat.ltb (length out) e then out                       (* range.end > len: break *)
      else if N.ltb (N.of_nat (length sub)) (min_len c) then splice_all c co' out   (* continue *)
      else
        let count := N.of_nat ((e - s) / length sub) in
        splice_all c co' (firstn s out ++ [g_new sub count count] ++ skipn e out)
  end.

(* convert_repetitions (free function): returns the new `repetitions` vector (empty = none) *)
Fixpoint conv_reps (fuel : nat) (c : cfg) (gs : list grapheme) : list grapheme :=
  match fuel with
  | O => []
  | S fuel' =>
      let co := coalesce_repetitions (create_ranges c (collect_repeated_substrings gs) (length gs)) in
      match co with
      | [] => []
      | _ =>
          let out := splice_all c co gs in
          map (fun g => match g with
                        | G cs _ a b => G cs (conv_reps fuel' c (map g_from cs)) a b
                        end) out
      end
  end.

(* GraphemeCluster::convert_repetitions *)
Definition convert_repetitions (c : cfg) (cl : cluster) : cluster :=
  match conv_reps (S (length cl)) c cl with
  | [] => cl
  | r => r
  end.
