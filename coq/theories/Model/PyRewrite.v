(* python.rs: the post-processing of the generated regex for Python's `re` syntax.
     Regex::new(r"\\u\{([0-9a-f]{MIN,MAX})\}").replace_all(regex, |caps| { n = parse hex;
         if n <= BMP_LIMIT { format!("\\u{:0BMPW$x}") } else { format!("\\U{:0ASTW$x}") } })
   The numbers come from the source (gen/SrcPython.v).  DEFINITIONS ONLY. *)
From Coq Require Import List NArith Bool Arith.
From Grex Require Import Base.Str.
From GrexGen Require Import SrcPython.
Import ListNotations.

(* [0-9a-f] *)
Definition is_lhex (c : cp) : bool :=
  (N.leb 48 c && N.leb c 57) || (N.leb 97 c && N.leb c 102).

(* the maximal run of lower-case hex digits at the front, and the rest *)
Fixpoint take_hex (s : str) : str * str :=
  match s with
  | [] => ([], [])
  | x :: s' =>
      if is_lhex x then let (h, r) := take_hex s' in (x :: h, r) else ([], s)
  end.

(* value of a hex digit (either case), of a hex numeral (most significant digit first) *)
Definition hex_val1 (c : cp) : N :=
  if N.leb c 57 then (c - 48)%N else if N.leb c 70 then (c - 55)%N else (c - 87)%N.
Definition hex_val (h : str) : N := fold_left (fun acc d => (acc * 16 + hex_val1 d)%N) h 0%N.

(* format!("{:0w$x}", n): zero padding to a MINIMUM width w *)
Definition pad (w : nat) (n : N) : str :=
  let h := hex_of_N n in repeat 48%N (w - length h) ++ h.

Definition py_emit (n : N) : str :=
  if N.leb n py_bmp_limit then [92; 117]%N ++ pad py_bmp_width n
  else [92; 85]%N ++ pad py_astral_width n.

(* One scanning step of replace_all (leftmost, non-overlapping matches).  The regex engine is
   greedy with backtracking, but fewer digits than the maximal run can never be followed by
   `}` (the next character is a hex digit), so a match at this backslash exists iff the maximal
   run has MIN..MAX digits and is followed by `}`. *)
Fixpoint py_rewrite_f (fuel : nat) (s : str) : str :=
  match fuel with
  | O => s
  | S f =>
      match s with
      | [] => []
      | x :: s' =>
          if N.eqb x 92 then
            match s' with
            | u :: b :: s'' =>
                if N.eqb u 117 && N.eqb b 123 then
                  let (h, r) := take_hex s'' in
                  if Nat.leb py_rx_min_digits (length h) && Nat.leb (length h) py_rx_max_digits
                  then match r with
                       | k :: r' =>
                           if N.eqb k 125 then py_emit (hex_val h) ++ py_rewrite_f f r'
                           else x :: py_rewrite_f f s'
                       | [] => x :: py_rewrite_f f s'
                       end
                  else x :: py_rewrite_f f s'
                else x :: py_rewrite_f f s'
            | _ => x :: py_rewrite_f f s'
            end
          else x :: py_rewrite_f f s'
      end
  end.

Definition py_rewrite (s : str) : str := py_rewrite_f (length s) s.

(* ---- Python's own syntax, independent of the source: \u + EXACTLY 4 hex digits for a BMP
   code point, \U + EXACTLY 8 hex digits otherwise ---- *)
Fixpoint hex_fixed (w : nat) (n : N) : str :=
  match w with
  | O => []
  | S w' => hex_fixed w' (n / 16)%N ++ [hex_digit (n mod 16)%N]
  end.

Definition py_escape (c : N) : str :=
  if N.leb c 65535 then [92; 117]%N ++ hex_fixed 4 c else [92; 85]%N ++ hex_fixed 8 c.

Definition is_hex (c : cp) : bool :=
  (N.leb 48 c && N.leb c 57) || (N.leb 65 c && N.leb c 70) || (N.leb 97 c && N.leb c 102).

(* how Python reads such an escape *)
Definition py_unescape (s : str) : option N :=
  match s with
  | bs :: k :: h =>
      if N.eqb bs 92 && N.eqb k 117 && Nat.eqb (length h) 4 && forallb is_hex h then Some (hex_val h)
      else if N.eqb bs 92 && N.eqb k 85 && Nat.eqb (length h) 8 && forallb is_hex h then Some (hex_val h)
      else None
  | _ => None
  end.
