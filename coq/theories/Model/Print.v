(* grapheme.rs Display / escape_regexp_symbols, component.rs, format.rs, regexp.rs Display and
   indent_regexp — string level, as written (after the fix: commits recorded in known_findings). *)
From Grex Require Import Base.Str Model.Config Model.Cluster Model.Dfa Model.Expr.
From GrexGen Require Import SrcConsts.

Definition ESC : cp := 27%N.

(* Component::color_code *)
Definition col (c : cfg) (code : str) (v : str) : str :=
  if f_colour c then [ESC; 91%N] ++ code ++ [109%N] ++ v ++ [ESC; 91%N; 48%N; 109%N] else v.

Definition nl : str := [c_nl].

(* (Un)CapturedParenthesizedExpression(expr, verbose, has_final_line_break) *)
Definition c_group (c : cfg) (e : str) (final_break : bool) : str :=
  let lp := if f_cap c then col c sgr_CapturedLeftParenthesis txt_CapturedLeftParenthesis
            else col c sgr_UncapturedLeftParenthesis txt_UncapturedLeftParenthesis in
  let rp := col c sgr_RightParenthesis txt_RightParenthesis in
  if f_verbose c
  then nl ++ lp ++ nl ++ e ++ nl ++ rp ++ (if final_break then nl else [])
  else lp ++ e ++ rp.

Definition quant_str (q : quant) : str := match q with QStar => [42%N] | QQuestion => [63%N] end.

(* Component::Quantifier(q, verbose) *)
Definition c_quant (c : cfg) (q : quant) : str :=
  col c sgr_Quantifier (quant_str q) ++ (if f_verbose c then nl else []).

(* Component::Repetition(num, verbose) *)
Definition c_rep (c : cfg) (n : N) (verbose : bool) : str :=
  let body := if N.eqb n 0 then [123; 92; 100; 43; 92; 125]%N          (* {\d+\} *)
              else [123%N] ++ dec_of_N n ++ [125%N] in
  col c sgr_Repetition body ++ (if verbose then nl else []).

(* Component::RepetitionRange(min, max, verbose) *)
Definition c_range (c : cfg) (a b : N) (verbose : bool) : str :=
  let body := if N.eqb a 0 && N.eqb b 0 then [123; 92; 100; 43; 44; 92; 100; 43; 92; 125]%N   (* {\d+,\d+\} *)
              else [123%N] ++ dec_of_N a ++ [44%N] ++ dec_of_N b ++ [125%N] in
  col c sgr_RepetitionRange body ++ (if verbose then nl else []).

(* ---------- escape_regexp_symbols ---------- *)
Definition escape_symbols_str (s : str) : str :=
  let s := fold_left (fun s x => replace_cp x [c_backslash; x] s) chars_to_escape s in
  let s := replace_cp c_nl [c_backslash; 110%N] s in
  let s := replace_cp c_cr [c_backslash; 114%N] s in
  let s := replace_cp c_tab [c_backslash; 116%N] s in
  if str_eqb s [c_backslash] then [c_backslash; c_backslash] else s.

Fixpoint escape_g (c : cfg) (g : grapheme) {struct g} : grapheme :=
  match g with
  | G cs rs a b =>
      let cs := map escape_symbols_str cs in
      let cs := if f_esc c then map (fun s => flat_map (escape_cp (f_sur c)) s) cs else cs in
      G cs ((fix go (l : list grapheme) : list grapheme :=
               match l with [] => [] | r :: l' => escape_g c r :: go l' end) rs) a b
  end.

(* is_single_escape_sequence *)
Definition is_single_escape_sequence (s : str) : bool :=
  match s with
  | b :: rest =>
      N.eqb b c_backslash &&
      match rest with
      | [] => false
      | u :: rest' =>
          if N.eqb u 117%N
          then (match last_cp s with Some l => N.eqb l 125%N | None => false end)
               && Nat.eqb (count_cp c_backslash s) 1 && Nat.eqb (count_cp 125%N s) 1
          else match rest' with [] => true | _ => false end
      end
  | [] => false
  end.

Definition is_char_class (v : str) : bool := existsb (str_eqb v) char_classes.

(* Display for Grapheme (the grapheme has been escaped already) *)
Fixpoint g_str (c : cfg) (g : grapheme) {struct g} : str :=
  match g with
  | G cs rs a b =>
      let single := Nat.eqb (g_char_count false g) 1
                    || match cs with [s] => is_single_escape_sequence s | _ => false end in
      let is_range := N.ltb a b in
      let is_rep := N.ltb 1 a in
      let v := match rs with
               | [] => concat cs
               | _ => (fix go (l : list grapheme) : str :=
                         match l with [] => [] | r :: l' => g_str c r ++ go l' end) rs
               end in
      let v := if f_colour c && is_char_class v then col c sgr_CharClass v else v in
      if negb is_range && is_rep && single then v ++ c_rep c a false
      else if negb is_range && is_rep then c_group c v false ++ c_rep c a (f_verbose c)
      else if is_range && single then v ++ c_range c a b false
      else if is_range then c_group c v false ++ c_range c a b (f_verbose c)
      else v
  end.

(* format_literal *)
Definition lit_str (c : cfg) (cl : cluster) : str :=
  flat_map
    (fun g =>
       match g with
       | G cs [] a b => g_str c (escape_g c g)
       | G cs rs a b => g_str c (G cs (map (escape_g c) rs) a b)
       end)
    cl.

(* format_character_class *)
Definition cc_escape (x : cp) : str :=
  if mem_cp x cc_chars_to_escape then [c_backslash; x]
  else if N.eqb x c_nl then [c_backslash; 110%N]
  else if N.eqb x c_cr then [c_backslash; 114%N]
  else if N.eqb x c_tab then [c_backslash; 116%N]
  else [x].

(* position of a scalar value in CharRange::all(): the surrogate gap is skipped *)
Definition codepoint_position (x : cp) : N := if N.ltb x 55296 then x else (x - 2048)%N.

Fixpoint cc_subsets (items : list (str * N)) (subset : list str) (first : bool) : list (list str) :=
  (* mirrors the tuple_windows loop; `first` = the current subset is still empty *)
  match items with
  | (c1, p1) :: (((c2, p2) :: _) as rest) =>
      let subset := if first then [c1] else subset in
      if N.eqb p2 (p1 + 1) then cc_subsets rest (subset ++ [c2]) false
      else subset :: cc_subsets rest [c2] false
  | _ => [subset]
  end.

Definition cc_str (c : cfg) (cs : list cp) : str :=
  let items := map (fun x => (cc_escape x, codepoint_position x)) cs in
  let subsets := cc_subsets items [] true in
  let parts :=
    flat_map (fun sub : list str =>
                if Nat.leb (length sub) 2 then sub
                else [hd [] sub ++ col c sgr_Hyphen txt_Hyphen ++ last sub []]) subsets in
  col c sgr_LeftBracket txt_LeftBracket ++ concat parts ++ col c sgr_RightBracket txt_RightBracket.

(* Display for Expression *)
Fixpoint e_str (c : cfg) (e : expr) {struct e} : str :=
  match e with
  | EAlt os =>
      let pipe := col c sgr_Pipe txt_Pipe in
      let sep := if f_verbose c then nl ++ pipe ++ nl else pipe in
      join sep
        ((fix go (l : list expr) : list str :=
            match l with
            | [] => []
            | o :: l' =>
                (if Nat.ltb (precedence o) 1 && negb (is_single_codepoint c o)
                 then c_group c (e_str c o) true else e_str c o) :: go l'
            end) os)
  | ECC cs => cc_str c cs
  | ECat a b =>
      let part (x : expr) (s : str) :=
        if Nat.ltb (precedence x) 2 && negb (is_single_codepoint c x) then c_group c s true else s in
      part a (e_str c a) ++ part b (e_str c b)
  | ELit cl => lit_str c cl
  | ERep x q =>
      if Nat.ltb (precedence x) 3 && negb (is_single_codepoint c x)
      then c_group c (e_str c x) false ++ c_quant c q
      else e_str c x ++ c_quant c q
  end.

(* format!("\\u{:04x}", c): backslash, u, at least four lower-case hex digits *)
Definition esc_u4 (c : cp) : str :=
  let h := hex_of_N c in [c_backslash; 117%N] ++ repeat 48%N (4 - length h) ++ h.

(* ---------- str::lines ---------- *)
Fixpoint split_nl (s : str) (cur : str) : list str :=
  match s with
  | [] => [rev cur]
  | x :: s' => if N.eqb x c_nl then rev cur :: split_nl s' [] else split_nl s' (x :: cur)
  end.
Definition strip_cr (l : str) : str :=
  match rev l with
  | x :: r => if N.eqb x c_cr then rev r else l
  | [] => l
  end.
(* pieces terminated by \n lose one trailing \r; the unterminated last piece is kept as it is
   (a bare trailing \r is not a line ending) and dropped when empty *)
Definition lines (s : str) : list str :=
  match rev (split_nl s []) with
  | [] => []
  | last :: r => map strip_cr (rev r) ++ (match last with [] => [] | _ => [last] end)
  end.

(* ---------- the SGR stripping regex  ESC \[ (?: \d+;\d+ | 0 ) m ---------- *)
Section Sgr.
  Variable is_digit_engine : cp -> bool.      (* the regex crate's \d *)

  Fixpoint take_digits (s : str) : str * str :=
    match s with
    | x :: s' => if is_digit_engine x then let '(d, r) := take_digits s' in (x :: d, r) else ([], s)
    | [] => ([], [])
    end.

  (* match the part after ESC [ ; returns the rest after the final m *)
  Definition match_sgr_tail (s : str) : option str :=
    let '(d1, r1) := take_digits s in
    let first :=
      match d1, r1 with
      | _ :: _, semi :: r2 =>
          if N.eqb semi 59%N then
            let '(d2, r3) := take_digits r2 in
            match d2, r3 with
            | _ :: _, m :: r4 => if N.eqb m 109%N then Some r4 else None
            | _, _ => None
            end
          else None
      | _, _ => None
      end in
    match first with
    | Some r => Some r
    | None =>
        match s with
        | z :: m :: r => if N.eqb z 48%N && N.eqb m 109%N then Some r else None
        | _ => None
        end
    end.

  Fixpoint strip_sgr_fuel (fuel : nat) (s : str) : str :=
    match fuel with
    | O => s
    | S f =>
        match s with
        | [] => []
        | x :: s' =>
            if N.eqb x ESC then
              match s' with
              | br :: s'' =>
                  if N.eqb br 91%N then
                    match match_sgr_tail s'' with
                    | Some r => strip_sgr_fuel f r
                    | None => x :: strip_sgr_fuel f s'
                    end
                  else x :: strip_sgr_fuel f s'
              | [] => [x]
              end
            else x :: strip_sgr_fuel f s'
        end
    end.
  Definition strip_sgr (s : str) : str := strip_sgr_fuel (S (length s)) s.

  (* ---------- indent_regexp ---------- *)
  Fixpoint repeat_str (n : nat) (s : str) : str :=
    match n with O => [] | S n' => s ++ repeat_str n' s end.

  Fixpoint indent_lines (c : cfg) (ls : list str) (i : nat) (level : nat) : list str :=
    match ls with
    | [] => []
    | line :: ls' =>
        let level := if Nat.eqb i 1 && f_no_start c then S level else level in
        match line with
        | [] => indent_lines c ls' (S i) level
        | _ =>
            let plain := strip_sgr line in
            let level := if Nat.ltb 0 level && (str_eqb plain [36%N] || starts_with [41%N] plain)
                         then pred level else level in
            let out := repeat_str level [c_space; c_space] ++ line in
            let level := if str_eqb plain [94%N] || (Nat.ltb 0 i && starts_with [40%N] plain)
                         then S level else level in
            out :: indent_lines c ls' (S i) level
        end
    end.

  Definition indent_regexp (c : cfg) (s : str) : str :=
    join nl (indent_lines c (lines s) 0 0).

  (* ---------- Display for RegExp ---------- *)
  Definition regexp_str (c : cfg) (ast : expr) : str :=
    let flag :=
      if f_ci c && f_verbose c then col c sgr_IgnoreCaseAndVerboseModeFlag [40; 63; 105; 120; 41]%N ++ nl
      else if f_ci c then col c sgr_IgnoreCaseFlag txt_IgnoreCaseFlag
      else if f_verbose c then col c sgr_VerboseModeFlag [40; 63; 120; 41]%N ++ nl
      else [] in
    let caret := if f_no_start c then []
                 else col c sgr_Caret [94%N] ++ (if f_verbose c then nl else []) in
    let dollar := if f_no_end c then []
                  else (if f_verbose c then nl else []) ++ col c sgr_DollarSign [36%N] in
    let body := match ast with
                | EAlt _ => c_group c (e_str c ast) false
                | _ => e_str c ast
                end in
    let r := flag ++ caret ++ body ++ dollar in
    let r := replace_cp 11%N [c_backslash; 118%N] r in
    let r := replace_cp 12%N [c_backslash; 102%N] r in
    if f_verbose c then
      let r := replace_cp 35%N [c_backslash; 35%N] r in
      let r := flat_map (fun x => if mem_cp x verbose_ws then esc_u4 x else [x]) r in
      let r := replace_cp c_space [c_backslash; c_space] r in
      indent_regexp c r
    else r.
End Sgr.
