(* config.rs: RegExpConfig *)
From Grex Require Import Base.Str.

Record cfg := mkCfg {
  min_rep : N;            (* minimum_repetitions *)
  min_len : N;            (* minimum_substring_length *)
  f_digit : bool;
  f_non_digit : bool;
  f_space : bool;
  f_non_space : bool;
  f_word : bool;
  f_non_word : bool;
  f_rep : bool;           (* is_repetition_converted *)
  f_ci : bool;            (* is_case_insensitive_matching *)
  f_cap : bool;           (* is_capturing_group_enabled *)
  f_esc : bool;           (* is_non_ascii_char_escaped *)
  f_sur : bool;           (* is_astral_code_point_converted_to_surrogate *)
  f_verbose : bool;
  f_no_start : bool;
  f_no_end : bool;
  f_colour : bool
}.

Definition default_cfg : cfg :=
  mkCfg 1 1 false false false false false false false false false false false false false false false.

Definition char_class_feature (c : cfg) : bool :=
  f_digit c || f_non_digit c || f_space c || f_non_space c || f_word c || f_non_word c
  || f_ci c || f_cap c.
