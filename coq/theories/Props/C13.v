(* C13 *)
From Grex Require Import Base.Str.
