(* C13 — the repetition thresholds are respected: a repetition is only written when the
   substring is repeated more than min_rep times and has at least min_len graphemes. *)
From Grex Require Import Base.Str Model.Config Model.Cluster Model.Dfa Model.Expr Model.Pipeline.
From Grex Require Import Proofs.RepInv Proofs.Provenance Proofs.ProvenanceInst Proofs.PropsGlue.

(* every grapheme g of a literal of the final expression (lit_in g e): either it is not
   repeated, or its upper bound exceeds min_rep and its unit has at least min_len characters *)
Theorem C13_thresholds : forall c db ws sc e,
  Pipeline.final_expr c (grapheme_clusters c db ws) sc = Some e ->
  forall g, lit_in g e ->
    (g_min g = 1%N /\ g_max g = 1%N)
    \/ ((min_rep c < g_max g)%N /\ (min_len c <= N.of_nat (length (g_chars g)))%N).
Proof. exact final_expr_thresholds. Qed.

(* without repetition conversion nothing is repeated: no braces in the output *)
Theorem C13_no_braces : forall c db ws sc e, f_rep c = false ->
  Pipeline.final_expr c (grapheme_clusters c db ws) sc = Some e ->
  forall g, lit_in g e -> g_min g = 1%N /\ g_max g = 1%N.
Proof. exact final_expr_unit. Qed.

(* on one cluster, at every nesting depth (thr_ok is recursive over the nested repetitions):
   min = max, and either (1,1) without nested repetitions or max > min_rep and the unit has at
   least min_len graphemes *)
Theorem C13_clusters : forall c cl,
  Forall plain cl -> Forall (thr_ok c) (convert_repetitions c cl).
Proof. exact convert_thresholds_strong. Qed.

Theorem C13_thr_ok_unfold : forall c cs rs a b,
  thr_ok c (G cs rs a b) <->
  a = b
  /\ ((a = 1%N /\ rs = []) \/ ((min_rep c < b)%N /\ (min_len c <= N.of_nat (length cs))%N))
  /\ Forall (thr_ok c) rs.
Proof.
  intros c cs rs a b. split.
  - intros H. inversion H; subst. auto.
  - intros (H1 & H2 & H3). constructor; assumption.
Qed.

Print Assumptions C13_thresholds.
Print Assumptions C13_no_braces.
Print Assumptions C13_clusters.
Print Assumptions C13_thr_ok_unfold.
