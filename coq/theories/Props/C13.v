(* C13 — the repetition thresholds are respected: a repetition is only written when the
   substring is repeated more than min_rep times and has at least min_len graphemes. *)
From Grex Require Import Base.Str Model.Config Model.Cluster Model.Dfa Model.Expr Model.Pipeline.
From Grex Require Import Proofs.RepInv Proofs.Provenance Proofs.ProvenanceInst Proofs.PropsGlue.
From Grex Require Import Engine.Syntax Engine.Parse.
From Grex Require Import Proofs.Spec Proofs.PrintParseNum Proofs.PrintParseDefs Proofs.PrintParseXTok
  Proofs.PropsGlueE2E Proofs.BracesThresholds Proofs.ThrMono.

(* every grapheme g of a literal of the final expression (lit_in g e): either it is not
   repeated, or its upper bound exceeds min_rep and its unit has at least min_len characters *)
Theorem C13_thresholds : forall c db ws sc e,
  Pipeline.final_expr c (grapheme_clusters c db ws) sc = Some e ->
  forall g, lit_in g e ->
    (g_min g = 1%N /\ g_max g = 1%N)
    \/ ((min_rep c < g_max g)%N /\ (min_len c <= N.of_nat (length (g_chars g)))%N).
Proof. exact final_expr_thresholds. Qed.

(* without repetition conversion nothing is repeated: no braces in the output *)
Theorem C13_no_braces : forall c db ws sc e, f_rep c = false ->
  Pipeline.final_expr c (grapheme_clusters c db ws) sc = Some e ->
  forall g, lit_in g e -> g_min g = 1%N /\ g_max g = 1%N.
Proof. exact final_expr_unit. Qed.

(* on one cluster, at every nesting depth (thr_ok is recursive over the nested repetitions):
   min = max, and either (1,1) without nested repetitions or max > min_rep and the unit has at
   least min_len graphemes *)
Theorem C13_clusters : forall c cl,
  Forall plain cl -> Forall (thr_ok c) (convert_repetitions c cl).
Proof. exact convert_thresholds_strong. Qed.

Theorem C13_thr_ok_unfold : forall c cs rs a b,
  thr_ok c (G cs rs a b) <->
  a = b
  /\ ((a = 1%N /\ rs = []) \/ ((min_rep c < b)%N /\ (min_len c <= N.of_nat (length cs))%N))
  /\ Forall (thr_ok c) rs.
Proof.
  intros c cs rs a b. split.
  - intros H. inversion H; subst. auto.
  - intros (H1 & H2 & H3). constructor; assumption.
Qed.

(* the repetitions of the parsed output (notions: Props/C01.v (f); rast_sub x r: x occurs in
   r, Proofs/PropsGlueE2E.v): every repetition operator is `*`, `?` or a counted {lo,b} with
   1 <= lo <= b and (lo,b) <> (1,1) -- braces are never written for a (1,1) grapheme, and
   there is no `+`, no open-ended {n,} and no {0,...} *)
Theorem C13_braces_shape : forall isd is_ws c db sc ws s,
  ws <> [] ->
  Forall (Forall scalar) ws ->
  (forall s0, In s0 ws -> Forall scalar (lower' db s0)) ->
  oracle_ok db (normalise c db ws) ->
  printable c -> (if f_verbose c then ws_x is_ws else ws_ok is_ws) ->
  build isd c db sc ws = Some s ->
  exists r, parse is_ws s = Some (mkF (f_ci c) (f_verbose c), r)
    /\ forall r' lo hi, rast_sub (RRep r' lo hi) r ->
          (lo = 0%N /\ hi = None) \/ (lo = 0%N /\ hi = Some 1%N)
          \/ exists b, hi = Some b /\ (1 <= lo)%N /\ (lo <= b)%N /\ ~ (lo = 1%N /\ b = 1%N).
Proof.
  intros isd is_ws c db sc ws s Hne Hsc Hlow Hok Hp Hws H.
  destruct (build_shape_any isd is_ws c db sc ws s Hne Hsc Hlow Hok Hp Hws H)
    as (r & Hr & _ & Hrep & _).
  exists r. split; [exact Hr|exact Hrep].
Qed.

(* the counted repetitions of the parsed output and the thresholds (min_len_rast r: the minimal
   number of characters of a match of r, Proofs/BracesThresholds.v): a repetition that is not
   the `?` / `*` of the expression (lo <> 0) is only written when repetition conversion is on,
   its upper count exceeds minimum_repetitions, and every match of its operand has at least
   minimum_substring_length characters; there is no open-ended {n,}; and without repetition
   conversion there is no counted repetition at all *)
Theorem C13_build_braces : forall isd is_ws c db sc ws s,
  ws <> [] ->
  Forall (Forall scalar) ws ->
  (forall s0, In s0 ws -> Forall scalar (lower' db s0)) ->
  oracle_ok db (normalise c db ws) ->
  printable c -> (if f_verbose c then ws_x is_ws else ws_ok is_ws) ->
  build isd c db sc ws = Some s ->
  exists r, parse is_ws s = Some (mkF (f_ci c) (f_verbose c), r)
    /\ (forall body lo hi, rast_sub (RRep body lo (Some hi)) r -> lo <> 0%N ->
          f_rep c = true /\ (min_rep c < hi)%N /\ N.to_nat (min_len c) <= min_len_rast body)
    /\ (forall body lo, rast_sub (RRep body lo None) r -> lo = 0%N)
    /\ (f_rep c = false -> forall body lo hi, rast_sub (RRep body lo hi) r -> lo = 0%N).
Proof. exact build_braces_thresholds. Qed.

(* the same with the shape of the bounds (C13_braces_shape) in one statement *)
Theorem C13_build_braces_full : forall isd is_ws c db sc ws s,
  ws <> [] ->
  Forall (Forall scalar) ws ->
  (forall s0, In s0 ws -> Forall scalar (lower' db s0)) ->
  oracle_ok db (normalise c db ws) ->
  printable c -> (if f_verbose c then ws_x is_ws else ws_ok is_ws) ->
  build isd c db sc ws = Some s ->
  exists r, parse is_ws s = Some (mkF (f_ci c) (f_verbose c), r)
    /\ forall body lo hi, rast_sub (RRep body lo hi) r ->
         (lo = 0%N /\ (hi = None \/ hi = Some 1%N))
         \/ exists b, hi = Some b /\ (1 <= lo)%N /\ (lo <= b)%N /\ ~ (lo = 1%N /\ b = 1%N)
              /\ f_rep c = true /\ (min_rep c < b)%N
              /\ N.to_nat (min_len c) <= min_len_rast body.
Proof. exact build_braces_full. Qed.

(* the invariant behind it, at every nesting depth, for the graphemes of the final expression *)
Theorem C13_thresholds_deep : forall c db ws sc e g,
  Pipeline.final_expr c (grapheme_clusters c db ws) sc = Some e -> lit_in g e ->
  thr_lbl c g /\ Forall (thr_ok c) (g_reps g)
  /\ (f_rep c = false -> (g_min g = 1%N /\ g_max g = 1%N) /\ g_reps g = []).
Proof. exact final_expr_thr_deep_lit. Qed.

(* last clause of the property: raising a threshold can only turn quantified parts back into
   literal text — the build with higher thresholds (c') re-brackets the same text, and each of its
   quantified parts is admissible for the lower thresholds (c) as well *)
Theorem C13_raise_thresholds : forall c c' cl,
  ThrMono.thr_le c c' -> Forall plain cl ->
  Forall (thr_ok c) (convert_repetitions c' cl)
  /\ expand (convert_repetitions c' cl) = expand (convert_repetitions c cl).
Proof. exact ThrMono.raise_thresholds. Qed.

Theorem C13_threshold_order : forall c c' g,
  ThrMono.thr_le c c' -> thr_lbl c' g -> thr_lbl c g.
Proof. exact ThrMono.thr_lbl_mono. Qed.

Print Assumptions C13_thresholds.
Print Assumptions C13_no_braces.
Print Assumptions C13_clusters.
Print Assumptions C13_thr_ok_unfold.
Print Assumptions C13_braces_shape.
Print Assumptions C13_build_braces.
Print Assumptions C13_build_braces_full.
Print Assumptions C13_thresholds_deep.
Print Assumptions C13_raise_thresholds.
Print Assumptions C13_threshold_order.

(* NON-VACUITY (Proofs/NonVacuity.v, world W8): C13_build_braces applied to
   ["ab ab ab 12","é_"] with repetition conversion, thresholds 2/2, classes and escaping: the
   output ^(?:(?:\w\w\s){3}\d\d|\w\w)$ parses, and its counted repetition {3} has 3 > 2 and a
   body of minimal match length 3 >= 2 (while \d\d, a repetition of length 1 < 2, stays literal). *)
From Grex Require Proofs.NonVacuity.
Theorem C13_nonvacuous : exists e s,
  NonVacuity.world_ok NonVacuity.c_W8 NonVacuity.db_W8 SCPass1 NonVacuity.ws_W8 true e s
  /\ exists r, parse NonVacuity.is_ws_std s = Some (mkF false false, r)
       /\ (forall body lo hi, rast_sub (RRep body lo (Some hi)) r -> lo <> 0%N ->
             (2 < hi)%N /\ 2 <= min_len_rast body).
Proof.
  pose proof NonVacuity.W8 as W. do 2 eexists. split; [exact W|].
  destruct (C13_build_braces NonVacuity.isd NonVacuity.is_ws_std _ _ _ _ _
              (NonVacuity.w_nonempty _ _ _ _ _ _ _ W) (NonVacuity.w_scalar _ _ _ _ _ _ _ W) NonVacuity.W8_lower_scalar
              (NonVacuity.w_oracle _ _ _ _ _ _ _ W) NonVacuity.W8_printable NonVacuity.ws_ok_std
              (NonVacuity.w_build _ _ _ _ _ _ _ W)) as (r & P & A & _).
  exists r. split; [exact P|]. intros body lo hi Hs Hlo. destruct (A body lo hi Hs Hlo) as (_ & B & C). split; assumption.
Qed.
Print Assumptions C13_nonvacuous.
