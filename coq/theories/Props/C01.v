(* C01 *)
From Grex Require Import Base.Str.
