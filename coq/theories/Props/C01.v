(* C01 — the generated regular expression matches every test case.

   Languages: L_expr lit cls e is the language of the expression e when a literal code point
   a accepts {x | lit a x} and the class token \l accepts {x | cls l x} (Proofs/Lang.v).
   Spec_str lit cls c t is the language documented for one test case t: same number of code
   points, each accepted by the token that the corresponding code point of t is converted to
   (Proofs/Spec.v).  lit_cs / lit_ci / cls_engine: Proofs/EngineDen.v.

   Hypotheses that appear below:
     oracle_ok     the per-case Unicode oracle data has one category entry per code point
                   (checked by the harness on every case)
     no_merge      the trie construction never takes the widening branch (known finding K1;
                   automatic when repetitions are not converted: C02, C05)
     K4            known finding: the empty test case next to a non-empty one is lost
     skew_set      known finding K3: code points whose lower-casing leaves the engine's
                   simple case folding class *)
From Grex Require Import Base.Str Base.Ranges Model.Config Model.Cluster Model.Dfa Model.Expr
  Model.Pipeline.
From Grex Require Import Proofs.Lang Proofs.Spec Proofs.FoldTables Proofs.EngineDen
  Proofs.Construction Proofs.PropsGlue.
From Grex Require Import Engine.Syntax Engine.Parse Engine.Sem.
From Grex Require Import Proofs.PrintParseNum Proofs.PrintParseDefs Proofs.PrintParseXTok
  Proofs.PropsGlueE2E.
From Grex Require Proofs.MergeSound Proofs.HopcroftSym Proofs.HopcroftAny Proofs.EndToEndMerge.
From GrexGen Require Import GrexTables OracleTables.

(* (a) every (normalised) test case that satisfies its own specification is accepted;
       any denotation of literals and classes *)
Theorem C01_sound_expr : forall (lit cls : cp -> cp -> Prop) c db sc ws e t,
  ws <> [] ->
  oracle_ok db (normalise c db ws) ->
  no_merge (grapheme_clusters c db (normalise c db ws)) = true ->
  Pipeline.final_expr c (grapheme_clusters c db (normalise c db ws)) sc = Some e ->
  In t ws ->
  let t' := if f_ci c then lower' db t else t in
  (t' <> [] \/ K4 (normalise c db ws) = false) ->
  Spec_str lit cls c t' t' ->
  L_expr lit cls e t'.
Proof. exact sound_expr. Qed.

(* (b) with the engine's classes every string of Unicode scalar values satisfies its own
       specification: the side condition of (a) *)
Theorem C01_self_accept : forall c s,
  Forall (fun x => is_scalar x = true) s -> Spec_str lit_cs cls_engine c s s.
Proof. exact Spec_str_self. Qed.

Theorem C01_self_accept_ci : forall c s,
  Forall (fun x => is_scalar x = true) s -> Spec_str lit_ci cls_engine c s s.
Proof. exact Spec_str_self_ci. Qed.

(* (a) + (b): case-sensitive matching, every test case is accepted *)
Theorem C01_sound_case_sensitive : forall c db sc ws e t,
  f_ci c = false ->
  ws <> [] ->
  oracle_ok db (normalise c db ws) ->
  no_merge (grapheme_clusters c db (normalise c db ws)) = true ->
  Pipeline.final_expr c (grapheme_clusters c db (normalise c db ws)) sc = Some e ->
  In t ws ->
  Forall (fun x => is_scalar x = true) t ->
  (t <> [] \/ K4 (normalise c db ws) = false) ->
  L_expr lit_cs cls_engine e t.
Proof. exact sound_cs. Qed.

(* (c) under (?i) the ORIGINAL test case is accepted by the expression built from the
       lower-cased one, when lower-casing t is code-point-wise (lower1) and no code point of t
       is in the skew set *)
Theorem C01_ci_original_codepoint : forall c x,
  is_scalar x = true -> mem_cp x skew_set = false ->
  den_str lit_ci cls_engine (class_token c class_chain (lower1 x)) [x].
Proof. exact token_lower_accepts_original. Qed.

Theorem C01_ci_original : forall c db sc ws e t,
  f_ci c = true ->
  ws <> [] ->
  oracle_ok db (normalise c db ws) ->
  no_merge (grapheme_clusters c db (normalise c db ws)) = true ->
  Pipeline.final_expr c (grapheme_clusters c db (normalise c db ws)) sc = Some e ->
  In t ws ->
  lower' db t = map lower1 t ->
  Forall (fun x => is_scalar x = true /\ mem_cp x skew_set = false) t ->
  (t <> [] \/ K4 (normalise c db ws) = false) ->
  L_expr lit_ci cls_engine e t.
Proof. exact ci_original. Qed.

(* (d) the trie stage accepts every specified string even when edges are merged *)
Theorem C01_trie_sound_with_merge : forall (lit cls : cp -> cp -> Prop) c db ws t,
  oracle_ok db (normalise c db ws) ->
  trie_of (grapheme_clusters c db (normalise c db ws)) = Some t ->
  lsub (Spec lit cls c db ws) (L_dfa lit cls t).
Proof. exact construction_sound_trie. Qed.

(* (e) a regular expression is always produced *)
Theorem C01_total : forall isd c db sc ws, exists s, build isd c db sc ws = Some s.
Proof. exact build_total. Qed.

(* (f) END TO END, at the string level.  Parse.parse is_ws is the model of the regex crate's
       parser (Engine/Parse.v), L_rast the matching relation of the regex crate on parsed
       patterns (Engine/Sem.v); scalar x: x is a Unicode scalar value; printable c: no colour,
       no surrogate-pair escapes (f_colour c = false /\ f_sur c = false); ws_ok is_ws: the
       whitespace test given to the parser rejects 0-9 , and }.
       Case-sensitive builds: the string returned by build is accepted by the parser, without
       flags, and the parsed pattern matches every test case in full (K4 excepted). *)
Theorem C01_build_parse_sound : forall isd is_ws c db sc ws s,
  f_ci c = false ->
  ws <> [] ->
  Forall (Forall scalar) ws ->
  oracle_ok db (normalise c db ws) ->
  printable c -> f_verbose c = false -> ws_ok is_ws ->
  no_merge (grapheme_clusters c db (normalise c db ws)) = true ->
  build isd c db sc ws = Some s ->
  exists fl r, parse is_ws s = Some (fl, r) /\ fl_i fl = false /\ fl_x fl = false
    /\ forall t, In t ws -> (t <> [] \/ K4 (normalise c db ws) = false) ->
         L_rast lit_cs cls_engine r t.
Proof. exact build_sound_cs_nv. Qed.

(* verbose mode: the output "(?x)..." is parsed under the x flag; ws_x is_ws: is_ws is the
   engine's whitespace table (Proofs/PrintParseXTok.v; PrintParseX.ws_x_std) *)
Theorem C01_build_parse_sound_verbose : forall isd is_ws c db sc ws s,
  f_ci c = false ->
  ws <> [] ->
  Forall (Forall scalar) ws ->
  oracle_ok db (normalise c db ws) ->
  printable c -> f_verbose c = true -> ws_x is_ws ->
  no_merge (grapheme_clusters c db (normalise c db ws)) = true ->
  build isd c db sc ws = Some s ->
  exists fl r, parse is_ws s = Some (fl, r) /\ fl_i fl = false /\ fl_x fl = true
    /\ forall t, In t ws -> (t <> [] \/ K4 (normalise c db ws) = false) ->
         L_rast lit_cs cls_engine r t.
Proof. exact build_sound_cs_v. Qed.

(* under (?i): the parsed pattern carries the i flag and matches the ORIGINAL test case t when
   lower-casing t is code-point-wise and t avoids the skew set (K3) *)
Theorem C01_build_parse_sound_ci : forall isd is_ws c db sc ws s,
  f_ci c = true ->
  ws <> [] ->
  Forall (Forall scalar) ws ->
  (forall s0, In s0 ws -> Forall scalar (lower' db s0)) ->
  oracle_ok db (normalise c db ws) ->
  printable c -> f_verbose c = false -> ws_ok is_ws ->
  no_merge (grapheme_clusters c db (normalise c db ws)) = true ->
  build isd c db sc ws = Some s ->
  exists fl r, parse is_ws s = Some (fl, r) /\ fl_i fl = true /\ fl_x fl = false
    /\ forall t, In t ws ->
         lower' db t = map lower1 t ->
         Forall (fun x => mem_cp x skew_set = false) t ->
         (t <> [] \/ K4 (normalise c db ws) = false) ->
         L_rast lit_ci cls_engine r t.
Proof. exact build_sound_ci_nv. Qed.

Theorem C01_build_parse_sound_ci_verbose : forall isd is_ws c db sc ws s,
  f_ci c = true ->
  ws <> [] ->
  Forall (Forall scalar) ws ->
  (forall s0, In s0 ws -> Forall scalar (lower' db s0)) ->
  oracle_ok db (normalise c db ws) ->
  printable c -> f_verbose c = true -> ws_x is_ws ->
  no_merge (grapheme_clusters c db (normalise c db ws)) = true ->
  build isd c db sc ws = Some s ->
  exists fl r, parse is_ws s = Some (fl, r) /\ fl_i fl = true /\ fl_x fl = true
    /\ forall t, In t ws ->
         lower' db t = map lower1 t ->
         Forall (fun x => mem_cp x skew_set = false) t ->
         (t <> [] \/ K4 (normalise c db ws) = false) ->
         L_rast lit_ci cls_engine r t.
Proof. exact build_sound_ci_v. Qed.

(* (g) SOUNDNESS WITH MERGED (WIDENED) TRIE EDGES.  no_merge is replaced by the executable
       certificate MergeSound.merge_cert: on the pipeline's own trie t, partition p and
       quotient d' it checks that finality is uniform inside every block, that every symbol
       (characters, count) of every edge of t is covered by an edge that recreate_graph copies
       from the representative of the source block into the block of the target (qcoverb),
       and that a longest-path rank decreases along every edge of d' (acyclicb).  With the
       certificate every specification string, hence every test case, is accepted, for every
       self-check outcome. *)
Theorem C01_spec_sound_with_merge_cert : forall (lit cls : cp -> cp -> Prop) c db sc ws e,
  ws <> [] ->
  oracle_ok db (normalise c db ws) ->
  MergeSound.merge_cert (grapheme_clusters c db (normalise c db ws)) = true ->
  Pipeline.final_expr c (grapheme_clusters c db (normalise c db ws)) sc = Some e ->
  forall u, Spec lit cls c db ws u -> (u <> [] \/ K4 (normalise c db ws) = false) ->
    L_expr lit cls e u.
Proof. exact MergeSound.final_expr_sound_cert. Qed.

Theorem C01_sound_with_merge_cert : forall (lit cls : cp -> cp -> Prop) c db sc ws e t,
  ws <> [] ->
  oracle_ok db (normalise c db ws) ->
  MergeSound.merge_cert (grapheme_clusters c db (normalise c db ws)) = true ->
  Pipeline.final_expr c (grapheme_clusters c db (normalise c db ws)) sc = Some e ->
  In t ws ->
  let t' := if f_ci c then lower' db t else t in
  (t' <> [] \/ K4 (normalise c db ws) = false) ->
  Spec_str lit cls c t' t' ->
  L_expr lit cls e t'.
Proof. exact MergeSound.sound_expr_cert. Qed.

(* (h) NO CERTIFICATE when the trie is symbol-deterministic.  HopcroftSym.merge_detb runs
       sym_detb on the trie: no state has two out-edges with the same characters and
       overlapping ranges that lead to different states.  Then Hopcroft as implemented
       (containment matching, smaller-half work-list rule) returns a partition whose
       representatives cover their blocks, and the quotient is acyclic. *)
Theorem C01_spec_sound_symdet : forall (lit cls : cp -> cp -> Prop) c db sc ws e,
  ws <> [] ->
  oracle_ok db (normalise c db ws) ->
  HopcroftSym.merge_detb (grapheme_clusters c db (normalise c db ws)) = true ->
  Pipeline.final_expr c (grapheme_clusters c db (normalise c db ws)) sc = Some e ->
  forall u, Spec lit cls c db ws u -> (u <> [] \/ K4 (normalise c db ws) = false) ->
    L_expr lit cls e u.
Proof. exact HopcroftSym.final_expr_sound_symdet. Qed.

Theorem C01_sound_symdet : forall (lit cls : cp -> cp -> Prop) c db sc ws e t,
  ws <> [] ->
  oracle_ok db (normalise c db ws) ->
  HopcroftSym.merge_detb (grapheme_clusters c db (normalise c db ws)) = true ->
  Pipeline.final_expr c (grapheme_clusters c db (normalise c db ws)) sc = Some e ->
  In t ws ->
  let t' := if f_ci c then lower' db t else t in
  (t' <> [] \/ K4 (normalise c db ws) = false) ->
  Spec_str lit cls c t' t' ->
  L_expr lit cls e t'.
Proof. exact HopcroftSym.sound_expr_symdet. Qed.

(* (i) UNCONDITIONAL: minimize pushes both halves of every split block on its work-list, and
       then the Hopcroft partition of every trie the pipeline builds (merged edges, symbol-
       deterministic or not) is stable for every alphabet symbol; the representatives cover
       their blocks and the quotient is acyclic.  No no_merge, no certificate, any self-check
       outcome: every specification string, hence every test case, is accepted. *)
Theorem C01_spec_sound_with_merge : forall (lit cls : cp -> cp -> Prop) c db sc ws e,
  ws <> [] ->
  oracle_ok db (normalise c db ws) ->
  Pipeline.final_expr c (grapheme_clusters c db (normalise c db ws)) sc = Some e ->
  forall u, Spec lit cls c db ws u -> (u <> [] \/ K4 (normalise c db ws) = false) ->
    L_expr lit cls e u.
Proof. exact HopcroftAny.final_expr_sound_with_merge. Qed.

Theorem C01_sound_with_merge : forall (lit cls : cp -> cp -> Prop) c db sc ws e t,
  ws <> [] ->
  oracle_ok db (normalise c db ws) ->
  Pipeline.final_expr c (grapheme_clusters c db (normalise c db ws)) sc = Some e ->
  In t ws ->
  let t' := if f_ci c then lower' db t else t in
  (t' <> [] \/ K4 (normalise c db ws) = false) ->
  Spec_str lit cls c t' t' ->
  L_expr lit cls e t'.
Proof. exact HopcroftAny.sound_expr_with_merge. Qed.

(* (j) END TO END WITHOUT no_merge: the statements of (f) for every input, merged trie edges
       or not.  (f) goes through "the language of the final expression IS the specification",
       which fails with merged edges (K1); soundness only needs (i), the parsed AST of the
       printed pattern (top_rast) and its language. *)
Theorem C01_build_parse_sound_any : forall isd is_ws c db sc ws s,
  f_ci c = false ->
  ws <> [] ->
  Forall (Forall scalar) ws ->
  oracle_ok db (normalise c db ws) ->
  printable c -> f_verbose c = false -> ws_ok is_ws ->
  build isd c db sc ws = Some s ->
  exists fl r, parse is_ws s = Some (fl, r) /\ fl_i fl = false /\ fl_x fl = false
    /\ forall t, In t ws -> (t <> [] \/ K4 (normalise c db ws) = false) ->
         L_rast lit_cs cls_engine r t.
Proof. exact EndToEndMerge.build_sound_cs_any_nv. Qed.

Theorem C01_build_parse_sound_any_verbose : forall isd is_ws c db sc ws s,
  f_ci c = false ->
  ws <> [] ->
  Forall (Forall scalar) ws ->
  oracle_ok db (normalise c db ws) ->
  printable c -> f_verbose c = true -> ws_x is_ws ->
  build isd c db sc ws = Some s ->
  exists fl r, parse is_ws s = Some (fl, r) /\ fl_i fl = false /\ fl_x fl = true
    /\ forall t, In t ws -> (t <> [] \/ K4 (normalise c db ws) = false) ->
         L_rast lit_cs cls_engine r t.
Proof. exact EndToEndMerge.build_sound_cs_any_v. Qed.

Theorem C01_build_parse_sound_any_ci : forall isd is_ws c db sc ws s,
  f_ci c = true ->
  ws <> [] ->
  Forall (Forall scalar) ws ->
  (forall s0, In s0 ws -> Forall scalar (lower' db s0)) ->
  oracle_ok db (normalise c db ws) ->
  printable c -> f_verbose c = false -> ws_ok is_ws ->
  build isd c db sc ws = Some s ->
  exists fl r, parse is_ws s = Some (fl, r) /\ fl_i fl = true /\ fl_x fl = false
    /\ forall t, In t ws ->
         lower' db t = map lower1 t ->
         Forall (fun x => mem_cp x skew_set = false) t ->
         (t <> [] \/ K4 (normalise c db ws) = false) ->
         L_rast lit_ci cls_engine r t.
Proof. exact EndToEndMerge.build_sound_ci_any_nv. Qed.

Theorem C01_build_parse_sound_any_ci_verbose : forall isd is_ws c db sc ws s,
  f_ci c = true ->
  ws <> [] ->
  Forall (Forall scalar) ws ->
  (forall s0, In s0 ws -> Forall scalar (lower' db s0)) ->
  oracle_ok db (normalise c db ws) ->
  printable c -> f_verbose c = true -> ws_x is_ws ->
  build isd c db sc ws = Some s ->
  exists fl r, parse is_ws s = Some (fl, r) /\ fl_i fl = true /\ fl_x fl = true
    /\ forall t, In t ws ->
         lower' db t = map lower1 t ->
         Forall (fun x => mem_cp x skew_set = false) t ->
         (t <> [] \/ K4 (normalise c db ws) = false) ->
         L_rast lit_ci cls_engine r t.
Proof. exact EndToEndMerge.build_sound_ci_any_v. Qed.

(* non-vacuity of (g): "ab" "abbb" "cb" "cbb" "cbbb" with repetition conversion merges an
   edge (c -b{1,3}->) and passes the certificate; "xbba" "xbcc" "ybba" "ybbcc" "ybcc" (the
   witness of the former smaller-half defect of minimize) passes it too although its trie is
   not symbol-deterministic *)
Example C01_merge_cert_example :
  no_merge (grapheme_clusters MergeSound.Sanity.c_rep []
              (normalise MergeSound.Sanity.c_rep [] MergeSound.Sanity.ws1)) = false
  /\ MergeSound.merge_cert (grapheme_clusters MergeSound.Sanity.c_rep []
              (normalise MergeSound.Sanity.c_rep [] MergeSound.Sanity.ws1)) = true
  /\ HopcroftSym.merge_detb (grapheme_clusters MergeSound.Sanity.c_rep []
              (normalise MergeSound.Sanity.c_rep [] MergeSound.Sanity.ws1)) = true
  /\ MergeSound.merge_cert (grapheme_clusters MergeSound.Sanity.c_rep []
              (normalise MergeSound.Sanity.c_rep [] MergeSound.Sanity.ws2)) = true
  /\ HopcroftSym.merge_detb (grapheme_clusters MergeSound.Sanity.c_rep []
              (normalise MergeSound.Sanity.c_rep [] MergeSound.Sanity.ws2)) = false.
Proof. vm_compute. repeat split. Qed.

Print Assumptions C01_sound_expr.
Print Assumptions C01_self_accept.
Print Assumptions C01_self_accept_ci.
Print Assumptions C01_sound_case_sensitive.
Print Assumptions C01_ci_original_codepoint.
Print Assumptions C01_ci_original.
Print Assumptions C01_trie_sound_with_merge.
Print Assumptions C01_total.
Print Assumptions C01_build_parse_sound.
Print Assumptions C01_build_parse_sound_verbose.
Print Assumptions C01_build_parse_sound_ci.
Print Assumptions C01_build_parse_sound_ci_verbose.
Print Assumptions C01_spec_sound_with_merge_cert.
Print Assumptions C01_sound_with_merge_cert.
Print Assumptions C01_spec_sound_symdet.
Print Assumptions C01_sound_symdet.
Print Assumptions C01_spec_sound_with_merge.
Print Assumptions C01_sound_with_merge.
Print Assumptions C01_build_parse_sound_any.
Print Assumptions C01_build_parse_sound_any_verbose.
Print Assumptions C01_build_parse_sound_any_ci.
Print Assumptions C01_build_parse_sound_any_ci_verbose.

(* NON-VACUITY (Proofs/NonVacuity.v, world W2m): the hypotheses of C01_sound_with_merge are
   satisfiable IN THE WIDENING REGION (no_merge = false): for ["ba","bb"] with repetition
   conversion the model computes b{1,2}a? (known finding K1: it over-matches) and the theorem
   applies: both test cases are accepted, for every denotation of literals and classes. *)
From Grex Require Proofs.NonVacuity.
Theorem C01_nonvacuous : exists e s,
  NonVacuity.world_ok NonVacuity.c_W2m NonVacuity.db_W2m SCPass1 NonVacuity.ws_W2m false e s
  /\ (forall (lit cls : cp -> cp -> Prop) t, In t NonVacuity.ws_W2m ->
        Spec_str lit cls NonVacuity.c_W2m t t -> L_expr lit cls e t).
Proof.
  pose proof NonVacuity.W2m as W. do 2 eexists. split; [exact W|].
  intros lit cls t Hin Hs.
  exact (C01_sound_with_merge lit cls _ _ _ _ _ t
           (NonVacuity.w_nonempty _ _ _ _ _ _ _ W) (NonVacuity.w_oracle _ _ _ _ _ _ _ W)
           (NonVacuity.w_expr _ _ _ _ _ _ _ W) Hin (or_intror NonVacuity.W2m_K4) Hs).
Qed.
Print Assumptions C01_nonvacuous.

(* CLOSED BUILD (Proofs/ClosedBuild.v): no free self-check input and no "if it returns" -- the model with
   the self-check computed inside RETURNS a pattern, the parser model accepts it and it matches every test
   case; trie widening included.  PARTIAL in the sense of Props/C08.v C08_selfcheck_admissible_partial:
   non-verbose mode, candidate without raw VT/FF, case-sensitive. *)
From Grex Require Proofs.ClosedBuild Proofs.SelfCheckTotal Proofs.SelfCheckVerbose Model.SelfCheck.
Theorem C01_closed_build_total_sound_partial : forall isd is_ws,
  ColourStripBase.digit_ok isd -> ws_ok is_ws ->
  forall c db ws,
    let tcs := normalise c db ws in
    let cls := grapheme_clusters c db tcs in
    f_ci c = false ->
    ws <> [] -> Forall (Forall scalar) ws -> oracle_ok db tcs ->
    printable c -> f_verbose c = false ->
    (forall e1, SelfCheckTotal.cand1 c cls = Some e1 -> SelfCheckTotal.no_vf (SelfCheck.cand_str isd c e1)) ->
    exists s fl r, SelfCheck.build_closed isd is_ws c db ws = Some s
      /\ parse is_ws s = Some (fl, r) /\ fl_i fl = false /\ fl_x fl = false
      /\ forall t, In t ws -> (t <> [] \/ K4 tcs = false) -> L_rast lit_cs cls_engine r t.
Proof. exact ClosedBuild.closed_build_total_sound. Qed.
Print Assumptions C01_closed_build_total_sound_partial.

(* the same in verbose mode: "(?x)..." parses under the x flag (Proofs/ClosedBuild.v, SelfCheckVerbose.v) *)
Theorem C01_closed_build_total_sound_verbose_partial : forall isd is_ws,
  ColourStripBase.digit_ok isd -> ws_ok is_ws ->
  forall c db ws,
    let tcs := normalise c db ws in
    let cls := grapheme_clusters c db tcs in
    f_ci c = false ->
    ws <> [] -> Forall (Forall scalar) ws -> oracle_ok db tcs ->
    printable c -> f_verbose c = true -> ws_x is_ws ->
    (forall e1, SelfCheckTotal.cand1 c cls = Some e1 -> SelfCheckTotal.no_vf (SelfCheckVerbose.cand_nv c e1)) ->
    exists s fl r, SelfCheck.build_closed isd is_ws c db ws = Some s
      /\ parse is_ws s = Some (fl, r) /\ fl_i fl = false /\ fl_x fl = true
      /\ forall t, In t ws -> (t <> [] \/ K4 tcs = false) -> L_rast lit_cs cls_engine r t.
Proof. exact ClosedBuild.closed_build_total_sound_verbose. Qed.
Print Assumptions C01_closed_build_total_sound_verbose_partial.
