(* C02 *)
From Grex Require Import Base.Str.
