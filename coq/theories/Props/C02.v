(* C02 — with the default settings the generated expression accepts nothing but the test cases.

   "Default settings": no class conversion, no case-insensitive matching, no repetition
   conversion; the presentation settings (verbose, capturing groups, escaping, anchors,
   colour) are arbitrary.  cls is arbitrary: no class token occurs. *)
From Grex Require Import Base.Str Model.Config Model.Cluster Model.Dfa Model.Expr Model.Pipeline.
From Grex Require Import Proofs.Lang Proofs.Spec Proofs.ClustersSpec Proofs.EngineDen
  Proofs.QuotientLang Proofs.PropsGlue.

(* the language is exactly the set of test cases (K4: the empty test case next to a non-empty
   one may be lost; nothing is ever added) *)
Theorem C02_exact : forall (cls : cp -> cp -> Prop) c db sc ws e,
  f_digit c = false /\ f_non_digit c = false /\ f_space c = false /\
  f_non_space c = false /\ f_word c = false /\ f_non_word c = false ->
  f_ci c = false -> f_rep c = false ->
  ws <> [] ->
  oracle_ok db (normalise c db ws) ->
  Pipeline.final_expr c (grapheme_clusters c db (normalise c db ws)) sc = Some e ->
  (forall u, (u <> [] \/ K4 (normalise c db ws) = false) -> (L_expr lit_cs cls e u <-> In u ws))
  /\ (L_expr lit_cs cls e [] -> In [] ws).
Proof. exact exact_default. Qed.

(* the specification language of the default settings is the set of test cases *)
Theorem C02_spec_plain : forall (cls : cp -> cp -> Prop) c db ws u,
  f_digit c = false /\ f_non_digit c = false /\ f_space c = false /\
  f_non_space c = false /\ f_word c = false /\ f_non_word c = false ->
  f_ci c = false ->
  (Spec lit_cs cls c db ws u <-> In u ws).
Proof. exact Spec_plain. Qed.

(* the minimised automaton is deterministic and has no two states with the same right
   language (over grapheme labels): it is the minimal deterministic automaton *)
Theorem C02_minimal_deterministic : forall c db ws t d',
  f_rep c = false ->
  ws <> [] ->
  oracle_ok db (normalise c db ws) ->
  ~ In [] ws ->
  trie_of (grapheme_clusters c db (normalise c db ws)) = Some t ->
  minimize t = Some d' ->
  deterministic d'
  /\ (forall i j, i < d_n d' -> j < d_n d' ->
        (forall w, Lw_from d' i w <-> Lw_from d' j w) -> i = j).
Proof. exact minimal_deterministic_default. Qed.

Print Assumptions C02_exact.
Print Assumptions C02_spec_plain.
Print Assumptions C02_minimal_deterministic.
