(* C02 — with the default settings the generated expression accepts nothing but the test cases.

   "Default settings": no class conversion, no case-insensitive matching, no repetition
   conversion; the presentation settings (verbose, capturing groups, escaping, anchors,
   colour) are arbitrary.  cls is arbitrary: no class token occurs. *)
From Grex Require Import Base.Str Model.Config Model.Cluster Model.Dfa Model.Expr Model.Pipeline.
From Grex Require Import Proofs.Lang Proofs.Spec Proofs.ClustersSpec Proofs.EngineDen
  Proofs.QuotientLang Proofs.PropsGlue.
From Grex Require Import Engine.Syntax Engine.Parse Engine.Sem.
From Grex Require Import Proofs.PrintParseNum Proofs.PrintParseDefs Proofs.PrintParseXTok
  Proofs.PropsGlueE2E.

(* the language is exactly the set of test cases (K4: the empty test case next to a non-empty
   one may be lost; nothing is ever added) *)
Theorem C02_exact : forall (cls : cp -> cp -> Prop) c db sc ws e,
  f_digit c = false /\ f_non_digit c = false /\ f_space c = false /\
  f_non_space c = false /\ f_word c = false /\ f_non_word c = false ->
  f_ci c = false -> f_rep c = false ->
  ws <> [] ->
  oracle_ok db (normalise c db ws) ->
  Pipeline.final_expr c (grapheme_clusters c db (normalise c db ws)) sc = Some e ->
  (forall u, (u <> [] \/ K4 (normalise c db ws) = false) -> (L_expr lit_cs cls e u <-> In u ws))
  /\ (L_expr lit_cs cls e [] -> In [] ws).
Proof. exact exact_default. Qed.

(* the specification language of the default settings is the set of test cases *)
Theorem C02_spec_plain : forall (cls : cp -> cp -> Prop) c db ws u,
  f_digit c = false /\ f_non_digit c = false /\ f_space c = false /\
  f_non_space c = false /\ f_word c = false /\ f_non_word c = false ->
  f_ci c = false ->
  (Spec lit_cs cls c db ws u <-> In u ws).
Proof. exact Spec_plain. Qed.

(* the minimised automaton is deterministic and has no two states with the same right
   language (over grapheme labels): it is the minimal deterministic automaton *)
Theorem C02_minimal_deterministic : forall c db ws t d',
  f_rep c = false ->
  ws <> [] ->
  oracle_ok db (normalise c db ws) ->
  ~ In [] ws ->
  trie_of (grapheme_clusters c db (normalise c db ws)) = Some t ->
  minimize t = Some d' ->
  deterministic d'
  /\ (forall i j, i < d_n d' -> j < d_n d' ->
        (forall w, Lw_from d' i w <-> Lw_from d' j w) -> i = j).
Proof. exact minimal_deterministic_default. Qed.

(* END TO END, at the string level (notions: Props/C01.v (f)): with the default settings the
   string returned by build is accepted by the model of the regex crate's parser, without the
   i flag, and the parsed pattern matches, among the haystacks of Unicode scalar values,
   exactly the test cases (K4: the empty one may be lost).  No no_merge hypothesis.
   (Haystacks of the regex crate are strings, i.e. sequences of scalar values; the restriction
   is needed because a class that contains both U+D7FF and U+E000 prints as a range.) *)
Theorem C02_build_exact : forall (cls : cp -> cp -> Prop) isd is_ws c db sc ws s,
  f_digit c = false /\ f_non_digit c = false /\ f_space c = false /\
  f_non_space c = false /\ f_word c = false /\ f_non_word c = false ->
  f_ci c = false -> f_rep c = false ->
  ws <> [] ->
  Forall (Forall scalar) ws ->
  oracle_ok db (normalise c db ws) ->
  printable c -> f_verbose c = false -> ws_ok is_ws ->
  build isd c db sc ws = Some s ->
  exists fl r, parse is_ws s = Some (fl, r) /\ fl_i fl = false /\ fl_x fl = false
    /\ (forall u, Forall scalar u -> (u <> [] \/ K4 (normalise c db ws) = false) ->
          (L_rast lit_cs cls r u <-> In u ws))
    /\ (L_rast lit_cs cls r [] -> In [] ws).
Proof. exact build_exact_default_nv. Qed.

Theorem C02_build_exact_verbose : forall (cls : cp -> cp -> Prop) isd is_ws c db sc ws s,
  f_digit c = false /\ f_non_digit c = false /\ f_space c = false /\
  f_non_space c = false /\ f_word c = false /\ f_non_word c = false ->
  f_ci c = false -> f_rep c = false ->
  ws <> [] ->
  Forall (Forall scalar) ws ->
  oracle_ok db (normalise c db ws) ->
  printable c -> f_verbose c = true -> ws_x is_ws ->
  build isd c db sc ws = Some s ->
  exists fl r, parse is_ws s = Some (fl, r) /\ fl_i fl = false /\ fl_x fl = true
    /\ (forall u, Forall scalar u -> (u <> [] \/ K4 (normalise c db ws) = false) ->
          (L_rast lit_cs cls r u <-> In u ws))
    /\ (L_rast lit_cs cls r [] -> In [] ws).
Proof. exact build_exact_default_v. Qed.

Print Assumptions C02_exact.
Print Assumptions C02_spec_plain.
Print Assumptions C02_minimal_deterministic.
Print Assumptions C02_build_exact.
Print Assumptions C02_build_exact_verbose.

(* NON-VACUITY (Proofs/NonVacuity.v, world W1): the hypotheses of C02_exact and C02_build_exact are
   jointly satisfiable, and on that input the theorems say what one expects: for the test cases
   ["ab","ac"] with default settings the model computes the expression a[bc] and the string
   ^a[bc]$; its language is exactly {ab, ac}, for the expression and for the parsed string. *)
From Grex Require Proofs.NonVacuity.
Theorem C02_nonvacuous : exists e s,
  NonVacuity.world_ok default_cfg NonVacuity.db1 SCPass1 NonVacuity.ws1 true e s
  /\ (forall (cls : cp -> cp -> Prop) u, L_expr lit_cs cls e u <-> In u NonVacuity.ws1)
  /\ (exists fl r, parse NonVacuity.is_ws_std s = Some (fl, r) /\ fl_i fl = false /\ fl_x fl = false
        /\ forall (cls : cp -> cp -> Prop) u, Forall scalar u -> (L_rast lit_cs cls r u <-> In u NonVacuity.ws1)).
Proof.
  pose proof NonVacuity.W1 as W. do 2 eexists. split; [exact W|]. split.
  - intros cls u.
    exact (proj1 (C02_exact cls _ _ _ _ _ NonVacuity.W1_default eq_refl eq_refl
                    (NonVacuity.w_nonempty _ _ _ _ _ _ _ W) (NonVacuity.w_oracle _ _ _ _ _ _ _ W)
                    (NonVacuity.w_expr _ _ _ _ _ _ _ W)) u (or_intror NonVacuity.W1_K4)).
  - destruct (C02_build_exact (fun _ _ => False) NonVacuity.isd NonVacuity.is_ws_std _ _ _ _ _ NonVacuity.W1_default eq_refl eq_refl
                    (NonVacuity.w_nonempty _ _ _ _ _ _ _ W) (NonVacuity.w_scalar _ _ _ _ _ _ _ W)
                    (NonVacuity.w_oracle _ _ _ _ _ _ _ W) NonVacuity.W1_printable eq_refl NonVacuity.ws_ok_std
                    (NonVacuity.w_build _ _ _ _ _ _ _ W)) as (fl & r & P & I & X & _).
    exists fl, r. split; [exact P|]. split; [exact I|]. split; [exact X|]. intros cls u Hu.
    destruct (C02_build_exact cls NonVacuity.isd NonVacuity.is_ws_std _ _ _ _ _ NonVacuity.W1_default eq_refl eq_refl
                    (NonVacuity.w_nonempty _ _ _ _ _ _ _ W) (NonVacuity.w_scalar _ _ _ _ _ _ _ W)
                    (NonVacuity.w_oracle _ _ _ _ _ _ _ W) NonVacuity.W1_printable eq_refl NonVacuity.ws_ok_std
                    (NonVacuity.w_build _ _ _ _ _ _ _ W)) as (fl' & r' & P' & _ & _ & A & _).
    rewrite P in P'. injection P' as <- <-. exact (A u Hu (or_intror NonVacuity.W1_K4)).
Qed.
Print Assumptions C02_nonvacuous.

(* CLOSED BUILD (Proofs/ClosedBuild.v): with default-like settings the model with the self-check computed
   inside returns a pattern whose language is exactly the test cases -- no free input, no "if it returns".
   PARTIAL as Props/C08.v C08_selfcheck_admissible_partial: non-verbose, candidate without raw VT/FF. *)
From Grex Require Proofs.ClosedBuild Proofs.SelfCheckTotal Proofs.SelfCheckVerbose Model.SelfCheck.
Theorem C02_closed_build_total_exact_partial : forall isd is_ws,
  ColourStripBase.digit_ok isd -> ws_ok is_ws ->
  forall (cls0 : cp -> cp -> Prop) c db ws,
    let tcs := normalise c db ws in
    let cls := grapheme_clusters c db tcs in
    f_digit c = false /\ f_non_digit c = false /\ f_space c = false /\
    f_non_space c = false /\ f_word c = false /\ f_non_word c = false ->
    f_ci c = false -> f_rep c = false ->
    ws <> [] -> Forall (Forall scalar) ws -> oracle_ok db tcs ->
    printable c -> f_verbose c = false ->
    (forall e1, SelfCheckTotal.cand1 c cls = Some e1 -> SelfCheckTotal.no_vf (SelfCheck.cand_str isd c e1)) ->
    exists s fl r, SelfCheck.build_closed isd is_ws c db ws = Some s
      /\ parse is_ws s = Some (fl, r) /\ fl_i fl = false /\ fl_x fl = false
      /\ (forall u, Forall scalar u -> (u <> [] \/ K4 tcs = false) -> (L_rast lit_cs cls0 r u <-> In u ws))
      /\ (L_rast lit_cs cls0 r [] -> In [] ws).
Proof. exact ClosedBuild.closed_build_total_exact. Qed.
Print Assumptions C02_closed_build_total_exact_partial.

Theorem C02_closed_build_total_exact_verbose_partial : forall isd is_ws,
  ColourStripBase.digit_ok isd -> ws_ok is_ws ->
  forall (cls0 : cp -> cp -> Prop) c db ws,
    let tcs := normalise c db ws in
    let cls := grapheme_clusters c db tcs in
    f_digit c = false /\ f_non_digit c = false /\ f_space c = false /\
    f_non_space c = false /\ f_word c = false /\ f_non_word c = false ->
    f_ci c = false -> f_rep c = false ->
    ws <> [] -> Forall (Forall scalar) ws -> oracle_ok db tcs ->
    printable c -> f_verbose c = true -> ws_x is_ws ->
    (forall e1, SelfCheckTotal.cand1 c cls = Some e1 -> SelfCheckTotal.no_vf (SelfCheckVerbose.cand_nv c e1)) ->
    exists s fl r, SelfCheck.build_closed isd is_ws c db ws = Some s
      /\ parse is_ws s = Some (fl, r) /\ fl_i fl = false /\ fl_x fl = true
      /\ (forall u, Forall scalar u -> (u <> [] \/ K4 tcs = false) -> (L_rast lit_cs cls0 r u <-> In u ws))
      /\ (L_rast lit_cs cls0 r [] -> In [] ws).
Proof. exact ClosedBuild.closed_build_total_exact_verbose. Qed.
Print Assumptions C02_closed_build_total_exact_verbose_partial.
