(* C10 *)
From Grex Require Import Base.Str.
