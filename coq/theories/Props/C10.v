(* C10 — the output is a deterministic function of the SET of test cases and the settings:
   order and multiplicity of test cases, the order of (compatible) setter calls, builds in
   between, and cloning are irrelevant.

   brun isd db sc st ops runs a history of builder operations (OSet s / OBuild) from state st
   and returns the final state and the outputs of the builds (Model/History.v); `expected` is
   the specification: the output of each build is the build of the ORIGINAL test cases with
   the settings accumulated so far.  Hypothesis on the oracle: lower-casing is idempotent. *)
From Coq Require Import Permutation.
From Grex Require Import Base.Str Model.Config Model.Builder Model.Cluster Model.Expr
  Model.Pipeline Model.History.
From Grex Require Import Proofs.NormaliseDet Proofs.Wrappers Proofs.PropsGlue.
From GrexGen Require Import SrcBuilder.
From Grex Require Model.SelfCheck Proofs.SelfCheckProps.

Theorem C10_perm : forall isd c db sc ws1 ws2,
  (forall x, In x ws1 <-> In x ws2) -> build isd c db sc ws1 = build isd c db sc ws2.
Proof. exact build_perm. Qed.

Theorem C10_dup : forall isd c db sc ws,
  build isd c db sc (ws ++ ws) = build isd c db sc ws.
Proof. exact build_dup. Qed.

Theorem C10_permutation : forall isd c db sc ws1 ws2,
  Permutation ws1 ws2 -> build isd c db sc ws1 = build isd c db sc ws2.
Proof. exact build_permutation. Qed.

(* any history starting from the default settings *)
Theorem C10_history : forall (isd : cp -> bool) (db : odb) (sc : cfg -> list str -> selfcheck),
  (forall s, lower' db (lower' db s) = lower' db s) ->
  forall ops ws st outs,
  brun isd db sc (mkB ws src_default_cfg) ops = Some (st, outs) ->
  outs = expected isd db sc ws src_default_cfg ops
  /\ cfg_after src_default_cfg ops = Some (b_cfg st)
  /\ b_tcs st = tcs_after db ws src_default_cfg ops.
Proof. exact Wrappers.C10_history. Qed.

(* builds in between do not influence later builds *)
Theorem C10_builds_in_between : forall (isd : cp -> bool) (db : odb) (sc : cfg -> list str -> selfcheck),
  (forall s, lower' db (lower' db s) = lower' db s) ->
  forall ws c ops st outs st' outs',
  brun isd db sc (mkB ws c) (ops ++ [OBuild]) = Some (st, outs) ->
  brun isd db sc (mkB ws c) (strip_builds ops ++ [OBuild]) = Some (st', outs') ->
  b_cfg st = b_cfg st' /\ b_tcs st = b_tcs st' /\ (exists pre, outs = pre ++ outs').
Proof. exact builds_in_between_irrelevant. Qed.

(* a clone behaves like the original; a clone taken after builds like one taken before *)
Theorem C10_clone : forall (isd : cp -> bool) (db : odb) (sc : cfg -> list str -> selfcheck)
  (st clone : bstate) (ops : list bop),
  clone = st -> brun isd db sc clone ops = brun isd db sc st ops.
Proof. exact clone_same. Qed.

Theorem C10_clone_after_build : forall (isd : cp -> bool) (db : odb) (sc : cfg -> list str -> selfcheck),
  (forall s, lower' db (lower' db s) = lower' db s) ->
  forall ws c ops1 ops2 st1 o1 st1' o1' st2 o2 st2' o2',
  brun isd db sc (mkB ws c) ops1 = Some (st1, o1) ->
  brun isd db sc (mkB ws c) (strip_builds ops1) = Some (st1', o1') ->
  brun isd db sc st1 ops2 = Some (st2, o2) ->
  brun isd db sc st1' ops2 = Some (st2', o2') ->
  o2 = o2' /\ b_cfg st2 = b_cfg st2'.
Proof. exact clone_after_build_same. Qed.

(* exactly the compatible pairs of setters commute (two setters are incompatible only if they
   write the same field with different values, or both panic) *)
Theorem C10_setters_commute : forall s1 s2,
  compatible s1 s2 = true <-> (forall c, then2 s1 s2 c = then2 s2 s1 c).
Proof. exact setters_commute_iff. Qed.

Theorem C10_setters_commute_distinct : forall s1 s2 c c12,
  same_method s1 s2 = false -> then2 s1 s2 c = inl c12 -> then2 s2 s1 c = inl c12.
Proof. exact setters_commute_distinct. Qed.

Theorem C10_setter_idempotent : forall s c,
  bind_cfg (apply_setter s c) (apply_setter s) = apply_setter s c.
Proof. exact setter_idem. Qed.

(* normalising twice is normalising once *)
Theorem C10_idempotent_normalise : forall c db ws,
  (forall s, In s ws -> lower' db (lower' db s) = lower' db s) ->
  normalise c db (normalise c db ws) = normalise c db ws.
Proof. exact normalise_idem. Qed.

(* with the self-check computed inside the model (Model/SelfCheck.v) build has NO input besides the
   configuration, the oracle data and the test cases, and it reads the test cases only through their
   normal form: permutations and duplicates of the list cannot matter to the self-check either *)
Theorem C10_closed_build_normal : forall isd is_ws c db ws ws',
  normalise c db ws = normalise c db ws' ->
  SelfCheck.build_closed isd is_ws c db ws = SelfCheck.build_closed isd is_ws c db ws'.
Proof. exact SelfCheckProps.build_closed_normal. Qed.

Theorem C10_closed_build_perm : forall isd is_ws c db ws1 ws2,
  (forall x, In x ws1 <-> In x ws2) ->
  SelfCheck.build_closed isd is_ws c db ws1 = SelfCheck.build_closed isd is_ws c db ws2.
Proof. exact SelfCheckProps.build_closed_perm. Qed.

Print Assumptions C10_perm.
Print Assumptions C10_dup.
Print Assumptions C10_permutation.
Print Assumptions C10_history.
Print Assumptions C10_builds_in_between.
Print Assumptions C10_clone.
Print Assumptions C10_clone_after_build.
Print Assumptions C10_setters_commute.
Print Assumptions C10_setters_commute_distinct.
Print Assumptions C10_setter_idempotent.
Print Assumptions C10_idempotent_normalise.
Print Assumptions C10_closed_build_normal.
Print Assumptions C10_closed_build_perm.
