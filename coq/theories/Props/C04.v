(* C04 — case-insensitive matching.

   grex lower-cases the test cases (when that preserves the number of code points) and prints
   (?i); the engine then accepts, for a literal a, every member of the simple case folding
   class fold_class a (lit_ci).  fold_eq a b := In b (fold_class a).  skew_set is the list of
   code points whose lower-casing leaves their folding class (known finding K3). *)
From Grex Require Import Base.Str Base.Ranges Model.Config Model.Cluster Model.Dfa Model.Expr
  Model.Print Model.Pipeline.
From Grex Require Import Proofs.Lang Proofs.Spec Proofs.FoldTables Proofs.EngineDen
  Proofs.Construction Proofs.PropsGlue.
From Grex Require Import Engine.Syntax Engine.Parse Engine.Sem.
From Grex Require Import Proofs.PrintParseNum Proofs.PrintParseDefs Proofs.PrintParseXTok
  Proofs.PropsGlueE2E.
From GrexGen Require Import OracleTables.

Theorem C04_lower_in_fold_class : forall c,
  mem_cp c skew_set = false -> fold_eq c (lower1 c) /\ fold_eq (lower1 c) c.
Proof. exact lower_in_fold_class. Qed.

Theorem C04_fold_equivalence :
  (forall a, fold_eq a a)
  /\ (forall a b, fold_eq a b -> fold_eq b a)
  /\ (forall a b c, fold_eq a b -> fold_eq b c -> fold_eq a c).
Proof. exact (conj fold_eq_refl (conj fold_eq_sym fold_eq_trans)). Qed.

(* the skew set is exactly the set of code points that the printed literal does not accept *)
Theorem C04_skew_exact : forall c, mem_cp c skew_set = true <-> ~ fold_eq (lower1 c) c.
Proof. exact skew_iff. Qed.

(* the shorthand classes are unions of folding classes: (?i) does not change them *)
Theorem C04_classes_fold_invariant : forall c m, In m (fold_class c) ->
  mem engine_d m = mem engine_d c /\ mem engine_w m = mem engine_w c /\ mem engine_s m = mem engine_s c.
Proof.
  intros c m H. exact (conj (engine_d_fold_invariant c m H)
                      (conj (engine_w_fold_invariant c m H) (engine_s_fold_invariant c m H))).
Qed.

(* test cases with the same lower-casing are one normalised entry *)
Theorem C04_collapse : forall c db ws t1 t2,
  f_ci c = true -> In t1 ws -> lower' db t1 = lower' db t2 ->
  normalise c db (t2 :: ws) = normalise c db ws.
Proof. exact ci_collapse. Qed.

(* the printed pattern starts with (?i), in verbose mode with (?ix) *)
Theorem C04_flag : forall isd c e,
  f_ci c = true -> f_colour c = false ->
  (f_verbose c = false -> starts_with [40; 63; 105; 41]%N (regexp_str isd c e) = true)
  /\ (f_verbose c = true -> starts_with [40; 63; 105; 120; 41]%N (regexp_str isd c e) = true).
Proof.
  intros isd c e Hci Hc. split; intros Hv.
  - exact (ci_flag_plain isd c e Hci Hv Hc).
  - exact (ci_flag_verbose isd c e Hci Hv Hc).
Qed.

(* the expression denotes the specification under the (?i) denotation of literals *)
Theorem C04_exact : forall c db sc ws e,
  ws <> [] ->
  oracle_ok db (normalise c db ws) ->
  no_merge (grapheme_clusters c db (normalise c db ws)) = true ->
  Pipeline.final_expr c (grapheme_clusters c db (normalise c db ws)) sc = Some e ->
  (forall u, (u <> [] \/ K4 (normalise c db ws) = false) ->
     (L_expr lit_ci cls_engine e u <-> Spec lit_ci cls_engine c db ws u))
  /\ (L_expr lit_ci cls_engine e [] -> Spec lit_ci cls_engine c db ws []).
Proof. exact (construction_lang lit_ci cls_engine). Qed.

(* the shorthand classes mean the same with and without (?i): case-folding a class (all x that
   fold to a member) gives the class itself -- all six classes, the negated ones included *)
Theorem C04_classes_ci_same : forall l x,
  (exists y, cls_engine l y /\ fold_eq y x) <-> cls_engine l x.
Proof. exact cls_engine_ci_same_den. Qed.

(* END TO END, at the string level (notions: Props/C01.v (f)): the string returned by a
   case-insensitive build parses with the i flag, and on haystacks of Unicode scalar values
   the parsed pattern matches, under the (?i) denotation of literals, exactly the
   specification language.  (Simple case folding never relates a surrogate value and a scalar
   value: nothing is asked of the denotation.) *)
Theorem C04_build_ci : forall isd is_ws c db sc ws s,
  f_ci c = true ->
  ws <> [] ->
  Forall (Forall scalar) ws ->
  (forall s0, In s0 ws -> Forall scalar (lower' db s0)) ->
  oracle_ok db (normalise c db ws) ->
  printable c -> f_verbose c = false -> ws_ok is_ws ->
  no_merge (grapheme_clusters c db (normalise c db ws)) = true ->
  build isd c db sc ws = Some s ->
  exists fl r, parse is_ws s = Some (fl, r) /\ fl_i fl = true /\ fl_x fl = false
    /\ (forall u, Forall scalar u -> (u <> [] \/ K4 (normalise c db ws) = false) ->
          (L_rast lit_ci cls_engine r u <-> Spec lit_ci cls_engine c db ws u))
    /\ (L_rast lit_ci cls_engine r [] -> Spec lit_ci cls_engine c db ws []).
Proof. exact build_classes_ci_nv. Qed.

Theorem C04_build_ci_verbose : forall isd is_ws c db sc ws s,
  f_ci c = true ->
  ws <> [] ->
  Forall (Forall scalar) ws ->
  (forall s0, In s0 ws -> Forall scalar (lower' db s0)) ->
  oracle_ok db (normalise c db ws) ->
  printable c -> f_verbose c = true -> ws_x is_ws ->
  no_merge (grapheme_clusters c db (normalise c db ws)) = true ->
  build isd c db sc ws = Some s ->
  exists fl r, parse is_ws s = Some (fl, r) /\ fl_i fl = true /\ fl_x fl = true
    /\ (forall u, Forall scalar u -> (u <> [] \/ K4 (normalise c db ws) = false) ->
          (L_rast lit_ci cls_engine r u <-> Spec lit_ci cls_engine c db ws u))
    /\ (L_rast lit_ci cls_engine r [] -> Spec lit_ci cls_engine c db ws []).
Proof. exact build_classes_ci_v. Qed.

Print Assumptions C04_lower_in_fold_class.
Print Assumptions C04_fold_equivalence.
Print Assumptions C04_skew_exact.
Print Assumptions C04_classes_fold_invariant.
Print Assumptions C04_collapse.
Print Assumptions C04_flag.
Print Assumptions C04_exact.
Print Assumptions C04_classes_ci_same.
Print Assumptions C04_build_ci.
Print Assumptions C04_build_ci_verbose.

(* NON-VACUITY (Proofs/NonVacuity.v, world W3): C04_exact and C04_build_ci applied to
   ["A1","a2"] with (?i) and digit conversion (the test case "A1" is lower-cased by the oracle
   data): the string (?i)^a\d$ parses with the i flag and denotes the specification language
   under simple case folding. *)
From Grex Require Proofs.NonVacuity.
Theorem C04_nonvacuous : exists e s,
  NonVacuity.world_ok NonVacuity.c_W3 NonVacuity.db_W3 SCPass1 NonVacuity.ws_W3 true e s
  /\ (forall u, L_expr lit_ci cls_engine e u <-> Spec lit_ci cls_engine NonVacuity.c_W3 NonVacuity.db_W3 NonVacuity.ws_W3 u)
  /\ (exists fl r, parse NonVacuity.is_ws_std s = Some (fl, r) /\ fl_i fl = true
        /\ forall u, Forall scalar u ->
             (L_rast lit_ci cls_engine r u <-> Spec lit_ci cls_engine NonVacuity.c_W3 NonVacuity.db_W3 NonVacuity.ws_W3 u)).
Proof.
  pose proof NonVacuity.W3 as W. do 2 eexists. split; [exact W|]. split.
  - intro u.
    exact (proj1 (C04_exact _ _ _ _ _ (NonVacuity.w_nonempty _ _ _ _ _ _ _ W) (NonVacuity.w_oracle _ _ _ _ _ _ _ W)
                    (NonVacuity.w_no_merge _ _ _ _ _ _ _ W) (NonVacuity.w_expr _ _ _ _ _ _ _ W)) u (or_intror NonVacuity.W3_K4)).
  - destruct (C04_build_ci NonVacuity.isd NonVacuity.is_ws_std NonVacuity.c_W3 NonVacuity.db_W3 SCPass1 NonVacuity.ws_W3 _ eq_refl
                (NonVacuity.w_nonempty _ _ _ _ _ _ _ W) (NonVacuity.w_scalar _ _ _ _ _ _ _ W) NonVacuity.W3_lower_scalar
                (NonVacuity.w_oracle _ _ _ _ _ _ _ W) NonVacuity.W3_printable eq_refl NonVacuity.ws_ok_std
                (NonVacuity.w_no_merge _ _ _ _ _ _ _ W) (NonVacuity.w_build _ _ _ _ _ _ _ W)) as (fl & r & P & I & _ & A & _).
    exists fl, r. split; [exact P|]. split; [exact I|]. intros u Hu. exact (A u Hu (or_intror NonVacuity.W3_K4)).
Qed.
Print Assumptions C04_nonvacuous.
