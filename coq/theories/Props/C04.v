(* C04 *)
From Grex Require Import Base.Str.
