(* C08 *)
From Grex Require Import Base.Str.
