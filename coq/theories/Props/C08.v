(* C08 — anchors: ^ and $ are printed unless disabled, and disabling them changes nothing
   else. *)
From Grex Require Import Base.Str Model.Config Model.Cluster Model.Dfa Model.Expr Model.Print
  Model.Pipeline.
From Grex Require Import Proofs.Lang Proofs.Spec Proofs.PrintShape Proofs.Construction
  Proofs.PropsGlue.
From Grex Require Import Engine.Syntax Engine.Parse Engine.Sem Engine.Exec Engine.Prio.
From Coq Require Import Sorted.
From Grex Require Import Proofs.PrioSound Proofs.PrioSearch Model.SelfCheck Proofs.SelfCheckProps.
From Grex Require Proofs.PrioK2.
From Grex Require Import Proofs.PrintParseNum Proofs.PrintParseDefs Proofs.PrintParseXTok
  Proofs.SearchProps Proofs.PropsGlueE2E.

(* non-verbose output: flag, optional ^, body, optional $; all four anchor settings share the
   same body *)
Theorem C08_anchors_syntax : forall isd c e s t,
  f_verbose c = false -> f_colour c = false ->
  regexp_str isd (set_anchors c s t) e =
  (if f_ci c then [40; 63; 105; 41]%N else []) ++
  (if s then [] else [94]%N) ++ body_str c e ++ (if t then [] else [36]%N).
Proof. exact regexp_str_anchors. Qed.

(* the printed body does not depend on the anchor settings *)
Theorem C08_body_invariant : forall c s t e, body_str (set_anchors c s t) e = body_str c e.
Proof. exact body_str_anchor_indep. Qed.

(* nor does the language of the generated expression (the expression itself may differ: with
   both anchors disabled the self-check may select another candidate) *)
Theorem C08_language_invariant : forall (lit cls : cp -> cp -> Prop) c s t db sc1 sc2 ws e1 e2,
  let c' := set_anchors c s t in
  ws <> [] ->
  oracle_ok db (normalise c db ws) ->
  no_merge (grapheme_clusters c db (normalise c db ws)) = true ->
  Pipeline.final_expr c (grapheme_clusters c db (normalise c db ws)) sc1 = Some e1 ->
  Pipeline.final_expr c' (grapheme_clusters c' db (normalise c' db ws)) sc2 = Some e2 ->
  forall u, (u <> [] \/ K4 (normalise c db ws) = false) ->
    (L_expr lit cls e1 u <-> L_expr lit cls e2 u).
Proof. exact anchors_language. Qed.

(* both anchors disabled and the minimised candidate rejected by the self-check (unminimised
   candidate or plain alternation): the language is exactly the specification, K4 included *)
Theorem C08_no_anchors_exact : forall (lit cls : cp -> cp -> Prop) c db sc ws e,
  ws <> [] ->
  oracle_ok db (normalise c db ws) ->
  no_merge (grapheme_clusters c db (normalise c db ws)) = true ->
  f_no_start c && f_no_end c = true -> sc = SCPass2 \/ sc = SCFail ->
  Pipeline.final_expr c (grapheme_clusters c db (normalise c db ws)) sc = Some e ->
  leq (L_expr lit cls e) (Spec lit cls c db ws).
Proof. exact construction_lang_exact. Qed.

(* verbose mode with the start anchor: the flag line is followed by the unindented ^ line *)
Theorem C08_verbose_caret : forall isd c e,
  f_verbose c = true -> f_colour c = false -> f_no_start c = false ->
  starts_with ((if f_ci c then [40; 63; 105; 120; 41]%N else [40; 63; 120; 41]%N) ++ [10; 94]%N)
              (regexp_str isd c e) = true.
Proof. exact regexp_str_verbose_flag_caret. Qed.

(* ---------- searching with the pattern (notions: Props/C01.v (f)) ----------

   m lit cls h r i j: the parsed pattern r matches the haystack h from position i to position
   j (Engine/Sem.v).  A leftmost search (regex `find`) reports some (i, j) with m h r i j where
   i is the least start admitting a match; which of the ends from i is a matter of priority,
   which the model does not have.  So "every search result is the whole haystack" is
     search_whole lit cls h r := forall i j, m h r i j /\ (forall i' j', i' < i -> ~ m h r i' j')
                                             -> i = 0 /\ j = length h        (SearchProps.v).
   top_rast c e is the AST that the printed pattern of e parses to (C16_print);
   proper_prefix p t := exists q, q <> [] /\ t = p ++ q. *)

(* with $: a test case that is matched in full is what every leftmost search reports *)
Theorem C08_search_with_dollar : forall (lit cls : cp -> cp -> Prop) c (e : expr) (t : str),
  f_no_end c = false ->
  m lit cls t (top_rast c e) 0 (length t) ->
  forall i j, m lit cls t (top_rast c e) i j ->
    (forall i' j', i' < i -> ~ m lit cls t (top_rast c e) i' j') ->
    i = 0%nat /\ j = length t.
Proof. exact search_with_dollar. Qed.

(* with ^: every match at all starts at 0 *)
Theorem C08_search_with_caret : forall (lit cls : cp -> cp -> Prop) c (e : expr) (t : str) i j,
  f_no_start c = false -> m lit cls t (top_rast c e) i j -> i = 0%nat.
Proof. exact search_with_caret. Qed.

(* with both: the only match at all is the whole haystack *)
Theorem C08_search_with_both : forall (lit cls : cp -> cp -> Prop) c (e : expr) (t : str) i j,
  f_no_start c = false -> f_no_end c = false ->
  m lit cls t (top_rast c e) i j -> i = 0%nat /\ j = length t.
Proof. exact search_with_both. Qed.

(* without $: a test case t in the language of e is what every leftmost search reports,
   provided no proper prefix of t is in the language *)
Theorem C08_search_prefix_free : forall (lit cls : cp -> cp -> Prop) c,
  printable c ->
  forall gap : Prop, (gap -> forall c0 x, surrogate c0 -> ~ lit c0 x) ->
  forall (e : expr) (t : str),
  wf_print_gen gap e -> f_no_end c = true ->
  L_expr lit cls e t ->
  (forall p, proper_prefix p t -> ~ L_expr lit cls e p) ->
  forall i j, m lit cls t (top_rast c e) i j ->
    (forall i' j', i' < i -> ~ m lit cls t (top_rast c e) i' j') ->
    i = 0%nat /\ j = length t.
Proof. exact search_prefix_free. Qed.

(* the known finding K2: a proper prefix p of t in the language gives the possible search
   result (0, length p), which is not the whole of t *)
Theorem C08_search_prefix_witness : forall (lit cls : cp -> cp -> Prop) c,
  printable c ->
  forall gap : Prop, (gap -> forall c0 x, surrogate c0 -> ~ lit c0 x) ->
  forall (e : expr) (p t : str),
  wf_print_gen gap e -> f_no_end c = true ->
  proper_prefix p t -> L_expr lit cls e p ->
  m lit cls t (top_rast c e) 0 (length p)
  /\ (forall i' j', i' < 0 -> ~ m lit cls t (top_rast c e) i' j')
  /\ (0%nat, length p) <> (0%nat, length t).
Proof. exact search_prefix_witness. Qed.

(* ... and K2 is exactly that: without $, every search result is the whole test case IF AND
   ONLY IF no proper prefix of the test case is in the language *)
Theorem C08_search_prefix_free_iff : forall (lit cls : cp -> cp -> Prop) c,
  printable c ->
  forall gap : Prop, (gap -> forall c0 x, surrogate c0 -> ~ lit c0 x) ->
  forall (e : expr) (t : str),
  wf_print_gen gap e -> f_no_end c = true -> L_expr lit cls e t ->
  (search_whole lit cls t (top_rast c e)
   <-> forall p, proper_prefix p t -> ~ L_expr lit cls e p).
Proof. exact search_prefix_free_iff. Qed.

(* the same for the string returned by build, as parsed by the model of the regex crate *)
Theorem C08_build_search : forall (lit cls : cp -> cp -> Prop) isd is_ws c db sc ws s,
  ws <> [] ->
  Forall (Forall scalar) ws ->
  (forall s0, In s0 ws -> Forall scalar (lower' db s0)) ->
  oracle_ok db (normalise c db ws) ->
  printable c -> f_verbose c = false -> ws_ok is_ws ->
  build isd c db sc ws = Some s ->
  exists e r, Pipeline.final_expr c (grapheme_clusters c db (normalise c db ws)) sc = Some e
    /\ parse is_ws s = Some (mkF (f_ci c) false, r)
    /\ (f_no_end c = false ->
        forall t, L_rast lit cls r t -> search_whole lit cls t r)
    /\ (f_no_start c = false -> forall t i j, m lit cls t r i j -> i = 0%nat)
    /\ (f_no_end c = true ->
        (forall c0 x, surrogate c0 -> ~ lit c0 x) ->
        forall t, L_expr lit cls e t ->
          (search_whole lit cls t r
           <-> forall p, proper_prefix p t -> ~ L_expr lit cls e p)).
Proof. exact build_search. Qed.

(* ... in either mode: the x flag of the parsed pattern is f_verbose c *)
Theorem C08_build_search_any : forall (lit cls : cp -> cp -> Prop) isd is_ws c db sc ws s,
  ws <> [] ->
  Forall (Forall scalar) ws ->
  (forall s0, In s0 ws -> Forall scalar (lower' db s0)) ->
  oracle_ok db (normalise c db ws) ->
  printable c -> (if f_verbose c then ws_x is_ws else ws_ok is_ws) ->
  build isd c db sc ws = Some s ->
  exists e r, Pipeline.final_expr c (grapheme_clusters c db (normalise c db ws)) sc = Some e
    /\ parse is_ws s = Some (mkF (f_ci c) (f_verbose c), r)
    /\ (f_no_end c = false ->
        forall t, L_rast lit cls r t -> search_whole lit cls t r)
    /\ (f_no_start c = false -> forall t i j, m lit cls t r i j -> i = 0%nat)
    /\ (f_no_end c = true ->
        (forall c0 x, surrogate c0 -> ~ lit c0 x) ->
        forall t, L_expr lit cls e t ->
          (search_whole lit cls t r
           <-> forall p, proper_prefix p t -> ~ L_expr lit cls e p)).
Proof. exact build_search_any. Qed.

(* executable form, for the extracted matcher (Engine/Exec.v) instantiated with any decision
   procedures for the denotations: the search returns start 0 and the single end length t *)
Theorem C08_find_leftmost_with_dollar :
  forall (lit cls : cp -> cp -> Prop) (lit_b cls_b : cp -> cp -> bool)
         (range_b : cp -> cp -> cp -> bool),
  (forall c x, lit_b c x = true <-> lit c x) ->
  (forall l x, cls_b l x = true <-> cls l x) ->
  (forall lo hi x,
     range_b lo hi x = true <-> exists c, (lo <= c)%N /\ (c <= hi)%N /\ lit c x) ->
  forall c (e : expr) (t : str),
  f_no_end c = false ->
  matches_whole lit_b cls_b range_b t (top_rast c e) = true ->
  find_leftmost lit_b cls_b range_b t (top_rast c e) = Some (0%nat, [length t]).
Proof. exact find_leftmost_with_dollar. Qed.

Theorem C08_find_leftmost_prefix_free :
  forall (lit cls : cp -> cp -> Prop) (lit_b cls_b : cp -> cp -> bool)
         (range_b : cp -> cp -> cp -> bool),
  (forall c x, lit_b c x = true <-> lit c x) ->
  (forall l x, cls_b l x = true <-> cls l x) ->
  (forall lo hi x,
     range_b lo hi x = true <-> exists c, (lo <= c)%N /\ (c <= hi)%N /\ lit c x) ->
  forall c (gap : Prop) (e : expr) (t : str),
  printable c -> (gap -> forall c0 x, surrogate c0 -> ~ lit c0 x) ->
  wf_print_gen gap e -> f_no_end c = true ->
  L_expr lit cls e t ->
  (forall p, proper_prefix p t -> ~ L_expr lit cls e p) ->
  find_leftmost lit_b cls_b range_b t (top_rast c e) = Some (0%nat, [length t]).
Proof. exact find_leftmost_prefix_free. Qed.

(* the anchors in the parsed output: ^ occurs iff not disabled, and then as the first atom of
   the top-level concatenation; $ occurs iff not disabled, and then as the last one; nowhere
   else (rast_sub x r: x occurs in r, Proofs/PropsGlueE2E.v; rcat: left-nested RCat) *)
Theorem C08_anchors_ast : forall isd is_ws c db sc ws s,
  ws <> [] ->
  Forall (Forall scalar) ws ->
  (forall s0, In s0 ws -> Forall scalar (lower' db s0)) ->
  oracle_ok db (normalise c db ws) ->
  printable c -> (if f_verbose c then ws_x is_ws else ws_ok is_ws) ->
  build isd c db sc ws = Some s ->
  exists r, parse is_ws s = Some (mkF (f_ci c) (f_verbose c), r)
    /\ (rast_sub RStart r <-> f_no_start c = false)
    /\ (rast_sub REnd r <-> f_no_end c = false)
    /\ exists atoms,
         r = rcat ((if f_no_start c then [] else [RStart]) ++ atoms
                   ++ (if f_no_end c then [] else [REnd]))
         /\ Forall (fun a => ~ rast_sub RStart a /\ ~ rast_sub REnd a) atoms.
Proof.
  intros isd is_ws c db sc ws s Hne Hsc Hlow Hok Hp Hws H.
  destruct (build_shape_any isd is_ws c db sc ws s Hne Hsc Hlow Hok Hp Hws H)
    as (r & Hr & _ & _ & Hs & He & Ha).
  exists r. split; [exact Hr|]. split; [exact Hs|]. split; [exact He|exact Ha].
Qed.

(* ---------------------------------------------------------------------------------------- *)
(* LEFTMOST-FIRST PRIORITY (Engine/Prio.v): what `Regex::find` REPORTS.  pends lists the ends of
   the matches from a position in the order a backtracking matcher (the crate's PikeVM) finds
   them; find_first is the least start with a match and the FIRST end from there.  The model is
   run against the real PikeVM on every C08 run (exact spans). *)

(* the priority list and the matching relation have the same members, for every pattern *)
Theorem C08_priority_same_matches :
  forall (lit cls : cp -> cp -> Prop) (lit_b cls_b : cp -> cp -> bool)
         (range_b : cp -> cp -> cp -> bool),
  (forall c x, lit_b c x = true <-> lit c x) ->
  (forall l x, cls_b l x = true <-> cls l x) ->
  (forall lo hi x,
     range_b lo hi x = true <-> exists c, (lo <= c)%N /\ (c <= hi)%N /\ lit c x) ->
  forall h r i j, In j (pends lit_b cls_b range_b h r i) <-> m lit cls h r i j.
Proof. exact pends_spec. Qed.

(* the reported span is a match from the least start that admits one *)
Theorem C08_find_first_sound :
  forall (lit cls : cp -> cp -> Prop) (lit_b cls_b : cp -> cp -> bool)
         (range_b : cp -> cp -> cp -> bool),
  (forall c x, lit_b c x = true <-> lit c x) ->
  (forall l x, cls_b l x = true <-> cls l x) ->
  (forall lo hi x,
     range_b lo hi x = true <-> exists c, (lo <= c)%N /\ (c <= hi)%N /\ lit c x) ->
  forall h r i j, find_first lit_b cls_b range_b h r = Some (i, j) ->
    m lit cls h r i j /\ (forall i' j', (i' < i)%nat -> ~ m lit cls h r i' j').
Proof. exact find_first_spec. Qed.

Theorem C08_find_first_none :
  forall (lit cls : cp -> cp -> Prop) (lit_b cls_b : cp -> cp -> bool)
         (range_b : cp -> cp -> cp -> bool),
  (forall c x, lit_b c x = true <-> lit c x) ->
  (forall l x, cls_b l x = true <-> cls l x) ->
  (forall lo hi x,
     range_b lo hi x = true <-> exists c, (lo <= c)%N /\ (c <= hi)%N /\ lit c x) ->
  forall h r, find_first lit_b cls_b range_b h r = None <-> forall i j, ~ m lit cls h r i j.
Proof. exact find_first_none. Qed.

(* with $ in place, `find` on a test case that is matched in full reports the whole test case *)
Theorem C08_find_first_with_dollar :
  forall (lit cls : cp -> cp -> Prop) (lit_b cls_b : cp -> cp -> bool)
         (range_b : cp -> cp -> cp -> bool),
  (forall c x, lit_b c x = true <-> lit c x) ->
  (forall l x, cls_b l x = true <-> cls l x) ->
  (forall lo hi x,
     range_b lo hi x = true <-> exists c, (lo <= c)%N /\ (c <= hi)%N /\ lit c x) ->
  forall c (e : expr) (t : str),
  f_no_end c = false ->
  matches_whole lit_b cls_b range_b t (top_rast c e) = true ->
  find_first lit_b cls_b range_b t (top_rast c e) = Some (0%nat, length t).
Proof. exact find_first_with_dollar. Qed.

(* without $: outside the class of known finding K2 (no proper prefix of t in the language)
   `find` reports the whole test case *)
Theorem C08_find_first_prefix_free :
  forall (lit cls : cp -> cp -> Prop) (lit_b cls_b : cp -> cp -> bool)
         (range_b : cp -> cp -> cp -> bool),
  (forall c x, lit_b c x = true <-> lit c x) ->
  (forall l x, cls_b l x = true <-> cls l x) ->
  (forall lo hi x,
     range_b lo hi x = true <-> exists c, (lo <= c)%N /\ (c <= hi)%N /\ lit c x) ->
  forall c (gap : Prop) (e : expr) (t : str),
  printable c -> (gap -> forall c0 x, surrogate c0 -> ~ lit c0 x) ->
  wf_print_gen gap e -> f_no_end c = true ->
  L_expr lit cls e t ->
  (forall p, proper_prefix p t -> ~ L_expr lit cls e p) ->
  find_first lit_b cls_b range_b t (top_rast c e) = Some (0%nat, length t).
Proof. exact find_first_prefix_free. Qed.

(* EVERY failure of the reported span is in the class of known finding K2 (Proofs/PrioK2.v): if
   `find` on a test case does not report the whole test case (no $), it reports (0, j0) with j0 <
   |t| and the prefix of length j0 is itself in the language of the expression -- "a shorter test
   case (or a generalisation of one) that is its prefix".  No decidability of the language needed. *)
Theorem C08_find_first_not_whole_is_K2 :
  forall (lit cls : cp -> cp -> Prop) (lit_b cls_b : cp -> cp -> bool)
         (range_b : cp -> cp -> cp -> bool),
  (forall c x, lit_b c x = true <-> lit c x) ->
  (forall l x, cls_b l x = true <-> cls l x) ->
  (forall lo hi x,
     range_b lo hi x = true <-> exists c, (lo <= c)%N /\ (c <= hi)%N /\ lit c x) ->
  forall c (gap : Prop) (e : expr) (t : str),
  printable c -> (gap -> forall c0 x, surrogate c0 -> ~ lit c0 x) ->
  wf_print_gen gap e -> f_no_end c = true ->
  L_expr lit cls e t ->
  find_first lit_b cls_b range_b t (top_rast c e) <> Some (0%nat, length t) ->
  exists j0 : nat,
    find_first lit_b cls_b range_b t (top_rast c e) = Some (0%nat, j0) /\
    (j0 < length t)%nat /\
    proper_prefix (firstn j0 t) t /\ L_expr lit cls e (firstn j0 t).
Proof. exact PrioK2.find_first_not_whole_K2_span. Qed.

(* ... so: the whole test case is reported, or a proper prefix of it is in the language *)
Theorem C08_find_first_whole_or_K2 :
  forall (lit cls : cp -> cp -> Prop) (lit_b cls_b : cp -> cp -> bool)
         (range_b : cp -> cp -> cp -> bool),
  (forall c x, lit_b c x = true <-> lit c x) ->
  (forall l x, cls_b l x = true <-> cls l x) ->
  (forall lo hi x,
     range_b lo hi x = true <-> exists c, (lo <= c)%N /\ (c <= hi)%N /\ lit c x) ->
  forall c (gap : Prop) (e : expr) (t : str),
  printable c -> (gap -> forall c0 x, surrogate c0 -> ~ lit c0 x) ->
  wf_print_gen gap e -> f_no_end c = true ->
  L_expr lit cls e t ->
  ((forall p, proper_prefix p t -> ~ L_expr lit cls e p) ->
   find_first lit_b cls_b range_b t (top_rast c e) = Some (0%nat, length t)) /\
  (find_first lit_b cls_b range_b t (top_rast c e) <> Some (0%nat, length t) ->
   exists p, proper_prefix p t /\ L_expr lit cls e p) /\
  (find_first lit_b cls_b range_b t (top_rast c e) = Some (0%nat, length t) \/
   (exists p, proper_prefix p t /\ L_expr lit cls e p)).
Proof. exact PrioK2.find_first_whole_iff. Qed.

(* priority laws: an alternation reports its FIRST alternative that matches ... *)
Theorem C08_first_end_alt :
  forall (lit_b cls_b : cp -> cp -> bool) (range_b : cp -> cp -> cp -> bool) h a b i,
  first_end lit_b cls_b range_b h (RAlt a b) i =
  match first_end lit_b cls_b range_b h a i with
  | Some j => Some j
  | None => first_end lit_b cls_b range_b h b i
  end.
Proof. exact first_end_alt. Qed.

(* ... so a plain alternation of words (the shape of the last-resort fallback) reports the first
   word, in list order, that is a prefix of the haystack *)
Theorem C08_alternation_first_prefix :
  forall (lit_b cls_b : cp -> cp -> bool) (range_b : cp -> cp -> cp -> bool) ws h i,
  first_end lit_b cls_b range_b h (alts ws) i =
  option_map (fun w => (i + length w)%nat) (find (fun w => prefix_at_b lit_b w h i) ws).
Proof. exact first_end_alts. Qed.

(* "alternatives ordered by descending length so that longer test cases are tried first": for
   distinct words sorted by length descending, every word is reported whole ... *)
Theorem C08_alternation_sorted_whole :
  forall (cls_b : cp -> cp -> bool) (ws : list str) (t : str),
  StronglySorted (fun a b : str => (length b <= length a)%nat) ws ->
  NoDup ws -> In t ws ->
  first_end lit_cs cls_b range_cs t (alts ws) 0 = Some (length t).
Proof. exact first_end_alts_sorted. Qed.

(* ... and an earlier alternative that is a proper prefix of t is what `find` reports instead
   (the mechanism of known finding K2) *)
Theorem C08_alternation_shorter_first :
  forall (cls_b : cp -> cp -> bool) (ws1 : list str) (w : str) (ws2 : list str) (t : str),
  Forall (fun v => prefix_at_b lit_cs v t 0 = false) ws1 ->
  prefix_at_b lit_cs w t 0 = true -> (length w < length t)%nat ->
  first_end lit_cs cls_b range_cs t (alts (ws1 ++ w :: ws2)) 0 = Some (length w)
  /\ first_end lit_cs cls_b range_cs t (alts (ws1 ++ w :: ws2)) 0 <> Some (length t).
Proof. exact first_end_alts_shorter. Qed.

(* ---------------------------------------------------------------------------------------- *)
(* THE SELF-CHECK INSIDE THE MODEL (Model/SelfCheck.v): the outcome [sc], an input of the theorems
   above, computed as src/regexp.rs computes it -- find_iter(tc).count() == 1 for every test case,
   on the candidate compiled without flags -- from the modelled semantics of the regex crate.
   build_closed has no input besides configuration, oracle data and test cases. *)

(* whatever build_closed returns is  build ... sc ...  for the computed outcome sc, so every theorem
   of this file (all of them quantify over every sc) applies to it *)
Theorem C08_selfcheck_computed : forall isd is_ws c db ws s,
  build_closed isd is_ws c db ws = Some s ->
  exists sc, build isd c db sc ws = Some s
    /\ (f_no_start c && f_no_end c = true ->
        sc_ref isd is_ws c (grapheme_clusters c db (normalise c db ws)) (normalise c db ws) = Some sc).
Proof. exact build_closed_build. Qed.

(* with an anchor in place the self-check is not consulted *)
Theorem C08_selfcheck_only_without_anchors : forall isd is_ws c db ws sc,
  f_no_start c && f_no_end c = false ->
  build_closed isd is_ws c db ws = build isd c db sc ws.
Proof. exact build_closed_anchored. Qed.

(* `for _ in 1..test_cases.len()`: with one test case the minimised candidate is never accepted *)
Theorem C08_selfcheck_single : forall isd is_ws c cls tcs,
  (length tcs <= 1)%nat -> sc_ref isd is_ws c cls tcs <> Some SCPass1.
Proof. exact sc_ref_single. Qed.

Print Assumptions C08_anchors_syntax.
Print Assumptions C08_body_invariant.
Print Assumptions C08_language_invariant.
Print Assumptions C08_no_anchors_exact.
Print Assumptions C08_verbose_caret.
Print Assumptions C08_search_with_dollar.
Print Assumptions C08_search_with_caret.
Print Assumptions C08_search_with_both.
Print Assumptions C08_search_prefix_free.
Print Assumptions C08_search_prefix_witness.
Print Assumptions C08_search_prefix_free_iff.
Print Assumptions C08_build_search.
Print Assumptions C08_build_search_any.
Print Assumptions C08_find_leftmost_with_dollar.
Print Assumptions C08_find_leftmost_prefix_free.
Print Assumptions C08_anchors_ast.
Print Assumptions C08_priority_same_matches.
Print Assumptions C08_find_first_sound.
Print Assumptions C08_find_first_none.
Print Assumptions C08_find_first_with_dollar.
Print Assumptions C08_find_first_prefix_free.
Print Assumptions C08_first_end_alt.
Print Assumptions C08_alternation_first_prefix.
Print Assumptions C08_alternation_sorted_whole.
Print Assumptions C08_alternation_shorter_first.
Print Assumptions C08_selfcheck_computed.
Print Assumptions C08_selfcheck_only_without_anchors.
Print Assumptions C08_selfcheck_single.
Print Assumptions C08_find_first_not_whole_is_K2.
Print Assumptions C08_find_first_whole_or_K2.

(* PARTIAL (Proofs/SelfCheckTotal.v).  Full statement wanted: for every configuration without surrogate
   escapes the computed self-check returns an outcome and never "skipped" -- i.e. Pipeline.sc_admissible,
   which the correspondence run enforces on the implementation's recorded outcome, holds of the model.
   Proved: in NON-VERBOSE mode, for candidates without a raw VT/FF character ([no_vf]).  Missing: verbose
   mode (the candidate is compiled without the x flag, the first one with its line breaks removed) and raw
   VT/FF (ordinary literals for the parser; the printing lemmas are stated after RegExp::fmt's replacement).
   The candidate is the Expression's string: no flags, no anchors, a top-level alternation NOT grouped. *)
From Grex Require Proofs.SelfCheckTotal.
Theorem C08_selfcheck_admissible_partial : forall isd is_ws, ColourStripBase.digit_ok isd -> ws_ok is_ws ->
  forall c db ws,
    let tcs := normalise c db ws in
    let cls := grapheme_clusters c db tcs in
    ws <> [] -> Forall (Forall scalar) tcs -> oracle_ok db tcs ->
    f_sur c = false -> f_verbose c = false ->
    (forall e1, SelfCheckTotal.cand1 c cls = Some e1 -> SelfCheckTotal.no_vf (cand_str isd c e1)) ->
    (exists sc, sc_ref isd is_ws c cls tcs = Some sc /\ sc <> SCSkipped /\ sc_admissible c sc = true)
    /\ (exists s, build_closed isd is_ws c db ws = Some s).
Proof. exact SelfCheckTotal.sc_ref_admissible_inputs. Qed.

(* the candidate handed to Regex::new parses, colour or not, to the alternatives of the expression *)
Theorem C08_candidate_parses_partial : forall isd is_ws, ColourStripBase.digit_ok isd -> ws_ok is_ws ->
  forall c gap e,
    f_sur c = false -> f_verbose c = false -> wf_print_gen gap e -> SelfCheckTotal.no_vf (cand_str isd c e) ->
    parse is_ws (cand_str isd c e)
    = Some (mkF false false, ralt (e_alts (ColourStripBase.with_colour c false) e)).
Proof. exact SelfCheckTotal.cand_str_parses. Qed.

Theorem C08_selfcheck_nonvacuous :
  sc_ref NonVacuity.isd NonVacuity.is_ws_std SelfCheckTotal.c_SC
         (grapheme_clusters SelfCheckTotal.c_SC SelfCheckTotal.db_SC (normalise SelfCheckTotal.c_SC SelfCheckTotal.db_SC SelfCheckTotal.ws_SC))
         (normalise SelfCheckTotal.c_SC SelfCheckTotal.db_SC SelfCheckTotal.ws_SC) = Some SCPass1
  /\ build_closed NonVacuity.isd NonVacuity.is_ws_std SelfCheckTotal.c_SC SelfCheckTotal.db_SC SelfCheckTotal.ws_SC = Some [97; 98; 63]%N.
Proof. exact SelfCheckTotal.sc_ref_world. Qed.
Print Assumptions C08_selfcheck_admissible_partial.
Print Assumptions C08_candidate_parses_partial.
Print Assumptions C08_selfcheck_nonvacuous.

(* VERBOSE MODE (Proofs/SelfCheckVerbose.v).  The string the test cases are searched with is, in either
   mode, the NON-verbose candidate: `regex.to_string().replace('\n', "")` undoes exactly the layout. *)
From Grex Require Proofs.SelfCheckVerbose.
Theorem C08_selfcheck_recompile_is_nonverbose : forall isd, ColourStripBase.digit_ok isd ->
  forall c gap e,
    f_sur c = false -> f_verbose c = true -> wf_print_gen gap e ->
    cand1_str isd c e = SelfCheckVerbose.cand_nv c e.
Proof. exact SelfCheckVerbose.cand1_str_verbose. Qed.

(* the computed self-check returns an outcome in every mode (the verbose re-compile cannot fail);
   PARTIAL: [no_vf]; and in verbose mode "not skipped" is not proved (first trial compile = verbose string
   without the x flag) *)
Theorem C08_selfcheck_total_partial : forall isd is_ws, ColourStripBase.digit_ok isd -> ws_ok is_ws ->
  forall c cls tcs,
    Forall wf_cluster cls -> Forall (Forall (wf_pg false)) cls -> cls <> [] ->
    f_sur c = false ->
    (forall e1, SelfCheckTotal.cand1 c cls = Some e1 -> SelfCheckTotal.no_vf (SelfCheckVerbose.cand_nv c e1)) ->
    exists sc, sc_ref isd is_ws c cls tcs = Some sc.
Proof. exact SelfCheckVerbose.sc_ref_total. Qed.
Print Assumptions C08_selfcheck_recompile_is_nonverbose.
Print Assumptions C08_selfcheck_total_partial.
