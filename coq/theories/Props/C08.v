(* C08 — anchors: ^ and $ are printed unless disabled, and disabling them changes nothing
   else. *)
From Grex Require Import Base.Str Model.Config Model.Cluster Model.Dfa Model.Expr Model.Print
  Model.Pipeline.
From Grex Require Import Proofs.Lang Proofs.Spec Proofs.PrintShape Proofs.Construction
  Proofs.PropsGlue.

(* non-verbose output: flag, optional ^, body, optional $; all four anchor settings share the
   same body *)
Theorem C08_anchors_syntax : forall isd c e s t,
  f_verbose c = false -> f_colour c = false ->
  regexp_str isd (set_anchors c s t) e =
  (if f_ci c then [40; 63; 105; 41]%N else []) ++
  (if s then [] else [94]%N) ++ body_str c e ++ (if t then [] else [36]%N).
Proof. exact regexp_str_anchors. Qed.

(* the printed body does not depend on the anchor settings *)
Theorem C08_body_invariant : forall c s t e, body_str (set_anchors c s t) e = body_str c e.
Proof. exact body_str_anchor_indep. Qed.

(* nor does the language of the generated expression (the expression itself may differ: with
   both anchors disabled the self-check may select another candidate) *)
Theorem C08_language_invariant : forall (lit cls : cp -> cp -> Prop) c s t db sc1 sc2 ws e1 e2,
  let c' := set_anchors c s t in
  ws <> [] ->
  oracle_ok db (normalise c db ws) ->
  no_merge (grapheme_clusters c db (normalise c db ws)) = true ->
  Pipeline.final_expr c (grapheme_clusters c db (normalise c db ws)) sc1 = Some e1 ->
  Pipeline.final_expr c' (grapheme_clusters c' db (normalise c' db ws)) sc2 = Some e2 ->
  forall u, (u <> [] \/ K4 (normalise c db ws) = false) ->
    (L_expr lit cls e1 u <-> L_expr lit cls e2 u).
Proof. exact anchors_language. Qed.

(* both anchors disabled and the minimised candidate rejected by the self-check (unminimised
   candidate or plain alternation): the language is exactly the specification, K4 included *)
Theorem C08_no_anchors_exact : forall (lit cls : cp -> cp -> Prop) c db sc ws e,
  ws <> [] ->
  oracle_ok db (normalise c db ws) ->
  no_merge (grapheme_clusters c db (normalise c db ws)) = true ->
  f_no_start c && f_no_end c = true -> sc = SCPass2 \/ sc = SCFail ->
  Pipeline.final_expr c (grapheme_clusters c db (normalise c db ws)) sc = Some e ->
  leq (L_expr lit cls e) (Spec lit cls c db ws).
Proof. exact construction_lang_exact. Qed.

(* verbose mode with the start anchor: the flag line is followed by the unindented ^ line *)
Theorem C08_verbose_caret : forall isd c e,
  f_verbose c = true -> f_colour c = false -> f_no_start c = false ->
  starts_with ((if f_ci c then [40; 63; 105; 120; 41]%N else [40; 63; 120; 41]%N) ++ [10; 94]%N)
              (regexp_str isd c e) = true.
Proof. exact regexp_str_verbose_flag_caret. Qed.

Print Assumptions C08_anchors_syntax.
Print Assumptions C08_body_invariant.
Print Assumptions C08_language_invariant.
Print Assumptions C08_no_anchors_exact.
Print Assumptions C08_verbose_caret.
