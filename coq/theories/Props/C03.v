(* C03 *)
From Grex Require Import Base.Str.
