(* C03 — the shorthand classes generalise exactly as documented.

   The language of the generated expression is the specification language Spec: some test case
   t, the same number of code points, and every code point accepted by the token that the
   corresponding code point of t is converted to — the first of \d \w \s \D \W \S that is
   enabled and contains it (judged by the regex crate's own tables), else the code point
   itself. *)
From Grex Require Import Base.Str Base.Ranges Model.Config Model.Cluster Model.Dfa Model.Expr
  Model.Pipeline.
From Grex Require Import Proofs.Lang Proofs.Spec Proofs.EngineDen Proofs.Construction
  Proofs.PropsGlue.
From Grex Require Import Engine.Syntax Engine.Parse Engine.Sem.
From Grex Require Import Proofs.PrintParseNum Proofs.PrintParseDefs Proofs.PrintParseXTok
  Proofs.PropsGlueE2E.
From Grex Require Import Props.C09.
From GrexGen Require Import GrexTables OracleTables.

(* the expression denotes the specification (engine classes, case-sensitive literals) *)
Theorem C03_classes : forall c db sc ws e,
  ws <> [] ->
  oracle_ok db (normalise c db ws) ->
  no_merge (grapheme_clusters c db (normalise c db ws)) = true ->
  Pipeline.final_expr c (grapheme_clusters c db (normalise c db ws)) sc = Some e ->
  (forall u, (u <> [] \/ K4 (normalise c db ws) = false) ->
     (L_expr lit_cs cls_engine e u <-> Spec lit_cs cls_engine c db ws u))
  /\ (L_expr lit_cs cls_engine e [] -> Spec lit_cs cls_engine c db ws []).
Proof. exact (construction_lang lit_cs cls_engine). Qed.

(* the specification of one test case, code point by code point: lengths agree and every
   position is independent *)
Theorem C03_spec_unfold : forall (lit cls : cp -> cp -> Prop) c s u,
  Spec_str lit cls c s u <->
  Forall2 (fun x y => den_str lit cls (class_token c class_chain x) [y]) s u.
Proof. exact Spec_str_unfold. Qed.

(* what a token accepts: a literal token [x] accepts what the literal x accepts, a class token
   \l accepts the members of the class *)
Theorem C03_token_language : forall (lit cls : cp -> cp -> Prop) c x u,
  den_str lit cls (class_token c class_chain x) u <->
  exists y, u = [y] /\
    ((class_token c class_chain x = [x] /\ lit x y)
     \/ exists l, class_token c class_chain x = [92%N; l] /\ is_class_letter l = true /\ cls l y).
Proof. exact den_token. Qed.

(* the documented precedence d, w, s, D, W, S — judged by the ENGINE's classes *)
Theorem C03_token_spec : forall cfg c, class_token cfg class_chain c = spec_token cfg c.
Proof. exact C09_token_spec. Qed.

(* the engine denotation of a class token is the tok_accepts form of C09 *)
Theorem C03_cls_engine : forall l x, cls_engine l x <-> tok_accepts [92%N; l] x = true.
Proof. exact cls_engine_tok. Qed.

(* END TO END, at the string level (notions: Props/C01.v (f)): the string returned by a
   case-sensitive build parses, and on haystacks of Unicode scalar values the parsed pattern
   matches exactly the specification language *)
Theorem C03_build_classes : forall isd is_ws c db sc ws s,
  f_ci c = false ->
  ws <> [] ->
  Forall (Forall scalar) ws ->
  oracle_ok db (normalise c db ws) ->
  printable c -> f_verbose c = false -> ws_ok is_ws ->
  no_merge (grapheme_clusters c db (normalise c db ws)) = true ->
  build isd c db sc ws = Some s ->
  exists fl r, parse is_ws s = Some (fl, r) /\ fl_i fl = false /\ fl_x fl = false
    /\ (forall u, Forall scalar u -> (u <> [] \/ K4 (normalise c db ws) = false) ->
          (L_rast lit_cs cls_engine r u <-> Spec lit_cs cls_engine c db ws u))
    /\ (L_rast lit_cs cls_engine r [] -> Spec lit_cs cls_engine c db ws []).
Proof. exact build_classes_cs_nv. Qed.

Theorem C03_build_classes_verbose : forall isd is_ws c db sc ws s,
  f_ci c = false ->
  ws <> [] ->
  Forall (Forall scalar) ws ->
  oracle_ok db (normalise c db ws) ->
  printable c -> f_verbose c = true -> ws_x is_ws ->
  no_merge (grapheme_clusters c db (normalise c db ws)) = true ->
  build isd c db sc ws = Some s ->
  exists fl r, parse is_ws s = Some (fl, r) /\ fl_i fl = false /\ fl_x fl = true
    /\ (forall u, Forall scalar u -> (u <> [] \/ K4 (normalise c db ws) = false) ->
          (L_rast lit_cs cls_engine r u <-> Spec lit_cs cls_engine c db ws u))
    /\ (L_rast lit_cs cls_engine r [] -> Spec lit_cs cls_engine c db ws []).
Proof. exact build_classes_cs_v. Qed.

(* the same for ANY denotation of literals and classes, over all haystacks (surrogate code
   points included), provided a surrogate pattern character denotes nothing *)
Theorem C03_build_parse_lang : forall (lit_den cls_den : cp -> cp -> Prop) isd is_ws c db sc ws s,
  ws <> [] ->
  Forall (Forall scalar) ws ->
  (forall s0, In s0 ws -> Forall scalar (lower' db s0)) ->
  oracle_ok db (normalise c db ws) ->
  printable c -> f_verbose c = false -> ws_ok is_ws ->
  (forall c0 x, surrogate c0 -> ~ lit_den c0 x) ->
  no_merge (grapheme_clusters c db (normalise c db ws)) = true ->
  build isd c db sc ws = Some s ->
  exists fl r, parse is_ws s = Some (fl, r) /\ fl_i fl = f_ci c /\ fl_x fl = false
    /\ (forall u, (u <> [] \/ K4 (normalise c db ws) = false) ->
          (L_rast lit_den cls_den r u <-> Spec lit_den cls_den c db ws u))
    /\ (L_rast lit_den cls_den r [] -> Spec lit_den cls_den c db ws []).
Proof. exact EndToEnd.build_parse_lang. Qed.

Theorem C03_build_parse_lang_verbose :
  forall (lit_den cls_den : cp -> cp -> Prop) isd is_ws c db sc ws s,
  ws <> [] ->
  Forall (Forall scalar) ws ->
  (forall s0, In s0 ws -> Forall scalar (lower' db s0)) ->
  oracle_ok db (normalise c db ws) ->
  printable c -> f_verbose c = true -> ws_x is_ws ->
  (forall c0 x, surrogate c0 -> ~ lit_den c0 x) ->
  no_merge (grapheme_clusters c db (normalise c db ws)) = true ->
  build isd c db sc ws = Some s ->
  exists fl r, parse is_ws s = Some (fl, r) /\ fl_i fl = f_ci c /\ fl_x fl = true
    /\ (forall u, (u <> [] \/ K4 (normalise c db ws) = false) ->
          (L_rast lit_den cls_den r u <-> Spec lit_den cls_den c db ws u))
    /\ (L_rast lit_den cls_den r [] -> Spec lit_den cls_den c db ws []).
Proof. exact EndToEndVerbose.build_parse_lang_verbose. Qed.

Print Assumptions C03_classes.
Print Assumptions C03_spec_unfold.
Print Assumptions C03_token_language.
Print Assumptions C03_token_spec.
Print Assumptions C03_cls_engine.
Print Assumptions C03_build_classes.
Print Assumptions C03_build_classes_verbose.
Print Assumptions C03_build_parse_lang.
Print Assumptions C03_build_parse_lang_verbose.

(* NON-VACUITY (Proofs/NonVacuity.v, world W9): C03_classes applied to ["a1","b22"] with digit
   conversion: the language of the computed expression (b\d|a)\d is the specification language,
   with the engine's own class tables. *)
From Grex Require Proofs.NonVacuity.
Theorem C03_nonvacuous : exists e s,
  NonVacuity.world_ok NonVacuity.c_W9 NonVacuity.db_W9 SCPass1 NonVacuity.ws_W9 true e s
  /\ (forall u, L_expr lit_cs cls_engine e u <-> Spec lit_cs cls_engine NonVacuity.c_W9 NonVacuity.db_W9 NonVacuity.ws_W9 u).
Proof.
  pose proof NonVacuity.W9 as W. do 2 eexists. split; [exact W|]. intro u.
  exact (proj1 (C03_classes _ _ _ _ _ (NonVacuity.w_nonempty _ _ _ _ _ _ _ W) (NonVacuity.w_oracle _ _ _ _ _ _ _ W)
                  (NonVacuity.w_no_merge _ _ _ _ _ _ _ W) (NonVacuity.w_expr _ _ _ _ _ _ _ W)) u (or_intror NonVacuity.W9_K4)).
Qed.
Print Assumptions C03_nonvacuous.
