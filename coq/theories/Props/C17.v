(* C17 *)
From Grex Require Import Base.Str.
