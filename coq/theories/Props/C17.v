(* C17 — the WebAssembly binding: every setter forwards to the library setter, and a program
   over several JavaScript builder objects behaves like independent library builders.

   wasm_setter / wasm_apply / wasm_to_lib are GENERATED from src/wasm.rs (gen/SrcWasm.v).
   wrun runs a program of operations on a heap of builder objects: WSet i s mutates object i
   and returns a clone of it (a new object), WBuild i builds from object i; `ancestries` is,
   for every object, the linear library history that produced it (Model/History.v). *)
From Grex Require Import Base.Str Model.Config Model.Builder Model.Pipeline Model.History.
From Grex Require Import Proofs.Wrappers.
From GrexGen Require Import SrcBuilder SrcWasm.

Theorem C17_setters : forall s c, wasm_apply s c = apply_setter (wasm_to_lib s) c.
Proof. exact Wrappers.C17_setters. Qed.

(* every object of the final heap is the state of the library builder after its own ancestry,
   and the outputs are the expected ones *)
Theorem C17_refines : forall (isd : cp -> bool) (db : odb) (sc : cfg -> list str -> selfcheck),
  (forall s, lower' db (lower' db s) = lower' db s) ->
  forall ops ws h outs,
  wrun isd db sc [mkB ws src_default_cfg] ops = Some (h, outs) ->
  Forall2 (fun st a => exists o, brun isd db sc (mkB ws src_default_cfg) a = Some (st, o))
          h (ancestries [[]] ops)
  /\ outs = wexpected isd db sc ws src_default_cfg [[]] ops.
Proof. exact Wrappers.C17_refines. Qed.

(* the state of object i: the settings accumulated along its ancestry, the test cases *)
Theorem C17_object_state : forall (isd : cp -> bool) (db : odb) (sc : cfg -> list str -> selfcheck),
  (forall s, lower' db (lower' db s) = lower' db s) ->
  forall ops ws h outs i st,
  wrun isd db sc [mkB ws src_default_cfg] ops = Some (h, outs) ->
  nth_error h i = Some st ->
  let a := nth i (ancestries [[]] ops) [] in
  cfg_after src_default_cfg a = Some (b_cfg st) /\ b_tcs st = tcs_after db ws src_default_cfg a.
Proof. exact Wrappers.C17_object_state. Qed.

Print Assumptions C17_setters.
Print Assumptions C17_refines.
Print Assumptions C17_object_state.
