(* C15 *)
From Grex Require Import Base.Str.
