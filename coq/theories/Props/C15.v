(* C15 — syntax highlighting only adds colour codes: removing the SGR sequences from the
   highlighted output yields exactly the plain output.

   strip_sgr isd models the documented way of removing the colour codes (the regex
   ESC \[ (?: \d+ ; \d+ | 0 ) m of the source, with isd the engine's \d); digit_ok isd is all
   that is needed of \d: it contains 0-9 and neither ';' nor 'm'. *)
From Grex Require Import Base.Str Base.Ranges Model.Config Model.Cluster Model.Dfa Model.Expr
  Model.Print Model.Pipeline.
From Grex Require Import Proofs.ColourStrip Proofs.CcSorted Proofs.PropsGlue Proofs.ColourBuild.
From GrexGen Require Import OracleTables.

(* the expression produced by the pipeline (any settings c0, any clusters), printed with any
   settings c: highlighted output, stripped = plain output.  Unconditional: the class members
   of pipeline expressions are strictly increasing (C15_cc_sorted), which is what verbose mode
   needs *)
Theorem C15_pipeline : forall isd c c0 cls sc e,
  digit_ok isd ->
  Pipeline.final_expr c0 cls sc = Some e ->
  strip_sgr isd (regexp_str isd (with_colour c true) e) = regexp_str isd (with_colour c false) e.
Proof. exact strip_pipeline. Qed.

Theorem C15_cc_sorted : forall c cls sc e,
  Pipeline.final_expr c cls sc = Some e -> expr_wf e.
Proof. exact final_expr_cc_sorted. Qed.

(* the engine's \d (dumped table) satisfies digit_ok *)
Theorem C15_digit_ok : digit_ok (mem engine_d).
Proof. exact digit_ok_engine. Qed.

(* arbitrary expressions: every expression when not verbose; in verbose mode the expressions
   whose class members are strictly increasing (false otherwise:
   ColourStrip.cex_verbose_unsorted) *)
Theorem C15_any_expr : forall isd c e, digit_ok isd ->
  (f_verbose c = true -> expr_wf e) ->
  strip_sgr isd (regexp_str isd (with_colour c true) e) = regexp_str isd (with_colour c false) e.
Proof. exact strip_regexp_str. Qed.

(* the expression printer alone: every expression, every setting *)
Theorem C15_e_str : forall isd c e, digit_ok isd ->
  strip_sgr isd (e_str (with_colour c true) e) = e_str (with_colour c false) e.
Proof. exact strip_e_str. Qed.

(* the plain output contains nothing that the stripper removes, when no literal and no class
   of the expression contains ESC (false otherwise: ColourStrip.cex_plain_no_sgr) *)
Theorem C15_plain_no_sgr : forall isd c e, esc_free e ->
  strip_sgr isd (regexp_str isd (with_colour c false) e) = regexp_str isd (with_colour c false) e.
Proof. exact plain_no_sgr. Qed.

(* two runs of build() that differ only in the colour flag (same test cases, same oracle data,
   same recorded self-check outcome): stripping the highlighted output gives the plain output.
   Nothing but the printer reads the flag (C15_colour_unread) *)
Theorem C15_build : forall isd c db sc ws s1 s2, digit_ok isd ->
  build isd (with_colour c true) db sc ws = Some s1 ->
  build isd (with_colour c false) db sc ws = Some s2 ->
  strip_sgr isd s1 = s2.
Proof. exact build_colour_strip. Qed.

(* the plain run exists (build never fails) *)
Theorem C15_build_ex : forall isd c db sc ws s1, digit_ok isd ->
  build isd (with_colour c true) db sc ws = Some s1 ->
  exists s2, build isd (with_colour c false) db sc ws = Some s2 /\ strip_sgr isd s1 = s2.
Proof. exact build_colour_strip_ex. Qed.

(* the stages before the printer do not read the colour flag *)
Theorem C15_colour_unread : forall c b,
  (forall db ws, normalise (with_colour c b) db ws = normalise c db ws)
  /\ (forall db ws, grapheme_clusters (with_colour c b) db ws = grapheme_clusters c db ws)
  /\ (forall cls sc, Pipeline.final_expr (with_colour c b) cls sc = Pipeline.final_expr c cls sc).
Proof. exact colour_unread. Qed.

Print Assumptions C15_pipeline.
Print Assumptions C15_cc_sorted.
Print Assumptions C15_digit_ok.
Print Assumptions C15_any_expr.
Print Assumptions C15_e_str.
Print Assumptions C15_plain_no_sgr.
Print Assumptions C15_build.
Print Assumptions C15_build_ex.
Print Assumptions C15_colour_unread.

(* NON-VACUITY (Proofs/NonVacuity.v, worlds W6 and W6p): C15_build applied to ["ab","ac"] in
   verbose mode with and without syntax highlighting, with the regex crate's real digit table:
   stripping the SGR sequences of the highlighted output gives the plain output. *)
From Grex Require Proofs.NonVacuity.
Theorem C15_nonvacuous : exists e s1 s2,
  NonVacuity.world_ok NonVacuity.c_W6 NonVacuity.db_W6 SCPass1 NonVacuity.ws_W6 true e s1
  /\ NonVacuity.world_ok NonVacuity.c_W6p NonVacuity.db_W6p SCPass1 NonVacuity.ws_W6p true e s2
  /\ s1 <> s2 /\ strip_sgr (mem engine_d) s1 = s2.
Proof.
  pose proof NonVacuity.W6 as W. pose proof NonVacuity.W6p as W'. do 3 eexists.
  split; [exact W|]. split; [exact W'|]. split; [discriminate|].
  exact (C15_build (mem engine_d) NonVacuity.c_W6p NonVacuity.db_W6 SCPass1 NonVacuity.ws_W6 _ _ C15_digit_ok
           (NonVacuity.w_build _ _ _ _ _ _ _ W) (NonVacuity.w_build _ _ _ _ _ _ _ W')).
Qed.
Print Assumptions C15_nonvacuous.
