(* C14 *)
From Grex Require Import Base.Str.
