(* C14 — the Python binding: the setters forward to the library (with the library's error
   messages for non-positive thresholds), and the \u{...} escapes of the library output are
   rewritten to Python's \uXXXX / \UXXXXXXXX, which denote the same code point.

   py_setter / py_apply / py_to_lib and the constants of the rewriting regex are GENERATED
   from src/python.rs (gen/SrcPython.v); py_rewrite models replace_unicode_escape_sequences
   (Model/PyRewrite.v). *)
From Coq Require Import ZArith.
From Grex Require Import Base.Str Model.Config Model.Builder Model.Expr Model.PyRewrite.
From Grex Require Import Proofs.Wrappers.
From GrexGen Require Import SrcConsts SrcBuilder SrcPython.

(* every Python setter is the library setter (arguments in range: positive thresholds) *)
Theorem C14_setters : forall s c, py_in_range s -> py_apply s c = apply_setter (py_to_lib s) c.
Proof. exact Wrappers.C14_setters. Qed.

Theorem C14_setters_total : forall s c, py_apply s c = apply_setter (py_to_lib s) c.
Proof. exact Wrappers.C14_setters_total. Qed.

(* non-positive thresholds raise ValueError with the library's messages *)
Theorem C14_errors : forall (q : Z) c, (q <= 0)%Z ->
  py_apply (py_with_minimum_repetitions q) c = inr msg_MINIMUM_REPETITIONS_MESSAGE /\
  py_apply (py_with_minimum_substring_length q) c = inr msg_MINIMUM_SUBSTRING_LENGTH_MESSAGE /\
  apply_setter (with_minimum_repetitions 0) c = inr msg_MINIMUM_REPETITIONS_MESSAGE /\
  apply_setter (with_minimum_substring_length 0) c = inr msg_MINIMUM_SUBSTRING_LENGTH_MESSAGE.
Proof. exact Wrappers.C14_errors. Qed.

(* the escape of one code point is rewritten to Python's escape of that code point *)
Theorem C14_rewrite_cp : forall c, (c <= 1114111)%N -> py_rewrite (esc_unicode c) = py_escape c.
Proof. exact Wrappers.C14_rewrite_cp. Qed.

(* ... also in context, and text without a backslash is left alone *)
Theorem C14_rewrite_esc : forall c rest, (c <= 1114111)%N ->
  py_rewrite (esc_unicode c ++ rest) = py_escape c ++ py_rewrite rest.
Proof. exact Wrappers.C14_rewrite_esc. Qed.

Theorem C14_rewrite_prefix : forall a b : str, ~ In 92%N a -> py_rewrite (a ++ b) = a ++ py_rewrite b.
Proof. exact Wrappers.C14_rewrite_prefix. Qed.

(* a whole output made of backslash-free text and escapes *)
Theorem C14_rewrite_pieces : forall ps,
  Forall piece_ok ps -> py_rewrite (flat_map piece_src ps) = flat_map piece_py ps.
Proof. exact Wrappers.C14_rewrite_pieces. Qed.

(* Python's escape reads back as the code point; its shape *)
Theorem C14_unescape : forall c, (c < 4294967296)%N -> py_unescape (py_escape c) = Some c.
Proof. exact Wrappers.C14_unescape. Qed.

Theorem C14_escape_shape : forall c,
  (exists h, py_escape c = [92%N; 117%N] ++ h /\ length h = 4 /\ (c <= 65535)%N) \/
  (exists h, py_escape c = [92%N; 85%N] ++ h /\ length h = 8 /\ (65535 < c)%N).
Proof. exact py_escape_shape. Qed.

(* the constants of the rewriting regex in the source are the ones the model assumes *)
Theorem C14_py_consts :
  Nat.leb py_rx_min_digits 1 = true /\ Nat.leb 6 py_rx_max_digits = true /\
  py_bmp_limit = 65535%N /\ py_bmp_width = 4 /\ py_astral_width = 8.
Proof. exact py_consts_ok. Qed.

Print Assumptions C14_setters.
Print Assumptions C14_setters_total.
Print Assumptions C14_errors.
Print Assumptions C14_rewrite_cp.
Print Assumptions C14_rewrite_esc.
Print Assumptions C14_rewrite_prefix.
Print Assumptions C14_rewrite_pieces.
Print Assumptions C14_unescape.
Print Assumptions C14_escape_shape.
Print Assumptions C14_py_consts.
