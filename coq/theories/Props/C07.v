(* C07 — the library is total: building never panics, on any input and with any settings; the
   only panics are the two documented ones of the threshold setters. *)
From Grex Require Import Base.Str Model.Config Model.Builder Model.Cluster Model.Dfa Model.Expr
  Model.Pipeline.
From Grex Require Import Proofs.Lang Proofs.Construction Proofs.Wrappers Proofs.PropsGlue Proofs.PropsGlueBuilder.
From Grex Require Import Engine.Syntax Engine.Parse.
From Grex Require Import Proofs.Spec Proofs.PrintParseNum Proofs.PrintParseDefs Proofs.PrintParseXTok
  Proofs.EndToEnd Proofs.EndToEndVerbose.
From GrexGen Require Import SrcConsts SrcBuilder.

(* build() always returns a regular expression *)
Theorem C07_total : forall isd c db sc ws, exists s, build isd c db sc ws = Some s.
Proof. exact build_total. Qed.

(* every stage up to the expression is total: on well-formed clusters, hence on the clusters
   of the pipeline *)
Theorem C07_final_expr_total : forall c cls sc, Forall wf_cluster cls ->
  exists e, Pipeline.final_expr c cls sc = Some e.
Proof. exact final_expr_total. Qed.

Theorem C07_final_expr_total_pipeline : forall c db tcs sc,
  exists e, Pipeline.final_expr c (grapheme_clusters c db tcs) sc = Some e.
Proof. exact final_expr_total_pipeline. Qed.

(* the setters (generated from src/builder.rs): a setter panics iff it is a threshold setter
   called with zero, and then with the documented message *)
Theorem C07_documented_panics : forall s c msg,
  apply_setter s c = inr msg <->
  (s = with_minimum_repetitions 0%N /\ msg = msg_MINIMUM_REPETITIONS_MESSAGE)
  \/ (s = with_minimum_substring_length 0%N /\ msg = msg_MINIMUM_SUBSTRING_LENGTH_MESSAGE).
Proof. exact setter_panics. Qed.

Theorem C07_positive_thresholds : forall q c, q <> 0%N ->
  apply_setter (with_minimum_repetitions q) c = inl (set_min_rep q c)
  /\ apply_setter (with_minimum_substring_length q) c = inl (set_min_len q c).
Proof. exact setter_thresholds_ok. Qed.

(* thresholds stay positive along any history of successful setter calls *)
Theorem C07_thresholds_stay_positive : forall s c c',
  apply_setter s c = inl c' ->
  (min_rep c <> 0%N -> min_rep c' <> 0%N) /\ (min_len c <> 0%N -> min_len c' <> 0%N).
Proof. exact setter_thresholds_pos. Qed.

(* the expression is well formed *)
Theorem C07_wf : forall c db sc ws e,
  Pipeline.final_expr c (grapheme_clusters c db (normalise c db ws)) sc = Some e -> wf_expr e.
Proof. exact construction_wf. Qed.

(* the output is always syntactically valid: build returns a string and the model of the
   regex crate's parser accepts it (notions: Props/C01.v (f)); no no_merge hypothesis *)
Theorem C07_valid : forall isd is_ws c db sc ws,
  ws <> [] ->
  Forall (Forall scalar) ws ->
  (forall s0, In s0 ws -> Forall scalar (lower' db s0)) ->
  oracle_ok db (normalise c db ws) ->
  printable c -> f_verbose c = false -> ws_ok is_ws ->
  exists s r, build isd c db sc ws = Some s
    /\ parse is_ws s = Some (mkF (f_ci c) false, r).
Proof. exact build_parses_total. Qed.

Theorem C07_valid_verbose : forall isd is_ws c db sc ws,
  ws <> [] ->
  Forall (Forall scalar) ws ->
  (forall s0, In s0 ws -> Forall scalar (lower' db s0)) ->
  oracle_ok db (normalise c db ws) ->
  printable c -> f_verbose c = true -> ws_x is_ws ->
  exists s r, build isd c db sc ws = Some s
    /\ parse is_ws s = Some (mkF (f_ci c) true, r).
Proof. exact build_parses_total_verbose. Qed.

Print Assumptions C07_total.
Print Assumptions C07_final_expr_total.
Print Assumptions C07_final_expr_total_pipeline.
Print Assumptions C07_documented_panics.
Print Assumptions C07_positive_thresholds.
Print Assumptions C07_thresholds_stay_positive.
Print Assumptions C07_wf.
Print Assumptions C07_valid.
Print Assumptions C07_valid_verbose.

(* NON-VACUITY (Proofs/NonVacuity.v, worlds W4a-c): C07_valid_verbose applied to the
   configuration in which the self-check and its fallbacks run (both anchors disabled, verbose,
   capturing groups): whatever the engine's verdict (first candidate, unminimised candidate,
   plain alternation), the model returns a string and the parser model accepts it. *)
From Grex Require Proofs.NonVacuity.
Theorem C07_nonvacuous : forall sc, exists s r,
  build NonVacuity.isd NonVacuity.c_W4a NonVacuity.db_W4a sc NonVacuity.ws_W4a = Some s
  /\ parse NonVacuity.is_ws_std s = Some (mkF false true, r).
Proof.
  pose proof NonVacuity.W4a as W. intro sc.
  exact (C07_valid_verbose NonVacuity.isd NonVacuity.is_ws_std NonVacuity.c_W4a NonVacuity.db_W4a sc NonVacuity.ws_W4a
           (NonVacuity.w_nonempty _ _ _ _ _ _ _ W) (NonVacuity.w_scalar _ _ _ _ _ _ _ W) NonVacuity.W4a_lower_scalar
           (NonVacuity.w_oracle _ _ _ _ _ _ _ W) NonVacuity.W4a_printable eq_refl NonVacuity.ws_x_std).
Qed.
Print Assumptions C07_nonvacuous.

(* PARTIAL (Proofs/SelfCheckTotal.v): totality of the CLOSED build -- the model with the self-check
   computed inside it, no free input left.  C07_total quantifies over every self-check outcome, which
   covers every outcome the code can produce, but says nothing about the code's `unwrap()` on the
   compiled candidate (src/regexp.rs convert_expr_to_regex): that unwrap is safe iff the candidate
   parses.  Proved here for non-verbose mode and candidates without raw VT/FF; see Props/C08.v
   (C08_selfcheck_admissible_partial) for what is missing. *)
From Grex Require Proofs.SelfCheckTotal Model.SelfCheck.
Theorem C07_closed_build_total_partial : forall isd is_ws, ColourStripBase.digit_ok isd -> ws_ok is_ws ->
  forall c db ws,
    let tcs := normalise c db ws in
    let cls := grapheme_clusters c db tcs in
    Forall (Forall (wf_pg false)) cls -> cls <> [] ->
    f_sur c = false -> f_verbose c = false ->
    (forall e1, SelfCheckTotal.cand1 c cls = Some e1 -> SelfCheckTotal.no_vf (SelfCheck.cand_str isd c e1)) ->
    exists s, SelfCheck.build_closed isd is_ws c db ws = Some s.
Proof. exact SelfCheckTotal.build_closed_total_nonverbose. Qed.
Print Assumptions C07_closed_build_total_partial.

(* ... and in EVERY mode (Proofs/SelfCheckVerbose.v): in verbose mode the first candidate is re-compiled
   after `replace('\n', "")` -- `Regex::new(..).unwrap()` in src/regexp.rs.  Removing the line breaks
   from the Expression's verbose string gives exactly its non-verbose string (remove_nl_e_str: a line
   break of a test case is always printed as the two characters \ n), which parses: that unwrap cannot
   fail.  Hypothesis [no_vf] on the non-verbose candidate as above. *)
From Grex Require Proofs.SelfCheckVerbose.
Theorem C07_closed_build_total_any_mode_partial : forall isd is_ws, ColourStripBase.digit_ok isd -> ws_ok is_ws ->
  forall c db ws,
    let tcs := normalise c db ws in
    let cls := grapheme_clusters c db tcs in
    Forall (Forall (wf_pg false)) cls -> cls <> [] ->
    f_sur c = false ->
    (forall e1, SelfCheckTotal.cand1 c cls = Some e1 -> SelfCheckTotal.no_vf (SelfCheckVerbose.cand_nv c e1)) ->
    exists s, SelfCheck.build_closed isd is_ws c db ws = Some s.
Proof. exact SelfCheckVerbose.build_closed_total. Qed.
Print Assumptions C07_closed_build_total_any_mode_partial.
