(* C07 *)
From Grex Require Import Base.Str.
