(* C05 — repetition conversion is notation only: it changes how the language is written, not
   the language.  (Known finding K1: once repetitions are converted the trie construction may
   merge edges with different bounds; the language statements assume no_merge, and
   C05_K1_witness shows that the assumption can fail.) *)
From Grex Require Import Base.Str Model.Config Model.Cluster Model.Dfa Model.Expr Model.Pipeline.
From Grex Require Import Proofs.Lang Proofs.Spec Proofs.RepInv Proofs.Construction
  Proofs.PropsGlue.
From Grex Require Proofs.MergeLang Proofs.NoMerge.

(* on one cluster: same language, and expanding the repetitions gives the cluster back *)
Theorem C05_clusters : forall (lit cls : cp -> cp -> Prop) c cl,
  Forall plain cl ->
  leq (L_cluster lit cls (convert_repetitions c cl)) (L_cluster lit cls cl)
  /\ expand (convert_repetitions c cl) = cl.
Proof.
  intros lit cls c cl H.
  exact (conj (convert_repetitions_lang lit cls c cl H) (expand_convert c cl H)).
Qed.

(* the specification does not read f_rep, min_rep, min_len (nor any presentation setting) *)
Theorem C05_spec_indep : forall (lit cls : cp -> cp -> Prop) c1 c2 db ws,
  same_lang_settings c1 c2 -> leq (Spec lit cls c1 db ws) (Spec lit cls c2 db ws).
Proof. exact Spec_settings. Qed.

(* two configurations with the same class options and the same (?i) setting — in particular
   two that differ only in f_rep / min_rep / min_len: the generated expressions denote the
   same language *)
Theorem C05_notation : forall (lit cls : cp -> cp -> Prop) c1 c2 db sc1 sc2 ws e1 e2,
  f_digit c1 = f_digit c2 /\ f_non_digit c1 = f_non_digit c2 /\
  f_space c1 = f_space c2 /\ f_non_space c1 = f_non_space c2 /\
  f_word c1 = f_word c2 /\ f_non_word c1 = f_non_word c2 /\
  f_ci c1 = f_ci c2 ->
  ws <> [] ->
  oracle_ok db (normalise c1 db ws) ->
  no_merge (grapheme_clusters c1 db (normalise c1 db ws)) = true ->
  no_merge (grapheme_clusters c2 db (normalise c2 db ws)) = true ->
  Pipeline.final_expr c1 (grapheme_clusters c1 db (normalise c1 db ws)) sc1 = Some e1 ->
  Pipeline.final_expr c2 (grapheme_clusters c2 db (normalise c2 db ws)) sc2 = Some e2 ->
  forall u, (u <> [] \/ K4 (normalise c1 db ws) = false) ->
    (L_expr lit cls e1 u <-> L_expr lit cls e2 u).
Proof. exact construction_lang_settings. Qed.

(* without repetition conversion no_merge holds *)
Theorem C05_no_merge_without_rep : forall c db ws, f_rep c = false ->
  no_merge (grapheme_clusters c db (normalise c db ws)) = true.
Proof. exact construction_exact_default. Qed.

(* K1: with repetition conversion merging does happen: "aaa", "aaaa" *)
Theorem C05_K1_witness :
  no_merge (grapheme_clusters Sanity.c_rep []
              (normalise Sanity.c_rep [] [[97; 97; 97]%N; [97; 97; 97; 97]%N])) = false.
Proof. exact Sanity.merge_happens. Qed.

(* REPETITION CONVERSION NEVER LOSES A STRING.  c and c' have the same class options and the
   same (?i) setting and c' does not convert repetitions (in particular: c' is c with
   f_rep := false).  No no_merge: every string of the expression built WITHOUT repetition
   conversion is in the language of the expression built WITH it, for any two self-check
   outcomes (without repetitions the language is the specification, the specification does
   not read f_rep, and with repetitions every specification string is accepted even when trie
   edges are merged).  The converse inclusion is K1: C05_never_loses_example *)
Theorem C05_never_loses : forall (lit cls : cp -> cp -> Prop) c c' db sc sc' ws e e',
  f_digit c = f_digit c' /\ f_non_digit c = f_non_digit c' /\
  f_space c = f_space c' /\ f_non_space c = f_non_space c' /\
  f_word c = f_word c' /\ f_non_word c = f_non_word c' /\
  f_ci c = f_ci c' ->
  f_rep c' = false ->
  ws <> [] ->
  oracle_ok db (normalise c db ws) ->
  Pipeline.final_expr c (grapheme_clusters c db (normalise c db ws)) sc = Some e ->
  Pipeline.final_expr c' (grapheme_clusters c' db (normalise c' db ws)) sc' = Some e' ->
  forall u, (u <> [] \/ K4 (normalise c db ws) = false) ->
    L_expr lit cls e' u -> L_expr lit cls e u.
Proof. exact MergeLang.never_loses. Qed.

(* non-vacuity on a merging input, and the converse fails there: "abc" "abbd"; with
   repetition conversion ab{1,2}[cd], without ab(?:bd|c); the former accepts "abd", the
   latter does not *)
Example C05_never_loses_example :
  no_merge (grapheme_clusters MergeLang.Sanity.c_rep []
              (normalise MergeLang.Sanity.c_rep [] MergeLang.Sanity.ws1)) = false
  /\ (forall sc, Pipeline.final_expr MergeLang.Sanity.c_rep
                   (grapheme_clusters MergeLang.Sanity.c_rep []
                      (normalise MergeLang.Sanity.c_rep [] MergeLang.Sanity.ws1)) sc
                 = Some MergeLang.Sanity.e1)
  /\ (forall sc, Pipeline.final_expr MergeLang.Sanity.c_norep
                   (grapheme_clusters MergeLang.Sanity.c_norep []
                      (normalise MergeLang.Sanity.c_norep [] MergeLang.Sanity.ws1)) sc
                 = Some MergeLang.Sanity.e1')
  /\ (forall u, L_expr eq eq MergeLang.Sanity.e1' u -> L_expr eq eq MergeLang.Sanity.e1 u)
  /\ L_expr eq eq MergeLang.Sanity.e1 [97; 98; 100]%N
  /\ ~ L_expr eq eq MergeLang.Sanity.e1' [97; 98; 100]%N.
Proof.
  exact (conj MergeLang.Sanity.k1_merge (conj MergeLang.Sanity.k1_expr
          (conj MergeLang.Sanity.k1_expr_norep (conj MergeLang.Sanity.k1_never_loses
            (conj MergeLang.Sanity.k1_over MergeLang.Sanity.k1_norep_rejects))))).
Qed.

Print Assumptions C05_clusters.
Print Assumptions C05_spec_indep.
Print Assumptions C05_notation.
(* WHERE THE EXACTNESS THEOREM APPLIES WITH REPETITION CONVERSION ON (Proofs/NoMerge.v): two
   sufficient conditions for no_merge, the hypothesis of the construction theorem, that can be read
   off the input. *)

(* (1) one test case (or several equal ones): the trie is a single path, nothing is widened *)
Theorem C05_no_merge_single : forall c db ws,
  (length (normalise c db ws) <= 1)%nat ->
  no_merge (grapheme_clusters c db (normalise c db ws)) = true.
Proof. exact NoMerge.no_merge_pipeline_le1. Qed.

Theorem C05_normalise_single : forall c db w n,
  length (normalise c db (repeat w (S n))) = 1%nat.
Proof. exact NoMerge.normalise_repeat. Qed.

(* ... hence for ONE test case, every configuration, every thresholds, every self-check outcome:
   the expression built WITH repetition conversion has exactly the specification language *)
Theorem C05_single_test_case_exact : forall (lit cls : cp -> cp -> Prop) c db sc ws e,
  ws <> [] ->
  oracle_ok db (normalise c db ws) ->
  (length (normalise c db ws) <= 1)%nat ->
  Pipeline.final_expr c (grapheme_clusters c db (normalise c db ws)) sc = Some e ->
  (forall u, (u <> [] \/ K4 (normalise c db ws) = false) ->
     (L_expr lit cls e u <-> Spec lit cls c db ws u))
  /\ (L_expr lit cls e [] -> Spec lit cls c db ws []).
Proof. exact NoMerge.construction_lang_single. Qed.

(* (2) the widening branch (known finding K1) needs two graphemes with the same characters whose
   upper counts differ by exactly one somewhere in the converted test cases *)
Theorem C05_no_merge_adjacent_free : forall cls,
  NoMerge.adjacent_free cls = true -> no_merge cls = true.
Proof. exact NoMerge.no_merge_adjacent_free. Qed.

Theorem C05_exact_without_adjacent_counts : forall (lit cls : cp -> cp -> Prop) c db sc ws e,
  ws <> [] ->
  oracle_ok db (normalise c db ws) ->
  NoMerge.adjacent_free (grapheme_clusters c db (normalise c db ws)) = true ->
  Pipeline.final_expr c (grapheme_clusters c db (normalise c db ws)) sc = Some e ->
  (forall u, (u <> [] \/ K4 (normalise c db ws) = false) ->
     (L_expr lit cls e u <-> Spec lit cls c db ws u))
  /\ (L_expr lit cls e [] -> Spec lit cls c db ws []).
Proof. exact NoMerge.construction_lang_adjacent_free. Qed.

Print Assumptions C05_no_merge_single.
Print Assumptions C05_normalise_single.
Print Assumptions C05_single_test_case_exact.
Print Assumptions C05_no_merge_adjacent_free.
Print Assumptions C05_exact_without_adjacent_counts.
Print Assumptions C05_no_merge_without_rep.
Print Assumptions C05_K1_witness.
Print Assumptions C05_never_loses.
Print Assumptions C05_never_loses_example.

(* NON-VACUITY (Proofs/NonVacuity.v, worlds W2m and W2n): C05_never_loses applied to ["ba","bb"]:
   everything the build without repetition conversion (b[ab]) accepts is accepted by the build
   with it (b{1,2}a?), the input on which trie widening happens. *)
From Grex Require Proofs.NonVacuity.
Theorem C05_nonvacuous : exists e s e' s',
  NonVacuity.world_ok NonVacuity.c_W2m NonVacuity.db_W2m SCPass1 NonVacuity.ws_W2m false e s
  /\ NonVacuity.world_ok NonVacuity.c_W2n NonVacuity.db_W2n SCPass1 NonVacuity.ws_W2n true e' s'
  /\ (forall (lit cls : cp -> cp -> Prop) u, L_expr lit cls e' u -> L_expr lit cls e u).
Proof.
  pose proof NonVacuity.W2m as W. pose proof NonVacuity.W2n as W'. do 4 eexists.
  split; [exact W|]. split; [exact W'|].
  intros lit cls u.
  exact (C05_never_loses lit cls NonVacuity.c_W2m NonVacuity.c_W2n NonVacuity.db_W2m SCPass1 SCPass1 NonVacuity.ws_W2m _ _
           (conj eq_refl (conj eq_refl (conj eq_refl (conj eq_refl (conj eq_refl (conj eq_refl eq_refl))))))
           eq_refl (NonVacuity.w_nonempty _ _ _ _ _ _ _ W) (NonVacuity.w_oracle _ _ _ _ _ _ _ W)
           (NonVacuity.w_expr _ _ _ _ _ _ _ W) (NonVacuity.w_expr _ _ _ _ _ _ _ W') u (or_intror NonVacuity.W2m_K4)).
Qed.
Print Assumptions C05_nonvacuous.
