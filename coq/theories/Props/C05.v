(* C05 *)
From Grex Require Import Base.Str.
